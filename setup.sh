#!/bin/sh
# Build the framework from files on disk only (offline): regenerate Gen/* from /repo, build all
# Lean modules (theorems are kernel-checked here for the first time) and the model driver, and
# build the Go harness against /repo's working tree.
set -e
cd "$(dirname "$0")"
export GOFLAGS=-mod=mod GOPROXY=off GOSUMDB=off GOTOOLCHAIN=local
mkdir -p .build .work evidence replays
for t in tools/gen_*.py; do python3 "$t"; done
(cd lean && lake build FgaVerif driver)
(cd harness && cp /repo/pkg/go/go.sum ./go.sum.repo 2>/dev/null || true; go build -tags verif -o ../.build/harness . || go build -o ../.build/harness-nohooks .)
echo setup done
