/-! A structurally recursive stable insertion sort (kernel-evaluable, unlike core's mergeSort). -/
namespace FgaVerif

/-- insert `x` after all elements `y` with `le y x` … i.e. before the first `y` with `¬ le y x` -/
def insertSorted (le : α → α → Bool) (x : α) : List α → List α
  | [] => [x]
  | y :: ys => if le y x then y :: insertSorted le x ys else x :: y :: ys

/-- stable: equal elements keep their input order (elements are inserted from the right) -/
def insertionSort (le : α → α → Bool) : List α → List α
  | [] => []
  | x :: xs => insertSortedL le x (insertionSort le xs)
where
  /-- insert `x` in front of the first `y` with `¬ le y x`… for stability when folding from the
      right, `x` must go *before* equal elements -/
  insertSortedL (le : α → α → Bool) (x : α) : List α → List α
    | [] => [x]
    | y :: ys => if le x y then x :: y :: ys else y :: insertSortedL le x ys

end FgaVerif
