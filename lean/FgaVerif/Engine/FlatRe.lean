/-
Flat regular expressions: a sequence of atoms `(class, min, max)`.
This is exactly the fragment the tuple-field validation rules of openfga/language use
(`pkg/go/validation/validation-rules.go`): anchored concatenations of (negated) character
classes and literals with bounded or unbounded repetition, no alternation, no groups.

Contents: the class/atom data types, the declarative matching relation `M`, the executable
matcher `matchB`, and a parser from the concrete rule text (`List Char`) to atoms.
-/
namespace FgaVerif.FlatRe

/-- one item of a bracket class -/
inductive ClsItem where
  | ch (c : Char)
  | range (lo hi : Char)
  | space                       -- `\s` : RE2 / Go: [\t\n\f\r ]
  deriving Repr, DecidableEq, Inhabited

def isSpaceRE2 (c : Char) : Bool :=
  c == '\t' || c == '\n' || c == '\x0c' || c == '\r' || c == ' '

def ClsItem.mem : ClsItem → Char → Bool
  | .ch d, c => c == d
  | .range lo hi, c => lo.val ≤ c.val && c.val ≤ hi.val
  | .space, c => isSpaceRE2 c

/-- a character class: a (possibly negated) list of items -/
structure Cls where
  neg : Bool
  items : List ClsItem
  deriving Repr, DecidableEq, Inhabited

def Cls.mem (k : Cls) (c : Char) : Bool :=
  (k.items.any (·.mem c)) != k.neg

structure Atom where
  cls : Cls
  min : Nat
  max : Option Nat   -- none = unbounded
  deriving Repr, DecidableEq, Inhabited

/-- declarative matching of a whole string by a sequence of atoms -/
inductive M : List Atom → List Char → Prop
  | nil : M [] []
  | cons (a : Atom) (as : List Atom) (s₁ s₂ : List Char) :
      (∀ x ∈ s₁, a.cls.mem x = true) → a.min ≤ s₁.length → (∀ m, a.max = some m → s₁.length ≤ m) →
      M as s₂ → M (a :: as) (s₁ ++ s₂)

def maxOk (mx : Option Nat) (k : Nat) : Bool :=
  match mx with
  | none => true
  | some m => k ≤ m

/-- try the split points `k, k-1, …, 0` -/
def trySplits (a : Atom) (rest : List Char → Bool) (s : List Char) : Nat → Bool
  | 0 => a.min ≤ 0 && maxOk a.max 0 && rest s
  | k+1 =>
    (a.min ≤ k+1 && maxOk a.max (k+1) && (s.take (k+1)).all a.cls.mem && rest (s.drop (k+1)))
      || trySplits a rest s k

/-- executable matcher: whole-string match -/
def matchB : List Atom → List Char → Bool
  | [], s => s.isEmpty
  | a :: as, s => trySplits a (matchB as) s s.length

/-! ### parser for the concrete syntax used by the rules -/

def digitVal (c : Char) : Option Nat :=
  if '0' ≤ c ∧ c ≤ '9' then some (c.toNat - '0'.toNat) else none

/-- read a decimal number; returns value and rest (at least one digit) -/
def readNat : List Char → Option (Nat × List Char)
  | [] => none
  | c :: cs =>
    match digitVal c with
    | none => none
    | some d => some (go d cs)
where
  go (acc : Nat) : List Char → Nat × List Char
    | [] => (acc, [])
    | c :: cs =>
      match digitVal c with
      | none => (acc, c :: cs)
      | some d => go (acc * 10 + d) cs

/-- items of a bracket class up to the closing `]`; fuel = remaining length -/
def readItems : Nat → List Char → List ClsItem → Option (List ClsItem × List Char)
  | 0, _, _ => none
  | _, [], _ => none
  | _+1, ']' :: rest, acc => some (acc.reverse, rest)
  | n+1, '\\' :: 's' :: rest, acc => readItems n rest (.space :: acc)
  | n+1, '\\' :: c :: rest, acc =>
      if c.isAlphanum then none else readItems n rest (.ch c :: acc)   -- only escaped punctuation
  | n+1, lo :: '-' :: hi :: rest, acc =>
      if hi == ']' then readItems n ('-' :: hi :: rest) (.ch lo :: acc)
      else readItems n rest (.range lo hi :: acc)
  | n+1, c :: rest, acc => readItems n rest (.ch c :: acc)

/-- one class or literal -/
def readCls : List Char → Option (Cls × List Char)
  | '[' :: '^' :: rest =>
      match readItems (rest.length + 1) rest [] with
      | some (is, r) => some (⟨true, is⟩, r)
      | none => none
  | '[' :: rest =>
      match readItems (rest.length + 1) rest [] with
      | some (is, r) => some (⟨false, is⟩, r)
      | none => none
  | '\\' :: 's' :: rest => some (⟨false, [.space]⟩, rest)
  | '\\' :: c :: rest => if c.isAlphanum then none else some (⟨false, [.ch c]⟩, rest)
  | c :: rest =>
      if c == '(' || c == ')' || c == '|' || c == '.' || c == '*' || c == '+' || c == '?' ||
         c == '{' || c == '}' || c == '^' || c == '$' || c == ']' then none
      else some (⟨false, [.ch c]⟩, rest)
  | [] => none

/-- optional quantifier -/
def readQuant : List Char → Option (Nat × Option Nat × List Char)
  | '*' :: rest => some (0, none, rest)
  | '+' :: rest => some (1, none, rest)
  | '?' :: rest => some (0, some 1, rest)
  | '{' :: rest =>
      match readNat rest with
      | some (m, ',' :: r) =>
          match readNat r with
          | some (n, '}' :: r') => some (m, some n, r')
          | some _ => none
          | none => match r with
            | '}' :: r' => some (m, none, r')
            | _ => none
      | some (m, '}' :: r) => some (m, some m, r)
      | _ => none
  | rest => some (1, some 1, rest)

/-- sequence of atoms up to the final `$` -/
def readAtoms : Nat → List Char → List Atom → Option (List Atom)
  | 0, _, _ => none
  | _+1, ['$'], acc => some acc.reverse
  | n+1, s, acc =>
      match readCls s with
      | none => none
      | some (k, r) =>
        match readQuant r with
        | none => none
        | some (mn, mx, r') =>
          -- a lazy / possessive suffix is outside the fragment
          match r' with
          | '?' :: _ => none
          | '+' :: _ => none
          | _ => readAtoms n r' (⟨k, mn, mx⟩ :: acc)

/-- parse an anchored pattern `^ … $` -/
def parse : List Char → Option (List Atom)
  | '^' :: rest => readAtoms (rest.length + 1) rest []
  | _ => none

end FgaVerif.FlatRe
