import FgaVerif.Model.Ast
import FgaVerif.Engine.Sort
/-! Declarative-side specification of the weighted graph (C04, C05, C06, C11), independent of the
    DFS / placeholder algorithm of `weighted_graph.go`.

    A *specification graph* is derived from the model: one node per relation, per operator
    occurrence (named by its path below the relation) and — in `grouped` mode — one "group" node for
    every direct-assignment list or tuple-to-userset that is an operand of an intersection or
    exclusion, so that an operand is a whole `[..]` / `x from y`, not one of its edges (this is
    exactly what the property statement demands).  With `grouped := false` every edge is an operand,
    which is what the code does; that variant is used only to recognise the known findings.

    Weights are the least fixed point of: relation/union/group = pointwise max over edges,
    intersection = keys common to all edges with max, exclusion = keys of the first edge(s) with max
    over both; an edge contributes its target's weights, +1 if it is a hop (direct or TTU edge), and
    `{T ↦ 1}` into a terminal type or wildcard.  A value that exceeds the number of nodes can only
    come from a cycle with a hop, i.e. from unbounded walks: it is `Infinite`. -/
namespace FgaVerif.Spec.Weights
open FgaVerif.Model

def infinite : Nat := 2147483647   -- math.MaxInt32

inductive Kind where | rel | union | inter | diff | group
  deriving Repr, DecidableEq, Inhabited, BEq

/-- target of an edge -/
inductive Target where
  | node (name : String)
  | type (t : String)          -- terminal type
  | wildcard (t : String)      -- terminal `t:*`
  deriving Repr, DecidableEq, Inhabited, BEq

structure Edge where
  dst : Target
  hop : Bool
  tag : String := ""     -- TTU: "type#tupleset" (only used to merge equal edges in the edge-operand variant)
  deriving Repr, DecidableEq, Inhabited, BEq

structure Node where
  name : String
  kind : Kind
  edges : List Edge
  deriving Repr, DecidableEq, Inhabited, BEq

abbrev SGraph := List Node
abbrev WMap := List (String × Nat)               -- user type ↦ weight, key-sorted
abbrev State := List (String × WMap)             -- node ↦ weights

def relMeta (td : TypeDef) (rel : String) : List RelRef :=
  match td.md with
  | none => []
  | some m => ((AList.find? rel m.relations).map (·.restr)).getD []

def refTarget (r : RelRef) : Target :=
  if r.wildcard then .wildcard r.type
  else if r.rel == "" then .type r.type
  else .node (r.type ++ "#" ++ r.rel)

def thisEdges (td : TypeDef) (rel : String) : List Edge :=
  (relMeta td rel).map (fun r => ⟨refTarget r, true, ""⟩)

def ttuEdges (td : TypeDef) (ts cu : String) : List Edge :=
  (relMeta td ts).map (fun r => ⟨.node (r.type ++ "#" ++ cu), true, td.name ++ "#" ++ ts⟩)

def isOp : Userset → Bool
  | .union _ | .inter _ | .diff _ _ => true
  | _ => false

mutual
  /-- the edges an operand contributes to its parent (and the nodes it creates).  Operator nodes
      are named `T#r@k`, k = preorder ordinal of the operator inside the relation (threaded as
      `ctr`); `group = some name`: the parent is an intersection/exclusion, grouping is on, and
      `name` is the name a group node for this operand gets. -/
  def operand (grouped : Bool) (td : TypeDef) (rel : String) (rname : String) (group : Option String) :
      Userset → Nat → List Edge × List Node × Nat
    | .this, ctr =>
        let es := thisEdges td rel
        match group with
        | some gn => ([⟨.node gn, false, ""⟩], [⟨gn, .group, es⟩], ctr)
        | none => (es, [], ctr)
    | .computed r, ctr => ([⟨.node (td.name ++ "#" ++ r), false, ""⟩], [], ctr)
    | .ttu ts cu, ctr =>
        let es := ttuEdges td ts cu
        match group with
        | some gn => ([⟨.node gn, false, ""⟩], [⟨gn, .group, es⟩], ctr)
        | none => (es, [], ctr)
    | .union cs, ctr =>
        let name := rname ++ "@" ++ toString ctr
        let (es, ns, ctr') := operands grouped td rel rname name false cs 0 (ctr + 1)
        ([⟨.node name, false, ""⟩], ⟨name, .union, es⟩ :: ns, ctr')
    | .inter cs, ctr =>
        let name := rname ++ "@" ++ toString ctr
        let (es, ns, ctr') := operands grouped td rel rname name grouped cs 0 (ctr + 1)
        ([⟨.node name, false, ""⟩], ⟨name, .inter, es⟩ :: ns, ctr')
    | .diff b s, ctr =>
        let name := rname ++ "@" ++ toString ctr
        let (eb, nb, c1) := operand grouped td rel rname (if grouped then some (name ++ "~0") else none) b (ctr + 1)
        let (es, ns, c2) := operand grouped td rel rname (if grouped then some (name ++ "~1") else none) s c1
        ([⟨.node name, false, ""⟩], ⟨name, .diff, eb ++ es⟩ :: (nb ++ ns), c2)
    | .nil, ctr =>
        let name := rname ++ "@" ++ toString ctr
        ([⟨.node name, false, ""⟩], [⟨name, .union, []⟩], ctr + 1)
  def operands (grouped : Bool) (td : TypeDef) (rel : String) (rname pname : String) (group : Bool) :
      List Userset → Nat → Nat → List Edge × List Node × Nat
    | [], _, ctr => ([], [], ctr)
    | c :: cs, i, ctr =>
      let (e1, n1, c1) := operand grouped td rel rname (if group then some (pname ++ "~" ++ toString i) else none) c ctr
      let (e2, n2, c2) := operands grouped td rel rname pname group cs (i + 1) c1
      (e1 ++ e2, n1 ++ n2, c2)
end

/-- nodes of one relation: the relation node `T#r`, its operators `T#r@0`, `T#r@1`, … -/
def relationNodes (grouped : Bool) (td : TypeDef) (rel : String) (u : Userset) : List Node :=
  let rname := td.name ++ "#" ++ rel
  let (es, ns, _) := operand grouped td rel rname none u 0
  ⟨rname, .rel, es⟩ :: ns

/-- `UpsertEdge` / `HasEdge`: an equal direct or TTU edge is not added twice -/
def dedupHops : List Edge → List Edge → List Edge
  | [], acc => acc.reverse
  | e :: rest, acc => if e.hop && acc.contains e then dedupHops rest acc else dedupHops rest (e :: acc)

def referenced (g : SGraph) : List String :=
  g.flatMap (fun n => n.edges.filterMap (fun e => match e.dst with | .node x => some x | _ => none))

/-- the specification graph; relations that are referenced but not defined become nodes without
    edges (they have no terminal type to reach) -/
def sgraph (grouped : Bool) (m : Model) : SGraph :=
  let defined := m.types.flatMap (fun td => td.relations.flatMap (fun (r, u) => relationNodes grouped td r u))
  let defined := if grouped then defined else defined.map (fun n => { n with edges := dedupHops n.edges [] })
  let missing := ((referenced defined).filter (fun x => !defined.any (·.name == x))).eraseDups
  defined ++ missing.map (fun x => ⟨x, .rel, []⟩)

/-! ### weights -/
def lookupW (k : String) : WMap → Option Nat
  | [] => none
  | (k', v) :: rest => if k == k' then some v else lookupW k rest

def insertMax (k : String) (v : Nat) : WMap → WMap
  | [] => [(k, v)]
  | (k', v') :: rest =>
    if k == k' then (k, Nat.max v v') :: rest
    else if k < k' then (k, v) :: (k', v') :: rest
    else (k', v') :: insertMax k v rest

def unionMax (a b : WMap) : WMap := b.foldl (fun acc (k, v) => insertMax k v acc) a

def shift (cap : Nat) (hop : Bool) (w : WMap) : WMap :=
  if hop then w.map (fun (k, v) => (k, if v ≥ infinite then infinite else Nat.min (v + 1) cap)) else w

def stateGet (st : State) (n : String) : WMap :=
  match st.find? (·.1 == n) with
  | some (_, w) => w
  | none => []

def contribution (cap : Nat) (st : State) (e : Edge) : WMap :=
  match e.dst with
  | .type t => [(t, 1)]
  | .wildcard t => [(t, 1)]
  | .node n => shift cap e.hop (stateGet st n)

/-- exclusion, as `calculateNodeWeightWithMixedStrategy`: the last edge is the subtract operand -/
def diffCombine : List WMap → WMap
  | [] => []
  | [b] => b.filter (fun _ => false)     -- a single edge is taken for the subtract operand
  | ws =>
    let base := (ws.dropLast).foldl unionMax []
    let sub := ws.getLast?.getD []
    base.map (fun (k, v) => (k, match lookupW k sub with | some v' => Nat.max v v' | none => v))

def interCombine : List WMap → WMap
  | [] => []
  | w :: ws => ws.foldl (fun acc x => (acc.filter (fun (k, _) => (lookupW k x).isSome)).map
      (fun (k, v) => (k, Nat.max v ((lookupW k x).getD 0)))) w

def nodeWeights (cap : Nat) (st : State) (n : Node) : WMap :=
  let cs := n.edges.map (contribution cap st)
  match n.kind with
  | .rel | .union | .group => cs.foldl unionMax []
  | .inter => interCombine cs
  | .diff => diffCombine cs

def stepState (cap : Nat) (g : SGraph) (st : State) : State := g.map (fun n => (n.name, nodeWeights cap st n))

def iterate (cap : Nat) (g : SGraph) : Nat → State → State
  | 0, st => st
  | fuel+1, st =>
    let st' := stepState cap g st
    if st' == st then st else iterate cap g fuel st'

/-- saturate at `cap`, then turn saturated values into `Infinite` and propagate -/
def weights (g : SGraph) : State :=
  let cap := g.length + 2
  let st := iterate cap g ((g.length + 3) * (g.length + 3)) (g.map (fun n => (n.name, [])))
  let st := st.map (fun (n, w) => (n, w.map (fun (k, v) => (k, if v ≥ cap - 1 then infinite else v))))
  iterate cap g (g.length + 2) st

/-- the state is a fixed point of one propagation round (evaluated by the driver on every input: the
    fuel of `iterate` is generous but its sufficiency is not proved) -/
def isFixpoint (g : SGraph) (st : State) : Bool := stepState (g.length + 2) g st == st

/-- every referenced node exists (hypothesis of the completeness theorems; `sgraph` adds the missing
    ones, and the driver evaluates this on every input) -/
def closedB (g : SGraph) : Bool :=
  g.all (fun nd => nd.edges.all (fun e => match e.dst with
    | .node x => (g.map (·.name)).contains x
    | _ => true))

/-! ### well-foundedness -/
def succsAll (g : SGraph) (n : String) (hopOk : Bool) : List String :=
  match g.find? (·.name == n) with
  | none => []
  | some nd => nd.edges.filterMap (fun e => match e.dst with
      | .node x => if hopOk || !e.hop then some x else none
      | _ => none)

def reachFrom (g : SGraph) (hopOk : Bool) : Nat → List String → List String → List String
  | 0, seen, _ => seen
  | _, seen, [] => seen
  | fuel+1, seen, n :: rest =>
    let new := ((succsAll g n hopOk).filter (fun x => !seen.contains x)).eraseDups
    reachFrom g hopOk fuel (seen ++ new) (rest ++ new)

/-- can `n` reach itself through at least one edge -/
def onCycle (g : SGraph) (hopOk : Bool) (n : String) : Bool :=
  let first := (succsAll g n hopOk).eraseDups
  (reachFrom g hopOk (g.length + 1) first first).contains n

inductive Reject where
  | rewriteCycle (n : String)     -- a cycle that needs no tuple
  | operatorOnCycle (n : String)  -- intersection / exclusion on a cycle
  | noTerminal (n : String)       -- a node that can reach no terminal user type (incl. empty intersection)
  deriving Repr, DecidableEq, Inhabited, BEq

def rejects (g : SGraph) : List Reject :=
  let st := weights g
  (g.filter (fun n => onCycle g false n.name)).map (fun n => Reject.rewriteCycle n.name) ++
  (g.filter (fun n => (n.kind == .inter || n.kind == .diff) && onCycle g true n.name)).map (fun n => Reject.operatorOnCycle n.name) ++
  (g.filter (fun n => (stateGet st n.name).isEmpty)).map (fun n => Reject.noTerminal n.name)

def wellFounded (g : SGraph) : Bool := (rejects g).isEmpty

/-! ### wildcards -/
def wildTargets (g : SGraph) (n : String) : List String :=
  let reach := reachFrom g true (g.length + 1) [n] [n]
  let ws := reach.flatMap (fun x => match g.find? (·.name == x) with
    | none => []
    | some nd => nd.edges.filterMap (fun e => match e.dst with | .wildcard t => some t | _ => none))
  insertionSort (fun a b => a ≤ b) ws.eraseDups

end FgaVerif.Spec.Weights
