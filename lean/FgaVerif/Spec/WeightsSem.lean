import FgaVerif.Spec.Weights
/-! What the weights of `Spec/Weights.lean` are supposed to *mean* (C04), stated without any reference
    to the iteration that computes them:

    * `HasType g T n` — terminal user type `T` reaches node `n`: through **any** edge of a relation,
      union or operand group; through **every** edge of an intersection; through an edge of the
      **base** (every edge but the last) of an exclusion.  An edge carries `T` when it ends in the
      terminal type `T` or the wildcard `T:*`, or in a node that `T` reaches.
    * `Walk g T n k` — there is a walk from `n` to a terminal `T` along which every node is reached
      by `T`, that uses `k` tuple hops (the final edge into the terminal type counts as one).  In an
      intersection or exclusion the walk may continue through any operand (also the subtracted one):
      the weight of such a node is the maximum over all of them.

    `Proofs/WeightsSem.lean` shows that the computed weights are exactly these. -/
namespace FgaVerif.Spec.Weights

def nodeOf (g : SGraph) (n : String) : Option Node := g.find? (·.name == n)

mutual
  inductive HasType (g : SGraph) (T : String) : String → Prop
    | any {n : String} {nd : Node} {e : Edge} : nodeOf g n = some nd → nd.kind ≠ .inter → nd.kind ≠ .diff →
        e ∈ nd.edges → EdgeHas g T e → HasType g T n
    | all {n : String} {nd : Node} : nodeOf g n = some nd → nd.kind = .inter → nd.edges ≠ [] →
        (∀ e ∈ nd.edges, EdgeHas g T e) → HasType g T n
    | base {n : String} {nd : Node} {e : Edge} : nodeOf g n = some nd → nd.kind = .diff → 2 ≤ nd.edges.length →
        e ∈ nd.edges.dropLast → EdgeHas g T e → HasType g T n
  inductive EdgeHas (g : SGraph) (T : String) : Edge → Prop
    | type {e : Edge} : e.dst = .type T → EdgeHas g T e
    | wildcard {e : Edge} : e.dst = .wildcard T → EdgeHas g T e
    | node {e : Edge} {m : String} : e.dst = .node m → HasType g T m → EdgeHas g T e
end

inductive Walk (g : SGraph) (T : String) : String → Nat → Prop
  | last {n : String} {nd : Node} {e : Edge} : nodeOf g n = some nd → HasType g T n → e ∈ nd.edges →
      (e.dst = .type T ∨ e.dst = .wildcard T) → Walk g T n 1
  | step {n m : String} {nd : Node} {e : Edge} {k : Nat} : nodeOf g n = some nd → HasType g T n → e ∈ nd.edges →
      e.dst = .node m → Walk g T m k → Walk g T n (k + (if e.hop then 1 else 0))

/-- every value is `Infinite` or below the saturation threshold, and the threshold is below
    `Infinite` (evaluated by the driver on every input, like `isFixpoint`) -/
def normalB (g : SGraph) (st : State) : Bool :=
  decide (g.length + 2 < infinite) &&
  st.all (fun p => p.2.all (fun kv => kv.2 == infinite || decide (kv.2 < g.length + 1)))

end FgaVerif.Spec.Weights
