def hello := "world"
