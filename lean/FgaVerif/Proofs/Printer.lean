import FgaVerif.Model.Printer
import FgaVerif.Model.Utils
/-! Facts about the printer port used by C02 / C01. -/
namespace FgaVerif.Model.Printer
open FgaVerif.Model

/-! ### every failure is the unsupported-nesting error; success iff no `nil` inside -/
mutual
  theorem sub_error (ty rel : String) (rs : List RelRef) : (u : Userset) → (n : Nat) → (e : PrintErr) →
      parseSubRelation ty rel rs u n = .error e → e = .nesting ty rel
    | .this, n, e, h => by simp [parseSubRelation] at h
    | .computed _, n, e, h => by simp [parseSubRelation] at h
    | .ttu _ _, n, e, h => by simp [parseSubRelation] at h
    | .nil, n, e, h => by simp [parseSubRelation] at h; exact h.symm
    | .union cs, n, e, h => by
        simp only [parseSubRelation] at h
        split at h
        · cases h; rfl
        · split at h
          · cases h
          · rename_i e' he; cases h; exact children_error ty rel rs cs n _ he
    | .inter cs, n, e, h => by
        simp only [parseSubRelation] at h
        split at h
        · cases h; rfl
        · split at h
          · cases h
          · rename_i e' he; cases h; exact children_error ty rel rs cs n _ he
    | .diff b s, n, e, h => by
        simp only [parseSubRelation] at h
        split at h
        · rename_i e' he; cases h; exact sub_error ty rel rs b n _ he
        · rename_i bs n1 hb
          split at h
          · rename_i e' he; cases h; exact sub_error ty rel rs s n1 _ he
          · cases h
  theorem children_error (ty rel : String) (rs : List RelRef) : (cs : List Userset) → (n : Nat) → (e : PrintErr) →
      parseChildren ty rel rs cs n = .error e → e = .nesting ty rel
    | [], n, e, h => by simp [parseChildren] at h
    | c :: cs, n, e, h => by
        simp only [parseChildren] at h
        split at h
        · rename_i e' he; cases h; exact sub_error ty rel rs c n _ he
        · rename_i s n1 hc
          split at h
          · rename_i e' he; cases h; exact children_error ty rel rs cs n1 _ he
          · cases h
end

/-! ### the counter counts the direct assignments -/
mutual
  theorem sub_count (ty rel : String) (rs : List RelRef) : (u : Userset) → (n : Nat) → (s : String) → (n' : Nat) →
      parseSubRelation ty rel rs u n = .ok (s, n') → n' = n + countThis u
    | .this, n, s, n', h => by simp [parseSubRelation] at h; simp [countThis, h.2.symm]
    | .computed _, n, s, n', h => by simp [parseSubRelation] at h; simp [countThis, h.2.symm]
    | .ttu _ _, n, s, n', h => by simp [parseSubRelation] at h; simp [countThis, h.2.symm]
    | .nil, n, s, n', h => by simp [parseSubRelation] at h
    | .union cs, n, s, n', h => by
        simp only [parseSubRelation] at h
        split at h
        · cases h
        · split at h
          · rename_i parts n2 hc
            cases h
            simpa [countThis] using children_count ty rel rs cs n _ _ hc
          · cases h
    | .inter cs, n, s, n', h => by
        simp only [parseSubRelation] at h
        split at h
        · cases h
        · split at h
          · rename_i parts n2 hc
            cases h
            simpa [countThis] using children_count ty rel rs cs n _ _ hc
          · cases h
    | .diff b sb, n, s, n', h => by
        simp only [parseSubRelation] at h
        split at h
        · cases h
        · rename_i bs n1 hb
          split at h
          · cases h
          · rename_i ss n2 hs
            cases h
            have h1 := sub_count ty rel rs b n _ _ hb
            have h2 := sub_count ty rel rs sb n1 _ _ hs
            simp only [countThis]; omega
  theorem children_count (ty rel : String) (rs : List RelRef) : (cs : List Userset) → (n : Nat) → (ps : List String) →
      (n' : Nat) → parseChildren ty rel rs cs n = .ok (ps, n') → n' = n + countThisL cs
    | [], n, ps, n', h => by simp [parseChildren] at h; simp [countThisL, h.2.symm]
    | c :: cs, n, ps, n', h => by
        simp only [parseChildren] at h
        split at h
        · cases h
        · rename_i s n1 hc
          split at h
          · cases h
          · rename_i ss n2 hcs
            cases h
            have h1 := sub_count ty rel rs c n _ _ hc
            have h2 := children_count ty rel rs cs n1 _ _ hcs
            simp only [countThisL]; omega
end

/-! ### totality on `nil`-free trees -/
mutual
  theorem sub_total (ty rel : String) (rs : List RelRef) : (u : Userset) → (n : Nat) →
      (parseSubRelation ty rel rs u n).isOk = noNil u
    | .this, n => by simp [parseSubRelation, noNil, Except.isOk, Except.toBool]
    | .computed _, n => by simp [parseSubRelation, noNil, Except.isOk, Except.toBool]
    | .ttu _ _, n => by simp [parseSubRelation, noNil, Except.isOk, Except.toBool]
    | .nil, n => by simp [parseSubRelation, noNil, Except.isOk, Except.toBool]
    | .union cs, n => by
        have := children_total ty rel rs cs n
        simp only [parseSubRelation, noNil]
        split
        · rename_i he; simp [he, Except.isOk, Except.toBool]
        · rename_i he
          split <;> simp_all [Except.isOk, Except.toBool]
    | .inter cs, n => by
        have := children_total ty rel rs cs n
        simp only [parseSubRelation, noNil]
        split
        · rename_i he; simp [he, Except.isOk, Except.toBool]
        · rename_i he
          split <;> simp_all [Except.isOk, Except.toBool]
    | .diff b s, n => by
        have hb := sub_total ty rel rs b n
        simp only [parseSubRelation, noNil]
        split
        · simp_all [Except.isOk, Except.toBool]
        · rename_i bs n1 hbo
          have hs := sub_total ty rel rs s n1
          split <;> simp_all [Except.isOk, Except.toBool]
  theorem children_total (ty rel : String) (rs : List RelRef) : (cs : List Userset) → (n : Nat) →
      (parseChildren ty rel rs cs n).isOk = noNilL cs
    | [], n => by simp [parseChildren, noNilL, Except.isOk, Except.toBool]
    | c :: cs, n => by
        have hc := sub_total ty rel rs c n
        simp only [parseChildren, noNilL]
        split
        · simp_all [Except.isOk, Except.toBool]
        · rename_i s n1 hco
          have hcs := children_total ty rel rs cs n1
          split <;> simp_all [Except.isOk, Except.toBool]
end

/-! ### the top level -/
theorem top_error (ty rel : String) (rs : List RelRef) (u : Userset) (e : PrintErr)
    (h : parseTop ty rel rs u = .error e) : e = .nesting ty rel := by
  unfold parseTop at h
  split at h
  · split at h
    · rename_i e' he; cases h; exact sub_error ty rel rs _ 0 _ he
    · rename_i bs n1 hb
      split at h
      · rename_i e' he; cases h; exact sub_error ty rel rs _ n1 _ he
      · cases h
  · split at h
    · cases h; rfl
    · split at h
      · cases h
      · rename_i e' he; cases h; exact children_error ty rel rs _ 0 _ he
  · split at h
    · cases h; rfl
    · split at h
      · cases h
      · rename_i e' he; cases h; exact children_error ty rel rs _ 0 _ he
  · exact sub_error ty rel rs u 0 e h

theorem top_count (ty rel : String) (rs : List RelRef) (u : Userset) (s : String) (n : Nat)
    (h : parseTop ty rel rs u = .ok (s, n)) : n = countThis u := by
  unfold parseTop at h
  split at h
  · split at h
    · cases h
    · rename_i bs n1 hb
      split at h
      · cases h
      · rename_i ss n2 hs
        cases h
        have h1 := sub_count ty rel rs _ 0 _ _ hb
        have h2 := sub_count ty rel rs _ n1 _ _ hs
        simp only [countThis]; omega
  · split at h
    · cases h
    · split at h
      · rename_i parts n2 hc; cases h
        simpa [countThis] using children_count ty rel rs _ 0 _ _ hc
      · cases h
  · split at h
    · cases h
    · split at h
      · rename_i parts n2 hc; cases h
        simpa [countThis] using children_count ty rel rs _ 0 _ _ hc
      · cases h
  · simpa using sub_count ty rel rs u 0 s n h

theorem top_total (ty rel : String) (rs : List RelRef) (u : Userset) : (parseTop ty rel rs u).isOk = noNil u := by
  unfold parseTop
  split
  · rename_i b s
    have hb := sub_total ty rel rs b 0
    simp only [noNil]
    split
    · simp_all [Except.isOk, Except.toBool]
    · rename_i bs n1 hbo
      have hs := sub_total ty rel rs s n1
      split <;> simp_all [Except.isOk, Except.toBool]
  · rename_i cs
    have := children_total ty rel rs cs 0
    simp only [noNil]
    split
    · rename_i he; simp [he, Except.isOk, Except.toBool]
    · rename_i he
      split <;> simp_all [Except.isOk, Except.toBool]
  · rename_i cs
    have := children_total ty rel rs cs 0
    simp only [noNil]
    split
    · rename_i he; simp [he, Except.isOk, Except.toBool]
    · rename_i he
      split <;> simp_all [Except.isOk, Except.toBool]
  · exact sub_total ty rel rs u 0

/-- **success of `parseRelation`, exactly** -/
theorem parseRelation_ok_iff (ty rel : String) (u : Userset) (md : RelMeta) (src : Bool) :
    (parseRelation ty rel u md src).isOk = true ↔
      noNil u = true ∧ (countThis u = 0 ∨ (countThis u = 1 ∧ isFirstPosition u = true)) := by
  unfold parseRelation
  have ht := top_total ty rel md.restr u
  cases hp : parseTop ty rel md.restr u with
  | error e =>
    simp only [hp, Except.isOk, Except.toBool] at ht
    simp [Except.isOk, Except.toBool, ← ht]
  | ok r =>
    obtain ⟨s, occ⟩ := r
    have hc := top_count ty rel md.restr u s occ hp
    simp only [hp, Except.isOk, Except.toBool] at ht
    subst hc
    simp only
    split
    · rename_i hcond
      simp only [Except.isOk, Except.toBool, true_iff]
      refine ⟨ht.symm, ?_⟩
      simpa using hcond
    · rename_i hcond
      simp only [Except.isOk, Except.toBool, Bool.false_eq_true, false_iff, not_and]
      intro _
      simpa using hcond

theorem parseRelation_error (ty rel : String) (u : Userset) (md : RelMeta) (src : Bool) (e : PrintErr)
    (h : parseRelation ty rel u md src = .error e) : e = .nesting ty rel := by
  unfold parseRelation at h
  split at h
  · rename_i e' he; cases h; exact top_error ty rel md.restr u _ he
  · split at h
    · cases h
    · cases h; rfl

/-! ### assignability -/
mutual
  theorem assignable_iff_count : (u : Userset) → (isAssignable u = true ↔ 0 < countThis u)
    | .this => by simp [isAssignable, countThis]
    | .computed _ => by simp [isAssignable, countThis]
    | .ttu _ _ => by simp [isAssignable, countThis]
    | .nil => by simp [isAssignable, countThis]
    | .union cs => by simpa [isAssignable, countThis] using anyAssignable_iff_count cs
    | .inter cs => by simpa [isAssignable, countThis] using anyAssignable_iff_count cs
    | .diff b s => by
        have hb := assignable_iff_count b
        have hs := assignable_iff_count s
        simp only [isAssignable, countThis, Bool.or_eq_true, hb, hs]; omega
  theorem anyAssignable_iff_count : (cs : List Userset) → (anyAssignable cs = true ↔ 0 < countThisL cs)
    | [] => by simp [anyAssignable, countThisL]
    | c :: cs => by
        have hc := assignable_iff_count c
        have hcs := anyAssignable_iff_count cs
        simp only [anyAssignable, countThisL, Bool.or_eq_true, hc, hcs]; omega
end

/-! ### hoisting is a permutation that moves only the first direct assignment -/
theorem moveToFront_perm (i : Nat) (xs : List α) (h : i < xs.length) : (moveToFront i xs).Perm xs := by
  unfold moveToFront
  have hd : (xs.drop i).head?.toList ++ xs.drop (i + 1) = xs.drop i := by
    rw [← List.drop_drop]
    cases hx : xs.drop i with
    | nil => simp [List.drop_eq_nil_iff] at hx; omega
    | cons y ys => simp
  have h1 : ((xs.drop i).head?.toList ++ xs.take i ++ xs.drop (i + 1)).Perm
      (xs.take i ++ (xs.drop i).head?.toList ++ xs.drop (i + 1)) :=
    List.Perm.append_right _ List.perm_append_comm
  have h2 : xs.take i ++ (xs.drop i).head?.toList ++ xs.drop (i + 1) = xs := by
    rw [List.append_assoc, hd, List.take_append_drop]
  rw [h2] at h1
  exact h1

theorem hoist_perm (us : List Userset) : (prioritizeDirectAssignment us).Perm us := by
  unfold prioritizeDirectAssignment
  split
  · exact List.Perm.refl _
  · rename_i i hi
    exact moveToFront_perm i us (by
      have := List.findIdx?_eq_some_iff_getElem.1 hi
      exact this.1)

end FgaVerif.Model.Printer
