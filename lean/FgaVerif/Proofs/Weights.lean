import FgaVerif.Spec.Weights
import FgaVerif.Proofs.Sort
/-! Lemmas about the specification of the weighted graph (`Spec/Weights.lean`): reachability,
    wildcard sets, cycles, and the equations the weight state satisfies. -/
namespace FgaVerif.Spec.Weights
open FgaVerif.Model

instance : LawfulBEq Kind where
  eq_of_beq := by intro a b; cases a <;> cases b <;> first | (intro _; rfl) | (intro h; cases h)
  rfl := by intro a; cases a <;> rfl

/-! ### `eraseDups` -/
theorem nodup_eraseDups [BEq α] [LawfulBEq α] : ∀ (n : Nat) (l : List α), l.length ≤ n → l.eraseDups.Nodup
  | 0, l, h => by
    have : l = [] := List.eq_nil_of_length_eq_zero (Nat.le_zero.1 h)
    subst this; simp
  | n+1, [], _ => by simp
  | n+1, a :: as, h => by
    rw [List.eraseDups_cons]
    refine List.nodup_cons.2 ⟨?_, nodup_eraseDups n _ ?_⟩
    · intro hm
      have := (List.mem_eraseDups.1 hm)
      simp at this
    · refine Nat.le_trans (List.length_filter_le _ as) ?_
      simp only [List.length_cons] at h
      omega

/-! ### reachability -/

/-- `y` is a successor of `x` (through a rewrite edge, or through any edge when `hopOk`) -/
def Succ (g : SGraph) (hopOk : Bool) (x y : String) : Prop := y ∈ succsAll g x hopOk

inductive Reach (g : SGraph) (hopOk : Bool) : String → String → Prop
  | refl (x : String) : Reach g hopOk x x
  | step {x y z : String} : Reach g hopOk x y → Succ g hopOk y z → Reach g hopOk x z

theorem reachFrom_sound (g : SGraph) (hopOk : Bool) (P : String → Prop)
    (hP : ∀ x y, P x → Succ g hopOk x y → P y) :
    ∀ (fuel : Nat) (seen work : List String), (∀ x ∈ seen, P x) → (∀ x ∈ work, P x) →
      ∀ x ∈ reachFrom g hopOk fuel seen work, P x
  | 0, seen, work, hs, _ => by simpa [reachFrom] using hs
  | fuel+1, seen, [], hs, _ => by simpa [reachFrom] using hs
  | fuel+1, seen, n :: rest, hs, hw => by
    simp only [reachFrom]
    have hn : P n := hw n (by simp)
    have hnew : ∀ x ∈ ((succsAll g n hopOk).filter (fun x => !seen.contains x)).eraseDups, P x := by
      intro x hx
      have := List.mem_eraseDups.1 hx
      exact hP n x hn (List.mem_filter.1 this).1
    apply reachFrom_sound g hopOk P hP fuel
    · intro x hx
      rcases List.mem_append.1 hx with h | h
      · exact hs x h
      · exact hnew x h
    · intro x hx
      rcases List.mem_append.1 hx with h | h
      · exact hw x (by simp [h])
      · exact hnew x h

/-! ### wildcards -/

/-- node `x` has an edge into the public restriction `t:*` -/
def HasWildcardEdge (g : SGraph) (x t : String) : Prop :=
  ∃ nd, g.find? (·.name == x) = some nd ∧ ∃ e ∈ nd.edges, e.dst = .wildcard t

theorem perm_nodup {l l' : List String} (h : l.Perm l') (hn : l.Nodup) : l'.Nodup := (h.nodup_iff).1 hn

theorem wildTargets_nodup (g : SGraph) (n : String) : (wildTargets g n).Nodup := by
  unfold wildTargets
  simp only
  exact perm_nodup (FgaVerif.insertionSort_perm _ _).symm (nodup_eraseDups _ _ (Nat.le_refl _))

theorem wildTargets_sound (g : SGraph) (n t : String) (h : t ∈ wildTargets g n) :
    ∃ x, Reach g true n x ∧ HasWildcardEdge g x t := by
  unfold wildTargets at h
  simp only at h
  have h1 := (FgaVerif.insertionSort_perm _ _).mem_iff.1 h
  have h2 := List.mem_eraseDups.1 h1
  obtain ⟨x, hx, ht⟩ := List.mem_flatMap.1 h2
  have hr : Reach g true n x := by
    apply reachFrom_sound g true (fun y => Reach g true n y) (fun a b ha hs => Reach.step ha hs) _ [n] [n]
    · intro y hy; simp at hy; subst hy; exact Reach.refl _
    · intro y hy; simp at hy; subst hy; exact Reach.refl _
    · exact hx
  refine ⟨x, hr, ?_⟩
  split at ht
  · simp at ht
  · rename_i nd hnd
    obtain ⟨e, he, hd⟩ := List.mem_filterMap.1 ht
    refine ⟨nd, hnd, e, he, ?_⟩
    split at hd
    · simp only [Option.some.injEq] at hd; subst hd; assumption
    · cases hd

/-! ### cycles -/

theorem onCycle_sound (g : SGraph) (hopOk : Bool) (n : String) (h : onCycle g hopOk n = true) :
    ∃ s, Succ g hopOk n s ∧ Reach g hopOk s n := by
  unfold onCycle at h
  simp only at h
  have hc : n ∈ reachFrom g hopOk (g.length + 1) (succsAll g n hopOk).eraseDups (succsAll g n hopOk).eraseDups := by
    simpa using h
  have hfirst : ∀ x ∈ (succsAll g n hopOk).eraseDups, ∃ s, Succ g hopOk n s ∧ Reach g hopOk s x := by
    intro x hx
    exact ⟨x, List.mem_eraseDups.1 hx, Reach.refl _⟩
  exact reachFrom_sound g hopOk (fun y => ∃ s, Succ g hopOk n s ∧ Reach g hopOk s y)
    (fun a b ⟨s, hs, hr⟩ hab => ⟨s, hs, Reach.step hr hab⟩) _ _ _ hfirst hfirst n hc

/-! ### the equations of the weight state -/

theorem stateGet_map (g : SGraph) (f : Node → WMap) (hn : (g.map (·.name)).Nodup) :
    ∀ n ∈ g, stateGet (g.map (fun n => (n.name, f n))) n.name = f n := by
  induction g with
  | nil => intro n hn; simp at hn
  | cons a rest ih =>
    intro n hmem
    simp only [List.map_cons, List.nodup_cons] at hn
    rcases List.mem_cons.1 hmem with rfl | hmem
    · simp [stateGet]
    · have hne : (a.name == n.name) = false := by
        have : a.name ≠ n.name := fun e => hn.1 (e ▸ List.mem_map.2 ⟨n, hmem, rfl⟩)
        simpa using this
      have := ih hn.2 n hmem
      simp only [stateGet, List.map_cons, List.find?_cons, hne] at this ⊢
      exact this

theorem fixpoint_equations (g : SGraph) (st : State) (hn : (g.map (·.name)).Nodup) (h : isFixpoint g st = true) :
    ∀ n ∈ g, stateGet st n.name = nodeWeights (g.length + 2) st n := by
  intro n hmem
  have heq : stepState (g.length + 2) g st = st := eq_of_beq h
  have := stateGet_map g (nodeWeights (g.length + 2) st) hn n hmem
  unfold stepState at heq
  rw [heq] at this
  exact this

end FgaVerif.Spec.Weights
