import FgaVerif.Proofs.PGraphReach
import FgaVerif.Proofs.Sort
/-! The plain graph port only ever draws lines between nodes it has created: every line of a built
    graph connects node ids below the number of nodes. -/
namespace FgaVerif.Model.PGraph
open FgaVerif.Model

structure BInv (g : G) : Prop where
  ids : ∀ n ∈ g.nodes, n.id < g.nodes.length
  lines : LinesValid g

/-- `g'` has all nodes of `g` (and possibly more), and is valid if `g` is -/
structure BStep (g g' : G) : Prop where
  inv : BInv g → BInv g'
  nodes : g.nodes <+: g'.nodes

theorem BStep.refl (g : G) : BStep g g := ⟨id, List.prefix_refl _⟩
theorem BStep.trans {a b c : G} (h1 : BStep a b) (h2 : BStep b c) : BStep a c :=
  ⟨fun h => h2.inv (h1.inv h), h1.nodes.trans h2.nodes⟩

theorem getOrAddNode_bstep (g : G) (ul l : String) (t : NodeType) :
    BStep g (getOrAddNode g ul l t).1 ∧ (getOrAddNode g ul l t).2 ∈ (getOrAddNode g ul l t).1.nodes := by
  unfold getOrAddNode
  split
  · rename_i n h
    exact ⟨BStep.refl g, List.mem_of_find?_eq_some h⟩
  · refine ⟨⟨?_, List.prefix_append _ _⟩, by simp⟩
    intro hi
    refine ⟨?_, ?_⟩
    · intro n hn
      simp only [List.length_append, List.length_cons, List.length_nil]
      rcases List.mem_append.1 hn with h | h
      · have := hi.ids n h; omega
      · simp at h; subst h; simp
    · intro ln hl
      have := hi.lines ln hl
      simp only [List.length_append, List.length_cons, List.length_nil]
      omega

theorem addEdge_bstep (g : G) (src dst : PNode) (t : EdgeType) (ts : String)
    (hs : src ∈ g.nodes) (hd : dst ∈ g.nodes) : BStep g (addEdge g src dst t ts) := by
  refine ⟨fun hi => ⟨hi.ids, ?_⟩, List.prefix_refl _⟩
  intro l hl
  unfold addEdge at hl
  rcases List.mem_append.1 hl with h | h
  · exact hi.lines l h
  · simp at h; subst h
    exact ⟨hi.ids src hs, hi.ids dst hd⟩

theorem upsertEdge_bstep (g : G) (src dst : PNode) (t : EdgeType) (ts : String)
    (hs : src ∈ g.nodes) (hd : dst ∈ g.nodes) : BStep g (upsertEdge g src dst t ts) := by
  unfold upsertEdge
  split
  · exact BStep.refl g
  · exact addEdge_bstep g src dst t ts hs hd

theorem parseThisRefs_bstep (parent : PNode) : ∀ (refs : List RelRef) (cur : Option PNode) (g : G),
    parent ∈ g.nodes → (∀ c, cur = some c → c ∈ g.nodes) → BStep g (parseThisRefs parent refs cur g)
  | [], _, g, _, _ => BStep.refl g
  | r :: rest, cur, g, hp, hc => by
    simp only [parseThisRefs]
    -- three optional node creations, each keeping the invariants
    have step1 : ∃ g1 cur1, (if (!r.wildcard && r.rel == "") = true then
          ((getOrAddNode g r.type r.type NodeType.specificType).1, some (getOrAddNode g r.type r.type NodeType.specificType).2)
        else (g, cur)) = (g1, cur1) ∧ BStep g g1 ∧ (∀ c, cur1 = some c → c ∈ g1.nodes) := by
      split
      · obtain ⟨a, b⟩ := getOrAddNode_bstep g r.type r.type .specificType
        exact ⟨_, _, rfl, a, fun c hc' => by simp only [Option.some.injEq] at hc'; subst hc'; exact b⟩
      · exact ⟨g, cur, rfl, BStep.refl g, hc⟩
    obtain ⟨g1, cur1, e1, s1, c1⟩ := step1
    simp only [e1]
    have step2 : ∃ g2 cur2, (if r.wildcard = true then
          ((getOrAddNode g1 (r.type ++ ":*") (r.type ++ ":*") NodeType.wildcard).1,
            some (getOrAddNode g1 (r.type ++ ":*") (r.type ++ ":*") NodeType.wildcard).2)
        else (g1, cur1)) = (g2, cur2) ∧ BStep g1 g2 ∧ (∀ c, cur2 = some c → c ∈ g2.nodes) := by
      split
      · obtain ⟨a, b⟩ := getOrAddNode_bstep g1 (r.type ++ ":*") (r.type ++ ":*") .wildcard
        exact ⟨_, _, rfl, a, fun c hc' => by simp only [Option.some.injEq] at hc'; subst hc'; exact b⟩
      · exact ⟨g1, cur1, rfl, BStep.refl g1, c1⟩
    obtain ⟨g2, cur2, e2, s2, c2⟩ := step2
    simp only [e2]
    have step3 : ∃ g3 cur3, (if (r.rel != "") = true then
          ((getOrAddNode g2 (r.type ++ "#" ++ r.rel) (r.type ++ "#" ++ r.rel) NodeType.typeAndRelation).1,
            some (getOrAddNode g2 (r.type ++ "#" ++ r.rel) (r.type ++ "#" ++ r.rel) NodeType.typeAndRelation).2)
        else (g2, cur2)) = (g3, cur3) ∧ BStep g2 g3 ∧ (∀ c, cur3 = some c → c ∈ g3.nodes) := by
      split
      · obtain ⟨a, b⟩ := getOrAddNode_bstep g2 (r.type ++ "#" ++ r.rel) (r.type ++ "#" ++ r.rel) .typeAndRelation
        exact ⟨_, _, rfl, a, fun c hc' => by simp only [Option.some.injEq] at hc'; subst hc'; exact b⟩
      · exact ⟨g2, cur2, rfl, BStep.refl g2, c2⟩
    obtain ⟨g3, cur3, e3, s3, c3⟩ := step3
    simp only [e3]
    have hp3 : parent ∈ g3.nodes := s3.nodes.subset (s2.nodes.subset (s1.nodes.subset hp))
    have s123 : BStep g g3 := s1.trans (s2.trans s3)
    cases hcur : cur3 with
    | none =>
      simp only
      exact s123.trans (parseThisRefs_bstep parent rest none g3 hp3 (fun c hc' => by cases hc'))
    | some c =>
      simp only
      have hc3 : c ∈ g3.nodes := c3 c hcur
      have s4 := upsertEdge_bstep g3 c parent .direct "" hc3 hp3
      exact s123.trans (s4.trans (parseThisRefs_bstep parent rest (some c) _ (s4.nodes.subset hp3)
        (fun c' hc' => by simp only [Option.some.injEq] at hc'; subst hc'; exact s4.nodes.subset hc3)))

theorem parseTTURefs_bstep (m : Model) (td : TypeDef) (parent : PNode) (ts cu : String) :
    ∀ (refs : List RelRef) (g : G), parent ∈ g.nodes → BStep g (parseTTURefs m td parent ts cu refs g)
  | [], g, _ => BStep.refl g
  | r :: rest, g, hp => by
    simp only [parseTTURefs]
    split
    · exact parseTTURefs_bstep m td parent ts cu rest g hp
    · obtain ⟨a, b⟩ := getOrAddNode_bstep g (r.type ++ "#" ++ cu) (r.type ++ "#" ++ cu) .typeAndRelation
      have hp1 := a.nodes.subset hp
      split
      · exact a.trans (parseTTURefs_bstep m td parent ts cu rest _ hp1)
      · have s2 := upsertEdge_bstep _ _ parent .ttu (td.name ++ "#" ++ ts) b hp1
        exact a.trans (s2.trans (parseTTURefs_bstep m td parent ts cu rest _ (s2.nodes.subset hp1)))

theorem mkOp_bstep (g : G) (parent : PNode) (op : String) (hp : parent ∈ g.nodes) :
    BStep g (mkOp g parent op).1 ∧ (mkOp g parent op).2 ∈ (mkOp g parent op).1.nodes := by
  unfold mkOp
  simp only
  have h0 : BStep g { g with opCount := g.opCount + 1 } := ⟨fun hi => ⟨hi.ids, hi.lines⟩, List.prefix_refl _⟩
  obtain ⟨a, b⟩ := getOrAddNode_bstep { g with opCount := g.opCount + 1 } (op ++ ":" ++ toString g.opCount) op .operator
  have hp1 : parent ∈ (getOrAddNode { g with opCount := g.opCount + 1 } (op ++ ":" ++ toString g.opCount) op .operator).1.nodes :=
    a.nodes.subset hp
  have s2 := addEdge_bstep _ _ parent .rewrite "" b hp1
  exact ⟨h0.trans (a.trans s2), s2.nodes.subset b⟩

mutual
  theorem checkRewrite_bstep (m : Model) (td : TypeDef) (rel : String) :
      ∀ (u : Userset) (parent : PNode) (g : G), parent ∈ g.nodes → BStep g (checkRewrite m td rel parent u g)
    | .this, parent, g, hp => by
      simp only [checkRewrite]
      split
      · exact parseThisRefs_bstep parent _ none g hp (fun c hc => by cases hc)
      · exact BStep.refl g
    | .computed r, parent, g, hp => by
      simp only [checkRewrite]
      obtain ⟨a, b⟩ := getOrAddNode_bstep g (td.name ++ "#" ++ r) (td.name ++ "#" ++ r) .typeAndRelation
      exact a.trans (addEdge_bstep _ _ parent _ "" b (a.nodes.subset hp))
    | .ttu ts cu, parent, g, hp => by
      simp only [checkRewrite]
      exact parseTTURefs_bstep m td parent ts cu _ g hp
    | .union cs, parent, g, hp => by
      simp only [checkRewrite]
      obtain ⟨a, b⟩ := mkOp_bstep g parent "union" hp
      exact a.trans (checkChildren_bstep m td rel cs _ _ b)
    | .inter cs, parent, g, hp => by
      simp only [checkRewrite]
      obtain ⟨a, b⟩ := mkOp_bstep g parent "intersection" hp
      exact a.trans (checkChildren_bstep m td rel cs _ _ b)
    | .diff b s, parent, g, hp => by
      simp only [checkRewrite]
      obtain ⟨a, hb⟩ := mkOp_bstep g parent "exclusion" hp
      have s1 := checkRewrite_bstep m td rel b _ _ hb
      have s2 := checkRewrite_bstep m td rel s _ _ (s1.nodes.subset hb)
      exact a.trans (s1.trans s2)
    | .nil, parent, g, hp => by
      simp only [checkRewrite]
      exact (mkOp_bstep g parent "" hp).1
  theorem checkChildren_bstep (m : Model) (td : TypeDef) (rel : String) :
      ∀ (cs : List Userset) (parent : PNode) (g : G), parent ∈ g.nodes → BStep g (checkChildren m td rel parent cs g)
    | [], parent, g, _ => by simp only [checkChildren]; exact BStep.refl g
    | c :: cs, parent, g, hp => by
      simp only [checkChildren]
      have s1 := checkRewrite_bstep m td rel c parent g hp
      exact s1.trans (checkChildren_bstep m td rel cs parent _ (s1.nodes.subset hp))
end

theorem buildRelations_bstep (m : Model) (td : TypeDef) : ∀ (rels : List (String × Userset)) (g : G),
    BStep g (buildRelations m td rels g)
  | [], g => BStep.refl g
  | (rel, u) :: rest, g => by
    simp only [buildRelations]
    obtain ⟨a, b⟩ := getOrAddNode_bstep g (td.name ++ "#" ++ rel) (td.name ++ "#" ++ rel) .typeAndRelation
    exact a.trans ((checkRewrite_bstep m td rel u _ _ b).trans (buildRelations_bstep m td rest _))

theorem buildTypes_bstep (m : Model) : ∀ (tds : List TypeDef) (g : G), BStep g (buildTypes m tds g)
  | [], g => BStep.refl g
  | td :: rest, g => by
    simp only [buildTypes]
    obtain ⟨a, _⟩ := getOrAddNode_bstep g td.name td.name .specificType
    exact a.trans ((buildRelations_bstep m td _ _).trans (buildTypes_bstep m rest _))

/-- **every line of a built graph connects existing nodes** -/
theorem build_lines_valid (m : Model) : LinesValid (build m) ∧ ∀ n ∈ (build m).nodes, n.id < (build m).nodes.length := by
  have h := (buildTypes_bstep m (insertionSort (fun a b => a.name ≤ b.name) m.types) {}).inv
    ⟨by simp, by intro l hl; simp at hl⟩
  exact ⟨h.lines, h.ids⟩

end FgaVerif.Model.PGraph
