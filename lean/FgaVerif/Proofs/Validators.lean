import FgaVerif.Proofs.FlatRe
import FgaVerif.Model.Validators
/-! Helper lemmas for C18 (kept apart from the property statements). -/
namespace FgaVerif.FlatRe

theorem isSpace_val_le (c : Char) (h : isSpaceRE2 c = true) : c.val ≤ 32 := by
  simp only [isSpaceRE2, Bool.or_eq_true, beq_iff_eq] at h
  rcases h with (((h | h) | h) | h) | h <;> subst h <;> decide

/-- syntactic check: no whitespace character belongs to the class -/
def ClsItem.noSpace : ClsItem → Bool
  | .ch d => !isSpaceRE2 d
  | .range lo _ => decide (32 < lo.val)
  | .space => false

def Cls.excludesSpace (k : Cls) : Bool :=
  if k.neg then k.items.contains .space else k.items.all (·.noSpace)

theorem ClsItem.noSpace_sound (i : ClsItem) (x : Char) (hi : i.noSpace = true) (hx : i.mem x = true) :
    isSpaceRE2 x = false := by
  cases i with
  | ch d =>
    simp only [ClsItem.mem, beq_iff_eq] at hx
    subst hx
    simpa [ClsItem.noSpace] using hi
  | range lo hi' =>
    simp only [ClsItem.mem, Bool.and_eq_true, decide_eq_true_eq] at hx
    simp only [ClsItem.noSpace, decide_eq_true_eq] at hi
    cases hs : isSpaceRE2 x with
    | false => rfl
    | true =>
      have h1 := isSpace_val_le x hs
      have h2 := hx.1
      exfalso
      exact absurd (UInt32.lt_of_lt_of_le (UInt32.lt_of_lt_of_le hi h2) h1) (by decide)
  | space => simp [ClsItem.noSpace] at hi

theorem Cls.excludesSpace_sound (k : Cls) (x : Char) (hk : k.excludesSpace = true) (hx : k.mem x = true) :
    isSpaceRE2 x = false := by
  unfold Cls.excludesSpace at hk
  unfold Cls.mem at hx
  cases hn : k.neg with
  | true =>
    simp only [hn, if_true] at hk
    simp only [hn, bne_iff_ne, ne_eq, Bool.not_eq_true] at hx
    cases hs : isSpaceRE2 x with
    | false => rfl
    | true =>
      exfalso
      have : k.items.any (·.mem x) = true := by
        rw [List.any_eq_true]
        exact ⟨.space, by simpa using hk, by simpa [ClsItem.mem] using hs⟩
      rw [this] at hx
      exact absurd hx (by decide)
  | false =>
    simp only [hn] at hk
    simp only [hn, bne_iff_ne, ne_eq, Bool.not_eq_false] at hx
    rw [List.any_eq_true] at hx
    obtain ⟨i, hi, hix⟩ := hx
    have hk' : k.items.all (·.noSpace) = true := by simpa using hk
    rw [List.all_eq_true] at hk'
    exact ClsItem.noSpace_sound i x (hk' i hi) hix

/-- unique decomposition around a character that occurs exactly once -/
theorem split_unique (c : Char) (t i t' i' : List Char)
    (h : t ++ c :: i = t' ++ c :: i') (hc : (t ++ c :: i).count c = 1) : t = t' ∧ i = i' := by
  induction t generalizing t' with
  | nil =>
    cases t' with
    | nil => simpa using h
    | cons y ys =>
      exfalso
      simp only [List.nil_append, List.cons_append, List.cons.injEq] at h
      obtain ⟨rfl, rfl⟩ := h
      simp [List.count_cons, List.count_append] at hc
  | cons x xs ih =>
    cases t' with
    | nil =>
      exfalso
      simp only [List.nil_append, List.cons_append, List.cons.injEq] at h
      obtain ⟨rfl, rfl⟩ := h
      simp [List.count_cons, List.count_append] at hc
    | cons y ys =>
      simp only [List.cons_append, List.cons.injEq] at h
      obtain ⟨rfl, h⟩ := h
      have hc' : (xs ++ c :: i).count c = 1 := by
        simp only [List.cons_append, List.count_cons] at hc
        by_cases hx : x = c
        · subst hx
          simp [List.count_append] at hc
        · simpa [hx] using hc
      obtain ⟨rfl, rfl⟩ := ih ys h hc'
      exact ⟨rfl, rfl⟩

end FgaVerif.FlatRe
