import FgaVerif.Proofs.PrintCst
import FgaVerif.Proofs.ListenerDoc
import FgaVerif.Proofs.Sort
import FgaVerif.Proofs.MergeOrder
/-! The printer half of the round trip, for **whole models**: the text `Printer.transform m false`
    produces for a non-modular model is *literally* the source text of a well-formed document CST
    (`Model/CstDoc.lean`) whose denotation is the normalised model `normModel m`.  Lifts
    `printed_relation_is_declaration` (`Proofs/PrintCst.lean`) through `parseRelations`, `parseType`,
    `parseTypes`, `parseCondition`, `parseConditions` and `transform`.

    Scope: plain option (`src = false`) and non-modular models (`nonModular`: no type carries a module
    name, so types are printed in model order and relations sorted by name).  With source information the
    printer emits comments, which the comment pre-pass removes before parsing; not treated here. -/
namespace FgaVerif.Model.PrintDoc
open FgaVerif FgaVerif.Model FgaVerif.Model.Printer FgaVerif.Model.Cst FgaVerif.Model.Listener
open FgaVerif.Model.PrintCst

variable {α : Type}

/-! ## association lists: a fold of inserts over distinct keys does not depend on the order -/

/-- `AList.ofList` without the pattern-matching lambda -/
def insertAll (xs : List (String × α)) (acc : List (String × α)) : List (String × α) :=
  xs.foldl (fun m p => AList.insert p.1 p.2 m) acc

theorem ofList_eq (xs : List (String × α)) : AList.ofList xs = insertAll xs [] := by
  unfold AList.ofList insertAll
  congr 1

theorem insertAll_cons (p : String × α) (xs acc) : insertAll (p :: xs) acc = insertAll xs (AList.insert p.1 p.2 acc) := rfl

theorem sortedKeys_insertAll (xs : List (String × α)) : ∀ acc, AList.SortedKeys acc → AList.SortedKeys (insertAll xs acc) := by
  induction xs with
  | nil => intro acc h; exact h
  | cons p xs ih => intro acc h; exact ih _ (AList.sortedKeys_insert _ _ _ h)

theorem find?_insertAll_not_mem (k : String) (xs : List (String × α)) : ∀ acc, k ∉ xs.map (·.1) →
    AList.find? k (insertAll xs acc) = AList.find? k acc := by
  induction xs with
  | nil => intro acc _; rfl
  | cons p xs ih =>
    intro acc h
    simp only [List.map_cons, List.mem_cons, not_or] at h
    rw [insertAll_cons, ih _ h.2, AList.find?_insert_other p.1 k (by simpa using h.1)]

theorem find?_insertAll_mem (xs : List (String × α)) : ∀ acc, (xs.map (·.1)).Nodup → ∀ p ∈ xs,
    AList.find? p.1 (insertAll xs acc) = some p.2 := by
  induction xs with
  | nil => intro _ _ p hp; cases hp
  | cons q xs ih =>
    intro acc hnd p hp
    simp only [List.map_cons, List.nodup_cons] at hnd
    rw [insertAll_cons]
    rcases List.mem_cons.1 hp with rfl | hp
    · rw [find?_insertAll_not_mem _ _ _ hnd.1, AList.find?_insert_self]
    · exact ih _ hnd.2 p hp

/-- **order independence** -/
theorem insertAll_perm {xs ys : List (String × α)} (hp : xs.Perm ys) (hnd : (xs.map (·.1)).Nodup) :
    insertAll xs [] = insertAll ys [] := by
  have hnd' : (ys.map (·.1)).Nodup := (hp.map _).nodup_iff.1 hnd
  apply Merge.AList.ext_of_sorted _ _ (sortedKeys_insertAll _ _ List.Pairwise.nil) (sortedKeys_insertAll _ _ List.Pairwise.nil)
  intro k
  by_cases hk : k ∈ xs.map (·.1)
  · obtain ⟨p, hp1, rfl⟩ := List.mem_map.1 hk
    rw [find?_insertAll_mem _ _ hnd p hp1, find?_insertAll_mem _ _ hnd' p (hp.mem_iff.1 hp1)]
  · have hk' : k ∉ ys.map (·.1) := fun h => hk ((hp.map _).mem_iff.2 h)
    rw [find?_insertAll_not_mem _ _ _ hk, find?_insertAll_not_mem _ _ _ hk']

theorem find?_of_mem_nodup (m : List (String × α)) (hnd : (m.map (·.1)).Nodup) : ∀ p ∈ m, AList.find? p.1 m = some p.2 := by
  induction m with
  | nil => intro p hp; cases hp
  | cons q m ih =>
    intro p hp
    simp only [List.map_cons, List.nodup_cons] at hnd
    obtain ⟨qk, qv⟩ := q
    rcases List.mem_cons.1 hp with rfl | hp
    · simp [AList.find?]
    · have hne : (p.1 == qk) = false := by
        have : p.1 ≠ qk := fun e => hnd.1 (e ▸ List.mem_map.2 ⟨p, hp, rfl⟩)
        simpa using this
      simp only [AList.find?, hne, Bool.false_eq_true, if_false]
      exact ih hnd.2 p hp

theorem nodupB_iff (l : List String) : nodupB l = true ↔ l.Nodup := by
  induction l with
  | nil => simp [nodupB]
  | cons x xs ih => simp [nodupB, List.nodup_cons, ih]

/-! ## sorting pairs by key is sorting the keys -/

theorem insertSortedL_map_fst (x : String × α) (ys : List (String × α)) :
    (insertionSort.insertSortedL (fun a b => decide (a.1 ≤ b.1)) x ys).map (·.1) =
      insertionSort.insertSortedL (fun a b => decide (a ≤ b)) x.1 (ys.map (·.1)) := by
  induction ys with
  | nil => rfl
  | cons y ys ih =>
    simp only [insertionSort.insertSortedL, List.map_cons]
    split <;> simp [ih]

theorem insertionSort_map_fst (xs : List (String × α)) :
    (insertionSort (fun a b => decide (a.1 ≤ b.1)) xs).map (·.1) = insertionSort (fun a b => decide (a ≤ b)) (xs.map (·.1)) := by
  induction xs with
  | nil => rfl
  | cons x xs ih => simp only [insertionSort, List.map_cons, insertSortedL_map_fst, ih]


/-! ## the normalised model -/

/-- the restrictions a relation keeps: those of its metadata entry if the rewrite contains a direct
    assignment, none otherwise -/
def normRelMeta (md : Option TypeMeta) (p : String × Userset) : RelMeta :=
  { restr := if countThis p.2 = 0 then [] else (relMetaOf md p.1).restr, module := "", file := "" }

/-- a type definition as it is read back: the relations (as a map: re-keyed with `AList.ofList`, which
    changes nothing on a key-sorted list, `ofList_sorted`) bound to their normal forms `norm u`; the
    metadata absent for a type without relations, else one entry per relation with the restrictions
    `normRelMeta` keeps and no module / source information -/
def normType (t : TypeDef) : TypeDef :=
  { name := t.name,
    relations := AList.ofList (t.relations.map (fun p => (p.1, norm p.2))),
    md := if t.relations.isEmpty then none
          else some { relations := AList.ofList (t.relations.map (fun p => (p.1, normRelMeta t.md p))),
                      module := "", file := "" } }

/-- a condition parameter as it is read back: the type name through the listener's enum lookup
    (`paramTypeName`, the identity on the eleven DSL type names); the first generic type of a `list` / `map`,
    no generic type otherwise (the printer prints none) -/
def normParam (p : CondParam) : CondParam :=
  { typeName := paramTypeName p.typeName,
    generics := if p.typeName == "list" || p.typeName == "map" then (p.generics.head?.toList).map paramTypeName else [] }

/-- a condition as it is read back: expression right-trimmed, parameters as a map, no metadata -/
def normCond (c : Condition) : Condition :=
  { name := c.name, expr := trimRightWs c.expr,
    params := AList.ofList (c.params.map (fun p => (p.1, normParam p.2))), md := none }

/-- **the model the round trip yields** for a printable non-modular model -/
def normModel (m : Model) : Model :=
  { schema := m.schema, types := m.types.map normType,
    conds := AList.ofList (m.conds.map (fun p => (p.1, normCond p.2))) }

/-! ## the document CST in the printer's layout -/

/-- `\n    define NAME: BODY` — NEWLINE token `"\n    "` (line break and indentation are one token) -/
def toDecl (md : Option TypeMeta) (p : String × Userset) : Option Decl :=
  (toCst (relMetaOf md p.1).restr p.2).map (fun b => ⟨"\n    ", " ", mkIdent p.1, none, some " ", b⟩)

def toDecls (md : Option TypeMeta) : List (String × Userset) → Option (List Decl)
  | [] => some []
  | p :: ps =>
    match toDecl md p, toDecls md ps with
    | some d, some ds => some (d :: ds)
    | _, _ => none

/-- the relations in the order they are printed (non-modular: by name) -/
def sortedRels (t : TypeDef) : List (String × Userset) := insertionSort (fun a b => decide (a.1 ≤ b.1)) t.relations

/-- `\n\ntype NAME` [`\n  relations` declarations]: the NEWLINE token before `type` is `"\n\n"` (the line
    end of the previous line and the empty line the printer puts before every type are one token) -/
def toTypeDefCst (t : TypeDef) : Option TypeDefCst :=
  match toDecls t.md (sortedRels t) with
  | some [] => some ⟨"\n\n", none, " ", mkIdent t.name, none⟩
  | some (d :: ds) => some ⟨"\n\n", none, " ", mkIdent t.name, some ("\n  ", d, ds)⟩
  | none => none

def toTypeDefs : List TypeDef → Option (List TypeDefCst)
  | [] => some []
  | t :: ts =>
    match toTypeDefCst t, toTypeDefs ts with
    | some c, some cs => some (c :: cs)
    | _, _ => none

/-! ## relations -/

/-- what the declaration of a relation means -/
def declContentOf (md : Option TypeMeta) (p : String × Userset) : DeclContent :=
  ⟨p.1, norm p.2, if countThis p.2 = 0 then none else some (relMetaOf md p.1).restr⟩

/-- side condition of `printed_relation_is_declaration` as a Bool -/
def relPrintable (md : Option TypeMeta) (p : String × Userset) : Bool :=
  countThis p.2 == 0 || rsOk (relMetaOf md p.1).restr

theorem decl_ok (ty : String) (md : Option TypeMeta) (p : String × Userset) (line : String)
    (h : parseRelation ty p.1 p.2 (relMetaOf md p.1) false = .ok line) (hp : relPrintable md p = true) :
    ∃ d, toDecl md p = some d ∧ (Decl.tree d).text = "\n" ++ line ∧ d.body.wf = true ∧ d.content = declContentOf md p := by
  have hrs : countThis p.2 = 0 ∨ rsOk (relMetaOf md p.1).restr = true := by simpa [relPrintable] using hp
  obtain ⟨d, h1, h2, h3, h4, h5, h6, h7, h8, h9, h10⟩ := printed_relation_is_declaration ty p.1 p.2 _ line h hrs
  obtain ⟨nl0, w1, name, w2, w3, body⟩ := d
  simp only at h1 h2 h3 h4 h5 h6 h8 h9 h10
  subst h1 h2 h3 h4 h5
  refine ⟨_, by simp only [toDecl, h6, Option.map_some], h7, h8, ?_⟩
  simp only [Decl.content, declContentOf, h9, h10, mkIdent]

theorem decls_ok (ty : String) (rels : List (String × Userset)) (md : Option TypeMeta) :
    ∀ (ps : List (String × Userset)) (body : String), (∀ p ∈ ps, AList.find? p.1 rels = some p.2) →
      (∀ p ∈ ps, relPrintable md p = true) →
      parseRelations ty rels md false (ps.map (·.1)) = .ok body →
      ∃ ds, toDecls md ps = some ds ∧ Tree.textL (ds.map Decl.tree) = body ∧ ds.all (fun d => d.body.wf) = true ∧
        ds.map Decl.content = ps.map (declContentOf md)
  | [], body, _, _, h => by
    simp only [List.map_nil, parseRelations, Except.ok.injEq] at h
    exact ⟨[], rfl, by simp [Tree.textL, ← h], rfl, rfl⟩
  | p :: ps, body, hf, hp, h => by
    simp only [List.map_cons, parseRelations, hf p (by simp)] at h
    split at h
    · cases h
    · rename_i line hline
      split at h
      · cases h
      · rename_i more hmore
        simp only [Except.ok.injEq] at h
        obtain ⟨d, hd, ht, hwf, hc⟩ := decl_ok ty md p line hline (hp p (by simp))
        obtain ⟨ds, hds, hts, hwfs, hcs⟩ := decls_ok ty rels md ps more (fun q hq => hf q (by simp [hq]))
          (fun q hq => hp q (by simp [hq])) hmore
        refine ⟨d :: ds, by simp only [toDecls, hd, hds], ?_, by simp [hwf, hwfs], by simp [hc, hcs]⟩
        simp only [List.map_cons, Tree.textL, ht, hts, ← h, String.append_assoc]


/-! ## type definitions -/

/-- what a type must satisfy: a name, pairwise distinct relation names (it is a map), and for every relation
    with a direct assignment a non-empty list of well-formed type restrictions (`rsOk`) -/
def typePrintable (t : TypeDef) : Bool :=
  t.name != "" && nodupB (AList.keys t.relations) && t.relations.all (relPrintable t.md)

theorem sortedRels_perm (t : TypeDef) : (sortedRels t).Perm t.relations := insertionSort_perm _ _

theorem noComment (a b c : String) : constructSourceComment a b c false = "" := by
  simp [constructSourceComment]

theorem lit_append (a b ab x : String) (h : a ++ b = ab) : a ++ (b ++ x) = ab ++ x := by
  rw [← String.append_assoc, h]

theorem type_ok (t : TypeDef) (s : String) (hp : typePrintable t = true) (h : parseType t false false = .ok s) :
    ∃ c, toTypeDefCst t = some c ∧ c.tree.text = "\n\n" ++ s ∧ c.bodiesWf = true ∧
      c.content = ⟨t.name, false, (sortedRels t).map (declContentOf t.md)⟩ := by
  simp only [typePrintable, Bool.and_eq_true, List.all_eq_true] at hp
  obtain ⟨⟨_, hnd⟩, hrel⟩ := hp
  have hnd' : (t.relations.map (·.1)).Nodup := (nodupB_iff _).1 hnd
  simp only [parseType, noComment, String.append_empty, Bool.false_eq_true, if_false] at h
  split at h
  · rename_i hemp
    have hnil : t.relations = [] := by simpa using hemp
    simp only [Except.ok.injEq] at h
    have hs : sortedRels t = [] := by simp [sortedRels, hnil, insertionSort]
    refine ⟨⟨"\n\n", none, " ", mkIdent t.name, none⟩, by simp [toTypeDefCst, hs, toDecls], ?_, rfl, ?_⟩
    · simp only [TypeDefCst.tree, TypeDefCst.children, TypeDefCst.extendTrees, TypeDefCst.relTrees, Tree.text, Tree.textL,
        nl, ws, tokT, ident_text, mkIdent, List.nil_append, String.append_empty, ← h]
      rw [lit_append "type" " " "type " _ rfl]
    · simp [TypeDefCst.content, TypeDefCst.decls, hs, mkIdent]
  · rename_i hne
    have hkeys : AList.keys t.relations = t.relations.map (·.1) := rfl
    rw [hkeys, ← insertionSort_map_fst] at h
    split at h
    · cases h
    · rename_i body hbody
      simp only [Except.ok.injEq] at h
      have hperm := sortedRels_perm t
      obtain ⟨ds, hds, hts, hwfs, hcs⟩ := decls_ok t.name t.relations t.md (sortedRels t) body
        (fun p hp => find?_of_mem_nodup _ hnd' p (hperm.mem_iff.1 hp))
        (fun p hp => hrel p (hperm.mem_iff.1 hp)) hbody
      cases ds with
      | nil =>
        have hl := congrArg List.length hcs
        simp only [List.map_nil, List.length_nil, List.length_map, hperm.length_eq] at hl
        exact absurd (List.eq_nil_of_length_eq_zero hl.symm) (by simpa using hne)
      | cons d ds =>
        refine ⟨⟨"\n\n", none, " ", mkIdent t.name, some ("\n  ", d, ds)⟩, by simp [toTypeDefCst, hds], ?_, ?_, ?_⟩
        · simp only [TypeDefCst.tree, TypeDefCst.children, TypeDefCst.extendTrees, TypeDefCst.relTrees, Tree.text, Tree.textL,
            nl, ws, tokT, ident_text, mkIdent, List.nil_append, ← h]
          rw [hts, lit_append "type" " " "type " _ rfl, lit_append "\n  " "relations" "\n  relations" _ rfl]
          simp only [String.append_assoc]
        · simpa [TypeDefCst.bodiesWf, TypeDefCst.decls] using hwfs
        · simp only [TypeDefCst.content, TypeDefCst.decls, hcs, mkIdent, Option.isSome_none]

/-- `sep ++ x1 ++ sep ++ x2 ++ …` -/
theorem types_ok : ∀ (ts : List TypeDef) (tds : List String), (∀ t ∈ ts, typePrintable t = true) →
    parseTypes false false ts = .ok tds →
    ∃ cs, toTypeDefs ts = some cs ∧ Tree.textL (cs.map TypeDefCst.tree) = joinRest "\n" tds ∧
      cs.all TypeDefCst.bodiesWf = true ∧
      cs.map TypeDefCst.content = ts.map (fun t => ⟨t.name, false, (sortedRels t).map (declContentOf t.md)⟩)
  | [], tds, _, h => by
    simp only [parseTypes, Except.ok.injEq] at h
    exact ⟨[], rfl, by simp [Tree.textL, ← h, joinRest], rfl, rfl⟩
  | t :: ts, tds, hp, h => by
    simp only [parseTypes] at h
    split at h
    · cases h
    · rename_i s hs
      split at h
      · cases h
      · rename_i more hmore
        simp only [Except.ok.injEq] at h
        obtain ⟨c, hc, ht, hwf, hcont⟩ := type_ok t s (hp t (by simp)) hs
        obtain ⟨cs, hcs, hts, hwfs, hconts⟩ := types_ok ts more (fun q hq => hp q (by simp [hq])) hmore
        refine ⟨c :: cs, by simp only [toTypeDefs, hc, hcs], ?_, by simp [hwf, hwfs], by simp [hcont, hconts]⟩
        simp only [List.map_cons, Tree.textL, ht, hts, ← h, joinRest]
        rw [lit_append "\n" "\n" "\n\n" _ rfl]


/-! ## conditions -/

def toParamType (p : CondParam) : Option ParamTypeCst :=
  if p.typeName == "list" || p.typeName == "map" then
    match p.generics with
    | [] => none
    | g :: _ => some (.container p.typeName g)
  else some (.simple p.typeName)

/-- `NAME: TYPE` — no blank before the colon, one after -/
def toParam (p : String × CondParam) : Option ParamCst :=
  (toParamType p.2).map (fun ty => ⟨none, p.1, none, some " ", ty⟩)

def toParams : List (String × CondParam) → Option (List ParamCst)
  | [] => some []
  | p :: ps =>
    match toParam p, toParams ps with
    | some x, some xs => some (x :: xs)
    | _, _ => none

/-- the parameters in the order they are printed (by name) -/
def sortedParams (c : Condition) : List (String × CondParam) := insertionSort (fun a b => decide (a.1 ≤ b.1)) c.params

/-- `\n\ncondition NAME(P1, P2) {\n  EXPR\n}`.  The expression is given as one pseudo-token carrying the
    whole expression text followed by the NEWLINE token of the line end before `}`: the rule
    `conditionExpression` is a loop over (almost) all tokens, NEWLINE included, so the parser puts that line end
    *into* the expression (as in `Props/C03Doc.doc1`) and the listener trims it off.  How the lexer cuts the
    expression text into tokens is irrelevant to `Tree.text` and to the listener, which only uses the
    concatenated text of `conditionExpression`. -/
def mkCondCst (c : Condition) (x : ParamCst) (xs : List ParamCst) : CondCst :=
  { nl0 := "\n\n", w1 := " ", name := c.name, w2 := none, w3 := none, first := x, w4 := none,
    rest := xs.map (fun y => (some " ", y, none)), nl1 := none, w5 := some " ", nl2 := some "\n  ", w6 := none,
    expr := [("IDENTIFIER", c.expr), ("NEWLINE", "\n")], nl3 := none }

def toCondCst (c : Condition) : Option CondCst :=
  match toParams (sortedParams c) with
  | some (x :: xs) => some (mkCondCst c x xs)
  | _ => none

def toCondCsts : List (String × Condition) → Option (List CondCst)
  | [] => some []
  | p :: ps =>
    match toCondCst p.2, toCondCsts ps with
    | some c, some cs => some (c :: cs)
    | _, _ => none

theorem params_ok : ∀ (ps : List (String × CondParam)) (strs : List String), parseConditionParams ps = .ok strs →
    ∃ xs, toParams ps = some xs ∧ xs.map (fun x => x.tree.text) = strs ∧
      xs.map ParamCst.content = ps.map (fun p => (p.1, normParam p.2))
  | [], strs, h => by
    simp only [parseConditionParams, Except.ok.injEq] at h
    exact ⟨[], rfl, by simp [← h], rfl⟩
  | (name, p) :: ps, strs, h => by
    simp only [parseConditionParams] at h
    split at h
    · cases h
    · rename_i tstr hty
      split at h
      · cases h
      · rename_i more hmore
        simp only [Except.ok.injEq] at h
        obtain ⟨xs, hxs, hts, hcs⟩ := params_ok ps more hmore
        have : ∃ ty, toParamType p = some ty ∧ ty.tree.text = tstr ∧ ty.den = normParam p := by
          split at hty
          · rename_i hc
            split at hty
            · cases hty
            · rename_i g gs hg
              simp only [Except.ok.injEq] at hty
              refine ⟨.container p.typeName g, by simp [toParamType, hc, hg], ?_, ?_⟩
              · simp only [ParamTypeCst.tree, Tree.text, Tree.textL, tokT, String.append_empty, ← hty, String.append_assoc]
              · simp [ParamTypeCst.den, normParam, hc, hg]
          · rename_i hc
            simp only [Except.ok.injEq] at hty
            refine ⟨.simple p.typeName, by simp [toParamType, hc], ?_, ?_⟩
            · simp only [ParamTypeCst.tree, Tree.text, Tree.textL, tokT, String.append_empty, ← hty]
            · simp [ParamTypeCst.den, normParam, hc]
        obtain ⟨ty, hty1, hty2, hty3⟩ := this
        refine ⟨⟨none, name, none, some " ", ty⟩ :: xs, by simp [toParams, toParam, hty1, hxs], ?_, ?_⟩
        · rw [List.map_cons, hts, ← h]
          congr 1
          simp only [ParamCst.tree, Tree.text, textL_append, Tree.textL, optNl, optWs, ws, tokT, hty2,
            String.append_empty, String.empty_append, String.append_assoc]
          rw [lit_append ":" " " ": " _ rfl]
        · simp [hcs, ParamCst.content, hty3]

theorem cond_restTrees_text (xs : List ParamCst) :
    Tree.textL (CondCst.restTrees (xs.map (fun y => (some " ", y, none)))) = joinRest ", " (xs.map (fun x => x.tree.text)) := by
  induction xs with
  | nil => simp [CondCst.restTrees, Tree.textL, joinRest]
  | cons x xs ih =>
    simp only [List.map_cons, CondCst.restTrees, textL_append, ih, joinRest, optWs, Tree.textL, Tree.text, tokT, ws,
      String.append_empty, String.append_assoc]
    rw [lit_append "," " " ", " _ rfl]

theorem toList_nl : "\n".toList = ['\n'] := by decide

theorem trimRightWs_append_nl (s : String) : trimRightWs (s ++ "\n") = trimRightWs s := by
  simp [trimRightWs, String.toList_append, toList_nl, isTrailingWs]


/-- what a condition must satisfy: at least one parameter (the grammar has no empty parameter list) and
    pairwise distinct parameter names (it is a map) -/
def condPrintable (p : String × Condition) : Bool := !p.2.params.isEmpty && nodupB (AList.keys p.2.params)

/-- what the printed condition means -/
def condContentOf (c : Condition) : CondContent :=
  ⟨c.name, (sortedParams c).map (fun p => (p.1, normParam p.2)), trimRightWs c.expr⟩

theorem sortedParams_perm (c : Condition) : (sortedParams c).Perm c.params := insertionSort_perm _ _

theorem cond_ok (k : String) (c : Condition) (s : String) (hp : c.params.isEmpty = false)
    (h : parseCondition k c false = .ok s) :
    k = c.name ∧ ∃ cc, toCondCst c = some cc ∧ cc.tree.text ++ "\n" = "\n\n" ++ s ∧ cc.content = condContentOf c := by
  simp only [parseCondition, noComment, String.append_empty] at h
  split at h
  · cases h
  · rename_i hk
    refine ⟨by simpa using hk, ?_⟩
    split at h
    · cases h
    · rename_i strs hstrs
      simp only [Except.ok.injEq] at h
      obtain ⟨xs, hxs, hts, hcs⟩ := params_ok _ strs hstrs
      cases xs with
      | nil =>
        have hl := congrArg List.length hcs
        simp only [List.map_nil, List.length_nil, List.length_map, (insertionSort_perm _ c.params).length_eq] at hl
        rw [List.eq_nil_of_length_eq_zero hl.symm] at hp
        cases hp
      | cons x xs =>
        refine ⟨mkCondCst c x xs, by simp only [toCondCst, sortedParams, hxs], ?_, ?_⟩
        · simp only [mkCondCst, CondCst.tree, CondCst.exprTree, Tree.text, textL_append, cond_restTrees_text, Tree.textL, optNl, optWs,
            ws, nl, tokT, exprTok, List.map_cons, List.map_nil, String.append_empty, ← h, ← hts,
            intercalate_cons, String.append_assoc]
          rw [lit_append "condition" " " "condition " _ rfl, lit_append "\n" "}" "\n}" _ rfl,
            lit_append "{" "\n  " "{\n  " _ rfl, lit_append " " "{\n  " " {\n  " _ rfl,
            lit_append ")" " {\n  " ") {\n  " _ rfl]
        · simp only [mkCondCst, CondCst.content, condContentOf, CondCst.paramList, List.map_map, Function.comp_def, List.map_id',
            exprText, String.append_empty, trimRightWs_append_nl, sortedParams]
          rw [← hcs]

theorem conds_ok : ∀ (ps : List (String × Condition)) (cs : String), (∀ p ∈ ps, p.2.params.isEmpty = false) →
    parseConditionList false ps = .ok cs →
    (∀ p ∈ ps, p.1 = p.2.name) ∧
    ∃ ccs, toCondCsts ps = some ccs ∧ Tree.textL (ccs.map CondCst.tree) ++ "\n" = "\n" ++ cs ∧
      ccs.map CondCst.content = ps.map (fun p => condContentOf p.2)
  | [], cs, _, h => by
    simp only [parseConditionList, Except.ok.injEq] at h
    exact ⟨by simp, [], rfl, by simp [Tree.textL, ← h], rfl⟩
  | (k, c) :: ps, cs, hp, h => by
    simp only [parseConditionList] at h
    split at h
    · cases h
    · rename_i s hs
      split at h
      · cases h
      · rename_i more hmore
        simp only [Except.ok.injEq] at h
        obtain ⟨hk, cc, hcc, ht, hcont⟩ := cond_ok k c s (hp (k, c) (by simp)) hs
        obtain ⟨hks, ccs, hccs, hts, hconts⟩ := conds_ok ps more (fun q hq => hp q (by simp [hq])) hmore
        refine ⟨?_, cc :: ccs, by simp only [toCondCsts, hcc, hccs], ?_, by simp [hcont, hconts]⟩
        · intro p hp'
          rcases List.mem_cons.1 hp' with rfl | hp'
          · exact hk
          · exact hks p hp'
        · simp only [List.map_cons, Tree.textL, String.append_assoc, hts]
          rw [← String.append_assoc, ht, ← h]
          simp only [String.append_assoc]
          rw [lit_append "\n" "\n" "\n\n" _ rfl]


/-! ## the whole document -/

/-- the conditions in the order they are printed (`sortByModule`; which order is irrelevant below) -/
def sortedConds (m : Model) : List (String × Condition) :=
  insertionSort (fun (a b : String × Condition) =>
    let am : CondMeta := a.2.md.getD {}
    let bm : CondMeta := b.2.md.getD {}
    sortByModuleLe a.1 b.1 am.module bm.module am.file bm.file) m.conds

theorem parseConditions_eq (m : Model) : parseConditions m.conds false = parseConditionList false (sortedConds m) := rfl

theorem sortedConds_perm (m : Model) : (sortedConds m).Perm m.conds := insertionSort_perm _ _

/-- The document: header `model` NEWLINE`"\n  "` `schema` WS`" "` VERSION; the types (each begins with the
    NEWLINE token `"\n\n"`); the conditions (each begins with `"\n\n"` too: the line end of what precedes
    and the empty line).  The single line end that closes the text is, of `main`'s optional NEWLINEs, the
    first one that can take it: the one after the header if there is nothing else, the one after the types
    if there are no conditions, the one before EOF otherwise. -/
def mkDoc (version : String) (ts : List TypeDefCst) (cs : List CondCst) : DocCst :=
  { w0 := none, nl0 := none, header := .model "\n  " " " version none,
    nl1 := if ts.isEmpty && cs.isEmpty then some "\n" else none,
    types := ts,
    nl2 := if !ts.isEmpty && cs.isEmpty then some "\n" else none,
    conds := cs,
    nl3 := if cs.isEmpty then none else some "\n" }

/-- **the document CST of the printed model**; `none` where the printed text is the text of no document
    (see `toCst`; a `list`/`map` parameter without generic type; a condition without parameters) -/
def toDocCst (m : Model) : Option DocCst :=
  match toTypeDefs m.types, toCondCsts (sortedConds m) with
  | some ts, some cs => some (mkDoc m.schema ts cs)
  | _, _ => none

/-- no type carries a module name: `transform` prints the types in model order, relations by name -/
def nonModular (m : Model) : Bool := !m.types.any (fun t => typeModule t != "")

/-- **what the theorem demands of the model** (decidable): every type has a non-empty name and pairwise
    distinct relation names, and every relation *with a direct assignment* a non-empty list of well-formed
    type restrictions (`rsOk`; both needed already for one relation, see `Proofs/PrintCst.lean`); condition
    names are pairwise distinct, every condition has at least one parameter and pairwise distinct parameter
    names.  (That printing succeeds is a separate hypothesis of the theorems.) -/
def printable (m : Model) : Bool :=
  m.types.all typePrintable && nodupB (AList.keys m.conds) && m.conds.all condPrintable

theorem doc_text (v : String) (ts : List TypeDefCst) (cs : List CondCst) :
    (DocCst.tree (mkDoc v ts cs)).text =
      "model\n  schema " ++ v ++ Tree.textL (ts.map TypeDefCst.tree) ++ Tree.textL (cs.map CondCst.tree) ++ "\n" ++ "<EOF>" := by
  have hh : (HeaderCst.tree (.model "\n  " " " v none)).text = "model\n  schema " ++ v := by
    simp only [HeaderCst.tree, Tree.text, textL_append, Tree.textL, optWs, nl, ws, tokT, String.append_empty]
    rw [lit_append "schema" " " "schema " _ rfl, lit_append "\n  " "schema " "\n  schema " _ rfl,
      lit_append "model" "\n  schema " "model\n  schema " _ rfl]
  cases ts <;> cases cs <;>
    simp [mkDoc, DocCst.tree, Tree.text, textL_append, Tree.textL, optWs, optNl, nl, tokT, hh, String.append_assoc]

/-- the printed text from its pieces -/
theorem printed_text (v : String) (tds : List String) (cstr T : String) (hT : T ++ "\n" = "\n" ++ cstr) :
    "model\n  schema " ++ v ++ "\n" ++ ("\n".intercalate tds ++ (if tds.isEmpty then "" else "\n")) ++ cstr =
      "model\n  schema " ++ v ++ joinRest "\n" tds ++ T ++ "\n" := by
  have h1 : "\n" ++ ("\n".intercalate tds ++ (if tds.isEmpty then "" else "\n")) = joinRest "\n" tds ++ "\n" := by
    cases tds with
    | nil => simp [joinRest, String.intercalate]
    | cons x xs => simp [intercalate_cons, joinRest, String.append_assoc]
  calc "model\n  schema " ++ v ++ "\n" ++ ("\n".intercalate tds ++ (if tds.isEmpty then "" else "\n")) ++ cstr
      = "model\n  schema " ++ v ++ ("\n" ++ ("\n".intercalate tds ++ (if tds.isEmpty then "" else "\n"))) ++ cstr := by
        simp only [String.append_assoc]
    _ = "model\n  schema " ++ v ++ joinRest "\n" tds ++ ("\n" ++ cstr) := by rw [h1]; simp only [String.append_assoc]
    _ = "model\n  schema " ++ v ++ joinRest "\n" tds ++ T ++ "\n" := by rw [← hT]; simp only [String.append_assoc]

/-! ### the denotation -/

theorem relsFrom_eq (md : Option TypeMeta) (ps : List (String × Userset)) (acc) :
    relsFrom (ps.map (declContentOf md)) acc = insertAll (ps.map (fun p => (p.1, norm p.2))) acc := by
  simp [relsFrom, insertAll, List.foldl_map, declContentOf]

theorem metasFrom_eq (md : Option TypeMeta) (ps : List (String × Userset)) (acc) :
    metasFrom "" (ps.map (declContentOf md)) acc = insertAll (ps.map (fun p => (p.1, normRelMeta md p))) acc := by
  simp only [metasFrom, insertAll, List.foldl_map, declContentOf, DeclContent.relMeta, normRelMeta]
  congr 1
  funext acc p
  congr 1
  split <;> simp

theorem type_den (t : TypeDef) (hnd : (t.relations.map (·.1)).Nodup) :
    TypeContent.den false "" ⟨t.name, false, (sortedRels t).map (declContentOf t.md)⟩ = normType t := by
  have hperm := sortedRels_perm t
  have hnd' : ((sortedRels t).map (·.1)).Nodup := (hperm.map _).nodup_iff.2 hnd
  have hemp : ((sortedRels t).map (declContentOf t.md)).isEmpty = t.relations.isEmpty := by
    have hlen : ∀ {β : Type} (l : List β), l.isEmpty = decide (l.length = 0) := by intro β l; cases l <;> simp
    rw [hlen, hlen, List.length_map, hperm.length_eq]
  simp only [TypeContent.den, normType, relsFrom_eq, metasFrom_eq, ofList_eq, hemp, Bool.not_false, Bool.true_and,
    Bool.false_and, Bool.false_eq_true, if_false]
  rw [insertAll_perm (hperm.map (fun p => (p.1, norm p.2))) (by simpa [List.map_map, Function.comp_def] using hnd'),
    insertAll_perm (hperm.map (fun p => (p.1, normRelMeta t.md p))) (by simpa [List.map_map, Function.comp_def] using hnd')]

theorem paramsFrom_eq (ps : List (String × CondParam)) (acc) : paramsFrom ps acc = insertAll ps acc := rfl

theorem cond_den (c : Condition) (hnd : (c.params.map (·.1)).Nodup) :
    CondContent.den false "" (condContentOf c) = normCond c := by
  have hperm := sortedParams_perm c
  have hnd' : ((sortedParams c).map (·.1)).Nodup := (hperm.map _).nodup_iff.2 hnd
  simp only [CondContent.den, condContentOf, normCond, paramsFrom_eq, ofList_eq, Bool.false_eq_true, if_false]
  rw [insertAll_perm (hperm.map (fun p => (p.1, normParam p.2))) (by simpa [List.map_map, Function.comp_def] using hnd')]

theorem condsFrom_eq : ∀ (ps : List (String × Condition)) (acc : List (String × Condition)),
    (∀ p ∈ ps, p.1 = p.2.name ∧ (p.2.params.map (·.1)).Nodup) →
    condsFrom false "" (ps.map (fun p => condContentOf p.2)) acc = insertAll (ps.map (fun p => (p.1, normCond p.2))) acc
  | [], acc, _ => rfl
  | p :: ps, acc, h => by
    have hp := h p (by simp)
    simp only [List.map_cons, condsFrom_cons, insertAll_cons, cond_den p.2 hp.2]
    have hn : (condContentOf p.2).name = p.1 := by rw [hp.1]; rfl
    rw [hn]
    exact condsFrom_eq ps _ (fun q hq => h q (by simp [hq]))


/-! ## the theorem -/

/-- **The printed text of a model is the source text of a well-formed document that denotes the normalised
    model.**  For a non-modular `printable` model, if `transform m false` returns the text `s` then
    `toDocCst m` is defined, the token texts of its parse tree concatenate to *literally* `s` (followed by the
    text `<EOF>` of the EOF token, which `GetText()` of the root includes), it is well formed (`wfB`, so the
    listener theorem `transform_doc` applies) and it denotes `normModel m` (no extension map: a model file). -/
theorem printed_model_is_document (m : Model) (s : String) (hnm : nonModular m = true) (hp : printable m = true)
    (h : Printer.transform m false = .ok s) :
    ∃ d, toDocCst m = some d ∧ (DocCst.tree d).text = s ++ "<EOF>" ∧ d.wfB = true ∧ DocCst.den d = (normModel m, none) := by
  have hmod : m.types.any (fun t => typeModule t != "") = false := by simpa [nonModular] using hnm
  simp only [printable, Bool.and_eq_true, List.all_eq_true] at hp
  obtain ⟨⟨hty, hcnd⟩, hcp⟩ := hp
  have hcnd' : (m.conds.map (·.1)).Nodup := (nodupB_iff _).1 hcnd
  simp only [Printer.transform, orderedTypes, hmod, Bool.false_eq_true, if_false, parseConditions_eq] at h
  split at h
  · cases h
  · rename_i tds htds
    split at h
    · cases h
    · rename_i cstr hcs
      simp only [Except.ok.injEq] at h
      have hcperm := sortedConds_perm m
      have hcp' : ∀ p ∈ sortedConds m, condPrintable p = true := fun p hp => hcp p (hcperm.mem_iff.1 hp)
      obtain ⟨tcs, htcs, htt, htwf, htc⟩ := types_ok m.types tds hty htds
      obtain ⟨hkeys, ccs, hccs, hct, hcc⟩ := conds_ok (sortedConds m) cstr
        (fun p hp => by have := hcp' p hp; simp only [condPrintable, Bool.and_eq_true] at this; simpa using this.1) hcs
      refine ⟨mkDoc m.schema tcs ccs, by simp only [toDocCst, htcs, hccs], ?_, ?_, ?_⟩
      · rw [doc_text, htt, ← h, printed_text m.schema tds cstr _ hct]
      · have hcontent : (mkDoc m.schema tcs ccs).content =
            ⟨.model m.schema, m.types.map (fun t => ⟨t.name, false, (sortedRels t).map (declContentOf t.md)⟩),
              (sortedConds m).map (fun p => condContentOf p.2)⟩ := by
          simp only [DocCst.content, mkDoc, HeaderCst.content, htc, hcc]
        simp only [DocCst.wfB, hcontent, DocContent.wf, Bool.and_eq_true, List.all_eq_true, HeaderContent.isModular,
          Bool.false_eq_true, if_false]
        refine ⟨fun t ht => List.all_eq_true.1 (by simpa [mkDoc] using htwf) t (by simpa [mkDoc] using ht), ⟨⟨?_, ?_⟩, ?_⟩, ?_⟩
        · intro tc htc'
          obtain ⟨t, ht, rfl⟩ := List.mem_map.1 htc'
          have := hty t ht
          simp only [typePrintable, Bool.and_eq_true] at this
          simp only [TypeContent.wf, Bool.and_eq_true, this.1.1, true_and, List.map_map, Function.comp_def, declContentOf]
          exact (nodupB_iff _).2 (((sortedRels_perm t).map _).nodup_iff.2 ((nodupB_iff _).1 this.1.2))
        · intro cc hcc'
          obtain ⟨p, hp, rfl⟩ := List.mem_map.1 hcc'
          have := hcp' p hp
          simp only [condPrintable, Bool.and_eq_true] at this
          simp only [CondContent.wf, condContentOf, List.map_map, Function.comp_def]
          exact (nodupB_iff _).2 (((sortedParams_perm p.2).map _).nodup_iff.2 ((nodupB_iff _).1 this.2))
        · have hn : ((sortedConds m).map (fun p => condContentOf p.2)).map (·.name) = (sortedConds m).map (·.1) := by
            rw [List.map_map]
            exact List.map_congr_left (fun p hp => (hkeys p hp).symm)
          rw [hn]
          exact (nodupB_iff _).2 ((hcperm.map _).nodup_iff.2 hcnd')
        · intro tc htc'
          obtain ⟨t, _, rfl⟩ := List.mem_map.1 htc'
          rfl
      · have hcontent : (mkDoc m.schema tcs ccs).content =
            ⟨.model m.schema, m.types.map (fun t => ⟨t.name, false, (sortedRels t).map (declContentOf t.md)⟩),
              (sortedConds m).map (fun p => condContentOf p.2)⟩ := by
          simp only [DocCst.content, mkDoc, HeaderCst.content, htc, hcc]
        simp only [DocCst.den, hcontent, DocContent.den, HeaderContent.isModular, HeaderContent.moduleName,
          HeaderContent.schema, Bool.false_eq_true, if_false, normModel, List.map_map, Function.comp_def]
        congr 2
        · apply List.map_congr_left
          intro t ht
          have := hty t ht
          simp only [typePrintable, Bool.and_eq_true] at this
          exact type_den t ((nodupB_iff _).1 this.1.2)
        · rw [condsFrom_eq (sortedConds m) [] (fun p hp => ⟨hkeys p hp, by
            have := hcp' p hp
            simp only [condPrintable, Bool.and_eq_true] at this
            exact (nodupB_iff _).1 this.2⟩), ofList_eq]
          exact insertAll_perm (hcperm.map _) (by
            simpa [List.map_map, Function.comp_def] using (hcperm.map (·.1)).nodup_iff.2 hcnd')


/-- **Printing a printable non-modular model and walking the parse tree of the printed text yields the
    normalised model.**  The only link missing to a round-trip theorem about the code is that the
    lexer/parser read the text `s` back as `DocCst.tree d` (up to positions) — checked by correspondence
    with the real parser and with the lexer / parser models. -/
theorem print_then_walk (m : Model) (s : String) (hnm : nonModular m = true) (hp : printable m = true)
    (h : Printer.transform m false = .ok s) :
    ∃ d, toDocCst m = some d ∧ (DocCst.tree d).text = s ++ "<EOF>" ∧
      Listener.transform [] (DocCst.tree d) = .ok (normModel m) none := by
  obtain ⟨d, hd, ht, hwf, hden⟩ := printed_model_is_document m s hnm hp h
  refine ⟨d, hd, ht, ?_⟩
  rw [Cst.transform_doc d hwf, hden]

/-! ## normal forms: what a well-formed CST denotes is a fixed point of `norm` -/

theorem combine_normal (op : Op) (hop : opOk op = true) (x : Userset) (ys : List Userset) (hys : ys ≠ [])
    (hx : norm x = x) (hn : normL ys = ys) (hc : countThisL ys = 0) :
    norm (combine op (x :: ys)) = combine op (x :: ys) ∧ countThis (combine op (x :: ys)) = countThis x := by
  cases ys with
  | nil => exact absurd rfl hys
  | cons y ys =>
    have hnone := findIdx_none_of_count (y :: ys) hc
    have hhoist : hoistBy (x :: y :: ys) (x :: y :: ys) = x :: y :: ys := by
      by_cases hx' : isThis x = true
      · rw [isThis_eq x hx', hoistBy_this]
      · have hx'' : isThis x = false := by simpa using hx'
        simp [hoistBy, List.findIdx?_cons, hx'', hnone]
    have hnl : normL (x :: y :: ys) = x :: y :: ys := by rw [normL, hx, hn]
    have hy : norm y = y := by
      simp only [normL, List.cons.injEq] at hn
      exact hn.1
    cases op with
    | none => cases hop
    | or => exact ⟨by simp only [combine, norm, hnl, hhoist, collapse], by simp only [combine, countThis, countThisL] at hc ⊢; omega⟩
    | and => exact ⟨by simp only [combine, norm, hnl, hhoist, collapse], by simp only [combine, countThis, countThisL] at hc ⊢; omega⟩
    | butNot => exact ⟨by simp only [combine, norm, hx, hy], by simp only [combine, countThis, countThisL] at hc ⊢; omega⟩

theorem rw_normal (r : Rw) : norm r.den = r.den ∧ countThis r.den = 0 := by
  unfold Rw.den
  split <;> simp [norm, countThis]

mutual
  theorem defND_normal (d : DefND) (hd : d.wf = true) : norm (DefND.den d) = DefND.den d ∧ countThis (DefND.den d) = 0 := by
    match d, hd with
    | .mk first none, hd =>
      simp only [DefND.wf] at hd
      simpa only [DefND.den] using itemND_normal first hd
    | .mk first (some (.mk op items)), hd =>
      simp only [DefND.wf, Partials.wf, Bool.and_eq_true] at hd
      have h1 := itemND_normal first hd.1
      have h2 := items_normal items hd.2.2
      have := combine_normal op hd.2.1 _ _ (items_dens_ne_nil items) h1.1 h2.1 h2.2
      simp only [DefND.den]
      exact ⟨this.1, by rw [this.2, h1.2]⟩
  theorem itemND_normal (i : ItemND) (hi : i.wf = true) : norm (ItemND.den i) = ItemND.den i ∧ countThis (ItemND.den i) = 0 := by
    match i, hi with
    | .rw r, _ => simpa only [ItemND.den] using rw_normal r
    | .paren r, hi =>
      simp only [ItemND.wf] at hi
      simpa only [ItemND.den] using recND_normal r hi
  theorem recND_normal (r : RecND) (hr : r.wf = true) : norm (RecND.den r) = RecND.den r ∧ countThis (RecND.den r) = 0 := by
    match r, hr with
    | .ofDef _ _ d, hr =>
      simp only [RecND.wf] at hr
      simpa only [RecND.den] using defND_normal d hr
    | .ofRec _ _ x, hr =>
      simp only [RecND.wf] at hr
      simpa only [RecND.den] using recND_normal x hr
  theorem items_normal (items : Items) (hi : items.wf = true) :
      normL (Items.dens items) = Items.dens items ∧ countThisL (Items.dens items) = 0 := by
    match items, hi with
    | .one _ _ i, hi =>
      simp only [Items.wf] at hi
      have := itemND_normal i hi
      simp only [Items.dens, normL, countThisL, this.1, this.2, and_self]
    | .cons _ _ i rest, hi =>
      simp only [Items.wf, Bool.and_eq_true] at hi
      have h1 := itemND_normal i hi.1
      have h2 := items_normal rest hi.2
      simp only [Items.dens, normL, countThisL, h1.1, h1.2, h2.1, h2.2, and_self]
end

mutual
  theorem def_normal (d : Def) (hd : d.wf = true) :
      norm (Def.den d) = Def.den d ∧ (countThis (Def.den d) = 0 ↔ Def.restr d = none) := by
    match d, hd with
    | .mk first none, hd =>
      simp only [Def.wf] at hd
      simpa only [Def.den, Def.restr] using first_normal first hd
    | .mk first (some (.mk op items)), hd =>
      simp only [Def.wf, Partials.wf, Bool.and_eq_true] at hd
      have h1 := first_normal first hd.1
      have h2 := items_normal items hd.2.2
      have := combine_normal op hd.2.1 _ _ (items_dens_ne_nil items) h1.1 h2.1 h2.2
      simp only [Def.den, Def.restr]
      exact ⟨this.1, by rw [this.2, h1.2]⟩
  theorem first_normal (f : First) (hf : f.wf = true) :
      norm (First.den f) = First.den f ∧ (countThis (First.den f) = 0 ↔ First.restr f = none) := by
    match f, hf with
    | .direct d, _ => simp [First.den, First.restr, norm, countThis]
    | .rw r, _ =>
      have := rw_normal r
      simp [First.den, First.restr, this.1, this.2]
    | .recurse r, hf =>
      simp only [First.wf] at hf
      simpa only [First.den, First.restr] using rec_normal r hf
  theorem rec_normal (r : Rec) (hr : r.wf = true) :
      norm (Rec.den r) = Rec.den r ∧ (countThis (Rec.den r) = 0 ↔ Rec.restr r = none) := by
    match r, hr with
    | .ofDef _ _ d, hr =>
      simp only [Rec.wf] at hr
      simpa only [Rec.den, Rec.restr] using def_normal d hr
    | .ofRecND _ _ x, hr =>
      simp only [Rec.wf] at hr
      have := recND_normal x hr
      simp [Rec.den, Rec.restr, this.1, this.2]
end

/-- **`norm` is idempotent on everything the printer prints**: the normal form of a printed rewrite is the
    denotation of a well-formed CST, hence a fixed point. -/
theorem norm_idem_of_printed (ty rel : String) (u : Userset) (md : RelMeta) (line : String)
    (h : parseRelation ty rel u md false = .ok line) (hrs : countThis u = 0 ∨ rsOk md.restr = true) :
    norm (norm u) = norm u := by
  obtain ⟨d, _, _, _, _, _, _, _, hwf, hden, _⟩ := printed_relation_is_declaration ty rel u md line h hrs
  rw [← hden]
  exact (def_normal d.body hwf).1

/-- not in general: a direct assignment that surfaces in a non-first position only after a collapse is
    hoisted by the second pass (such a rewrite is not printable: the printer raises the nesting error) -/
example : norm (.union [.computed "a", .union [.this]]) = .union [.computed "a", .this] ∧
    norm (.union [.computed "a", .this]) = .union [.this, .computed "a"] := ⟨by rfl, by rfl⟩


/-! ## `normModel` fixes every model the listener returns for a well-formed model file -/

variable {β : Type}

theorem insert_mapVal (g : String × α → β) (k : String) (v : α) (m : List (String × α)) :
    (AList.insert k v m).map (fun p => (p.1, g p)) = AList.insert k (g (k, v)) (m.map (fun p => (p.1, g p))) := by
  induction m with
  | nil => rfl
  | cons q m ih =>
    obtain ⟨k', v'⟩ := q
    simp only [AList.insert, List.map_cons]
    split
    · rfl
    · split
      · rfl
      · simp only [List.map_cons, ih]

theorem insertAll_mapVal (g : String × α → β) (xs : List (String × α)) : ∀ acc,
    (insertAll xs acc).map (fun p => (p.1, g p)) = insertAll (xs.map (fun p => (p.1, g p))) (acc.map (fun p => (p.1, g p))) := by
  induction xs with
  | nil => intro acc; rfl
  | cons x xs ih => intro acc; rw [insertAll_cons, ih, insert_mapVal]; rfl

theorem sortedKeys_mapVal (g : String × α → β) (m : List (String × α)) (h : AList.SortedKeys m) :
    AList.SortedKeys (m.map (fun p => (p.1, g p))) := by
  unfold AList.SortedKeys at h ⊢
  exact List.pairwise_map.2 h

theorem nodup_of_sortedKeys (m : List (String × α)) (h : AList.SortedKeys m) : (m.map (·.1)).Nodup := by
  unfold AList.SortedKeys at h
  exact List.pairwise_map.2 (h.imp (fun {a b} hlt e => by rw [e] at hlt; exact String.lt_irrefl _ hlt))

theorem find?_none_of_not_mem (k : String) (m : List (String × α)) (h : k ∉ m.map (·.1)) : AList.find? k m = none := by
  cases hf : AList.find? k m with
  | none => rfl
  | some v => exact absurd ((AList.mem_keys_iff_contains k m).2 (by simp [AList.contains, hf])) h

/-- re-keying a key-sorted list changes nothing -/
theorem insertAll_sorted_self (m : List (String × α)) (h : AList.SortedKeys m) : insertAll m [] = m := by
  have hnd := nodup_of_sortedKeys m h
  apply Merge.AList.ext_of_sorted _ _ (sortedKeys_insertAll _ _ List.Pairwise.nil) h
  intro k
  by_cases hk : k ∈ m.map (·.1)
  · obtain ⟨p, hp, rfl⟩ := List.mem_map.1 hk
    rw [find?_insertAll_mem _ _ hnd p hp, find?_of_mem_nodup _ hnd p hp]
  · rw [find?_insertAll_not_mem _ _ _ hk, find?_none_of_not_mem _ _ hk]; rfl

theorem ofList_sorted (m : List (String × α)) (h : AList.SortedKeys m) : AList.ofList m = m := by
  rw [ofList_eq, insertAll_sorted_self m h]

/-- re-keying a value-mapped fold of inserts is the fold over the mapped entries -/
theorem ofList_mapVal_insertAll (g : String × α → β) (xs : List (String × α)) :
    AList.ofList ((insertAll xs []).map (fun p => (p.1, g p))) = insertAll (xs.map (fun p => (p.1, g p))) [] := by
  rw [ofList_sorted _ (sortedKeys_mapVal g _ (sortedKeys_insertAll _ _ List.Pairwise.nil)), insertAll_mapVal]; rfl

theorem insertAll_ne_nil (x : String × α) (xs : List (String × α)) : ∀ acc, insertAll (x :: xs) acc ≠ [] := by
  induction xs generalizing x with
  | nil => intro acc; exact insert_ne_nil _ _ _
  | cons y ys ih => intro acc; rw [insertAll_cons]; exact ih y _

/-- a declaration content in normal form: the rewrite a fixed point of `norm`, restrictions exactly when
    there is a direct assignment -/
def declNormal (d : DeclContent) : Prop := norm d.den = d.den ∧ (countThis d.den = 0 ↔ d.restr = none)

/-- a condition content in normal form -/
def condNormal (c : CondContent) : Prop := trimRightWs c.expr = c.expr ∧ ∀ p ∈ c.params, normParam p.2 = p.2

theorem relsFrom_insertAll (ds : List DeclContent) (acc) :
    relsFrom ds acc = insertAll (ds.map (fun d => (d.name, d.den))) acc := by
  simp [relsFrom, insertAll, List.foldl_map]

theorem metasFrom_insertAll (rm : String) (ds : List DeclContent) (acc) :
    metasFrom rm ds acc = insertAll (ds.map (fun d => (d.name, d.relMeta rm))) acc := by
  simp [metasFrom, insertAll, List.foldl_map]

theorem rels_fix (ds : List DeclContent) (hn : ∀ d ∈ ds, declNormal d) :
    AList.ofList ((relsFrom ds []).map (fun p => (p.1, norm p.2))) = relsFrom ds [] := by
  rw [relsFrom_insertAll, ofList_mapVal_insertAll (fun p => norm p.2), List.map_map]
  congr 1
  apply List.map_congr_left
  intro d hd
  simp only [Function.comp, (hn d hd).1]

theorem metas_fix (ds : List DeclContent) (hn : ∀ d ∈ ds, declNormal d) (md : Option TypeMeta)
    (hmd : ∀ d ∈ ds, relMetaOf md d.name = d.relMeta "") :
    AList.ofList ((relsFrom ds []).map (fun p => (p.1, normRelMeta md p))) = metasFrom "" ds [] := by
  rw [relsFrom_insertAll, ofList_mapVal_insertAll, List.map_map, metasFrom_insertAll]
  congr 1
  apply List.map_congr_left
  intro d hd
  simp only [Function.comp, normRelMeta, hmd d hd, DeclContent.relMeta, Prod.mk.injEq, true_and]
  by_cases hc : countThis d.den = 0
  · simp [hc, (hn d hd).2.1 hc]
  · simp [hc]

theorem normType_den (t : TypeContent) (hnd : (t.decls.map (·.name)).Nodup) (hn : ∀ d ∈ t.decls, declNormal d) :
    normType (t.den false "") = t.den false "" := by
  obtain ⟨name, ext, ds⟩ := t
  simp only at hnd hn
  have hemp : (relsFrom ds []).isEmpty = ds.isEmpty := by
    cases ds with
    | nil => rfl
    | cons d0 ds0 =>
      rw [relsFrom_insertAll, List.map_cons]
      cases h : insertAll _ _ with
      | nil => exact absurd h (insertAll_ne_nil _ _ _)
      | cons _ _ => rfl
  have hfind : ∀ d ∈ ds, relMetaOf (some { relations := metasFrom "" ds [], module := "" }) d.name = d.relMeta "" := by
    intro d hd
    have : AList.find? d.name (metasFrom "" ds []) = some (d.relMeta "") := by
      rw [metasFrom_insertAll]
      exact find?_insertAll_mem _ _ (by simpa [List.map_map, Function.comp_def] using hnd) (d.name, d.relMeta "")
        (List.mem_map.2 ⟨d, hd, rfl⟩)
    simp only [relMetaOf, this, Option.getD_some]
  simp only [TypeContent.den, normType, hemp, rels_fix ds hn, Bool.not_false, Bool.true_and, Bool.false_and,
    Bool.false_eq_true, if_false]
  by_cases hE : ds.isEmpty = true
  · simp only [hE, if_true]
  · have hE' : ds.isEmpty = false := by simpa using hE
    simp only [hE', Bool.false_eq_true, if_false, metas_fix ds hn _ hfind]

theorem normCond_den (c : CondContent) (hn : condNormal c) : normCond (c.den false "") = c.den false "" := by
  simp only [CondContent.den, normCond, hn.1, Bool.false_eq_true, if_false, paramsFrom_eq]
  congr 1
  rw [ofList_mapVal_insertAll (fun p => normParam p.2)]
  congr 1
  calc c.params.map (fun p => (p.1, normParam p.2)) = c.params.map id :=
        List.map_congr_left (fun p hp => by simp only [hn.2 p hp, id])
    _ = c.params := List.map_id _

theorem condsFrom_insertAll (cs : List CondContent) (acc) :
    condsFrom false "" cs acc = insertAll (cs.map (fun c => (c.name, c.den false ""))) acc := by
  simp [condsFrom, insertAll, List.foldl_map]

/-- at the level of contents -/
theorem normModel_content_den (c : DocContent) (hm : c.header.isModular = false)
    (hnd : ∀ t ∈ c.types, (t.decls.map (·.name)).Nodup) (hd : ∀ t ∈ c.types, ∀ d ∈ t.decls, declNormal d)
    (hc : ∀ cc ∈ c.conds, condNormal cc) : normModel c.den.1 = c.den.1 := by
  simp only [DocContent.den, hm, normModel, List.map_map]
  congr 1
  · calc c.types.map (normType ∘ TypeContent.den false c.header.moduleName) = c.types.map (TypeContent.den false "") := by
          apply List.map_congr_left
          intro t ht
          cases hh : c.header with
          | model v => exact normType_den t (hnd t ht) (hd t ht)
          | module n => rw [hh] at hm; cases hm
      _ = c.types.map (TypeContent.den false c.header.moduleName) := by
          cases hh : c.header with
          | model v => rfl
          | module n => rw [hh] at hm; cases hm
  · have hmn : c.header.moduleName = "" := by
      cases hh : c.header with
      | model v => rfl
      | module n => rw [hh] at hm; cases hm
    rw [hmn, condsFrom_insertAll, ofList_mapVal_insertAll (fun p => normCond p.2), List.map_map]
    congr 1
    apply List.map_congr_left
    intro cc hcc
    simp only [Function.comp, normCond_den cc (hc cc hcc)]

/-! ### the contents of well-formed CSTs are normal -/

theorem dropWhile_idem (p : Char → Bool) (l : List Char) : (l.dropWhile p).dropWhile p = l.dropWhile p := by
  induction l with
  | nil => rfl
  | cons x xs ih =>
    by_cases h : p x = true
    · simp only [List.dropWhile_cons, h, if_true, ih]
    · have h' : p x = false := by simpa using h
      simp only [List.dropWhile_cons, h', Bool.false_eq_true, if_false]

theorem trimRightWs_idem (s : String) : trimRightWs (trimRightWs s) = trimRightWs s := by
  simp only [trimRightWs, String.toList_ofList, List.reverse_reverse, dropWhile_idem]

theorem paramTypeName_lower : ∀ t ∈ typeNameValues, paramTypeName (t.map Char.toLower) = t.map Char.toLower := by
  decide +kernel

theorem paramTypeName_idem (s : String) : paramTypeName (paramTypeName s) = paramTypeName s := by
  by_cases h : typeNameValues.contains (upper s) = true
  · have e : paramTypeName s = (upper s).map Char.toLower := by simp only [paramTypeName, h, if_true]
    rw [e]
    exact paramTypeName_lower _ (by simpa using h)
  · have h' : typeNameValues.contains (upper s) = false := by simpa using h
    have e : paramTypeName s = "unspecified" := by simp only [paramTypeName, h', Bool.false_eq_true, if_false]
    rw [e]
    decide +kernel

/-- the lexical fact about CONDITION_PARAM_CONTAINER (`'map' | 'list'` in `OpenFGALexer.g4`) that the CST
    type does not record -/
def paramContainerOk : ParamTypeCst → Bool
  | .simple _ => true
  | .container c _ => c == "list" || c == "map"

theorem normParam_den (ty : ParamTypeCst) (h : paramContainerOk ty = true) : normParam ty.den = ty.den := by
  have hl : paramTypeName "list" = "list" := by decide +kernel
  have hmp : paramTypeName "map" = "map" := by decide +kernel
  cases ty with
  | simple s =>
    simp [ParamTypeCst.den, normParam, paramTypeName_idem]
  | container c g =>
    simp only [paramContainerOk, Bool.or_eq_true, beq_iff_eq] at h
    rcases h with rfl | rfl
    · simp [ParamTypeCst.den, normParam, paramTypeName_idem, hl]
    · simp [ParamTypeCst.den, normParam, paramTypeName_idem, hmp]

def condContainersOk (c : CondCst) : Bool := c.paramList.all (fun p => paramContainerOk p.ty)
def docContainersOk (d : DocCst) : Bool := d.conds.all condContainersOk

theorem cond_content_normal (c : CondCst) (h : condContainersOk c = true) : condNormal c.content := by
  refine ⟨trimRightWs_idem _, ?_⟩
  intro p hp
  simp only [CondCst.content] at hp
  obtain ⟨q, hq, rfl⟩ := List.mem_map.1 hp
  exact normParam_den q.ty (List.all_eq_true.1 h q hq)

theorem decl_content_normal (d : Decl) (h : d.body.wf = true) : declNormal d.content := def_normal d.body h

/-- **`normModel` is the identity on the image of the listener**: the model a well-formed *model file*
    denotes (what `Listener.transform` returns for it, `transform_doc`) is normal.  `containersOk` is the
    lexical fact that a container type token reads `list` or `map`. -/
theorem normModel_den (d : DocCst) (hwf : d.wfB = true) (hm : d.content.header.isModular = false)
    (hlex : docContainersOk d = true) : normModel (DocCst.den d).1 = (DocCst.den d).1 := by
  simp only [DocCst.wfB, DocContent.wf, Bool.and_eq_true, List.all_eq_true] at hwf
  obtain ⟨hb, ⟨⟨ht, _⟩, _⟩, _⟩ := hwf
  apply normModel_content_den d.content hm
  · intro t ht'
    have := ht t ht'
    simp only [TypeContent.wf, Bool.and_eq_true] at this
    exact (nodupB_iff _).1 this.2
  · intro t ht' dc hdc
    simp only [DocCst.content] at ht'
    obtain ⟨tc, htc, rfl⟩ := List.mem_map.1 ht'
    simp only [TypeDefCst.content] at hdc
    obtain ⟨dd, hdd, rfl⟩ := List.mem_map.1 hdc
    exact decl_content_normal dd (List.all_eq_true.1 (hb tc htc) dd hdd)
  · intro cc hcc
    simp only [DocCst.content] at hcc
    obtain ⟨c, hc, rfl⟩ := List.mem_map.1 hcc
    exact cond_content_normal c (List.all_eq_true.1 hlex c hc)


/-! ### hence `normModel` is idempotent on printable models -/

theorem toParamType_containerOk (p : CondParam) (ty : ParamTypeCst) (h : toParamType p = some ty) :
    paramContainerOk ty = true := by
  unfold toParamType at h
  split at h
  · rename_i hc
    split at h
    · cases h
    · simp only [Option.some.injEq] at h
      subst h
      simpa [paramContainerOk] using hc
  · simp only [Option.some.injEq] at h
    subst h
    rfl

theorem toParams_containerOk : ∀ (ps : List (String × CondParam)) (xs : List ParamCst), toParams ps = some xs →
    xs.all (fun x => paramContainerOk x.ty) = true
  | [], xs, h => by simp only [toParams, Option.some.injEq] at h; subst h; rfl
  | p :: ps, xs, h => by
    simp only [toParams] at h
    split at h
    · rename_i x xs' hx hxs
      simp only [Option.some.injEq] at h
      subst h
      simp only [toParam, Option.map_eq_some_iff] at hx
      obtain ⟨ty, hty, rfl⟩ := hx
      simp only [List.all_cons, toParamType_containerOk p.2 ty hty, toParams_containerOk ps xs' hxs, Bool.and_self]
    · cases h

theorem toCondCst_containersOk (c : Condition) (cc : CondCst) (h : toCondCst c = some cc) : condContainersOk cc = true := by
  unfold toCondCst at h
  split at h
  · rename_i x xs hxs
    simp only [Option.some.injEq] at h
    subst h
    have := toParams_containerOk _ _ hxs
    simpa [condContainersOk, CondCst.paramList, mkCondCst, List.map_map, Function.comp_def] using this
  · cases h

theorem toCondCsts_containersOk : ∀ (ps : List (String × Condition)) (ccs : List CondCst), toCondCsts ps = some ccs →
    ccs.all condContainersOk = true
  | [], ccs, h => by simp only [toCondCsts, Option.some.injEq] at h; subst h; rfl
  | p :: ps, ccs, h => by
    simp only [toCondCsts] at h
    split at h
    · rename_i c cs hc hcs
      simp only [Option.some.injEq] at h
      subst h
      simp only [List.all_cons, toCondCst_containersOk p.2 c hc, toCondCsts_containersOk ps cs hcs, Bool.and_self]
    · cases h

theorem toDocCst_props (m : Model) (d : DocCst) (h : toDocCst m = some d) :
    d.content.header.isModular = false ∧ docContainersOk d = true := by
  unfold toDocCst at h
  split at h
  · rename_i ts cs _ hcs
    simp only [Option.some.injEq] at h
    subst h
    exact ⟨rfl, toCondCsts_containersOk _ _ hcs⟩
  · cases h

/-- **`normModel` is idempotent on printable models**: what the round trip yields is read back unchanged
    by a second round trip (as far as `normModel` goes) -/
theorem normModel_idem_of_printed (m : Model) (s : String) (hnm : nonModular m = true) (hp : printable m = true)
    (h : Printer.transform m false = .ok s) : normModel (normModel m) = normModel m := by
  obtain ⟨d, hd, _, hwf, hden⟩ := printed_model_is_document m s hnm hp h
  have hprops := toDocCst_props m d hd
  have := normModel_den d hwf hprops.1 hprops.2
  rwa [hden] at this

end FgaVerif.Model.PrintDoc
