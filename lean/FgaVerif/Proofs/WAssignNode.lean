import FgaVerif.Proofs.WAssignPost
/-! The **node rule** and the **witness** post-conditions of a successful run of the port of `AssignWeights`
    (`Model/WAssign.lean`), for every graph and every start order (C04, the clauses about the algorithm that
    `Proofs/WAssignPost.lean` leaves open).  A fifth pass over the computation, with the same skeleton as the
    fourth (`calcEdgeWith` / `edgeLoop` / `calcNode` / `assignWeights.go`), using the results of passes 2 and 4
    (`Inv2`, `InvD`) as black boxes.

    * `unionL`, `interL`, `mixedL` — the three strategies as functions on lookups (declarative forms
      `unionL_isSome` / `unionL_attained` / `unionL_upper`, `interL_spec`, `mixedL_spec`), and `maxStrategy_N`,
      `enforceTypeStrategy_N`, `mixedStrategy_N` (`maxFold_wget`, `enfRest_wget`, `mixedFold`): the port's folds
      compute them on key-sorted inputs.
    * `assignWeights_node_rule` — on success the final weight map of every visited node is its strategy applied
      to the final weight maps of its edges (`NodeOK`).  The invariant (`Inv5.ok`): every node that has weights
      satisfies the rule.  A cycle resolution rewrites node and edges simultaneously by `substL`; the maximum
      commutes with it (`unionL_subst`); intersections and exclusions never see one, because their edges hold no
      placeholder (`Inv5.noph`: they are only computed when the list of open cycle references is empty).  The
      resolved node itself gets `Infinite` for every key of its edges, which is the maximum over its rewritten
      edges because one of them held its own placeholder (`Rel5`/`TcOK`: every open reference the loop returns,
      of a node visited before, is a key of an edge) and every weight is at most `Infinite` (`Inv5.bE`, `bN`).
    * `assignWeights_witnessed` — every weight is witnessed by a path of the graph (`KeyOK`): the key is the type
      of a terminal node reachable from the node, a finite weight is the number of hops of such a path, and an
      `Infinite` weight comes with a reachable cycle from which the type is reachable (or a path with at least
      `Infinite` hops).  The pass is generic in a predicate `K` on (node, key, value) closed under the steps of the
      computation (`KClosed`); `K := True` gives the node rule alone, `K := KeyOK g` the witnesses.
    Not proved here: that the reachable cycle behind an `Infinite` weight contains a direct/TTU edge (it would need
    the path argument of `calculateNodeWeight` to be a path of the graph, `isTupleCycle`, and the soundness of
    `hasRewriteOnlyCycle` for self-loops), and the completeness direction (a finite weight dominates the hop count
    of *every* path), which is the specification's side (`Props/C04.lean`, `finite_weight_is_max_hops`).  -/
set_option linter.unusedSimpArgs false
set_option linter.unusedSectionVars false
set_option linter.unusedVariables false
namespace FgaVerif.Model.WAssign
open FgaVerif.Model FgaVerif.Model.WGraph

/-! ### the strategies as functions on lookups -/

/-- max strategy: pointwise maximum over the maps that have the key -/
def unionL : List WMap → String → Option Nat
  | [], _ => none
  | m :: ms, T => optMax (wget T m) (unionL ms T)

/-- both present: the maximum; otherwise absent -/
def optBoth : Option Nat → Option Nat → Option Nat
  | some a, some b => some (Nat.max a b)
  | _, _ => none

/-- enforce-type strategy (per edge): start from the first map, keep only what every later map also has -/
def interL : List WMap → String → Option Nat
  | [], _ => none
  | m :: ms, T => ms.foldl (fun a m' => optBoth a (wget T m')) (wget T m)

/-- mixed strategy: the keys of all maps but the last, the maximum over all maps -/
def mixedL (ms : List WMap) (T : String) : Option Nat :=
  if (unionL ms.dropLast T).isSome then unionL ms T else none

theorem unionL_append (a b : List WMap) (T : String) : unionL (a ++ b) T = optMax (unionL a T) (unionL b T) := by
  induction a with
  | nil => simp [unionL, optMax_none_left]
  | cons m ms ih => simp only [List.cons_append, unionL, ih, optMax_assoc]

theorem optMax_isSome (a b : Option Nat) : (optMax a b).isSome = (a.isSome || b.isSome) := by
  cases a <;> cases b <;> rfl

theorem optMax_eq_some {a b : Option Nat} {x : Nat} (h : optMax a b = some x) : a = some x ∨ b = some x := by
  cases a with
  | none => right; simpa [optMax] using h
  | some a =>
    cases b with
    | none => left; simpa [optMax] using h
    | some b =>
      simp only [optMax, Option.some.injEq] at h
      rcases Nat.le_total a b with hle | hle
      · right; rw [← h]; exact congrArg some (Nat.max_eq_right hle).symm
      · left; rw [← h]; exact congrArg some (Nat.max_eq_left hle).symm

theorem optMax_eq_none {a b : Option Nat} : optMax a b = none ↔ a = none ∧ b = none := by
  cases a <;> cases b <;> simp [optMax]

/-- the key is present in the maximum iff some map has it -/
theorem unionL_isSome (ms : List WMap) (T : String) : (unionL ms T).isSome = ms.any (fun m => (wget T m).isSome) := by
  induction ms with
  | nil => rfl
  | cons m ms ih => simp only [unionL, optMax_isSome, ih, List.any_cons]

/-- the value of the maximum is the value of one of the maps -/
theorem unionL_attained (ms : List WMap) (T : String) (x : Nat) (h : unionL ms T = some x) :
    ∃ m ∈ ms, wget T m = some x := by
  induction ms with
  | nil => cases h
  | cons m ms ih =>
    rcases optMax_eq_some h with h1 | h1
    · exact ⟨m, List.mem_cons_self .., h1⟩
    · obtain ⟨m', hm', hx⟩ := ih h1
      exact ⟨m', List.mem_cons_of_mem _ hm', hx⟩

theorem optMax_ge_left {a b : Option Nat} {x y : Nat} (ha : a = some x) (h : optMax a b = some y) : x ≤ y := by
  subst ha
  cases b with
  | none => simp only [optMax, Option.some.injEq] at h; omega
  | some b => simp only [optMax, Option.some.injEq] at h; rw [← h]; exact Nat.le_max_left ..

/-- … and it dominates the value of every map that has the key -/
theorem unionL_upper (ms : List WMap) (T : String) (x : Nat) (h : unionL ms T = some x) :
    ∀ m ∈ ms, ∀ y, wget T m = some y → y ≤ x := by
  induction ms generalizing x with
  | nil => intro m hm; cases hm
  | cons m0 ms ih =>
    intro m hm y hy
    simp only [unionL] at h
    rcases List.mem_cons.1 hm with rfl | hm
    · exact optMax_ge_left hy h
    · cases hu : unionL ms T with
      | none =>
        have := unionL_isSome ms T
        rw [hu] at this
        have hany : ms.any (fun m => (wget T m).isSome) = true := List.any_eq_true.2 ⟨m, hm, by rw [hy]; rfl⟩
        rw [hany] at this; cases this
      | some z =>
        have hz := ih z hu m hm y hy
        rw [optMax_comm] at h
        rw [hu] at h
        exact Nat.le_trans hz (optMax_ge_left rfl h)

/-- the declarative form of `interL`: present iff present in every map, then the maximum -/
theorem interL_fold (T : String) : ∀ (ms : List WMap) (a : Option Nat),
    ms.foldl (fun a m' => optBoth a (wget T m')) a =
      if a.isSome ∧ ms.all (fun m => (wget T m).isSome) = true then optMax a (unionL ms T) else none
  | [], a => by cases a <;> simp [unionL, optMax]
  | m :: ms, a => by
    simp only [List.foldl_cons]
    rw [interL_fold T ms]
    cases a with
    | none => simp [optBoth]
    | some x =>
      cases hm : wget T m with
      | none => simp [optBoth, hm]
      | some y =>
        have e1 : optBoth (some x) (some y) = optMax (some x) (some y) := rfl
        have e2 : (optMax (some x) (some y)).isSome = true := rfl
        simp only [e1, e2, hm, unionL, optMax_assoc, List.all_cons, Option.isSome_some, Bool.true_and, true_and]

theorem interL_spec (ms : List WMap) (T : String) :
    interL ms T = if ms.all (fun m => (wget T m).isSome) = true then unionL ms T else none := by
  cases ms with
  | nil => rfl
  | cons m ms =>
    simp only [interL, interL_fold, unionL, List.all_cons, Bool.and_eq_true]

theorem mixedL_spec (ms : List WMap) (T : String) :
    mixedL ms T = if ms.dropLast.any (fun m => (wget T m).isSome) = true then unionL ms T else none := by
  unfold mixedL
  rw [unionL_isSome]

/-! ### the port's folds compute them -/
section folds
variable (E : ERef → WMap)

theorem maxFold_wget (hs : ∀ r, SortedM (E r)) (T : String) : ∀ (rs : List ERef) (acc : WMap),
    wget T (rs.foldl (fun acc r => (E r).foldl (fun a (p : String × Nat) => wsetMax p.1 p.2 a) acc) acc) =
      optMax (wget T acc) (unionL (rs.map E) T)
  | [], acc => by simp [unionL, optMax_none_right]
  | r :: rs, acc => by
    simp only [List.foldl_cons, List.map_cons, unionL]
    rw [maxFold_wget hs T rs, wget_merge, allMax_eq_wget _ _ (hs r), optMax_assoc]

theorem maxFold_sorted : ∀ (rs : List ERef) (acc : WMap), SortedM acc →
    SortedM (rs.foldl (fun acc r => (E r).foldl (fun a (p : String × Nat) => wsetMax p.1 p.2 a) acc) acc)
  | [], acc, h => h
  | r :: rs, acc, h => by
    simp only [List.foldl_cons]
    exact maxFold_sorted rs _ (sortedM_merge _ _ h)
end folds

theorem wget_wdel (k T : String) : ∀ (w : WMap), wget T (wdel k w) = if T = k then none else wget T w
  | [] => by simp [wdel, wget]
  | (k', v') :: rest => by
    have ih := wget_wdel k T rest
    unfold wdel at ih ⊢
    simp only [List.filter_cons]
    by_cases hk : k' = k
    · subst hk
      simp only [bne_self_eq_false, Bool.false_eq_true, if_false]
      rw [ih]
      by_cases hT : T = k'
      · simp [hT]
      · have : (T == k') = false := by simpa using hT
        simp [hT, wget, this]
    · have : (k' != k) = true := by simpa using hk
      simp only [this, if_true, wget]
      by_cases hT : (T == k') = true
      · have e : T = k' := by simpa using hT
        have : T ≠ k := e ▸ hk
        simp [hT, this]
      · simp only [hT, if_false]; exact ih

/-- copying a key-sorted map into an accumulator with `wset` -/
theorem wget_copy (T : String) : ∀ (ew acc : WMap), SortedM ew →
    wget T (ew.foldl (fun a (p : String × Nat) => wset p.1 p.2 a) acc) = (wget T ew).or (wget T acc)
  | [], acc, _ => by simp [wget]
  | (k1, v1) :: rest, acc, hs => by
    simp only [List.foldl_cons]
    rw [wget_copy T rest _ hs.tail]
    by_cases e : T = k1
    · subst e
      rw [wget_tail_none hs, wget_wset_self]
      simp [wget]
    · have : (T == k1) = false := by simpa using e
      rw [wget_wset_ne _ _ _ e]
      simp [wget, this]

/-- one later edge of the enforce-type strategy -/
def enfStep (ew : WMap) (a : WMap) (p : String × Nat) : WMap :=
  match wget p.1 ew with
  | none => wdel p.1 a
  | some v => wset p.1 (Nat.max p.2 v) a

theorem wget_enf (ew : WMap) (T : String) : ∀ (l a : WMap), SortedM l →
    wget T (l.foldl (enfStep ew) a) =
      match wget T l with
      | none => wget T a
      | some v0 => optBoth (some v0) (wget T ew)
  | [], a, _ => by simp [wget]
  | (k1, v0) :: rest, a, hs => by
    simp only [List.foldl_cons]
    rw [wget_enf ew T rest _ hs.tail]
    by_cases e : T = k1
    · subst e
      rw [wget_tail_none hs]
      simp only [wget, beq_self_eq_true, if_true]
      unfold enfStep
      cases hw : wget T ew with
      | none => simp [wget_wdel, optBoth]
      | some v => simp [wget_wset_self, optBoth]
    · have hb : (T == k1) = false := by simpa using e
      simp only [wget, hb, Bool.false_eq_true, if_false]
      have : wget T (enfStep ew a (k1, v0)) = wget T a := by
        unfold enfStep
        cases hw : wget k1 ew with
        | none => simp [wget_wdel, e]
        | some v => simp only; exact wget_wset_ne _ _ _ e _
      rw [this]

theorem sortedM_enf (ew : WMap) : ∀ (l a : WMap), SortedM a → SortedM (l.foldl (enfStep ew) a) := by
  intro l a h
  refine foldl_inv SortedM _ ?_ l a h
  intro s p hs
  unfold enfStep
  split
  · exact sortedM_wdel _ _ hs
  · exact sortedM_wset _ _ _ hs

/-- one entry of the last edge of the mixed strategy: only keys that are already there -/
def lastStep (a : WMap) (p : String × Nat) : WMap :=
  match wget p.1 a with
  | none => a
  | some v0 => wset p.1 (Nat.max v0 p.2) a

theorem wget_last (T : String) : ∀ (ew a : WMap), SortedM ew →
    wget T (ew.foldl lastStep a) = if (wget T a).isSome then optMax (wget T a) (wget T ew) else none
  | [], a, _ => by cases h : wget T a <;> simp [wget, optMax, h]
  | (k1, v1) :: rest, a, hs => by
    simp only [List.foldl_cons]
    rw [wget_last T rest _ hs.tail]
    by_cases e : T = k1
    · subst e
      rw [wget_tail_none hs]
      simp only [wget, beq_self_eq_true, if_true, optMax_none_right]
      unfold lastStep
      cases hw : wget T a with
      | none => simp [hw]
      | some v0 => simp [wget_wset_self, optMax]
    · have hb : (T == k1) = false := by simpa using e
      have : wget T (lastStep a (k1, v1)) = wget T a := by
        unfold lastStep
        cases hw : wget k1 a with
        | none => rfl
        | some v => simp only; exact wget_wset_ne _ _ _ e _
      rw [this]
      simp only [wget, hb, Bool.false_eq_true, if_false]

theorem sortedM_last : ∀ (ew a : WMap), SortedM a → SortedM (ew.foldl lastStep a) := by
  intro ew a h
  refine foldl_inv SortedM _ ?_ ew a h
  intro s p hs
  unfold lastStep
  split
  · exact hs
  · exact sortedM_wset _ _ _ hs

/-! ### the strategies on a state -/
/-- the current weight maps of the edges of `v`, in edge order -/
def edgeMaps (g : G) (v : String) (st : AState) : List WMap := (edgeRefs g v).map (fun r => aget r st.edgeW)

theorem foldl_congr_mem {σ β : Type} (f f' : σ → β → σ) : ∀ (l : List β) (s : σ), (∀ s, ∀ x ∈ l, f s x = f' s x) →
    l.foldl f s = l.foldl f' s
  | [], _, _ => rfl
  | x :: xs, s, h => by
    simp only [List.foldl_cons]
    rw [h s x (List.mem_cons_self ..)]
    exact foldl_congr_mem f f' xs _ (fun s y hy => h s y (List.mem_cons_of_mem _ hy))

theorem maxStrategy_N (g : G) (n : String) (st : AState) (hs : ∀ r : ERef, SortedM (aget r st.edgeW)) :
    (∃ e, maxStrategy g n st = (some e, st)) ∨
    ∃ w, maxStrategy g n st = (none, { st with nodeW := aset n w st.nodeW }) ∧ SortedM w ∧
      ∀ T, wget T w = unionL (edgeMaps g n st) T := by
  unfold maxStrategy
  split
  · exact Or.inl ⟨_, rfl⟩
  · refine Or.inr ⟨_, rfl, ?_, ?_⟩
    · exact maxFold_sorted (fun r => aget r st.edgeW) _ _ sortedM_nil
    · intro T
      have := maxFold_wget (fun r => aget r st.edgeW) hs T (edgeRefs g n) []
      rw [show wget T [] = none from rfl, optMax_none_left] at this
      exact this

theorem edgeRefs_cons (g : G) (n : String) (k : Nat) (h : (edgesOf g n).length = k + 1) :
    ∃ rest, edgeRefs g n = (n, 0) :: rest ∧ ∀ r ∈ rest, r.2 ≠ 0 := by
  unfold edgeRefs
  rw [h, List.range_succ_eq_map]
  refine ⟨_, rfl, ?_⟩
  intro r hr
  simp only [List.map_map, List.mem_map, Function.comp] at hr
  obtain ⟨i, _, rfl⟩ := hr
  simp

theorem edgeRefs_snoc (g : G) (n : String) (k : Nat) (h : (edgesOf g n).length = k + 1) :
    ∃ init, edgeRefs g n = init ++ [(n, k)] ∧ ∀ r ∈ init, r.2 ≠ k := by
  unfold edgeRefs
  rw [h, List.range_succ]
  refine ⟨_, by rw [List.map_append]; rfl, ?_⟩
  intro r hr
  simp only [List.mem_map, List.mem_range] at hr
  obtain ⟨i, hi, rfl⟩ := hr
  simp only; omega

theorem edgeRefs_length (g : G) (n : String) : (edgeRefs g n).length = (edgesOf g n).length := by
  unfold edgeRefs; simp

/-- the later edges of the enforce-type fold -/
theorem enfRest_wget (E : ERef → WMap) (T : String) : ∀ (rs : List ERef) (acc : WMap), (∀ r ∈ rs, r.2 ≠ 0) → SortedM acc →
    wget T (rs.foldl (fun acc r =>
        let ew := E r
        if r.2 == 0 then ew.foldl (fun a (k, v) => wset k v a) acc
        else acc.foldl (fun a (k, v0) =>
          match wget k ew with
          | none => wdel k a
          | some v => wset k (Nat.max v0 v) a) acc) acc) =
      (rs.map E).foldl (fun a m' => optBoth a (wget T m')) (wget T acc) ∧
    SortedM (rs.foldl (fun acc r =>
        let ew := E r
        if r.2 == 0 then ew.foldl (fun a (k, v) => wset k v a) acc
        else acc.foldl (fun a (k, v0) =>
          match wget k ew with
          | none => wdel k a
          | some v => wset k (Nat.max v0 v) a) acc) acc)
  | [], acc, _, hs => ⟨rfl, hs⟩
  | r :: rs, acc, hr, hs => by
    have h0 : (r.2 == 0) = false := by simpa using hr r (List.mem_cons_self ..)
    simp only [List.foldl_cons, List.map_cons, h0, Bool.false_eq_true, if_false]
    have hstep : (acc.foldl (fun a (x : String × Nat) =>
          match x with
          | (k, v0) =>
            match wget k (E r) with
            | none => wdel k a
            | some v => wset k (Nat.max v0 v) a) acc) = acc.foldl (enfStep (E r)) acc := rfl
    rw [hstep]
    have hw : wget T (acc.foldl (enfStep (E r)) acc) = optBoth (wget T acc) (wget T (E r)) := by
      rw [wget_enf (E r) T acc acc hs]
      cases wget T acc <;> rfl
    have := enfRest_wget E T rs (acc.foldl (enfStep (E r)) acc) (fun r' h' => hr r' (List.mem_cons_of_mem _ h'))
      (sortedM_enf _ _ _ hs)
    rw [hw] at this
    exact this

theorem enforceTypeStrategy_N (g : G) (n : String) (st : AState) (hs : ∀ r : ERef, SortedM (aget r st.edgeW)) :
    (∃ e, enforceTypeStrategy g n st = (some e, st)) ∨
    ∃ w, enforceTypeStrategy g n st = (none, { st with nodeW := aset n w st.nodeW }) ∧ SortedM w ∧
      ∀ T, wget T w = interL (edgeMaps g n st) T := by
  unfold enforceTypeStrategy
  split
  · exact Or.inl ⟨_, rfl⟩
  · simp only
    split
    · exact Or.inl ⟨_, rfl⟩
    · refine Or.inr ⟨_, rfl, ?_⟩
      cases hl : (edgesOf g n).length with
      | zero =>
        have : edgeRefs g n = [] := by unfold edgeRefs; rw [hl]; rfl
        unfold edgeMaps
        rw [this]
        exact ⟨sortedM_nil, fun T => rfl⟩
      | succ k =>
        obtain ⟨rest, hrefs, hrest⟩ := edgeRefs_cons g n k hl
        unfold edgeMaps
        rw [hrefs]
        have hs0 : SortedM ((aget (n, 0) st.edgeW).foldl (fun a (p : String × Nat) => wset p.1 p.2 a) []) :=
          foldl_inv SortedM _ (fun a p ha => sortedM_wset _ _ _ ha) _ _ sortedM_nil
        have key := fun T => enfRest_wget (fun r => aget r st.edgeW) T rest _ hrest hs0
        refine ⟨(key "").2, fun T => ?_⟩
        refine (key T).1.trans ?_
        rw [wget_copy T _ _ (hs _)]
        simp only [interL, List.map_cons]
        congr 1
        cases wget T (aget (n, 0) st.edgeW) <;> rfl

/-- the fold of the mixed strategy over `init ++ [last]`, `L` the index of the last edge -/
theorem mixedFold (E : ERef → WMap) (hs : ∀ r, SortedM (E r)) (L : Nat) (init : List ERef) (last : ERef)
    (hinit : ∀ r ∈ init, r.2 ≠ L) (hlast : last.2 = L) :
    SortedM ((init ++ [last]).foldl (fun acc r =>
      (E r).foldl (fun a (k, v) =>
        match wget k a with
        | none => if r.2 != L then wset k v a else a
        | some v0 => wset k (Nat.max v0 v) a) acc) []) ∧
    ∀ T, wget T ((init ++ [last]).foldl (fun acc r =>
      (E r).foldl (fun a (k, v) =>
        match wget k a with
        | none => if r.2 != L then wset k v a else a
        | some v0 => wset k (Nat.max v0 v) a) acc) []) = mixedL ((init ++ [last]).map E) T := by
  have e1 : init.foldl (fun acc r =>
      (E r).foldl (fun a (k, v) =>
        match wget k a with
        | none => if r.2 != L then wset k v a else a
        | some v0 => wset k (Nat.max v0 v) a) acc) [] =
      init.foldl (fun acc r => (E r).foldl (fun a (p : String × Nat) => wsetMax p.1 p.2 a) acc) [] := by
    apply foldl_congr_mem
    intro s r hr
    have hne : (r.2 != L) = true := by simpa using hinit r hr
    apply foldl_congr_mem
    intro a p _
    obtain ⟨k', v⟩ := p
    show (match wget k' a with
      | none => if (r.2 != L) = true then wset k' v a else a
      | some v0 => wset k' (Nat.max v0 v) a) = wsetMax k' v a
    cases h : wget k' a <;> simp [wsetMax, h, hne]
  have e2 : ∀ a, (E last).foldl (fun a (k, v) =>
        match wget k a with
        | none => if last.2 != L then wset k v a else a
        | some v0 => wset k (Nat.max v0 v) a) a = (E last).foldl lastStep a := by
    intro a
    apply foldl_congr_mem
    intro a p _
    obtain ⟨k', v⟩ := p
    show (match wget k' a with
      | none => if (last.2 != L) = true then wset k' v a else a
      | some v0 => wset k' (Nat.max v0 v) a) = lastStep a (k', v)
    have hl : (last.2 != L) = false := by simp [hlast]
    cases h : wget k' a <;> simp [lastStep, h, hl]
  rw [List.foldl_append, List.foldl_cons, List.foldl_nil, e1, e2]
  have hsI := maxFold_sorted E init [] sortedM_nil
  refine ⟨sortedM_last _ _ hsI, ?_⟩
  intro T
  rw [wget_last T _ _ (hs _)]
  have hI := maxFold_wget E hs T init []
  rw [show wget T [] = none from rfl, optMax_none_left] at hI
  rw [hI]
  unfold mixedL
  rw [List.map_append, List.map_cons, List.map_nil, List.dropLast_concat, unionL_append]
  simp only [unionL, optMax_none_right]

theorem mixedStrategy_N (g : G) (n : String) (st : AState) (hs : ∀ r : ERef, SortedM (aget r st.edgeW)) :
    (∃ e, mixedStrategy g n st = (some e, st)) ∨
    ∃ w, mixedStrategy g n st = (none, { st with nodeW := aset n w st.nodeW }) ∧ SortedM w ∧
      ∀ T, wget T w = mixedL (edgeMaps g n st) T := by
  unfold mixedStrategy
  split
  · exact Or.inl ⟨_, rfl⟩
  · refine Or.inr ⟨_, rfl, ?_⟩
    cases hl : (edgesOf g n).length with
    | zero =>
      have : edgeRefs g n = [] := by unfold edgeRefs; rw [hl]; rfl
      unfold edgeMaps
      simp only
      rw [this]
      exact ⟨sortedM_nil, fun T => rfl⟩
    | succ k =>
      obtain ⟨init, hrefs, hinit⟩ := edgeRefs_snoc g n k hl
      have hlen : (edgeRefs g n).length - 1 = k := by rw [edgeRefs_length, hl]; rfl
      unfold edgeMaps
      simp only
      rw [hlen, hrefs]
      exact mixedFold (fun r => aget r st.edgeW) hs k init (n, k) hinit rfl

/-! ### the node rule and the invariant of the fifth pass -/
/-- relation nodes and unions take the maximum -/
def isMaxNode (g : G) (v : String) : Bool := nodeType g v != .operator || nodeLabel g v == "union"

/-- the strategy of node `v`, on lookups -/
def stratL (g : G) (v : String) (ms : List WMap) (T : String) : Option Nat :=
  if isMaxNode g v then unionL ms T
  else if nodeLabel g v == "intersection" then interL ms T
  else if nodeLabel g v == "exclusion" then mixedL ms T
  else none

/-- **the node rule**: the weight map of `v` is its strategy applied to the current weight maps of its edges -/
def NodeOK (g : G) (st : AState) (v : String) : Prop :=
  ∀ T, wget T (aget v st.nodeW) = stratL g v (edgeMaps g v st) T

theorem stratL_attained (g : G) (v : String) (ms : List WMap) (T : String) (x : Nat) (h : stratL g v ms T = some x) :
    ∃ m ∈ ms, wget T m = some x := by
  unfold stratL at h
  split at h
  · exact unionL_attained ms T x h
  · split at h
    · rw [interL_spec] at h
      split at h
      · exact unionL_attained ms T x h
      · cases h
    · split at h
      · unfold mixedL at h
        split at h
        · exact unionL_attained ms T x h
        · cases h
      · cases h

/-- a predicate on (node, key, value) that every step of the computation preserves; instantiated by `True` for
    the node rule alone and by `KeyOK` for the witnesses -/
structure KClosed (g : G) (K : String → String → Nat → Prop) : Prop where
  term : ∀ v e, e ∈ edgesOf g v → isTerminal (nodeType g e.dst) = true → K v (termKey g e.dst) 1
  ph : ∀ v e, e ∈ edgesOf g v → isTerminal (nodeType g e.dst) = false → K v ("R#" ++ e.dst) infinite
  step : ∀ v e k x, e ∈ edgesOf g v → isTerminal (nodeType g e.dst) = false → K e.dst k x → x ≤ infinite →
    K v k (bumpE e x)
  inf : ∀ v k x y, K v k x → K v ("R#" ++ v) y → K v k infinite
  subst : ∀ v n k y, K v ("R#" ++ n) y → K n k infinite → K v k infinite

structure Inv5 (g : G) (K : String → String → Nat → Prop) (st : AState) : Prop where
  ok : ∀ v, aget v st.nodeW ≠ [] → NodeOK g st v
  noph : ∀ v, aget v st.nodeW ≠ [] → isMaxNode g v = false → ∀ r ∈ edgeRefs g v, ∀ k, isPH k = true →
    wget k (aget r st.edgeW) = none
  bE : ∀ (r : ERef) k x, wget k (aget r st.edgeW) = some x → x ≤ infinite
  bN : ∀ (N : String) k x, wget k (aget N st.nodeW) = some x → x ≤ infinite
  kE : ∀ (r : ERef) k x, wget k (aget r st.edgeW) = some x → K r.1 k x
  kN : ∀ (N : String) k x, wget k (aget N st.nodeW) = some x → K N k x

theorem mem_edgeRefs_fst {g : G} {v : String} {r : ERef} (h : r ∈ edgeRefs g v) : r.1 = v := by
  unfold edgeRefs at h
  obtain ⟨i, _, rfl⟩ := List.mem_map.1 h
  rfl

theorem edgeMaps_congr {g : G} {v : String} {st st' : AState}
    (h : ∀ r ∈ edgeRefs g v, aget r st'.edgeW = aget r st.edgeW) : edgeMaps g v st' = edgeMaps g v st := by
  unfold edgeMaps
  exact List.map_congr_left h

theorem NodeOK.congr {g : G} {st st' : AState} {v : String} (hN : aget v st'.nodeW = aget v st.nodeW)
    (hE : ∀ r ∈ edgeRefs g v, aget r st'.edgeW = aget r st.edgeW) (h : NodeOK g st v) : NodeOK g st' v := by
  intro T
  rw [hN, edgeMaps_congr hE]
  exact h T

theorem Inv5.of_core {g : G} {K : String → String → Nat → Prop} {st st' : AState} (h : Inv5 g K st)
    (hN : st'.nodeW = st.nodeW) (hE : st'.edgeW = st.edgeW) : Inv5 g K st' := by
  refine ⟨?_, ?_, ?_, ?_, ?_, ?_⟩
  · intro v hv
    rw [hN] at hv
    exact (h.ok v hv).congr (by rw [hN]) (fun r _ => by rw [hE])
  · rw [hN, hE]; exact h.noph
  · rw [hE]; exact h.bE
  · rw [hN]; exact h.bN
  · rw [hE]; exact h.kE
  · rw [hN]; exact h.kN

/-! ### the maximum commutes with the substitution of a resolved placeholder -/
theorem unionL_subst (refID : String) (W : WMap) (E E' : ERef → WMap) (T : String) : ∀ (rs : List ERef),
    (∀ r ∈ rs, ∀ k, wget k (E' r) = substL refID W (E r) k) →
    unionL (rs.map E') T =
      optMax (if T = refID then none else unionL (rs.map E) T)
        (if (unionL (rs.map E) refID).isSome then wget T W else none)
  | [], _ => by simp [unionL, optMax]
  | r :: rs, h => by
    have ih := unionL_subst refID W E E' T rs (fun r' hr' => h r' (List.mem_cons_of_mem _ hr'))
    simp only [List.map_cons, unionL]
    rw [ih, h r (List.mem_cons_self ..) T]
    unfold substL
    rw [optMax_isSome]
    by_cases e : T = refID
    · simp only [e, if_true, optMax_none_left]
      cases (wget refID (E r)).isSome <;> cases (unionL (rs.map E) refID).isSome <;>
        simp [optMax_none_left, optMax_none_right, optMax_self]
    · simp only [e, if_false]
      cases h1 : (wget refID (E r)).isSome <;> cases h2 : (unionL (rs.map E) refID).isSome <;>
        simp only [Bool.false_eq_true, if_false, if_true, Bool.or_false, Bool.or_true, Bool.false_or,
          optMax_none_right, optMax_none_left]
      · rw [optMax_assoc]
      · rw [optMax_assoc, optMax_assoc]
        congr 1
        rw [optMax_comm]
      · rw [optMax_assoc, optMax_assoc]
        congr 1
        rw [← optMax_assoc, optMax_comm (wget T W), optMax_assoc, optMax_self]

/-! ### what `calculateNodeWeightAndFixDependencies` writes for the resolved node -/
theorem cafInner_wget (refID T : String) : ∀ (m : WMap) (acc : WMap × List String),
    wget T (m.foldl (cafStep refID) acc).1 =
      if T ≠ refID ∧ (wget T m).isSome = true then some infinite else wget T acc.1
  | [], acc => by simp [wget]
  | (k1, v1) :: rest, acc => by
    simp only [List.foldl_cons]
    rw [cafInner_wget refID T rest]
    unfold cafStep
    by_cases hk : (k1 == refID) = true
    · have ek : k1 = refID := by simpa using hk
      simp only [hk, if_true]
      by_cases hT : T = refID
      · simp [hT]
      · have hb : (T == k1) = false := by simpa [ek] using hT
        simp only [wget, hb, Bool.false_eq_true, if_false]
    · simp only [hk, if_false]
      by_cases hT : T = k1
      · subst hT
        have hne : T ≠ refID := by simpa using hk
        simp [wget, hne, wget_wset_self]
      · have hb : (T == k1) = false := by simpa using hT
        simp only [wget, hb, Bool.false_eq_true, if_false, wget_wset_ne _ _ _ hT]

theorem cafOuter_wget (E : ERef → WMap) (refID T : String) : ∀ (rs : List ERef) (acc : WMap × List String),
    wget T (rs.foldl (fun (acc : WMap × List String) r => (E r).foldl (cafStep refID) acc) acc).1 =
      if T ≠ refID ∧ (unionL (rs.map E) T).isSome = true then some infinite else wget T acc.1
  | [], acc => by simp [unionL]
  | r :: rs, acc => by
    simp only [List.foldl_cons, List.map_cons, unionL]
    rw [cafOuter_wget E refID T rs, cafInner_wget, optMax_isSome]
    by_cases hT : T = refID
    · simp [hT]
    · cases (wget T (E r)).isSome <;> cases (unionL (rs.map E) T).isSome <;> simp [hT]

theorem cafRes_wget (g : G) (n : String) (st : AState) (T : String) :
    wget T (cafRes g n st).1 =
      if T ≠ "R#" ++ n ∧ (unionL (edgeMaps g n st) T).isSome = true then some infinite else none := by
  unfold cafRes edgeMaps
  exact cafOuter_wget (fun r => aget r st.edgeW) ("R#" ++ n) T (edgeRefs g n) ([], [])

/-- the resolution step at the level of lookups: every edge map and every other node map is rewritten by
    `substL`, the resolved node gets the map `cafRes` (extracted from the proof of `cafFinal_D`) -/
theorem cafFinal_lookup (g : G) (n : String) (stL : AState) (hI2 : Inv2 stL) (hD : InvD g stL) :
    (∀ (r' : ERef) k, wget k (aget r' (cafFinal g n stL).edgeW) =
      substL ("R#" ++ n) (cafRes g n stL).1 (aget r' stL.edgeW) k) ∧
    (∀ N, N ≠ n → ∀ k, wget k (aget N (cafFinal g n stL).nodeW) =
      substL ("R#" ++ n) (cafRes g n stL).1 (aget N stL.nodeW) k) ∧
    (∀ k, wget k (aget n (cafFinal g n stL).nodeW) = wget k (cafRes g n stL).1) := by
  obtain ⟨hWfrom, hWref, hWrefs⟩ := cafRes_fromEdges g n stL
  obtain ⟨hWs, hWinfQ⟩ := cafRes_sorted_inf g n stL
  have hWhr : ∀ k, Keys (cafRes g n stL).1 k → isPH k = true → (!(cafRes g n stL).2.isEmpty) = true := by
    intro k hk hp
    have := hWrefs k hk hp
    cases h : (cafRes g n stL).2 with
    | nil => exact absurd h this
    | cons a b => rfl
  have hWrefN : wget ("R#" ++ n) (cafRes g n stL).1 = none := by
    cases h : wget ("R#" ++ n) (cafRes g n stL).1 with
    | none => rfl
    | some v => exact absurd ⟨v, wget_some_mem _ _ _ h⟩ hWref
  obtain ⟨st1, hst1⟩ : ∃ s : AState, s = { stL with nodeW := aset n (cafRes g n stL).1 stL.nodeW } := ⟨_, rfl⟩
  have h1n : aget n st1.nodeW = (cafRes g n stL).1 := by rw [hst1]; exact aget_aset_self ..
  have h1ne : ∀ N, N ≠ n → aget N st1.nodeW = aget N stL.nodeW := by
    intro N h; rw [hst1]; exact aget_aset_ne _ _ _ h _
  have h1E : st1.edgeW = stL.edgeW := by rw [hst1]
  have h1D : st1.deps = stL.deps := by rw [hst1]
  obtain ⟨st2, hst2⟩ : ∃ s, s = fixDependantEdgesWeight n ("R#" ++ n) (!(cafRes g n stL).2.isEmpty) st1 := ⟨_, rfl⟩
  obtain ⟨st3, hst3⟩ : ∃ s, s = fixDependantNodesWeight n ("R#" ++ n) st2 := ⟨_, rfl⟩
  have hfin : cafFinal g n stL = { st3 with deps := adel n st3.deps } := by
    subst hst3 hst2 hst1; rfl
  have hE : EdgeFix ("R#" ++ n) (cafRes g n stL).1 (aget n st1.deps) st1 st2 := by
    rw [hst2, fixDependantEdgesWeight_eq]
    exact edgeFix_fold n ("R#" ++ n) _ _ hWref hWhr _ st1 h1n
  have hEmono := hE.mono; rw [h1D] at hEmono
  obtain ⟨fe1, fe2, fe3⟩ := edgeFixF n ("R#" ++ n) (!(cafRes g n stL).2.isEmpty) (cafRes g n stL).1 hWs hWrefN
    (aget n st1.deps) st1 h1n (fun r => h1E ▸ hD.sorted.1 r)
  rw [← fixDependantEdgesWeight_eq, ← hst2] at fe1 fe2 fe3
  rw [h1D, h1E] at fe2
  have s1N : ∀ N : String, SortedM (aget N st1.nodeW) := by
    intro N
    by_cases e : N = n
    · subst e; rw [h1n]; exact hWs
    · rw [h1ne N e]; exact hD.sorted.2 N
  obtain ⟨fn1, fn2⟩ := nodeFixF n ("R#" ++ n) (cafRes g n stL).1 hWrefN (aget n st2.deps) st2
    (by rw [hE.nodeW, h1n]; exact fun _ => rfl) (by rw [hE.nodeW]; exact s1N)
  rw [← fixDependantNodesWeight_eq, ← hst3] at fn1 fn2
  rw [hE.nodeW] at fn2
  have e3E : st3.edgeW = st2.edgeW := hst3 ▸ fixNodes_edgeW ..
  have hphn : phNode ("R#" ++ n) = n := phNode_mk n
  rw [hfin]
  refine ⟨?_, ?_, ?_⟩
  · intro r' k
    show wget k (aget r' st3.edgeW) = _
    rw [e3E, fe2 r' k]
    split
    · rfl
    · rename_i hd
      rw [substL_noref]
      cases h : wget ("R#" ++ n) (aget r' stL.edgeW) with
      | none => rfl
      | some v =>
        have := hI2.i1 r' _ ⟨v, wget_some_mem _ _ _ h⟩ (isPH_mk n)
        rw [hphn] at this
        exact absurd this hd
  · intro N hN k
    show wget k (aget N st3.nodeW) = _
    rw [fn2 N k, h1ne N hN]
    split
    · rfl
    · rename_i hd
      rw [substL_noref]
      cases h : wget ("R#" ++ n) (aget N stL.nodeW) with
      | none => rfl
      | some v =>
        obtain ⟨r0, hr0, hk0⟩ := hI2.i3 N _ ⟨v, wget_some_mem _ _ _ h⟩ (isPH_mk n)
        have := hI2.i1 r0 _ hk0 (isPH_mk n)
        rw [hphn] at this
        exact absurd ⟨r0, hEmono _ _ this, hr0⟩ hd
  · intro k
    show wget k (aget n st3.nodeW) = _
    rw [fn2 n k, h1n]
    split
    · exact substL_noref _ _ _ hWrefN k
    · rfl

theorem substL_eq_some {refID : String} {W old : WMap} {k : String} {x : Nat} (h : substL refID W old k = some x) :
    (k ≠ refID ∧ wget k old = some x) ∨ ((wget refID old).isSome = true ∧ wget k W = some x) := by
  unfold substL at h
  rcases optMax_eq_some h with h1 | h1
  · left
    split at h1
    · cases h1
    · rename_i hne; exact ⟨hne, h1⟩
  · right
    split at h1
    · rename_i hs; exact ⟨hs, h1⟩
    · cases h1

theorem substL_nil (refID : String) (W : WMap) (k : String) : substL refID W [] k = none := by
  unfold substL; simp [wget, optMax]

theorem wget_ne_nil {k : String} {w : WMap} {x : Nat} (h : wget k w = some x) : w ≠ [] := by
  rintro rfl; cases h

/-- writing the weights of an edge of a node that has none yet -/
theorem write_edge_5 {g : G} {K : String → String → Nat → Prop} (st st' : AState) (r : ERef) (w : WMap)
    (hI : Inv5 g K st) (hN : st'.nodeW = st.nodeW) (hE : st'.edgeW = aset r w st.edgeW)
    (hnil : aget r.1 st.nodeW = []) (hw : ∀ k x, wget k w = some x → x ≤ infinite ∧ K r.1 k x) : Inv5 g K st' := by
  have hself : aget r st'.edgeW = w := by rw [hE, aget_aset_self]
  have hne : ∀ r', r' ≠ r → aget r' st'.edgeW = aget r' st.edgeW := by
    intro r' h; rw [hE, aget_aset_ne _ _ _ h]
  have hother : ∀ v, aget v st.nodeW ≠ [] → ∀ r' ∈ edgeRefs g v, aget r' st'.edgeW = aget r' st.edgeW := by
    intro v hv r' hr'
    apply hne
    intro e
    apply hv
    rw [← mem_edgeRefs_fst hr', e]
    exact hnil
  refine ⟨?_, ?_, ?_, ?_, ?_, ?_⟩
  · intro v hv
    rw [hN] at hv
    exact (hI.ok v hv).congr (by rw [hN]) (hother v hv)
  · intro v hv hm r' hr' k hk
    rw [hN] at hv
    rw [hother v hv r' hr']
    exact hI.noph v hv hm r' hr' k hk
  · intro r' k x hx
    by_cases e : r' = r
    · subst e; rw [hself] at hx; exact (hw k x hx).1
    · rw [hne r' e] at hx; exact hI.bE r' k x hx
  · rw [hN]; exact hI.bN
  · intro r' k x hx
    by_cases e : r' = r
    · subst e; rw [hself] at hx; exact (hw k x hx).2
    · rw [hne r' e] at hx; exact hI.kE r' k x hx
  · rw [hN]; exact hI.kN

/-- writing the weights of a node with its strategy -/
theorem write_node_5 {g : G} {K : String → String → Nat → Prop} (stL : AState) (n : String) (w : WMap)
    (hI : Inv5 g K stL) (hw : ∀ T, wget T w = stratL g n (edgeMaps g n stL) T)
    (hnoph : isMaxNode g n = false → ∀ r ∈ edgeRefs g n, ∀ k, isPH k = true → wget k (aget r stL.edgeW) = none) :
    Inv5 g K { stL with nodeW := aset n w stL.nodeW } := by
  have hself : aget n (aset n w stL.nodeW) = w := aget_aset_self ..
  have hne : ∀ N, N ≠ n → aget N (aset n w stL.nodeW) = aget N stL.nodeW := fun N h => aget_aset_ne _ _ _ h _
  have hval : ∀ k x, wget k w = some x → ∃ r ∈ edgeRefs g n, wget k (aget r stL.edgeW) = some x := by
    intro k x hx
    rw [hw k] at hx
    obtain ⟨m, hm, hmx⟩ := stratL_attained g n _ k x hx
    unfold edgeMaps at hm
    obtain ⟨r, hr, rfl⟩ := List.mem_map.1 hm
    exact ⟨r, hr, hmx⟩
  refine ⟨?_, ?_, hI.bE, ?_, hI.kE, ?_⟩
  · intro v hv
    by_cases e : v = n
    · subst e
      intro T
      show wget T (aget v (aset v w stL.nodeW)) = stratL g v (edgeMaps g v stL) T
      rw [hself]; exact hw T
    · have hv' : aget v stL.nodeW ≠ [] := by
        intro h; apply hv
        show aget v (aset n w stL.nodeW) = []
        rw [hne v e]; exact h
      exact (hI.ok v hv').congr (hne v e) (fun _ _ => rfl)
  · intro v hv hm
    by_cases e : v = n
    · subst e; exact hnoph hm
    · have hv' : aget v stL.nodeW ≠ [] := by
        intro h; apply hv
        show aget v (aset n w stL.nodeW) = []
        rw [hne v e]; exact h
      exact hI.noph v hv' hm
  · intro N k x hx
    by_cases e : N = n
    · subst e
      change wget k (aget N (aset N w stL.nodeW)) = some x at hx
      rw [hself] at hx
      obtain ⟨r, _, hr⟩ := hval k x hx
      exact hI.bE r k x hr
    · change wget k (aget N (aset n w stL.nodeW)) = some x at hx
      rw [hne N e] at hx
      exact hI.bN N k x hx
  · intro N k x hx
    by_cases e : N = n
    · subst e
      change wget k (aget N (aset N w stL.nodeW)) = some x at hx
      rw [hself] at hx
      obtain ⟨r, hr1, hr⟩ := hval k x hx
      have := hI.kE r k x hr
      rwa [mem_edgeRefs_fst hr1] at this
    · change wget k (aget N (aset n w stL.nodeW)) = some x at hx
      rw [hne N e] at hx
      exact hI.kN N k x hx

/-! the strategies depend on the lookups of the maps only -/
theorem unionL_congr (E E' : ERef → WMap) (T : String) : ∀ (rs : List ERef),
    (∀ r ∈ rs, wget T (E' r) = wget T (E r)) → unionL (rs.map E') T = unionL (rs.map E) T
  | [], _ => rfl
  | r :: rs, h => by
    simp only [List.map_cons, unionL]
    rw [h r (List.mem_cons_self ..), unionL_congr E E' T rs (fun r' hr' => h r' (List.mem_cons_of_mem _ hr'))]

theorem anySome_congr (E E' : ERef → WMap) (T : String) (rs : List ERef)
    (h : ∀ r ∈ rs, wget T (E' r) = wget T (E r)) :
    (rs.map E').any (fun m => (wget T m).isSome) = (rs.map E).any (fun m => (wget T m).isSome) := by
  rw [← unionL_isSome, ← unionL_isSome, unionL_congr E E' T rs h]

theorem allSome_congr (E E' : ERef → WMap) (T : String) : ∀ (rs : List ERef),
    (∀ r ∈ rs, wget T (E' r) = wget T (E r)) →
    (rs.map E').all (fun m => (wget T m).isSome) = (rs.map E).all (fun m => (wget T m).isSome)
  | [], _ => rfl
  | r :: rs, h => by
    simp only [List.map_cons, List.all_cons]
    rw [h r (List.mem_cons_self ..), allSome_congr E E' T rs (fun r' hr' => h r' (List.mem_cons_of_mem _ hr'))]

theorem stratL_congr (g : G) (v : String) (E E' : ERef → WMap) (T : String) (rs : List ERef)
    (h : ∀ r ∈ rs, wget T (E' r) = wget T (E r)) : stratL g v (rs.map E') T = stratL g v (rs.map E) T := by
  unfold stratL
  rw [unionL_congr E E' T rs h, interL_spec, interL_spec, allSome_congr E E' T rs h, unionL_congr E E' T rs h,
    mixedL_spec, mixedL_spec, unionL_congr E E' T rs h, ← List.map_dropLast, ← List.map_dropLast,
    anySome_congr E E' T rs.dropLast (fun r hr => h r (List.dropLast_subset rs hr))]

theorem optMax_some_ne_none (y : Nat) (b : Option Nat) : optMax (some y) b ≠ none := by
  cases b <;> simp [optMax]

/-- resolving the cycle reference `n` (a relation or a union, one of whose edges holds `R#n`) preserves the
    invariant: the substitution commutes with the maximum, never touches an intersection or an exclusion, and
    the resolved node satisfies the rule because its placeholder edge receives all its (Infinite) weights -/
theorem cafFinal_5 {g : G} {K : String → String → Nat → Prop} (hK : KClosed g K) (n : String) (stL : AState)
    (hI2 : Inv2 stL) (hD : InvD g stL) (hI : Inv5 g K stL) (hmax : isMaxNode g n = true)
    (hself : ∃ r ∈ edgeRefs g n, wget ("R#" ++ n) (aget r stL.edgeW) ≠ none) :
    Inv5 g K (cafFinal g n stL) ∧
    (∀ (r : ERef) m, m ≠ n → wget ("R#" ++ m) (aget r stL.edgeW) ≠ none →
      wget ("R#" ++ m) (aget r (cafFinal g n stL).edgeW) ≠ none) ∧
    (∀ m, m ≠ n → (∃ r ∈ edgeRefs g n, wget ("R#" ++ m) (aget r stL.edgeW) ≠ none) →
      wget ("R#" ++ m) (aget n (cafFinal g n stL).nodeW) ≠ none) := by
  obtain ⟨FE, FN, FNn⟩ := cafFinal_lookup g n stL hI2 hD
  have hWref : wget ("R#" ++ n) (cafRes g n stL).1 = none := by
    rw [cafRes_wget]; simp
  have hWinf : ∀ k x, wget k (cafRes g n stL).1 = some x →
      x = infinite ∧ k ≠ "R#" ++ n ∧ (unionL (edgeMaps g n stL) k).isSome = true := by
    intro k x hx
    rw [cafRes_wget] at hx
    split at hx
    · rename_i hc
      cases hx
      exact ⟨rfl, hc.1, hc.2⟩
    · cases hx
  have hrefSome : (unionL ((edgeRefs g n).map (fun r => aget r stL.edgeW)) ("R#" ++ n)).isSome = true := by
    rw [unionL_isSome, List.any_eq_true]
    obtain ⟨r, hr, hne⟩ := hself
    refine ⟨_, List.mem_map.2 ⟨r, hr, rfl⟩, ?_⟩
    cases h : wget ("R#" ++ n) (aget r stL.edgeW) with
    | none => exact absurd h hne
    | some y => rfl
  have hmapsE : ∀ v, edgeMaps g v (cafFinal g n stL) = (edgeRefs g v).map (fun r => aget r (cafFinal g n stL).edgeW) :=
    fun v => rfl
  have hbefore : ∀ N, N ≠ n → aget N (cafFinal g n stL).nodeW ≠ [] → aget N stL.nodeW ≠ [] := by
    intro N hN hne h
    apply hne
    apply nil_of_wget_none
    intro k
    rw [FN N hN k, h, substL_nil]
  -- the new weights of `n` satisfy `K`
  have hKn : ∀ k x, wget k (cafRes g n stL).1 = some x → K n k x := by
    intro k x hx
    obtain ⟨rfl, hk, hs⟩ := hWinf k x hx
    obtain ⟨x', hx'⟩ := Option.isSome_iff_exists.1 hs
    obtain ⟨m, hm, hmx⟩ := unionL_attained _ k x' hx'
    unfold edgeMaps at hm
    obtain ⟨r, hr, rfl⟩ := List.mem_map.1 hm
    have k1 := hI.kE r k x' hmx
    rw [mem_edgeRefs_fst hr] at k1
    obtain ⟨r0, hr0, hne0⟩ := hself
    cases h0 : wget ("R#" ++ n) (aget r0 stL.edgeW) with
    | none => exact absurd h0 hne0
    | some y =>
      have k2 := hI.kE r0 _ y h0
      rw [mem_edgeRefs_fst hr0] at k2
      exact hK.inf n k x' y k1 k2
  refine ⟨⟨?_, ?_, ?_, ?_, ?_, ?_⟩, ?_, ?_⟩
  · -- the rule
    intro v hv T
    by_cases e : v = n
    · subst e
      unfold stratL
      rw [if_pos hmax, hmapsE, unionL_subst ("R#" ++ v) (cafRes g v stL).1 (fun r => aget r stL.edgeW)
        (fun r => aget r (cafFinal g v stL).edgeW) T (edgeRefs g v) (fun r _ k => FE r k), hrefSome, FNn T]
      simp only [if_true]
      by_cases eT : T = "R#" ++ v
      · rw [eT, hWref]; simp [optMax]
      · simp only [eT, if_false]
        rw [cafRes_wget]
        cases hu : unionL ((edgeRefs g v).map (fun r => aget r stL.edgeW)) T with
        | none =>
          have : unionL (edgeMaps g v stL) T = none := hu
          simp [this, optMax]
        | some x =>
          have hu' : unionL (edgeMaps g v stL) T = some x := hu
          obtain ⟨m, hm, hmx⟩ := unionL_attained _ T x hu
          obtain ⟨r, hr, rfl⟩ := List.mem_map.1 hm
          have hx : x ≤ infinite := hI.bE r T x hmx
          simp only [hu', eT, ne_eq, not_false_eq_true, Option.isSome_some, and_self, if_true, optMax]
          exact congrArg some (Nat.max_eq_right hx).symm
    · have hv' := hbefore v e hv
      have hok := hI.ok v hv'
      cases hm : isMaxNode g v with
      | true =>
        have hokT : ∀ T, wget T (aget v stL.nodeW) = unionL ((edgeRefs g v).map (fun r => aget r stL.edgeW)) T := by
          intro T
          have := hok T
          unfold stratL at this
          rw [if_pos hm] at this
          exact this
        unfold stratL
        rw [if_pos hm, hmapsE, unionL_subst ("R#" ++ n) (cafRes g n stL).1 (fun r => aget r stL.edgeW)
          (fun r => aget r (cafFinal g n stL).edgeW) T (edgeRefs g v) (fun r _ k => FE r k), FN v e T]
        unfold substL
        rw [hokT T, hokT ("R#" ++ n)]
      | false =>
        have hnoE : ∀ r ∈ edgeRefs g v, ∀ k, wget k (aget r (cafFinal g n stL).edgeW) = wget k (aget r stL.edgeW) := by
          intro r hr k
          rw [FE r k, substL_noref _ _ _ (hI.noph v hv' hm r hr _ (isPH_mk n))]
        have hnoN : wget ("R#" ++ n) (aget v stL.nodeW) = none := by
          cases h : wget ("R#" ++ n) (aget v stL.nodeW) with
          | none => rfl
          | some y =>
            rw [hok] at h
            obtain ⟨m, hm', hmx⟩ := stratL_attained g v _ _ y h
            unfold edgeMaps at hm'
            obtain ⟨r, hr, rfl⟩ := List.mem_map.1 hm'
            rw [hI.noph v hv' hm r hr _ (isPH_mk n)] at hmx
            cases hmx
        rw [FN v e T, substL_noref _ _ _ hnoN, hok T, hmapsE]
        exact (stratL_congr g v (fun r => aget r stL.edgeW) (fun r => aget r (cafFinal g n stL).edgeW) T (edgeRefs g v)
          (fun r hr => hnoE r hr T)).symm
  · intro v hv hm r hr k hk
    have e : v ≠ n := by
      intro e; rw [e, hmax] at hm; cases hm
    have hv' := hbefore v e hv
    rw [FE r k, substL_noref _ _ _ (hI.noph v hv' hm r hr _ (isPH_mk n))]
    exact hI.noph v hv' hm r hr k hk
  · intro r k x hx
    rw [FE r k] at hx
    rcases substL_eq_some hx with ⟨_, h⟩ | ⟨_, h⟩
    · exact hI.bE r k x h
    · rw [(hWinf k x h).1]; exact Nat.le_refl _
  · intro N k x hx
    by_cases e : N = n
    · subst e
      rw [FNn k] at hx
      rw [(hWinf k x hx).1]; exact Nat.le_refl _
    · rw [FN N e k] at hx
      rcases substL_eq_some hx with ⟨_, h⟩ | ⟨_, h⟩
      · exact hI.bN N k x h
      · rw [(hWinf k x h).1]; exact Nat.le_refl _
  · intro r k x hx
    rw [FE r k] at hx
    rcases substL_eq_some hx with ⟨_, h⟩ | ⟨hs, h⟩
    · exact hI.kE r k x h
    · obtain ⟨y, hy⟩ := Option.isSome_iff_exists.1 hs
      have k1 := hKn k x h
      rw [(hWinf k x h).1] at k1 ⊢
      exact hK.subst r.1 n k y (hI.kE r _ y hy) k1
  · intro N k x hx
    by_cases e : N = n
    · subst e
      rw [FNn k] at hx
      exact hKn k x hx
    · rw [FN N e k] at hx
      rcases substL_eq_some hx with ⟨_, h⟩ | ⟨hs, h⟩
      · exact hI.kN N k x h
      · obtain ⟨y, hy⟩ := Option.isSome_iff_exists.1 hs
        have k1 := hKn k x h
        rw [(hWinf k x h).1] at k1 ⊢
        exact hK.subst N n k y (hI.kN N _ y hy) k1
  · intro r m hm hne
    rw [FE r _]
    unfold substL
    have : "R#" ++ m ≠ "R#" ++ n := fun h => hm (mk_inj h)
    simp only [this, if_false]
    cases h : wget ("R#" ++ m) (aget r stL.edgeW) with
    | none => exact absurd h hne
    | some y => exact optMax_some_ne_none y _
  · intro m hm ⟨r, hr, hne⟩
    rw [FNn, cafRes_wget]
    have h1 : "R#" ++ m ≠ "R#" ++ n := fun h => hm (mk_inj h)
    have h2 : (unionL (edgeMaps g n stL) ("R#" ++ m)).isSome = true := by
      rw [unionL_isSome, List.any_eq_true]
      refine ⟨_, List.mem_map.2 ⟨r, hr, rfl⟩, ?_⟩
      cases h : wget ("R#" ++ m) (aget r stL.edgeW) with
      | none => exact absurd h hne
      | some y => rfl
    simp [h1, h2]

/-! ### the fifth pass: skeleton -/
/-- the outcomes of `fromTheEdges`, with the strategy that was used -/
theorem fromTheEdges_casesN (g : G) (n : String) (tcs : List String) (st : AState)
    (hs : ∀ r : ERef, SortedM (aget r st.edgeW)) :
    (∃ tc e st', fromTheEdges g n tcs st = ((tc, some e), st')) ∨
    (fromTheEdges g n tcs st = ((tcs, none), st) ∧ tcs = []) ∨
    (∃ w, fromTheEdges g n tcs st = ((tcs, none), { st with nodeW := aset n w st.nodeW }) ∧
      (∀ T, wget T w = stratL g n (edgeMaps g n st) T) ∧ (isMaxNode g n = false → tcs = [])) ∨
    (fromTheEdges g n tcs st = ((tcs.filter (· != n), none), cafFinal g n st) ∧ isMaxNode g n = true ∧ n ∈ tcs) := by
  have hmax := maxStrategy_N g n st hs
  have hmix := mixedStrategy_N g n st hs
  have henf := enforceTypeStrategy_N g n st hs
  have hmaxC : isMaxNode g n = true →
      (∃ tc e st', ((tcs, (maxStrategy g n st).1), (maxStrategy g n st).2) = ((tc, some e), st')) ∨
      (((tcs, (maxStrategy g n st).1), (maxStrategy g n st).2) = ((tcs, none), st) ∧ tcs = []) ∨
      (∃ w, ((tcs, (maxStrategy g n st).1), (maxStrategy g n st).2) = ((tcs, none), { st with nodeW := aset n w st.nodeW }) ∧
        (∀ T, wget T w = stratL g n (edgeMaps g n st) T) ∧ (isMaxNode g n = false → tcs = [])) ∨
      (((tcs, (maxStrategy g n st).1), (maxStrategy g n st).2) = ((tcs.filter (· != n), none), cafFinal g n st) ∧
        isMaxNode g n = true ∧ n ∈ tcs) := by
    intro hm
    rcases hmax with ⟨e, he⟩ | ⟨w, hw, _, hf⟩
    · rw [he]; exact Or.inl ⟨_, _, _, rfl⟩
    · rw [hw]
      refine Or.inr (Or.inr (Or.inl ⟨w, rfl, ?_, fun h => by rw [hm] at h; cases h⟩))
      intro T
      unfold stratL
      rw [if_pos hm]
      exact hf T
  have hcafC : (∃ e, calcAndFix g n st = (some e, st)) ∨ calcAndFix g n st = (none, cafFinal g n st) := by
    rw [calcAndFix_eq]
    split
    · exact Or.inl ⟨_, rfl⟩
    · split
      · exact Or.inl ⟨_, rfl⟩
      · split
        · exact Or.inl ⟨_, rfl⟩
        · exact Or.inr rfl
  have hcaf : (∃ tc e st', (match calcAndFix g n st with
        | (some e, st) => ((tcs, some e), st)
        | (none, st) => ((tcs.filter (· != n), none), st)) = ((tc, some e), st')) ∨
      ((match calcAndFix g n st with
        | (some e, st) => ((tcs, some e), st)
        | (none, st) => ((tcs.filter (· != n), none), st)) = ((tcs.filter (· != n), none), cafFinal g n st)) := by
    rcases hcafC with ⟨e, he⟩ | he
    · rw [he]; exact Or.inl ⟨_, _, _, rfl⟩
    · rw [he]; exact Or.inr rfl
  unfold fromTheEdges
  simp only
  split
  · rename_i hemp
    have htcs : tcs = [] := by
      cases tcs with
      | nil => rfl
      | cons a b => simp at hemp
    split
    · rename_i ht
      exact hmaxC (by unfold isMaxNode; rw [ht]; rfl)
    · rename_i ht
      split
      · rename_i hl
        exact hmaxC (by unfold isMaxNode; rw [hl]; simp)
      · rename_i hl
        have hm : isMaxNode g n = false := by
          unfold isMaxNode
          have h1 : (nodeType g n != NodeType.operator) = false := by simpa using ht
          have h2 : (nodeLabel g n == "union") = false := by simpa using hl
          rw [h1, h2]; rfl
        split
        · rename_i hi
          rcases henf with ⟨e, he⟩ | ⟨w, hw, _, hf⟩
          · rw [he]; exact Or.inl ⟨_, _, _, rfl⟩
          · rw [hw]
            refine Or.inr (Or.inr (Or.inl ⟨w, rfl, ?_, fun _ => htcs⟩))
            intro T
            unfold stratL
            rw [hm, if_neg (by simp), if_pos hi]
            exact hf T
        · rename_i hi
          split
          · rename_i hx
            rcases hmix with ⟨e, he⟩ | ⟨w, hw, _, hf⟩
            · rw [he]; exact Or.inl ⟨_, _, _, rfl⟩
            · rw [hw]
              refine Or.inr (Or.inr (Or.inl ⟨w, rfl, ?_, fun _ => htcs⟩))
              intro T
              unfold stratL
              rw [hm, if_neg (by simp), if_neg hi, if_pos hx]
              exact hf T
          · exact Or.inr (Or.inl ⟨rfl, htcs⟩)
  · split
    · rename_i hc
      simp only [Bool.and_eq_true, List.contains_iff_mem] at hc
      have hm : isMaxNode g n = true := by
        unfold isMaxNode
        cases hnt : nodeType g n with
        | typeAndRelation => rfl
        | specificType => rw [hnt] at hc; exact absurd hc.1 (by decide)
        | operator => rw [hnt] at hc; exact absurd hc.1 (by decide)
        | wildcard => rw [hnt] at hc; exact absurd hc.1 (by decide)
      rcases hcaf with h | h
      · exact Or.inl h
      · exact Or.inr (Or.inr (Or.inr ⟨h, hm, hc.2⟩))
    · split
      · rename_i ht
        exact hmaxC (by unfold isMaxNode; rw [ht]; rfl)
      · split
        · rename_i hl
          have hm : isMaxNode g n = true := by unfold isMaxNode; rw [hl]; simp
          split
          · rename_i hc
            rcases hcaf with h | h
            · exact Or.inl h
            · exact Or.inr (Or.inr (Or.inr ⟨h, hm, List.contains_iff_mem.1 hc⟩))
          · exact hmaxC hm
        · exact Or.inl ⟨_, _, _, rfl⟩

theorem scan_mem (b : Bool) (r : ERef) (toW : WMap) (acc : List String × AState) :
    ∀ x ∈ (toW.foldl (scanStep b r) acc).1, x ∈ acc.1 ∨ ∃ kv ∈ toW, isPH kv.1 = true ∧ x = phNode kv.1 := by
  refine foldl_inv_mem (fun (a : List String × AState) =>
    ∀ x ∈ a.1, x ∈ acc.1 ∨ ∃ kv ∈ toW, isPH kv.1 = true ∧ x = phNode kv.1) _ toW acc ?_ (fun x hx => Or.inl hx)
  intro a kv hkv ha x hx
  unfold scanStep at hx
  split at hx
  · rename_i hc
    simp only [Bool.and_eq_true] at hc
    rcases List.mem_append.1 hx with h | h
    · exact ha x h
    · simp only [List.mem_singleton] at h
      exact Or.inr ⟨kv, hkv, hc.2, h⟩
  · exact ha x hx

/-- the relation between the states before and after a call: a placeholder of a node visited before the
    call stays on the edge that holds it -/
structure Rel5 (st st' : AState) : Prop where
  keepE : ∀ (r : ERef) m, m ∈ st.visited → wget ("R#" ++ m) (aget r st.edgeW) ≠ none →
    wget ("R#" ++ m) (aget r st'.edgeW) ≠ none
  vm : ∀ v ∈ st.visited, v ∈ st'.visited

theorem Rel5.refl (st : AState) : Rel5 st st := ⟨fun _ _ _ h => h, fun _ h => h⟩

theorem Rel5.trans {a b c : AState} (h1 : Rel5 a b) (h2 : Rel5 b c) : Rel5 a c :=
  ⟨fun r m hm h => h2.keepE r m (h1.vm m hm) (h1.keepE r m hm h), fun v hv => h2.vm v (h1.vm v hv)⟩

theorem Rel5.of_core {st st' st'' : AState} (h : Rel5 st st') (hE : st''.edgeW = st'.edgeW) (hV : st''.visited = st'.visited) :
    Rel5 st st'' := by
  refine ⟨?_, ?_⟩
  · rw [hE]; exact h.keepE
  · rw [hV]; exact h.vm

/-- writing an edge that had no weights -/
theorem Rel5.write {st st' : AState} (r : ERef) (w : WMap) (hE : st'.edgeW = aset r w st.edgeW)
    (hempty : aget r st.edgeW = []) (hV : ∀ v ∈ st.visited, v ∈ st'.visited) : Rel5 st st' := by
  refine ⟨?_, hV⟩
  intro r' m _ h
  by_cases e : r' = r
  · subst e; rw [hempty] at h; exact absurd rfl h
  · rw [hE, aget_aset_ne _ _ _ e]; exact h

def RecN (g : G) (K : String → String → Nat → Prop) (rec : String → List WEdge → AState → Res) : Prop :=
  ∀ n path st, Inv2 st → InvD g st → Inv5 g K st → ∀ tc st', rec n path st = ((tc, none), st') →
    Inv5 g K st' ∧ Rel5 st st' ∧ (∀ m ∈ tc, m ∈ st.visited → wget ("R#" ++ m) (aget n st'.nodeW) ≠ none)

theorem bumpE_le (e : WEdge) {x : Nat} (h : x ≤ infinite) : bumpE e x ≤ infinite := by
  unfold bumpE
  split
  · by_cases hx : x = infinite
    · simp [hx]
    · have : (x == infinite) = false := by simpa using hx
      simp only [this, Bool.false_eq_true, if_false]
      omega
  · exact h

theorem wget_single {k k0 : String} {v0 x : Nat} (h : wget k [(k0, v0)] = some x) : k = k0 ∧ x = v0 := by
  simp only [wget] at h
  split at h
  · rename_i hk
    exact ⟨by simpa using hk, by cases h; rfl⟩
  · cases h

theorem wget_single_self (k0 : String) (v0 : Nat) : wget k0 [(k0, v0)] = some v0 := by simp [wget]

theorem edgeAt_mem {g : G} {r : ERef} {e : WEdge} (he : edgeAt g r = some e) : e ∈ edgesOf g r.1 := by
  unfold edgeAt at he
  exact List.mem_of_getElem? he

theorem calcEdgeWith_N (g : G) (K : String → String → Nat → Prop) (hK : KClosed g K)
    (rec : String → List WEdge → AState → Res) (hrecB : RecB rec) (hrecD : RecD g rec) (hrecN : RecN g K rec) (r : ERef)
    (e : WEdge) (path : List WEdge) (st : AState) (hI : Inv2 st) (hD : InvD g st) (h5 : Inv5 g K st)
    (he : edgeAt g r = some e) (hnt : isTerminal (nodeType g e.dst) = false) (hempty : aget r st.edgeW = [])
    (hv : r.1 ∈ st.visited) (hnil : aget r.1 st.nodeW = []) (tc : List String) (st' : AState)
    (h : calcEdgeWith rec g r e path st = ((tc, none), st')) :
    Inv5 g K st' ∧ Rel5 st st' ∧ (∀ m ∈ tc, m ∈ st.visited → wget ("R#" ++ m) (aget r st'.edgeW) ≠ none) := by
  have hmemE := edgeAt_mem he
  have hph : ∀ k x, wget k [("R#" ++ e.dst, infinite)] = some x → x ≤ infinite ∧ K r.1 k x := by
    intro k x hx
    obtain ⟨rfl, rfl⟩ := wget_single hx
    exact ⟨Nat.le_refl _, hK.ph r.1 e hmemE hnt⟩
  rw [calcEdgeWith_eq] at h
  split at h
  · rename_i hse
    have hsd : e.src = e.dst := by simpa using hse
    simp only [Prod.mk.injEq] at h
    obtain ⟨⟨rfl, _⟩, rfl⟩ := h
    refine ⟨write_edge_5 st _ r _ h5 rfl rfl hnil hph, Rel5.write r _ rfl hempty (fun v h => h), ?_⟩
    intro m hm _
    simp only [List.mem_singleton] at hm
    subst hm
    show wget ("R#" ++ e.src) (aget r (aset r [("R#" ++ e.dst, infinite)] st.edgeW)) ≠ none
    rw [aget_aset_self, hsd, wget_single_self]
    simp
  · split at h
    · simp at h
    · rename_i tc1 st1 heq
      obtain ⟨hI1, hR1, _⟩ := hrecB e.dst (path ++ [e]) st hI tc1 st1 heq
      obtain ⟨hD1, hRD1⟩ := hrecD e.dst (path ++ [e]) st hI hD tc1 st1 heq
      obtain ⟨h51, hR51, hT1⟩ := hrecN e.dst (path ++ [e]) st hI hD h5 tc1 st1 heq
      have hempty1 : aget r st1.edgeW = [] := hR1.ee r hv (by simp) hempty
      have hnil1 : aget r.1 st1.nodeW = [] := hRD1.en r.1 hv hnil
      split at h
      · rename_i hemp
        have htoW : aget e.dst st1.nodeW = [] := by
          cases hh : aget e.dst st1.nodeW with
          | nil => rfl
          | cons a b => rw [hh] at hemp; simp at hemp
        split at h
        · simp only [Prod.mk.injEq] at h
          obtain ⟨⟨rfl, _⟩, rfl⟩ := h
          refine ⟨write_edge_5 st1 _ r _ h51 rfl rfl hnil1 hph,
            hR51.trans (Rel5.write r _ rfl hempty1 (fun v h => h)), ?_⟩
          intro m hm hmv
          rcases List.mem_append.1 hm with hm | hm
          · have := hT1 m hm hmv
            rw [htoW] at this
            exact absurd rfl this
          · simp only [List.mem_singleton] at hm
            subst hm
            show wget ("R#" ++ e.dst) (aget r (aset r [("R#" ++ e.dst, infinite)] st1.edgeW)) ≠ none
            rw [aget_aset_self, wget_single_self]
            simp
        · simp at h
      · simp only [Prod.mk.injEq] at h
        obtain ⟨⟨rfl, _⟩, rfl⟩ := h
        have hcore := scan_core (!tc1.isEmpty) r (aget e.dst st1.nodeW)
          (tc1, if (!tc1.isEmpty) = true then tc1.foldl (fun st n => addDep n r st) st1 else st1)
        have hmem := scan_mem (!tc1.isEmpty) r (aget e.dst st1.nodeW)
          (tc1, if (!tc1.isEmpty) = true then tc1.foldl (fun st n => addDep n r st) st1 else st1)
        have hX : (if (!tc1.isEmpty) = true then tc1.foldl (fun st n => addDep n r st) st1 else st1).nodeW = st1.nodeW ∧
            (if (!tc1.isEmpty) = true then tc1.foldl (fun st n => addDep n r st) st1 else st1).edgeW = st1.edgeW ∧
            (if (!tc1.isEmpty) = true then tc1.foldl (fun st n => addDep n r st) st1 else st1).visited = st1.visited := by
          split
          · exact addDeps_core r tc1 st1
          · exact ⟨rfl, rfl, rfl⟩
        obtain ⟨sc, hsc⟩ : ∃ s, s = (aget e.dst st1.nodeW).foldl (scanStep (!tc1.isEmpty) r)
          (tc1, if (!tc1.isEmpty) = true then tc1.foldl (fun st n => addDep n r st) st1 else st1) := ⟨_, rfl⟩
        rw [← hsc] at hcore hmem ⊢
        have hNW : sc.2.nodeW = st1.nodeW := hcore.1.trans hX.1
        have hEW : sc.2.edgeW = st1.edgeW := hcore.2.1.trans hX.2.1
        have hVW : sc.2.visited = st1.visited := hcore.2.2.trans hX.2.2
        have hcopy : ∀ k x, wget k (edgeCopy e (aget e.dst st1.nodeW)) = some x → x ≤ infinite ∧ K r.1 k x := by
          intro k x hx
          rw [wget_edgeCopy] at hx
          cases h0 : wget k (aget e.dst st1.nodeW) with
          | none => rw [h0] at hx; cases hx
          | some x0 =>
            rw [h0] at hx
            simp only [Option.map_some, Option.some.injEq] at hx
            subst hx
            exact ⟨bumpE_le e (h51.bN _ _ _ h0), hK.step r.1 e k x0 hmemE hnt (h51.kN _ _ _ h0) (h51.bN _ _ _ h0)⟩
        refine ⟨write_edge_5 st1 _ r (edgeCopy e (aget e.dst st1.nodeW)) h51 hNW (by
            show aset r _ sc.2.edgeW = aset r _ _
            rw [hEW]) hnil1 hcopy,
          hR51.trans (Rel5.write r (edgeCopy e (aget e.dst st1.nodeW)) (by
            show aset r _ sc.2.edgeW = aset r _ _
            rw [hEW]) hempty1 (fun v h => by show v ∈ sc.2.visited; rw [hVW]; exact h)), ?_⟩
        intro m hm hmv
        show wget ("R#" ++ m) (aget r (aset r (edgeCopy e (aget e.dst st1.nodeW)) sc.2.edgeW)) ≠ none
        rw [aget_aset_self, wget_edgeCopy]
        have hto : wget ("R#" ++ m) (aget e.dst st1.nodeW) ≠ none := by
          rcases hmem m hm with h1 | ⟨kv, hkv, hp, rfl⟩
          · exact hT1 m h1 hmv
          · rw [← eq_mk_of_isPH kv.1 hp]
            intro hnone
            have := (wget_isSome_iff_keys kv.1 _).2 ⟨kv.2, hkv⟩
            rw [hnone] at this
            cases this
        cases h0 : wget ("R#" ++ m) (aget e.dst st1.nodeW) with
        | none => exact absurd h0 hto
        | some y => simp

/-- every open reference of the list, to a node of `V`, is a key of an edge of `nodeID` -/
def TcOK (g : G) (nodeID : String) (V : List String) (tcs : List String) (st : AState) : Prop :=
  ∀ m ∈ tcs, m ∈ V → ∃ r ∈ edgeRefs g nodeID, wget ("R#" ++ m) (aget r st.edgeW) ≠ none

theorem TcOK.mono {g : G} {nodeID : String} {V tcs : List String} {st st' : AState} (h : TcOK g nodeID V tcs st)
    (hR : Rel5 st st') (hV : ∀ m ∈ V, m ∈ st.visited) : TcOK g nodeID V tcs st' := by
  intro m hm hmV
  obtain ⟨r, hr, hne⟩ := h m hm hmV
  exact ⟨r, hr, hR.keepE r m (hV m hmV) hne⟩

theorem one_le_infinite : 1 ≤ infinite := by decide

theorem edgeLoop_N (g : G) (K : String → String → Nat → Prop) (hK : KClosed g K) (hn : NoPHTypes g)
    (rec : String → List WEdge → AState → Res) (hrecB : RecB rec) (hrecD : RecD g rec) (hrecN : RecN g K rec)
    (nodeID : String) (path : List WEdge) (V : List String) :
    ∀ (es : List (ERef × WEdge)) (tcs : List String) (st : AState), Inv2 st → InvD g st → Inv5 g K st →
      nodeID ∈ st.visited → aget nodeID st.nodeW = [] → (∀ m ∈ V, m ∈ st.visited) →
      (∀ p ∈ es, p.1.1 = nodeID ∧ p.2 ∈ edgesOf g nodeID) → (∀ p ∈ es, edgeAt g p.1 = some p.2) →
      (∀ p ∈ es, p.1 ∈ edgeRefs g nodeID) → TcOK g nodeID V tcs st →
      ∀ tcs' st', edgeLoop rec g nodeID path es tcs st = ((tcs', none), st') →
        Inv5 g K st' ∧ Rel5 st st' ∧ TcOK g nodeID V tcs' st'
  | [], tcs, st, _, _, h5, _, _, _, _, _, _, hT, tcs', st', h => by
    simp only [edgeLoop, Prod.mk.injEq] at h
    obtain ⟨⟨rfl, _⟩, rfl⟩ := h
    exact ⟨h5, Rel5.refl _, hT⟩
  | (r, e) :: rest, tcs, st, hI, hD, h5, hv, hnil, hV, hes, hat, hin, hT, tcs', st', h => by
    have hre := hes (r, e) (List.mem_cons_self ..)
    have hrest : ∀ p ∈ rest, p.1.1 = nodeID ∧ p.2 ∈ edgesOf g nodeID := fun p hp => hes p (List.mem_cons_of_mem _ hp)
    have hatr : ∀ p ∈ rest, edgeAt g p.1 = some p.2 := fun p hp => hat p (List.mem_cons_of_mem _ hp)
    have hinr : ∀ p ∈ rest, p.1 ∈ edgeRefs g nodeID := fun p hp => hin p (List.mem_cons_of_mem _ hp)
    have he : edgeAt g r = some e := hat (r, e) (List.mem_cons_self ..)
    have hrin : r ∈ edgeRefs g nodeID := hin (r, e) (List.mem_cons_self ..)
    have hr1 : r.1 = nodeID := hre.1
    unfold edgeLoop at h
    split at h
    · exact edgeLoop_N g K hK hn rec hrecB hrecD hrecN nodeID path V rest tcs st hI hD h5 hv hnil hV hrest hatr hinr hT tcs' st' h
    · rename_i hemp
      have hempty : aget r st.edgeW = [] := by
        cases hh : aget r st.edgeW with
        | nil => rfl
        | cons a b => rw [hh] at hemp; simp at hemp
      simp only at h
      split at h
      · rename_i hterm
        obtain ⟨stW, hstW⟩ : ∃ s : AState, s = (if (nodeType g e.dst == NodeType.wildcard) = true then
            addEdgeWildcardsToNode nodeID r (addWildcardToEdge
              (if (nodeType g e.dst == NodeType.wildcard) = true then (e.dst.dropEnd 2).toString else e.dst) r st) else st) :=
          ⟨_, rfl⟩
        rw [← hstW] at h
        have cN : stW.nodeW = st.nodeW := by rw [hstW]; split <;> simp
        have cE : stW.edgeW = st.edgeW := by rw [hstW]; split <;> simp
        have cV : stW.visited = st.visited := by rw [hstW]; split <;> simp
        have cD : stW.deps = st.deps := by rw [hstW]; split <;> simp
        have hw := write_edge st stW { stW with edgeW := aset r [(termKey g e.dst, 1)] stW.edgeW } r [(termKey g e.dst, 1)] []
          hI hempty (hr1 ▸ hv) cN cE cV (fun m r' h => cD ▸ h) (fun m r' h => Or.inl (cD ▸ h))
          (fun p hp => Or.inl ⟨p, cD ▸ hp, rfl⟩) (by
            intro k ⟨v, hk⟩ hp
            simp only [List.mem_singleton, Prod.mk.injEq] at hk
            obtain ⟨rfl, _⟩ := hk
            rw [hn nodeID e hre.2 hterm] at hp
            cases hp) rfl rfl rfl rfl
        obtain ⟨a, b⟩ := write_edge_D g st { stW with edgeW := aset r [(termKey g e.dst, 1)] stW.edgeW } r e
          [(termKey g e.dst, 1)] [] hD cN (by show aset r _ stW.edgeW = _; rw [cE]) he (sortedM_single _ _) (fun _ => rfl)
          (fun ht => by rw [hterm] at ht; cases ht)
        have hE1 : ({ stW with edgeW := aset r [(termKey g e.dst, 1)] stW.edgeW } : AState).edgeW =
            aset r [(termKey g e.dst, 1)] st.edgeW := by show aset r _ stW.edgeW = _; rw [cE]
        have h51 : Inv5 g K { stW with edgeW := aset r [(termKey g e.dst, 1)] stW.edgeW } :=
          write_edge_5 st _ r [(termKey g e.dst, 1)] h5 cN hE1 (hr1 ▸ hnil) (by
            intro k x hx
            obtain ⟨rfl, rfl⟩ := wget_single hx
            exact ⟨one_le_infinite, hK.term r.1 e (edgeAt_mem he) hterm⟩)
        have hR1 : Rel5 st { stW with edgeW := aset r [(termKey g e.dst, 1)] stW.edgeW } :=
          Rel5.write r _ hE1 hempty (fun v h => by show v ∈ stW.visited; rw [cV]; exact h)
        have hv' : nodeID ∈ ({ stW with edgeW := aset r [(termKey g e.dst, 1)] stW.edgeW } : AState).visited := by
          show nodeID ∈ stW.visited
          rw [cV]; exact hv
        have hV' : ∀ m ∈ V, m ∈ ({ stW with edgeW := aset r [(termKey g e.dst, 1)] stW.edgeW } : AState).visited :=
          fun m hm => hR1.vm m (hV m hm)
        obtain ⟨i1, i2, i3⟩ := edgeLoop_N g K hK hn rec hrecB hrecD hrecN nodeID path V rest tcs _ hw.1 a h51 hv'
          (by show aget nodeID stW.nodeW = []; rw [cN]; exact hnil) hV' hrest hatr hinr (hT.mono hR1 hV) tcs' st' h
        exact ⟨i1, hR1.trans i2, i3⟩
      · rename_i hterm
        have hnt : isTerminal (nodeType g e.dst) = false := by simpa using hterm
        split at h
        · simp at h
        · rename_i heq
          obtain ⟨tc, htc⟩ : ∃ t, t = (calcEdgeWith rec g r e path st).1.1 := ⟨_, rfl⟩
          obtain ⟨stC, hstC⟩ : ∃ s, s = (calcEdgeWith rec g r e path st).2 := ⟨_, rfl⟩
          have heq' : calcEdgeWith rec g r e path st = ((tc, none), stC) := by
            rw [htc, hstC]; exact Prod.ext (Prod.ext rfl heq) rfl
          rw [← htc, ← hstC] at h
          obtain ⟨hIC, hRC⟩ := calcEdgeWith_B g rec hrecB r e path st hI hempty (hr1 ▸ hv) tc stC heq'
          obtain ⟨hDC, hRDC⟩ := calcEdgeWith_D g rec hrecB hrecD r e path st hI hD he hnt tc stC heq'
          obtain ⟨h5C, hR5C, hTC⟩ := calcEdgeWith_N g K hK rec hrecB hrecD hrecN r e path st hI hD h5 he hnt hempty
            (hr1 ▸ hv) (hr1 ▸ hnil) tc stC heq'
          have hIC' : Inv2 (addEdgeWildcardsToNode nodeID r (calculateEdgeWildcards e.dst r stC)) :=
            hIC.of_core (by simp) (by simp) (by simp) (by simp)
          have hDC' : InvD g (addEdgeWildcardsToNode nodeID r (calculateEdgeWildcards e.dst r stC)) :=
            hDC.of_core (by simp) (by simp)
          have h5C' : Inv5 g K (addEdgeWildcardsToNode nodeID r (calculateEdgeWildcards e.dst r stC)) :=
            h5C.of_core (by simp) (by simp)
          have hR5C' : Rel5 st (addEdgeWildcardsToNode nodeID r (calculateEdgeWildcards e.dst r stC)) :=
            hR5C.of_core (by simp) (by simp)
          have hv' : nodeID ∈ (addEdgeWildcardsToNode nodeID r (calculateEdgeWildcards e.dst r stC)).visited :=
            hR5C'.vm _ hv
          have hnil' : aget nodeID (addEdgeWildcardsToNode nodeID r (calculateEdgeWildcards e.dst r stC)).nodeW = [] := by
            simp only [addEdgeWildcardsToNode_nodeW, calculateEdgeWildcards_nodeW]
            exact hRDC.en nodeID hv hnil
          have hT' : TcOK g nodeID V (tcs ++ tc) (addEdgeWildcardsToNode nodeID r (calculateEdgeWildcards e.dst r stC)) := by
            intro m hm hmV
            rcases List.mem_append.1 hm with hm | hm
            · exact hT.mono hR5C' hV m hm hmV
            · refine ⟨r, hrin, ?_⟩
              simp only [addEdgeWildcardsToNode_edgeW, calculateEdgeWildcards_edgeW]
              exact hTC m hm (hV m hmV)
          obtain ⟨j1, j2, j3⟩ := edgeLoop_N g K hK hn rec hrecB hrecD hrecN nodeID path V rest (tcs ++ tc) _ hIC' hDC' h5C' hv'
            hnil' (fun m hm => hR5C'.vm m (hV m hm)) hrest hatr hinr hT' tcs' st' h
          exact ⟨j1, hR5C'.trans j2, j3⟩

theorem refs_in_edgeRefs (g : G) (n : String) (p : ERef × WEdge)
    (hp : p ∈ ((List.range (edgesOf g n).length).zip (edgesOf g n) |>.map (fun (i, e) => ((n, i), e)))) :
    p.1 ∈ edgeRefs g n := by
  obtain ⟨q, hq, rfl⟩ := List.mem_map.1 hp
  obtain ⟨i, e⟩ := q
  unfold edgeRefs
  exact List.mem_map.2 ⟨i, (List.of_mem_zip hq).1, rfl⟩

theorem calcNode_N (g : G) (K : String → String → Nat → Prop) (hK : KClosed g K) (hn : NoPHTypes g) :
    ∀ (fuel : Nat), RecN g K (calcNode fuel g)
  | 0 => by
    intro n path st _ _ _ tc st' h
    simp [calcNode] at h
  | fuel+1 => by
    intro n path st hI hD h5 tc st' h
    unfold calcNode at h
    split at h
    · simp only [Prod.mk.injEq] at h
      obtain ⟨⟨rfl, _⟩, rfl⟩ := h
      exact ⟨h5, Rel5.refl _, fun m hm => by cases hm⟩
    · split at h
      · simp only [Prod.mk.injEq] at h
        obtain ⟨⟨rfl, _⟩, rfl⟩ := h
        exact ⟨h5, Rel5.refl _, fun m hm => by cases hm⟩
      · rename_i hc _
        have hfresh : n ∉ st.visited := fun hh => hc (List.contains_iff_mem.2 hh)
        have hnil0 : aget n st.nodeW = [] := by
          cases hh : aget n st.nodeW with
          | nil => rfl
          | cons a b => exact absurd (hI.v2 n (by rw [hh]; simp)) hfresh
        simp only at h
        have hI0 : Inv2 { st with visited := n :: st.visited } :=
          ⟨hI.i1, hI.i3, fun r hr => List.mem_cons_of_mem _ (hI.v1 r hr), fun N hN => List.mem_cons_of_mem _ (hI.v2 N hN),
            fun m r hr => List.mem_cons_of_mem _ (hI.v3 m r hr)⟩
        have hD0 : InvD g { st with visited := n :: st.visited } := hD.of_core rfl rfl
        have h50 : Inv5 g K { st with visited := n :: st.visited } := h5.of_core rfl rfl
        split at h
        · simp at h
        · rename_i tcs stL heq
          obtain ⟨hIL, hRL, _⟩ := edgeLoop_B g hn (calcNode fuel g) (calcNode_B g hn fuel) n path _ [] _ hI0
            (List.mem_cons_self ..) (mem_refs g n) tcs stL heq
          obtain ⟨hDL, hRDL⟩ := edgeLoop_D g hn (calcNode fuel g) (calcNode_B g hn fuel) (calcNode_D g hn fuel) n path _ [] _ hI0 hD0
            (List.mem_cons_self ..) (mem_refs g n) (refs_edgeAt g n) tcs stL heq
          obtain ⟨h5L, hR5L, hTL⟩ := edgeLoop_N g K hK hn (calcNode fuel g) (calcNode_B g hn fuel) (calcNode_D g hn fuel)
            (calcNode_N g K hK hn fuel) n path (n :: st.visited) _ [] _ hI0 hD0 h50 (List.mem_cons_self ..) hnil0
            (fun m hm => hm) (mem_refs g n) (refs_edgeAt g n) (refs_in_edgeRefs g n) (fun m hm => by cases hm) tcs stL heq
          have hR5 : Rel5 st stL :=
            ⟨fun r m hm h => hR5L.keepE r m (List.mem_cons_of_mem _ hm) h, fun v hv => hR5L.vm v (List.mem_cons_of_mem _ hv)⟩
          rcases fromTheEdges_casesN g n tcs stL hDL.sorted.1 with ⟨t, e, s, hcs⟩ | ⟨hcs, htcs⟩ | ⟨w, hcs, hw, hnm⟩ | ⟨hcs, hmax, hin⟩
          · rw [hcs] at h; simp at h
          · rw [hcs] at h
            simp only [Prod.mk.injEq] at h
            obtain ⟨⟨rfl, _⟩, rfl⟩ := h
            exact ⟨h5L, hR5, fun m hm => by rw [htcs] at hm; cases hm⟩
          · rw [hcs] at h
            simp only [Prod.mk.injEq] at h
            obtain ⟨⟨rfl, _⟩, rfl⟩ := h
            refine ⟨write_node_5 stL n w h5L hw ?_, hR5.of_core rfl rfl, ?_⟩
            · intro hm r hr k hk
              have htcs := hnm hm
              cases hx : wget k (aget r stL.edgeW) with
              | none => rfl
              | some x =>
                have hkeys : Keys (aget r stL.edgeW) k := ⟨x, wget_some_mem _ _ _ hx⟩
                rcases hRL.ce r k hkeys hk with h1 | h1
                · have := hI.v1 r (ne_nil_of_keys h1)
                  rw [mem_edgeRefs_fst hr] at this
                  exact absurd this hfresh
                · rw [htcs] at h1; cases h1
            · intro m hm hmv
              show wget ("R#" ++ m) (aget n (aset n w stL.nodeW)) ≠ none
              rw [aget_aset_self, hw]
              cases hmx : isMaxNode g n with
              | false => rw [hnm hmx] at hm; cases hm
              | true =>
                obtain ⟨r, hr, hne⟩ := hTL m hm (List.mem_cons_of_mem _ hmv)
                unfold stratL
                rw [if_pos hmx]
                have : (unionL (edgeMaps g n stL) ("R#" ++ m)).isSome = true := by
                  rw [unionL_isSome, List.any_eq_true]
                  refine ⟨_, List.mem_map.2 ⟨r, hr, rfl⟩, ?_⟩
                  cases h0 : wget ("R#" ++ m) (aget r stL.edgeW) with
                  | none => exact absurd h0 hne
                  | some y => rfl
                intro hnone
                rw [hnone] at this
                cases this
          · rw [hcs] at h
            simp only [Prod.mk.injEq] at h
            obtain ⟨⟨rfl, _⟩, rfl⟩ := h
            have hself := hTL n hin (List.mem_cons_self ..)
            obtain ⟨c1, c2, c3⟩ := cafFinal_5 hK n stL hIL hDL h5L hmax hself
            refine ⟨c1, ⟨?_, ?_⟩, ?_⟩
            · intro r m hm hne
              have hmn : m ≠ n := fun e => hfresh (e ▸ hm)
              exact c2 r m hmn (hR5.keepE r m hm hne)
            · intro v hv
              rw [cafFinal_visited]
              exact hR5.vm v hv
            · intro m hm hmv
              obtain ⟨hm1, hm2⟩ := List.mem_filter.1 hm
              have hmn : m ≠ n := by simpa using hm2
              exact c3 m hmn (hTL m hm1 (List.mem_cons_of_mem _ hmv))

theorem go_N (g : G) (K : String → String → Nat → Prop) (hK : KClosed g K) (hn : NoPHTypes g) :
    ∀ (ns : List String) (st st' : AState), Inv2 st → InvD g st → AllOK g st → Inv5 g K st →
    assignWeights.go g ns st = .ok st' → Inv5 g K st'
  | [], st, st', _, _, _, h5, heq => by
    simp only [assignWeights.go] at heq
    cases heq; exact h5
  | n :: ns, st, st', hI, hD, hA, h5, heq => by
    unfold assignWeights.go at heq
    split at heq
    · exact go_N g K hK hn ns st st' hI hD hA h5 heq
    · split at heq
      · cases heq
      · rename_i tcs st2 hres
        split at heq
        · cases heq
        · rename_i hemp
          have htcs : tcs = [] := by
            cases tcs with
            | nil => rfl
            | cons a b => simp at hemp
          subst htcs
          obtain ⟨hI2, _, _⟩ := calcNode_B g hn (g.nodes.length + 1) n [] st hI [] st2 hres
          obtain ⟨hD2, hR2⟩ := calcNode_D g hn (g.nodes.length + 1) n [] st hI hD [] st2 hres
          obtain ⟨h52, _, _⟩ := calcNode_N g K hK hn (g.nodes.length + 1) n [] st hI hD h5 [] st2 hres
          refine go_N g K hK hn ns st2 st' hI2 hD2 ?_ h52 heq
          intro r e he ht hne
          apply Classical.byContradiction
          intro hnot
          rcases hR2.bad r e he ht hne hnot with ⟨h1, h2⟩ | hh
          · exact h2 (hA r e he ht h1)
          · cases hh

theorem inv5_init (g : G) (K : String → String → Nat → Prop) : Inv5 g K {} :=
  ⟨fun v h => absurd rfl h, fun v h => absurd rfl h, fun r k x h => (by cases h), fun N k x h => (by cases h),
    fun r k x h => (by cases h), fun N k x h => (by cases h)⟩

theorem assignWeights_inv5 (g : G) (K : String → String → Nat → Prop) (hK : KClosed g K) (hn : NoPHTypes g)
    (order : List String) (st : AState) (h : assignWeights g order = .ok st) : Inv5 g K st := by
  unfold assignWeights at h
  split at h
  · cases h
  · exact go_N g K hK hn _ {} st inv2_init (invD_init g) (fun r e _ _ hne => absurd rfl hne) (inv5_init g K) h

theorem kclosed_true (g : G) : KClosed g (fun _ _ _ => True) :=
  ⟨fun _ _ _ _ => trivial, fun _ _ _ _ => trivial, fun _ _ _ _ _ _ _ _ => trivial, fun _ _ _ _ _ _ => trivial,
    fun _ _ _ _ _ _ => trivial⟩

theorem visited_node (g : G) (order : List String) (st : AState) (h : assignWeights g order = .ok st) (v : String)
    (hv : v ∈ st.visited) : ∃ nd ∈ g.nodes, nd.uniqueLabel = v := by
  have hvis := (assignWeights_visited g order st h).2.2 v hv
  unfold nodeType at hvis
  cases hh : g.node? v with
  | none => rw [hh] at hvis; exact absurd hvis (by decide)
  | some x =>
    unfold G.node? at hh
    exact ⟨x, List.mem_of_find?_eq_some hh, by simpa using List.find?_some hh⟩

/-- **N. the node rule on success**: the final weight map of every visited node is its strategy applied to the
    final weight maps of its edges — the pointwise maximum for a relation or a union, the common keys with the
    maximum for an intersection (per edge), the keys of all edges but the last with the maximum over all for an
    exclusion, nothing for an operator with any other label -/
theorem assignWeights_node_rule (g : G) (hn : NoPHTypes g) (order : List String) (st : AState)
    (h : assignWeights g order = .ok st) : ∀ v ∈ st.visited, NodeOK g st v := by
  have h5 := assignWeights_inv5 g _ (kclosed_true g) hn order st h
  have hne := (assignWeights_nonempty g order st h).1
  have hvis := (assignWeights_visited g order st h).2.2
  intro v hv
  by_cases hnil : aget v st.nodeW = []
  · obtain ⟨nd, hnd, rfl⟩ := visited_node g order st h v hv
    intro T
    rw [hnil]
    show none = _
    have hgood : ¬ GoodNode g nd.uniqueLabel := fun hg => hne nd hnd hg hnil
    have hterm := hvis _ hv
    unfold stratL
    cases hm : isMaxNode g nd.uniqueLabel with
    | true =>
      exfalso
      apply hgood
      unfold isMaxNode at hm
      unfold GoodNode
      cases hnt : nodeType g nd.uniqueLabel with
      | typeAndRelation => exact Or.inl rfl
      | specificType => rw [hnt] at hterm; exact absurd hterm (by decide)
      | wildcard => rw [hnt] at hterm; exact absurd hterm (by decide)
      | operator =>
        rw [hnt] at hm
        have hf : (NodeType.operator != NodeType.operator) = false := by decide
        rw [hf, Bool.false_or] at hm
        have : nodeLabel g nd.uniqueLabel = "union" := by simpa using hm
        exact Or.inr ⟨rfl, Or.inl this⟩
    | false =>
      have hop : nodeType g nd.uniqueLabel = .operator := by
        unfold isMaxNode at hm
        cases hnt : nodeType g nd.uniqueLabel with
        | operator => rfl
        | typeAndRelation => rw [hnt] at hm; simp at hm; exact absurd hm.1 (by decide)
        | specificType => rw [hnt] at hterm; exact absurd hterm (by decide)
        | wildcard => rw [hnt] at hterm; exact absurd hterm (by decide)
      simp only [Bool.false_eq_true, if_false]
      split
      · rename_i hi
        exact absurd (Or.inr ⟨hop, Or.inr (Or.inl (by simpa using hi))⟩) hgood
      · split
        · rename_i hx
          have hlen : ¬ 2 ≤ (edgesOf g nd.uniqueLabel).length :=
            fun h2 => hgood (Or.inr ⟨hop, Or.inr (Or.inr ⟨by simpa using hx, h2⟩)⟩)
          have hl : (edgeMaps g nd.uniqueLabel st).length ≤ 1 := by
            unfold edgeMaps; rw [List.length_map, edgeRefs_length]; omega
          unfold mixedL
          have : (edgeMaps g nd.uniqueLabel st).dropLast = [] := by
            apply List.eq_nil_of_length_eq_zero
            rw [List.length_dropLast]; omega
          rw [this]
          rfl
        · rfl
  · exact h5.ok v hnil

/-! ### W. every weight is witnessed by a path of the graph -/
/-- `v` reaches the (relation or operator) node `n` along at least one edge, through relation and operator nodes -/
inductive Conn (g : G) : String → String → Prop
  | edge {v : String} (e : WEdge) : e ∈ edgesOf g v → isTerminal (nodeType g e.dst) = false → Conn g v e.dst
  | step {v n : String} (e : WEdge) : e ∈ edgesOf g v → isTerminal (nodeType g e.dst) = false → Conn g e.dst n → Conn g v n

/-- a direct or tuple-to-userset edge: one tuple hop -/
def isHop (e : WEdge) : Bool := e.etype == .ttu || e.etype == .direct

/-- `ReachN g v T k`: a path from `v` to a terminal node (`T` or `T:*`) whose type is `T`; the last edge (into the
    terminal node: always a direct edge in a graph made by the builder) counts one, every other edge one if it is
    a direct or TTU edge -/
inductive ReachN (g : G) : String → String → Nat → Prop
  | term {v : String} (e : WEdge) : e ∈ edgesOf g v → isTerminal (nodeType g e.dst) = true →
      ReachN g v (termKey g e.dst) 1
  | step {v T : String} {k : Nat} (e : WEdge) : e ∈ edgesOf g v → isTerminal (nodeType g e.dst) = false →
      ReachN g e.dst T k → ReachN g v T (k + (if isHop e then 1 else 0))

/-- what justifies an `Infinite` weight: a cycle reachable from `v` (or through `v`) from which `T` is reachable,
    or a path with at least `Infinite` hops -/
def InfWit (g : G) (v T : String) : Prop :=
  (∃ m, (v = m ∨ Conn g v m) ∧ Conn g m m ∧ ∃ k, ReachN g m T k) ∨ ∃ k, infinite ≤ k ∧ ReachN g v T k

/-- the entry `k ↦ x` of a map of node `v` (or of one of its edges) is witnessed -/
def KeyOK (g : G) (v k : String) (x : Nat) : Prop :=
  (isPH k = true → Conn g v (phNode k)) ∧
  (isPH k = false → (∃ j, ReachN g v k j) ∧ (x < infinite → ReachN g v k x) ∧ (x = infinite → InfWit g v k))

theorem Conn.trans {g : G} {a b c : String} (h1 : Conn g a b) (h2 : Conn g b c) : Conn g a c := by
  induction h1 with
  | edge e he ht => exact Conn.step e he ht h2
  | step e he ht _ ih => exact Conn.step e he ht (ih h2)

theorem conn_reach {g : G} {a b T : String} {k : Nat} (h1 : Conn g a b) (h2 : ReachN g b T k) :
    ∃ k', k ≤ k' ∧ ReachN g a T k' := by
  induction h1 with
  | edge e he ht => exact ⟨_, Nat.le_add_right _ _, ReachN.step e he ht h2⟩
  | step e he ht _ ih =>
    obtain ⟨k', hk', hr⟩ := ih h2
    exact ⟨_, Nat.le_trans hk' (Nat.le_add_right _ _), ReachN.step e he ht hr⟩

theorem bumpE_eq (e : WEdge) (x : Nat) (hx : x ≠ infinite) : bumpE e x = x + (if isHop e then 1 else 0) := by
  unfold bumpE isHop
  have : (x == infinite) = false := by simpa using hx
  split <;> simp [this]

theorem infWit_step {g : G} {v T : String} (e : WEdge) (he : e ∈ edgesOf g v) (ht : isTerminal (nodeType g e.dst) = false)
    (h : InfWit g e.dst T) : InfWit g v T := by
  rcases h with ⟨m, hm, hc, hr⟩ | ⟨k, hk, hr⟩
  · refine Or.inl ⟨m, Or.inr ?_, hc, hr⟩
    rcases hm with rfl | hm
    · exact Conn.edge e he ht
    · exact Conn.step e he ht hm
  · exact Or.inr ⟨_, Nat.le_trans hk (Nat.le_add_right _ _), ReachN.step e he ht hr⟩

theorem infWit_conn {g : G} {v n T : String} (hc : Conn g v n) (h : InfWit g n T) : InfWit g v T := by
  rcases h with ⟨m, hm, hcm, hr⟩ | ⟨k, hk, hr⟩
  · refine Or.inl ⟨m, Or.inr ?_, hcm, hr⟩
    rcases hm with rfl | hm
    · exact hc
    · exact hc.trans hm
  · obtain ⟨k', hk', hr'⟩ := conn_reach hc hr
    exact Or.inr ⟨k', Nat.le_trans hk hk', hr'⟩

theorem kclosed_keyOK (g : G) (hn : NoPHTypes g) : KClosed g (KeyOK g) := by
  refine ⟨?_, ?_, ?_, ?_, ?_⟩
  · intro v e he ht
    refine ⟨fun hp => ?_, fun _ => ⟨⟨1, ReachN.term e he ht⟩, fun _ => ReachN.term e he ht, fun h => ?_⟩⟩
    · rw [hn v e he ht] at hp; cases hp
    · exact absurd h (by decide)
  · intro v e he ht
    refine ⟨fun _ => ?_, fun hp => ?_⟩
    · rw [phNode_mk]; exact Conn.edge e he ht
    · rw [isPH_mk] at hp; cases hp
  · intro v e k x he ht hk hx
    refine ⟨fun hp => Conn.step e he ht (hk.1 hp), fun hp => ?_⟩
    obtain ⟨⟨j, hj⟩, hfin, hinf⟩ := hk.2 hp
    refine ⟨⟨_, ReachN.step e he ht hj⟩, ?_, ?_⟩
    · intro hlt
      have hxne : x ≠ infinite := by
        intro e1; rw [e1, bumpE_inf] at hlt; exact Nat.lt_irrefl _ hlt
      rw [bumpE_eq e x hxne]
      exact ReachN.step e he ht (hfin (by omega))
    · intro heq
      by_cases hxe : x = infinite
      · exact infWit_step e he ht (hinf hxe)
      · rw [bumpE_eq e x hxe] at heq
        refine Or.inr ⟨_, Nat.le_of_eq heq.symm, ReachN.step e he ht (hfin (by omega))⟩
  · intro v k x y hk hv
    have hc : Conn g v v := by
      have := hv.1 (isPH_mk v)
      rwa [phNode_mk] at this
    refine ⟨hk.1, fun hp => ?_⟩
    obtain ⟨hj, _, _⟩ := hk.2 hp
    exact ⟨hj, fun h => absurd h (Nat.lt_irrefl _), fun _ => Or.inl ⟨v, Or.inl rfl, hc, hj⟩⟩
  · intro v n k y hv hk
    have hc : Conn g v n := by
      have := hv.1 (isPH_mk n)
      rwa [phNode_mk] at this
    refine ⟨fun hp => hc.trans (hk.1 hp), fun hp => ?_⟩
    obtain ⟨⟨j, hj⟩, _, hinf⟩ := hk.2 hp
    obtain ⟨j', _, hj'⟩ := conn_reach hc hj
    exact ⟨⟨j', hj'⟩, fun h => absurd h (Nat.lt_irrefl _), fun _ => infWit_conn hc (hinf rfl)⟩

/-- **W. every weight is witnessed**: on success every entry `T ↦ w` of the weight map of a node (and of an edge,
    relative to its source) has `w ≤ Infinite`, `T` is the type of a terminal node reachable from the node, a
    finite `w` is the number of hops of such a path, and `w = Infinite` comes with `InfWit` -/
theorem assignWeights_witnessed (g : G) (hn : NoPHTypes g) (order : List String) (st : AState)
    (h : assignWeights g order = .ok st) :
    (∀ (N T : String) (w : Nat), wget T (aget N st.nodeW) = some w →
      w ≤ infinite ∧ (∃ j, ReachN g N T j) ∧ (w < infinite → ReachN g N T w) ∧ (w = infinite → InfWit g N T)) ∧
    (∀ (r : ERef) (T : String) (w : Nat), wget T (aget r st.edgeW) = some w →
      w ≤ infinite ∧ (∃ j, ReachN g r.1 T j) ∧ (w < infinite → ReachN g r.1 T w) ∧ (w = infinite → InfWit g r.1 T)) := by
  have h5 := assignWeights_inv5 g _ (kclosed_keyOK g hn) hn order st h
  have hc := assignWeights_clean g hn order st h
  refine ⟨?_, ?_⟩
  · intro N T w hw
    have hp : isPH T = false := hc.node N T ⟨w, wget_some_mem _ _ _ hw⟩
    exact ⟨h5.bN N T w hw, (h5.kN N T w hw).2 hp⟩
  · intro r T w hw
    have hp : isPH T = false := hc.edge r T ⟨w, wget_some_mem _ _ _ hw⟩
    exact ⟨h5.bE r T w hw, (h5.kE r T w hw).2 hp⟩

end FgaVerif.Model.WAssign
