import FgaVerif.Proofs.WAssign
/-! Post-conditions of a successful run of the port of `AssignWeights` (`Model/WAssign.lean`), for every
    graph and every start order (C04/C05, the clauses about the algorithm).  Four passes over the computation
    (`calcEdgeWith` / `edgeLoop` / `calcNode` / `assignWeights.go`), each carrying an invariant of the state and a
    relation between the state before and after a call:

    1. `assignWeights_visited` — every non-terminal node is visited, once (`VRel`).
    2. `assignWeights_clean` — no placeholder key `R#n` and no pending dependency is left (`Inv2`, `Rel2`): every
       placeholder key of an edge is recorded in the dependencies of the node it names, every placeholder key of a
       node comes from one of its own edges, and every placeholder or dependency that a call leaves behind names
       a node of the list it returns; `cafFinal_spec` is the resolution step (`calculateNodeWeightAndFixDependencies`
       with both fix-ups, described by `EdgeFix` / `NodeFix`).
    3. `assignWeights_nonempty` — no relation, union, intersection or two-edged exclusion keeps an empty map; all
       weights are at least one; every edge of a visited node has weights (`Inv3`, `RelE`).
    4. `assignWeights_edge_rule` — every edge weight is the final weight of its target, plus one on a hop
       (`InvD`, `RelD`): an edge satisfies the rule or holds only the placeholder of its target; both fix-ups are
       the substitution `substL` at the level of lookups (`edgeFixF`, `nodeFixF`; the edge fix-up computes the
       same map as the node fix-up, `fixEdgeRes_fst`), which commutes with "plus one" because a resolved reference
       node has only Infinite weights (`substL_map`).
    `assignWeights_support`: weights exist only for visited nodes of the graph.  -/
set_option linter.unusedSimpArgs false
set_option linter.unusedSectionVars false
set_option linter.unusedVariables false
namespace FgaVerif.Model.WAssign
open FgaVerif.Model FgaVerif.Model.WGraph

/-! ### strings: the placeholder key of a node -/
abbrev isPH (k : String) : Bool := k.startsWith "R#"
abbrev phNode (k : String) : String := (k.drop 2).toString

theorem phNode_mk (d : String) : phNode ("R#" ++ d) = d := by
  apply String.toList_inj.1
  rw [phNode, String.Slice.toString_eq, String.toList_copy_drop]
  simp [String.toList_append]

theorem isPH_mk (d : String) : isPH ("R#" ++ d) = true := by
  rw [isPH, String.startsWith_string_iff]
  simp [String.toList_append]

theorem eq_mk_of_isPH (k : String) (h : isPH k = true) : k = "R#" ++ phNode k := by
  rw [isPH, String.startsWith_string_iff] at h
  apply String.toList_inj.1
  rw [String.toList_append, phNode, String.Slice.toString_eq, String.toList_copy_drop]
  obtain ⟨t, ht⟩ := h
  rw [← ht]
  simp

/-! ### association lists -/
section alist
variable {κ α : Type} [BEq κ] [LawfulBEq κ]

theorem aget_nil [Inhabited α] (k : κ) : aget k ([] : List (κ × α)) = default := rfl

theorem aget_cons [Inhabited α] (k k' : κ) (v : α) (m : List (κ × α)) :
    aget k ((k', v) :: m) = if k' == k then v else aget k m := by
  unfold aget
  simp only [List.find?_cons]
  by_cases h : (k' == k) = true
  · simp [h]
  · simp [h]

theorem aget_aset_self [Inhabited α] (k : κ) (v : α) : ∀ (m : List (κ × α)), aget k (aset k v m) = v
  | [] => by simp [aset, aget_cons]
  | (k', v') :: rest => by
    unfold aset
    by_cases h : (k' == k) = true
    · simp [h, aget_cons]
    · simp [h, aget_cons, aget_aset_self k v rest]

theorem aget_aset_ne [Inhabited α] (k k' : κ) (v : α) (hne : k' ≠ k) :
    ∀ (m : List (κ × α)), aget k' (aset k v m) = aget k' m
  | [] => by
    have : (k == k') = false := by simpa using fun e => hne e.symm
    simp [aset, aget_cons, this, aget_nil]
  | (k2, v2) :: rest => by
    unfold aset
    by_cases h : (k2 == k) = true
    · have e : k2 = k := by simpa using h
      have : (k == k') = false := by simpa using fun e => hne e.symm
      simp [h, aget_cons, e, this]
    · simp [h, aget_cons, aget_aset_ne k k' v hne rest]

theorem mem_aset (k : κ) (v : α) : ∀ (m : List (κ × α)) (p : κ × α), p ∈ aset k v m → p = (k, v) ∨ p ∈ m
  | [], p, hp => by simp [aset] at hp; exact Or.inl hp
  | (k2, v2) :: rest, p, hp => by
    unfold aset at hp
    split at hp
    · rcases List.mem_cons.1 hp with h | h
      · exact Or.inl h
      · exact Or.inr (List.mem_cons_of_mem _ h)
    · rcases List.mem_cons.1 hp with h | h
      · exact Or.inr (h ▸ List.mem_cons_self ..)
      · rcases mem_aset k v rest p h with h | h
        · exact Or.inl h
        · exact Or.inr (List.mem_cons_of_mem _ h)

theorem adel_cons (k k2 : κ) (v2 : α) (rest : List (κ × α)) :
    adel k ((k2, v2) :: rest) = if (k2 == k) = true then adel k rest else (k2, v2) :: adel k rest := by
  unfold adel
  by_cases h : (k2 == k) = true <;> simp [List.filter_cons, h]

theorem aget_adel_self [Inhabited α] (k : κ) : ∀ (m : List (κ × α)), aget k (adel k m) = default
  | [] => rfl
  | (k2, v2) :: rest => by
    rw [adel_cons]
    by_cases h : (k2 == k) = true
    · simp only [h, if_true]; exact aget_adel_self k rest
    · simp only [h, if_false, aget_cons, Bool.false_eq_true]; exact aget_adel_self k rest

theorem aget_adel_ne [Inhabited α] (k k' : κ) (hne : k' ≠ k) : ∀ (m : List (κ × α)), aget k' (adel k m) = aget k' m
  | [] => rfl
  | (k2, v2) :: rest => by
    rw [adel_cons]
    by_cases h : (k2 == k) = true
    · simp only [h, if_true]
      have e : k2 = k := by simpa using h
      have : (k == k') = false := by simpa using fun e => hne e.symm
      simp only [aget_cons, e, this, Bool.false_eq_true, if_false]
      exact aget_adel_ne k k' hne rest
    · simp only [h, if_false, aget_cons, Bool.false_eq_true, aget_adel_ne k k' hne rest]

theorem mem_adel (k : κ) (m : List (κ × α)) (p : κ × α) (hp : p ∈ adel k m) : p ∈ m ∧ p.1 ≠ k := by
  unfold adel at hp
  obtain ⟨h1, h2⟩ := List.mem_filter.1 hp
  exact ⟨h1, by simpa using h2⟩

/-- a non-default value comes from an entry -/
theorem aget_entry [Inhabited α] (k : κ) (m : List (κ × α)) (h : aget k m ≠ default) : (k, aget k m) ∈ m := by
  unfold aget at h ⊢
  split
  · rename_i k' v hf
    have := List.find?_some hf
    have e : k' = k := by simpa using this
    subst e
    exact List.mem_of_find?_eq_some hf
  · rename_i hf; simp [hf] at h
end alist

/-! ### weight maps -/
def Keys (w : WMap) (k : String) : Prop := ∃ v, (k, v) ∈ w

theorem keys_nil (k : String) : ¬ Keys [] k := by rintro ⟨v, hv⟩; cases hv

theorem keys_of_ne_nil (w : WMap) (h : w ≠ []) : ∃ k, Keys w k := by
  cases w with
  | nil => exact absurd rfl h
  | cons p rest => exact ⟨p.1, p.2, List.mem_cons_self ..⟩

theorem ne_nil_of_keys {w : WMap} {k : String} (h : Keys w k) : w ≠ [] := by
  rintro rfl; exact keys_nil k h

theorem mem_wset (k : String) (v : Nat) : ∀ (w : WMap) (p : String × Nat), p ∈ wset k v w → p = (k, v) ∨ p ∈ w
  | [], p, hp => by simp [wset] at hp; exact Or.inl hp
  | (k', v') :: rest, p, hp => by
    unfold wset at hp
    split at hp
    · rcases List.mem_cons.1 hp with h | h
      · exact Or.inl h
      · exact Or.inr (List.mem_cons_of_mem _ h)
    · split at hp
      · rcases List.mem_cons.1 hp with h | h
        · exact Or.inl h
        · exact Or.inr h
      · rcases List.mem_cons.1 hp with h | h
        · exact Or.inr (h ▸ List.mem_cons_self ..)
        · rcases mem_wset k v rest p h with h | h
          · exact Or.inl h
          · exact Or.inr (List.mem_cons_of_mem _ h)

theorem wset_self (k : String) (v : Nat) : ∀ (w : WMap), (k, v) ∈ wset k v w
  | [] => by simp [wset]
  | (k', v') :: rest => by
    unfold wset
    split
    · exact List.mem_cons_self ..
    · split
      · exact List.mem_cons_self ..
      · exact List.mem_cons_of_mem _ (wset_self k v rest)

theorem keys_wset_of (k : String) (v : Nat) : ∀ (w : WMap) (k2 : String), Keys w k2 → Keys (wset k v w) k2
  | [], k2, h => absurd h (keys_nil k2)
  | (k', v') :: rest, k2, ⟨v2, h⟩ => by
    unfold wset
    split
    · rename_i hk
      have e : k = k' := by simpa using hk
      rcases List.mem_cons.1 h with h | h
      · cases h; exact ⟨v, e ▸ List.mem_cons_self ..⟩
      · exact ⟨v2, List.mem_cons_of_mem _ h⟩
    · split
      · exact ⟨v2, List.mem_cons_of_mem _ h⟩
      · rcases List.mem_cons.1 h with h | h
        · cases h; exact ⟨_, List.mem_cons_self ..⟩
        · obtain ⟨v3, h3⟩ := keys_wset_of k v rest k2 ⟨v2, h⟩
          exact ⟨v3, List.mem_cons_of_mem _ h3⟩

theorem wset_ne_nil (k : String) (v : Nat) (w : WMap) : wset k v w ≠ [] :=
  ne_nil_of_keys ⟨v, wset_self k v w⟩

theorem wget_some_mem (k : String) : ∀ (w : WMap) (v : Nat), wget k w = some v → (k, v) ∈ w
  | [], v, h => by simp [wget] at h
  | (k', v') :: rest, v, h => by
    unfold wget at h
    split at h
    · rename_i hk
      have e : k = k' := by simpa using hk
      cases h; exact e ▸ List.mem_cons_self ..
    · exact List.mem_cons_of_mem _ (wget_some_mem k rest v h)

theorem wget_none_not_keys (k : String) : ∀ (w : WMap), wget k w = none → ¬ Keys w k
  | [], _, h => keys_nil k h
  | (k', v') :: rest, h, ⟨v, hv⟩ => by
    unfold wget at h
    split at h
    · cases h
    · rename_i hk
      rcases List.mem_cons.1 hv with e | hv
      · cases e; simp at hk
      · exact wget_none_not_keys k rest h ⟨v, hv⟩

theorem mem_wsetMax (k : String) (v : Nat) (w : WMap) (p : String × Nat) (hp : p ∈ wsetMax k v w) :
    p = (k, v) ∨ (∃ v0, (k, v0) ∈ w ∧ p = (k, Nat.max v0 v)) ∨ p ∈ w := by
  unfold wsetMax at hp
  split at hp
  · rcases mem_wset _ _ _ _ hp with h | h
    · exact Or.inl h
    · exact Or.inr (Or.inr h)
  · rename_i v0 hv0
    rcases mem_wset _ _ _ _ hp with h | h
    · exact Or.inr (Or.inl ⟨v0, wget_some_mem k w v0 hv0, h⟩)
    · exact Or.inr (Or.inr h)

theorem keys_wsetMax_self (k : String) (v : Nat) (w : WMap) : Keys (wsetMax k v w) k := by
  unfold wsetMax
  split
  · exact ⟨_, wset_self ..⟩
  · exact ⟨_, wset_self ..⟩

theorem keys_wsetMax_of (k : String) (v : Nat) (w : WMap) (k2 : String) (h : Keys w k2) : Keys (wsetMax k v w) k2 := by
  unfold wsetMax
  split
  · exact keys_wset_of _ _ _ _ h
  · exact keys_wset_of _ _ _ _ h

theorem keys_wsetMax (k : String) (v : Nat) (w : WMap) (k2 : String) (h : Keys (wsetMax k v w) k2) : k2 = k ∨ Keys w k2 := by
  obtain ⟨v2, h⟩ := h
  rcases mem_wsetMax k v w _ h with h | ⟨v0, _, h⟩ | h
  · cases h; exact Or.inl rfl
  · cases h; exact Or.inl rfl
  · exact Or.inr ⟨v2, h⟩

theorem keys_wset (k : String) (v : Nat) (w : WMap) (k2 : String) (h : Keys (wset k v w) k2) : k2 = k ∨ Keys w k2 := by
  obtain ⟨v2, h⟩ := h
  rcases mem_wset k v w _ h with h | h
  · cases h; exact Or.inl rfl
  · exact Or.inr ⟨v2, h⟩

theorem mem_wdel (k : String) (w : WMap) (p : String × Nat) (hp : p ∈ wdel k w) : p ∈ w ∧ p.1 ≠ k := by
  unfold wdel at hp
  obtain ⟨h1, h2⟩ := List.mem_filter.1 hp
  exact ⟨h1, by simpa using h2⟩

theorem foldl_inv_mem {σ β : Type} (P : σ → Prop) (f : σ → β → σ) :
    ∀ (l : List β) (s : σ), (∀ s x, x ∈ l → P s → P (f s x)) → P s → P (l.foldl f s)
  | [], _, _, h => h
  | x :: xs, s, hf, h =>
    foldl_inv_mem P f xs (f s x) (fun s y hy => hf s y (List.mem_cons_of_mem _ hy)) (hf s x (List.mem_cons_self ..) h)

/-! ### the loop bodies, named -/
def fixInner (hasRefs : Bool) (r : ERef) (acc : WMap × AState) (kv2 : String × Nat) : WMap × AState :=
  match wget kv2.1 acc.1 with
  | none => (wset kv2.1 kv2.2 acc.1, if hasRefs && kv2.1.startsWith "R#" then addDep (kv2.1.drop 2).toString r acc.2 else acc.2)
  | some v0 => (wset kv2.1 (Nat.max v0 kv2.2) acc.1, acc.2)

def fixMid (refID : String) (hasRefs : Bool) (r : ERef) (nodeWeights : WMap) (acc : WMap × AState) (kv : String × Nat) :
    WMap × AState :=
  if kv.1 == refID then nodeWeights.foldl (fixInner hasRefs r) acc else (wsetMax kv.1 kv.2 acc.1, acc.2)

def fixEdgeRes (nodeCycle refID : String) (hasRefs : Bool) (st : AState) (r : ERef) : WMap × AState :=
  (aget r st.edgeW).foldl (fixMid refID hasRefs r (aget nodeCycle st.nodeW)) ([], st)

def fixEdgeStep (nodeCycle refID : String) (hasRefs : Bool) (st : AState) (r : ERef) : AState :=
  addReferentialWildcardsToEdge r nodeCycle
    { (fixEdgeRes nodeCycle refID hasRefs st r).2 with
      edgeW := aset r (fixEdgeRes nodeCycle refID hasRefs st r).1 (fixEdgeRes nodeCycle refID hasRefs st r).2.edgeW }

theorem fixDependantEdgesWeight_eq (nodeCycle refID : String) (hasRefs : Bool) (st : AState) :
    fixDependantEdgesWeight nodeCycle refID hasRefs st =
      (aget nodeCycle st.deps).foldl (fixEdgeStep nodeCycle refID hasRefs) st := rfl

def fixNodeW (refID : String) (nodeWeights : WMap) (old : WMap) : WMap :=
  old.foldl (fun (acc : WMap) (kv : String × Nat) =>
    if kv.1 == refID then nodeWeights.foldl (fun a (p : String × Nat) => wsetMax p.1 p.2 a) acc
    else wsetMax kv.1 kv.2 acc) []

def fixNodeStep (nodeCycle refID : String) (st : AState) (r : ERef) : AState :=
  addReferentialWildcardsToNode r.1 nodeCycle
    { st with nodeW := aset r.1 (fixNodeW refID (aget nodeCycle st.nodeW) (aget r.1 st.nodeW)) st.nodeW }

theorem fixDependantNodesWeight_eq (nodeCycle refID : String) (st : AState) :
    fixDependantNodesWeight nodeCycle refID st = (aget nodeCycle st.deps).foldl (fixNodeStep nodeCycle refID) st := rfl

def cafStep (refID : String) (acc : WMap × List String) (kv : String × Nat) : WMap × List String :=
  if kv.1 == refID then acc
  else (wset kv.1 infinite acc.1, if kv.1.startsWith "R#" then acc.2 ++ [kv.1] else acc.2)

def cafRes (g : G) (nodeID : String) (st : AState) : WMap × List String :=
  (edgeRefs g nodeID).foldl (fun (acc : WMap × List String) r => (aget r st.edgeW).foldl (cafStep ("R#" ++ nodeID)) acc) ([], [])

def cafFinal (g : G) (nodeID : String) (st : AState) : AState :=
  let st1 : AState := { st with nodeW := aset nodeID (cafRes g nodeID st).1 st.nodeW }
  let st2 := fixDependantEdgesWeight nodeID ("R#" ++ nodeID) (!(cafRes g nodeID st).2.isEmpty) st1
  let st3 := fixDependantNodesWeight nodeID ("R#" ++ nodeID) st2
  { st3 with deps := adel nodeID st3.deps }

theorem calcAndFix_eq (g : G) (nodeID : String) (st : AState) :
    calcAndFix g nodeID st =
      if (nodeType g nodeID == .operator && nodeLabel g nodeID != "union") ||
          (nodeType g nodeID != .typeAndRelation && nodeType g nodeID != .operator) then (some .tupleCycle, st)
      else if noEdgesErr g nodeID then (some .invalidModel, st)
      else if (cafRes g nodeID st).1.isEmpty then (some .invalidModel, st)
      else (none, cafFinal g nodeID st) := rfl

def scanStep (isTC : Bool) (r : ERef) (acc : List String × AState) (kv : String × Nat) : List String × AState :=
  if !isTC && kv.1.startsWith "R#" then (acc.1 ++ [(kv.1.drop 2).toString], addDep (kv.1.drop 2).toString r acc.2) else acc

def edgeCopy (e : WEdge) (toW : WMap) : WMap :=
  if e.etype == .ttu || e.etype == .direct then toW.map (fun (k, v) => (k, if v == infinite then v else v + 1)) else toW

theorem calcEdgeWith_eq (rec : String → List WEdge → AState → Res) (g : G) (r : ERef) (e : WEdge) (path : List WEdge)
    (st : AState) :
    calcEdgeWith rec g r e path st =
      if e.src == e.dst then
        (([e.src], none), addDep e.dst r { st with edgeW := aset r [("R#" ++ e.dst, infinite)] st.edgeW })
      else
        match rec e.dst (path ++ [e]) st with
        | ((tc, some err), st1) => ((tc, some err), st1)
        | ((tc, none), st1) =>
          if (aget e.dst st1.nodeW).isEmpty then
            if isTupleCycle g e.dst (path ++ [e]) then
              ((tc ++ [e.dst], none), addDep e.dst r { st1 with edgeW := aset r [("R#" ++ e.dst, infinite)] st1.edgeW })
            else ((tc, some .modelCycle), st1)
          else
            (((( aget e.dst st1.nodeW).foldl (scanStep (!tc.isEmpty) r)
                (tc, if !tc.isEmpty then tc.foldl (fun st n => addDep n r st) st1 else st1)).1, none),
              { ((aget e.dst st1.nodeW).foldl (scanStep (!tc.isEmpty) r)
                  (tc, if !tc.isEmpty then tc.foldl (fun st n => addDep n r st) st1 else st1)).2 with
                edgeW := aset r (edgeCopy e (aget e.dst st1.nodeW))
                  ((aget e.dst st1.nodeW).foldl (scanStep (!tc.isEmpty) r)
                    (tc, if !tc.isEmpty then tc.foldl (fun st n => addDep n r st) st1 else st1)).2.edgeW }) := by
  rfl

/-! ### which fields the wildcard operations touch -/
section frames
variable (t nodeID refNode to : String) (r : ERef) (st : AState)

@[simp] theorem addWildcardToEdge_nodeW : (addWildcardToEdge t r st).nodeW = st.nodeW := by
  unfold addWildcardToEdge; simp only; split <;> (try split) <;> rfl
@[simp] theorem addWildcardToEdge_edgeW : (addWildcardToEdge t r st).edgeW = st.edgeW := by
  unfold addWildcardToEdge; simp only; split <;> (try split) <;> rfl
@[simp] theorem addWildcardToEdge_visited : (addWildcardToEdge t r st).visited = st.visited := by
  unfold addWildcardToEdge; simp only; split <;> (try split) <;> rfl
@[simp] theorem addWildcardToEdge_deps : (addWildcardToEdge t r st).deps = st.deps := by
  unfold addWildcardToEdge; simp only; split <;> (try split) <;> rfl

@[simp] theorem addEdgeWildcardsToNode_nodeW : (addEdgeWildcardsToNode nodeID r st).nodeW = st.nodeW := by
  unfold addEdgeWildcardsToNode; simp only; split <;> (try split) <;> rfl
@[simp] theorem addEdgeWildcardsToNode_edgeW : (addEdgeWildcardsToNode nodeID r st).edgeW = st.edgeW := by
  unfold addEdgeWildcardsToNode; simp only; split <;> (try split) <;> rfl
@[simp] theorem addEdgeWildcardsToNode_visited : (addEdgeWildcardsToNode nodeID r st).visited = st.visited := by
  unfold addEdgeWildcardsToNode; simp only; split <;> (try split) <;> rfl
@[simp] theorem addEdgeWildcardsToNode_deps : (addEdgeWildcardsToNode nodeID r st).deps = st.deps := by
  unfold addEdgeWildcardsToNode; simp only; split <;> (try split) <;> rfl

@[simp] theorem calculateEdgeWildcards_nodeW : (calculateEdgeWildcards to r st).nodeW = st.nodeW := by
  unfold calculateEdgeWildcards; split <;> (try simp only) <;> (try split) <;> rfl
@[simp] theorem calculateEdgeWildcards_edgeW : (calculateEdgeWildcards to r st).edgeW = st.edgeW := by
  unfold calculateEdgeWildcards; split <;> (try simp only) <;> (try split) <;> rfl
@[simp] theorem calculateEdgeWildcards_visited : (calculateEdgeWildcards to r st).visited = st.visited := by
  unfold calculateEdgeWildcards; split <;> (try simp only) <;> (try split) <;> rfl
@[simp] theorem calculateEdgeWildcards_deps : (calculateEdgeWildcards to r st).deps = st.deps := by
  unfold calculateEdgeWildcards; split <;> (try simp only) <;> (try split) <;> rfl

@[simp] theorem addReferentialWildcardsToEdge_nodeW : (addReferentialWildcardsToEdge r refNode st).nodeW = st.nodeW := by
  unfold addReferentialWildcardsToEdge; simp only; split <;> (try split) <;> rfl
@[simp] theorem addReferentialWildcardsToEdge_edgeW : (addReferentialWildcardsToEdge r refNode st).edgeW = st.edgeW := by
  unfold addReferentialWildcardsToEdge; simp only; split <;> (try split) <;> rfl
@[simp] theorem addReferentialWildcardsToEdge_visited : (addReferentialWildcardsToEdge r refNode st).visited = st.visited := by
  unfold addReferentialWildcardsToEdge; simp only; split <;> (try split) <;> rfl
@[simp] theorem addReferentialWildcardsToEdge_deps : (addReferentialWildcardsToEdge r refNode st).deps = st.deps := by
  unfold addReferentialWildcardsToEdge; simp only; split <;> (try split) <;> rfl

@[simp] theorem addReferentialWildcardsToNode_nodeW : (addReferentialWildcardsToNode nodeID refNode st).nodeW = st.nodeW := by
  unfold addReferentialWildcardsToNode; simp only; split <;> rfl
@[simp] theorem addReferentialWildcardsToNode_edgeW : (addReferentialWildcardsToNode nodeID refNode st).edgeW = st.edgeW := by
  unfold addReferentialWildcardsToNode; simp only; split <;> rfl
@[simp] theorem addReferentialWildcardsToNode_visited : (addReferentialWildcardsToNode nodeID refNode st).visited = st.visited := by
  unfold addReferentialWildcardsToNode; simp only; split <;> rfl
@[simp] theorem addReferentialWildcardsToNode_deps : (addReferentialWildcardsToNode nodeID refNode st).deps = st.deps := by
  unfold addReferentialWildcardsToNode; simp only; split <;> rfl

@[simp] theorem addDep_nodeW (n : String) : (addDep n r st).nodeW = st.nodeW := rfl
@[simp] theorem addDep_edgeW (n : String) : (addDep n r st).edgeW = st.edgeW := rfl
@[simp] theorem addDep_visited (n : String) : (addDep n r st).visited = st.visited := rfl
theorem addDep_deps (n : String) : (addDep n r st).deps = aset n (aget n st.deps ++ [r]) st.deps := rfl
end frames

/-- membership in a dependency list after `addDep` -/
theorem mem_addDep (n m : String) (r r' : ERef) (st : AState) :
    r' ∈ aget m (addDep n r st).deps ↔ r' ∈ aget m st.deps ∨ (m = n ∧ r' = r) := by
  rw [addDep_deps]
  by_cases h : m = n
  · subst h
    rw [aget_aset_self]
    simp
  · rw [aget_aset_ne _ _ _ h]
    simp [h]

/-! ### the fix-ups: fields they leave alone -/
theorem fixInner_frame (hasRefs : Bool) (r : ERef) (acc : WMap × AState) (kv2 : String × Nat) :
    (fixInner hasRefs r acc kv2).2.nodeW = acc.2.nodeW ∧ (fixInner hasRefs r acc kv2).2.edgeW = acc.2.edgeW ∧
    (fixInner hasRefs r acc kv2).2.visited = acc.2.visited := by
  unfold fixInner
  split
  · simp only; split <;> exact ⟨rfl, rfl, rfl⟩
  · exact ⟨rfl, rfl, rfl⟩

theorem fixMid_frame (refID : String) (hasRefs : Bool) (r : ERef) (nw : WMap) (acc : WMap × AState) (kv : String × Nat) :
    (fixMid refID hasRefs r nw acc kv).2.nodeW = acc.2.nodeW ∧ (fixMid refID hasRefs r nw acc kv).2.edgeW = acc.2.edgeW ∧
    (fixMid refID hasRefs r nw acc kv).2.visited = acc.2.visited := by
  unfold fixMid
  split
  · refine foldl_inv (fun (a : WMap × AState) => a.2.nodeW = acc.2.nodeW ∧ a.2.edgeW = acc.2.edgeW ∧ a.2.visited = acc.2.visited)
      _ ?_ nw acc ⟨rfl, rfl, rfl⟩
    intro a kv2 ⟨h1, h2, h3⟩
    obtain ⟨g1, g2, g3⟩ := fixInner_frame hasRefs r a kv2
    exact ⟨g1.trans h1, g2.trans h2, g3.trans h3⟩
  · exact ⟨rfl, rfl, rfl⟩

theorem fixEdgeRes_frame (nodeCycle refID : String) (hasRefs : Bool) (st : AState) (r : ERef) :
    (fixEdgeRes nodeCycle refID hasRefs st r).2.nodeW = st.nodeW ∧ (fixEdgeRes nodeCycle refID hasRefs st r).2.edgeW = st.edgeW ∧
    (fixEdgeRes nodeCycle refID hasRefs st r).2.visited = st.visited := by
  unfold fixEdgeRes
  refine foldl_inv (fun (a : WMap × AState) => a.2.nodeW = st.nodeW ∧ a.2.edgeW = st.edgeW ∧ a.2.visited = st.visited)
    _ ?_ _ ([], st) ⟨rfl, rfl, rfl⟩
  intro a kv ⟨h1, h2, h3⟩
  obtain ⟨g1, g2, g3⟩ := fixMid_frame refID hasRefs r (aget nodeCycle st.nodeW) a kv
  exact ⟨g1.trans h1, g2.trans h2, g3.trans h3⟩

@[simp] theorem fixEdgeStep_nodeW (nodeCycle refID : String) (hasRefs : Bool) (st : AState) (r : ERef) :
    (fixEdgeStep nodeCycle refID hasRefs st r).nodeW = st.nodeW := by
  unfold fixEdgeStep; simp only [addReferentialWildcardsToEdge_nodeW]; exact (fixEdgeRes_frame ..).1
@[simp] theorem fixEdgeStep_visited (nodeCycle refID : String) (hasRefs : Bool) (st : AState) (r : ERef) :
    (fixEdgeStep nodeCycle refID hasRefs st r).visited = st.visited := by
  unfold fixEdgeStep; simp only [addReferentialWildcardsToEdge_visited]; exact (fixEdgeRes_frame ..).2.2
theorem fixEdgeStep_edgeW (nodeCycle refID : String) (hasRefs : Bool) (st : AState) (r : ERef) :
    (fixEdgeStep nodeCycle refID hasRefs st r).edgeW = aset r (fixEdgeRes nodeCycle refID hasRefs st r).1 st.edgeW := by
  unfold fixEdgeStep; simp only [addReferentialWildcardsToEdge_edgeW]; rw [(fixEdgeRes_frame ..).2.1]
theorem fixEdgeStep_deps (nodeCycle refID : String) (hasRefs : Bool) (st : AState) (r : ERef) :
    (fixEdgeStep nodeCycle refID hasRefs st r).deps = (fixEdgeRes nodeCycle refID hasRefs st r).2.deps := by
  unfold fixEdgeStep; simp only [addReferentialWildcardsToEdge_deps]

@[simp] theorem fixNodeStep_edgeW (nodeCycle refID : String) (st : AState) (r : ERef) :
    (fixNodeStep nodeCycle refID st r).edgeW = st.edgeW := by
  unfold fixNodeStep; simp only [addReferentialWildcardsToNode_edgeW]
@[simp] theorem fixNodeStep_visited (nodeCycle refID : String) (st : AState) (r : ERef) :
    (fixNodeStep nodeCycle refID st r).visited = st.visited := by
  unfold fixNodeStep; simp only [addReferentialWildcardsToNode_visited]
@[simp] theorem fixNodeStep_deps (nodeCycle refID : String) (st : AState) (r : ERef) :
    (fixNodeStep nodeCycle refID st r).deps = st.deps := by
  unfold fixNodeStep; simp only [addReferentialWildcardsToNode_deps]
theorem fixNodeStep_nodeW (nodeCycle refID : String) (st : AState) (r : ERef) :
    (fixNodeStep nodeCycle refID st r).nodeW =
      aset r.1 (fixNodeW refID (aget nodeCycle st.nodeW) (aget r.1 st.nodeW)) st.nodeW := by
  unfold fixNodeStep; simp only [addReferentialWildcardsToNode_nodeW]

theorem fixEdges_visited (nodeCycle refID : String) (hasRefs : Bool) (st : AState) :
    (fixDependantEdgesWeight nodeCycle refID hasRefs st).visited = st.visited := by
  rw [fixDependantEdgesWeight_eq]
  exact foldl_inv (fun s => s.visited = st.visited) _ (fun s r h => (fixEdgeStep_visited ..).trans h) _ st rfl

theorem fixEdges_nodeW (nodeCycle refID : String) (hasRefs : Bool) (st : AState) :
    (fixDependantEdgesWeight nodeCycle refID hasRefs st).nodeW = st.nodeW := by
  rw [fixDependantEdgesWeight_eq]
  exact foldl_inv (fun s => s.nodeW = st.nodeW) _ (fun s r h => (fixEdgeStep_nodeW ..).trans h) _ st rfl

theorem fixNodes_visited (nodeCycle refID : String) (st : AState) :
    (fixDependantNodesWeight nodeCycle refID st).visited = st.visited := by
  rw [fixDependantNodesWeight_eq]
  exact foldl_inv (fun s => s.visited = st.visited) _ (fun s r h => (fixNodeStep_visited ..).trans h) _ st rfl

theorem fixNodes_edgeW (nodeCycle refID : String) (st : AState) :
    (fixDependantNodesWeight nodeCycle refID st).edgeW = st.edgeW := by
  rw [fixDependantNodesWeight_eq]
  exact foldl_inv (fun s => s.edgeW = st.edgeW) _ (fun s r h => (fixNodeStep_edgeW ..).trans h) _ st rfl

theorem fixNodes_deps (nodeCycle refID : String) (st : AState) :
    (fixDependantNodesWeight nodeCycle refID st).deps = st.deps := by
  rw [fixDependantNodesWeight_eq]
  exact foldl_inv (fun s => s.deps = st.deps) _ (fun s r h => (fixNodeStep_deps ..).trans h) _ st rfl

theorem cafFinal_visited (g : G) (nodeID : String) (st : AState) : (cafFinal g nodeID st).visited = st.visited := by
  unfold cafFinal
  simp only [fixNodes_visited, fixEdges_visited]

/-! ### the strategies and `fromTheEdges`, as "either the state is unchanged or one node weight is written" -/
theorem maxStrategy_cases (g : G) (nodeID : String) (st : AState) :
    (maxStrategy g nodeID st).2 = st ∨ ∃ w, maxStrategy g nodeID st = (none, { st with nodeW := aset nodeID w st.nodeW }) := by
  unfold maxStrategy; split
  · exact Or.inl rfl
  · exact Or.inr ⟨_, rfl⟩

theorem strategies_visited (g : G) (nodeID : String) (st : AState) :
    (maxStrategy g nodeID st).2.visited = st.visited ∧ (mixedStrategy g nodeID st).2.visited = st.visited ∧
    (enforceTypeStrategy g nodeID st).2.visited = st.visited ∧ (calcAndFix g nodeID st).2.visited = st.visited := by
  refine ⟨?_, ?_, ?_, ?_⟩
  · unfold maxStrategy; split <;> rfl
  · unfold mixedStrategy; split <;> rfl
  · unfold enforceTypeStrategy; split
    · rfl
    · simp only; split <;> rfl
  · rw [calcAndFix_eq]; split
    · rfl
    · split
      · rfl
      · split
        · rfl
        · exact cafFinal_visited g nodeID st

theorem fromTheEdges_visited (g : G) (nodeID : String) (tcs : List String) (st : AState) :
    (fromTheEdges g nodeID tcs st).2.visited = st.visited := by
  obtain ⟨hmax, hmix, henf, hfix⟩ := strategies_visited g nodeID st
  unfold fromTheEdges
  simp only
  split
  · split
    · exact hmax
    · split
      · exact hmax
      · split
        · exact henf
        · split
          · exact hmix
          · rfl
  · split
    · split
      · rename_i e st' heq; rw [heq] at hfix; exact hfix
      · rename_i st' heq; rw [heq] at hfix; exact hfix
    · split
      · exact hmax
      · split
        · split
          · split
            · rename_i e st' heq; rw [heq] at hfix; exact hfix
            · rename_i st' heq; rw [heq] at hfix; exact hfix
          · exact hmax
        · rfl

/-! ### pass 1: the visited list -/
/-- `visited` only grows, stays duplicate free, and gains non-terminal nodes only -/
def VRel (g : G) (st st' : AState) : Prop :=
  (∀ v ∈ st.visited, v ∈ st'.visited) ∧ (st.visited.Nodup → st'.visited.Nodup) ∧
  (∀ v ∈ st'.visited, v ∈ st.visited ∨ isTerminal (nodeType g v) = false)

theorem VRel.of_eq {g : G} {st st' : AState} (h : st'.visited = st.visited) : VRel g st st' :=
  ⟨fun v hv => h ▸ hv, fun hn => h ▸ hn, fun v hv => Or.inl (h ▸ hv)⟩

theorem VRel.refl (g : G) (st : AState) : VRel g st st := VRel.of_eq rfl

theorem VRel.trans {g : G} {a b c : AState} (h1 : VRel g a b) (h2 : VRel g b c) : VRel g a c :=
  ⟨fun v hv => h2.1 v (h1.1 v hv), fun hn => h2.2.1 (h1.2.1 hn), fun v hv => by
    rcases h2.2.2 v hv with h | h
    · exact h1.2.2 v h
    · exact Or.inr h⟩

def RecV (g : G) (rec : String → List WEdge → AState → Res) : Prop :=
  ∀ n path st, VRel g st (rec n path st).2 ∧
    ((rec n path st).1.2 = none → n ∈ (rec n path st).2.visited ∨ isTerminal (nodeType g n) = true)

theorem scan_visited (isTC : Bool) (r : ERef) (toW : WMap) (acc : List String × AState) :
    (toW.foldl (scanStep isTC r) acc).2.visited = acc.2.visited := by
  refine foldl_inv (fun (a : List String × AState) => a.2.visited = acc.2.visited) _ ?_ _ acc rfl
  intro a kv h
  unfold scanStep
  split
  · exact h
  · exact h

theorem addDeps_visited (r : ERef) (tc : List String) (st : AState) :
    (tc.foldl (fun st n => addDep n r st) st).visited = st.visited := by
  refine foldl_inv (fun (s : AState) => s.visited = st.visited) (fun st n => addDep n r st) ?_ tc st rfl
  intro s n h
  exact h

theorem calcEdgeWith_V (g : G) (rec : String → List WEdge → AState → Res) (hrec : RecV g rec) (r : ERef) (e : WEdge)
    (path : List WEdge) (st : AState) : VRel g st (calcEdgeWith rec g r e path st).2 := by
  rw [calcEdgeWith_eq]
  split
  · exact VRel.of_eq rfl
  · have hr := (hrec e.dst (path ++ [e]) st).1
    split
    · rename_i tc err st1 heq; rw [heq] at hr; exact hr
    · rename_i tc st1 heq
      rw [heq] at hr
      split
      · split
        · exact hr.trans (VRel.of_eq rfl)
        · exact hr
      · refine hr.trans (VRel.of_eq ?_)
        simp only [scan_visited]
        split
        · exact addDeps_visited ..
        · rfl

theorem edgeLoop_V (g : G) (rec : String → List WEdge → AState → Res) (hrec : RecV g rec) (nodeID : String)
    (path : List WEdge) : ∀ (es : List (ERef × WEdge)) (tcs : List String) (st : AState),
      VRel g st (edgeLoop rec g nodeID path es tcs st).2
  | [], _, st => VRel.refl g st
  | (r, e) :: rest, tcs, st => by
    unfold edgeLoop
    split
    · exact edgeLoop_V g rec hrec nodeID path rest tcs st
    · simp only
      split
      · refine VRel.trans (VRel.of_eq ?_) (edgeLoop_V g rec hrec nodeID path rest _ _)
        simp only
        split <;> simp
      · have hc := calcEdgeWith_V g rec hrec r e path st
        have h2 : VRel g st (addEdgeWildcardsToNode nodeID r (calculateEdgeWildcards e.dst r (calcEdgeWith rec g r e path st).2)) :=
          hc.trans (VRel.of_eq (by simp))
        split
        · exact h2
        · exact h2.trans (edgeLoop_V g rec hrec nodeID path rest _ _)

theorem calcNode_V : ∀ (fuel : Nat) (g : G), RecV g (calcNode fuel g)
  | 0, g => by
    intro n path st
    refine ⟨VRel.refl g st, ?_⟩
    intro h; simp [calcNode] at h
  | fuel+1, g => by
    intro n path st
    unfold calcNode
    split
    · rename_i hc
      exact ⟨VRel.refl g st, fun _ => Or.inl (List.contains_iff_mem.1 hc)⟩
    · split
      · rename_i ht
        exact ⟨VRel.refl g st, fun _ => Or.inr ht⟩
      · rename_i hc ht
        simp only
        have hn : n ∉ st.visited := fun h => hc (List.contains_iff_mem.2 h)
        have h0 : VRel g st { st with visited := n :: st.visited } :=
          ⟨fun v hv => List.mem_cons_of_mem _ hv, fun hnd => List.nodup_cons.2 ⟨hn, hnd⟩, fun v hv => by
            rcases List.mem_cons.1 hv with rfl | hv
            · exact Or.inr (by simpa using ht)
            · exact Or.inl hv⟩
        have hl := edgeLoop_V g (calcNode fuel g) (calcNode_V fuel g) n path
          ((List.range (edgesOf g n).length).zip (edgesOf g n) |>.map (fun (i, e) => ((n, i), e))) []
          { st with visited := n :: st.visited }
        split
        · rename_i tcs err st' heq
          rw [heq] at hl
          exact ⟨h0.trans hl, fun h => by simp at h⟩
        · rename_i tcs st' heq
          rw [heq] at hl
          have h4 : VRel g st' (fromTheEdges g n tcs st').2 := VRel.of_eq (fromTheEdges_visited g n tcs st')
          exact ⟨(h0.trans hl).trans h4, fun _ => Or.inl (h4.1 n (hl.1 n (List.mem_cons_self ..)))⟩

theorem go_V (g : G) : ∀ (ns : List String) (st st' : AState), assignWeights.go g ns st = .ok st' →
    VRel g st st' ∧ ∀ n ∈ ns, n ∈ st'.visited ∨ isTerminal (nodeType g n) = true
  | [], st, st', heq => by
    simp only [assignWeights.go] at heq
    cases heq; exact ⟨VRel.refl g _, fun n hn => by cases hn⟩
  | n :: ns, st, st', heq => by
    unfold assignWeights.go at heq
    split at heq
    · rename_i hc
      obtain ⟨h1, h2⟩ := go_V g ns st st' heq
      refine ⟨h1, fun m hm => ?_⟩
      rcases List.mem_cons.1 hm with rfl | hm
      · exact Or.inl (h1.1 _ (List.contains_iff_mem.1 hc))
      · exact h2 m hm
    · have hc := calcNode_V (g.nodes.length + 1) g n [] st
      split at heq
      · cases heq
      · rename_i tcs st2 hres
        rw [hres] at hc
        split at heq
        · cases heq
        · obtain ⟨h1, h2⟩ := go_V g ns st2 st' heq
          refine ⟨hc.1.trans h1, fun m hm => ?_⟩
          rcases List.mem_cons.1 hm with rfl | hm
          · rcases hc.2 rfl with h | h
            · exact Or.inl (h1.1 _ h)
            · exact Or.inr h
          · exact h2 m hm

theorem node?_isSome_of_mem (g : G) (n : WNode) (hn : n ∈ g.nodes) : (g.node? n.uniqueLabel).isSome = true := by
  unfold G.node?
  rw [List.find?_isSome]
  exact ⟨n, hn, by simp⟩

/-- **A. every non-terminal node of the graph has been visited**; the visited list has no duplicates and
    contains only non-terminal nodes -/
theorem assignWeights_visited (g : G) (order : List String) (st : AState) (h : assignWeights g order = .ok st) :
    (∀ n ∈ g.nodes, isTerminal (nodeType g n.uniqueLabel) = false → n.uniqueLabel ∈ st.visited) ∧
    st.visited.Nodup ∧ (∀ v ∈ st.visited, isTerminal (nodeType g v) = false) := by
  unfold assignWeights at h
  split at h
  · cases h
  · obtain ⟨h1, h2⟩ := go_V g _ {} st h
    refine ⟨?_, h1.2.1 List.nodup_nil, fun v hv => ?_⟩
    · intro n hn ht
      have hmem : n.uniqueLabel ∈ (order.filter (fun n => (g.node? n).isSome)) ++
          ((g.nodes.map (·.uniqueLabel)).filter (fun n => !order.contains n)) := by
        by_cases ho : n.uniqueLabel ∈ order
        · exact List.mem_append_left _ (List.mem_filter.2 ⟨ho, node?_isSome_of_mem g n hn⟩)
        · refine List.mem_append_right _ (List.mem_filter.2 ⟨List.mem_map.2 ⟨n, hn, rfl⟩, ?_⟩)
          simpa using ho
      rcases h2 _ hmem with h | h
      · exact h
      · rw [ht] at h; cases h
    · rcases h1.2.2 v hv with h | h
      · cases h
      · exact h

/-! ### key-sorted maps -/
def SortedM (w : WMap) : Prop := w.Pairwise (fun a b => a.1 < b.1)

theorem sortedM_nil : SortedM [] := List.Pairwise.nil
theorem sortedM_single (k : String) (v : Nat) : SortedM [(k, v)] := by simp [SortedM]
theorem SortedM.tail {kv : String × Nat} {rest : WMap} (h : SortedM (kv :: rest)) : SortedM rest :=
  (List.pairwise_cons.1 h).2
theorem SortedM.head_lt {kv : String × Nat} {rest : WMap} (h : SortedM (kv :: rest)) : ∀ x ∈ rest, kv.1 < x.1 :=
  (List.pairwise_cons.1 h).1

theorem sortedM_wset (k : String) (v : Nat) : ∀ (w : WMap), SortedM w → SortedM (wset k v w)
  | [], _ => sortedM_single k v
  | (k', v') :: rest, hs => by
    unfold wset
    split
    · rename_i hk
      have : k = k' := by simpa using hk
      subst this
      exact List.pairwise_cons.2 ⟨hs.head_lt, hs.tail⟩
    · split
      · rename_i hlt
        refine List.pairwise_cons.2 ⟨?_, hs⟩
        intro b hb
        rcases List.mem_cons.1 hb with rfl | hb
        · exact hlt
        · exact String.lt_trans hlt (hs.head_lt b hb)
      · rename_i hne hnlt
        refine List.pairwise_cons.2 ⟨?_, sortedM_wset k v rest hs.tail⟩
        intro b hb
        have hgt : k' < k := Decidable.byContradiction (fun hc =>
          (by simpa using hne : k ≠ k') (String.le_antisymm (String.not_lt.1 hc) (String.not_lt.1 hnlt)))
        rcases mem_wset k v rest b hb with h | h
        · rw [h]; exact hgt
        · exact hs.head_lt b h

theorem sortedM_wsetMax (k : String) (v : Nat) (w : WMap) (h : SortedM w) : SortedM (wsetMax k v w) := by
  unfold wsetMax
  split <;> exact sortedM_wset _ _ _ h

theorem sortedM_wdel (k : String) (w : WMap) (h : SortedM w) : SortedM (wdel k w) := by
  unfold wdel
  exact List.Pairwise.filter _ h

theorem sortedM_map (f : Nat → Nat) (w : WMap) (h : SortedM w) : SortedM (w.map (fun (k, v) => (k, f v))) := by
  unfold SortedM
  rw [List.pairwise_map]
  exact h

/-! ### what the strategies write -/
def AllQ (Q : String × Nat → Prop) (w : WMap) : Prop := ∀ p ∈ w, Q p

theorem allQ_nil (Q : String × Nat → Prop) : AllQ Q [] := fun p hp => by cases hp

theorem allQ_wset {Q : String × Nat → Prop} {w : WMap} (k : String) (v : Nat) (h : AllQ Q w) (hq : Q (k, v)) :
    AllQ Q (wset k v w) := fun p hp => by
  rcases mem_wset k v w p hp with rfl | hp
  · exact hq
  · exact h p hp

theorem allQ_wsetMax {Q : String × Nat → Prop} {w : WMap} (hmax : ∀ k a b, Q (k, a) → Q (k, b) → Q (k, Nat.max a b))
    (k : String) (v : Nat) (h : AllQ Q w) (hq : Q (k, v)) : AllQ Q (wsetMax k v w) := fun p hp => by
  rcases mem_wsetMax k v w p hp with rfl | ⟨v0, hv0, rfl⟩ | hp
  · exact hq
  · exact hmax k v0 v (h _ hv0) hq
  · exact h p hp

theorem allQ_wdel {Q : String × Nat → Prop} {w : WMap} (k : String) (h : AllQ Q w) : AllQ Q (wdel k w) :=
  fun p hp => h p (mem_wdel k w p hp).1

/-- closure conditions on a predicate on entries: maximum of two values of a key, and `Infinite` for a key -/
structure QClosed (Q : String × Nat → Prop) : Prop where
  max : ∀ k a b, Q (k, a) → Q (k, b) → Q (k, Nat.max a b)
  inf : ∀ k a, Q (k, a) → Q (k, infinite)

/-- the weight map written by a strategy satisfies every closed predicate its edges' maps satisfy -/
def FromEdgesW (g : G) (nodeID : String) (st : AState) (w : WMap) : Prop :=
  SortedM w ∧ ∀ Q, QClosed Q → (∀ r ∈ edgeRefs g nodeID, AllQ Q (aget r st.edgeW)) → AllQ Q w

theorem maxStrategy_spec (g : G) (nodeID : String) (st : AState) :
    (∃ e, maxStrategy g nodeID st = (some e, st)) ∨
    ∃ w, maxStrategy g nodeID st = (none, { st with nodeW := aset nodeID w st.nodeW }) ∧ FromEdgesW g nodeID st w := by
  unfold maxStrategy
  split
  · exact Or.inl ⟨_, rfl⟩
  · refine Or.inr ⟨_, rfl, ?_, ?_⟩
    · refine foldl_inv SortedM _ ?_ _ _ sortedM_nil
      intro acc r hacc
      refine foldl_inv SortedM _ ?_ _ _ hacc
      intro a p ha
      exact sortedM_wsetMax _ _ _ ha
    intro Q hQ hE
    refine foldl_inv_mem (AllQ Q) _ _ _ ?_ (allQ_nil Q)
    intro acc r hr hacc
    refine foldl_inv_mem (AllQ Q) _ _ _ ?_ hacc
    intro a p hp ha
    exact allQ_wsetMax hQ.max p.1 p.2 ha (hE r hr p hp)

theorem mixedStrategy_spec (g : G) (nodeID : String) (st : AState) :
    (∃ e, mixedStrategy g nodeID st = (some e, st)) ∨
    ∃ w, mixedStrategy g nodeID st = (none, { st with nodeW := aset nodeID w st.nodeW }) ∧ FromEdgesW g nodeID st w := by
  unfold mixedStrategy
  split
  · exact Or.inl ⟨_, rfl⟩
  · refine Or.inr ⟨_, rfl, ?_, ?_⟩
    · refine foldl_inv SortedM _ ?_ _ _ sortedM_nil
      intro acc r hacc
      refine foldl_inv SortedM _ ?_ _ _ hacc
      intro a p ha
      obtain ⟨k, v⟩ := p
      simp only
      split
      · split
        · exact sortedM_wset _ _ _ ha
        · exact ha
      · exact sortedM_wset _ _ _ ha
    intro Q hQ hE
    refine foldl_inv_mem (AllQ Q) _ _ _ ?_ (allQ_nil Q)
    intro acc r hr hacc
    refine foldl_inv_mem (AllQ Q) _ _ _ ?_ hacc
    intro a p hp ha
    obtain ⟨k, v⟩ := p
    simp only
    split
    · split
      · exact allQ_wset k v ha (hE r hr _ hp)
      · exact ha
    · rename_i v0 hv0
      exact allQ_wset k _ ha (hQ.max k v0 v (ha _ (wget_some_mem k a v0 hv0)) (hE r hr _ hp))

theorem enforceTypeStrategy_spec (g : G) (nodeID : String) (st : AState) :
    (∃ e, enforceTypeStrategy g nodeID st = (some e, st)) ∨
    ∃ w, enforceTypeStrategy g nodeID st = (none, { st with nodeW := aset nodeID w st.nodeW }) ∧ FromEdgesW g nodeID st w ∧
      w ≠ [] := by
  unfold enforceTypeStrategy
  split
  · exact Or.inl ⟨_, rfl⟩
  · simp only
    split
    · exact Or.inl ⟨_, rfl⟩
    · rename_i hne
      refine Or.inr ⟨_, rfl, ⟨?_, ?_⟩, ?_⟩
      · refine foldl_inv SortedM _ ?_ _ _ sortedM_nil
        intro acc r hacc
        split
        · refine foldl_inv SortedM _ ?_ _ _ hacc
          intro a p ha
          exact sortedM_wset _ _ _ ha
        · refine foldl_inv SortedM _ ?_ _ _ hacc
          intro a p ha
          obtain ⟨k, v0⟩ := p
          simp only
          split
          · exact sortedM_wdel _ _ ha
          · exact sortedM_wset _ _ _ ha
      · intro Q hQ hE
        refine foldl_inv_mem (AllQ Q) _ _ _ ?_ (allQ_nil Q)
        intro acc r hr hacc
        split
        · refine foldl_inv_mem (AllQ Q) _ _ _ ?_ hacc
          intro a p hp ha
          exact allQ_wset p.1 p.2 ha (hE r hr p hp)
        · refine foldl_inv_mem (AllQ Q) _ _ _ ?_ hacc
          intro a p hp ha
          obtain ⟨k, v0⟩ := p
          simp only
          split
          · exact allQ_wdel k ha
          · rename_i v hv
            exact allQ_wset k _ ha (hQ.max k v0 v (hacc _ hp) (hE r hr _ (wget_some_mem k _ v hv)))
      · intro h; rw [h] at hne; simp at hne

theorem cafRes_fromEdges (g : G) (nodeID : String) (st : AState) :
    FromEdgesW g nodeID st (cafRes g nodeID st).1 ∧ ¬ Keys (cafRes g nodeID st).1 ("R#" ++ nodeID) ∧
    (∀ k, Keys (cafRes g nodeID st).1 k → isPH k = true → (cafRes g nodeID st).2 ≠ []) := by
  unfold cafRes
  refine ⟨⟨?_, ?_⟩, ?_⟩
  · refine foldl_inv (fun (a : WMap × List String) => SortedM a.1) _ ?_ _ _ sortedM_nil
    intro acc r hacc
    refine foldl_inv (fun (a : WMap × List String) => SortedM a.1) _ ?_ _ _ hacc
    intro a p ha
    unfold cafStep
    split
    · exact ha
    · exact sortedM_wset _ _ _ ha
  · intro Q hQ hE
    refine foldl_inv_mem (fun (a : WMap × List String) => AllQ Q a.1) _ _ _ ?_ (allQ_nil Q)
    intro acc r hr hacc
    refine foldl_inv_mem (fun (a : WMap × List String) => AllQ Q a.1) _ _ _ ?_ hacc
    intro a p hp ha
    unfold cafStep
    split
    · exact ha
    · exact allQ_wset p.1 infinite ha (hQ.inf p.1 p.2 (hE r hr p hp))
  · let P : WMap × List String → Prop :=
      fun a => ¬ Keys a.1 ("R#" ++ nodeID) ∧ ∀ k, Keys a.1 k → isPH k = true → a.2 ≠ []
    have key : P ((edgeRefs g nodeID).foldl (fun (acc : WMap × List String) r =>
          (aget r st.edgeW).foldl (cafStep ("R#" ++ nodeID)) acc) ([], [])) := by
      refine foldl_inv P _ ?_ _ _ (show P ([], []) from ⟨keys_nil _, fun k hk => absurd hk (keys_nil k)⟩)
      intro acc r hacc
      refine foldl_inv P _ ?_ _ _ hacc
      intro a p ⟨ha1, ha2⟩
      show P _
      unfold cafStep
      split
      · exact ⟨ha1, ha2⟩
      · rename_i hne
        refine ⟨?_, ?_⟩
        · intro hk
          rcases keys_wset _ _ _ _ hk with h | h
          · simp [← h] at hne
          · exact ha1 h
        · intro k hk hph
          simp only
          rcases keys_wset _ _ _ _ hk with h | h
          · subst h
            rw [show p.1.startsWith "R#" = true from hph]
            simp
          · split
            · simp
            · exact ha2 k h hph
    exact key

/-- the four possible outcomes of `fromTheEdges` -/
theorem fromTheEdges_cases (g : G) (nodeID : String) (tcs : List String) (st : AState) :
    (∃ tc e st', fromTheEdges g nodeID tcs st = ((tc, some e), st')) ∨
    fromTheEdges g nodeID tcs st = ((tcs, none), st) ∨
    (∃ w, fromTheEdges g nodeID tcs st = ((tcs, none), { st with nodeW := aset nodeID w st.nodeW }) ∧
      FromEdgesW g nodeID st w) ∨
    (fromTheEdges g nodeID tcs st = ((tcs.filter (· != nodeID), none), cafFinal g nodeID st) ∧
      (cafRes g nodeID st).1 ≠ []) := by
  have hmax := maxStrategy_spec g nodeID st
  have hmix := mixedStrategy_spec g nodeID st
  have henf := enforceTypeStrategy_spec g nodeID st
  have hmaxC : ∀ (tcs : List String), (∃ tc e st', ((tcs, (maxStrategy g nodeID st).1), (maxStrategy g nodeID st).2) = ((tc, some e), st')) ∨
      ((tcs, (maxStrategy g nodeID st).1), (maxStrategy g nodeID st).2) = ((tcs, none), st) ∨
      (∃ w, ((tcs, (maxStrategy g nodeID st).1), (maxStrategy g nodeID st).2) = ((tcs, none), { st with nodeW := aset nodeID w st.nodeW }) ∧
        FromEdgesW g nodeID st w) ∨
      (((tcs, (maxStrategy g nodeID st).1), (maxStrategy g nodeID st).2) = ((tcs.filter (· != nodeID), none), cafFinal g nodeID st) ∧
        (cafRes g nodeID st).1 ≠ []) := by
    intro tcs
    rcases hmax with ⟨e, he⟩ | ⟨w, hw, hf⟩
    · rw [he]; exact Or.inl ⟨_, _, _, rfl⟩
    · rw [hw]; exact Or.inr (Or.inr (Or.inl ⟨w, rfl, hf⟩))
  have hcafC : (∃ e, calcAndFix g nodeID st = (some e, st)) ∨
      (calcAndFix g nodeID st = (none, cafFinal g nodeID st) ∧ (cafRes g nodeID st).1 ≠ []) := by
    rw [calcAndFix_eq]
    split
    · exact Or.inl ⟨_, rfl⟩
    · split
      · exact Or.inl ⟨_, rfl⟩
      · split
        · exact Or.inl ⟨_, rfl⟩
        · rename_i hne
          refine Or.inr ⟨rfl, ?_⟩
          intro h; rw [h] at hne; simp at hne
  have hcaf : (∃ tc e st', (match calcAndFix g nodeID st with
        | (some e, st) => ((tcs, some e), st)
        | (none, st) => ((tcs.filter (· != nodeID), none), st)) = ((tc, some e), st')) ∨
      ((match calcAndFix g nodeID st with
        | (some e, st) => ((tcs, some e), st)
        | (none, st) => ((tcs.filter (· != nodeID), none), st)) = ((tcs.filter (· != nodeID), none), cafFinal g nodeID st) ∧
        (cafRes g nodeID st).1 ≠ []) := by
    rcases hcafC with ⟨e, he⟩ | ⟨he, hne⟩
    · rw [he]; exact Or.inl ⟨_, _, _, rfl⟩
    · rw [he]; exact Or.inr ⟨rfl, hne⟩
  unfold fromTheEdges
  simp only
  split
  · split
    · exact hmaxC tcs
    · split
      · exact hmaxC tcs
      · split
        · rcases henf with ⟨e, he⟩ | ⟨w, hw, hf, _⟩
          · rw [he]; exact Or.inl ⟨_, _, _, rfl⟩
          · rw [hw]; exact Or.inr (Or.inr (Or.inl ⟨w, rfl, hf⟩))
        · split
          · rcases hmix with ⟨e, he⟩ | ⟨w, hw, hf⟩
            · rw [he]; exact Or.inl ⟨_, _, _, rfl⟩
            · rw [hw]; exact Or.inr (Or.inr (Or.inl ⟨w, rfl, hf⟩))
          · exact Or.inr (Or.inl rfl)
  · split
    · rcases hcaf with h | h
      · exact Or.inl h
      · exact Or.inr (Or.inr (Or.inr h))
    · split
      · exact hmaxC tcs
      · split
        · split
          · rcases hcaf with h | h
            · exact Or.inl h
            · exact Or.inr (Or.inr (Or.inr h))
          · exact hmaxC tcs
        · exact Or.inl ⟨_, _, _, rfl⟩

/-! ### the dependency fix-ups in detail -/
theorem foldl_mem_post {σ β : Type} (R : β → σ → Prop) (f : σ → β → σ) (hstep : ∀ s x, R x (f s x))
    (hpres : ∀ s x y, R y s → R y (f s x)) : ∀ (l : List β) (s : σ), ∀ x ∈ l, R x (l.foldl f s)
  | [], _, x, hx => by cases hx
  | y :: ys, s, x, hx => by
    rcases List.mem_cons.1 hx with rfl | hx
    · exact foldl_inv (R x) f (fun s z h => hpres s z x h) ys (f s x) (hstep s x)
    · exact foldl_mem_post R f hstep hpres ys (f s y) x hx

/-- the state component of an accumulator only gains dependencies of `r`, on nodes named by placeholder keys of `W` -/
structure DepsGrow (W : WMap) (r : ERef) (s s' : AState) : Prop where
  mono : ∀ m r', r' ∈ aget m s.deps → r' ∈ aget m s'.deps
  new : ∀ m r', r' ∈ aget m s'.deps → r' ∈ aget m s.deps ∨ (r' = r ∧ ∃ k, Keys W k ∧ isPH k = true ∧ m = phNode k)
  ent : ∀ p ∈ s'.deps, (∃ q ∈ s.deps, q.1 = p.1) ∨ ∃ k, Keys W k ∧ isPH k = true ∧ p.1 = phNode k

theorem DepsGrow.refl (W : WMap) (r : ERef) (s : AState) : DepsGrow W r s s :=
  ⟨fun _ _ h => h, fun _ _ h => Or.inl h, fun p hp => Or.inl ⟨p, hp, rfl⟩⟩

theorem DepsGrow.trans {W : WMap} {r : ERef} {a b c : AState} (h1 : DepsGrow W r a b) (h2 : DepsGrow W r b c) :
    DepsGrow W r a c :=
  ⟨fun m r' h => h2.mono m r' (h1.mono m r' h), fun m r' h => by
    rcases h2.new m r' h with h | h
    · exact h1.new m r' h
    · exact Or.inr h, fun p hp => by
    rcases h2.ent p hp with ⟨q, hq, he⟩ | h
    · rcases h1.ent q hq with ⟨q', hq', he'⟩ | ⟨k, hk⟩
      · exact Or.inl ⟨q', hq', he'.trans he⟩
      · exact Or.inr ⟨k, hk.1, hk.2.1, he ▸ hk.2.2⟩
    · exact Or.inr h⟩

theorem DepsGrow.addDep {W : WMap} (r : ERef) (s : AState) (k : String) (hk : Keys W k) (hph : isPH k = true) :
    DepsGrow W r s (addDep (phNode k) r s) :=
  ⟨fun m r' h => (mem_addDep _ _ _ _ _).2 (Or.inl h), fun m r' h => by
    rcases (mem_addDep _ _ _ _ _).1 h with h | ⟨h1, h2⟩
    · exact Or.inl h
    · exact Or.inr ⟨h2, k, hk, hph, h1⟩, fun p hp => by
    rw [addDep_deps] at hp
    rcases mem_aset _ _ _ _ hp with rfl | hp
    · exact Or.inr ⟨k, hk, hph, rfl⟩
    · exact Or.inl ⟨p, hp, rfl⟩⟩

section edgeStep
variable (nodeCycle refID : String) (hasRefs : Bool) (r : ERef) (W old : WMap)

/-- invariant of the two nested loops that rebuild one edge's weights -/
structure EdgeAcc (s0 : AState) (acc : WMap × AState) : Prop where
  grow : DepsGrow W r s0 acc.2
  upper : ∀ k, Keys acc.1 k → (Keys old k ∧ k ≠ refID) ∨ (Keys old refID ∧ Keys W k)
  dep : ∀ k, Keys acc.1 k → isPH k = true → (Keys old k ∧ k ≠ refID) ∨ r ∈ aget (phNode k) acc.2.deps

theorem fixInner_acc (s0 : AState) (hW : ∀ k, Keys W k → isPH k = true → hasRefs = true) (hold : Keys old refID)
    (acc : WMap × AState) (kv2 : String × Nat) (hkv : kv2 ∈ W) (h : EdgeAcc refID r W old s0 acc) :
    EdgeAcc refID r W old s0 (fixInner hasRefs r acc kv2) := by
  have hk2 : Keys W kv2.1 := ⟨kv2.2, hkv⟩
  unfold fixInner
  split
  · by_cases hc : (hasRefs && kv2.1.startsWith "R#") = true
    · simp only [hc, if_true]
      have hph : isPH kv2.1 = true := by
        simp only [Bool.and_eq_true] at hc; exact hc.2
      have hg := DepsGrow.addDep (W := W) r acc.2 kv2.1 hk2 hph
      refine ⟨h.grow.trans hg, ?_, ?_⟩
      · intro k hk
        rcases keys_wset _ _ _ _ hk with rfl | hk
        · exact Or.inr ⟨hold, hk2⟩
        · exact h.upper k hk
      · intro k hk hp
        rcases keys_wset _ _ _ _ hk with rfl | hk
        · exact Or.inr ((mem_addDep _ _ _ _ _).2 (Or.inr ⟨rfl, rfl⟩))
        · rcases h.dep k hk hp with h1 | h1
          · exact Or.inl h1
          · exact Or.inr (hg.mono _ _ h1)
    · simp only [hc, if_false]
      refine ⟨h.grow, ?_, ?_⟩
      · intro k hk
        rcases keys_wset _ _ _ _ hk with rfl | hk
        · exact Or.inr ⟨hold, hk2⟩
        · exact h.upper k hk
      · intro k hk hp
        rcases keys_wset _ _ _ _ hk with rfl | hk
        · exfalso
          have := hW _ hk2 hp
          rw [this, show kv2.1.startsWith "R#" = true from hp] at hc
          simp at hc
        · exact h.dep k hk hp
  · rename_i v0 hv0
    have hex : Keys acc.1 kv2.1 := ⟨v0, wget_some_mem _ _ _ hv0⟩
    refine ⟨h.grow, ?_, ?_⟩
    · intro k hk
      rcases keys_wset _ _ _ _ hk with rfl | hk
      · exact Or.inr ⟨hold, hk2⟩
      · exact h.upper k hk
    · intro k hk hp
      rcases keys_wset _ _ _ _ hk with rfl | hk
      · exact h.dep _ hex hp
      · exact h.dep k hk hp

theorem fixMid_acc (s0 : AState) (hW : ∀ k, Keys W k → isPH k = true → hasRefs = true)
    (acc : WMap × AState) (kv : String × Nat) (hkv : kv ∈ old) (h : EdgeAcc refID r W old s0 acc) :
    EdgeAcc refID r W old s0 (fixMid refID hasRefs r W acc kv) := by
  unfold fixMid
  split
  · rename_i he
    have e : kv.1 = refID := by simpa using he
    have hold : Keys old refID := ⟨kv.2, e ▸ hkv⟩
    exact foldl_inv_mem (EdgeAcc refID r W old s0) _ _ _
      (fun a kv2 hkv2 ha => fixInner_acc refID hasRefs r W old s0 hW hold a kv2 hkv2 ha) h
  · rename_i he
    have e : kv.1 ≠ refID := by simpa using he
    refine ⟨h.grow, ?_, ?_⟩
    · intro k hk
      rcases keys_wsetMax _ _ _ _ hk with rfl | hk
      · exact Or.inl ⟨⟨kv.2, hkv⟩, e⟩
      · exact h.upper k hk
    · intro k hk hp
      rcases keys_wsetMax _ _ _ _ hk with rfl | hk
      · exact Or.inl ⟨⟨kv.2, hkv⟩, e⟩
      · exact h.dep k hk hp

theorem fixInner_keys_mono (acc : WMap × AState) (kv2 : String × Nat) (k : String) (h : Keys acc.1 k) :
    Keys (fixInner hasRefs r acc kv2).1 k := by
  unfold fixInner
  split <;> exact keys_wset_of _ _ _ _ h

theorem fixInner_keys_self (acc : WMap × AState) (kv2 : String × Nat) : Keys (fixInner hasRefs r acc kv2).1 kv2.1 := by
  unfold fixInner
  split <;> exact ⟨_, wset_self ..⟩

theorem fixMid_keys_mono (acc : WMap × AState) (kv : String × Nat) (k : String) (h : Keys acc.1 k) :
    Keys (fixMid refID hasRefs r W acc kv).1 k := by
  unfold fixMid
  split
  · exact foldl_inv (fun (a : WMap × AState) => Keys a.1 k) _ (fun a kv2 ha => fixInner_keys_mono hasRefs r a kv2 k ha) _ _ h
  · exact keys_wsetMax_of _ _ _ _ h

theorem fixMid_keys_lower (acc : WMap × AState) (kv : String × Nat) :
    (kv.1 ≠ refID → Keys (fixMid refID hasRefs r W acc kv).1 kv.1) ∧
    (kv.1 = refID → ∀ k, Keys W k → Keys (fixMid refID hasRefs r W acc kv).1 k) := by
  unfold fixMid
  split
  · rename_i he
    have e : kv.1 = refID := by simpa using he
    refine ⟨fun h => absurd e h, fun _ k ⟨v, hv⟩ => ?_⟩
    exact foldl_mem_post (fun (kv2 : String × Nat) (a : WMap × AState) => Keys a.1 kv2.1) (fixInner hasRefs r)
      (fun a kv2 => fixInner_keys_self hasRefs r a kv2)
      (fun a kv2 y hy => fixInner_keys_mono hasRefs r a kv2 y.1 hy) W acc (k, v) hv
  · rename_i he
    have e : kv.1 ≠ refID := by simpa using he
    exact ⟨fun _ => keys_wsetMax_self .., fun h => absurd h e⟩

end edgeStep

/-- what one step of `fixDependantEdgesWeight` does -/
theorem fixEdgeRes_spec (nodeCycle refID : String) (hasRefs : Bool) (s : AState) (r : ERef)
    (hW : ∀ k, Keys (aget nodeCycle s.nodeW) k → isPH k = true → hasRefs = true) :
    EdgeAcc refID r (aget nodeCycle s.nodeW) (aget r s.edgeW) s (fixEdgeRes nodeCycle refID hasRefs s r) ∧
    (∀ k, Keys (aget r s.edgeW) k → k ≠ refID → Keys (fixEdgeRes nodeCycle refID hasRefs s r).1 k) ∧
    (Keys (aget r s.edgeW) refID → ∀ k, Keys (aget nodeCycle s.nodeW) k → Keys (fixEdgeRes nodeCycle refID hasRefs s r).1 k) := by
  refine ⟨?_, ?_, ?_⟩
  · unfold fixEdgeRes
    refine foldl_inv_mem (EdgeAcc refID r (aget nodeCycle s.nodeW) (aget r s.edgeW) s) _ _ _
      (fun a kv hkv ha => fixMid_acc refID hasRefs r _ _ s hW a kv hkv ha) ?_
    exact ⟨DepsGrow.refl _ _ _, fun k hk => absurd hk (keys_nil k), fun k hk => absurd hk (keys_nil k)⟩
  · intro k ⟨v, hv⟩ hne
    have := foldl_mem_post (fun (kv : String × Nat) (a : WMap × AState) =>
        (kv.1 ≠ refID → Keys a.1 kv.1) ∧ (kv.1 = refID → ∀ k, Keys (aget nodeCycle s.nodeW) k → Keys a.1 k))
      (fixMid refID hasRefs r (aget nodeCycle s.nodeW))
      (fun a kv => fixMid_keys_lower refID hasRefs r _ a kv)
      (fun a kv y hy => ⟨fun h => fixMid_keys_mono refID hasRefs r _ a kv _ (hy.1 h),
        fun h k hk => fixMid_keys_mono refID hasRefs r _ a kv _ (hy.2 h k hk)⟩)
      (aget r s.edgeW) ([], s) (k, v) hv
    exact this.1 hne
  · intro ⟨v, hv⟩ k hk
    have := foldl_mem_post (fun (kv : String × Nat) (a : WMap × AState) =>
        (kv.1 ≠ refID → Keys a.1 kv.1) ∧ (kv.1 = refID → ∀ k, Keys (aget nodeCycle s.nodeW) k → Keys a.1 k))
      (fixMid refID hasRefs r (aget nodeCycle s.nodeW))
      (fun a kv => fixMid_keys_lower refID hasRefs r _ a kv)
      (fun a kv y hy => ⟨fun h => fixMid_keys_mono refID hasRefs r _ a kv _ (hy.1 h),
        fun h k hk => fixMid_keys_mono refID hasRefs r _ a kv _ (hy.2 h k hk)⟩)
      (aget r s.edgeW) ([], s) (refID, v) hv
    exact this.2 rfl k hk

structure EdgeFix (refID : String) (W : WMap) (D : List ERef) (s s' : AState) : Prop where
  nodeW : s'.nodeW = s.nodeW
  visited : s'.visited = s.visited
  mono : ∀ m r', r' ∈ aget m s.deps → r' ∈ aget m s'.deps
  new : ∀ m r', r' ∈ aget m s'.deps → r' ∈ aget m s.deps ∨ (r' ∈ D ∧ ∃ k, Keys W k ∧ isPH k = true ∧ m = phNode k)
  ent : ∀ p ∈ s'.deps, (∃ q ∈ s.deps, q.1 = p.1) ∨ ∃ k, Keys W k ∧ isPH k = true ∧ p.1 = phNode k
  upper : ∀ r' k, Keys (aget r' s'.edgeW) k → Keys (aget r' s.edgeW) k ∨ (Keys (aget r' s.edgeW) refID ∧ r' ∈ D ∧ Keys W k)
  gone : ∀ r' ∈ D, ¬ Keys (aget r' s'.edgeW) refID
  dep : ∀ r' k, Keys (aget r' s'.edgeW) k → isPH k = true → Keys (aget r' s.edgeW) k ∨ r' ∈ aget (phNode k) s'.deps
  lower : ∀ r' k, Keys (aget r' s.edgeW) k → k ≠ refID → Keys (aget r' s'.edgeW) k
  lowerW : ∀ r' ∈ D, Keys (aget r' s.edgeW) refID → ∀ k, Keys W k → Keys (aget r' s'.edgeW) k
  other : ∀ r', r' ∉ D → aget r' s'.edgeW = aget r' s.edgeW

theorem EdgeFix.nil (refID : String) (W : WMap) (s : AState) : EdgeFix refID W [] s s :=
  ⟨rfl, rfl, fun _ _ h => h, fun _ _ h => Or.inl h, fun p hp => Or.inl ⟨p, hp, rfl⟩, fun _ _ h => Or.inl h,
    fun _ h => (by cases h), fun _ _ h _ => Or.inl h, fun _ _ h _ => h, fun _ h => (by cases h), fun _ _ => rfl⟩

theorem edgeFix_step (nodeCycle refID : String) (hasRefs : Bool) (s : AState) (r : ERef)
    (hWref : ¬ Keys (aget nodeCycle s.nodeW) refID)
    (hW : ∀ k, Keys (aget nodeCycle s.nodeW) k → isPH k = true → hasRefs = true) :
    EdgeFix refID (aget nodeCycle s.nodeW) [r] s (fixEdgeStep nodeCycle refID hasRefs s r) := by
  obtain ⟨hacc, hlow, hlowW⟩ := fixEdgeRes_spec nodeCycle refID hasRefs s r hW
  have hE := fixEdgeStep_edgeW nodeCycle refID hasRefs s r
  have hD := fixEdgeStep_deps nodeCycle refID hasRefs s r
  have hself : aget r (fixEdgeStep nodeCycle refID hasRefs s r).edgeW = (fixEdgeRes nodeCycle refID hasRefs s r).1 := by
    rw [hE, aget_aset_self]
  have hne : ∀ r', r' ≠ r → aget r' (fixEdgeStep nodeCycle refID hasRefs s r).edgeW = aget r' s.edgeW := by
    intro r' h; rw [hE, aget_aset_ne _ _ _ h]
  refine ⟨fixEdgeStep_nodeW .., fixEdgeStep_visited .., ?_, ?_, ?_, ?_, ?_, ?_, ?_, ?_, ?_⟩
  · intro m r' h; rw [hD]; exact hacc.grow.mono m r' h
  · intro m r' h
    rw [hD] at h
    rcases hacc.grow.new m r' h with h | ⟨h1, h2⟩
    · exact Or.inl h
    · exact Or.inr ⟨by simp [h1], h2⟩
  · intro p hp; rw [hD] at hp; exact hacc.grow.ent p hp
  · intro r' k hk
    by_cases e : r' = r
    · subst e
      rw [hself] at hk
      rcases hacc.upper k hk with h | h
      · exact Or.inl h.1
      · exact Or.inr ⟨h.1, by simp, h.2⟩
    · rw [hne r' e] at hk; exact Or.inl hk
  · intro r' hr' hk
    have e : r' = r := by simpa using hr'
    subst e
    rw [hself] at hk
    rcases hacc.upper _ hk with h | h
    · exact h.2 rfl
    · exact hWref h.2
  · intro r' k hk hp
    by_cases e : r' = r
    · subst e
      rw [hself] at hk
      rcases hacc.dep k hk hp with h | h
      · exact Or.inl h.1
      · exact Or.inr (hD ▸ h)
    · rw [hne r' e] at hk; exact Or.inl hk
  · intro r' k hk hne'
    by_cases e : r' = r
    · subst e; rw [hself]; exact hlow k hk hne'
    · rw [hne r' e]; exact hk
  · intro r' hr' hk k hkW
    have e : r' = r := by simpa using hr'
    subst e
    rw [hself]; exact hlowW hk k hkW
  · intro r' hr'
    exact hne r' (by simpa using hr')

theorem EdgeFix.cons {refID : String} {W : WMap} {r : ERef} {D : List ERef} {s s1 s' : AState} (hWref : ¬ Keys W refID)
    (h1 : EdgeFix refID W [r] s s1) (h2 : EdgeFix refID W D s1 s') : EdgeFix refID W (r :: D) s s' := by
  have stay : ∀ r', Keys (aget r' s1.edgeW) refID → Keys (aget r' s.edgeW) refID := by
    intro r' h
    rcases h1.upper r' refID h with h | h
    · exact h
    · exact absurd h.2.2 hWref
  refine ⟨h2.nodeW.trans h1.nodeW, h2.visited.trans h1.visited, fun m r' h => h2.mono m r' (h1.mono m r' h), ?_, ?_, ?_, ?_, ?_,
    ?_, ?_, ?_⟩
  · intro m r' h
    rcases h2.new m r' h with h | ⟨h, hk⟩
    · rcases h1.new m r' h with h | ⟨h, hk⟩
      · exact Or.inl h
      · exact Or.inr ⟨by simp at h; simp [h], hk⟩
    · exact Or.inr ⟨List.mem_cons_of_mem _ h, hk⟩
  · intro p hp
    rcases h2.ent p hp with ⟨q, hq, he⟩ | h
    · rcases h1.ent q hq with ⟨q', hq', he'⟩ | ⟨k, hk⟩
      · exact Or.inl ⟨q', hq', he'.trans he⟩
      · exact Or.inr ⟨k, hk.1, hk.2.1, he ▸ hk.2.2⟩
    · exact Or.inr h
  · intro r' k hk
    rcases h2.upper r' k hk with h | ⟨ha, hb, hc⟩
    · rcases h1.upper r' k h with h | ⟨ha, hb, hc⟩
      · exact Or.inl h
      · exact Or.inr ⟨ha, by simp at hb; simp [hb], hc⟩
    · exact Or.inr ⟨stay r' ha, List.mem_cons_of_mem _ hb, hc⟩
  · intro r' hr' hk
    rcases List.mem_cons.1 hr' with e | hr'
    · subst e
      rcases h2.upper _ _ hk with h | h
      · exact h1.gone _ (by simp) h
      · exact hWref h.2.2
    · exact h2.gone r' hr' hk
  · intro r' k hk hp
    rcases h2.dep r' k hk hp with h | h
    · rcases h1.dep r' k h hp with h | h
      · exact Or.inl h
      · exact Or.inr (h2.mono _ _ h)
    · exact Or.inr h
  · intro r' k hk hne
    exact h2.lower r' k (h1.lower r' k hk hne) hne
  · intro r' hr' hk k hkW
    have hkne : k ≠ refID := fun e => hWref (e ▸ hkW)
    by_cases e : r' = r
    · subst e
      exact h2.lower _ k (h1.lowerW _ (by simp) hk k hkW) hkne
    · rcases List.mem_cons.1 hr' with e' | hr'
      · exact absurd e' e
      · have : aget r' s1.edgeW = aget r' s.edgeW := h1.other r' (by simpa using e)
        exact h2.lowerW r' hr' (this ▸ hk) k hkW
  · intro r' hr'
    have h1' : r' ∉ [r] := by
      intro h; exact hr' (by simp at h; simp [h])
    have h2' : r' ∉ D := fun h => hr' (List.mem_cons_of_mem _ h)
    rw [h2.other r' h2', h1.other r' h1']

theorem edgeFix_fold (nodeCycle refID : String) (hasRefs : Bool) (W : WMap) (hWref : ¬ Keys W refID)
    (hW : ∀ k, Keys W k → isPH k = true → hasRefs = true) :
    ∀ (D : List ERef) (s : AState), aget nodeCycle s.nodeW = W →
      EdgeFix refID W D s (D.foldl (fixEdgeStep nodeCycle refID hasRefs) s)
  | [], s, _ => EdgeFix.nil refID W s
  | r :: D, s, hs => by
    have h1 := edgeFix_step nodeCycle refID hasRefs s r (hs ▸ hWref) (hs ▸ hW)
    rw [hs] at h1
    have h2 := edgeFix_fold nodeCycle refID hasRefs W hWref hW D (fixEdgeStep nodeCycle refID hasRefs s r)
      (by rw [fixEdgeStep_nodeW]; exact hs)
    exact EdgeFix.cons hWref h1 h2

/-! the node side -/
theorem fixNodeW_upper (refID : String) (Wn old : WMap) (k : String) (hk : Keys (fixNodeW refID Wn old) k) :
    (Keys old k ∧ k ≠ refID) ∨ (Keys old refID ∧ Keys Wn k) := by
  unfold fixNodeW at hk
  revert k
  refine foldl_inv_mem (fun (acc : WMap) => ∀ k, Keys acc k → (Keys old k ∧ k ≠ refID) ∨ (Keys old refID ∧ Keys Wn k)) _ _ _
    ?_ (fun k hk => absurd hk (keys_nil k))
  intro acc kv hkv hacc
  split
  · rename_i he
    have e : kv.1 = refID := by simpa using he
    refine foldl_inv_mem (fun (a : WMap) => ∀ k, Keys a k → (Keys old k ∧ k ≠ refID) ∨ (Keys old refID ∧ Keys Wn k)) _ _ _
      ?_ hacc
    intro a p hp ha k hk
    rcases keys_wsetMax _ _ _ _ hk with rfl | hk
    · exact Or.inr ⟨⟨kv.2, e ▸ hkv⟩, ⟨p.2, hp⟩⟩
    · exact ha k hk
  · rename_i he
    have e : kv.1 ≠ refID := by simpa using he
    intro k hk
    rcases keys_wsetMax _ _ _ _ hk with rfl | hk
    · exact Or.inl ⟨⟨kv.2, hkv⟩, e⟩
    · exact hacc k hk

structure NodeFix (refID : String) (W : WMap) (D : List ERef) (s s' : AState) : Prop where
  edgeW : s'.edgeW = s.edgeW
  visited : s'.visited = s.visited
  deps : s'.deps = s.deps
  upper : ∀ N k, Keys (aget N s'.nodeW) k →
    Keys (aget N s.nodeW) k ∨ (Keys (aget N s.nodeW) refID ∧ (∃ r ∈ D, r.1 = N) ∧ Keys W k)
  gone : ∀ r ∈ D, ¬ Keys (aget r.1 s'.nodeW) refID

theorem nodeFix_fold (nodeCycle refID : String) (W : WMap) (hWref : ¬ Keys W refID) :
    ∀ (D : List ERef) (s : AState), (∀ k, Keys (aget nodeCycle s.nodeW) k → Keys W k) →
      NodeFix refID W D s (D.foldl (fixNodeStep nodeCycle refID) s)
  | [], s, _ => ⟨rfl, rfl, rfl, fun _ _ h => Or.inl h, fun _ h => (by cases h)⟩
  | r :: D, s, hs => by
    have hN := fixNodeStep_nodeW nodeCycle refID s r
    have hself : aget r.1 (fixNodeStep nodeCycle refID s r).nodeW =
        fixNodeW refID (aget nodeCycle s.nodeW) (aget r.1 s.nodeW) := by rw [hN, aget_aset_self]
    have hne : ∀ N, N ≠ r.1 → aget N (fixNodeStep nodeCycle refID s r).nodeW = aget N s.nodeW := by
      intro N h; rw [hN, aget_aset_ne _ _ _ h]
    -- one step
    have up1 : ∀ N k, Keys (aget N (fixNodeStep nodeCycle refID s r).nodeW) k →
        Keys (aget N s.nodeW) k ∨ (Keys (aget N s.nodeW) refID ∧ N = r.1 ∧ Keys W k) := by
      intro N k hk
      by_cases e : N = r.1
      · subst e
        rw [hself] at hk
        rcases fixNodeW_upper _ _ _ _ hk with h | h
        · exact Or.inl h.1
        · exact Or.inr ⟨h.1, rfl, hs k h.2⟩
      · rw [hne N e] at hk; exact Or.inl hk
    have hs1 : ∀ k, Keys (aget nodeCycle (fixNodeStep nodeCycle refID s r).nodeW) k → Keys W k := by
      intro k hk
      rcases up1 nodeCycle k hk with h | h
      · exact hs k h
      · exact h.2.2
    have ih := nodeFix_fold nodeCycle refID W hWref D (fixNodeStep nodeCycle refID s r) hs1
    have stay : ∀ N, Keys (aget N (fixNodeStep nodeCycle refID s r).nodeW) refID → Keys (aget N s.nodeW) refID := by
      intro N h
      rcases up1 N refID h with h | h
      · exact h
      · exact absurd h.2.2 hWref
    refine ⟨ih.edgeW.trans (fixNodeStep_edgeW ..), ih.visited.trans (fixNodeStep_visited ..),
      ih.deps.trans (fixNodeStep_deps ..), ?_, ?_⟩
    · intro N k hk
      rcases ih.upper N k hk with h | ⟨ha, ⟨r', hr', he⟩, hc⟩
      · rcases up1 N k h with h | ⟨ha, hb, hc⟩
        · exact Or.inl h
        · exact Or.inr ⟨ha, ⟨r, List.mem_cons_self .., hb.symm⟩, hc⟩
      · exact Or.inr ⟨stay N ha, ⟨r', List.mem_cons_of_mem _ hr', he⟩, hc⟩
    · intro r' hr' hk
      rcases List.mem_cons.1 hr' with e | hr'
      · subst e
        rcases ih.upper _ _ hk with h | h
        · rw [hself] at h
          rcases fixNodeW_upper _ _ _ _ h with h | h
          · exact h.2 rfl
          · exact hWref (hs _ h.2)
        · exact hWref h.2.2
      · exact ih.gone r' hr' hk

/-! ### pass 2: placeholders -/
/-- Every placeholder key of an edge is recorded as a dependency of the node it names; a placeholder key of
    a node comes from one of the node's own edges; weights and dependencies exist for visited nodes only. -/
structure Inv2 (st : AState) : Prop where
  i1 : ∀ r k, Keys (aget r st.edgeW) k → isPH k = true → r ∈ aget (phNode k) st.deps
  i3 : ∀ N k, Keys (aget N st.nodeW) k → isPH k = true → ∃ r : ERef, r.1 = N ∧ Keys (aget r st.edgeW) k
  v1 : ∀ r : ERef, aget r st.edgeW ≠ [] → r.1 ∈ st.visited
  v2 : ∀ N, aget N st.nodeW ≠ [] → N ∈ st.visited
  v3 : ∀ m (r : ERef), r ∈ aget m st.deps → r.1 ∈ st.visited

/-- A step returning the list `tc` of unresolved cycle references: every placeholder key (and dependency entry)
    that is new names a node of `tc`; `visited` grows; the empty edges of nodes visited before (other than
    those of `ex`) stay empty. -/
structure Rel2 (ex : List String) (st st' : AState) (tc : List String) : Prop where
  ce : ∀ r k, Keys (aget r st'.edgeW) k → isPH k = true → Keys (aget r st.edgeW) k ∨ phNode k ∈ tc
  cn : ∀ N k, Keys (aget N st'.nodeW) k → isPH k = true → Keys (aget N st.nodeW) k ∨ phNode k ∈ tc
  cd : ∀ p ∈ st'.deps, (∃ q ∈ st.deps, q.1 = p.1) ∨ p.1 ∈ tc
  vm : ∀ v ∈ st.visited, v ∈ st'.visited
  ee : ∀ r : ERef, r.1 ∈ st.visited → r.1 ∉ ex → aget r st.edgeW = [] → aget r st'.edgeW = []

theorem Rel2.refl (ex : List String) (st : AState) (tc : List String) : Rel2 ex st st tc :=
  ⟨fun _ _ h _ => Or.inl h, fun _ _ h _ => Or.inl h, fun p hp => Or.inl ⟨p, hp, rfl⟩, fun _ h => h, fun _ _ _ h => h⟩

theorem Rel2.trans {ex : List String} {a b c : AState} {t1 t2 t : List String} (h1 : Rel2 ex a b t1) (h2 : Rel2 ex b c t2)
    (s1 : ∀ x ∈ t1, x ∈ t) (s2 : ∀ x ∈ t2, x ∈ t) : Rel2 ex a c t := by
  refine ⟨?_, ?_, ?_, fun v hv => h2.vm v (h1.vm v hv), fun r hr hx he => h2.ee r (h1.vm _ hr) hx (h1.ee r hr hx he)⟩
  · intro r k hk hp
    rcases h2.ce r k hk hp with h | h
    · rcases h1.ce r k h hp with h | h
      · exact Or.inl h
      · exact Or.inr (s1 _ h)
    · exact Or.inr (s2 _ h)
  · intro N k hk hp
    rcases h2.cn N k hk hp with h | h
    · rcases h1.cn N k h hp with h | h
      · exact Or.inl h
      · exact Or.inr (s1 _ h)
    · exact Or.inr (s2 _ h)
  · intro p hp
    rcases h2.cd p hp with ⟨q, hq, he⟩ | h
    · rcases h1.cd q hq with ⟨q', hq', he'⟩ | h
      · exact Or.inl ⟨q', hq', he'.trans he⟩
      · exact Or.inr (s1 _ (he ▸ h))
    · exact Or.inr (s2 _ h)

theorem Rel2.weaken {ex ex' : List String} {a b : AState} {t t' : List String} (h : Rel2 ex a b t)
    (hs : ∀ x ∈ t, x ∈ t') (hex : ∀ x ∈ ex, x ∈ ex') : Rel2 ex' a b t' :=
  ⟨fun r k hk hp => (h.ce r k hk hp).imp id (hs _), fun N k hk hp => (h.cn N k hk hp).imp id (hs _),
    fun p hp => (h.cd p hp).imp id (hs _), h.vm, fun r hr hx he => h.ee r hr (fun hh => hx (hex _ hh)) he⟩

/-- the weights a strategy writes come, key by key, from an edge of the node -/
theorem fromEdgesW_keys {g : G} {nodeID : String} {st : AState} {w : WMap} (h : FromEdgesW g nodeID st w) (k : String)
    (hk : Keys w k) : ∃ r : ERef, r.1 = nodeID ∧ Keys (aget r st.edgeW) k := by
  obtain ⟨v, hv⟩ := hk
  have := h.2 (fun p => ∃ r : ERef, r.1 = nodeID ∧ Keys (aget r st.edgeW) p.1)
    ⟨fun _ _ _ h _ => h, fun _ _ h => h⟩ ?_ (k, v) hv
  · exact this
  · intro r hr p hp
    refine ⟨r, ?_, p.2, hp⟩
    unfold edgeRefs at hr
    obtain ⟨i, _, rfl⟩ := List.mem_map.1 hr
    rfl

/-- writing the weights of a just-finished node with a strategy -/
theorem write_node (g : G) (n : String) (st0 stL : AState) (tcs : List String) (w : WMap)
    (hI0 : Inv2 st0) (hfresh : n ∉ st0.visited) (hIL : Inv2 stL) (hR : Rel2 [] st0 stL tcs) (hnv : n ∈ stL.visited)
    (hw : FromEdgesW g n stL w) :
    Inv2 { stL with nodeW := aset n w stL.nodeW } ∧ Rel2 [] st0 { stL with nodeW := aset n w stL.nodeW } tcs := by
  have hself : aget n (aset n w stL.nodeW) = w := aget_aset_self ..
  have hne : ∀ N, N ≠ n → aget N (aset n w stL.nodeW) = aget N stL.nodeW := fun N h => aget_aset_ne _ _ _ h _
  refine ⟨⟨hIL.i1, ?_, hIL.v1, ?_, hIL.v3⟩, ⟨hR.ce, ?_, hR.cd, hR.vm, hR.ee⟩⟩
  · intro N k hk hp
    by_cases e : N = n
    · subst e
      simp only [hself] at hk
      exact fromEdgesW_keys hw k hk
    · simp only [hne N e] at hk
      exact hIL.i3 N k hk hp
  · intro N hN
    by_cases e : N = n
    · subst e; exact hnv
    · simp only [hne N e] at hN
      exact hIL.v2 N hN
  · intro N k hk hp
    by_cases e : N = n
    · subst e
      simp only [hself] at hk
      obtain ⟨r, hr1, hr2⟩ := fromEdgesW_keys hw k hk
      rcases hR.ce r k hr2 hp with h | h
      · exact absurd (hr1 ▸ hI0.v1 r (ne_nil_of_keys h)) hfresh
      · exact Or.inr h
    · simp only [hne N e] at hk
      exact hR.cn N k hk hp

theorem nil_of_no_keys (w : WMap) (h : ∀ k, ¬ Keys w k) : w = [] := by
  cases w with
  | nil => rfl
  | cons p rest => exact absurd ⟨p.2, List.mem_cons_self ..⟩ (h p.1)

theorem phNode_ne_of_ne (n k : String) (hp : isPH k = true) (hne : k ≠ "R#" ++ n) : phNode k ≠ n := by
  intro e
  apply hne
  have := eq_mk_of_isPH k hp
  rw [e] at this
  exact this

/-- resolving the cycle reference `n`: the placeholder of `n` disappears everywhere and `n` leaves the list -/
theorem cafFinal_spec (g : G) (n : String) (st0 stL : AState) (tcs : List String)
    (hI0 : Inv2 st0) (hfresh : n ∉ st0.visited) (hIL : Inv2 stL) (hR : Rel2 [] st0 stL tcs) (hnv : n ∈ stL.visited) :
    Inv2 (cafFinal g n stL) ∧ Rel2 [] st0 (cafFinal g n stL) (tcs.filter (· != n)) := by
  obtain ⟨hWfrom, hWref, hWrefs⟩ := cafRes_fromEdges g n stL
  have hW : ∀ k, Keys (cafRes g n stL).1 k → isPH k = true → (!(cafRes g n stL).2.isEmpty) = true := by
    intro k hk hp
    have := hWrefs k hk hp
    cases h : (cafRes g n stL).2 with
    | nil => exact absurd h this
    | cons a b => rfl
  obtain ⟨st1, hst1⟩ : ∃ s : AState, s = { stL with nodeW := aset n (cafRes g n stL).1 stL.nodeW } := ⟨_, rfl⟩
  have h1n : aget n st1.nodeW = (cafRes g n stL).1 := by rw [hst1]; exact aget_aset_self ..
  have h1ne : ∀ N, N ≠ n → aget N st1.nodeW = aget N stL.nodeW := by
    intro N h; rw [hst1]; exact aget_aset_ne _ _ _ h _
  have h1E : st1.edgeW = stL.edgeW := by rw [hst1]
  have h1D : st1.deps = stL.deps := by rw [hst1]
  have h1V : st1.visited = stL.visited := by rw [hst1]
  obtain ⟨st2, hst2⟩ : ∃ s, s = fixDependantEdgesWeight n ("R#" ++ n) (!(cafRes g n stL).2.isEmpty) st1 := ⟨_, rfl⟩
  obtain ⟨st3, hst3⟩ : ∃ s, s = fixDependantNodesWeight n ("R#" ++ n) st2 := ⟨_, rfl⟩
  have hfin : cafFinal g n stL = { st3 with deps := adel n st3.deps } := by
    subst hst3 hst2 hst1; rfl
  have hE : EdgeFix ("R#" ++ n) (cafRes g n stL).1 (aget n st1.deps) st1 st2 := by
    rw [hst2, fixDependantEdgesWeight_eq]
    exact edgeFix_fold n ("R#" ++ n) _ _ hWref hW _ st1 h1n
  have hN : NodeFix ("R#" ++ n) (cafRes g n stL).1 (aget n st2.deps) st2 st3 := by
    rw [hst3, fixDependantNodesWeight_eq]
    refine nodeFix_fold n ("R#" ++ n) _ hWref _ st2 ?_
    intro k hk
    rw [hE.nodeW, h1n] at hk; exact hk
  rw [hfin]
  rw [h1D] at hE
  have hEupper := hE.upper; rw [h1E] at hEupper
  have hEdep := hE.dep; rw [h1E] at hEdep
  have hElower := hE.lower; rw [h1E] at hElower
  have hElowerW := hE.lowerW; rw [h1E] at hElowerW
  have hEother := hE.other; rw [h1E] at hEother
  have hEmono := hE.mono; rw [h1D] at hEmono
  have hEnew := hE.new; rw [h1D] at hEnew
  have hEent := hE.ent; rw [h1D] at hEent
  -- abbreviations
  have hphn : phNode ("R#" ++ n) = n := phNode_mk n
  have noRefE : ∀ r', ¬ Keys (aget r' st2.edgeW) ("R#" ++ n) := by
    intro r' hk
    by_cases hd : r' ∈ aget n stL.deps
    · exact hE.gone r' hd hk
    · rw [hEother r' hd] at hk
      have := hIL.i1 r' _ hk (isPH_mk n)
      rw [hphn] at this
      exact hd this
  have n2 : ∀ N, aget N st2.nodeW = aget N st1.nodeW := fun N => by rw [hE.nodeW]
  have noRefN : ∀ N, ¬ Keys (aget N st3.nodeW) ("R#" ++ n) := by
    intro N hk
    have h2 : Keys (aget N st2.nodeW) ("R#" ++ n) := by
      rcases hN.upper N _ hk with h | h
      · exact h
      · exact h.1
    rw [n2] at h2
    by_cases e : N = n
    · subst e; rw [h1n] at h2; exact hWref h2
    · rw [h1ne N e] at h2
      obtain ⟨r0, hr0, hk0⟩ := hIL.i3 N _ h2 (isPH_mk n)
      have hd := hIL.i1 r0 _ hk0 (isPH_mk n)
      rw [hphn] at hd
      exact hN.gone r0 (hEmono _ _ hd) (hr0 ▸ hk)
  have hWtc : ∀ k, Keys (cafRes g n stL).1 k → isPH k = true →
      phNode k ∈ tcs.filter (· != n) ∧ phNode k ≠ n ∧ ∃ r : ERef, r.1 = n ∧ Keys (aget r stL.edgeW) k := by
    intro k hk hp
    have hne : phNode k ≠ n := phNode_ne_of_ne n k hp (fun e => hWref (e ▸ hk))
    obtain ⟨r, hr1, hr2⟩ := fromEdgesW_keys hWfrom k hk
    refine ⟨?_, hne, r, hr1, hr2⟩
    rcases hR.ce r k hr2 hp with h | h
    · exact absurd (hr1 ▸ hI0.v1 r (ne_nil_of_keys h)) hfresh
    · exact List.mem_filter.2 ⟨h, by simpa using hne⟩
  have inF : ∀ x, x ∈ tcs → x ≠ n → x ∈ tcs.filter (· != n) := fun x h1 h2 => List.mem_filter.2 ⟨h1, by simpa using h2⟩
  have e3E : st3.edgeW = st2.edgeW := hN.edgeW
  have e3D : st3.deps = st2.deps := hN.deps
  have e3V : st3.visited = stL.visited := by rw [hN.visited, hE.visited, h1V]
  refine ⟨⟨?_, ?_, ?_, ?_, ?_⟩, ⟨?_, ?_, ?_, ?_, ?_⟩⟩
  · -- i1
    intro r' k hk hp
    simp only [e3E] at hk
    simp only [e3D]
    have hkne : k ≠ "R#" ++ n := fun e => noRefE r' (e ▸ hk)
    have hne := phNode_ne_of_ne n k hp hkne
    rw [aget_adel_ne _ _ hne]
    rcases hEdep r' k hk hp with h | h
    · exact hEmono _ _ (hIL.i1 r' k h hp)
    · exact h
  · -- i3
    intro N k hk hp
    simp only [e3E]
    simp only at hk
    have hkne : k ≠ "R#" ++ n := fun e => noRefN N (e ▸ hk)
    rcases hN.upper N k hk with h | ⟨ha, _, hc⟩
    · rw [n2] at h
      by_cases e : N = n
      · subst e
        rw [h1n] at h
        obtain ⟨_, _, r, hr1, hr2⟩ := hWtc k h hp
        exact ⟨r, hr1, hElower r k hr2 hkne⟩
      · rw [h1ne N e] at h
        obtain ⟨r0, hr0, hk0⟩ := hIL.i3 N k h hp
        exact ⟨r0, hr0, hElower r0 k hk0 hkne⟩
    · rw [n2] at ha
      have e : N ≠ n := by
        intro e; subst e; rw [h1n] at ha; exact hWref ha
      rw [h1ne N e] at ha
      obtain ⟨r0, hr0, hk0⟩ := hIL.i3 N _ ha (isPH_mk n)
      have hd := hIL.i1 r0 _ hk0 (isPH_mk n)
      rw [hphn] at hd
      exact ⟨r0, hr0, hElowerW r0 hd hk0 k hc⟩
  · -- v1
    intro r' hne
    simp only [e3E] at hne
    simp only [e3V]
    obtain ⟨k, hk⟩ := keys_of_ne_nil _ hne
    rcases hEupper r' k hk with h | h
    · exact hIL.v1 r' (ne_nil_of_keys h)
    · exact hIL.v1 r' (ne_nil_of_keys h.1)
  · -- v2
    intro N hne
    simp only at hne
    simp only [e3V]
    obtain ⟨k, hk⟩ := keys_of_ne_nil _ hne
    have h2 : ∃ k', Keys (aget N st1.nodeW) k' := by
      rcases hN.upper N k hk with h | h
      · exact ⟨k, n2 N ▸ h⟩
      · exact ⟨_, n2 N ▸ h.1⟩
    obtain ⟨k', hk'⟩ := h2
    by_cases e : N = n
    · subst e; exact hnv
    · rw [h1ne N e] at hk'
      exact hIL.v2 N (ne_nil_of_keys hk')
  · -- v3
    intro m r hr
    simp only [e3D] at hr
    simp only [e3V]
    by_cases e : m = n
    · subst e
      rw [aget_adel_self] at hr
      cases hr
    · rw [aget_adel_ne _ _ e] at hr
      rcases hEnew m r hr with h | h
      · exact hIL.v3 m r h
      · exact hIL.v3 n r h.1
  · -- ce
    intro r' k hk hp
    simp only [e3E] at hk
    have hkne : k ≠ "R#" ++ n := fun e => noRefE r' (e ▸ hk)
    have hne := phNode_ne_of_ne n k hp hkne
    rcases hEupper r' k hk with h | h
    · rcases hR.ce r' k h hp with h | h
      · exact Or.inl h
      · exact Or.inr (inF _ h hne)
    · exact Or.inr (hWtc k h.2.2 hp).1
  · -- cn
    intro N k hk hp
    simp only at hk
    have hkne : k ≠ "R#" ++ n := fun e => noRefN N (e ▸ hk)
    have hne := phNode_ne_of_ne n k hp hkne
    rcases hN.upper N k hk with h | h
    · rw [n2] at h
      by_cases e : N = n
      · subst e
        rw [h1n] at h
        exact Or.inr (hWtc k h hp).1
      · rw [h1ne N e] at h
        rcases hR.cn N k h hp with h | h
        · exact Or.inl h
        · exact Or.inr (inF _ h hne)
    · exact Or.inr (hWtc k h.2.2 hp).1
  · -- cd
    intro p hp
    simp only [e3D] at hp
    obtain ⟨hp1, hp2⟩ := mem_adel n _ p hp
    rcases hEent p hp1 with ⟨q, hq, he⟩ | ⟨k, hk, hph, he⟩
    · rcases hR.cd q hq with h | h
      · obtain ⟨q', hq', he'⟩ := h
        exact Or.inl ⟨q', hq', he'.trans he⟩
      · exact Or.inr (inF _ (he ▸ h) hp2)
    · exact Or.inr (he ▸ (hWtc k hk hph).1)
  · -- vm
    intro v hv
    simp only [e3V]
    exact hR.vm v hv
  · -- ee
    intro r' hr' hx he
    simp only [e3E]
    have hL := hR.ee r' hr' hx he
    apply nil_of_no_keys
    intro k hk
    rcases hEupper r' k hk with h | h
    · rw [hL] at h; exact keys_nil _ h
    · rw [hL] at h; exact keys_nil _ h.1

/-! ### pass 2, the edge side -/
theorem Inv2.of_core {st st' : AState} (h : Inv2 st) (hN : st'.nodeW = st.nodeW) (hE : st'.edgeW = st.edgeW)
    (hV : st'.visited = st.visited) (hD : st'.deps = st.deps) : Inv2 st' := by
  refine ⟨?_, ?_, ?_, ?_, ?_⟩
  · rw [hE, hD]; exact h.i1
  · rw [hE, hN]; exact h.i3
  · rw [hE, hV]; exact h.v1
  · rw [hN, hV]; exact h.v2
  · rw [hD, hV]; exact h.v3

theorem Rel2.of_core {ex : List String} {st st' st'' : AState} {tc : List String} (h : Rel2 ex st st' tc)
    (hN : st''.nodeW = st'.nodeW) (hE : st''.edgeW = st'.edgeW)
    (hV : st''.visited = st'.visited) (hD : st''.deps = st'.deps) : Rel2 ex st st'' tc := by
  refine ⟨?_, ?_, ?_, ?_, ?_⟩
  · rw [hE]; exact h.ce
  · rw [hN]; exact h.cn
  · rw [hD]; exact h.cd
  · rw [hV]; exact h.vm
  · rw [hE]; exact h.ee

/-- writing the weights of an edge that had none, after recording its dependencies -/
theorem write_edge (st stD st' : AState) (r : ERef) (w : WMap) (tc : List String)
    (hI : Inv2 st) (hempty : aget r st.edgeW = []) (hv : r.1 ∈ st.visited)
    (hNW : stD.nodeW = st.nodeW) (hEW : stD.edgeW = st.edgeW) (hVis : stD.visited = st.visited)
    (hmono : ∀ m r', r' ∈ aget m st.deps → r' ∈ aget m stD.deps)
    (hnew : ∀ m r', r' ∈ aget m stD.deps → r' ∈ aget m st.deps ∨ r' = r)
    (hent : ∀ p ∈ stD.deps, (∃ q ∈ st.deps, q.1 = p.1) ∨ p.1 ∈ tc)
    (hw : ∀ k, Keys w k → isPH k = true → phNode k ∈ tc ∧ r ∈ aget (phNode k) stD.deps)
    (h'N : st'.nodeW = stD.nodeW) (h'E : st'.edgeW = aset r w stD.edgeW) (h'V : st'.visited = stD.visited)
    (h'D : st'.deps = stD.deps) :
    Inv2 st' ∧ Rel2 [r.1] st st' tc := by
  have hself : aget r st'.edgeW = w := by rw [h'E, aget_aset_self]
  have hne : ∀ r', r' ≠ r → aget r' st'.edgeW = aget r' st.edgeW := by
    intro r' h; rw [h'E, aget_aset_ne _ _ _ h, hEW]
  have hN : st'.nodeW = st.nodeW := h'N.trans hNW
  have hV : st'.visited = st.visited := h'V.trans hVis
  refine ⟨⟨?_, ?_, ?_, ?_, ?_⟩, ⟨?_, ?_, ?_, ?_, ?_⟩⟩
  · intro r' k hk hp
    rw [h'D]
    by_cases e : r' = r
    · subst e; rw [hself] at hk; exact (hw k hk hp).2
    · rw [hne r' e] at hk; exact hmono _ _ (hI.i1 r' k hk hp)
  · intro N k hk hp
    rw [hN] at hk
    obtain ⟨r0, hr0, hk0⟩ := hI.i3 N k hk hp
    have e : r0 ≠ r := by
      intro e; subst e; rw [hempty] at hk0; exact keys_nil _ hk0
    exact ⟨r0, hr0, by rw [hne r0 e]; exact hk0⟩
  · intro r' hne'
    rw [hV]
    by_cases e : r' = r
    · subst e; exact hv
    · rw [hne r' e] at hne'; exact hI.v1 r' hne'
  · intro N hN'
    rw [hV]; rw [hN] at hN'; exact hI.v2 N hN'
  · intro m r' hr'
    rw [hV]; rw [h'D] at hr'
    rcases hnew m r' hr' with h | h
    · exact hI.v3 m r' h
    · subst h; exact hv
  · intro r' k hk hp
    by_cases e : r' = r
    · subst e; rw [hself] at hk; exact Or.inr (hw k hk hp).1
    · rw [hne r' e] at hk; exact Or.inl hk
  · intro N k hk hp
    rw [hN] at hk; exact Or.inl hk
  · intro p hp
    rw [h'D] at hp; exact hent p hp
  · intro v hv'
    rw [hV]; exact hv'
  · intro r' _ hx he
    have e : r' ≠ r := by
      intro e; subst e; exact hx (by simp)
    rw [hne r' e]; exact he

/-- a state that differs from `s` by dependencies of the edge `r` on nodes of `tc` -/
structure DepsExt (r : ERef) (tc : List String) (s s' : AState) : Prop where
  nodeW : s'.nodeW = s.nodeW
  edgeW : s'.edgeW = s.edgeW
  visited : s'.visited = s.visited
  mono : ∀ m r', r' ∈ aget m s.deps → r' ∈ aget m s'.deps
  new : ∀ m r', r' ∈ aget m s'.deps → r' ∈ aget m s.deps ∨ r' = r
  ent : ∀ p ∈ s'.deps, (∃ q ∈ s.deps, q.1 = p.1) ∨ p.1 ∈ tc

theorem DepsExt.refl (r : ERef) (tc : List String) (s : AState) : DepsExt r tc s s :=
  ⟨rfl, rfl, rfl, fun _ _ h => h, fun _ _ h => Or.inl h, fun p hp => Or.inl ⟨p, hp, rfl⟩⟩

theorem DepsExt.trans {r : ERef} {t1 t2 t : List String} {a b c : AState} (h1 : DepsExt r t1 a b) (h2 : DepsExt r t2 b c)
    (s1 : ∀ x ∈ t1, x ∈ t) (s2 : ∀ x ∈ t2, x ∈ t) : DepsExt r t a c := by
  refine ⟨h2.nodeW.trans h1.nodeW, h2.edgeW.trans h1.edgeW, h2.visited.trans h1.visited,
    fun m r' h => h2.mono m r' (h1.mono m r' h), ?_, ?_⟩
  · intro m r' h
    rcases h2.new m r' h with h | h
    · exact h1.new m r' h
    · exact Or.inr h
  · intro p hp
    rcases h2.ent p hp with ⟨q, hq, he⟩ | h
    · rcases h1.ent q hq with ⟨q', hq', he'⟩ | h
      · exact Or.inl ⟨q', hq', he'.trans he⟩
      · exact Or.inr (s1 _ (he ▸ h))
    · exact Or.inr (s2 _ h)

theorem DepsExt.addDep (r : ERef) (n : String) (s : AState) : DepsExt r [n] s (addDep n r s) := by
  refine ⟨rfl, rfl, rfl, fun m r' h => (mem_addDep _ _ _ _ _).2 (Or.inl h), ?_, ?_⟩
  · intro m r' h
    rcases (mem_addDep _ _ _ _ _).1 h with h | h
    · exact Or.inl h
    · exact Or.inr h.2
  · intro p hp
    rw [addDep_deps] at hp
    rcases mem_aset _ _ _ _ hp with rfl | hp
    · exact Or.inr (by simp)
    · exact Or.inl ⟨p, hp, rfl⟩

theorem addDeps_ext (r : ERef) : ∀ (l : List String) (s : AState),
    DepsExt r l s (l.foldl (fun st n => addDep n r st) s) ∧ ∀ n ∈ l, r ∈ aget n (l.foldl (fun st n => addDep n r st) s).deps
  | [], s => ⟨DepsExt.refl _ _ _, fun _ h => by cases h⟩
  | x :: l, s => by
    obtain ⟨ih1, ih2⟩ := addDeps_ext r l (addDep x r s)
    refine ⟨(DepsExt.addDep r x s).trans ih1 (fun y hy => by simp at hy; simp [hy]) (fun y hy => List.mem_cons_of_mem _ hy), ?_⟩
    intro n hn
    rcases List.mem_cons.1 hn with rfl | hn
    · exact ih1.mono _ _ ((mem_addDep _ _ _ _ _).2 (Or.inr ⟨rfl, rfl⟩))
    · exact ih2 n hn

theorem scan_true (r : ERef) (toW : WMap) (acc : List String × AState) : toW.foldl (scanStep true r) acc = acc := by
  refine foldl_inv (fun a => a = acc) _ ?_ toW acc rfl
  intro a kv h
  subst h
  unfold scanStep
  simp

theorem scan_false (r : ERef) : ∀ (toW : WMap) (acc : List String × AState),
    DepsExt r (toW.foldl (scanStep false r) acc).1 acc.2 (toW.foldl (scanStep false r) acc).2 ∧
    (∀ x ∈ acc.1, x ∈ (toW.foldl (scanStep false r) acc).1) ∧
    (∀ kv ∈ toW, isPH kv.1 = true → phNode kv.1 ∈ (toW.foldl (scanStep false r) acc).1 ∧
      r ∈ aget (phNode kv.1) (toW.foldl (scanStep false r) acc).2.deps)
  | [], acc => ⟨DepsExt.refl _ _ _, fun _ h => h, fun _ h => by cases h⟩
  | kv :: rest, acc => by
    obtain ⟨ih1, ih2, ih3⟩ := scan_false r rest (scanStep false r acc kv)
    simp only [List.foldl_cons]
    by_cases hp : isPH kv.1 = true
    · have hstep : scanStep false r acc kv = (acc.1 ++ [phNode kv.1], addDep (phNode kv.1) r acc.2) := by
        unfold scanStep
        rw [show kv.1.startsWith "R#" = true from hp]
        rfl
      rw [hstep] at ih1 ih2 ih3 ⊢
      refine ⟨(DepsExt.addDep r (phNode kv.1) acc.2).trans ih1 (fun y hy => ?_) (fun y hy => hy),
        fun x hx => ih2 x (List.mem_append_left _ hx), ?_⟩
      · simp at hy; subst hy; exact ih2 _ (by simp)
      · intro kv' hkv' hp'
        rcases List.mem_cons.1 hkv' with rfl | hkv'
        · exact ⟨ih2 _ (by simp), ih1.mono _ _ ((mem_addDep _ _ _ _ _).2 (Or.inr ⟨rfl, rfl⟩))⟩
        · exact ih3 kv' hkv' hp'
    · have hstep : scanStep false r acc kv = acc := by
        unfold scanStep
        have : kv.1.startsWith "R#" = false := by simpa using hp
        rw [this]
        simp
      rw [hstep] at ih1 ih2 ih3 ⊢
      refine ⟨ih1, ih2, ?_⟩
      intro kv' hkv' hp'
      rcases List.mem_cons.1 hkv' with rfl | hkv'
      · exact absurd hp' hp
      · exact ih3 kv' hkv' hp'

theorem keys_edgeCopy (e : WEdge) (w : WMap) (k : String) (h : Keys (edgeCopy e w) k) : Keys w k := by
  unfold edgeCopy at h
  split at h
  · obtain ⟨v, hv⟩ := h
    obtain ⟨p, hp, he⟩ := List.mem_map.1 hv
    obtain ⟨k', v'⟩ := p
    simp only [Prod.mk.injEq] at he
    exact ⟨v', he.1 ▸ hp⟩
  · exact h

/-- the key written for an edge into a terminal node -/
def termKey (g : G) (dst : String) : String :=
  if nodeType g dst == .wildcard then (dst.dropEnd 2).toString else dst

/-- no terminal type of the graph is named like a placeholder (`R#…`): type names never contain `#` -/
def NoPHTypes (g : G) : Prop :=
  ∀ n, ∀ e ∈ edgesOf g n, isTerminal (nodeType g e.dst) = true → isPH (termKey g e.dst) = false

def noPHTypesB (g : G) : Bool :=
  g.edges.all (fun p => p.2.all (fun e => !(isTerminal (nodeType g e.dst)) || !(isPH (termKey g e.dst))))

theorem noPHTypesB_sound (g : G) (h : noPHTypesB g = true) : NoPHTypes g := by
  intro n e he ht
  unfold edgesOf at he
  split at he
  · rename_i k es hf
    have hmem := List.mem_of_find?_eq_some hf
    unfold noPHTypesB at h
    rw [List.all_eq_true] at h
    have := h _ hmem
    simp only at this
    rw [List.all_eq_true] at this
    have := this e he
    simp only [ht, Bool.not_true, Bool.false_or] at this
    simpa using this
  · cases he

def RecB (rec : String → List WEdge → AState → Res) : Prop :=
  ∀ n path st, Inv2 st → ∀ tc st', rec n path st = ((tc, none), st') →
    Inv2 st' ∧ Rel2 [] st st' tc ∧ (n ∈ st.visited → tc = [])

theorem calcEdgeWith_B (g : G) (rec : String → List WEdge → AState → Res) (hrec : RecB rec) (r : ERef) (e : WEdge)
    (path : List WEdge) (st : AState) (hI : Inv2 st) (hempty : aget r st.edgeW = []) (hv : r.1 ∈ st.visited)
    (tc : List String) (st' : AState) (h : calcEdgeWith rec g r e path st = ((tc, none), st')) :
    Inv2 st' ∧ Rel2 [r.1] st st' tc := by
  rw [calcEdgeWith_eq] at h
  split at h
  · rename_i hse
    have hsd : e.src = e.dst := by simpa using hse
    simp only [Prod.mk.injEq] at h
    obtain ⟨⟨rfl, _⟩, rfl⟩ := h
    refine write_edge st (addDep e.dst r st) _ r [("R#" ++ e.dst, infinite)] [e.src] hI hempty hv rfl rfl rfl
      (DepsExt.addDep r e.dst st).mono (DepsExt.addDep r e.dst st).new ?_ ?_ rfl rfl rfl rfl
    · intro p hp
      rcases (DepsExt.addDep r e.dst st).ent p hp with h | h
      · exact Or.inl h
      · exact Or.inr (by simp at h; simp [h, hsd])
    · intro k ⟨v, hk⟩ hp
      simp only [List.mem_singleton, Prod.mk.injEq] at hk
      obtain ⟨rfl, _⟩ := hk
      rw [phNode_mk]
      exact ⟨by simp [hsd], (mem_addDep _ _ _ _ _).2 (Or.inr ⟨rfl, rfl⟩)⟩
  · split at h
    · simp at h
    · rename_i tc1 st1 heq
      obtain ⟨hI1, hR1, hvis1⟩ := hrec e.dst (path ++ [e]) st hI tc1 st1 heq
      have hempty1 : aget r st1.edgeW = [] := hR1.ee r hv (by simp) hempty
      have hv1 : r.1 ∈ st1.visited := hR1.vm _ hv
      split at h
      · split at h
        · simp only [Prod.mk.injEq] at h
          obtain ⟨⟨rfl, _⟩, rfl⟩ := h
          have hw := write_edge st1 (addDep e.dst r st1) (addDep e.dst r { st1 with edgeW := aset r [("R#" ++ e.dst, infinite)] st1.edgeW })
            r [("R#" ++ e.dst, infinite)] (tc1 ++ [e.dst]) hI1 hempty1 hv1 rfl rfl rfl
            (DepsExt.addDep r e.dst st1).mono (DepsExt.addDep r e.dst st1).new ?_ ?_ rfl rfl rfl rfl
          · exact ⟨hw.1, (hR1.weaken (fun x hx => hx) (fun x hx => by cases hx)).trans hw.2
              (fun x hx => List.mem_append_left _ hx) (fun x hx => hx)⟩
          · intro p hp
            rcases (DepsExt.addDep r e.dst st1).ent p hp with h | h
            · exact Or.inl h
            · exact Or.inr (by simp at h; simp [h])
          · intro k ⟨v, hk⟩ hp
            simp only [List.mem_singleton, Prod.mk.injEq] at hk
            obtain ⟨rfl, _⟩ := hk
            rw [phNode_mk]
            exact ⟨by simp, (mem_addDep _ _ _ _ _).2 (Or.inr ⟨rfl, rfl⟩)⟩
        · simp at h
      · rename_i hne
        simp only [Prod.mk.injEq] at h
        obtain ⟨⟨rfl, _⟩, rfl⟩ := h
        -- the dependencies recorded before the copy
        have key : ∃ stD : AState, stD = ((aget e.dst st1.nodeW).foldl (scanStep (!tc1.isEmpty) r)
              (tc1, if (!tc1.isEmpty) = true then tc1.foldl (fun st n => addDep n r st) st1 else st1)).2 ∧
            DepsExt r ((aget e.dst st1.nodeW).foldl (scanStep (!tc1.isEmpty) r)
              (tc1, if (!tc1.isEmpty) = true then tc1.foldl (fun st n => addDep n r st) st1 else st1)).1 st1 stD ∧
            (∀ x ∈ tc1, x ∈ ((aget e.dst st1.nodeW).foldl (scanStep (!tc1.isEmpty) r)
              (tc1, if (!tc1.isEmpty) = true then tc1.foldl (fun st n => addDep n r st) st1 else st1)).1) ∧
            (∀ k, Keys (aget e.dst st1.nodeW) k → isPH k = true →
              phNode k ∈ ((aget e.dst st1.nodeW).foldl (scanStep (!tc1.isEmpty) r)
                (tc1, if (!tc1.isEmpty) = true then tc1.foldl (fun st n => addDep n r st) st1 else st1)).1 ∧
              r ∈ aget (phNode k) stD.deps) := by
          cases htc : tc1 with
          | nil =>
            simp only [List.isEmpty_nil, Bool.not_true, Bool.false_eq_true, if_false]
            obtain ⟨s1, s2, s3⟩ := scan_false r (aget e.dst st1.nodeW) ([], st1)
            exact ⟨_, rfl, s1, fun x hx => (by cases hx), fun k ⟨v, hk⟩ hp => s3 (k, v) hk hp⟩
          | cons a b =>
            simp only [List.isEmpty_cons, Bool.not_false, if_true, scan_true]
            obtain ⟨a1, a2⟩ := addDeps_ext r (a :: b) st1
            refine ⟨_, rfl, a1, fun x hx => hx, ?_⟩
            intro k hk hp
            have hin : phNode k ∈ a :: b := by
              rcases hR1.cn e.dst k hk hp with h | h
              · have := hvis1 (hI.v2 e.dst (ne_nil_of_keys h))
                rw [htc] at this; cases this
              · exact htc ▸ h
            exact ⟨hin, a2 _ hin⟩
        obtain ⟨stD, hstD, hext, hsub, hkeys⟩ := key
        rw [← hstD]
        have hw := write_edge st1 stD { stD with edgeW := aset r (edgeCopy e (aget e.dst st1.nodeW)) stD.edgeW } r
          (edgeCopy e (aget e.dst st1.nodeW)) _ hI1 hempty1 hv1 hext.nodeW hext.edgeW hext.visited hext.mono hext.new hext.ent
          (fun k hk hp => hkeys k (keys_edgeCopy e _ k hk) hp) rfl rfl rfl rfl
        exact ⟨hw.1, (hR1.weaken (fun x hx => hx) (fun x hx => by cases hx)).trans hw.2 hsub (fun x hx => hx)⟩

theorem edgeLoop_B (g : G) (hn : NoPHTypes g) (rec : String → List WEdge → AState → Res) (hrec : RecB rec) (nodeID : String)
    (path : List WEdge) : ∀ (es : List (ERef × WEdge)) (tcs : List String) (st : AState), Inv2 st → nodeID ∈ st.visited →
      (∀ p ∈ es, p.1.1 = nodeID ∧ p.2 ∈ edgesOf g nodeID) →
      ∀ tcs' st', edgeLoop rec g nodeID path es tcs st = ((tcs', none), st') →
        Inv2 st' ∧ Rel2 [nodeID] st st' tcs' ∧ ∀ x ∈ tcs, x ∈ tcs'
  | [], tcs, st, hI, _, _, tcs', st', h => by
    simp only [edgeLoop, Prod.mk.injEq] at h
    obtain ⟨⟨rfl, _⟩, rfl⟩ := h
    exact ⟨hI, Rel2.refl _ _ _, fun x hx => hx⟩
  | (r, e) :: rest, tcs, st, hI, hv, hes, tcs', st', h => by
    have hre := hes (r, e) (List.mem_cons_self ..)
    have hrest : ∀ p ∈ rest, p.1.1 = nodeID ∧ p.2 ∈ edgesOf g nodeID := fun p hp => hes p (List.mem_cons_of_mem _ hp)
    have hr1 : r.1 = nodeID := hre.1
    unfold edgeLoop at h
    split at h
    · exact edgeLoop_B g hn rec hrec nodeID path rest tcs st hI hv hrest tcs' st' h
    · rename_i hemp
      have hempty : aget r st.edgeW = [] := by
        cases hh : aget r st.edgeW with
        | nil => rfl
        | cons a b => rw [hh] at hemp; simp at hemp
      simp only at h
      split at h
      · rename_i hterm
        -- an edge into a terminal type
        obtain ⟨stW, hstW⟩ : ∃ s : AState, s = (if (nodeType g e.dst == NodeType.wildcard) = true then
            addEdgeWildcardsToNode nodeID r (addWildcardToEdge
              (if (nodeType g e.dst == NodeType.wildcard) = true then (e.dst.dropEnd 2).toString else e.dst) r st) else st) :=
          ⟨_, rfl⟩
        rw [← hstW] at h
        have cN : stW.nodeW = st.nodeW := by rw [hstW]; split <;> simp
        have cE : stW.edgeW = st.edgeW := by rw [hstW]; split <;> simp
        have cV : stW.visited = st.visited := by rw [hstW]; split <;> simp
        have cD : stW.deps = st.deps := by rw [hstW]; split <;> simp
        have hw := write_edge st stW { stW with edgeW := aset r [(termKey g e.dst, 1)] stW.edgeW } r [(termKey g e.dst, 1)] []
          hI hempty (hr1 ▸ hv) cN cE cV (fun m r' h => cD ▸ h) (fun m r' h => Or.inl (cD ▸ h))
          (fun p hp => Or.inl ⟨p, cD ▸ hp, rfl⟩) ?_ rfl rfl rfl rfl
        · rw [hr1] at hw
          have hv' : nodeID ∈ ({ stW with edgeW := aset r [(termKey g e.dst, 1)] stW.edgeW } : AState).visited := by
            show nodeID ∈ stW.visited
            rw [cV]; exact hv
          obtain ⟨i1, i2, i3⟩ := edgeLoop_B g hn rec hrec nodeID path rest tcs _ hw.1 hv' hrest tcs' st' h
          exact ⟨i1, hw.2.trans i2 (fun x hx => by cases hx) (fun x hx => hx), i3⟩
        · intro k ⟨v, hk⟩ hp
          simp only [List.mem_singleton, Prod.mk.injEq] at hk
          obtain ⟨rfl, _⟩ := hk
          rw [hn nodeID e hre.2 hterm] at hp
          cases hp
      · -- an edge into a relation or an operator
        split at h
        · simp at h
        · rename_i heq
          obtain ⟨tc, htc⟩ : ∃ t, t = (calcEdgeWith rec g r e path st).1.1 := ⟨_, rfl⟩
          obtain ⟨stC, hstC⟩ : ∃ s, s = (calcEdgeWith rec g r e path st).2 := ⟨_, rfl⟩
          have heq' : calcEdgeWith rec g r e path st = ((tc, none), stC) := by
            rw [htc, hstC]; exact Prod.ext (Prod.ext rfl heq) rfl
          rw [← htc, ← hstC] at h
          obtain ⟨hIC, hRC⟩ := calcEdgeWith_B g rec hrec r e path st hI hempty (hr1 ▸ hv) tc stC heq'
          rw [hr1] at hRC
          have hIC' : Inv2 (addEdgeWildcardsToNode nodeID r (calculateEdgeWildcards e.dst r stC)) :=
            hIC.of_core (by simp) (by simp) (by simp) (by simp)
          have hRC' : Rel2 [nodeID] st (addEdgeWildcardsToNode nodeID r (calculateEdgeWildcards e.dst r stC)) tc :=
            hRC.of_core (by simp) (by simp) (by simp) (by simp)
          have hv' : nodeID ∈ (addEdgeWildcardsToNode nodeID r (calculateEdgeWildcards e.dst r stC)).visited := by
            simp only [addEdgeWildcardsToNode_visited, calculateEdgeWildcards_visited]
            exact hRC.vm _ hv
          obtain ⟨i1, i2, i3⟩ := edgeLoop_B g hn rec hrec nodeID path rest (tcs ++ tc) _ hIC' hv' hrest tcs' st' h
          exact ⟨i1, hRC'.trans i2 (fun x hx => i3 x (List.mem_append_right _ hx)) (fun x hx => hx),
            fun x hx => i3 x (List.mem_append_left _ hx)⟩

theorem mem_refs (g : G) (n : String) (p : ERef × WEdge)
    (hp : p ∈ ((List.range (edgesOf g n).length).zip (edgesOf g n) |>.map (fun (i, e) => ((n, i), e)))) :
    p.1.1 = n ∧ p.2 ∈ edgesOf g n := by
  obtain ⟨q, hq, rfl⟩ := List.mem_map.1 hp
  obtain ⟨i, e⟩ := q
  exact ⟨rfl, (List.of_mem_zip hq).2⟩

theorem calcNode_B (g : G) (hn : NoPHTypes g) : ∀ (fuel : Nat), RecB (calcNode fuel g)
  | 0 => by
    intro n path st _ tc st' h
    simp [calcNode] at h
  | fuel+1 => by
    intro n path st hI tc st' h
    unfold calcNode at h
    split at h
    · simp only [Prod.mk.injEq] at h
      obtain ⟨⟨rfl, _⟩, rfl⟩ := h
      exact ⟨hI, Rel2.refl _ _ _, fun _ => rfl⟩
    · split at h
      · simp only [Prod.mk.injEq] at h
        obtain ⟨⟨rfl, _⟩, rfl⟩ := h
        exact ⟨hI, Rel2.refl _ _ _, fun _ => rfl⟩
      · rename_i hc _
        have hfresh : n ∉ st.visited := fun hh => hc (List.contains_iff_mem.2 hh)
        simp only at h
        have hI0 : Inv2 { st with visited := n :: st.visited } :=
          ⟨hI.i1, hI.i3, fun r hr => List.mem_cons_of_mem _ (hI.v1 r hr), fun N hN => List.mem_cons_of_mem _ (hI.v2 N hN),
            fun m r hr => List.mem_cons_of_mem _ (hI.v3 m r hr)⟩
        split at h
        · simp at h
        · rename_i tcs stL heq
          obtain ⟨hIL, hRL, _⟩ := edgeLoop_B g hn (calcNode fuel g) (calcNode_B g hn fuel) n path _ [] _ hI0
            (List.mem_cons_self ..) (mem_refs g n) tcs stL heq
          have hR : Rel2 [] st stL tcs :=
            ⟨hRL.ce, hRL.cn, hRL.cd, fun v hv => hRL.vm v (List.mem_cons_of_mem _ hv),
              fun r hr _ he => hRL.ee r (List.mem_cons_of_mem _ hr) (by
                intro hx; simp at hx; exact hfresh (hx ▸ hr)) he⟩
          have hnv : n ∈ stL.visited := hRL.vm n (List.mem_cons_self ..)
          suffices main : Inv2 st' ∧ Rel2 [] st st' tc from ⟨main.1, main.2, fun hh => absurd hh hfresh⟩
          rcases fromTheEdges_cases g n tcs stL with ⟨t, e, s, hc⟩ | hc | ⟨w, hc, hw⟩ | ⟨hc, _⟩
          · rw [hc] at h; simp at h
          · rw [hc] at h
            simp only [Prod.mk.injEq] at h
            obtain ⟨⟨rfl, _⟩, rfl⟩ := h
            exact ⟨hIL, hR⟩
          · rw [hc] at h
            simp only [Prod.mk.injEq] at h
            obtain ⟨⟨rfl, _⟩, rfl⟩ := h
            exact write_node g n st stL tcs w hI hfresh hIL hR hnv hw
          · rw [hc] at h
            simp only [Prod.mk.injEq] at h
            obtain ⟨⟨rfl, _⟩, rfl⟩ := h
            exact cafFinal_spec g n st stL tcs hI hfresh hIL hR hnv

/-- no placeholder key anywhere, and no pending dependency -/
structure Clean (st : AState) : Prop where
  edge : ∀ (r : ERef) k, Keys (aget r st.edgeW) k → isPH k = false
  node : ∀ N k, Keys (aget N st.nodeW) k → isPH k = false
  deps : st.deps = []

theorem inv2_init : Inv2 {} :=
  ⟨fun r k hk => absurd hk (keys_nil k), fun N k hk => absurd hk (keys_nil k), fun r h => absurd rfl h,
    fun N h => absurd rfl h, fun m r h => by cases h⟩

theorem clean_init : Clean {} :=
  ⟨fun r k hk => absurd hk (keys_nil k), fun N k hk => absurd hk (keys_nil k), rfl⟩

theorem clean_step {st st' : AState} (hc : Clean st) (hR : Rel2 [] st st' []) : Clean st' := by
  refine ⟨?_, ?_, ?_⟩
  · intro r k hk
    cases hp : isPH k with
    | false => rfl
    | true =>
      rcases hR.ce r k hk hp with h | h
      · rw [hc.edge r k h] at hp; cases hp
      · cases h
  · intro N k hk
    cases hp : isPH k with
    | false => rfl
    | true =>
      rcases hR.cn N k hk hp with h | h
      · rw [hc.node N k h] at hp; cases hp
      · cases h
  · cases hd : st'.deps with
    | nil => rfl
    | cons p rest =>
      rcases hR.cd p (hd ▸ List.mem_cons_self ..) with ⟨q, hq, _⟩ | h
      · rw [hc.deps] at hq; cases hq
      · cases h

theorem go_B (g : G) (hn : NoPHTypes g) : ∀ (ns : List String) (st st' : AState), Inv2 st → Clean st →
    assignWeights.go g ns st = .ok st' → Inv2 st' ∧ Clean st'
  | [], st, st', hI, hc, heq => by
    simp only [assignWeights.go] at heq
    cases heq; exact ⟨hI, hc⟩
  | n :: ns, st, st', hI, hc, heq => by
    unfold assignWeights.go at heq
    split at heq
    · exact go_B g hn ns st st' hI hc heq
    · split at heq
      · cases heq
      · rename_i tcs st2 hres
        split at heq
        · cases heq
        · rename_i hemp
          have htcs : tcs = [] := by
            cases tcs with
            | nil => rfl
            | cons a b => simp at hemp
          subst htcs
          obtain ⟨hI2, hR2, _⟩ := calcNode_B g hn (g.nodes.length + 1) n [] st hI [] st2 hres
          exact go_B g hn ns st2 st' hI2 (clean_step hc hR2) heq

/-- **B. no unresolved cycle placeholder is visible after a successful assignment** (and no dependency on
    one is pending), in any node or edge weight map, whatever the graph and the start order — provided no
    terminal type is itself named `R#…` -/
theorem assignWeights_clean (g : G) (hn : NoPHTypes g) (order : List String) (st : AState)
    (h : assignWeights g order = .ok st) : Clean st := by
  unfold assignWeights at h
  split at h
  · cases h
  · exact (go_B g hn _ {} st inv2_init clean_init h).2

/-! ### pass 3: no empty weight map, all weights at least one -/
def Pos (p : String × Nat) : Prop := 1 ≤ p.2

theorem pos_closed : QClosed Pos :=
  ⟨fun _ a b ha _ => Nat.le_trans ha (Nat.le_max_left a b), fun _ _ _ => by show (1 : Nat) ≤ 2147483647; decide⟩

theorem foldl_ne_nil {β : Type} (f : WMap → β → WMap) (hf : ∀ a x, a ≠ [] → f a x ≠ []) (l : List β) (a : WMap) (h : a ≠ []) :
    l.foldl f a ≠ [] := foldl_inv (· ≠ []) f hf l a h

theorem foldl_ne_nil_of_first {β : Type} (f : WMap → β → WMap) (hf : ∀ a x, a ≠ [] → f a x ≠ [])
    (l : List β) (a : WMap) (hl : l ≠ []) (h1 : ∀ x, f a x ≠ []) : l.foldl f a ≠ [] := by
  cases l with
  | nil => exact absurd rfl hl
  | cons x rest => exact foldl_ne_nil f hf rest _ (h1 x)

theorem wsetMax_ne_nil (k : String) (v : Nat) (w : WMap) : wsetMax k v w ≠ [] :=
  ne_nil_of_keys (keys_wsetMax_self k v w)

theorem mem_edgeRefs_zero (g : G) (n : String) (h : (edgesOf g n) ≠ []) : (n, 0) ∈ edgeRefs g n := by
  unfold edgeRefs
  refine List.mem_map.2 ⟨0, ?_, rfl⟩
  rw [List.mem_range]
  cases hh : edgesOf g n with
  | nil => exact absurd hh h
  | cons a b => simp

theorem edges_ne_of_noErr (g : G) (n : String) (hnt : isTerminal (nodeType g n) = false) (h : noEdgesErr g n = false) :
    edgesOf g n ≠ [] := by
  unfold noEdgesErr at h
  rw [hnt] at h
  intro he
  rw [he] at h
  simp at h

theorem maxStrategy_ne (g : G) (n : String) (st st' : AState) (hnt : isTerminal (nodeType g n) = false)
    (hne : ∀ r ∈ edgeRefs g n, aget r st.edgeW ≠ []) (h : maxStrategy g n st = (none, st')) : aget n st'.nodeW ≠ [] := by
  unfold maxStrategy at h
  split at h
  · simp at h
  · rename_i herr
    simp only [Prod.mk.injEq, true_and] at h
    subst h
    simp only [aget_aset_self]
    have h0 := mem_edgeRefs_zero g n (edges_ne_of_noErr g n hnt (by simpa using herr))
    have := foldl_mem_post (fun (r : ERef) (acc : WMap) => aget r st.edgeW ≠ [] → acc ≠ [])
      (fun acc r => (aget r st.edgeW).foldl (fun a (p : String × Nat) => wsetMax p.1 p.2 a) acc) ?_ ?_ (edgeRefs g n) [] (n, 0) h0
    · exact this (hne _ h0)
    · intro acc r hr
      exact foldl_ne_nil_of_first _ (fun a x _ => wsetMax_ne_nil _ _ _) _ _ hr (fun x => wsetMax_ne_nil _ _ _)
    · intro acc r y hy hyr
      exact foldl_ne_nil _ (fun a x _ => wsetMax_ne_nil _ _ _) _ _ (hy hyr)

theorem mixedStrategy_ne (g : G) (n : String) (st st' : AState) (hnt : isTerminal (nodeType g n) = false)
    (h2 : 2 ≤ (edgesOf g n).length)
    (hne : ∀ r ∈ edgeRefs g n, aget r st.edgeW ≠ []) (h : mixedStrategy g n st = (none, st')) : aget n st'.nodeW ≠ [] := by
  unfold mixedStrategy at h
  split at h
  · simp at h
  · rename_i herr
    simp only [Prod.mk.injEq, true_and] at h
    subst h
    simp only [aget_aset_self]
    have hlen : (edgeRefs g n).length = (edgesOf g n).length := by unfold edgeRefs; simp
    have h0 := mem_edgeRefs_zero g n (edges_ne_of_noErr g n hnt (by simpa using herr))
    have hpres : ∀ (r : ERef) (a : WMap) (x : String × Nat), a ≠ [] →
        (match wget x.1 a with
          | none => if (r.2 != (edgeRefs g n).length - 1) = true then wset x.1 x.2 a else a
          | some v0 => wset x.1 (Nat.max v0 x.2) a) ≠ [] := by
      intro r a x ha
      split
      · split
        · exact wset_ne_nil _ _ _
        · exact ha
      · exact wset_ne_nil _ _ _
    have := foldl_mem_post (fun (r : ERef) (acc : WMap) => r.2 ≠ (edgeRefs g n).length - 1 → aget r st.edgeW ≠ [] → acc ≠ [])
      (fun acc r => (aget r st.edgeW).foldl (fun a (x : String × Nat) =>
        match wget x.1 a with
          | none => if (r.2 != (edgeRefs g n).length - 1) = true then wset x.1 x.2 a else a
          | some v0 => wset x.1 (Nat.max v0 x.2) a) acc) ?_ ?_ (edgeRefs g n) [] (n, 0) h0
    · exact this (by rw [hlen]; simp; omega) (hne _ h0)
    · intro acc r hr1 hr
      refine foldl_ne_nil_of_first _ (fun a x ha => hpres r a x ha) _ _ hr ?_
      intro x
      split
      · have : (r.2 != (edgeRefs g n).length - 1) = true := by simpa using hr1
        rw [this]; simp only [if_true]; exact wset_ne_nil _ _ _
      · exact wset_ne_nil _ _ _
    · intro acc r y hy hy1 hyr
      exact foldl_ne_nil _ (fun a x ha => hpres r a x ha) _ _ (hy hy1 hyr)

theorem edgeFix_ne {refID : String} {W : WMap} {D : List ERef} {s s' : AState} (h : EdgeFix refID W D s s') (hW : W ≠ [])
    (r' : ERef) (hne : aget r' s.edgeW ≠ []) : aget r' s'.edgeW ≠ [] := by
  obtain ⟨k, hk⟩ := keys_of_ne_nil _ hne
  by_cases e : k = refID
  · subst e
    by_cases hd : r' ∈ D
    · obtain ⟨k', hk'⟩ := keys_of_ne_nil _ hW
      exact ne_nil_of_keys (h.lowerW r' hd hk k' hk')
    · rw [h.other r' hd]; exact hne
  · exact ne_nil_of_keys (h.lower r' k hk e)

theorem fixNodeW_ne (refID : String) (Wn old : WMap) (hW : Wn ≠ []) (hold : old ≠ []) : fixNodeW refID Wn old ≠ [] := by
  unfold fixNodeW
  refine foldl_ne_nil_of_first _ ?_ _ _ hold ?_
  · intro a x ha
    split
    · exact foldl_ne_nil _ (fun a x _ => wsetMax_ne_nil _ _ _) _ _ ha
    · exact wsetMax_ne_nil _ _ _
  · intro x
    split
    · exact foldl_ne_nil_of_first _ (fun a x _ => wsetMax_ne_nil _ _ _) _ _ hW (fun x => wsetMax_ne_nil _ _ _)
    · exact wsetMax_ne_nil _ _ _

theorem nodeFix_ne (nodeCycle refID : String) (s0 : AState) (D : List ERef) :
    ∀ N, aget nodeCycle s0.nodeW ≠ [] → aget N s0.nodeW ≠ [] →
      aget N (D.foldl (fixNodeStep nodeCycle refID) s0).nodeW ≠ [] := by
  intro N hn hN
  let P : AState → Prop := fun s => ∀ M, aget M s0.nodeW ≠ [] → aget M s.nodeW ≠ []
  have key : P (D.foldl (fixNodeStep nodeCycle refID) s0) := by
    refine foldl_inv P _ ?_ D s0 (show P s0 from fun M h => h)
    intro s r hs
    show P _
    intro M hM
    rw [fixNodeStep_nodeW]
    by_cases e : M = r.1
    · subst e
      rw [aget_aset_self]
      exact fixNodeW_ne _ _ _ (hs _ hn) (hs _ hM)
    · rw [aget_aset_ne _ _ _ e]; exact hs M hM
  exact key N hN

/-! positivity through the fix-ups -/
theorem fixInner_pos (hasRefs : Bool) (r : ERef) (acc : WMap × AState) (kv2 : String × Nat) (ha : AllQ Pos acc.1)
    (hk : Pos kv2) : AllQ Pos (fixInner hasRefs r acc kv2).1 := by
  unfold fixInner
  split
  · exact allQ_wset _ _ ha hk
  · exact allQ_wset _ _ ha (Nat.le_trans hk (Nat.le_max_right _ _))

theorem fixMid_pos (refID : String) (hasRefs : Bool) (r : ERef) (W : WMap) (hW : AllQ Pos W) (acc : WMap × AState)
    (kv : String × Nat) (ha : AllQ Pos acc.1) (hk : Pos kv) : AllQ Pos (fixMid refID hasRefs r W acc kv).1 := by
  unfold fixMid
  split
  · exact foldl_inv_mem (fun (a : WMap × AState) => AllQ Pos a.1) _ _ _
      (fun a kv2 hkv2 h => fixInner_pos hasRefs r a kv2 h (hW kv2 hkv2)) ha
  · exact allQ_wsetMax pos_closed.max _ _ ha hk

theorem fixEdgeRes_pos (nodeCycle refID : String) (hasRefs : Bool) (s : AState) (r : ERef)
    (hW : AllQ Pos (aget nodeCycle s.nodeW)) (hold : AllQ Pos (aget r s.edgeW)) :
    AllQ Pos (fixEdgeRes nodeCycle refID hasRefs s r).1 := by
  unfold fixEdgeRes
  exact foldl_inv_mem (fun (a : WMap × AState) => AllQ Pos a.1) _ _ _
    (fun a kv hkv h => fixMid_pos refID hasRefs r _ hW a kv h (hold kv hkv)) (allQ_nil _)

theorem fixNodeW_pos (refID : String) (Wn old : WMap) (hW : AllQ Pos Wn) (hold : AllQ Pos old) :
    AllQ Pos (fixNodeW refID Wn old) := by
  unfold fixNodeW
  refine foldl_inv_mem (AllQ Pos) _ _ _ ?_ (allQ_nil _)
  intro acc kv hkv ha
  split
  · exact foldl_inv_mem (AllQ Pos) _ _ _ (fun a p hp h => allQ_wsetMax pos_closed.max _ _ h (hW p hp)) ha
  · exact allQ_wsetMax pos_closed.max _ _ ha (hold kv hkv)

def PosSt (st : AState) : Prop := (∀ r : ERef, AllQ Pos (aget r st.edgeW)) ∧ (∀ N : String, AllQ Pos (aget N st.nodeW))

theorem allQ_default (Q : String × Nat → Prop) : AllQ Q (default : WMap) := allQ_nil Q

theorem fixEdges_pos (nodeCycle refID : String) (hasRefs : Bool) (st : AState) (h : PosSt st) :
    PosSt (fixDependantEdgesWeight nodeCycle refID hasRefs st) := by
  rw [fixDependantEdgesWeight_eq]
  refine foldl_inv PosSt _ ?_ _ st h
  intro s r hs
  refine ⟨?_, ?_⟩
  · intro r'
    rw [fixEdgeStep_edgeW]
    by_cases e : r' = r
    · subst e; rw [aget_aset_self]; exact fixEdgeRes_pos _ _ _ _ _ (hs.2 _) (hs.1 _)
    · rw [aget_aset_ne _ _ _ e]; exact hs.1 r'
  · intro N; rw [fixEdgeStep_nodeW]; exact hs.2 N

theorem fixNodes_pos (nodeCycle refID : String) (st : AState) (h : PosSt st) :
    PosSt (fixDependantNodesWeight nodeCycle refID st) := by
  rw [fixDependantNodesWeight_eq]
  refine foldl_inv PosSt _ ?_ _ st h
  intro s r hs
  refine ⟨?_, ?_⟩
  · intro r'; rw [fixNodeStep_edgeW]; exact hs.1 r'
  · intro N
    rw [fixNodeStep_nodeW]
    by_cases e : N = r.1
    · subst e; rw [aget_aset_self]; exact fixNodeW_pos _ _ _ (hs.2 _) (hs.2 _)
    · rw [aget_aset_ne _ _ _ e]; exact hs.2 N

/-- a type-and-relation node, a union, an intersection, or an exclusion with at least two edges -/
def GoodNode (g : G) (v : String) : Prop :=
  nodeType g v = .typeAndRelation ∨
  (nodeType g v = .operator ∧ (nodeLabel g v = "union" ∨ nodeLabel g v = "intersection" ∨
    (nodeLabel g v = "exclusion" ∧ 2 ≤ (edgesOf g v).length)))

structure Inv3 (g : G) (K : List String) (st : AState) : Prop where
  ne : ∀ v ∈ st.visited, v ∉ K → GoodNode g v → aget v st.nodeW ≠ []
  ed : ∀ v ∈ st.visited, v ∉ K → ∀ r ∈ edgeRefs g v, aget r st.edgeW ≠ []
  pos : PosSt st

structure Rel3 (st st' : AState) : Prop where
  e : ∀ r : ERef, aget r st.edgeW ≠ [] → aget r st'.edgeW ≠ []
  n : ∀ N : String, aget N st.nodeW ≠ [] → aget N st'.nodeW ≠ []
  vm : ∀ v ∈ st.visited, v ∈ st'.visited

theorem Rel3.refl (st : AState) : Rel3 st st := ⟨fun _ h => h, fun _ h => h, fun _ h => h⟩
theorem Rel3.trans {a b c : AState} (h1 : Rel3 a b) (h2 : Rel3 b c) : Rel3 a c :=
  ⟨fun r h => h2.e r (h1.e r h), fun N h => h2.n N (h1.n N h), fun v h => h2.vm v (h1.vm v h)⟩
theorem Rel3.of_core {st st' st'' : AState} (h : Rel3 st st') (hN : st''.nodeW = st'.nodeW) (hE : st''.edgeW = st'.edgeW)
    (hV : st''.visited = st'.visited) : Rel3 st st'' := by
  refine ⟨?_, ?_, ?_⟩
  · rw [hE]; exact h.e
  · rw [hN]; exact h.n
  · rw [hV]; exact h.vm
theorem Inv3.of_core {g : G} {K : List String} {st st' : AState} (h : Inv3 g K st) (hN : st'.nodeW = st.nodeW)
    (hE : st'.edgeW = st.edgeW) (hV : st'.visited = st.visited) : Inv3 g K st' := by
  refine ⟨?_, ?_, ?_, ?_⟩
  · rw [hN, hV]; exact h.ne
  · rw [hE, hV]; exact h.ed
  · rw [hE]; exact h.pos.1
  · rw [hN]; exact h.pos.2

/-- the resolution of a cycle reference keeps weight maps non-empty and weights positive -/
theorem cafFinal_C (g : G) (n : String) (stL : AState) (hpos : PosSt stL) (hW : (cafRes g n stL).1 ≠ []) :
    PosSt (cafFinal g n stL) ∧ Rel3 stL (cafFinal g n stL) ∧ aget n (cafFinal g n stL).nodeW ≠ [] ∧
    (cafFinal g n stL).visited = stL.visited := by
  obtain ⟨hWfrom, hWref, hWrefs⟩ := cafRes_fromEdges g n stL
  have hWhr : ∀ k, Keys (cafRes g n stL).1 k → isPH k = true → (!(cafRes g n stL).2.isEmpty) = true := by
    intro k hk hp
    have := hWrefs k hk hp
    cases h : (cafRes g n stL).2 with
    | nil => exact absurd h this
    | cons a b => rfl
  have hWpos : AllQ Pos (cafRes g n stL).1 := hWfrom.2 Pos pos_closed (fun r _ => hpos.1 r)
  obtain ⟨st1, hst1⟩ : ∃ s : AState, s = { stL with nodeW := aset n (cafRes g n stL).1 stL.nodeW } := ⟨_, rfl⟩
  have h1n : aget n st1.nodeW = (cafRes g n stL).1 := by rw [hst1]; exact aget_aset_self ..
  have h1ne : ∀ N, N ≠ n → aget N st1.nodeW = aget N stL.nodeW := by
    intro N h; rw [hst1]; exact aget_aset_ne _ _ _ h _
  have h1E : st1.edgeW = stL.edgeW := by rw [hst1]
  have pos1 : PosSt st1 := by
    refine ⟨fun r => h1E ▸ hpos.1 r, fun N => ?_⟩
    by_cases e : N = n
    · subst e; rw [h1n]; exact hWpos
    · rw [h1ne N e]; exact hpos.2 N
  obtain ⟨st2, hst2⟩ : ∃ s, s = fixDependantEdgesWeight n ("R#" ++ n) (!(cafRes g n stL).2.isEmpty) st1 := ⟨_, rfl⟩
  obtain ⟨st3, hst3⟩ : ∃ s, s = fixDependantNodesWeight n ("R#" ++ n) st2 := ⟨_, rfl⟩
  have hfin : cafFinal g n stL = { st3 with deps := adel n st3.deps } := by
    subst hst3 hst2 hst1; rfl
  have hE : EdgeFix ("R#" ++ n) (cafRes g n stL).1 (aget n st1.deps) st1 st2 := by
    rw [hst2, fixDependantEdgesWeight_eq]
    exact edgeFix_fold n ("R#" ++ n) _ _ hWref hWhr _ st1 h1n
  have pos2 : PosSt st2 := hst2 ▸ fixEdges_pos _ _ _ _ pos1
  have pos3 : PosSt st3 := hst3 ▸ fixNodes_pos _ _ _ pos2
  have e3E : st3.edgeW = st2.edgeW := hst3 ▸ fixNodes_edgeW ..
  have e3V : st3.visited = stL.visited := by
    rw [hst3, fixNodes_visited, hst2, fixEdges_visited, hst1]
  have n2 : aget n st2.nodeW ≠ [] := by rw [hE.nodeW, h1n]; exact hW
  have hn3 : ∀ N, aget N st2.nodeW ≠ [] → aget N st3.nodeW ≠ [] := by
    intro N hN
    rw [hst3, fixDependantNodesWeight_eq]
    exact nodeFix_ne n ("R#" ++ n) st2 _ N n2 hN
  rw [hfin]
  refine ⟨⟨pos3.1, pos3.2⟩, ⟨?_, ?_, ?_⟩, hn3 n n2, e3V⟩
  · intro r hr
    show aget r st3.edgeW ≠ []
    rw [e3E]
    exact edgeFix_ne hE hW r (h1E ▸ hr)
  · intro N hN
    show aget N st3.nodeW ≠ []
    apply hn3
    rw [hE.nodeW]
    by_cases e : N = n
    · subst e; rw [h1n]; exact hW
    · rw [h1ne N e]; exact hN
  · intro v hv
    show v ∈ st3.visited
    rw [e3V]; exact hv

theorem nt_eq_of_bne_false (a b : NodeType) (h : (a != b) = false) : a = b := by
  cases a <;> cases b <;> first | rfl | (revert h; decide)

theorem calcAndFix_cases (g : G) (nodeID : String) (st : AState) :
    (∃ e, calcAndFix g nodeID st = (some e, st)) ∨
    (calcAndFix g nodeID st = (none, cafFinal g nodeID st) ∧ (cafRes g nodeID st).1 ≠ []) := by
  rw [calcAndFix_eq]
  split
  · exact Or.inl ⟨_, rfl⟩
  · split
    · exact Or.inl ⟨_, rfl⟩
    · split
      · exact Or.inl ⟨_, rfl⟩
      · rename_i hne
        refine Or.inr ⟨rfl, ?_⟩
        intro h; rw [h] at hne; simp at hne

/-- a node that finishes without error has a non-empty weight map -/
theorem fromTheEdges_ne (g : G) (n : String) (tcs : List String) (st : AState) (tc : List String) (st' : AState)
    (hnt : isTerminal (nodeType g n) = false) (hgood : GoodNode g n) (hpos : PosSt st)
    (hne : ∀ r ∈ edgeRefs g n, aget r st.edgeW ≠ []) (h : fromTheEdges g n tcs st = ((tc, none), st')) :
    aget n st'.nodeW ≠ [] := by
  have hmaxL : ∀ t : List String, ((t, (maxStrategy g n st).1), (maxStrategy g n st).2) = ((tc, none), st') →
      aget n st'.nodeW ≠ [] := by
    intro t hh
    simp only [Prod.mk.injEq] at hh
    exact maxStrategy_ne g n st st' hnt hne (Prod.ext hh.1.2 hh.2)
  have hcafL : ∀ t : List String, (match calcAndFix g n st with
        | (some e, st) => ((t, some e), st)
        | (none, st) => ((t.filter (· != n), none), st)) = ((tc, none), st') → aget n st'.nodeW ≠ [] := by
    intro t hh
    rcases calcAndFix_cases g n st with ⟨e, he⟩ | ⟨he, hW⟩
    · rw [he] at hh; simp at hh
    · rw [he] at hh
      simp only [Prod.mk.injEq] at hh
      rw [← hh.2]
      exact (cafFinal_C g n st hpos hW).2.2.1
  unfold fromTheEdges at h
  simp only at h
  split at h
  · split at h
    · exact hmaxL _ h
    · rename_i hop
      have hop' : nodeType g n = .operator := nt_eq_of_bne_false _ _ (by simpa using hop)
      split at h
      · exact hmaxL _ h
      · rename_i hun
        split at h
        · rcases enforceTypeStrategy_spec g n st with ⟨e, he⟩ | ⟨w, hw, _, hwne⟩
          · rw [he] at h; simp at h
          · rw [hw] at h
            simp only [Prod.mk.injEq] at h
            rw [← h.2]
            simp only [aget_aset_self]
            exact hwne
        · rename_i hint
          split at h
          · rename_i hexc
            have h2 : 2 ≤ (edgesOf g n).length := by
              rcases hgood with hg | ⟨_, hg | hg | hg⟩
              · rw [hop'] at hg; cases hg
              · simp [hg] at hun
              · simp [hg] at hint
              · exact hg.2
            simp only [Prod.mk.injEq] at h
            exact mixedStrategy_ne g n st st' hnt h2 hne (Prod.ext h.1.2 h.2)
          · rename_i hexc
            exfalso
            rcases hgood with hg | ⟨_, hg | hg | hg⟩
            · rw [hop'] at hg; cases hg
            · simp [hg] at hun
            · simp [hg] at hint
            · simp [hg.1] at hexc
  · split at h
    · exact hcafL _ h
    · split at h
      · exact hmaxL _ h
      · split at h
        · split at h
          · exact hcafL _ h
          · exact hmaxL _ h
        · simp at h

/-- edges keep their weights, `visited` grows -/
structure RelE (st st' : AState) : Prop where
  e : ∀ r : ERef, aget r st.edgeW ≠ [] → aget r st'.edgeW ≠ []
  vm : ∀ v ∈ st.visited, v ∈ st'.visited

theorem RelE.refl (st : AState) : RelE st st := ⟨fun _ h => h, fun _ h => h⟩
theorem RelE.trans {a b c : AState} (h1 : RelE a b) (h2 : RelE b c) : RelE a c :=
  ⟨fun r h => h2.e r (h1.e r h), fun v h => h2.vm v (h1.vm v h)⟩
theorem RelE.of_core {st st' st'' : AState} (h : RelE st st') (hE : st''.edgeW = st'.edgeW)
    (hV : st''.visited = st'.visited) : RelE st st'' := by
  refine ⟨?_, ?_⟩
  · rw [hE]; exact h.e
  · rw [hV]; exact h.vm

theorem fromTheEdges_C (g : G) (n : String) (K : List String) (tcs : List String) (stL : AState) (tc : List String) (st' : AState)
    (hnt : isTerminal (nodeType g n) = false) (hI : Inv3 g (n :: K) stL)
    (hne : ∀ r ∈ edgeRefs g n, aget r stL.edgeW ≠ []) (h : fromTheEdges g n tcs stL = ((tc, none), st')) :
    Inv3 g K st' ∧ RelE stL st' := by
  have hgoodne := fun hgood => fromTheEdges_ne g n tcs stL tc st' hnt hgood hI.pos hne h
  -- positivity, visited, and the other nodes
  have main : PosSt st' ∧ RelE stL st' ∧ st'.visited = stL.visited ∧
      (∀ v, v ≠ n → aget v stL.nodeW ≠ [] → aget v st'.nodeW ≠ []) := by
    rcases fromTheEdges_cases g n tcs stL with ⟨t, e, s, hc⟩ | hc | ⟨w, hc, hw⟩ | ⟨hc, hW⟩
    · rw [hc] at h; simp at h
    · rw [hc] at h
      simp only [Prod.mk.injEq] at h
      rw [← h.2]
      exact ⟨hI.pos, RelE.refl _, rfl, fun v _ hv => hv⟩
    · rw [hc] at h
      simp only [Prod.mk.injEq] at h
      rw [← h.2]
      refine ⟨⟨hI.pos.1, fun N => ?_⟩, ⟨fun r hr => hr, fun v hv => hv⟩, rfl, fun v hvn hv => ?_⟩
      · show AllQ Pos (aget N (aset n w stL.nodeW))
        by_cases e : N = n
        · subst e; rw [aget_aset_self]; exact hw.2 Pos pos_closed (fun r _ => hI.pos.1 r)
        · rw [aget_aset_ne _ _ _ e]; exact hI.pos.2 N
      · show aget v (aset n w stL.nodeW) ≠ []
        rw [aget_aset_ne _ _ _ hvn]; exact hv
    · rw [hc] at h
      simp only [Prod.mk.injEq] at h
      rw [← h.2]
      obtain ⟨c1, c2, _, c4⟩ := cafFinal_C g n stL hI.pos hW
      exact ⟨c1, ⟨c2.e, c2.vm⟩, c4, fun v _ hv => c2.n v hv⟩
  obtain ⟨m1, m2, m3, m4⟩ := main
  refine ⟨⟨?_, ?_, m1⟩, m2⟩
  rotate_left
  · intro v hv hvK r hr
    apply m2.e
    by_cases e : v = n
    · subst e; exact hne r hr
    · apply hI.ed v (m3 ▸ hv) _ r hr
      intro hh
      rcases List.mem_cons.1 hh with hh | hh
      · exact e hh
      · exact hvK hh
  intro v hv hvK hgood
  by_cases e : v = n
  · subst e; exact hgoodne hgood
  · apply m4 v e
    apply hI.ne v (m3 ▸ hv) _ hgood
    intro hh
    rcases List.mem_cons.1 hh with hh | hh
    · exact e hh
    · exact hvK hh

theorem write_edge_C (g : G) (K : List String) (st st' : AState) (r : ERef) (w : WMap) (hI : Inv3 g K st)
    (hN : st'.nodeW = st.nodeW) (hV : st'.visited = st.visited) (hE : st'.edgeW = aset r w st.edgeW)
    (hw : w ≠ []) (hp : AllQ Pos w) : Inv3 g K st' ∧ RelE st st' ∧ aget r st'.edgeW ≠ [] := by
  have hself : aget r st'.edgeW = w := by rw [hE, aget_aset_self]
  have hne : ∀ r', r' ≠ r → aget r' st'.edgeW = aget r' st.edgeW := by
    intro r' h; rw [hE, aget_aset_ne _ _ _ h]
  refine ⟨⟨?_, ?_, ?_, ?_⟩, ⟨?_, ?_⟩, hself ▸ hw⟩
  · rw [hN, hV]; exact hI.ne
  · rw [hV]
    intro v hv hvK r' hr'
    by_cases e : r' = r
    · subst e; rw [hself]; exact hw
    · rw [hne r' e]; exact hI.ed v hv hvK r' hr'
  · intro r'
    by_cases e : r' = r
    · subst e; rw [hself]; exact hp
    · rw [hne r' e]; exact hI.pos.1 r'
  · rw [hN]; exact hI.pos.2
  · intro r' hr'
    by_cases e : r' = r
    · subst e; rw [hself]; exact hw
    · rw [hne r' e]; exact hr'
  · rw [hV]; exact fun v hv => hv

theorem scan_core (b : Bool) (r : ERef) (toW : WMap) (acc : List String × AState) :
    (toW.foldl (scanStep b r) acc).2.nodeW = acc.2.nodeW ∧ (toW.foldl (scanStep b r) acc).2.edgeW = acc.2.edgeW ∧
    (toW.foldl (scanStep b r) acc).2.visited = acc.2.visited := by
  refine foldl_inv (fun (a : List String × AState) => a.2.nodeW = acc.2.nodeW ∧ a.2.edgeW = acc.2.edgeW ∧
    a.2.visited = acc.2.visited) _ ?_ _ acc ⟨rfl, rfl, rfl⟩
  intro a kv h
  unfold scanStep
  split
  · exact h
  · exact h

theorem addDeps_core (r : ERef) (tc : List String) (st : AState) :
    (tc.foldl (fun st n => addDep n r st) st).nodeW = st.nodeW ∧ (tc.foldl (fun st n => addDep n r st) st).edgeW = st.edgeW ∧
    (tc.foldl (fun st n => addDep n r st) st).visited = st.visited := by
  refine foldl_inv (fun (s : AState) => s.nodeW = st.nodeW ∧ s.edgeW = st.edgeW ∧ s.visited = st.visited)
    (fun st n => addDep n r st) ?_ tc st ⟨rfl, rfl, rfl⟩
  intro s n h
  exact h

theorem edgeCopy_ne (e : WEdge) (w : WMap) (h : w ≠ []) : edgeCopy e w ≠ [] := by
  unfold edgeCopy
  split
  · cases w with
    | nil => exact absurd rfl h
    | cons a b => simp
  · exact h

theorem edgeCopy_pos (e : WEdge) (w : WMap) (h : AllQ Pos w) : AllQ Pos (edgeCopy e w) := by
  unfold edgeCopy
  split
  · intro p hp
    obtain ⟨q, hq, rfl⟩ := List.mem_map.1 hp
    obtain ⟨k, v⟩ := q
    have := h _ hq
    show 1 ≤ (if v == infinite then v else v + 1)
    split
    · exact this
    · exact Nat.le_add_left 1 v
  · exact h

def RecC (g : G) (rec : String → List WEdge → AState → Res) : Prop :=
  ∀ n path st K, Inv3 g K st → ∀ tc st', rec n path st = ((tc, none), st') → Inv3 g K st' ∧ RelE st st'

theorem ph_pos (d : String) : AllQ Pos [("R#" ++ d, infinite)] := by
  intro p hp
  simp only [List.mem_singleton] at hp
  subst hp
  show (1 : Nat) ≤ 2147483647
  decide

theorem calcEdgeWith_C (g : G) (rec : String → List WEdge → AState → Res) (hrec : RecC g rec) (K : List String) (r : ERef)
    (e : WEdge) (path : List WEdge) (st : AState) (hI : Inv3 g K st) (tc : List String) (st' : AState)
    (h : calcEdgeWith rec g r e path st = ((tc, none), st')) :
    Inv3 g K st' ∧ RelE st st' ∧ aget r st'.edgeW ≠ [] := by
  rw [calcEdgeWith_eq] at h
  split at h
  · simp only [Prod.mk.injEq] at h
    obtain ⟨_, rfl⟩ := h
    exact write_edge_C g K st _ r _ hI rfl rfl rfl (by simp) (ph_pos _)
  · split at h
    · simp at h
    · rename_i tc1 st1 heq
      obtain ⟨hI1, hR1⟩ := hrec e.dst (path ++ [e]) st K hI tc1 st1 heq
      split at h
      · split at h
        · simp only [Prod.mk.injEq] at h
          obtain ⟨_, rfl⟩ := h
          obtain ⟨a, b, c⟩ := write_edge_C g K st1 (addDep e.dst r { st1 with edgeW := aset r [("R#" ++ e.dst, infinite)] st1.edgeW })
            r _ hI1 rfl rfl rfl (by simp) (ph_pos _)
          exact ⟨a, hR1.trans b, c⟩
        · simp at h
      · rename_i hne
        simp only [Prod.mk.injEq] at h
        obtain ⟨_, rfl⟩ := h
        have hcore := scan_core (!tc1.isEmpty) r (aget e.dst st1.nodeW)
          (tc1, if (!tc1.isEmpty) = true then tc1.foldl (fun st n => addDep n r st) st1 else st1)
        have hX : (if (!tc1.isEmpty) = true then tc1.foldl (fun st n => addDep n r st) st1 else st1).nodeW = st1.nodeW ∧
            (if (!tc1.isEmpty) = true then tc1.foldl (fun st n => addDep n r st) st1 else st1).edgeW = st1.edgeW ∧
            (if (!tc1.isEmpty) = true then tc1.foldl (fun st n => addDep n r st) st1 else st1).visited = st1.visited := by
          split
          · exact addDeps_core r tc1 st1
          · exact ⟨rfl, rfl, rfl⟩
        have htoW : aget e.dst st1.nodeW ≠ [] := by
          intro hh; rw [hh] at hne; simp at hne
        obtain ⟨sc, hsc⟩ : ∃ s, s = (aget e.dst st1.nodeW).foldl (scanStep (!tc1.isEmpty) r)
          (tc1, if (!tc1.isEmpty) = true then tc1.foldl (fun st n => addDep n r st) st1 else st1) := ⟨_, rfl⟩
        rw [← hsc] at hcore ⊢
        obtain ⟨a, b, c⟩ := write_edge_C g K st1 { sc.2 with edgeW := aset r (edgeCopy e (aget e.dst st1.nodeW)) sc.2.edgeW }
          r (edgeCopy e (aget e.dst st1.nodeW)) hI1
          (hcore.1.trans hX.1) (hcore.2.2.trans hX.2.2) (by
            show aset r _ sc.2.edgeW = aset r _ _
            rw [hcore.2.1, hX.2.1]) (edgeCopy_ne e _ htoW) (edgeCopy_pos e _ (hI1.pos.2 _))
        exact ⟨a, hR1.trans b, c⟩

theorem edgeLoop_C (g : G) (rec : String → List WEdge → AState → Res) (hrec : RecC g rec) (K : List String) (nodeID : String)
    (path : List WEdge) : ∀ (es : List (ERef × WEdge)) (tcs : List String) (st : AState), Inv3 g K st →
      ∀ tcs' st', edgeLoop rec g nodeID path es tcs st = ((tcs', none), st') →
        Inv3 g K st' ∧ RelE st st' ∧ ∀ p ∈ es, aget p.1 st'.edgeW ≠ []
  | [], tcs, st, hI, tcs', st', h => by
    simp only [edgeLoop, Prod.mk.injEq] at h
    obtain ⟨_, rfl⟩ := h
    exact ⟨hI, RelE.refl _, fun p hp => by cases hp⟩
  | (r, e) :: rest, tcs, st, hI, tcs', st', h => by
    unfold edgeLoop at h
    split at h
    · rename_i hemp
      obtain ⟨i1, i2, i3⟩ := edgeLoop_C g rec hrec K nodeID path rest tcs st hI tcs' st' h
      refine ⟨i1, i2, fun p hp => ?_⟩
      rcases List.mem_cons.1 hp with rfl | hp
      · apply i2.e
        intro hh; rw [hh] at hemp; simp at hemp
      · exact i3 p hp
    · simp only at h
      split at h
      · obtain ⟨stW, hstW⟩ : ∃ s : AState, s = (if (nodeType g e.dst == NodeType.wildcard) = true then
            addEdgeWildcardsToNode nodeID r (addWildcardToEdge
              (if (nodeType g e.dst == NodeType.wildcard) = true then (e.dst.dropEnd 2).toString else e.dst) r st) else st) :=
          ⟨_, rfl⟩
        rw [← hstW] at h
        have cN : stW.nodeW = st.nodeW := by rw [hstW]; split <;> simp
        have cE : stW.edgeW = st.edgeW := by rw [hstW]; split <;> simp
        have cV : stW.visited = st.visited := by rw [hstW]; split <;> simp
        obtain ⟨a, b, c⟩ := write_edge_C g K st { stW with edgeW := aset r [(termKey g e.dst, 1)] stW.edgeW } r
          [(termKey g e.dst, 1)] hI cN cV (by show aset r _ stW.edgeW = _; rw [cE]) (by simp) (by
            intro p hp
            simp only [List.mem_singleton] at hp
            subst hp
            exact Nat.le_refl 1)
        obtain ⟨i1, i2, i3⟩ := edgeLoop_C g rec hrec K nodeID path rest tcs _ a tcs' st' h
        refine ⟨i1, b.trans i2, fun p hp => ?_⟩
        rcases List.mem_cons.1 hp with rfl | hp
        · exact i2.e _ c
        · exact i3 p hp
      · split at h
        · simp at h
        · rename_i heq
          obtain ⟨tc, htc⟩ : ∃ t, t = (calcEdgeWith rec g r e path st).1.1 := ⟨_, rfl⟩
          obtain ⟨stC, hstC⟩ : ∃ s, s = (calcEdgeWith rec g r e path st).2 := ⟨_, rfl⟩
          have heq' : calcEdgeWith rec g r e path st = ((tc, none), stC) := by
            rw [htc, hstC]; exact Prod.ext (Prod.ext rfl heq) rfl
          rw [← htc, ← hstC] at h
          obtain ⟨a, b, c⟩ := calcEdgeWith_C g rec hrec K r e path st hI tc stC heq'
          have a' : Inv3 g K (addEdgeWildcardsToNode nodeID r (calculateEdgeWildcards e.dst r stC)) :=
            a.of_core (by simp) (by simp) (by simp)
          have b' : RelE st (addEdgeWildcardsToNode nodeID r (calculateEdgeWildcards e.dst r stC)) :=
            b.of_core (by simp) (by simp)
          obtain ⟨i1, i2, i3⟩ := edgeLoop_C g rec hrec K nodeID path rest (tcs ++ tc) _ a' tcs' st' h
          refine ⟨i1, b'.trans i2, fun p hp => ?_⟩
          rcases List.mem_cons.1 hp with rfl | hp
          · apply i2.e
            simp only [addEdgeWildcardsToNode_edgeW, calculateEdgeWildcards_edgeW]
            exact c
          · exact i3 p hp

theorem refs_cover (g : G) (n : String) (r : ERef) (hr : r ∈ edgeRefs g n) :
    ∃ e, (r, e) ∈ ((List.range (edgesOf g n).length).zip (edgesOf g n) |>.map (fun (i, e) => ((n, i), e))) := by
  unfold edgeRefs at hr
  obtain ⟨i, hi, rfl⟩ := List.mem_map.1 hr
  rw [List.mem_range] at hi
  refine ⟨(edgesOf g n)[i], List.mem_map.2 ⟨(i, (edgesOf g n)[i]), ?_, rfl⟩⟩
  rw [List.mem_iff_getElem]
  exact ⟨i, by simp [hi], by simp⟩

theorem calcNode_C (g : G) : ∀ (fuel : Nat), RecC g (calcNode fuel g)
  | 0 => by
    intro n path st K _ tc st' h
    simp [calcNode] at h
  | fuel+1 => by
    intro n path st K hI tc st' h
    unfold calcNode at h
    split at h
    · simp only [Prod.mk.injEq] at h
      obtain ⟨_, rfl⟩ := h
      exact ⟨hI, RelE.refl _⟩
    · split at h
      · simp only [Prod.mk.injEq] at h
        obtain ⟨_, rfl⟩ := h
        exact ⟨hI, RelE.refl _⟩
      · rename_i hc ht
        have hnt : isTerminal (nodeType g n) = false := by simpa using ht
        simp only at h
        have hI0 : Inv3 g (n :: K) { st with visited := n :: st.visited } := by
          refine ⟨?_, ?_, hI.pos⟩
          · intro v hv hvK hgood
            have hvn : v ≠ n := fun e => hvK (e ▸ List.mem_cons_self ..)
            rcases List.mem_cons.1 hv with e | hv
            · exact absurd e hvn
            · exact hI.ne v hv (fun hh => hvK (List.mem_cons_of_mem _ hh)) hgood
          · intro v hv hvK r hr
            have hvn : v ≠ n := fun e => hvK (e ▸ List.mem_cons_self ..)
            rcases List.mem_cons.1 hv with e | hv
            · exact absurd e hvn
            · exact hI.ed v hv (fun hh => hvK (List.mem_cons_of_mem _ hh)) r hr
        split at h
        · simp at h
        · rename_i tcs stL heq
          obtain ⟨hIL, hRL, hall⟩ := edgeLoop_C g (calcNode fuel g) (calcNode_C g fuel) (n :: K) n path _ [] _ hI0 tcs stL heq
          have hne : ∀ r ∈ edgeRefs g n, aget r stL.edgeW ≠ [] := by
            intro r hr
            obtain ⟨e, he⟩ := refs_cover g n r hr
            exact hall _ he
          obtain ⟨a, b⟩ := fromTheEdges_C g n K tcs stL tc st' hnt hIL hne h
          exact ⟨a, ⟨fun r hr => b.e r (hRL.e r hr), fun v hv => b.vm v (hRL.vm v (List.mem_cons_of_mem _ hv))⟩⟩

theorem go_C (g : G) : ∀ (ns : List String) (st st' : AState), Inv3 g [] st →
    assignWeights.go g ns st = .ok st' → Inv3 g [] st'
  | [], st, st', hI, heq => by
    simp only [assignWeights.go] at heq
    cases heq; exact hI
  | n :: ns, st, st', hI, heq => by
    unfold assignWeights.go at heq
    split at heq
    · exact go_C g ns st st' hI heq
    · split at heq
      · cases heq
      · rename_i tcs st2 hres
        split at heq
        · cases heq
        · exact go_C g ns st2 st' (calcNode_C g (g.nodes.length + 1) n [] st [] hI tcs st2 hres).1 heq

theorem inv3_init (g : G) : Inv3 g [] {} :=
  ⟨fun v hv => (by cases hv), fun v hv => (by cases hv), ⟨fun r => allQ_nil _, fun N => allQ_nil _⟩⟩

/-- **C. no relation, union, intersection (or exclusion with a base and a subtracted operand) is left with an
    empty weight map**, and **E. every weight is at least one** -/
theorem assignWeights_nonempty (g : G) (order : List String) (st : AState) (h : assignWeights g order = .ok st) :
    (∀ n ∈ g.nodes, GoodNode g n.uniqueLabel → aget n.uniqueLabel st.nodeW ≠ []) ∧
    (∀ (N : String) p, p ∈ aget N st.nodeW → 1 ≤ p.2) ∧ (∀ (r : ERef) p, p ∈ aget r st.edgeW → 1 ≤ p.2) ∧
    (∀ v ∈ st.visited, ∀ r ∈ edgeRefs g v, aget r st.edgeW ≠ []) := by
  have hvis := (assignWeights_visited g order st h).1
  unfold assignWeights at h
  split at h
  · cases h
  · have hI := go_C g _ {} st (inv3_init g) h
    refine ⟨?_, fun N p hp => hI.pos.2 N p hp, fun r p hp => hI.pos.1 r p hp,
      fun v hv r hr => hI.ed v hv (fun hh => by cases hh) r hr⟩
    intro n hn hgood
    apply hI.ne _ _ (fun hh => by cases hh) hgood
    apply hvis n hn
    rcases hgood with hg | ⟨hg, _⟩ <;> (rw [hg]; rfl)

/-- **E. weights and dependencies exist only for visited (hence non-terminal, existing) nodes of the graph** -/
theorem assignWeights_support (g : G) (hn : NoPHTypes g) (order : List String) (st : AState)
    (h : assignWeights g order = .ok st) :
    (∀ N, aget N st.nodeW ≠ [] → N ∈ st.visited ∧ (g.node? N).isSome = true) ∧
    (∀ r : ERef, aget r st.edgeW ≠ [] → r.1 ∈ st.visited ∧ (g.node? r.1).isSome = true) := by
  have hvis := (assignWeights_visited g order st h).2.2
  have hsome : ∀ v ∈ st.visited, (g.node? v).isSome = true := by
    intro v hv
    have := hvis v hv
    unfold nodeType at this
    cases hh : g.node? v with
    | none =>
      rw [hh] at this
      exact absurd this (by decide)
    | some x => rfl
  unfold assignWeights at h
  split at h
  · cases h
  · have hI := (go_B g hn _ {} st inv2_init clean_init h).1
    exact ⟨fun N hN => ⟨hI.v2 N hN, hsome _ (hI.v2 N hN)⟩, fun r hr => ⟨hI.v1 r hr, hsome _ (hI.v1 r hr)⟩⟩


/-! ### pass 4: the edge rule.  Weight maps as functions -/
theorem wget_none_of_lt (k : String) (w : WMap) (h : ∀ x ∈ w, k < x.1) : wget k w = none := by
  induction w with
  | nil => rfl
  | cons kv rest ih =>
    obtain ⟨k', v'⟩ := kv
    have hlt : k < k' := h (k', v') (by simp)
    have hne : (k == k') = false := by
      have : k ≠ k' := fun e => String.lt_irrefl k' (e ▸ hlt)
      simpa using this
    simp only [wget, hne, Bool.false_eq_true, if_false]
    exact ih (fun x hx => h x (by simp [hx]))

theorem wget_tail_none {k : String} {v : Nat} {rest : WMap} (h : SortedM ((k, v) :: rest)) : wget k rest = none :=
  wget_none_of_lt k rest h.head_lt

def optMax : Option Nat → Option Nat → Option Nat
  | none, b => b
  | a, none => a
  | some a, some b => some (Nat.max a b)

theorem optMax_none_left (a : Option Nat) : optMax none a = a := by cases a <;> rfl
theorem optMax_none_right (a : Option Nat) : optMax a none = a := by cases a <;> rfl
theorem optMax_comm (a b : Option Nat) : optMax a b = optMax b a := by
  cases a <;> cases b <;> simp [optMax, Nat.max_comm]
theorem optMax_assoc (a b c : Option Nat) : optMax (optMax a b) c = optMax a (optMax b c) := by
  cases a <;> cases b <;> cases c <;> simp [optMax, Nat.max_assoc]
theorem optMax_self (a : Option Nat) : optMax a a = a := by cases a <;> simp [optMax]

theorem wget_wset_self (k : String) (v : Nat) : ∀ (w : WMap), wget k (wset k v w) = some v
  | [] => by simp [wset, wget]
  | (k', v') :: rest => by
    unfold wset
    split
    · simp [wget]
    · rename_i hne
      split
      · simp [wget]
      · simp only [wget, hne, if_false]
        exact wget_wset_self k v rest

theorem wget_wset_ne (k : String) (v : Nat) (k2 : String) (hne : k2 ≠ k) : ∀ (w : WMap), wget k2 (wset k v w) = wget k2 w
  | [] => by
    have : (k2 == k) = false := by simpa using hne
    simp [wset, wget, this]
  | (k', v') :: rest => by
    unfold wset
    split
    · rename_i hk
      have e : k = k' := by simpa using hk
      subst e
      have : (k2 == k) = false := by simpa using hne
      simp [wget, this]
    · split
      · have : (k2 == k) = false := by simpa using hne
        simp only [wget, this, Bool.false_eq_true, if_false]
      · by_cases h2 : (k2 == k') = true
        · simp [wget, h2]
        · simp only [wget, h2, if_false]
          exact wget_wset_ne k v k2 hne rest

theorem wget_wsetMax (k : String) (v : Nat) (w : WMap) (k2 : String) :
    wget k2 (wsetMax k v w) = if k2 = k then optMax (wget k w) (some v) else wget k2 w := by
  unfold wsetMax
  by_cases e : k2 = k
  · subst e
    simp only [if_true]
    split
    · rename_i hn; rw [wget_wset_self, hn]; rfl
    · rename_i v0 hv0; rw [wget_wset_self, hv0]; rfl
  · simp only [e, if_false]
    split <;> exact wget_wset_ne _ _ _ e _

theorem wget_isSome_iff_keys (k : String) (w : WMap) : (wget k w).isSome = true ↔ Keys w k := by
  constructor
  · intro h
    obtain ⟨v, hv⟩ := Option.isSome_iff_exists.1 h
    exact ⟨v, wget_some_mem k w v hv⟩
  · intro h
    cases hw : wget k w with
    | none => exact absurd h (wget_none_not_keys k w hw)
    | some v => rfl

/-- the maximum over all entries with key `k` -/
def allMax (k : String) : WMap → Option Nat
  | [] => none
  | (k', v) :: rest => optMax (if k == k' then some v else none) (allMax k rest)

theorem allMax_eq_wget (k : String) : ∀ (w : WMap), SortedM w → allMax k w = wget k w
  | [], _ => rfl
  | (k', v') :: rest, hs => by
    simp only [allMax, wget]
    by_cases hk : (k == k') = true
    · have : k = k' := by simpa using hk
      subst this
      have hn := wget_tail_none hs
      rw [← allMax_eq_wget k rest hs.tail] at hn
      simp [hn, optMax]
    · simp only [hk, if_false, optMax_none_left]
      exact allMax_eq_wget k rest hs.tail

/-- merging a map into an accumulator with `wsetMax` -/
theorem wget_merge (k : String) : ∀ (Wn acc : WMap),
    wget k (Wn.foldl (fun a (p : String × Nat) => wsetMax p.1 p.2 a) acc) = optMax (wget k acc) (allMax k Wn)
  | [], acc => by simp [allMax, optMax_none_right]
  | (k1, v1) :: rest, acc => by
    simp only [List.foldl_cons]
    rw [wget_merge k rest, wget_wsetMax]
    simp only [allMax]
    by_cases e : k = k1
    · subst e
      simp only [if_true, beq_self_eq_true, optMax_assoc]
    · have : (k == k1) = false := by simpa using e
      simp only [e, if_false, this, Bool.false_eq_true, optMax_none_left]

theorem sortedM_merge (Wn : WMap) (acc : WMap) (h : SortedM acc) :
    SortedM (Wn.foldl (fun a (p : String × Nat) => wsetMax p.1 p.2 a) acc) :=
  foldl_inv SortedM _ (fun a p ha => sortedM_wsetMax _ _ _ ha) _ _ h

/-- the rebuilt map, as a function -/
def substL (refID : String) (Wn old : WMap) (k : String) : Option Nat :=
  optMax (if k = refID then none else wget k old) (if (wget refID old).isSome then wget k Wn else none)

def fixStep (refID : String) (Wn : WMap) (acc : WMap) (kv : String × Nat) : WMap :=
  if kv.1 == refID then Wn.foldl (fun a (p : String × Nat) => wsetMax p.1 p.2 a) acc else wsetMax kv.1 kv.2 acc

theorem fixNodeW_eq (refID : String) (Wn old : WMap) : fixNodeW refID Wn old = old.foldl (fixStep refID Wn) [] := rfl

def contrib (refID : String) (Wn : WMap) (k : String) : WMap → Option Nat
  | [] => none
  | (k1, v1) :: rest =>
    optMax (if k1 = refID then allMax k Wn else if k = k1 then some v1 else none) (contrib refID Wn k rest)

theorem wget_fixFold (refID : String) (Wn : WMap) (k : String) : ∀ (old acc : WMap),
    wget k (old.foldl (fixStep refID Wn) acc) = optMax (wget k acc) (contrib refID Wn k old)
  | [], acc => by simp [contrib, optMax_none_right]
  | (k1, v1) :: rest, acc => by
    simp only [List.foldl_cons]
    rw [wget_fixFold refID Wn k rest]
    simp only [contrib]
    unfold fixStep
    by_cases e : k1 = refID
    · subst e
      simp only [beq_self_eq_true, if_true, wget_merge, optMax_assoc]
    · have : (k1 == refID) = false := by simpa using e
      simp only [this, Bool.false_eq_true, if_false, e, wget_wsetMax]
      by_cases e2 : k = k1
      · subst e2
        simp only [if_true, optMax_assoc]
      · simp only [e2, if_false, optMax_none_left]

theorem contrib_sorted (refID : String) (Wn : WMap) (k : String) : ∀ (old : WMap), SortedM old →
    contrib refID Wn k old =
      optMax (if k = refID then none else wget k old) (if (wget refID old).isSome then allMax k Wn else none)
  | [], _ => by simp [contrib, wget, optMax]
  | (k1, v1) :: rest, hs => by
    simp only [contrib]
    rw [contrib_sorted refID Wn k rest hs.tail]
    by_cases e : k1 = refID
    · subst e
      have hn : wget k1 rest = none := wget_tail_none hs
      simp only [if_true, hn, Option.isSome_none, Bool.false_eq_true, if_false, optMax_none_right, wget, beq_self_eq_true,
        Option.isSome_some]
      by_cases e2 : k = k1
      · subst e2
        simp only [if_true, optMax_none_left, optMax_none_right]
      · have : (k == k1) = false := by simpa using e2
        simp only [e2, if_false, this, Bool.false_eq_true]
        exact optMax_comm _ _
    · have hr : (refID == k1) = false := by simpa using fun h => e h.symm
      simp only [e, if_false, wget, hr, Bool.false_eq_true]
      by_cases e2 : k = k1
      · subst e2
        have hn : wget k rest = none := wget_tail_none hs
        have hkr : k ≠ refID := e
        simp only [if_true, hkr, if_false, hn, beq_self_eq_true, optMax_none_left, optMax_assoc]
      · have : (k == k1) = false := by simpa using e2
        simp only [e2, if_false, this, Bool.false_eq_true, optMax_none_left]

theorem wget_fixNodeW (refID : String) (Wn old : WMap) (hW : SortedM Wn) (hold : SortedM old) (k : String) :
    wget k (fixNodeW refID Wn old) = substL refID Wn old k := by
  rw [fixNodeW_eq, wget_fixFold, contrib_sorted refID Wn k old hold, allMax_eq_wget k Wn hW]
  simp only [wget, optMax_none_left]
  rfl

theorem sortedM_fixNodeW (refID : String) (Wn old : WMap) : SortedM (fixNodeW refID Wn old) := by
  rw [fixNodeW_eq]
  refine foldl_inv SortedM _ ?_ _ _ sortedM_nil
  intro a kv ha
  unfold fixStep
  split
  · exact sortedM_merge _ _ ha
  · exact sortedM_wsetMax _ _ _ ha

theorem foldl_fst {α σ β : Type} (f : α × σ → β → α × σ) (g : α → β → α) (h : ∀ a x, (f a x).1 = g a.1 x) :
    ∀ (l : List β) (a : α × σ), (l.foldl f a).1 = l.foldl g a.1
  | [], _ => rfl
  | x :: xs, a => by
    simp only [List.foldl_cons]
    rw [foldl_fst f g h xs (f a x), h]

theorem fixInner_fst (hasRefs : Bool) (r : ERef) (acc : WMap × AState) (kv2 : String × Nat) :
    (fixInner hasRefs r acc kv2).1 = wsetMax kv2.1 kv2.2 acc.1 := by
  unfold fixInner wsetMax
  cases h : wget kv2.1 acc.1 <;> rfl

theorem fixMid_fst (refID : String) (hasRefs : Bool) (r : ERef) (W : WMap) (acc : WMap × AState) (kv : String × Nat) :
    (fixMid refID hasRefs r W acc kv).1 = fixStep refID W acc.1 kv := by
  unfold fixMid fixStep
  split
  · exact foldl_fst (fixInner hasRefs r) (fun a (p : String × Nat) => wsetMax p.1 p.2 a)
      (fun a x => fixInner_fst hasRefs r a x) W acc
  · rfl

/-- the edge fix-up computes the same map as the node fix-up -/
theorem fixEdgeRes_fst (nodeCycle refID : String) (hasRefs : Bool) (s : AState) (r : ERef) :
    (fixEdgeRes nodeCycle refID hasRefs s r).1 = fixNodeW refID (aget nodeCycle s.nodeW) (aget r s.edgeW) := by
  unfold fixEdgeRes
  rw [fixNodeW_eq]
  exact foldl_fst _ _ (fun a x => fixMid_fst refID hasRefs r _ a x) _ ([], s)

def LEq (a b : WMap) : Prop := ∀ k, wget k a = wget k b

theorem substL_congr (refID : String) {Wn Wn' old old' : WMap} (hW : LEq Wn Wn') (ho : LEq old old') (k : String) :
    substL refID Wn old k = substL refID Wn' old' k := by
  unfold substL
  rw [ho k, ho refID, hW k]

theorem substL_noref (refID : String) (Wn old : WMap) (h : wget refID old = none) (k : String) :
    substL refID Wn old k = wget k old := by
  unfold substL
  rw [h]
  by_cases e : k = refID
  · subst e; simp [h, optMax]
  · simp [e, optMax_none_right]

theorem substL_refID (refID : String) (Wn old : WMap) (h : wget refID Wn = none) : substL refID Wn old refID = none := by
  unfold substL
  simp [h, optMax]

def SortedSt (st : AState) : Prop := (∀ r : ERef, SortedM (aget r st.edgeW)) ∧ (∀ N : String, SortedM (aget N st.nodeW))

theorem fixNodeW_single (refID : String) (Wn : WMap) (k : String) (v : Nat) (hk : k ≠ refID) :
    fixNodeW refID Wn [(k, v)] = [(k, v)] := by
  have : (k == refID) = false := by simpa using hk
  simp only [fixNodeW, List.foldl_cons, List.foldl_nil, this, Bool.false_eq_true, if_false]
  rfl

/-- the edge fix-up at the level of lookups -/
theorem edgeFixF (nodeCycle refID : String) (hasRefs : Bool) (W : WMap) (hWs : SortedM W) (hWref : wget refID W = none) :
    ∀ (D : List ERef) (s : AState), aget nodeCycle s.nodeW = W → (∀ r : ERef, SortedM (aget r s.edgeW)) →
      (∀ r : ERef, SortedM (aget r (D.foldl (fixEdgeStep nodeCycle refID hasRefs) s).edgeW)) ∧
      (∀ (r' : ERef) k, wget k (aget r' (D.foldl (fixEdgeStep nodeCycle refID hasRefs) s).edgeW) =
        if r' ∈ D then substL refID W (aget r' s.edgeW) k else wget k (aget r' s.edgeW)) ∧
      (∀ (r' : ERef) k v, aget r' s.edgeW = [(k, v)] → k ≠ refID →
        aget r' (D.foldl (fixEdgeStep nodeCycle refID hasRefs) s).edgeW = [(k, v)])
  | [], s, _, hs => ⟨hs, fun r' k => by simp, fun r' k v h _ => h⟩
  | r :: D, s, hW, hs => by
    have hE := fixEdgeStep_edgeW nodeCycle refID hasRefs s r
    have hself : aget r (fixEdgeStep nodeCycle refID hasRefs s r).edgeW = fixNodeW refID W (aget r s.edgeW) := by
      rw [hE, aget_aset_self, fixEdgeRes_fst, hW]
    have hne : ∀ r', r' ≠ r → aget r' (fixEdgeStep nodeCycle refID hasRefs s r).edgeW = aget r' s.edgeW := by
      intro r' h; rw [hE, aget_aset_ne _ _ _ h]
    have hs1 : ∀ r' : ERef, SortedM (aget r' (fixEdgeStep nodeCycle refID hasRefs s r).edgeW) := by
      intro r'
      by_cases e : r' = r
      · subst e; rw [hself]; exact sortedM_fixNodeW _ _ _
      · rw [hne r' e]; exact hs r'
    obtain ⟨i1, i2, i3⟩ := edgeFixF nodeCycle refID hasRefs W hWs hWref D (fixEdgeStep nodeCycle refID hasRefs s r)
      (by rw [fixEdgeStep_nodeW]; exact hW) hs1
    simp only [List.foldl_cons]
    refine ⟨i1, ?_, ?_⟩
    · intro r' k
      rw [i2 r' k]
      by_cases e : r' = r
      · subst e
        simp only [List.mem_cons, true_or, if_true]
        have hw : ∀ k, wget k (aget r' (fixEdgeStep nodeCycle refID hasRefs s r').edgeW) = substL refID W (aget r' s.edgeW) k := by
          intro k; rw [hself]; exact wget_fixNodeW refID W _ hWs (hs r') k
        split
        · rw [substL_noref refID W _ (by rw [hw]; exact substL_refID refID W _ hWref)]
          exact hw k
        · exact hw k
      · rw [hne r' e]
        simp only [List.mem_cons, e, false_or]
    · intro r' k v h hk
      apply i3 r' k v _ hk
      by_cases e : r' = r
      · subst e; rw [hself, h]; exact fixNodeW_single refID W k v hk
      · rw [hne r' e]; exact h

/-- the node fix-up at the level of lookups -/
theorem nodeFixF (nodeCycle refID : String) (W : WMap) (hWref : wget refID W = none) :
    ∀ (D : List ERef) (s : AState), LEq (aget nodeCycle s.nodeW) W → (∀ N : String, SortedM (aget N s.nodeW)) →
      (∀ N : String, SortedM (aget N (D.foldl (fixNodeStep nodeCycle refID) s).nodeW)) ∧
      (∀ (N : String) k, wget k (aget N (D.foldl (fixNodeStep nodeCycle refID) s).nodeW) =
        if (∃ r ∈ D, r.1 = N) then substL refID W (aget N s.nodeW) k else wget k (aget N s.nodeW))
  | [], s, _, hs => ⟨hs, fun N k => by simp⟩
  | r :: D, s, hW, hs => by
    have hN := fixNodeStep_nodeW nodeCycle refID s r
    have hself : aget r.1 (fixNodeStep nodeCycle refID s r).nodeW =
        fixNodeW refID (aget nodeCycle s.nodeW) (aget r.1 s.nodeW) := by rw [hN, aget_aset_self]
    have hne : ∀ N, N ≠ r.1 → aget N (fixNodeStep nodeCycle refID s r).nodeW = aget N s.nodeW := by
      intro N h; rw [hN, aget_aset_ne _ _ _ h]
    have hw : ∀ k, wget k (aget r.1 (fixNodeStep nodeCycle refID s r).nodeW) = substL refID W (aget r.1 s.nodeW) k := by
      intro k
      rw [hself, wget_fixNodeW refID _ _ (hs _) (hs _) k]
      exact substL_congr refID hW (fun _ => rfl) k
    have hs1 : ∀ N : String, SortedM (aget N (fixNodeStep nodeCycle refID s r).nodeW) := by
      intro N
      by_cases e : N = r.1
      · subst e; rw [hself]; exact sortedM_fixNodeW _ _ _
      · rw [hne N e]; exact hs N
    have hW1 : LEq (aget nodeCycle (fixNodeStep nodeCycle refID s r).nodeW) W := by
      intro k
      by_cases e : nodeCycle = r.1
      · have h1 : wget k (aget nodeCycle (fixNodeStep nodeCycle refID s r).nodeW) = substL refID W (aget nodeCycle s.nodeW) k := by
          have := hw k
          rw [← e] at this
          exact this
        rw [h1, substL_noref refID W _ (by rw [hW]; exact hWref)]
        exact hW k
      · rw [hne _ e]; exact hW k
    obtain ⟨i1, i2⟩ := nodeFixF nodeCycle refID W hWref D (fixNodeStep nodeCycle refID s r) hW1 hs1
    simp only [List.foldl_cons]
    refine ⟨i1, ?_⟩
    intro N k
    rw [i2 N k]
    by_cases e : N = r.1
    · subst e
      have hex : ∃ r' ∈ r :: D, r'.1 = r.1 := ⟨r, List.mem_cons_self .., rfl⟩
      simp only [hex, if_true]
      split
      · rw [substL_noref refID W _ (by rw [hw]; exact substL_refID refID W _ hWref)]
        exact hw k
      · exact hw k
    · rw [hne N e]
      have hiff : (∃ r' ∈ r :: D, r'.1 = N) ↔ (∃ r' ∈ D, r'.1 = N) := by
        constructor
        · rintro ⟨r', hr', he⟩
          rcases List.mem_cons.1 hr' with rfl | hr'
          · exact absurd he.symm e
          · exact ⟨r', hr', he⟩
        · rintro ⟨r', hr', he⟩
          exact ⟨r', List.mem_cons_of_mem _ hr', he⟩
      simp only [hiff]

def bumpE (e : WEdge) (v : Nat) : Nat :=
  if e.etype == .ttu || e.etype == .direct then (if v == infinite then v else v + 1) else v

theorem bumpE_inf (e : WEdge) : bumpE e infinite = infinite := by
  unfold bumpE; split <;> simp

theorem bumpE_mono (e : WEdge) {a b : Nat} (h : a ≤ b) : bumpE e a ≤ bumpE e b := by
  unfold bumpE
  split
  · by_cases ha : a = infinite <;> by_cases hb : b = infinite <;> simp [ha, hb] <;> omega
  · exact h

theorem bumpE_max (e : WEdge) (a b : Nat) : bumpE e (Nat.max a b) = Nat.max (bumpE e a) (bumpE e b) := by
  show bumpE e (max a b) = max (bumpE e a) (bumpE e b)
  rcases Nat.le_total a b with h | h
  · rw [Nat.max_eq_right h, Nat.max_eq_right (bumpE_mono e h)]
  · rw [Nat.max_eq_left h, Nat.max_eq_left (bumpE_mono e h)]

theorem map_optMax (e : WEdge) (a b : Option Nat) :
    (optMax a b).map (bumpE e) = optMax (a.map (bumpE e)) (b.map (bumpE e)) := by
  cases a <;> cases b <;> simp [optMax, bumpE_max]

theorem substL_map (refID : String) (W E M : WMap) (e : WEdge) (hE : ∀ k, wget k E = (wget k M).map (bumpE e))
    (hWinf : ∀ k v, wget k W = some v → v = infinite) (k : String) :
    substL refID W E k = (substL refID W M k).map (bumpE e) := by
  unfold substL
  rw [map_optMax, hE k, hE refID]
  have hWk : (wget k W).map (bumpE e) = wget k W := by
    cases h : wget k W with
    | none => rfl
    | some v => rw [hWinf k v h]; simp [bumpE_inf]
  congr 1
  · split <;> rfl
  · cases wget refID M with
    | none => rfl
    | some v => simp [hWk]

def EdgeOK (st : AState) (r : ERef) (e : WEdge) : Prop :=
  ∀ k, wget k (aget r st.edgeW) = (wget k (aget e.dst st.nodeW)).map (bumpE e)

def RawF (st : AState) (r : ERef) (e : WEdge) : Prop :=
  ∀ k, wget k (aget r st.edgeW) = if k = "R#" ++ e.dst then some infinite else none

structure InvD (g : G) (st : AState) : Prop where
  term : ∀ r e, edgeAt g r = some e → isTerminal (nodeType g e.dst) = true → aget r st.edgeW ≠ [] →
    aget r st.edgeW = [(termKey g e.dst, 1)]
  rule : ∀ r e, edgeAt g r = some e → isTerminal (nodeType g e.dst) = false → aget r st.edgeW ≠ [] →
    EdgeOK st r e ∨ RawF st r e
  sorted : SortedSt st

theorem nil_of_wget_none (w : WMap) (h : ∀ k, wget k w = none) : w = [] := by
  apply nil_of_no_keys
  intro k hk
  have := (wget_isSome_iff_keys k w).2 hk
  rw [h k] at this
  cases this

theorem cafRes_sorted_inf (g : G) (n : String) (st : AState) :
    SortedM (cafRes g n st).1 ∧ AllQ (fun p => p.2 = infinite) (cafRes g n st).1 := by
  unfold cafRes
  let P : WMap × List String → Prop := fun a => SortedM a.1 ∧ AllQ (fun p => p.2 = infinite) a.1
  have key : P ((edgeRefs g n).foldl (fun (acc : WMap × List String) r =>
      (aget r st.edgeW).foldl (cafStep ("R#" ++ n)) acc) ([], [])) := by
    refine foldl_inv P _ ?_ _ _ (show P ([], []) from ⟨sortedM_nil, allQ_nil _⟩)
    intro acc r hacc
    refine foldl_inv P _ ?_ _ _ hacc
    intro a p ⟨h1, h2⟩
    show P _
    unfold cafStep
    split
    · exact ⟨h1, h2⟩
    · exact ⟨sortedM_wset _ _ _ h1, allQ_wset _ _ h2 rfl⟩
  exact key

theorem mk_inj {a b : String} (h : "R#" ++ a = "R#" ++ b) : a = b := by
  have := congrArg phNode h
  rwa [phNode_mk, phNode_mk] at this

/-- the resolution of a cycle reference preserves the edge rule -/
theorem cafFinal_D (g : G) (hn : NoPHTypes g) (n : String) (stL : AState) (hI2 : Inv2 stL) (hD : InvD g stL)
    (hnil : aget n stL.nodeW = []) :
    InvD g (cafFinal g n stL) ∧
    (∀ r e, edgeAt g r = some e → isTerminal (nodeType g e.dst) = false → aget r (cafFinal g n stL).edgeW ≠ [] →
      ¬ EdgeOK (cafFinal g n stL) r e → aget r stL.edgeW ≠ [] ∧ ¬ EdgeOK stL r e ∧ e.dst ≠ n) ∧
    (∀ N, N ≠ n → aget N stL.nodeW = [] → aget N (cafFinal g n stL).nodeW = []) := by
  obtain ⟨hWfrom, hWref, hWrefs⟩ := cafRes_fromEdges g n stL
  obtain ⟨hWs, hWinfQ⟩ := cafRes_sorted_inf g n stL
  have hWhr : ∀ k, Keys (cafRes g n stL).1 k → isPH k = true → (!(cafRes g n stL).2.isEmpty) = true := by
    intro k hk hp
    have := hWrefs k hk hp
    cases h : (cafRes g n stL).2 with
    | nil => exact absurd h this
    | cons a b => rfl
  have hWrefN : wget ("R#" ++ n) (cafRes g n stL).1 = none := by
    cases h : wget ("R#" ++ n) (cafRes g n stL).1 with
    | none => rfl
    | some v => exact absurd ⟨v, wget_some_mem _ _ _ h⟩ hWref
  have hWinf : ∀ k v, wget k (cafRes g n stL).1 = some v → v = infinite :=
    fun k v h => hWinfQ _ (wget_some_mem _ _ _ h)
  obtain ⟨st1, hst1⟩ : ∃ s : AState, s = { stL with nodeW := aset n (cafRes g n stL).1 stL.nodeW } := ⟨_, rfl⟩
  have h1n : aget n st1.nodeW = (cafRes g n stL).1 := by rw [hst1]; exact aget_aset_self ..
  have h1ne : ∀ N, N ≠ n → aget N st1.nodeW = aget N stL.nodeW := by
    intro N h; rw [hst1]; exact aget_aset_ne _ _ _ h _
  have h1E : st1.edgeW = stL.edgeW := by rw [hst1]
  have h1D : st1.deps = stL.deps := by rw [hst1]
  obtain ⟨st2, hst2⟩ : ∃ s, s = fixDependantEdgesWeight n ("R#" ++ n) (!(cafRes g n stL).2.isEmpty) st1 := ⟨_, rfl⟩
  obtain ⟨st3, hst3⟩ : ∃ s, s = fixDependantNodesWeight n ("R#" ++ n) st2 := ⟨_, rfl⟩
  have hfin : cafFinal g n stL = { st3 with deps := adel n st3.deps } := by
    subst hst3 hst2 hst1; rfl
  have hE : EdgeFix ("R#" ++ n) (cafRes g n stL).1 (aget n st1.deps) st1 st2 := by
    rw [hst2, fixDependantEdgesWeight_eq]
    exact edgeFix_fold n ("R#" ++ n) _ _ hWref hWhr _ st1 h1n
  have hEmono := hE.mono; rw [h1D] at hEmono
  obtain ⟨fe1, fe2, fe3⟩ := edgeFixF n ("R#" ++ n) (!(cafRes g n stL).2.isEmpty) (cafRes g n stL).1 hWs hWrefN
    (aget n st1.deps) st1 h1n (fun r => h1E ▸ hD.sorted.1 r)
  rw [← fixDependantEdgesWeight_eq, ← hst2] at fe1 fe2 fe3
  rw [h1D, h1E] at fe2
  rw [h1E] at fe3
  have s1N : ∀ N : String, SortedM (aget N st1.nodeW) := by
    intro N
    by_cases e : N = n
    · subst e; rw [h1n]; exact hWs
    · rw [h1ne N e]; exact hD.sorted.2 N
  obtain ⟨fn1, fn2⟩ := nodeFixF n ("R#" ++ n) (cafRes g n stL).1 hWrefN (aget n st2.deps) st2
    (by rw [hE.nodeW, h1n]; exact fun _ => rfl) (by rw [hE.nodeW]; exact s1N)
  rw [← fixDependantNodesWeight_eq, ← hst3] at fn1 fn2
  rw [hE.nodeW] at fn2
  have e3E : st3.edgeW = st2.edgeW := hst3 ▸ fixNodes_edgeW ..
  have hphn : phNode ("R#" ++ n) = n := phNode_mk n
  -- uniform descriptions
  have FE : ∀ (r' : ERef) k, wget k (aget r' st3.edgeW) = substL ("R#" ++ n) (cafRes g n stL).1 (aget r' stL.edgeW) k := by
    intro r' k
    rw [e3E, fe2 r' k]
    split
    · rfl
    · rename_i hd
      rw [substL_noref]
      cases h : wget ("R#" ++ n) (aget r' stL.edgeW) with
      | none => rfl
      | some v =>
        have := hI2.i1 r' _ ⟨v, wget_some_mem _ _ _ h⟩ (isPH_mk n)
        rw [hphn] at this
        exact absurd this hd
  have FN : ∀ N, N ≠ n → ∀ k, wget k (aget N st3.nodeW) = substL ("R#" ++ n) (cafRes g n stL).1 (aget N stL.nodeW) k := by
    intro N hN k
    rw [fn2 N k, h1ne N hN]
    split
    · rfl
    · rename_i hd
      rw [substL_noref]
      cases h : wget ("R#" ++ n) (aget N stL.nodeW) with
      | none => rfl
      | some v =>
        obtain ⟨r0, hr0, hk0⟩ := hI2.i3 N _ ⟨v, wget_some_mem _ _ _ h⟩ (isPH_mk n)
        have := hI2.i1 r0 _ hk0 (isPH_mk n)
        rw [hphn] at this
        exact absurd ⟨r0, hEmono _ _ this, hr0⟩ hd
  have FNn : ∀ k, wget k (aget n st3.nodeW) = wget k (cafRes g n stL).1 := by
    intro k
    rw [fn2 n k, h1n]
    split
    · exact substL_noref _ _ _ hWrefN k
    · rfl
  have emptyE : ∀ r' : ERef, aget r' stL.edgeW = [] → aget r' st3.edgeW = [] := by
    intro r' h
    apply nil_of_wget_none
    intro k
    rw [FE r' k, h, substL_noref _ _ _ rfl]; rfl
  rw [hfin]
  -- what happens to a computed edge into a non-terminal node
  have ok4 : ∀ r e, edgeAt g r = some e →
      (EdgeOK stL r e → aget r stL.edgeW ≠ [] → EdgeOK { st3 with deps := adel n st3.deps } r e) ∧
      (RawF stL r e → e.dst = n → EdgeOK { st3 with deps := adel n st3.deps } r e) ∧
      (RawF stL r e → e.dst ≠ n → RawF { st3 with deps := adel n st3.deps } r e) := by
    intro r e _
    refine ⟨?_, ?_, ?_⟩
    · intro hok hne
      have hM : e.dst ≠ n := by
        intro hM
        apply hne
        apply nil_of_wget_none
        intro k
        rw [hok k, hM, hnil]; rfl
      intro k
      show wget k (aget r st3.edgeW) = (wget k (aget e.dst st3.nodeW)).map (bumpE e)
      rw [FE r k, FN e.dst hM k]
      exact substL_map _ _ _ _ e hok hWinf k
    · intro hraw hM k
      show wget k (aget r st3.edgeW) = (wget k (aget e.dst st3.nodeW)).map (bumpE e)
      rw [FE r k, hM, FNn k]
      have hWk : (wget k (cafRes g n stL).1).map (bumpE e) = wget k (cafRes g n stL).1 := by
        cases h : wget k (cafRes g n stL).1 with
        | none => rfl
        | some v => rw [hWinf k v h]; simp [bumpE_inf]
      rw [hWk]
      unfold substL
      rw [hraw k, hraw ("R#" ++ n), hM]
      by_cases e1 : k = "R#" ++ n
      · subst e1; simp [hWrefN, optMax]
      · simp [e1, optMax]
    · intro hraw hM k
      show wget k (aget r st3.edgeW) = _
      rw [FE r k, substL_noref]
      · exact hraw k
      · rw [hraw ("R#" ++ n)]
        have : "R#" ++ n ≠ "R#" ++ e.dst := fun h => hM (mk_inj h).symm
        simp [this]
  refine ⟨⟨?_, ?_, ⟨fun r => e3E ▸ fe1 r, fn1⟩⟩, ?_, ?_⟩
  · intro r e he ht hne
    show aget r st3.edgeW = _
    have hneL : aget r stL.edgeW ≠ [] := fun h => hne (emptyE r h)
    have hL := hD.term r e he ht hneL
    rw [e3E]
    refine fe3 r _ _ hL ?_
    intro heq
    have h1 := hn r.1 e ?_ ht
    · rw [heq, isPH_mk] at h1; cases h1
    · unfold edgeAt at he
      exact List.mem_of_getElem? he
  · intro r e he ht hne
    have hneL : aget r stL.edgeW ≠ [] := fun h => hne (emptyE r h)
    obtain ⟨o1, o2, o3⟩ := ok4 r e he
    rcases hD.rule r e he ht hneL with h | h
    · exact Or.inl (o1 h hneL)
    · by_cases hM : e.dst = n
      · exact Or.inl (o2 h hM)
      · exact Or.inr (o3 h hM)
  · intro r e he ht hne hnot
    have hneL : aget r stL.edgeW ≠ [] := fun h => hne (emptyE r h)
    obtain ⟨o1, o2, o3⟩ := ok4 r e he
    have hnotL : ¬ EdgeOK stL r e := fun h => hnot (o1 h hneL)
    refine ⟨hneL, hnotL, ?_⟩
    intro hM
    rcases hD.rule r e he ht hneL with h | h
    · exact hnotL h
    · exact hnot (o2 h hM)
  · intro N hN hNnil
    show aget N st3.nodeW = []
    apply nil_of_wget_none
    intro k
    rw [FN N hN k, hNnil, substL_noref _ _ _ rfl]; rfl

/-! ### pass 4, the skeleton -/
structure RelD (g : G) (st st' : AState) (tc : List String) : Prop where
  bad : ∀ r e, edgeAt g r = some e → isTerminal (nodeType g e.dst) = false → aget r st'.edgeW ≠ [] → ¬ EdgeOK st' r e →
    (aget r st.edgeW ≠ [] ∧ ¬ EdgeOK st r e) ∨ e.dst ∈ tc
  en : ∀ N ∈ st.visited, aget N st.nodeW = [] → aget N st'.nodeW = []

theorem RelD.refl (g : G) (st : AState) (tc : List String) : RelD g st st tc :=
  ⟨fun _ _ _ _ h1 h2 => Or.inl ⟨h1, h2⟩, fun _ _ h => h⟩

theorem RelD.trans {g : G} {a b c : AState} {t1 t2 t : List String} (h1 : RelD g a b t1) (h2 : RelD g b c t2)
    (vm : ∀ v ∈ a.visited, v ∈ b.visited) (s1 : ∀ x ∈ t1, x ∈ t) (s2 : ∀ x ∈ t2, x ∈ t) : RelD g a c t := by
  refine ⟨?_, fun N hN h => h2.en N (vm N hN) (h1.en N hN h)⟩
  intro r e he ht hne hnot
  rcases h2.bad r e he ht hne hnot with ⟨h, h'⟩ | h
  · rcases h1.bad r e he ht h h' with h | h
    · exact Or.inl h
    · exact Or.inr (s1 _ h)
  · exact Or.inr (s2 _ h)

theorem EdgeOK.congr {st st' : AState} {r : ERef} {e : WEdge} (hE : aget r st'.edgeW = aget r st.edgeW)
    (hN : st'.nodeW = st.nodeW) : EdgeOK st' r e ↔ EdgeOK st r e := by
  unfold EdgeOK; rw [hE, hN]

theorem RawF.congr {st st' : AState} {r : ERef} {e : WEdge} (hE : aget r st'.edgeW = aget r st.edgeW) :
    RawF st' r e ↔ RawF st r e := by
  unfold RawF; rw [hE]

theorem InvD.of_core {g : G} {st st' : AState} (h : InvD g st) (hN : st'.nodeW = st.nodeW) (hE : st'.edgeW = st.edgeW) :
    InvD g st' := by
  refine ⟨?_, ?_, ?_⟩
  · rw [hE]; exact h.term
  · intro r e he ht hne
    rw [hE] at hne
    rcases h.rule r e he ht hne with h1 | h1
    · exact Or.inl ((EdgeOK.congr (by rw [hE]) hN).2 h1)
    · exact Or.inr ((RawF.congr (by rw [hE])).2 h1)
  · unfold SortedSt; rw [hE, hN]; exact h.sorted

theorem RelD.of_core {g : G} {st st' st'' : AState} {tc : List String} (h : RelD g st st' tc)
    (hN : st''.nodeW = st'.nodeW) (hE : st''.edgeW = st'.edgeW) : RelD g st st'' tc := by
  refine ⟨?_, ?_⟩
  · intro r e he ht hne hnot
    rw [hE] at hne
    exact h.bad r e he ht hne (fun hok => hnot ((EdgeOK.congr (by rw [hE]) hN).2 hok))
  · rw [hN]; exact h.en

theorem wget_map_val (f : Nat → Nat) (k : String) : ∀ (w : WMap),
    wget k (w.map (fun (k, v) => (k, f v))) = (wget k w).map f
  | [] => rfl
  | (k', v') :: rest => by
    simp only [List.map_cons, wget]
    split
    · rfl
    · exact wget_map_val f k rest

theorem wget_edgeCopy (e : WEdge) (toW : WMap) (k : String) : wget k (edgeCopy e toW) = (wget k toW).map (bumpE e) := by
  unfold edgeCopy bumpE
  split
  · exact wget_map_val (fun v => if v == infinite then v else v + 1) k toW
  · cases wget k toW <;> rfl

theorem sortedM_edgeCopy (e : WEdge) (toW : WMap) (h : SortedM toW) : SortedM (edgeCopy e toW) := by
  unfold edgeCopy
  split
  · exact sortedM_map (fun v => if v == infinite then v else v + 1) toW h
  · exact h

theorem write_edge_D (g : G) (st st' : AState) (r : ERef) (e : WEdge) (w : WMap) (tc : List String) (hD : InvD g st)
    (hN : st'.nodeW = st.nodeW) (hE : st'.edgeW = aset r w st.edgeW) (he : edgeAt g r = some e) (hws : SortedM w)
    (hterm : isTerminal (nodeType g e.dst) = true → w = [(termKey g e.dst, 1)])
    (hrule : isTerminal (nodeType g e.dst) = false → EdgeOK st' r e ∨ (RawF st' r e ∧ e.dst ∈ tc)) :
    InvD g st' ∧ RelD g st st' tc := by
  have hself : aget r st'.edgeW = w := by rw [hE, aget_aset_self]
  have hne : ∀ r', r' ≠ r → aget r' st'.edgeW = aget r' st.edgeW := by
    intro r' h; rw [hE, aget_aset_ne _ _ _ h]
  have same : ∀ e', edgeAt g r = some e' → e' = e := fun e' h => Option.some.inj (h.symm.trans he)
  refine ⟨⟨?_, ?_, ⟨?_, ?_⟩⟩, ⟨?_, ?_⟩⟩
  · intro r' e' he' ht hne'
    by_cases er : r' = r
    · subst er
      have := same e' he'; subst this
      rw [hself]; exact hterm ht
    · rw [hne r' er] at hne' ⊢
      exact hD.term r' e' he' ht hne'
  · intro r' e' he' ht hne'
    by_cases er : r' = r
    · subst er
      have := same e' he'; subst this
      rcases hrule ht with h | h
      · exact Or.inl h
      · exact Or.inr h.1
    · rw [hne r' er] at hne'
      rcases hD.rule r' e' he' ht hne' with h | h
      · exact Or.inl ((EdgeOK.congr (hne r' er) hN).2 h)
      · exact Or.inr ((RawF.congr (hne r' er)).2 h)
  · intro r'
    by_cases er : r' = r
    · subst er; rw [hself]; exact hws
    · rw [hne r' er]; exact hD.sorted.1 r'
  · rw [hN]; exact hD.sorted.2
  · intro r' e' he' ht hne' hnot
    by_cases er : r' = r
    · subst er
      have := same e' he'; subst this
      rcases hrule ht with h | h
      · exact absurd h hnot
      · exact Or.inr h.2
    · rw [hne r' er] at hne'
      exact Or.inl ⟨hne', fun hok => hnot ((EdgeOK.congr (hne r' er) hN).2 hok)⟩
  · rw [hN]; exact fun N _ h => h

theorem rawF_single (st : AState) (r : ERef) (e : WEdge) (h : aget r st.edgeW = [("R#" ++ e.dst, infinite)]) : RawF st r e := by
  intro k
  rw [h]
  by_cases ek : k = "R#" ++ e.dst
  · subst ek; simp [wget]
  · have : (k == "R#" ++ e.dst) = false := by simpa using ek
    simp [wget, this, ek]

theorem scan_sub (b : Bool) (r : ERef) (toW : WMap) (acc : List String × AState) :
    ∀ x ∈ acc.1, x ∈ (toW.foldl (scanStep b r) acc).1 := by
  refine foldl_inv (fun (a : List String × AState) => ∀ x ∈ acc.1, x ∈ a.1) _ ?_ _ acc (fun x hx => hx)
  intro a kv h
  unfold scanStep
  split
  · exact fun x hx => List.mem_append_left _ (h x hx)
  · exact h

def RecD (g : G) (rec : String → List WEdge → AState → Res) : Prop :=
  ∀ n path st, Inv2 st → InvD g st → ∀ tc st', rec n path st = ((tc, none), st') → InvD g st' ∧ RelD g st st' tc

theorem calcEdgeWith_D (g : G) (rec : String → List WEdge → AState → Res) (hrecB : RecB rec) (hrecD : RecD g rec) (r : ERef)
    (e : WEdge) (path : List WEdge) (st : AState) (hI : Inv2 st) (hD : InvD g st) (he : edgeAt g r = some e)
    (hnt : isTerminal (nodeType g e.dst) = false) (tc : List String) (st' : AState)
    (h : calcEdgeWith rec g r e path st = ((tc, none), st')) : InvD g st' ∧ RelD g st st' tc := by
  rw [calcEdgeWith_eq] at h
  split at h
  · rename_i hse
    have hsd : e.src = e.dst := by simpa using hse
    simp only [Prod.mk.injEq] at h
    obtain ⟨⟨rfl, _⟩, rfl⟩ := h
    refine write_edge_D g st _ r e [("R#" ++ e.dst, infinite)] [e.src] hD rfl rfl he (sortedM_single _ _)
      (fun ht => by rw [hnt] at ht; cases ht) (fun _ => Or.inr ⟨?_, by simp [hsd]⟩)
    exact rawF_single _ r e (aget_aset_self ..)
  · split at h
    · simp at h
    · rename_i tc1 st1 heq
      obtain ⟨hI1, hR1, _⟩ := hrecB e.dst (path ++ [e]) st hI tc1 st1 heq
      obtain ⟨hD1, hRD1⟩ := hrecD e.dst (path ++ [e]) st hI hD tc1 st1 heq
      split at h
      · split at h
        · simp only [Prod.mk.injEq] at h
          obtain ⟨⟨rfl, _⟩, rfl⟩ := h
          obtain ⟨a, b⟩ := write_edge_D g st1 (addDep e.dst r { st1 with edgeW := aset r [("R#" ++ e.dst, infinite)] st1.edgeW })
            r e [("R#" ++ e.dst, infinite)] (tc1 ++ [e.dst]) hD1 rfl rfl he (sortedM_single _ _)
            (fun ht => by rw [hnt] at ht; cases ht)
            (fun _ => Or.inr ⟨rawF_single _ r e (aget_aset_self ..), by simp⟩)
          exact ⟨a, hRD1.trans b hR1.vm (fun x hx => List.mem_append_left _ hx) (fun x hx => hx)⟩
        · simp at h
      · simp only [Prod.mk.injEq] at h
        obtain ⟨⟨rfl, _⟩, rfl⟩ := h
        have hcore := scan_core (!tc1.isEmpty) r (aget e.dst st1.nodeW)
          (tc1, if (!tc1.isEmpty) = true then tc1.foldl (fun st n => addDep n r st) st1 else st1)
        have hsub := scan_sub (!tc1.isEmpty) r (aget e.dst st1.nodeW)
          (tc1, if (!tc1.isEmpty) = true then tc1.foldl (fun st n => addDep n r st) st1 else st1)
        have hX : (if (!tc1.isEmpty) = true then tc1.foldl (fun st n => addDep n r st) st1 else st1).nodeW = st1.nodeW ∧
            (if (!tc1.isEmpty) = true then tc1.foldl (fun st n => addDep n r st) st1 else st1).edgeW = st1.edgeW ∧
            (if (!tc1.isEmpty) = true then tc1.foldl (fun st n => addDep n r st) st1 else st1).visited = st1.visited := by
          split
          · exact addDeps_core r tc1 st1
          · exact ⟨rfl, rfl, rfl⟩
        obtain ⟨sc, hsc⟩ : ∃ s, s = (aget e.dst st1.nodeW).foldl (scanStep (!tc1.isEmpty) r)
          (tc1, if (!tc1.isEmpty) = true then tc1.foldl (fun st n => addDep n r st) st1 else st1) := ⟨_, rfl⟩
        rw [← hsc] at hcore hsub ⊢
        have hNW : sc.2.nodeW = st1.nodeW := hcore.1.trans hX.1
        obtain ⟨a, b⟩ := write_edge_D g st1 { sc.2 with edgeW := aset r (edgeCopy e (aget e.dst st1.nodeW)) sc.2.edgeW }
          r e (edgeCopy e (aget e.dst st1.nodeW)) sc.1 hD1 hNW (by
            show aset r _ sc.2.edgeW = aset r _ _
            rw [hcore.2.1, hX.2.1]) he (sortedM_edgeCopy e _ (hD1.sorted.2 _))
          (fun ht => by rw [hnt] at ht; cases ht)
          (fun _ => Or.inl (by
            intro k
            show wget k (aget r (aset r (edgeCopy e (aget e.dst st1.nodeW)) sc.2.edgeW)) = (wget k (aget e.dst sc.2.nodeW)).map (bumpE e)
            rw [aget_aset_self, hNW]
            exact wget_edgeCopy e _ k))
        exact ⟨a, hRD1.trans b hR1.vm hsub (fun x hx => hx)⟩

theorem edgeLoop_D (g : G) (hn : NoPHTypes g) (rec : String → List WEdge → AState → Res) (hrecB : RecB rec) (hrecD : RecD g rec)
    (nodeID : String) (path : List WEdge) : ∀ (es : List (ERef × WEdge)) (tcs : List String) (st : AState), Inv2 st → InvD g st →
      nodeID ∈ st.visited → (∀ p ∈ es, p.1.1 = nodeID ∧ p.2 ∈ edgesOf g nodeID) → (∀ p ∈ es, edgeAt g p.1 = some p.2) →
      ∀ tcs' st', edgeLoop rec g nodeID path es tcs st = ((tcs', none), st') → InvD g st' ∧ RelD g st st' tcs'
  | [], tcs, st, _, hD, _, _, _, tcs', st', h => by
    simp only [edgeLoop, Prod.mk.injEq] at h
    obtain ⟨⟨rfl, _⟩, rfl⟩ := h
    exact ⟨hD, RelD.refl _ _ _⟩
  | (r, e) :: rest, tcs, st, hI, hD, hv, hes, hat, tcs', st', h => by
    have hre := hes (r, e) (List.mem_cons_self ..)
    have hrest : ∀ p ∈ rest, p.1.1 = nodeID ∧ p.2 ∈ edgesOf g nodeID := fun p hp => hes p (List.mem_cons_of_mem _ hp)
    have hatr : ∀ p ∈ rest, edgeAt g p.1 = some p.2 := fun p hp => hat p (List.mem_cons_of_mem _ hp)
    have he : edgeAt g r = some e := hat (r, e) (List.mem_cons_self ..)
    have hr1 : r.1 = nodeID := hre.1
    unfold edgeLoop at h
    split at h
    · exact edgeLoop_D g hn rec hrecB hrecD nodeID path rest tcs st hI hD hv hrest hatr tcs' st' h
    · rename_i hemp
      have hempty : aget r st.edgeW = [] := by
        cases hh : aget r st.edgeW with
        | nil => rfl
        | cons a b => rw [hh] at hemp; simp at hemp
      simp only at h
      split at h
      · rename_i hterm
        obtain ⟨stW, hstW⟩ : ∃ s : AState, s = (if (nodeType g e.dst == NodeType.wildcard) = true then
            addEdgeWildcardsToNode nodeID r (addWildcardToEdge
              (if (nodeType g e.dst == NodeType.wildcard) = true then (e.dst.dropEnd 2).toString else e.dst) r st) else st) :=
          ⟨_, rfl⟩
        rw [← hstW] at h
        have cN : stW.nodeW = st.nodeW := by rw [hstW]; split <;> simp
        have cE : stW.edgeW = st.edgeW := by rw [hstW]; split <;> simp
        have cV : stW.visited = st.visited := by rw [hstW]; split <;> simp
        have cD : stW.deps = st.deps := by rw [hstW]; split <;> simp
        have hw := write_edge st stW { stW with edgeW := aset r [(termKey g e.dst, 1)] stW.edgeW } r [(termKey g e.dst, 1)] []
          hI hempty (hr1 ▸ hv) cN cE cV (fun m r' h => cD ▸ h) (fun m r' h => Or.inl (cD ▸ h))
          (fun p hp => Or.inl ⟨p, cD ▸ hp, rfl⟩) (by
            intro k ⟨v, hk⟩ hp
            simp only [List.mem_singleton, Prod.mk.injEq] at hk
            obtain ⟨rfl, _⟩ := hk
            rw [hn nodeID e hre.2 hterm] at hp
            cases hp) rfl rfl rfl rfl
        obtain ⟨a, b⟩ := write_edge_D g st { stW with edgeW := aset r [(termKey g e.dst, 1)] stW.edgeW } r e
          [(termKey g e.dst, 1)] [] hD cN (by show aset r _ stW.edgeW = _; rw [cE]) he (sortedM_single _ _) (fun _ => rfl)
          (fun ht => by rw [hterm] at ht; cases ht)
        have hv' : nodeID ∈ ({ stW with edgeW := aset r [(termKey g e.dst, 1)] stW.edgeW } : AState).visited := by
          show nodeID ∈ stW.visited
          rw [cV]; exact hv
        obtain ⟨i1, i2⟩ := edgeLoop_D g hn rec hrecB hrecD nodeID path rest tcs _ hw.1 a hv' hrest hatr tcs' st' h
        exact ⟨i1, b.trans i2 hw.2.vm (fun x hx => by cases hx) (fun x hx => hx)⟩
      · rename_i hterm
        have hnt : isTerminal (nodeType g e.dst) = false := by simpa using hterm
        split at h
        · simp at h
        · rename_i heq
          obtain ⟨tc, htc⟩ : ∃ t, t = (calcEdgeWith rec g r e path st).1.1 := ⟨_, rfl⟩
          obtain ⟨stC, hstC⟩ : ∃ s, s = (calcEdgeWith rec g r e path st).2 := ⟨_, rfl⟩
          have heq' : calcEdgeWith rec g r e path st = ((tc, none), stC) := by
            rw [htc, hstC]; exact Prod.ext (Prod.ext rfl heq) rfl
          rw [← htc, ← hstC] at h
          obtain ⟨hIC, hRC⟩ := calcEdgeWith_B g rec hrecB r e path st hI hempty (hr1 ▸ hv) tc stC heq'
          obtain ⟨hDC, hRDC⟩ := calcEdgeWith_D g rec hrecB hrecD r e path st hI hD he hnt tc stC heq'
          have hIC' : Inv2 (addEdgeWildcardsToNode nodeID r (calculateEdgeWildcards e.dst r stC)) :=
            hIC.of_core (by simp) (by simp) (by simp) (by simp)
          have hDC' : InvD g (addEdgeWildcardsToNode nodeID r (calculateEdgeWildcards e.dst r stC)) :=
            hDC.of_core (by simp) (by simp)
          have hRDC' : RelD g st (addEdgeWildcardsToNode nodeID r (calculateEdgeWildcards e.dst r stC)) tc :=
            hRDC.of_core (by simp) (by simp)
          have hv' : nodeID ∈ (addEdgeWildcardsToNode nodeID r (calculateEdgeWildcards e.dst r stC)).visited := by
            simp only [addEdgeWildcardsToNode_visited, calculateEdgeWildcards_visited]
            exact hRC.vm _ hv
          have hvm : ∀ v ∈ st.visited, v ∈ (addEdgeWildcardsToNode nodeID r (calculateEdgeWildcards e.dst r stC)).visited := by
            intro v hvv
            simp only [addEdgeWildcardsToNode_visited, calculateEdgeWildcards_visited]
            exact hRC.vm _ hvv
          obtain ⟨_, _, i3⟩ := edgeLoop_B g hn rec hrecB nodeID path rest (tcs ++ tc) _ hIC' hv' hrest tcs' st' h
          obtain ⟨j1, j2⟩ := edgeLoop_D g hn rec hrecB hrecD nodeID path rest (tcs ++ tc) _ hIC' hDC' hv' hrest hatr tcs' st' h
          exact ⟨j1, hRDC'.trans j2 hvm (fun x hx => i3 x (List.mem_append_right _ hx)) (fun x hx => hx)⟩

theorem refs_edgeAt (g : G) (n : String) (p : ERef × WEdge)
    (hp : p ∈ ((List.range (edgesOf g n).length).zip (edgesOf g n) |>.map (fun (i, e) => ((n, i), e)))) :
    edgeAt g p.1 = some p.2 := by
  obtain ⟨q, hq, rfl⟩ := List.mem_map.1 hp
  obtain ⟨i, e⟩ := q
  show (edgesOf g n)[i]? = some e
  obtain ⟨j, hj, hje⟩ := List.mem_iff_getElem.1 hq
  simp only [List.getElem_zip, List.getElem_range, Prod.mk.injEq] at hje
  obtain ⟨rfl, rfl⟩ := hje
  simp at hj
  simp [hj]

theorem calcNode_D (g : G) (hn : NoPHTypes g) : ∀ (fuel : Nat), RecD g (calcNode fuel g)
  | 0 => by
    intro n path st _ _ tc st' h
    simp [calcNode] at h
  | fuel+1 => by
    intro n path st hI hD tc st' h
    have hB := calcNode_B g hn (fuel+1) n path st hI tc st' h
    unfold calcNode at h
    split at h
    · simp only [Prod.mk.injEq] at h
      obtain ⟨⟨rfl, _⟩, rfl⟩ := h
      exact ⟨hD, RelD.refl _ _ _⟩
    · split at h
      · simp only [Prod.mk.injEq] at h
        obtain ⟨⟨rfl, _⟩, rfl⟩ := h
        exact ⟨hD, RelD.refl _ _ _⟩
      · rename_i hc _
        have hfresh : n ∉ st.visited := fun hh => hc (List.contains_iff_mem.2 hh)
        have hnil0 : aget n st.nodeW = [] := by
          cases hh : aget n st.nodeW with
          | nil => rfl
          | cons a b => exact absurd (hI.v2 n (by rw [hh]; simp)) hfresh
        simp only at h
        have hI0 : Inv2 { st with visited := n :: st.visited } :=
          ⟨hI.i1, hI.i3, fun r hr => List.mem_cons_of_mem _ (hI.v1 r hr), fun N hN => List.mem_cons_of_mem _ (hI.v2 N hN),
            fun m r hr => List.mem_cons_of_mem _ (hI.v3 m r hr)⟩
        have hD0 : InvD g { st with visited := n :: st.visited } := hD.of_core rfl rfl
        split at h
        · simp at h
        · rename_i tcs stL heq
          obtain ⟨hIL, hRL, _⟩ := edgeLoop_B g hn (calcNode fuel g) (calcNode_B g hn fuel) n path _ [] _ hI0
            (List.mem_cons_self ..) (mem_refs g n) tcs stL heq
          obtain ⟨hDL, hRDL⟩ := edgeLoop_D g hn (calcNode fuel g) (calcNode_B g hn fuel) (calcNode_D g hn fuel) n path _ [] _ hI0 hD0
            (List.mem_cons_self ..) (mem_refs g n) (refs_edgeAt g n) tcs stL heq
          have hnilL : aget n stL.nodeW = [] := hRDL.en n (List.mem_cons_self ..) hnil0
          -- relative to `st`
          have hbadL : ∀ r e, edgeAt g r = some e → isTerminal (nodeType g e.dst) = false → aget r stL.edgeW ≠ [] →
              ¬ EdgeOK stL r e → (aget r st.edgeW ≠ [] ∧ ¬ EdgeOK st r e) ∨ e.dst ∈ tcs := hRDL.bad
          have henL : ∀ N ∈ st.visited, aget N st.nodeW = [] → aget N stL.nodeW = [] :=
            fun N hN hh => hRDL.en N (List.mem_cons_of_mem _ hN) hh
          rcases fromTheEdges_cases g n tcs stL with ⟨t, e, s, hcs⟩ | hcs | ⟨w, hcs, hw⟩ | ⟨hcs, _⟩
          · rw [hcs] at h; simp at h
          · rw [hcs] at h
            simp only [Prod.mk.injEq] at h
            obtain ⟨⟨rfl, _⟩, rfl⟩ := h
            exact ⟨hDL, ⟨hbadL, henL⟩⟩
          · rw [hcs] at h
            simp only [Prod.mk.injEq] at h
            obtain ⟨⟨rfl, _⟩, rfl⟩ := h
            -- an edge into `n` that has weights cannot satisfy the rule while `n` has none
            have notOK : ∀ (r : ERef) (e : WEdge), e.dst = n → aget r stL.edgeW ≠ [] → ¬ EdgeOK stL r e := by
              intro r e hM hne hok
              apply hne
              apply nil_of_wget_none
              intro k
              rw [hok k, hM, hnilL]; rfl
            have hself : ∀ N, N ≠ n → aget N (aset n w stL.nodeW) = aget N stL.nodeW := fun N hN => aget_aset_ne _ _ _ hN _
            refine ⟨⟨hDL.term, ?_, ⟨hDL.sorted.1, ?_⟩⟩, ⟨?_, ?_⟩⟩
            · intro r e he ht hne
              rcases hDL.rule r e he ht hne with hh | hh
              · have hM : e.dst ≠ n := fun hM => notOK r e hM hne hh
                left
                intro k
                show wget k (aget r stL.edgeW) = (wget k (aget e.dst (aset n w stL.nodeW))).map (bumpE e)
                rw [hself _ hM]; exact hh k
              · exact Or.inr hh
            · intro N
              show SortedM (aget N (aset n w stL.nodeW))
              by_cases eN : N = n
              · subst eN; rw [aget_aset_self]; exact hw.1
              · rw [hself N eN]; exact hDL.sorted.2 N
            · intro r e he ht hne hnot
              apply hbadL r e he ht hne
              intro hok
              have hM : e.dst ≠ n := fun hM => notOK r e hM hne hok
              apply hnot
              intro k
              show wget k (aget r stL.edgeW) = (wget k (aget e.dst (aset n w stL.nodeW))).map (bumpE e)
              rw [hself _ hM]; exact hok k
            · intro N hN hh
              have hNn : N ≠ n := fun e => hfresh (e ▸ hN)
              show aget N (aset n w stL.nodeW) = []
              rw [hself N hNn]; exact henL N hN hh
          · rw [hcs] at h
            simp only [Prod.mk.injEq] at h
            obtain ⟨⟨rfl, _⟩, rfl⟩ := h
            obtain ⟨c1, c2, c3⟩ := cafFinal_D g hn n stL hIL hDL hnilL
            refine ⟨c1, ⟨?_, ?_⟩⟩
            · intro r e he ht hne hnot
              obtain ⟨d1, d2, d3⟩ := c2 r e he ht hne hnot
              rcases hbadL r e he ht d1 d2 with hh | hh
              · exact Or.inl hh
              · exact Or.inr (List.mem_filter.2 ⟨hh, by simpa using d3⟩)
            · intro N hN hh
              have hNn : N ≠ n := fun e => hfresh (e ▸ hN)
              exact c3 N hNn (henL N hN hh)

/-- every computed edge into a relation or operator satisfies the rule -/
def AllOK (g : G) (st : AState) : Prop :=
  ∀ r e, edgeAt g r = some e → isTerminal (nodeType g e.dst) = false → aget r st.edgeW ≠ [] → EdgeOK st r e

theorem go_D (g : G) (hn : NoPHTypes g) : ∀ (ns : List String) (st st' : AState), Inv2 st → InvD g st → AllOK g st →
    assignWeights.go g ns st = .ok st' → InvD g st' ∧ AllOK g st'
  | [], st, st', _, hD, hA, heq => by
    simp only [assignWeights.go] at heq
    cases heq; exact ⟨hD, hA⟩
  | n :: ns, st, st', hI, hD, hA, heq => by
    unfold assignWeights.go at heq
    split at heq
    · exact go_D g hn ns st st' hI hD hA heq
    · split at heq
      · cases heq
      · rename_i tcs st2 hres
        split at heq
        · cases heq
        · rename_i hemp
          have htcs : tcs = [] := by
            cases tcs with
            | nil => rfl
            | cons a b => simp at hemp
          subst htcs
          obtain ⟨hI2, _, _⟩ := calcNode_B g hn (g.nodes.length + 1) n [] st hI [] st2 hres
          obtain ⟨hD2, hR2⟩ := calcNode_D g hn (g.nodes.length + 1) n [] st hI hD [] st2 hres
          refine go_D g hn ns st2 st' hI2 hD2 ?_ heq
          intro r e he ht hne
          apply Classical.byContradiction
          intro hnot
          rcases hR2.bad r e he ht hne hnot with ⟨h1, h2⟩ | hh
          · exact h2 (hA r e he ht h1)
          · cases hh

theorem invD_init (g : G) : InvD g {} :=
  ⟨fun r e _ _ h => absurd rfl h, fun r e _ _ h => absurd rfl h, ⟨fun r => sortedM_nil, fun N => sortedM_nil⟩⟩

/-- **D. the edge rule**: after a successful assignment every edge of a visited node carries `{T ↦ 1}` if it ends in
    a terminal type `T` (or `T:*`), and otherwise exactly the final weights of its target, plus one (saturating at
    `Infinite`) if it is a direct or TTU hop; all maps are key-sorted, so this determines them -/
theorem assignWeights_edge_rule (g : G) (hn : NoPHTypes g) (order : List String) (st : AState)
    (h : assignWeights g order = .ok st) :
    (∀ v ∈ st.visited, ∀ r ∈ edgeRefs g v, ∀ e, edgeAt g r = some e →
      (isTerminal (nodeType g e.dst) = true → aget r st.edgeW = [(termKey g e.dst, 1)]) ∧
      (isTerminal (nodeType g e.dst) = false →
        ∀ k, wget k (aget r st.edgeW) = (wget k (aget e.dst st.nodeW)).map (bumpE e))) ∧
    (∀ r : ERef, SortedM (aget r st.edgeW)) ∧ (∀ N : String, SortedM (aget N st.nodeW)) := by
  have hcomp := (assignWeights_nonempty g order st h).2.2.2
  unfold assignWeights at h
  split at h
  · cases h
  · obtain ⟨hD, hA⟩ := go_D g hn _ {} st inv2_init (invD_init g) (fun r e _ _ hne => absurd rfl hne) h
    refine ⟨?_, hD.sorted.1, hD.sorted.2⟩
    intro v hv r hr e he
    have hne := hcomp v hv r hr
    exact ⟨fun ht => hD.term r e he ht hne, fun ht => hA r e he ht hne⟩

end FgaVerif.Model.WAssign
