import FgaVerif.Proofs.Printer
import FgaVerif.Proofs.Listener
/-! The printer half of "parsing the printed DSL gives the input back up to normalisation":
    **the text the printer port produces for a relation body is exactly the source text of a
    well-formed concrete syntax tree (`Model/Cst.lean`) whose denotation is the normalised input.**
    No parser occurs here: `toCst` *constructs* the tree from the rewrite, and the theorems say that its
    token texts concatenate to the printed string and that it means `norm u`. -/
namespace FgaVerif.Model.PrintCst
open FgaVerif.Model FgaVerif.Model.Printer FgaVerif.Model.Cst FgaVerif.Model.Listener

/-! ## the normal form -/

/-- the permutation of `prioritizeDirectAssignment us`, applied to a list running parallel to `us`
    (`hoistParts` is the instance for the printed operands) -/
def hoistBy (us : List Userset) (xs : List α) : List α :=
  match us.findIdx? isThis with
  | none => xs
  | some i => moveToFront i xs

/-- an operator applied to exactly one operand is that operand -/
def collapse (mk : List Userset → Userset) : List Userset → Userset
  | [x] => x
  | xs => mk xs

mutual
  /-- The normalisation under which a printed relation is read back: in every union/intersection
      the first direct-assignment operand is moved to the front (the permutation of
      `prioritizeDirectAssignment`, see `norm_union`), the operands are normalised, and an
      operator left with exactly one operand is replaced by that operand.  (The type restrictions of a
      relation without direct assignment are dropped as well; they are not part of the rewrite, see
      the `Def.restr` clause of the theorems.) -/
  def norm : Userset → Userset
    | .union cs => collapse .union (hoistBy cs (normL cs))
    | .inter cs => collapse .inter (hoistBy cs (normL cs))
    | .diff b s => .diff (norm b) (norm s)
    | u => u
  def normL : List Userset → List Userset
    | [] => []
    | c :: cs => norm c :: normL cs
end

/-! ## the concrete syntax tree the printed text stands for -/

/-- Every name is given the token classification "IDENTIFIER below `identifier`".  Which token type
    the lexer gives a name (a keyword such as `type`, an EXTENDED_IDENTIFIER, …) — and whether the
    name is lexically a name at all — is the lexer's business; it changes neither the text nor the
    denotation of the tree, which are all that is claimed here. -/
def mkIdent (s : String) : Ident := { viaIdentifier := true, tokenType := "IDENTIFIER", text := s }

/-- a well-formed relation reference: wildcard and relation are not both set (the protobuf
    `oneof`).  An ill-formed one is printed `type:*#rel`, which is the text of no restriction. -/
def refOk (r : RelRef) : Bool := !(r.wildcard && r.rel != "")

def toRestr (r : RelRef) : Option Restr :=
  if refOk r then
    some { pre := none, type := mkIdent r.type,
           kind := if r.wildcard then .wildcard else if r.rel != "" then .userset (mkIdent r.rel) else .plain,
           cond := if r.cond != "" then some (" ", " ", r.cond) else none,
           post := none }
  else none

def toRestrs : List RelRef → Option (List Restr)
  | [] => some []
  | r :: rs =>
    match toRestr r, toRestrs rs with
    | some x, some xs => some (x :: xs)
    | _, _ => none

/-- `[r1, r2, …]`; an empty list is printed `[]`, which is no direct assignment
    (KF-C02-empty-restrictions) -/
def toDirect : List RelRef → Option Direct
  | [] => none
  | r :: rs =>
    match toRestr r, toRestrs rs with
    | some x, some xs => some { w0 := none, first := x, w1 := none, rest := xs.map (fun y => (some " ", y, none)) }
    | _, _ => none

def mkItems (y : ItemND) : List ItemND → Items
  | [] => .one " " " " y
  | z :: zs => .cons " " " " y (mkItems z zs)

/-- operands joined by one operator; a single operand stands alone -/
def mkDefND (op : Op) (x : ItemND) : List ItemND → DefND
  | [] => .mk x none
  | y :: ys => .mk x (some (.mk op (mkItems y ys)))

def mkDef (op : Op) (f : First) : List ItemND → Def
  | [] => .mk f none
  | y :: ys => .mk f (some (.mk op (mkItems y ys)))

mutual
  /-- an operand that is not the first one (`parseSubRelation` in a position where the grammar
      has relationDefGrouping | relationRecurseNoDirect): no direct assignment anywhere inside -/
  def toItem : Userset → Option ItemND
    | .this => none
    | .nil => none
    | .computed r => some (.rw { computed := mkIdent r, from_ := none })
    | .ttu ts cu => some (.rw { computed := mkIdent cu, from_ := some (" ", " ", mkIdent ts) })
    | .union cs =>
        match toItems cs with
        | some (x :: xs) => some (.paren (.ofDef [] [] (mkDefND .or x xs)))
        | _ => none
    | .inter cs =>
        match toItems cs with
        | some (x :: xs) => some (.paren (.ofDef [] [] (mkDefND .and x xs)))
        | _ => none
    | .diff b s =>
        match toItem b, toItem s with
        | some x, some y => some (.paren (.ofDef [] [] (mkDefND .butNot x [y])))
        | _, _ => none
  def toItems : List Userset → Option (List ItemND)
    | [] => some []
    | c :: cs =>
        match toItem c, toItems cs with
        | some x, some xs => some (x :: xs)
        | _, _ => none
end

/-- the operands other than the first direct assignment, in source order -/
def toItemsSkip : List Userset → Option (List ItemND)
  | [] => some []
  | c :: cs =>
    if isThis c then toItems cs
    else match toItem c, toItemsSkip cs with
      | some x, some xs => some (x :: xs)
      | _, _ => none

/-- the body of an operator with operands `c :: rest`, from the pieces: if some operand is a
    direct assignment it comes first and the others follow in source order; otherwise the first operand
    may itself start with the direct assignment -/
def assemble (op : Op) (hasThis : Bool) (d : Option Direct) (fc : Option First)
    (skip rest : Option (List ItemND)) : Option Def :=
  if hasThis then
    match d, skip with
    | some d, some xs => some (mkDef op (.direct d) xs)
    | _, _ => none
  else
    match fc, rest with
    | some f, some xs => some (mkDef op f xs)
    | _, _ => none

/-- an operand in first position (`parseSubRelation` where the grammar has
    relationDefDirectAssignment | relationDefGrouping | relationRecurse).  A parenthesised group is
    always built as `( relationDef )`, the first alternative of relationRecurse, never as
    `( relationRecurseNoDirect )`, and in `toItem` always as `( relationDefNoDirect )`: where both
    alternatives derive the text (`((a or b))`) the lowest one is the one an ANTLR parser resolves to.
    (That the parser builds this very tree is the parser half, not claimed here; the grammar-driven
    parser model does, on the token sequence of `toCst`'s trees.) -/
def toFirst (rs : List RelRef) : Userset → Option First
  | .this => (toDirect rs).map .direct
  | .nil => none
  | .computed r => some (.rw { computed := mkIdent r, from_ := none })
  | .ttu ts cu => some (.rw { computed := mkIdent cu, from_ := some (" ", " ", mkIdent ts) })
  | .union cs =>
      match cs with
      | [] => none
      | c :: rest =>
        (assemble .or ((c :: rest).any isThis) (toDirect rs) (toFirst rs c) (toItemsSkip (c :: rest)) (toItems rest)).map
          (fun d => .recurse (.ofDef [] [] d))
  | .inter cs =>
      match cs with
      | [] => none
      | c :: rest =>
        (assemble .and ((c :: rest).any isThis) (toDirect rs) (toFirst rs c) (toItemsSkip (c :: rest)) (toItems rest)).map
          (fun d => .recurse (.ofDef [] [] d))
  | .diff b s =>
      match toFirst rs b, toItem s with
      | some f, some y => some (.recurse (.ofDef [] [] (mkDef .butNot f [y])))
      | _, _ => none

/-- the body of a top-level or nested union / intersection -/
def defOfOp (rs : List RelRef) (op : Op) : List Userset → Option Def
  | [] => none
  | c :: rest => assemble op ((c :: rest).any isThis) (toDirect rs) (toFirst rs c) (toItemsSkip (c :: rest)) (toItems rest)

/-- **The concrete syntax tree of a printed relation body** (`parseTop`: the top-level operator
    without parentheses).  `none` where the printed text is the text of no tree: an empty restriction
    list (`[]`), an ill-formed restriction (`type:*#rel`), a direct assignment in a position where the
    grammar has none, an unset userset, an operator without operands. -/
def toCst (rs : List RelRef) : Userset → Option Def
  | .diff b s =>
      match toFirst rs b, toItem s with
      | some f, some y => some (mkDef .butNot f [y])
      | _, _ => none
  | .union cs => defOfOp rs .or cs
  | .inter cs => defOfOp rs .and cs
  | u => (toFirst rs u).map (fun f => .mk f none)

/-! ## strings -/

/-- `sep.intercalate (x :: xs) = x ++ joinRest sep xs` -/
def joinRest (sep : String) : List String → String
  | [] => ""
  | y :: ys => sep ++ y ++ joinRest sep ys

theorem intercalate_cons (sep x : String) (xs : List String) :
    sep.intercalate (x :: xs) = x ++ joinRest sep xs := by
  induction xs generalizing x with
  | nil => simp [joinRest]
  | cons y ys ih => rw [String.intercalate_cons_cons, ih]; simp [joinRest, String.append_assoc]

theorem textL_append (a b : List Tree) : Tree.textL (a ++ b) = Tree.textL a ++ Tree.textL b := by
  induction a with
  | nil => simp [Tree.textL]
  | cons x xs ih => simp [Tree.textL, ih, String.append_assoc]

/-- the text of an operator with its two blanks -/
def opSep : Op → String
  | .or => " or "
  | .and => " and "
  | .butNot => " but not "
  | .none => " or "

theorem opSep_eq (op : Op) : " " ++ (opTok op).text ++ " " = opSep op := by
  cases op <;> decide

/-! ## type restrictions -/

theorem restr_ok (r : RelRef) (x : Restr) (h : toRestr r = some x) :
    x.tree.text = parseTypeRestriction r ∧ x.den = r := by
  obtain ⟨ty, rel, wc, cond⟩ := r
  unfold toRestr at h
  split at h
  · rename_i hok
    simp only [Option.some.injEq] at h
    subst h
    simp only [refOk, Bool.not_eq_true', Bool.and_eq_false_iff] at hok
    by_cases hw : wc = true <;> by_cases hr : rel = "" <;> by_cases hc : cond = "" <;>
      simp_all [Restr.tree, Restr.baseTree, Restr.den, parseTypeRestriction, Tree.text, Tree.textL, optNl, tokT, ws,
        mkIdent, String.append_assoc]
    all_goals simp [← String.append_assoc]
  · cases h

/-- a restriction has a tree exactly when it is well formed -/
theorem toRestr_isSome (r : RelRef) : (toRestr r).isSome = refOk r := by
  unfold toRestr; split <;> simp_all

theorem restrs_ok : (rs : List RelRef) → (xs : List Restr) → toRestrs rs = some xs →
    xs.map (fun x => x.tree.text) = rs.map parseTypeRestriction ∧ xs.map Restr.den = rs
  | [], xs, h => by simp [toRestrs] at h; subst h; simp
  | r :: rs, xs, h => by
    unfold toRestrs at h
    split at h
    · rename_i x xs' hx hxs
      simp only [Option.some.injEq] at h
      subst h
      have h1 := restr_ok r x hx
      have h2 := restrs_ok rs xs' hxs
      simp [h1.1, h1.2, h2.1, h2.2]
    · cases h

theorem restTrees_text (xs : List Restr) :
    Tree.textL (Direct.restTrees (xs.map (fun y => (some " ", y, none)))) =
      joinRest ", " (xs.map (fun x => x.tree.text)) := by
  induction xs with
  | nil => simp [Direct.restTrees, Tree.textL, joinRest]
  | cons x xs ih =>
    simp only [List.map_cons, Direct.restTrees, textL_append, ih, joinRest, optWs, Tree.textL, Tree.text, tokT, ws]
    simp

/-- what a direct assignment needs: at least one restriction, all well formed -/
def rsOk (rs : List RelRef) : Bool := !rs.isEmpty && rs.all refOk

theorem toRestrs_isSome (rs : List RelRef) : (toRestrs rs).isSome = rs.all refOk := by
  induction rs with
  | nil => simp [toRestrs]
  | cons r rs ih =>
    unfold toRestrs
    by_cases hr : refOk r = true
    · cases hrs : toRestrs rs <;> simp_all [toRestr]
    · simp_all [toRestr]

theorem toDirect_isSome (rs : List RelRef) : (toDirect rs).isSome = rsOk rs := by
  cases rs with
  | nil => simp [toDirect, rsOk]
  | cons r rs =>
    have := toRestrs_isSome (r :: rs)
    unfold toRestrs at this
    unfold toDirect
    simp only [rsOk, List.isEmpty_cons, Bool.not_false, Bool.true_and, ← this]
    cases toRestr r <;> cases toRestrs rs <;> simp

theorem direct_ok (rs : List RelRef) (d : Direct) (h : toDirect rs = some d) :
    d.tree.text = parseThis rs ∧ d.den = rs := by
  cases rs with
  | nil => simp [toDirect] at h
  | cons r rs =>
    simp only [toDirect] at h
    split at h
    · rename_i x xs hx hxs
      simp only [Option.some.injEq] at h
      subst h
      have h1 := restr_ok r x hx
      have h2 := restrs_ok rs xs hxs
      refine ⟨?_, ?_⟩
      · simp only [Direct.tree, Tree.text, textL_append, restTrees_text, optWs, Tree.textL, tokT, parseThis,
          List.map_cons, intercalate_cons, h1.1, h2.1]
        simp [String.append_assoc]
      · simp [Direct.den, h1.2, List.map_map, Function.comp_def, h2.2]
    · cases h

/-! ## operands, operators, parentheses: text, denotation, well-formedness -/

abbrev itext (i : ItemND) : String := (ItemND.tree i).text

theorem items_text (op : Op) (y : ItemND) (ys : List ItemND) :
    Tree.textL (Items.trees op (mkItems y ys)) = joinRest (opSep op) ((y :: ys).map itext) := by
  induction ys generalizing y with
  | nil =>
    simp only [mkItems, Items.trees, Tree.textL, Tree.text, ws, tokT, List.map_cons, List.map_nil, joinRest,
      ← opSep_eq]
    simp [String.append_assoc]
  | cons z zs ih =>
    simp only [mkItems, Items.trees, textL_append, ih, Tree.textL, Tree.text, ws, tokT, List.map_cons, joinRest,
      ← opSep_eq]
    simp [String.append_assoc]

theorem items_dens (y : ItemND) (ys : List ItemND) : Items.dens (mkItems y ys) = (y :: ys).map ItemND.den := by
  induction ys generalizing y with
  | nil => simp [mkItems, Items.dens]
  | cons z zs ih => simp [mkItems, Items.dens, ih]

theorem items_wf (y : ItemND) (ys : List ItemND) : Items.wf (mkItems y ys) = (y :: ys).all ItemND.wf := by
  induction ys generalizing y with
  | nil => simp [mkItems, Items.wf]
  | cons z zs ih => simp [mkItems, Items.wf, ih]

theorem mkDefND_text (op : Op) (x : ItemND) (xs : List ItemND) :
    (DefND.tree (mkDefND op x xs)).text = itext x ++ joinRest (opSep op) (xs.map itext) := by
  cases xs with
  | nil => simp [mkDefND, DefND.tree, Tree.text, Tree.textL, joinRest]
  | cons y ys => simp [mkDefND, DefND.tree, Partials.tree, Tree.text, Tree.textL, items_text]

theorem mkDefND_den (op : Op) (x : ItemND) (xs : List ItemND) :
    DefND.den (mkDefND op x xs) = collapse (combine op) (ItemND.den x :: xs.map ItemND.den) := by
  cases xs with
  | nil => simp [mkDefND, DefND.den, collapse]
  | cons y ys => simp [mkDefND, DefND.den, collapse, items_dens]

theorem mkDefND_wf (op : Op) (hop : opOk op = true) (x : ItemND) (xs : List ItemND) :
    DefND.wf (mkDefND op x xs) = (ItemND.wf x && xs.all ItemND.wf) := by
  cases xs with
  | nil => simp [mkDefND, DefND.wf]
  | cons y ys => simp [mkDefND, DefND.wf, Partials.wf, hop, items_wf]

theorem mkDef_text (op : Op) (f : First) (xs : List ItemND) :
    (Def.tree (mkDef op f xs)).text = (First.tree f).text ++ joinRest (opSep op) (xs.map itext) := by
  cases xs with
  | nil => simp [mkDef, Def.tree, Tree.text, Tree.textL, joinRest]
  | cons y ys => simp [mkDef, Def.tree, Partials.tree, Tree.text, Tree.textL, items_text]

theorem mkDef_den (op : Op) (f : First) (xs : List ItemND) :
    Def.den (mkDef op f xs) = collapse (combine op) (First.den f :: xs.map ItemND.den) := by
  cases xs with
  | nil => simp [mkDef, Def.den, collapse]
  | cons y ys => simp [mkDef, Def.den, collapse, items_dens]

theorem mkDef_wf (op : Op) (hop : opOk op = true) (f : First) (xs : List ItemND) :
    Def.wf (mkDef op f xs) = (First.wf f && xs.all ItemND.wf) := by
  cases xs with
  | nil => simp [mkDef, Def.wf]
  | cons y ys => simp [mkDef, Def.wf, Partials.wf, hop, items_wf]

theorem mkDef_restr (op : Op) (f : First) (xs : List ItemND) : Def.restr (mkDef op f xs) = First.restr f := by
  cases xs <;> simp [mkDef, Def.restr]

theorem parenND_text (d : DefND) : (RecND.tree (.ofDef [] [] d)).text = "(" ++ (DefND.tree d).text ++ ")" := by
  simp [RecND.tree, Tree.text, Tree.textL, tokT, String.append_assoc]

theorem paren_text (d : Def) : (Rec.tree (.ofDef [] [] d)).text = "(" ++ (Def.tree d).text ++ ")" := by
  simp [Rec.tree, Tree.text, Tree.textL, tokT, String.append_assoc]

theorem combine_or : combine .or = Userset.union := by funext xs; rfl
theorem combine_and : combine .and = Userset.inter := by funext xs; rfl

/-! ## hoisting -/

theorem hoistParts_eq (us : List Userset) (parts : List String) : hoistParts us parts = hoistBy us parts := rfl

theorem isThis_eq (u : Userset) (h : isThis u = true) : u = .this := by
  cases u <;> simp [isThis] at h; rfl

theorem findIdx_none_of_count : (cs : List Userset) → countThisL cs = 0 → cs.findIdx? isThis = none
  | [], _ => by simp
  | c :: cs, h => by
    simp only [countThisL] at h
    have hc : isThis c = false := by
      cases c <;> simp_all [isThis, countThis]
    rw [List.findIdx?_cons, hc, findIdx_none_of_count cs (by omega)]
    simp

theorem hoistBy_none (us : List Userset) (xs : List α) (h : us.findIdx? isThis = none) : hoistBy us xs = xs := by
  simp [hoistBy, h]

theorem hoistBy_this (cs : List Userset) (x : α) (xs : List α) : hoistBy (.this :: cs) (x :: xs) = x :: xs := by
  simp [hoistBy, List.findIdx?_cons, isThis, moveToFront]

theorem hoistBy_other (c : Userset) (cs : List Userset) (x y : α) (xs ys : List α) (hc : isThis c = false)
    (hany : cs.any isThis = true) (hlen : cs.length = xs.length) (h : hoistBy cs xs = y :: ys) :
    hoistBy (c :: cs) (x :: xs) = y :: x :: ys := by
  cases hi : cs.findIdx? isThis with
  | none =>
    rw [List.findIdx?_eq_none_iff] at hi
    simp only [List.any_eq_true] at hany
    obtain ⟨z, hz, hz'⟩ := hany
    exact absurd hz' (by simpa using hi z hz)
  | some i =>
    have hlt : i < xs.length := by
      have := (List.findIdx?_eq_some_iff_getElem.1 hi).1
      omega
    simp only [hoistBy, hi, moveToFront] at h
    simp only [hoistBy, List.findIdx?_cons, hc, hi, moveToFront]
    cases hd : xs.drop i with
    | nil => simp [List.drop_eq_nil_iff] at hd; omega
    | cons z zs =>
      simp only [hd, List.head?_cons, Option.toList_some, List.cons_append, List.nil_append, List.cons.injEq] at h
      simp [hd, h.1, ← h.2]

theorem moveToFront_map (f : α → β) (i : Nat) (xs : List α) :
    moveToFront i (xs.map f) = (moveToFront i xs).map f := by
  unfold moveToFront
  cases h : xs.drop i <;> simp [← List.map_drop, ← List.map_take, h]

theorem normL_eq_map (cs : List Userset) : normL cs = cs.map norm := by
  induction cs with
  | nil => simp [normL]
  | cons c cs ih => simp [normL, ih]

/-- `norm` hoists exactly as `prioritizeDirectAssignment` does -/
theorem hoistBy_normL (cs : List Userset) : hoistBy cs (normL cs) = (prioritizeDirectAssignment cs).map norm := by
  rw [normL_eq_map]
  cases h : cs.findIdx? isThis <;> simp [hoistBy, prioritizeDirectAssignment, h, moveToFront_map]

theorem norm_union (cs : List Userset) :
    norm (.union cs) = collapse .union ((prioritizeDirectAssignment cs).map norm) := by
  rw [norm, hoistBy_normL]

theorem norm_inter (cs : List Userset) :
    norm (.inter cs) = collapse .inter ((prioritizeDirectAssignment cs).map norm) := by
  rw [norm, hoistBy_normL]

theorem children_length (ty rel : String) (rs : List RelRef) : (cs : List Userset) → (n : Nat) → (ps : List String) →
    (n' : Nat) → parseChildren ty rel rs cs n = .ok (ps, n') → ps.length = cs.length
  | [], n, ps, n', h => by simp [parseChildren] at h; simp [← h.1]
  | c :: cs, n, ps, n', h => by
    simp only [parseChildren] at h
    split at h
    · cases h
    · split at h
      · cases h
      · rename_i ss n2 hcs
        cases h
        simp [children_length ty rel rs cs _ _ _ hcs]

theorem normL_length (cs : List Userset) : (normL cs).length = cs.length := by
  simp [normL_eq_map]

theorem any_isThis_count : (cs : List Userset) → cs.any isThis = true → 1 ≤ countThisL cs
  | [], h => by simp at h
  | c :: cs, h => by
    simp only [List.any_cons, Bool.or_eq_true] at h
    simp only [countThisL]
    rcases h with h | h
    · rw [isThis_eq c h]; simp [countThis]
    · have := any_isThis_count cs h; omega

/-! ## operands that are not in first position -/

/-- a parenthesised union / intersection in a position without direct assignment, from the facts
    about its operands -/
theorem paren_item (op : Op) (hop : opOk op = true) (mk : List Userset → Userset) (hmk : combine op = mk)
    (cs : List Userset) (parts : List String) (xs : List ItemND)
    (hne : cs.isEmpty = false) (hcount : countThisL cs = 0)
    (hx : toItems cs = some xs) (hwf : xs.all ItemND.wf = true) (htext : xs.map itext = parts)
    (hden : xs.map ItemND.den = normL cs) :
    ∃ i, (match toItems cs with
          | some (x :: xs) => some (ItemND.paren (.ofDef [] [] (mkDefND op x xs)))
          | _ => none) = some i ∧ i.wf = true ∧
      itext i = "(" ++ (opSep op).intercalate (hoistParts cs parts) ++ ")" ∧
      ItemND.den i = collapse mk (hoistBy cs (normL cs)) := by
  have hnone := findIdx_none_of_count cs hcount
  rw [hoistParts_eq, hoistBy_none _ _ hnone, hoistBy_none _ _ hnone, hx]
  cases xs with
  | nil =>
    cases cs with
    | nil => simp at hne
    | cons c cs => simp [normL] at hden
  | cons x xs =>
    refine ⟨_, rfl, ?_, ?_, ?_⟩
    · simp only [ItemND.wf, RecND.wf, mkDefND_wf op hop]
      simpa using hwf
    · simp only [itext, ItemND.tree, parenND_text, mkDefND_text, ← htext, List.map_cons, intercalate_cons]
    · simp only [ItemND.den, RecND.den, mkDefND_den, hmk, ← hden, List.map_cons]

mutual
  theorem item_ok (ty rel : String) (rs : List RelRef) : (u : Userset) → (n : Nat) → (s : String) → (n' : Nat) →
      parseSubRelation ty rel rs u n = .ok (s, n') → countThis u = 0 →
      ∃ i, toItem u = some i ∧ i.wf = true ∧ itext i = s ∧ ItemND.den i = norm u
    | .this, n, s, n', h, hc => by simp [countThis] at hc
    | .nil, n, s, n', h, hc => by simp [parseSubRelation] at h
    | .computed r, n, s, n', h, hc => by
        simp only [parseSubRelation, Except.ok.injEq, Prod.mk.injEq] at h
        refine ⟨_, rfl, rfl, ?_, ?_⟩
        · simp [itext, ItemND.tree, Rw.grouping, Rw.tree, Tree.text, Tree.textL, mkIdent, ← h.1]
        · simp [ItemND.den, Rw.den, norm, mkIdent]
    | .ttu ts cu, n, s, n', h, hc => by
        simp only [parseSubRelation, Except.ok.injEq, Prod.mk.injEq] at h
        refine ⟨_, rfl, rfl, ?_, ?_⟩
        · simp [itext, ItemND.tree, Rw.grouping, Rw.tree, Tree.text, Tree.textL, mkIdent, ← h.1, ws, tokT,
            ← String.append_assoc]
        · simp [ItemND.den, Rw.den, norm, mkIdent]
    | .union cs, n, s, n', h, hc => by
        simp only [parseSubRelation] at h
        split at h
        · cases h
        · rename_i hne
          split at h
          · rename_i parts n2 hch
            simp only [Except.ok.injEq, Prod.mk.injEq] at h
            simp only [countThis] at hc
            obtain ⟨xs, hx, hwf, htext, hden⟩ := items_ok ty rel rs cs n parts n2 hch hc
            have := paren_item .or rfl .union combine_or cs parts xs (by simpa using hne) hc hx hwf htext hden
            simpa only [toItem, norm, ← h.1, opSep] using this
          · cases h
    | .inter cs, n, s, n', h, hc => by
        simp only [parseSubRelation] at h
        split at h
        · cases h
        · rename_i hne
          split at h
          · rename_i parts n2 hch
            simp only [Except.ok.injEq, Prod.mk.injEq] at h
            simp only [countThis] at hc
            obtain ⟨xs, hx, hwf, htext, hden⟩ := items_ok ty rel rs cs n parts n2 hch hc
            have := paren_item .and rfl .inter combine_and cs parts xs (by simpa using hne) hc hx hwf htext hden
            simpa only [toItem, norm, ← h.1, opSep] using this
          · cases h
    | .diff b sb, n, s, n', h, hc => by
        simp only [parseSubRelation] at h
        split at h
        · cases h
        · rename_i bs n1 hb
          split at h
          · cases h
          · rename_i ss n2 hs
            simp only [Except.ok.injEq, Prod.mk.injEq] at h
            simp only [countThis] at hc
            obtain ⟨x, hx, hxwf, hxt, hxd⟩ := item_ok ty rel rs b n bs n1 hb (by omega)
            obtain ⟨y, hy, hywf, hyt, hyd⟩ := item_ok ty rel rs sb n1 ss n2 hs (by omega)
            refine ⟨.paren (.ofDef [] [] (mkDefND .butNot x [y])), by simp only [toItem, hx, hy], ?_, ?_, ?_⟩
            · simp [ItemND.wf, RecND.wf, mkDefND_wf .butNot rfl, hxwf, hywf]
            · simp only [itext, ItemND.tree, parenND_text, mkDefND_text, List.map_cons, List.map_nil, joinRest, opSep,
                ← h.1]
              simp only [itext] at hxt hyt
              simp [hxt, hyt, String.append_assoc]
            · simp [ItemND.den, RecND.den, mkDefND_den, collapse, combine, hxd, hyd, norm]
  theorem items_ok (ty rel : String) (rs : List RelRef) : (cs : List Userset) → (n : Nat) → (parts : List String) →
      (n' : Nat) → parseChildren ty rel rs cs n = .ok (parts, n') → countThisL cs = 0 →
      ∃ xs, toItems cs = some xs ∧ xs.all ItemND.wf = true ∧ xs.map itext = parts ∧ xs.map ItemND.den = normL cs
    | [], n, parts, n', h, hc => by
        simp only [parseChildren, Except.ok.injEq, Prod.mk.injEq] at h
        exact ⟨[], rfl, rfl, by simp [← h.1], by simp [normL]⟩
    | c :: cs, n, parts, n', h, hc => by
        simp only [parseChildren] at h
        split at h
        · cases h
        · rename_i p n1 hp
          split at h
          · cases h
          · rename_i ps n2 hps
            simp only [Except.ok.injEq, Prod.mk.injEq] at h
            simp only [countThisL] at hc
            obtain ⟨x, hx, hxwf, hxt, hxd⟩ := item_ok ty rel rs c n p n1 hp (by omega)
            obtain ⟨xs, hxs, hxswf, hxst, hxsd⟩ := items_ok ty rel rs cs n1 ps n2 hps (by omega)
            refine ⟨x :: xs, by simp only [toItems, hx, hxs], ?_, ?_, ?_⟩
            · simp [hxwf, hxswf]
            · simp [hxt, hxst, ← h.1]
            · simp [hxd, hxsd, normL]
end

/-! ## the operands of an operator one of which is the direct assignment -/

theorem skip_ok (ty rel : String) (rs : List RelRef) : (cs : List Userset) → (n : Nat) → (parts : List String) →
    (n' : Nat) → parseChildren ty rel rs cs n = .ok (parts, n') → cs.any isThis = true → countThisL cs = 1 →
    ∃ xs, toItemsSkip cs = some xs ∧ xs.all ItemND.wf = true ∧
      hoistBy cs parts = parseThis rs :: xs.map itext ∧ hoistBy cs (normL cs) = .this :: xs.map ItemND.den
  | [], n, parts, n', h, hany, hc => by simp at hany
  | c :: cs, n, parts, n', h, hany, hc => by
    simp only [parseChildren] at h
    split at h
    · cases h
    · rename_i p n1 hp
      split at h
      · cases h
      · rename_i ps n2 hps
        simp only [Except.ok.injEq, Prod.mk.injEq] at h
        simp only [countThisL] at hc
        by_cases hthis : isThis c = true
        · have hceq := isThis_eq c hthis
          subst hceq
          simp only [countThis] at hc
          obtain ⟨xs, hxs, hwf, htext, hden⟩ := items_ok ty rel rs cs n1 ps n2 hps (by omega)
          simp only [parseSubRelation, Except.ok.injEq, Prod.mk.injEq] at hp
          refine ⟨xs, by simp [toItemsSkip, isThis, hxs], hwf, ?_, ?_⟩
          · rw [← h.1, hoistBy_this, hp.1, htext]
          · rw [normL, hoistBy_this, hden]; simp [norm]
        · simp only [Bool.not_eq_true] at hthis
          simp only [List.any_cons, hthis, Bool.false_or] at hany
          have hge := any_isThis_count cs hany
          obtain ⟨x, hx, hxwf, hxt, hxd⟩ := item_ok ty rel rs c n p n1 hp (by omega)
          obtain ⟨xs, hxs, hwf, htext, hden⟩ := skip_ok ty rel rs cs n1 ps n2 hps hany (by omega)
          have hlen := children_length ty rel rs cs n1 ps n2 hps
          refine ⟨x :: xs, by simp [toItemsSkip, hthis, hx, hxs], by simp [hxwf, hwf], ?_, ?_⟩
          · rw [← h.1, hoistBy_other c cs p _ ps _ hthis hany hlen.symm htext]; simp [hxt]
          · rw [normL, hoistBy_other c cs (norm c) _ (normL cs) _ hthis hany (normL_length cs).symm hden]; simp [hxd]

theorem firstPos_count : (u : Userset) → isFirstPosition u = true → 1 ≤ countThis u
  | .this, _ => by simp [countThis]
  | .computed _, h => by simp [isFirstPosition] at h
  | .ttu _ _, h => by simp [isFirstPosition] at h
  | .nil, h => by simp [isFirstPosition] at h
  | .diff b s, h => by
      unfold isFirstPosition at h
      split at h
      · cases h
      · split at h
        · rename_i ht; rw [countThis, isThis_eq b ht]; simp [countThis]
        · have := firstPos_count b h; simp only [countThis]; omega
  | .union cs, h => by
      unfold isFirstPosition at h
      split at h
      · cases h
      · rename_i c rest
        split at h
        · rename_i ha; have := any_isThis_count _ ha; simpa [countThis] using this
        · have := firstPos_count c h; simp only [countThis, countThisL]; omega
  | .inter cs, h => by
      unfold isFirstPosition at h
      split at h
      · cases h
      · rename_i c rest
        split at h
        · rename_i ha; have := any_isThis_count _ ha; simpa [countThis] using this
        · have := firstPos_count c h; simp only [countThis, countThisL]; omega

/-! ## operands in first position -/

/-- what `parseRelation` checks after printing: no direct assignment, or one in first position -/
def firstCond (u : Userset) : Prop := countThis u = 0 ∨ (countThis u = 1 ∧ isFirstPosition u = true)

/-- the statement for an operand printed in first position -/
def FirstSpec (ty rel : String) (rs : List RelRef) (u : Userset) : Prop :=
  ∀ n s n', parseSubRelation ty rel rs u n = .ok (s, n') → firstCond u → (countThis u = 0 ∨ rsOk rs = true) →
    ∃ f, toFirst rs u = some f ∧ f.wf = true ∧ (First.tree f).text = s ∧ First.den f = norm u ∧
      First.restr f = if countThis u = 0 then none else some rs

/-- the body of a union / intersection, given the statement for its first operand -/
theorem defOp_ok (ty rel : String) (rs : List RelRef) (op : Op) (hop : opOk op = true)
    (mk : List Userset → Userset) (hmk : combine op = mk) (c : Userset) (rest : List Userset)
    (ihc : FirstSpec ty rel rs c) (n : Nat) (parts : List String) (n' : Nat)
    (h : parseChildren ty rel rs (c :: rest) n = .ok (parts, n'))
    (hcond : countThisL (c :: rest) = 0 ∨
      (countThisL (c :: rest) = 1 ∧ (if (c :: rest).any isThis = true then true else isFirstPosition c) = true))
    (hrs : countThisL (c :: rest) = 0 ∨ rsOk rs = true) :
    ∃ d, defOfOp rs op (c :: rest) = some d ∧ d.wf = true ∧
      (Def.tree d).text = (opSep op).intercalate (hoistParts (c :: rest) parts) ∧
      Def.den d = collapse mk (hoistBy (c :: rest) (normL (c :: rest))) ∧
      Def.restr d = if countThisL (c :: rest) = 0 then none else some rs := by
  by_cases hany : (c :: rest).any isThis = true
  · have hge := any_isThis_count _ hany
    have hone : countThisL (c :: rest) = 1 := by omega
    have hrs' : rsOk rs = true := by
      rcases hrs with h0 | h1
      · omega
      · exact h1
    obtain ⟨xs, hxs, hwf, htext, hden⟩ := skip_ok ty rel rs (c :: rest) n parts n' h hany hone
    cases hd : toDirect rs with
    | none => rw [← toDirect_isSome, hd] at hrs'; cases hrs'
    | some d =>
      have hdo := direct_ok rs d hd
      refine ⟨mkDef op (.direct d) xs, by simp only [defOfOp, assemble, hany, hd, hxs, if_true], ?_, ?_, ?_, ?_⟩
      · rw [mkDef_wf op hop]; simp [First.wf, hwf]
      · rw [mkDef_text, hoistParts_eq, htext, intercalate_cons, First.tree, hdo.1]
      · rw [mkDef_den, hden, hmk, First.den]
      · rw [mkDef_restr, First.restr, hdo.2, hone]; simp
  · have hnone : (c :: rest).findIdx? isThis = none := by
      rw [List.findIdx?_eq_none_iff]
      intro x hx
      simp only [List.any_eq_true, not_exists, not_and] at hany
      simpa using hany x hx
    simp only [parseChildren] at h
    split at h
    · cases h
    · rename_i p n1 hp
      split at h
      · cases h
      · rename_i ps n2 hps
        simp only [Except.ok.injEq, Prod.mk.injEq] at h
        simp only [hany, Bool.false_eq_true, ↓reduceIte] at hcond
        simp only [countThisL] at hcond hrs ⊢
        have hcc : firstCond c ∧ countThisL rest = 0 := by
          rcases hcond with h0 | ⟨h1, hf⟩
          · exact ⟨Or.inl (by omega), by omega⟩
          · have := firstPos_count c hf
            exact ⟨Or.inr ⟨by omega, hf⟩, by omega⟩
        have hrsc : countThis c = 0 ∨ rsOk rs = true := by
          rcases hrs with h0 | h1
          · exact Or.inl (by omega)
          · exact Or.inr h1
        obtain ⟨f, hf, hfwf, hft, hfd, hfr⟩ := ihc n p n1 hp hcc.1 hrsc
        obtain ⟨xs, hxs, hwf, htext, hden⟩ := items_ok ty rel rs rest n1 ps n2 hps hcc.2
        refine ⟨mkDef op f xs, by simp only [defOfOp, assemble, hany, hf, hxs]; simp, ?_, ?_, ?_, ?_⟩
        · rw [mkDef_wf op hop]; simp [hfwf, hwf]
        · rw [mkDef_text, hoistParts_eq, hoistBy_none _ _ hnone, ← h.1, intercalate_cons, hft, htext]
        · rw [mkDef_den, hoistBy_none _ _ hnone, normL, hmk, hfd, hden]
        · rw [mkDef_restr, hfr]; simp [hcc.2]

theorem toFirst_union (rs : List RelRef) (c : Userset) (rest : List Userset) :
    toFirst rs (.union (c :: rest)) = (defOfOp rs .or (c :: rest)).map (fun d => .recurse (.ofDef [] [] d)) := by
  simp only [toFirst, defOfOp]

theorem toFirst_inter (rs : List RelRef) (c : Userset) (rest : List Userset) :
    toFirst rs (.inter (c :: rest)) = (defOfOp rs .and (c :: rest)).map (fun d => .recurse (.ofDef [] [] d)) := by
  simp only [toFirst, defOfOp]

theorem firstPos_union (c : Userset) (rest : List Userset) :
    isFirstPosition (.union (c :: rest)) = (if (c :: rest).any isThis = true then true else isFirstPosition c) := by
  rw [isFirstPosition]
theorem firstPos_inter (c : Userset) (rest : List Userset) :
    isFirstPosition (.inter (c :: rest)) = (if (c :: rest).any isThis = true then true else isFirstPosition c) := by
  rw [isFirstPosition]

/-- a parenthesised definition in first position -/
theorem paren_first (d : Def) (s : String) (x : Userset) (r : Option (List RelRef)) (f : Option First)
    (hf : f = (some d).map (fun d => First.recurse (.ofDef [] [] d)))
    (hwf : d.wf = true) (ht : (Def.tree d).text = s) (hd : Def.den d = x) (hr : Def.restr d = r) :
    ∃ f', f = some f' ∧ f'.wf = true ∧ (First.tree f').text = "(" ++ s ++ ")" ∧ First.den f' = x ∧ First.restr f' = r := by
  subst hf
  exact ⟨_, rfl, by simpa [First.wf, Rec.wf] using hwf, by rw [First.tree, paren_text, ht],
    by simpa [First.den, Rec.den] using hd, by simpa [First.restr, Rec.restr] using hr⟩

theorem rw_first_computed (r : String) :
    (First.tree (.rw { computed := mkIdent r, from_ := none })).text = r := by
  simp [First.tree, Rw.grouping, Rw.tree, Tree.text, Tree.textL, mkIdent]

theorem rw_first_ttu (ts cu : String) :
    (First.tree (.rw { computed := mkIdent cu, from_ := some (" ", " ", mkIdent ts) })).text = cu ++ " from " ++ ts := by
  simp [First.tree, Rw.grouping, Rw.tree, Tree.text, Tree.textL, mkIdent, ws, tokT, ← String.append_assoc]

/-- the `but not` body, from its two sides -/
theorem diff_ok (ty rel : String) (rs : List RelRef) (b sb : Userset) (ihb : FirstSpec ty rel rs b)
    (n : Nat) (bs : String) (n1 : Nat) (ss : String) (n2 : Nat)
    (hb : parseSubRelation ty rel rs b n = .ok (bs, n1)) (hs : parseSubRelation ty rel rs sb n1 = .ok (ss, n2))
    (hcond : firstCond (.diff b sb)) (hrs : countThis (.diff b sb) = 0 ∨ rsOk rs = true) :
    ∃ f y, toFirst rs b = some f ∧ toItem sb = some y ∧ (mkDef .butNot f [y]).wf = true ∧
      (Def.tree (mkDef .butNot f [y])).text = bs ++ " but not " ++ ss ∧
      Def.den (mkDef .butNot f [y]) = norm (.diff b sb) ∧
      Def.restr (mkDef .butNot f [y]) = if countThis (.diff b sb) = 0 then none else some rs := by
  simp only [firstCond, countThis] at hcond hrs ⊢
  have hcc : firstCond b ∧ countThis sb = 0 := by
    rcases hcond with h0 | ⟨h1, hf⟩
    · exact ⟨Or.inl (by omega), by omega⟩
    · unfold isFirstPosition at hf
      split at hf
      · cases hf
      · split at hf
        · rename_i ht
          have := isThis_eq b ht
          subst this
          simp only [countThis] at h1
          exact ⟨Or.inr ⟨rfl, rfl⟩, by omega⟩
        · have := firstPos_count b hf
          exact ⟨Or.inr ⟨by omega, hf⟩, by omega⟩
  have hrsb : countThis b = 0 ∨ rsOk rs = true := by
    rcases hrs with h0 | h1
    · exact Or.inl (by omega)
    · exact Or.inr h1
  obtain ⟨f, hf, hfwf, hft, hfd, hfr⟩ := ihb n bs n1 hb hcc.1 hrsb
  obtain ⟨y, hy, hywf, hyt, hyd⟩ := item_ok ty rel rs sb n1 ss n2 hs hcc.2
  refine ⟨f, y, hf, hy, ?_, ?_, ?_, ?_⟩
  · rw [mkDef_wf .butNot rfl]; simp [hfwf, hywf]
  · simp only [itext] at hyt
    simp [mkDef_text, joinRest, opSep, hft, hyt, String.append_assoc]
  · simp [mkDef_den, collapse, combine, hfd, hyd, norm]
  · rw [mkDef_restr, hfr]; simp [hcc.2]

/-- **operands in first position**: the printed text of `u` is the text of `toFirst rs u` -/
theorem first_ok (ty rel : String) (rs : List RelRef) : (u : Userset) → FirstSpec ty rel rs u
  | .this => fun n s n' h hcond hrs => by
      simp only [parseSubRelation, Except.ok.injEq, Prod.mk.injEq] at h
      have hrs' : rsOk rs = true := by simpa [countThis] using hrs
      cases hd : toDirect rs with
      | none => rw [← toDirect_isSome, hd] at hrs'; cases hrs'
      | some d =>
        have hdo := direct_ok rs d hd
        exact ⟨.direct d, by simp [toFirst, hd], rfl, by rw [First.tree, hdo.1, h.1], by simp [First.den, norm],
          by simp [First.restr, hdo.2, countThis]⟩
  | .nil => fun n s n' h _ _ => by simp [parseSubRelation] at h
  | .computed r => fun n s n' h _ _ => by
      simp only [parseSubRelation, Except.ok.injEq, Prod.mk.injEq] at h
      exact ⟨_, rfl, rfl, by rw [rw_first_computed, h.1], by simp [First.den, Rw.den, norm, mkIdent],
        by simp [First.restr, countThis]⟩
  | .ttu ts cu => fun n s n' h _ _ => by
      simp only [parseSubRelation, Except.ok.injEq, Prod.mk.injEq] at h
      exact ⟨_, rfl, rfl, by rw [rw_first_ttu, h.1], by simp [First.den, Rw.den, norm, mkIdent],
        by simp [First.restr, countThis]⟩
  | .union [] => fun n s n' h _ _ => by simp [parseSubRelation] at h
  | .inter [] => fun n s n' h _ _ => by simp [parseSubRelation] at h
  | .union (c :: rest) => fun n s n' h hcond hrs => by
      simp only [parseSubRelation, List.isEmpty_cons, Bool.false_eq_true, if_false] at h
      split at h
      · rename_i parts n2 hch
        simp only [Except.ok.injEq, Prod.mk.injEq] at h
        simp only [firstCond, countThis, firstPos_union] at hcond hrs
        obtain ⟨d, hd, hwf, ht, hden, hr⟩ :=
          defOp_ok ty rel rs .or rfl .union combine_or c rest (first_ok ty rel rs c) n parts n2 hch hcond hrs
        rw [← h.1]
        exact paren_first d _ _ _ _ (by rw [toFirst_union, hd]) hwf ht (by rw [hden, norm]) (by rw [hr, countThis])
      · cases h
  | .inter (c :: rest) => fun n s n' h hcond hrs => by
      simp only [parseSubRelation, List.isEmpty_cons, Bool.false_eq_true, if_false] at h
      split at h
      · rename_i parts n2 hch
        simp only [Except.ok.injEq, Prod.mk.injEq] at h
        simp only [firstCond, countThis, firstPos_inter] at hcond hrs
        obtain ⟨d, hd, hwf, ht, hden, hr⟩ :=
          defOp_ok ty rel rs .and rfl .inter combine_and c rest (first_ok ty rel rs c) n parts n2 hch hcond hrs
        rw [← h.1]
        exact paren_first d _ _ _ _ (by rw [toFirst_inter, hd]) hwf ht (by rw [hden, norm]) (by rw [hr, countThis])
      · cases h
  | .diff b sb => fun n s n' h hcond hrs => by
      simp only [parseSubRelation] at h
      split at h
      · cases h
      · rename_i bs n1 hb
        split at h
        · cases h
        · rename_i ss n2 hs
          simp only [Except.ok.injEq, Prod.mk.injEq] at h
          obtain ⟨f, y, hf, hy, hwf, ht, hden, hr⟩ :=
            diff_ok ty rel rs b sb (first_ok ty rel rs b) n bs n1 ss n2 hb hs hcond hrs
          have := paren_first (mkDef .butNot f [y]) _ _ _ (toFirst rs (.diff b sb))
            (by simp only [toFirst, hf, hy, Option.map_some]) hwf ht hden hr
          simpa only [← h.1, String.append_assoc] using this

/-! ## the top level -/

/-- a definition that is a single first operand -/
theorem single_first (f : First) : Def.wf (.mk f none) = First.wf f ∧ (Def.tree (.mk f none)).text = (First.tree f).text ∧
    Def.den (.mk f none) = First.den f ∧ Def.restr (.mk f none) = First.restr f := by
  simp [Def.wf, Def.tree, Def.den, Def.restr, Tree.text, Tree.textL]

theorem top_of_first (ty rel : String) (rs : List RelRef) (u : Userset) (s : String) (occ : Nat)
    (htop : toCst rs u = (toFirst rs u).map (fun f => .mk f none))
    (h : parseSubRelation ty rel rs u 0 = .ok (s, occ)) (hcond : firstCond u) (hrs : countThis u = 0 ∨ rsOk rs = true) :
    ∃ d : Def, toCst rs u = some d ∧ d.wf = true ∧ (Def.tree d).text = s ∧ Def.den d = norm u ∧
      Def.restr d = if countThis u = 0 then none else some rs := by
  obtain ⟨f, hf, hfwf, hft, hfd, hfr⟩ := first_ok ty rel rs u 0 s occ h hcond hrs
  have hs := single_first f
  exact ⟨.mk f none, by rw [htop, hf]; rfl, by rw [hs.1, hfwf], by rw [hs.2.1, hft], by rw [hs.2.2.1, hfd],
    by rw [hs.2.2.2, hfr]⟩

/-- **The printed text of a relation body is the source text of a well-formed concrete syntax tree
    that denotes the normalised input.**

    Hypotheses: printing succeeded with the direct-assignment check `parseRelation` makes
    (`occ = 0 ∨ occ = 1 ∧ isFirstPosition u`), and — only if there is a direct assignment — the
    restriction list is non-empty and every restriction is well formed (`rsOk`; both are needed, see
    the counterexamples below).  Conclusion: `toCst rs u` is defined; it is well formed (the listener
    theorem `walk_decl` applies to it); the concatenation of its token texts is *literally* the printed
    string; it denotes `norm u`; the restrictions it declares are `rs`, unchanged, if the relation has
    a direct assignment and none otherwise (the restrictions of a relation without direct
    assignment are dropped).

    Deviations from the informal statement, all forced by the code: (1) the port hoists the printed
    *parts* (`hoistParts`), not the operands; `norm` hoists the normalised operands by the same index,
    and `norm_union` / `norm_inter` show that this is `prioritizeDirectAssignment` on the operands.
    (2) A one-operand union/intersection below the root is printed `(x)`: the tree has a redundant
    parenthesis there (`First.recurse (.ofDef [] [] (.mk x none))`) and still denotes `x`; at the root
    it is printed `x`.  (3) Nothing else: an exclusion or union as base of an exclusion
    (`(a but not b) but not c`, `(a or b) but not c`) is a parenthesised relationDef in first position,
    and every `none` of `toCst` is excluded by the hypotheses.  What the statement does *not* say: that
    no other tree has this text, nor that the printed names are lexically names (the tree types do not
    constrain identifier texts) — both belong to the lexer/parser half. -/
theorem printed_text_is_cst_of_normal_form (ty rel : String) (rs : List RelRef) (u : Userset) (s : String) (occ : Nat)
    (h : parseTop ty rel rs u = .ok (s, occ))
    (hocc : occ = 0 ∨ (occ = 1 ∧ isFirstPosition u = true))
    (hrs : countThis u = 0 ∨ rsOk rs = true) :
    ∃ d : Def, toCst rs u = some d ∧ d.wf = true ∧ (Def.tree d).text = s ∧ Def.den d = norm u ∧
      Def.restr d = if countThis u = 0 then none else some rs := by
  have hn := top_count ty rel rs u s occ h
  subst hn
  have hcond : firstCond u := hocc
  cases u with
  | this => exact top_of_first ty rel rs _ s _ rfl (by simpa [parseTop] using h) hcond hrs
  | nil => simp [parseTop, parseSubRelation] at h
  | computed r => exact top_of_first ty rel rs _ s _ rfl (by simpa [parseTop] using h) hcond hrs
  | ttu ts cu => exact top_of_first ty rel rs _ s _ rfl (by simpa [parseTop] using h) hcond hrs
  | union cs =>
    cases cs with
    | nil => simp [parseTop] at h
    | cons c rest =>
      simp only [parseTop, List.isEmpty_cons, Bool.false_eq_true, if_false] at h
      split at h
      · rename_i parts n2 hch
        simp only [Except.ok.injEq, Prod.mk.injEq] at h
        simp only [firstCond, countThis, firstPos_union] at hcond hrs
        obtain ⟨d, hd, hwf, ht, hden, hr⟩ :=
          defOp_ok ty rel rs .or rfl .union combine_or c rest (first_ok ty rel rs c) 0 parts n2 hch hcond hrs
        exact ⟨d, by rw [toCst, hd], hwf, by rw [ht, ← h.1]; rfl, by rw [hden, norm], by rw [hr, countThis]⟩
      · cases h
  | inter cs =>
    cases cs with
    | nil => simp [parseTop] at h
    | cons c rest =>
      simp only [parseTop, List.isEmpty_cons, Bool.false_eq_true, if_false] at h
      split at h
      · rename_i parts n2 hch
        simp only [Except.ok.injEq, Prod.mk.injEq] at h
        simp only [firstCond, countThis, firstPos_inter] at hcond hrs
        obtain ⟨d, hd, hwf, ht, hden, hr⟩ :=
          defOp_ok ty rel rs .and rfl .inter combine_and c rest (first_ok ty rel rs c) 0 parts n2 hch hcond hrs
        exact ⟨d, by rw [toCst, hd], hwf, by rw [ht, ← h.1]; rfl, by rw [hden, norm], by rw [hr, countThis]⟩
      · cases h
  | diff b sb =>
    simp only [parseTop] at h
    split at h
    · cases h
    · rename_i bs n1 hb
      split at h
      · cases h
      · rename_i ss n2 hs
        simp only [Except.ok.injEq, Prod.mk.injEq] at h
        obtain ⟨f, y, hf, hy, hwf, ht, hden, hr⟩ :=
          diff_ok ty rel rs b sb (first_ok ty rel rs b) 0 bs n1 ss n2 hb hs hcond hrs
        exact ⟨mkDef .butNot f [y], by simp only [toCst, hf, hy], hwf, by rw [ht, h.1], hden, hr⟩

/-- the restriction lists under which a direct assignment is printed as DSL are exactly those
    for which `toDirect` is defined; and the tree denotes the list unchanged -/
theorem direct_denotes (rs : List RelRef) (d : Direct) (h : toDirect rs = some d) :
    d.tree.text = parseThis rs ∧ d.den = rs := direct_ok rs d h

/-! ### both side conditions on the restrictions are needed -/

/-- KF-C02-empty-restrictions: `[]` is printed, and it is the text of no tree (`toCst = none`; a
    `Direct` has at least one restriction) -/
example : parseTop "t" "r" [] .this = .ok ("[]", 1) ∧ toCst [] .this = none := ⟨by rfl, by rfl⟩

/-- wildcard and relation both set: `user:*#member` is printed; no `Restr` has that text
    (`RestrKind` is plain, wildcard *or* userset) -/
example : parseTop "t" "r" [{ type := "user", rel := "member", wildcard := true }] .this = .ok ("[user:*#member]", 1) ∧
    toCst [{ type := "user", rel := "member", wildcard := true }] .this = none := ⟨by rfl, by rfl⟩

/-- the check on the direct-assignment counter is needed: printed, but the direct assignment is
    in a position where the grammar has none -/
example : parseTop "t" "r" [{ type := "user" }] (.diff (.computed "a") .this) = .ok ("a but not [user]", 1) ∧
    toCst [{ type := "user" }] (.diff (.computed "a") .this) = none := ⟨by rfl, by rfl⟩

/-! ## the whole declaration line -/

theorem define_prefix (rel body : String) :
    "\n    " ++ ("define" ++ (" " ++ rel)) ++ ":" ++ " " ++ body = "\n" ++ ("    define " ++ rel ++ ": " ++ body) := by
  have h2 : ∀ x : String, x ++ ":" ++ " " = x ++ ": " := fun x => by
    rw [String.append_assoc]; congr 1
  rw [h2]
  simp [← String.append_assoc]

/-- **A printed relation line is a relation declaration**: `"\n" ++ line` (the line break is the one
    `parseRelations` puts before every line) is the source text of a `relationDeclaration` tree with
    NEWLINE token `"\n    "` (line break and indentation are one token in the lexer grammar), single
    blanks after `define` and after the colon, none before it, whose body is `toCst md.restr u`. -/
theorem printed_relation_is_declaration (ty rel : String) (u : Userset) (md : RelMeta) (line : String)
    (h : parseRelation ty rel u md false = .ok line)
    (hrs : countThis u = 0 ∨ rsOk md.restr = true) :
    ∃ d : Decl, d.nl0 = "\n    " ∧ d.w1 = " " ∧ d.w2 = none ∧ d.w3 = some " " ∧ d.name = mkIdent rel ∧
      toCst md.restr u = some d.body ∧
      (Decl.tree d).text = "\n" ++ line ∧ d.body.wf = true ∧ Def.den d.body = norm u ∧
      Def.restr d.body = if countThis u = 0 then none else some md.restr := by
  unfold parseRelation at h
  split at h
  · cases h
  · rename_i s occ hp
    split at h
    · rename_i hcheck
      simp only [Except.ok.injEq] at h
      have hocc : occ = 0 ∨ (occ = 1 ∧ isFirstPosition u = true) := by simpa using hcheck
      obtain ⟨b, hb, hwf, ht, hden, hr⟩ := printed_text_is_cst_of_normal_form ty rel md.restr u s occ hp hocc hrs
      refine ⟨⟨"\n    ", " ", mkIdent rel, none, some " ", b⟩, rfl, rfl, rfl, rfl, rfl, hb, ?_, hwf, hden, hr⟩
      have hcs : constructSourceComment md.module md.file " extended by:" false = "" := by
        simp [constructSourceComment]
      rw [← h, hcs, String.append_empty]
      simp only [Decl.tree, Tree.text, textL_append, Tree.textL, optWs, nl, ws, tokT, ident_text, mkIdent, ht,
        String.append_empty]
      exact define_prefix rel s
    · cases h

end FgaVerif.Model.PrintCst
