import FgaVerif.Spec.Weights
/-! Algebra of the weight maps of the specification: key-sorted association lists with pointwise
    maximum.  Sorted maps are determined by their lookups (`ext`), `unionMax` is a commutative,
    associative merge at the level of lookups, and the intersection combination is symmetric in its
    operands — so the order of the operands of a union or intersection cannot matter. -/
namespace FgaVerif.Spec.Weights

/-- keys strictly increasing -/
def SortedW (w : WMap) : Prop := w.Pairwise (fun a b => a.1 < b.1)

theorem lookupW_none_of_lt (k : String) (w : WMap) (h : ∀ x ∈ w, k < x.1) : lookupW k w = none := by
  induction w with
  | nil => rfl
  | cons kv rest ih =>
    obtain ⟨k', v'⟩ := kv
    have hlt : k < k' := h (k', v') (by simp)
    have hne : (k == k') = false := by
      have : k ≠ k' := fun e => String.lt_irrefl k' (e ▸ hlt)
      simpa using this
    simp only [lookupW, hne, Bool.false_eq_true, if_false]
    exact ih (fun x hx => h x (by simp [hx]))

theorem SortedW.tail {kv : String × Nat} {rest : WMap} (h : SortedW (kv :: rest)) : SortedW rest :=
  (List.pairwise_cons.1 h).2

theorem SortedW.head_lt {kv : String × Nat} {rest : WMap} (h : SortedW (kv :: rest)) : ∀ x ∈ rest, kv.1 < x.1 :=
  (List.pairwise_cons.1 h).1

theorem lookupW_head_tail_none {k : String} {v : Nat} {rest : WMap} (h : SortedW ((k, v) :: rest)) :
    lookupW k rest = none := lookupW_none_of_lt k rest h.head_lt

/-- sorted maps are determined by their lookups -/
theorem SortedW.ext : ∀ (a b : WMap), SortedW a → SortedW b → (∀ k, lookupW k a = lookupW k b) → a = b
  | [], [], _, _, _ => rfl
  | [], (k, v) :: _, _, _, h => by have := h k; simp [lookupW] at this
  | (k, v) :: _, [], _, _, h => by have := h k; simp [lookupW] at this
  | (k1, v1) :: ra, (k2, v2) :: rb, ha, hb, h => by
    have hk : k1 = k2 := by
      apply Decidable.byContradiction
      intro hne
      rcases Nat.lt_or_ge 0 1 with _ | _
      · by_cases hlt : k1 < k2
        · have h1 := h k1
          have hn : lookupW k1 ((k2, v2) :: rb) = none :=
            lookupW_none_of_lt k1 _ (fun x hx => by
              rcases List.mem_cons.1 hx with rfl | hx
              · exact hlt
              · exact String.lt_trans hlt (hb.head_lt x hx))
          rw [hn] at h1; simp [lookupW] at h1
        · have hgt : k2 < k1 := Decidable.byContradiction (fun hc =>
            hne (String.le_antisymm (String.not_lt.1 hc) (String.not_lt.1 hlt)))
          have h2 := h k2
          have hn : lookupW k2 ((k1, v1) :: ra) = none :=
            lookupW_none_of_lt k2 _ (fun x hx => by
              rcases List.mem_cons.1 hx with rfl | hx
              · exact hgt
              · exact String.lt_trans hgt (ha.head_lt x hx))
          rw [hn] at h2; simp [lookupW] at h2
      · omega
    subst hk
    have hv : v1 = v2 := by have := h k1; simpa [lookupW] using this
    subst hv
    have htail : ra = rb := by
      apply SortedW.ext ra rb ha.tail hb.tail
      intro k
      by_cases hkk : k = k1
      · subst hkk; rw [lookupW_head_tail_none ha, lookupW_head_tail_none hb]
      · have hne : (k == k1) = false := by simpa using hkk
        have := h k
        simpa [lookupW, hne] using this
    rw [htail]

/-- pointwise maximum on optional values, `none` neutral -/
def optMax : Option Nat → Option Nat → Option Nat
  | none, b => b
  | a, none => a
  | some a, some b => some (Nat.max a b)

theorem optMax_comm (a b : Option Nat) : optMax a b = optMax b a := by
  cases a <;> cases b <;> simp [optMax, Nat.max_comm]

theorem optMax_assoc (a b c : Option Nat) : optMax (optMax a b) c = optMax a (optMax b c) := by
  cases a <;> cases b <;> cases c <;> simp [optMax, Nat.max_assoc]

theorem optMax_none_right (a : Option Nat) : optMax a none = a := by cases a <;> rfl

theorem lookupW_insertMax (k : String) (v : Nat) :
    ∀ (w : WMap), SortedW w → ∀ k2, lookupW k2 (insertMax k v w) =
      if k2 == k then optMax (some v) (lookupW k w) else lookupW k2 w
  | [], _, k2 => by
    by_cases h : (k2 == k) = true <;> simp [insertMax, lookupW, h, optMax]
  | (k', v') :: rest, hs, k2 => by
    simp only [insertMax]
    by_cases hk : (k == k') = true
    · have hkk : k = k' := by simpa using hk
      subst hkk
      simp only [beq_self_eq_true, if_true, lookupW]
      by_cases h2 : (k2 == k) = true
      · simp [h2, optMax]
      · simp [h2]
    · have hk' : (k == k') = false := by simpa using hk
      simp only [hk', Bool.false_eq_true, if_false]
      by_cases hlt : k < k'
      · simp only [hlt, if_true]
        have hn : lookupW k ((k', v') :: rest) = none :=
          lookupW_none_of_lt k _ (fun x hx => by
            rcases List.mem_cons.1 hx with rfl | hx
            · exact hlt
            · exact String.lt_trans hlt (hs.head_lt x hx))
        rw [hn]
        by_cases h2 : (k2 == k) = true
        · simp [lookupW, h2, optMax]
        · have h2' : (k2 == k) = false := by simpa using h2
          simp [lookupW, h2']
      · simp only [hlt, if_false]
        have ih := lookupW_insertMax k v rest hs.tail k2
        by_cases h3 : (k2 == k') = true
        · have : k2 = k' := by simpa using h3
          subst this
          have hne : (k2 == k) = false := by
            have : k ≠ k2 := by simpa using hk'
            simpa using fun e => this e.symm
          simp [lookupW, hne]
        · have h3' : (k2 == k') = false := by simpa using h3
          simp only [lookupW, h3', Bool.false_eq_true, if_false, ih, hk']

theorem sortedW_insertMax (k : String) (v : Nat) : ∀ (w : WMap), SortedW w → SortedW (insertMax k v w)
  | [], _ => by simp [insertMax, SortedW]
  | (k', v') :: rest, hs => by
    simp only [insertMax]
    split
    · rename_i hk
      have : k = k' := by simpa using hk
      subst this
      exact List.pairwise_cons.2 ⟨hs.head_lt, hs.tail⟩
    · split
      · rename_i hlt
        refine List.pairwise_cons.2 ⟨?_, hs⟩
        intro b hb
        rcases List.mem_cons.1 hb with rfl | hb
        · exact hlt
        · exact String.lt_trans hlt (hs.head_lt b hb)
      · rename_i hne hnlt
        refine List.pairwise_cons.2 ⟨?_, sortedW_insertMax k v rest hs.tail⟩
        intro b hb
        -- b is the inserted key or an old one
        have hlk : lookupW b.1 (insertMax k v rest) ≠ none ∨ True := Or.inr trivial
        clear hlk
        have hgt : k' < k := Decidable.byContradiction (fun hc =>
          (by simpa using hne : k ≠ k') (String.le_antisymm (String.not_lt.1 hc) (String.not_lt.1 hnlt)))
        -- membership in insertMax: either the key k or a member of rest
        have hmem : ∀ (w : WMap) (x : String × Nat), x ∈ insertMax k v w → x.1 = k ∨ x ∈ w := by
          intro w
          induction w with
          | nil => intro x hx; simp [insertMax] at hx; exact Or.inl (by rw [hx])
          | cons kv r ih =>
            obtain ⟨k0, v0⟩ := kv
            intro x hx
            simp only [insertMax] at hx
            split at hx
            · rcases List.mem_cons.1 hx with rfl | hx
              · exact Or.inl rfl
              · exact Or.inr (by simp [hx])
            · split at hx
              · rcases List.mem_cons.1 hx with rfl | hx
                · exact Or.inl rfl
                · exact Or.inr hx
              · rcases List.mem_cons.1 hx with rfl | hx
                · exact Or.inr (by simp)
                · rcases ih x hx with h | h
                  · exact Or.inl h
                  · exact Or.inr (by simp [h])
        rcases hmem rest b hb with h | h
        · rw [h]; exact hgt
        · exact hs.head_lt b h

theorem sortedW_unionMax (a b : WMap) (ha : SortedW a) : SortedW (unionMax a b) := by
  unfold unionMax
  induction b generalizing a with
  | nil => simpa using ha
  | cons kv rest ih =>
    obtain ⟨k, v⟩ := kv
    simp only [List.foldl_cons]
    exact ih _ (sortedW_insertMax k v a ha)

/-- the maximum over all entries of `b` with key `k` -/
def allMax (k : String) : WMap → Option Nat
  | [] => none
  | (k', v) :: rest => if k == k' then optMax (some v) (allMax k rest) else allMax k rest

theorem allMax_eq_lookupW (k : String) : ∀ (w : WMap), SortedW w → allMax k w = lookupW k w
  | [], _ => rfl
  | (k', v') :: rest, hs => by
    simp only [allMax, lookupW]
    by_cases hk : (k == k') = true
    · have : k = k' := by simpa using hk
      subst this
      have hn := lookupW_head_tail_none hs
      rw [← allMax_eq_lookupW k rest hs.tail] at hn
      simp [hn, optMax]
    · have hk' : (k == k') = false := by simpa using hk
      simp only [hk', Bool.false_eq_true, if_false]
      exact allMax_eq_lookupW k rest hs.tail

theorem lookupW_unionMax (a b : WMap) (ha : SortedW a) (k : String) :
    lookupW k (unionMax a b) = optMax (lookupW k a) (allMax k b) := by
  unfold unionMax
  induction b generalizing a with
  | nil => simp [allMax, optMax_none_right]
  | cons kv rest ih =>
    obtain ⟨k', v'⟩ := kv
    simp only [List.foldl_cons]
    rw [ih _ (sortedW_insertMax k' v' a ha), lookupW_insertMax k' v' a ha k]
    simp only [allMax]
    by_cases hk : (k == k') = true
    · have : k = k' := by simpa using hk
      subst this
      simp only [beq_self_eq_true, if_true]
      rw [optMax_comm (some v') (lookupW k a), optMax_assoc]
    · have hk' : (k == k') = false := by simpa using hk
      simp [hk']

/-- the value under `k` after merging all maps of `cs` -/
def total (k : String) : List WMap → Option Nat
  | [] => none
  | c :: cs => optMax (allMax k c) (total k cs)

theorem total_perm (k : String) {cs cs' : List WMap} (h : cs.Perm cs') : total k cs = total k cs' := by
  induction h with
  | nil => rfl
  | cons x _ ih => simp [total, ih]
  | swap x y l => simp only [total]; rw [← optMax_assoc, ← optMax_assoc, optMax_comm (allMax k y)]
  | trans _ _ ih1 ih2 => exact ih1.trans ih2

theorem sortedW_foldl_unionMax (cs : List WMap) (acc : WMap) (h : SortedW acc) : SortedW (cs.foldl unionMax acc) := by
  induction cs generalizing acc with
  | nil => simpa using h
  | cons c rest ih => exact ih _ (sortedW_unionMax acc c h)

theorem lookupW_foldl_unionMax (cs : List WMap) (acc : WMap) (h : SortedW acc) (k : String) :
    lookupW k (cs.foldl unionMax acc) = optMax (lookupW k acc) (total k cs) := by
  induction cs generalizing acc with
  | nil => simp [total, optMax_none_right]
  | cons c rest ih =>
    simp only [List.foldl_cons, total]
    rw [ih _ (sortedW_unionMax acc c h), lookupW_unionMax acc c h k, optMax_assoc]

/-- **the merge of a list of maps does not depend on their order** -/
theorem foldl_unionMax_perm {cs cs' : List WMap} (h : cs.Perm cs') :
    cs.foldl unionMax [] = cs'.foldl unionMax [] := by
  have hs : SortedW ([] : WMap) := by simp [SortedW]
  apply SortedW.ext _ _ (sortedW_foldl_unionMax cs [] hs) (sortedW_foldl_unionMax cs' [] hs)
  intro k
  rw [lookupW_foldl_unionMax cs [] hs k, lookupW_foldl_unionMax cs' [] hs k, total_perm k h]


/-! ### intersection -/

/-- one step of `interCombine`: keep the keys that `x` has too, with the maximum -/
def interStep (acc x : WMap) : WMap :=
  (acc.filter (fun (k, _) => (lookupW k x).isSome)).map (fun (k, v) => (k, Nat.max v ((lookupW k x).getD 0)))

theorem interCombine_cons (w : WMap) (ws : List WMap) : interCombine (w :: ws) = ws.foldl interStep w := rfl

/-- both present: the maximum; otherwise absent -/
def both : Option Nat → Option Nat → Option Nat
  | some a, some b => some (Nat.max a b)
  | _, _ => none

theorem lookupW_interStep (x : WMap) (k : String) : ∀ (acc : WMap),
    lookupW k (interStep acc x) = both (lookupW k acc) (lookupW k x)
  | [] => by simp [interStep, lookupW, both]
  | (k', v') :: rest => by
    have ih := lookupW_interStep x k rest
    unfold interStep at ih ⊢
    simp only [List.filter_cons]
    by_cases hp : (lookupW k' x).isSome = true
    · simp only [hp, if_true, List.map_cons, lookupW]
      by_cases hk : (k == k') = true
      · have : k = k' := by simpa using hk
        subst this
        simp only [beq_self_eq_true, if_true]
        cases hx : lookupW k x with
        | none => simp [hx] at hp
        | some vx => simp [both]
      · have hk' : (k == k') = false := by simpa using hk
        simp only [hk', Bool.false_eq_true, if_false]
        exact ih
    · have hp' : (lookupW k' x).isSome = false := by simpa using hp
      simp only [hp', Bool.false_eq_true, if_false, lookupW]
      by_cases hk : (k == k') = true
      · have : k = k' := by simpa using hk
        subst this
        simp only [beq_self_eq_true, if_true]
        have hx : lookupW k x = none := by simpa using hp'
        rw [ih, hx]
        cases lookupW k rest <;> simp [both]
      · have hk' : (k == k') = false := by simpa using hk
        simp only [hk', Bool.false_eq_true, if_false]
        exact ih

theorem sortedW_interStep (acc x : WMap) (h : SortedW acc) : SortedW (interStep acc x) := by
  unfold interStep SortedW at *
  exact List.Pairwise.map _ (fun a b hab => hab) (List.Pairwise.filter _ h)

/-- the value under `k` in the intersection of a list of maps: present in all, maximum -/
def interTotal (k : String) : List WMap → Option (Option Nat)
  | [] => none                                    -- no operand yet: no constraint
  | c :: cs => match interTotal k cs with
    | none => some (lookupW k c)
    | some r => some (both (lookupW k c) r)

theorem both_comm (a b : Option Nat) : both a b = both b a := by
  cases a <;> cases b <;> simp [both, Nat.max_comm]
theorem both_assoc (a b c : Option Nat) : both (both a b) c = both a (both b c) := by
  cases a <;> cases b <;> cases c <;> simp [both, Nat.max_assoc]

theorem interTotal_perm (k : String) {cs cs' : List WMap} (h : cs.Perm cs') : interTotal k cs = interTotal k cs' := by
  induction h with
  | nil => rfl
  | cons x _ ih => simp [interTotal, ih]
  | swap x y l =>
    simp only [interTotal]
    cases interTotal k l with
    | none => simp [both_comm]
    | some r => simp only; rw [← both_assoc, ← both_assoc, both_comm (lookupW k y)]
  | trans _ _ ih1 ih2 => exact ih1.trans ih2

theorem sortedW_foldl_interStep (ws : List WMap) (acc : WMap) (h : SortedW acc) : SortedW (ws.foldl interStep acc) := by
  induction ws generalizing acc with
  | nil => simpa using h
  | cons c rest ih => exact ih _ (sortedW_interStep acc c h)

theorem lookupW_foldl_interStep (k : String) (ws : List WMap) (acc : WMap) :
    lookupW k (ws.foldl interStep acc) =
      match interTotal k ws with
      | none => lookupW k acc
      | some r => both (lookupW k acc) r := by
  induction ws generalizing acc with
  | nil => simp [interTotal]
  | cons c rest ih =>
    simp only [List.foldl_cons, interTotal]
    rw [ih, lookupW_interStep]
    cases interTotal k rest with
    | none => rfl
    | some r => simp only; rw [both_assoc]

theorem lookupW_interCombine (k : String) (w : WMap) (ws : List WMap) :
    some (lookupW k (interCombine (w :: ws))) = interTotal k (w :: ws) := by
  rw [interCombine_cons, lookupW_foldl_interStep]
  simp only [interTotal]
  cases interTotal k ws <;> rfl

/-- **the intersection of a non-empty list of sorted maps does not depend on their order** -/
theorem interCombine_perm {cs cs' : List WMap} (h : cs.Perm cs') (hs : ∀ c ∈ cs, SortedW c) :
    interCombine cs = interCombine cs' := by
  cases cs with
  | nil => have := h.symm.eq_nil; subst this; rfl
  | cons w ws =>
    cases cs' with
    | nil => exact absurd h.eq_nil (by simp)
    | cons w' ws' =>
      have hs' : ∀ c ∈ w' :: ws', SortedW c := fun c hc => hs c (h.mem_iff.2 hc)
      apply SortedW.ext
      · rw [interCombine_cons]; exact sortedW_foldl_interStep ws w (hs w (by simp))
      · rw [interCombine_cons]; exact sortedW_foldl_interStep ws' w' (hs' w' (by simp))
      · intro k
        have h1 := lookupW_interCombine k w ws
        have h2 := lookupW_interCombine k w' ws'
        rw [interTotal_perm k h] at h1
        exact Option.some.inj (h1.trans h2.symm)

/-! ### the maps that occur are sorted -/

theorem sortedW_shift (cap : Nat) (hop : Bool) (w : WMap) (h : SortedW w) : SortedW (shift cap hop w) := by
  unfold shift
  split
  · unfold SortedW at *
    exact List.Pairwise.map _ (fun a b hab => hab) h
  · exact h

/-- every node's map in the state is sorted -/
def StateSorted (st : State) : Prop := ∀ n, SortedW (stateGet st n)

theorem sortedW_contribution (cap : Nat) (st : State) (hst : StateSorted st) (e : Edge) :
    SortedW (contribution cap st e) := by
  unfold contribution
  split
  · simp [SortedW]
  · simp [SortedW]
  · exact sortedW_shift cap e.hop _ (hst _)

/-- **reordering the operands of a relation, union, operand group or intersection does not change
    its weights** -/
theorem nodeWeights_perm (cap : Nat) (st : State) (hst : StateSorted st) (n : Node) (edges' : List Edge)
    (hp : n.edges.Perm edges') (hk : n.kind ≠ .diff) :
    nodeWeights cap st { n with edges := edges' } = nodeWeights cap st n := by
  have hperm : (n.edges.map (contribution cap st)).Perm (edges'.map (contribution cap st)) := hp.map _
  unfold nodeWeights
  simp only
  cases hkind : n.kind with
  | rel => exact (foldl_unionMax_perm hperm).symm
  | union => exact (foldl_unionMax_perm hperm).symm
  | group => exact (foldl_unionMax_perm hperm).symm
  | inter =>
    refine (interCombine_perm hperm ?_).symm
    intro c hc
    obtain ⟨e, _, rfl⟩ := List.mem_map.1 hc
    exact sortedW_contribution cap st hst e
  | diff => exact absurd hkind hk


/-! ### sortedness is an invariant of the iteration -/

theorem sortedW_nil : SortedW ([] : WMap) := by simp [SortedW]

theorem sortedW_map_values (f : String → Nat → Nat) (w : WMap) (h : SortedW w) :
    SortedW (w.map (fun (k, v) => (k, f k v))) := by
  unfold SortedW at *
  exact List.Pairwise.map _ (fun a b hab => hab) h

theorem sortedW_interCombine (cs : List WMap) (h : ∀ c ∈ cs, SortedW c) : SortedW (interCombine cs) := by
  cases cs with
  | nil => exact sortedW_nil
  | cons w ws => rw [interCombine_cons]; exact sortedW_foldl_interStep ws w (h w (by simp))

theorem sortedW_diffCombine (cs : List WMap) : SortedW (diffCombine cs) := by
  unfold diffCombine
  split
  · exact sortedW_nil
  · rename_i b
    have : ∀ (l : WMap), l.filter (fun _ => false) = [] := by
      intro l; induction l with
      | nil => rfl
      | cons x xs ih => simp only [List.filter_cons, Bool.false_eq_true, if_false, ih]
    rw [this b]; exact sortedW_nil
  · simp only
    exact sortedW_map_values (fun k v => match lookupW k (_ : WMap) with | some v' => Nat.max v v' | none => v) _
      (sortedW_foldl_unionMax _ [] sortedW_nil)

theorem sortedW_nodeWeights (cap : Nat) (st : State) (hst : StateSorted st) (n : Node) :
    SortedW (nodeWeights cap st n) := by
  unfold nodeWeights
  simp only
  split
  · exact sortedW_foldl_unionMax _ [] sortedW_nil
  · exact sortedW_foldl_unionMax _ [] sortedW_nil
  · exact sortedW_foldl_unionMax _ [] sortedW_nil
  · refine sortedW_interCombine _ (fun c hc => ?_)
    obtain ⟨e, _, rfl⟩ := List.mem_map.1 hc
    exact sortedW_contribution cap st hst e
  · exact sortedW_diffCombine _

theorem stateGet_mem (st : State) (n : String) : stateGet st n = [] ∨ ∃ p ∈ st, stateGet st n = p.2 := by
  unfold stateGet
  cases h : st.find? (fun x => x.1 == n) with
  | none => exact Or.inl rfl
  | some p => exact Or.inr ⟨p, List.mem_of_find?_eq_some h, rfl⟩

theorem stateSorted_of_all (st : State) (h : ∀ p ∈ st, SortedW p.2) : StateSorted st := by
  intro n
  rcases stateGet_mem st n with h0 | ⟨p, hp, he⟩
  · rw [h0]; exact sortedW_nil
  · rw [he]; exact h p hp

theorem all_sorted_stepState (cap : Nat) (g : SGraph) (st : State) (hst : StateSorted st) :
    ∀ p ∈ stepState cap g st, SortedW p.2 := by
  intro p hp
  unfold stepState at hp
  obtain ⟨n, _, rfl⟩ := List.mem_map.1 hp
  exact sortedW_nodeWeights cap st hst n

theorem all_sorted_iterate (cap : Nat) (g : SGraph) : ∀ (fuel : Nat) (st : State),
    (∀ p ∈ st, SortedW p.2) → ∀ p ∈ iterate cap g fuel st, SortedW p.2
  | 0, st, h => by simpa [iterate] using h
  | fuel+1, st, h => by
    simp only [iterate]
    split
    · exact h
    · exact all_sorted_iterate cap g fuel _ (all_sorted_stepState cap g st (stateSorted_of_all st h))

/-- every weight map of the specification's result is key-sorted without repeated keys -/
theorem stateSorted_weights (g : SGraph) : StateSorted (weights g) := by
  apply stateSorted_of_all
  unfold weights
  simp only
  apply all_sorted_iterate
  intro p hp
  obtain ⟨q, hq, rfl⟩ := List.mem_map.1 hp
  obtain ⟨n, w⟩ := q
  simp only
  refine sortedW_map_values (fun _ v => if v ≥ g.length + 2 - 1 then infinite else v) w ?_
  have := all_sorted_iterate (g.length + 2) g ((g.length + 3) * (g.length + 3)) (g.map (fun n => (n.name, [])))
    (by intro p hp; obtain ⟨m, _, rfl⟩ := List.mem_map.1 hp; exact sortedW_nil) (n, w) hq
  exact this

end FgaVerif.Spec.Weights
