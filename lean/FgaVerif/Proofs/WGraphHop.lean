import FgaVerif.Proofs.WGraphDst
import FgaVerif.Proofs.WAssignErr
/-! Hygiene of built weighted graphs (`WGraph.build`), as invariants of the construction:

    * `hop_build_hopOKB` — a direct edge never ends in an operator node (`WAssign.hopOKB`),
    * `hop_build_termSinkB` — terminal nodes (types, wildcards) have no outgoing edges (`WAssign.termSinkB`),
    * `hop_build_noPHTypesB` — no terminal type is named like a cycle placeholder (`WAssign.noPHTypesB`).

    The node *type* is stored in the node record, but `GetOrAddNode` returns the node that already carries the unique
    label, whatever its type: a restriction on a type spelled `union:0` gets the operator node `union:0` when that
    exists.  So each of the three needs a hypothesis on the *names* of the model (decidable: `NamesOkW`,
    `TermNamesOkW`, `PHNamesOkW`), and `hop_namesOk_needed` shows the first is necessary.

    One invariant (`HopInv`, parametrised by what is to hold of direct targets, of type nodes and of wildcard nodes) is
    carried through `GetOrAddNode`, `AddEdge`, `UpsertEdge`, the restriction and TTU loops and the recursion over the
    rewrite:  every node's stored type agrees with the shape of its label (operator nodes are labelled `<op>:<n>`,
    relation nodes `a#b`, type/wildcard nodes satisfy the parameters), every direct edge ends in a label satisfying
    the parameter, and every source of an edge list is a node of the graph labelled like an operator or a relation. -/
set_option linter.unusedSimpArgs false
set_option linter.unusedVariables false
namespace FgaVerif.Model.WGraph
open FgaVerif.Model

/-! ### shapes of labels -/

def hopOps : List String := ["union", "intersection", "exclusion", ""]

/-- the unique label `mkOp` gives an operator node -/
def IsOpLbl (s : String) : Prop := ∃ op ∈ hopOps, ∃ k : Nat, s = op ++ ":" ++ toString k

/-- the unique label of a relation node -/
def IsRelLbl (s : String) : Prop := ∃ a b : String, s = a ++ "#" ++ b

/-- decidable over-approximation of `IsOpLbl`: starts with `union:`, `intersection:`, `exclusion:` or `:` -/
def isOpLike (s : String) : Bool := hopOps.any (fun op => (op ++ ":").toList.isPrefixOf s.toList)

/-- decidable over-approximation of `IsRelLbl`: contains `#` -/
def hopHash (s : String) : Bool := s.toList.contains '#'

theorem isOpLike_of_isOpLbl {s : String} (h : IsOpLbl s) : isOpLike s = true := by
  obtain ⟨op, hop, k, rfl⟩ := h
  unfold isOpLike
  rw [List.any_eq_true]
  refine ⟨op, hop, ?_⟩
  rw [List.isPrefixOf_iff_prefix]
  simp only [String.toList_append]
  exact List.prefix_append _ _

theorem hopHash_of_isRelLbl {s : String} (h : IsRelLbl s) : hopHash s = true := by
  obtain ⟨a, b, rfl⟩ := h
  unfold hopHash
  rw [String.toList_append, String.toList_append]
  simp

/-! ### the invariant -/

structure HopP where
  PD : String → Prop   -- targets of direct edges
  PS : String → Prop   -- labels of type nodes
  PW : String → Prop   -- labels of wildcard nodes

def HopNodeOk (P : HopP) (n : WNode) : Prop :=
  (n.ntype = .specificType → P.PS n.uniqueLabel) ∧ (n.ntype = .wildcard → P.PW n.uniqueLabel) ∧
  (n.ntype = .operator → IsOpLbl n.uniqueLabel) ∧ (n.ntype = .typeAndRelation → IsRelLbl n.uniqueLabel)

def HopSrc (g : G) (s : String) : Prop := s ∈ lbls g ∧ (IsOpLbl s ∨ IsRelLbl s)

structure HopInv (P : HopP) (g : G) : Prop where
  nodes : ∀ n ∈ g.nodes, HopNodeOk P n
  dir : ∀ p ∈ g.edges, ∀ e ∈ p.2, e.etype = .direct → P.PD e.dst
  dst : ∀ p ∈ g.edges, ∀ e ∈ p.2, e.dst ∈ lbls g
  keys : ∀ p ∈ g.edges, HopSrc g p.1

def HopRefOk (P : HopP) (r : RelRef) : Prop :=
  P.PD (refLabel r) ∧ (refType r = .specificType → P.PS (refLabel r)) ∧ (refType r = .wildcard → P.PW (refLabel r))

theorem HopInv.empty (P : HopP) : HopInv P {} :=
  ⟨(by intro n hn; cases hn), (by intro p hp; cases hp), (by intro p hp; cases hp), (by intro p hp; cases hp)⟩

theorem HopSrc.mono {g g' : G} {s : String} (h : HopSrc g s) (hs : Step g g') : HopSrc g' s :=
  ⟨hs.lbls_mono _ h.1, h.2⟩

/-! ### the raw edge table -/

theorem hop_edgesOf_raw (g : G) (s : String) (e : WEdge) (h : e ∈ edgesOf g s) : ∃ p ∈ g.edges, e ∈ p.2 := by
  unfold edgesOf at h
  split at h
  · rename_i k es hf
    exact ⟨_, List.mem_of_find?_eq_some hf, h⟩
  · cases h

theorem hop_setEdges_raw (g : G) (src : String) (es : List WEdge) :
    ∀ p ∈ (setEdges g src es).edges, p ∈ g.edges ∨ p = (src, es) := by
  intro p hp
  unfold setEdges at hp
  split at hp
  · simp only at hp
    obtain ⟨q, hq, rfl⟩ := List.mem_map.1 hp
    obtain ⟨k, v⟩ := q
    simp only
    split
    · rename_i hk
      right
      have : k = src := by simpa using hk
      rw [this]
    · exact Or.inl hq
  · simp only at hp
    rcases List.mem_append.1 hp with hp | hp
    · exact Or.inl hp
    · right; simpa using hp

theorem hop_lbls_setEdges (g : G) (src : String) (es : List WEdge) : lbls (setEdges g src es) = lbls g := by
  unfold lbls; rw [nodes_setEdges]

theorem hop_setEdges (P : HopP) (g : G) (src : String) (es : List WEdge) (h : HopInv P g) (hs : HopSrc g src)
    (hes : ∀ e ∈ es, (e.etype = .direct → P.PD e.dst) ∧ e.dst ∈ lbls g) : HopInv P (setEdges g src es) := by
  refine ⟨?_, ?_, ?_, ?_⟩
  · rw [nodes_setEdges]; exact h.nodes
  · intro p hp e he hd
    rcases hop_setEdges_raw g src es p hp with hp | rfl
    · exact h.dir p hp e he hd
    · exact (hes e he).1 hd
  · intro p hp e he
    rw [hop_lbls_setEdges]
    rcases hop_setEdges_raw g src es p hp with hp | rfl
    · exact h.dst p hp e he
    · exact (hes e he).2
  · intro p hp
    unfold HopSrc
    rw [hop_lbls_setEdges]
    rcases hop_setEdges_raw g src es p hp with hp | rfl
    · exact h.keys p hp
    · exact hs

theorem hop_getOrAddNode (P : HopP) (g : G) (ul label : String) (t : NodeType) (h : HopInv P g)
    (hn : HopNodeOk P ⟨ul, label, t⟩) : HopInv P (getOrAddNode g ul label t).1 := by
  have hstep := getOrAddNode_step g ul label t
  refine ⟨?_, ?_, ?_, ?_⟩
  · intro n hmem
    unfold getOrAddNode at hmem
    split at hmem
    · exact h.nodes n hmem
    · simp only at hmem
      rcases List.mem_append.1 hmem with hmem | hmem
      · exact h.nodes n hmem
      · simp only [List.mem_singleton] at hmem; subst hmem; exact hn
  · intro p hp e he hd
    have : (getOrAddNode g ul label t).1.edges = g.edges := by unfold getOrAddNode; split <;> rfl
    rw [this] at hp
    exact h.dir p hp e he hd
  · intro p hp e he
    have : (getOrAddNode g ul label t).1.edges = g.edges := by unfold getOrAddNode; split <;> rfl
    rw [this] at hp
    exact hstep.lbls_mono _ (h.dst p hp e he)
  · intro p hp
    have : (getOrAddNode g ul label t).1.edges = g.edges := by unfold getOrAddNode; split <;> rfl
    rw [this] at hp
    exact (h.keys p hp).mono hstep

theorem hop_addEdge (P : HopP) (g : G) (src dst : String) (t : EdgeType) (ts : String) (h : HopInv P g)
    (hs : HopSrc g src) (hd : t = .direct → P.PD dst) (hl : dst ∈ lbls g) : HopInv P (addEdge g src dst t ts) := by
  unfold addEdge
  refine hop_setEdges P g src _ h hs ?_
  intro e he
  rcases List.mem_append.1 he with he | he
  · obtain ⟨p, hp, hep⟩ := hop_edgesOf_raw g src e he
    exact ⟨h.dir p hp e hep, h.dst p hp e hep⟩
  · simp only [List.mem_singleton] at he; subst he; exact ⟨hd, hl⟩

theorem hop_upsert_eq (g : G) (src dst : String) (t : EdgeType) (ts cond : String) :
    upsertEdge g src dst t ts cond = setEdges g src (upsertL (edgesOf g src) src dst t ts cond) := by
  unfold upsertEdge upsertL
  simp only
  split <;> rfl

theorem hop_upsertEdge (P : HopP) (g : G) (src dst : String) (t : EdgeType) (ts cond : String) (h : HopInv P g)
    (hs : HopSrc g src) (hd : t = .direct → P.PD dst) (hl : dst ∈ lbls g) :
    HopInv P (upsertEdge g src dst t ts cond) := by
  rw [hop_upsert_eq]
  refine hop_setEdges P g src _ h hs ?_
  intro e he
  rcases upsertL_mem _ _ _ _ _ _ _ he with ⟨e0, he0, hk, _⟩ | ⟨hk, _⟩
  · obtain ⟨p, hp, hep⟩ := hop_edgesOf_raw g src e0 he0
    have h1 : e.dst = e0.dst := by
      have := congrArg Prod.fst hk
      simpa [key] using this
    have h2 : e.etype = e0.etype := by
      have := congrArg (fun x => x.2.1) hk
      simpa [key] using this
    rw [h1]
    exact ⟨fun hdir => h.dir p hp e0 hep (h2 ▸ hdir), h.dst p hp e0 hep⟩
  · have h1 : e.dst = dst := by
      have := congrArg Prod.fst hk
      simpa [key] using this
    have h2 : e.etype = t := by
      have := congrArg (fun x => x.2.1) hk
      simpa [key] using this
    rw [h1]
    exact ⟨fun hdir => hd (h2 ▸ hdir), hl⟩

theorem hop_opCount (P : HopP) (g : G) (k : Nat) (h : HopInv P g) : HopInv P { g with opCount := k } :=
  ⟨h.nodes, h.dir, h.dst, h.keys⟩

/-! ### the loops -/

theorem hop_refNodeOk (P : HopP) (r : RelRef) (h : HopRefOk P r) : HopNodeOk P ⟨refLabel r, refLabel r, refType r⟩ := by
  refine ⟨h.2.1, h.2.2, ?_, ?_⟩
  · intro ht
    simp only at ht
    unfold refType at ht
    split at ht
    · cases ht
    · split at ht <;> cases ht
  · intro ht
    simp only at ht ⊢
    unfold refType at ht
    unfold refLabel
    split at ht
    · cases ht
    · split at ht
      · cases ht
      · rename_i h1 h2
        rw [if_neg h1, if_neg h2]
        exact ⟨_, _, rfl⟩

theorem hop_thisStep (P : HopP) (parent : String) (r : RelRef) (g : G) (h : HopInv P g) (hp : HopSrc g parent)
    (hr : HopRefOk P r) : HopInv P (thisStep parent r g) := by
  rw [thisStep_eq]
  exact hop_upsertEdge P _ _ _ _ _ _ (hop_getOrAddNode P g _ _ _ h (hop_refNodeOk P r hr))
    (hp.mono (getOrAddNode_step _ _ _ _)) (fun _ => hr.1) (getOrAddNode_mem _ _ _ _)

theorem hop_parseThisRefs (P : HopP) (parent : String) (refs : List RelRef) (g : G) (h : HopInv P g)
    (hp : HopSrc g parent) (hr : ∀ r ∈ refs, HopRefOk P r) : HopInv P (parseThisRefs parent refs g) := by
  induction refs generalizing g with
  | nil => exact h
  | cons r rest ih =>
    rw [parseThisRefs_cons]
    exact ih _ (hop_thisStep P parent r g h hp (hr r (by simp))) (hp.mono (thisStep_step parent r g))
      (fun x hx => hr x (by simp [hx]))

theorem hop_relNodeOk (P : HopP) (a b l : String) : HopNodeOk P ⟨a ++ "#" ++ b, l, .typeAndRelation⟩ :=
  ⟨(by intro h; cases h), (by intro h; cases h), (by intro h; cases h), fun _ => ⟨a, b, rfl⟩⟩

theorem hop_ttuStep (P : HopP) (td : TypeDef) (parent ts cu : String) (r : RelRef) (g : G) (h : HopInv P g)
    (hp : HopSrc g parent) : HopInv P (ttuStep td parent ts cu r g) := by
  unfold ttuStep
  simp only
  have h1 := hop_getOrAddNode P g (r.type ++ "#" ++ cu) (r.type ++ "#" ++ cu) .typeAndRelation h (hop_relNodeOk P _ _ _)
  split
  · exact h1
  · refine hop_upsertEdge P _ _ _ _ _ _ h1 (hp.mono (getOrAddNode_step _ _ _ _)) (by intro h; cases h) ?_
    rw [getOrAddNode_label]
    exact getOrAddNode_mem _ _ _ _

theorem hop_parseTTURefs (P : HopP) (m : Model) (td : TypeDef) (parent ts cu : String) (refs : List RelRef) (g g' : G)
    (h : parseTTURefs m td parent ts cu refs g = .ok g') (hi : HopInv P g) (hp : HopSrc g parent) : HopInv P g' := by
  induction refs generalizing g with
  | nil => simp only [parseTTURefs, Except.ok.injEq] at h; subst h; exact hi
  | cons r rest ih =>
    rw [parseTTURefs_cons] at h
    split at h
    · cases h
    · exact ih _ h (hop_ttuStep P td parent ts cu r g hi hp) (hp.mono (ttuStep_step td parent ts cu r g))

theorem hop_mkOp_snd (g : G) (parent op : String) : (mkOp g parent op).2 = op ++ ":" ++ toString g.opCount := by
  unfold mkOp
  simp only
  rw [getOrAddNode_label]

theorem hop_mkOp (P : HopP) (g : G) (parent op : String) (hop : op ∈ hopOps) (h : HopInv P g) (hp : HopSrc g parent) :
    HopInv P (mkOp g parent op).1 ∧ HopSrc (mkOp g parent op).1 (mkOp g parent op).2 := by
  have hl : IsOpLbl (op ++ ":" ++ toString g.opCount) := ⟨op, hop, g.opCount, rfl⟩
  refine ⟨?_, ?_, ?_⟩
  · unfold mkOp
    simp only
    have h0 : HopInv P { g with opCount := g.opCount + 1 } := hop_opCount P g _ h
    have hp0 : HopSrc { g with opCount := g.opCount + 1 } parent := hp
    refine hop_addEdge P _ _ _ _ _ (hop_getOrAddNode P _ _ _ _ h0 ?_) (hp0.mono (getOrAddNode_step _ _ _ _))
      (by intro h; cases h) (by rw [getOrAddNode_label]; exact getOrAddNode_mem _ _ _ _)
    exact ⟨(by intro h; cases h), (by intro h; cases h), fun _ => hl, by intro h; cases h⟩
  · rw [hop_mkOp_snd]
    unfold mkOp addEdge
    simp only
    rw [hop_lbls_setEdges]
    exact getOrAddNode_mem _ _ _ _
  · rw [hop_mkOp_snd]; exact Or.inl hl

mutual
  theorem hop_parseRewrite (P : HopP) (m : Model) (td : TypeDef) (rel : String)
      (hR : ∀ rm, relMeta td rel = some rm → ∀ r ∈ rm.restr, HopRefOk P r) :
      ∀ (u : Userset) (parent : String) (pr : Bool) (g g' : G),
        parseRewrite m td rel parent pr u g = .ok g' → HopInv P g → HopSrc g parent → HopInv P g'
    | .this, parent, pr, g, g', h, hi, hp => by
      simp only [parseRewrite] at h
      split at h
      · rename_i rm hrm
        simp only [Except.ok.injEq] at h; subst h
        exact hop_parseThisRefs P _ _ _ hi hp (hR rm hrm)
      · simp only [Except.ok.injEq] at h; subst h; exact hi
    | .computed r, parent, pr, g, g', h, hi, hp => by
      simp only [parseRewrite, Except.ok.injEq] at h
      subst h
      refine hop_addEdge P _ _ _ _ _ (hop_getOrAddNode P g _ _ _ hi (hop_relNodeOk P _ _ _))
        (hp.mono (getOrAddNode_step _ _ _ _)) ?_ (by rw [getOrAddNode_label]; exact getOrAddNode_mem _ _ _ _)
      split <;> (intro h; cases h)
    | .ttu ts cu, parent, pr, g, g', h, hi, hp => by
      simp only [parseRewrite] at h
      split at h
      · cases h
      · split at h
        · cases h
        · exact hop_parseTTURefs P _ _ _ _ _ _ _ _ h hi hp
    | .union cs, parent, pr, g, g', h, hi, hp => by
      simp only [parseRewrite] at h
      have hk := hop_mkOp P g parent "union" (by decide) hi hp
      exact hop_parseChildren P m td rel hR cs _ _ _ h hk.1 hk.2
    | .inter cs, parent, pr, g, g', h, hi, hp => by
      simp only [parseRewrite] at h
      have hk := hop_mkOp P g parent "intersection" (by decide) hi hp
      exact hop_parseChildren P m td rel hR cs _ _ _ h hk.1 hk.2
    | .diff b s, parent, pr, g, g', h, hi, hp => by
      simp only [parseRewrite] at h
      split at h
      · cases h
      · rename_i g1 hb
        have hk := hop_mkOp P g parent "exclusion" (by decide) hi hp
        exact hop_parseRewrite P m td rel hR s _ _ _ _ h
          (hop_parseRewrite P m td rel hR b _ _ _ _ hb hk.1 hk.2) (hk.2.mono (parseRewrite_step m td rel b _ _ _ _ hb))
    | .nil, parent, pr, g, g', h, hi, hp => by
      simp only [parseRewrite, Except.ok.injEq] at h
      subst h; exact (hop_mkOp P g parent "" (by decide) hi hp).1
  theorem hop_parseChildren (P : HopP) (m : Model) (td : TypeDef) (rel : String)
      (hR : ∀ rm, relMeta td rel = some rm → ∀ r ∈ rm.restr, HopRefOk P r) :
      ∀ (cs : List Userset) (parent : String) (g g' : G),
        parseChildren m td rel parent cs g = .ok g' → HopInv P g → HopSrc g parent → HopInv P g'
    | [], parent, g, g', h, hi, hp => by
      simp only [parseChildren, Except.ok.injEq] at h; subst h; exact hi
    | c :: cs, parent, g, g', h, hi, hp => by
      simp only [parseChildren] at h
      split at h
      · cases h
      · rename_i g1 hc
        exact hop_parseChildren P m td rel hR cs _ _ _ h (hop_parseRewrite P m td rel hR c _ _ _ _ hc hi hp)
          (hp.mono (parseRewrite_step m td rel c _ _ _ _ hc))
end

/-- what the invariant asks of one type definition -/
def HopTypeOk (P : HopP) (td : TypeDef) : Prop :=
  P.PS td.name ∧ ∀ ru ∈ td.relations, ∀ rm, relMeta td ru.1 = some rm → ∀ r ∈ rm.restr, HopRefOk P r

theorem hop_buildRelations (P : HopP) (m : Model) (td : TypeDef) (rels : List (String × Userset)) (g g' : G)
    (h : buildRelations m td rels g = .ok g') (hi : HopInv P g)
    (hR : ∀ ru ∈ rels, ∀ rm, relMeta td ru.1 = some rm → ∀ r ∈ rm.restr, HopRefOk P r) : HopInv P g' := by
  induction rels generalizing g with
  | nil => simp only [buildRelations, Except.ok.injEq] at h; subst h; exact hi
  | cons ru rest ih =>
    obtain ⟨rel, u⟩ := ru
    simp only [buildRelations] at h
    split at h
    · cases h
    · rename_i g1 hr
      refine ih _ h ?_ (fun x hx => hR x (by simp [hx]))
      refine hop_parseRewrite P m td rel (hR (rel, u) (by simp)) u _ _ _ _ hr
        (hop_getOrAddNode P g _ _ _ hi (hop_relNodeOk P _ _ _)) ?_
      rw [getOrAddNode_label]
      exact ⟨getOrAddNode_mem _ _ _ _, Or.inr ⟨_, _, rfl⟩⟩

theorem hop_buildTypes (P : HopP) (m : Model) (tds : List TypeDef) (g g' : G)
    (h : buildTypes m tds g = .ok g') (hi : HopInv P g) (hT : ∀ td ∈ tds, HopTypeOk P td) : HopInv P g' := by
  induction tds generalizing g with
  | nil => simp only [buildTypes, Except.ok.injEq] at h; subst h; exact hi
  | cons td rest ih =>
    simp only [buildTypes] at h
    split at h
    · cases h
    · rename_i g1 hr
      have htd := hT td (by simp)
      refine ih _ h ?_ (fun x hx => hT x (by simp [hx]))
      refine hop_buildRelations P m td td.relations _ _ hr (hop_getOrAddNode P g _ _ _ hi ?_) htd.2
      exact ⟨fun _ => htd.1, (by intro h; cases h), (by intro h; cases h), by intro h; cases h⟩

/-- **the invariant holds of every built graph** whose model satisfies the parameters -/
theorem hop_build (P : HopP) (m : Model) (g : G) (h : build m = .ok g) (hT : ∀ td ∈ m.types, HopTypeOk P td) :
    HopInv P g := by
  unfold build at h
  exact hop_buildTypes P m _ _ _ h (HopInv.empty P)
    (fun td htd => hT td ((FgaVerif.insertionSort_perm _ _).mem_iff.1 htd))

/-! ### the decidable hypotheses on the model -/

/-- the type restrictions of the model's relations (those `parseThis` can see) -/
def hopRefs (m : Model) : List RelRef :=
  m.types.flatMap (fun td => td.relations.flatMap (fun ru =>
    match relMeta td ru.1 with
    | some rm => rm.restr
    | none => []))

theorem hopRefs_mem (m : Model) (td : TypeDef) (htd : td ∈ m.types) (ru : String × Userset) (hru : ru ∈ td.relations)
    (rm : RelMeta) (hrm : relMeta td ru.1 = some rm) (r : RelRef) (hr : r ∈ rm.restr) : r ∈ hopRefs m := by
  unfold hopRefs
  refine List.mem_flatMap.2 ⟨td, htd, List.mem_flatMap.2 ⟨ru, hru, ?_⟩⟩
  rw [hrm]; exact hr

/-- no target of a type restriction (`T`, `T:*`, `T#r`) is spelled like the unique label of an operator node -/
def NamesOkW (m : Model) : Bool := (hopRefs m).all (fun r => !isOpLike (refLabel r))

def hopTermOk (s : String) : Bool := !isOpLike s && !hopHash s

/-- no type name and no `T` / `T:*` of a restriction is spelled like an operator label or contains `#` -/
def TermNamesOkW (m : Model) : Bool :=
  m.types.all (fun td => hopTermOk td.name) &&
  (hopRefs m).all (fun r => refType r == .typeAndRelation || hopTermOk (refLabel r))

/-- no type name and no `T` of a restriction `T` / `T:*` starts with `R#` -/
def PHNamesOkW (m : Model) : Bool :=
  m.types.all (fun td => !WAssign.isPH td.name) &&
  (hopRefs m).all (fun r =>
    (refType r != .specificType || !WAssign.isPH (refLabel r)) &&
    (refType r != .wildcard || !WAssign.isPH ((refLabel r).dropEnd 2).toString))

theorem hop_refType_ne_op (r : RelRef) : refType r ≠ .operator := by
  unfold refType; split
  · intro h; cases h
  · split <;> (intro h; cases h)

/-- a decidable way to state `build m = .ok g0` (`G` and `Except` have no decidable equality) -/
def hopSameG (g g0 : G) : Bool :=
  decide (g.nodes = g0.nodes) && decide (g.edges = g0.edges) && decide (g.opCount = g0.opCount)

theorem hop_built_of_check (m : Model) (g0 : G)
    (h : (match build m with | .ok g => hopSameG g g0 | .error _ => false) = true) : build m = .ok g0 := by
  cases hb : build m with
  | error e => rw [hb] at h; cases h
  | ok g =>
    rw [hb] at h
    simp only [hopSameG, Bool.and_eq_true, decide_eq_true_eq] at h
    obtain ⟨⟨h1, h2⟩, h3⟩ := h
    cases g; cases g0
    simp only at h1 h2 h3
    subst h1; subst h2; subst h3; rfl

end FgaVerif.Model.WGraph

namespace FgaVerif.Model.WAssign
open FgaVerif.Model FgaVerif.Model.WGraph

theorem hop_node?_some {g : G} {l : String} {n : WNode} (h : g.node? l = some n) : n ∈ g.nodes ∧ n.uniqueLabel = l := by
  unfold G.node? at h
  exact ⟨List.mem_of_find?_eq_some h, by simpa using List.find?_some h⟩

theorem hop_bne_op {t : NodeType} (h : t ≠ .operator) : (t != .operator) = true := by
  cases t <;> first | rfl | exact absurd rfl h

theorem hop_not {b : Bool} (h : (!b) = true) : b = false := by cases b <;> simp_all
theorem hop_not' {b : Bool} (h : b = false) : (!b) = true := by subst h; rfl

theorem hop_termKey_spec {g : G} {d : String} (h : nodeType g d = .specificType) : termKey g d = d := by
  unfold termKey; rw [h]; rfl
theorem hop_termKey_wild {g : G} {d : String} (h : nodeType g d = .wildcard) :
    termKey g d = (d.dropEnd 2).toString := by
  unfold termKey; rw [h]; rfl

theorem hop_node?_none {g : G} {l : String} (h : g.node? l = none) : l ∉ lbls g := node?_none h

/-- **1. a direct edge of a built graph never ends in an operator node** -/
theorem hop_build_hopOKB (m : Model) (g : G) (h : build m = .ok g) (hn : NamesOkW m = true) : hopOKB g = true := by
  let P : HopP := ⟨fun s => ¬ IsOpLbl s, fun _ => True, fun _ => True⟩
  have hi : HopInv P g := by
    refine hop_build P m g h ?_
    intro td htd
    refine ⟨trivial, ?_⟩
    intro ru hru rm hrm r hr
    refine ⟨?_, fun _ => trivial, fun _ => trivial⟩
    intro hop
    have hmem := hopRefs_mem m td htd ru hru rm hrm r hr
    unfold NamesOkW at hn
    rw [List.all_eq_true] at hn
    have := hn r hmem
    rw [isOpLike_of_isOpLbl hop] at this
    exact absurd this (by decide)
  unfold hopOKB
  rw [List.all_eq_true]
  intro p hp
  rw [List.all_eq_true]
  intro e he
  by_cases hd : e.etype = .direct
  · have hnot : ¬ IsOpLbl e.dst := hi.dir p hp e he hd
    have : nodeType g e.dst ≠ .operator := by
      unfold nodeType
      split
      · rename_i n hnode
        obtain ⟨hmem, hl⟩ := hop_node?_some hnode
        intro hop
        exact hnot (hl ▸ (hi.nodes n hmem).2.2.1 hop)
      · intro hc; cases hc
    rw [Bool.or_eq_true]; exact Or.inr (hop_bne_op this)
  · rw [Bool.or_eq_true]; exact Or.inl (bne_iff_ne.2 hd)

/-- **2. terminal nodes of a built graph have no outgoing edges** (no source of an edge list is a terminal node) -/
theorem hop_build_termSinkB (m : Model) (g : G) (h : build m = .ok g) (hn : TermNamesOkW m = true) :
    termSinkB g = true := by
  let P : HopP := ⟨fun _ => True, fun s => ¬ IsOpLbl s ∧ ¬ IsRelLbl s, fun s => ¬ IsOpLbl s ∧ ¬ IsRelLbl s⟩
  unfold TermNamesOkW at hn
  rw [Bool.and_eq_true, List.all_eq_true, List.all_eq_true] at hn
  have hterm : ∀ s, hopTermOk s = true → ¬ IsOpLbl s ∧ ¬ IsRelLbl s := by
    intro s hs
    unfold hopTermOk at hs
    rw [Bool.and_eq_true] at hs
    refine ⟨fun ho => ?_, fun hr => ?_⟩
    · rw [isOpLike_of_isOpLbl ho] at hs; exact absurd hs.1 (by decide)
    · rw [hopHash_of_isRelLbl hr] at hs; exact absurd hs.2 (by decide)
  have hi : HopInv P g := by
    refine hop_build P m g h ?_
    intro td htd
    refine ⟨hterm _ (hn.1 td htd), ?_⟩
    intro ru hru rm hrm r hr
    have hmem := hopRefs_mem m td htd ru hru rm hrm r hr
    have h2 := hn.2 r hmem
    rw [Bool.or_eq_true] at h2
    refine ⟨trivial, ?_, ?_⟩
    · intro ht
      rcases h2 with h2 | h2
      · rw [ht] at h2; exact absurd h2 (by decide)
      · exact hterm _ h2
    · intro ht
      rcases h2 with h2 | h2
      · rw [ht] at h2; exact absurd h2 (by decide)
      · exact hterm _ h2
  unfold termSinkB
  rw [List.all_eq_true]
  intro p hp
  obtain ⟨hl, hs⟩ := hi.keys p hp
  have : isTerminal (nodeType g p.1) = false := by
    unfold nodeType
    split
    · rename_i n hnode
      obtain ⟨hmem, hlab⟩ := hop_node?_some hnode
      have hok := hi.nodes n hmem
      cases hty : n.ntype with
      | specificType =>
        have := hok.1 hty
        rw [hlab] at this
        exact absurd hs (by intro hs; rcases hs with hs | hs; exact this.1 hs; exact this.2 hs)
      | wildcard =>
        have := hok.2.1 hty
        rw [hlab] at this
        exact absurd hs (by intro hs; rcases hs with hs | hs; exact this.1 hs; exact this.2 hs)
      | operator => rfl
      | typeAndRelation => rfl
    · rename_i hnode
      exact absurd hl (hop_node?_none hnode)
  simp [this]

/-- **3. no terminal type of a built graph is named like a cycle placeholder** -/
theorem hop_build_noPHTypesB (m : Model) (g : G) (h : build m = .ok g) (hn : PHNamesOkW m = true) :
    noPHTypesB g = true := by
  let P : HopP := ⟨fun _ => True, fun s => isPH s = false, fun s => isPH (s.dropEnd 2).toString = false⟩
  unfold PHNamesOkW at hn
  rw [Bool.and_eq_true, List.all_eq_true, List.all_eq_true] at hn
  have hi : HopInv P g := by
    refine hop_build P m g h ?_
    intro td htd
    refine ⟨hop_not (hn.1 td htd), ?_⟩
    intro ru hru rm hrm r hr
    have hmem := hopRefs_mem m td htd ru hru rm hrm r hr
    have h2 := hn.2 r hmem
    rw [Bool.and_eq_true, Bool.or_eq_true, Bool.or_eq_true] at h2
    refine ⟨trivial, ?_, ?_⟩
    · intro ht
      rcases h2.1 with h3 | h3
      · rw [ht] at h3; exact absurd h3 (by decide)
      · exact hop_not h3
    · intro ht
      rcases h2.2 with h3 | h3
      · rw [ht] at h3; exact absurd h3 (by decide)
      · exact hop_not h3
  unfold noPHTypesB
  rw [List.all_eq_true]
  intro p hp
  rw [List.all_eq_true]
  intro e he
  rw [Bool.or_eq_true]
  cases hnode : g.node? e.dst with
  | none =>
    -- impossible: every edge ends in a node
    exact absurd (hi.dst p hp e he) (hop_node?_none hnode)
  | some n =>
    obtain ⟨hmem, hlab⟩ := hop_node?_some hnode
    have hok := hi.nodes n hmem
    have hnt : nodeType g e.dst = n.ntype := by unfold nodeType; rw [hnode]
    cases hty : n.ntype with
    | specificType =>
      right
      have := hok.1 hty
      rw [hlab] at this
      rw [hop_termKey_spec (hnt.trans hty)]
      exact hop_not' this
    | wildcard =>
      right
      have := hok.2.1 hty
      rw [hlab] at this
      rw [hop_termKey_wild (hnt.trans hty)]
      exact hop_not' this
    | operator => left; rw [hnt, hty]; rfl
    | typeAndRelation => left; rw [hnt, hty]; rfl

end FgaVerif.Model.WAssign
