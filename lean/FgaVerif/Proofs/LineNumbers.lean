import FgaVerif.Model.Merge
/-! The text search of `utils/line-numbers.go` (port in `Model/Merge.lean`): what it reports always
    lies inside the file and spells the searched symbol. -/
namespace FgaVerif.Model.Merge

theorem isPrefix_spec : ∀ (pat l : List Char), isPrefix pat l = true → pat.length ≤ l.length ∧ l.take pat.length = pat
  | [], _, _ => by simp
  | _ :: _, [], h => by simp [isPrefix] at h
  | p :: ps, c :: cs, h => by
    simp only [isPrefix, Bool.and_eq_true, beq_iff_eq] at h
    obtain ⟨h1, h2⟩ := h
    subst h1
    obtain ⟨a, b⟩ := isPrefix_spec ps cs h2
    exact ⟨by simp; omega, by simp [b]⟩

theorem indexOf_spec (pat : List Char) : ∀ (l : List Char) (w : Nat), indexOf pat l = some w →
    w + pat.length ≤ l.length ∧ (l.drop w).take pat.length = pat
  | [], w, h => by
    simp only [indexOf] at h
    split at h
    · rename_i he
      simp only [Option.some.injEq] at h; subst h
      have : pat = [] := by simpa using he
      subst this; simp
    · cases h
  | c :: cs, w, h => by
    simp only [indexOf] at h
    split at h
    · rename_i hp
      simp only [Option.some.injEq] at h; subst h
      obtain ⟨a, b⟩ := isPrefix_spec pat (c :: cs) hp
      exact ⟨by simpa using a, by simpa using b⟩
    · simp only [Option.map_eq_some_iff] at h
      obtain ⟨w', hw', rfl⟩ := h
      obtain ⟨a, b⟩ := indexOf_spec pat cs w' hw'
      exact ⟨by simp; omega, by simpa using b⟩

theorem findIdx?_spec (p : α → Bool) : ∀ (l : List α) (i : Nat), l.findIdx? p = some i →
    ∃ x, l[i]? = some x ∧ p x = true
  | [], i, h => by simp at h
  | a :: rest, i, h => by
    simp only [List.findIdx?_cons] at h
    by_cases hp : p a = true
    · simp only [hp, if_true, Option.some.injEq] at h; subst h; exact ⟨a, rfl, hp⟩
    · have hp' : p a = false := by simpa using hp
      simp only [hp', Bool.false_eq_true, if_false, Option.map_eq_some_iff] at h
      obtain ⟨j, hj, rfl⟩ := h
      obtain ⟨x, hx, hpx⟩ := findIdx?_spec p rest j hj
      exact ⟨x, by simpa using hx, hpx⟩

/-- whenever the search finds a line, the reported position is that line, inside the file; the line
    (trimmed) starts with the searched text; and if the symbol occurs in the line, the reported columns
    lie inside the line and span exactly the symbol -/
theorem position_found (lines : List (List Char)) (pre sym : String) (i : Nat)
    (h : lineWithPrefix pre lines = some i) :
    ∃ raw, lines[i]? = some raw ∧ i < lines.length ∧
      isPrefix pre.toList (trimSpace raw) = true ∧
      (constructLineAndColumnData lines (some i) sym).lineStart = i ∧
      (constructLineAndColumnData lines (some i) sym).lineEnd = i ∧
      ∀ w, indexOf sym.toList raw = some w →
        (constructLineAndColumnData lines (some i) sym).colStart = w ∧
        (constructLineAndColumnData lines (some i) sym).colEnd = w + sym.length ∧
        w + sym.toList.length ≤ raw.length ∧ (raw.drop w).take sym.toList.length = sym.toList := by
  unfold lineWithPrefix at h
  obtain ⟨raw, hraw, hp⟩ := findIdx?_spec _ lines i h
  have hlt : i < lines.length := by
    cases Nat.lt_or_ge i lines.length with
    | inl h => exact h
    | inr hge => simp [List.getElem?_eq_none hge] at hraw
  refine ⟨raw, hraw, hlt, hp, ?_, ?_, ?_⟩
  · simp [constructLineAndColumnData, hraw]
  · simp [constructLineAndColumnData, hraw]
  · intro w hw
    obtain ⟨a, b⟩ := indexOf_spec sym.toList raw w hw
    simp only [constructLineAndColumnData, hraw, hw, Option.getD_some]
    exact ⟨trivial, trivial, a, b⟩

/-- when the search finds nothing the position is the origin, never a position outside the file -/
theorem position_not_found (lines : List (List Char)) (sym : String) :
    constructLineAndColumnData lines none sym = {} := rfl

end FgaVerif.Model.Merge
