import FgaVerif.Engine.FlatRe
/-! Correctness of the executable matcher w.r.t. the declarative relation, and generic
    consequences of a match (character counts, excluded characters, length bounds). -/
namespace FgaVerif.FlatRe

theorem maxOk_iff (mx : Option Nat) (k : Nat) : maxOk mx k = true ↔ ∀ m, mx = some m → k ≤ m := by
  cases mx <;> simp [maxOk]

theorem trySplits_iff (a : Atom) (rest : List Char → Bool) (s : List Char) (n : Nat) :
    trySplits a rest s n = true ↔
      ∃ k, k ≤ n ∧ a.min ≤ k ∧ maxOk a.max k = true ∧ (∀ x ∈ s.take k, a.cls.mem x = true) ∧
        rest (s.drop k) = true := by
  induction n with
  | zero =>
    simp only [trySplits, Bool.and_eq_true, decide_eq_true_eq]
    constructor
    · rintro ⟨⟨h1, h2⟩, h3⟩
      exact ⟨0, Nat.le_refl _, h1, h2, by simp, by simpa using h3⟩
    · rintro ⟨k, hk, h1, h2, _, h4⟩
      have : k = 0 := by omega
      subst this
      exact ⟨⟨h1, h2⟩, by simpa using h4⟩
  | succ n ih =>
    simp only [trySplits, Bool.or_eq_true, Bool.and_eq_true, decide_eq_true_eq, List.all_eq_true, ih]
    constructor
    · rintro (⟨⟨⟨h1, h2⟩, h3⟩, h4⟩ | ⟨k, hk, h⟩)
      · exact ⟨n+1, Nat.le_refl _, h1, h2, h3, h4⟩
      · exact ⟨k, by omega, h⟩
    · rintro ⟨k, hk, h1, h2, h3, h4⟩
      by_cases hkn : k = n + 1
      · subst hkn; exact Or.inl ⟨⟨⟨h1, h2⟩, h3⟩, h4⟩
      · exact Or.inr ⟨k, by omega, h1, h2, h3, h4⟩

theorem matchB_iff (as : List Atom) (s : List Char) : matchB as s = true ↔ M as s := by
  induction as generalizing s with
  | nil =>
    simp only [matchB, List.isEmpty_iff]
    constructor
    · rintro rfl; exact M.nil
    · intro h; cases h; rfl
  | cons a as ih =>
    simp only [matchB, trySplits_iff]
    constructor
    · rintro ⟨k, _, h1, h2, h3, h4⟩
      have := M.cons a as (s.take k) (s.drop k) h3
        (by
          by_cases hk : k ≤ s.length
          · simp [List.length_take, Nat.min_eq_left hk]; exact h1
          · -- then take k = s, and the remaining match still forces enough characters
            exfalso; omega)
        (by
          intro m hm
          have := (maxOk_iff a.max k).1 h2 m hm
          simp [List.length_take]; omega)
        ((ih _).1 h4)
      simpa using this
    · intro h
      cases h with
      | cons _ _ s₁ s₂ hc hmin hmax hrest =>
        refine ⟨s₁.length, by simp, hmin, (maxOk_iff _ _).2 hmax, by simpa using hc, ?_⟩
        simpa using (ih _).2 hrest

/-- matching a single atom: exact characterisation -/
theorem M_single (a : Atom) (s : List Char) :
    M [a] s ↔ (∀ x ∈ s, a.cls.mem x = true) ∧ a.min ≤ s.length ∧ (∀ m, a.max = some m → s.length ≤ m) := by
  constructor
  · intro h
    cases h with
    | cons _ _ s₁ s₂ hc hmin hmax hrest =>
      cases hrest
      simpa using ⟨hc, hmin, hmax⟩
  · rintro ⟨hc, hmin, hmax⟩
    have := M.cons a [] s [] hc hmin hmax M.nil
    simpa using this

/-- splitting a match of a concatenation -/
theorem M_append (as bs : List Atom) (s : List Char) :
    M (as ++ bs) s ↔ ∃ s₁ s₂, s = s₁ ++ s₂ ∧ M as s₁ ∧ M bs s₂ := by
  induction as generalizing s with
  | nil =>
    simp only [List.nil_append]
    constructor
    · intro h; exact ⟨[], s, rfl, M.nil, h⟩
    · rintro ⟨s₁, s₂, rfl, h1, h2⟩; cases h1; simpa using h2
  | cons a as ih =>
    simp only [List.cons_append]
    constructor
    · intro h
      cases h with
      | cons _ _ t₁ t₂ hc hmin hmax hrest =>
        obtain ⟨u₁, u₂, rfl, h1, h2⟩ := (ih _).1 hrest
        exact ⟨t₁ ++ u₁, u₂, by simp, M.cons a as t₁ u₁ hc hmin hmax h1, h2⟩
    · rintro ⟨s₁, s₂, rfl, h1, h2⟩
      cases h1 with
      | cons _ _ t₁ t₂ hc hmin hmax hrest =>
        have := M.cons a (as ++ bs) t₁ (t₂ ++ s₂) hc hmin hmax ((ih _).2 ⟨t₂, s₂, rfl, hrest, h2⟩)
        simpa using this

/-! ### character counting -/

/-- the atom is the literal character `c`, exactly once -/
def Atom.isLit (a : Atom) (c : Char) : Bool :=
  a.min == 1 && a.max == some 1 && a.cls == ⟨false, [.ch c]⟩

theorem count_of_excl (a : Atom) (c : Char) (s : List Char) (h : a.cls.mem c = false)
    (hs : ∀ x ∈ s, a.cls.mem x = true) : s.count c = 0 := by
  rw [List.count_eq_zero]
  intro hc
  have := hs c hc
  rw [h] at this
  exact absurd this (by decide)

theorem count_of_lit (a : Atom) (c : Char) (s : List Char) (h : a.isLit c = true)
    (hs : ∀ x ∈ s, a.cls.mem x = true)
    (hmin : a.min ≤ s.length) (hmax : ∀ m, a.max = some m → s.length ≤ m) : s.count c = 1 := by
  simp only [Atom.isLit, Bool.and_eq_true, beq_iff_eq] at h
  obtain ⟨⟨h1, h2⟩, h3⟩ := h
  have hl : s.length = 1 := by
    have := hmax 1 h2
    omega
  match s, hl with
  | [x], _ =>
    have hx := hs x (by simp)
    rw [h3] at hx
    simp [Cls.mem, ClsItem.mem] at hx
    simp [hx]

/-- Number of occurrences of `c` in any matched string, when every atom either is the
    literal `c` or has a class that excludes `c`. -/
theorem count_flat (c : Char) (as : List Atom) (s : List Char)
    (hside : ∀ a ∈ as, a.isLit c = true ∨ a.cls.mem c = false)
    (hm : M as s) : s.count c = (as.filter (·.isLit c)).length := by
  induction hm with
  | nil => simp
  | cons a as s₁ s₂ hcls hmin hmax _ ih =>
    have ha := hside a (by simp)
    have ih' := ih (fun b hb => hside b (by simp [hb]))
    rw [List.count_append, ih']
    cases hl : a.isLit c with
    | true =>
      rw [count_of_lit a c s₁ hl hcls hmin hmax]
      simp [List.filter, hl]; omega
    | false =>
      rcases ha with ha | ha
      · rw [hl] at ha; exact absurd ha (by decide)
      · rw [count_of_excl a c s₁ ha hcls]
        simp [List.filter, hl]

/-- a character excluded by every atom's class occurs in no matched string -/
theorem excludes_char (c : Char) (as : List Atom) (s : List Char)
    (hside : ∀ a ∈ as, a.cls.mem c = false) (hm : M as s) : c ∉ s := by
  induction hm with
  | nil => simp
  | cons a as s₁ s₂ hcls _ _ _ ih =>
    intro hc
    rcases List.mem_append.1 hc with h | h
    · have := hcls c h
      rw [hside a (by simp)] at this
      exact absurd this (by decide)
    · exact ih (fun b hb => hside b (by simp [hb])) h

/-- every character of a matched string satisfies a predicate all classes imply -/
theorem all_chars (p : Char → Prop) (as : List Atom) (s : List Char)
    (hside : ∀ a ∈ as, ∀ x, a.cls.mem x = true → p x) (hm : M as s) : ∀ x ∈ s, p x := by
  induction hm with
  | nil => simp
  | cons a as s₁ s₂ hcls _ _ _ ih =>
    intro x hx
    rcases List.mem_append.1 hx with h | h
    · exact hside a (by simp) x (hcls x h)
    · exact ih (fun b hb => hside b (by simp [hb])) x h

end FgaVerif.FlatRe
