import FgaVerif.Proofs.WAssignSound
import FgaVerif.Proofs.WAssignMax
import FgaVerif.Proofs.WAssignWild
/-! **Every error of the port of `AssignWeights` is justified** (C05, the "well-founded ⇒ accepted" half about the
    algorithm itself, modulo fuel).  A seventh pass (`E7`) over the depth-first computation, this time over the runs
    that end in an **error**: the computation up to the error is a sequence of successful sub-calls, so the invariants
    of passes 2–5 (`E7Inv`: `Inv2`, `InvD`, `Inv5` with the witnesses `KeyOK`, `Inv3`, and "every placeholder names a
    node whose visit is in progress") hold in the state in which the error is raised.

    * `.modelCycle` is raised by the pre-pass (then a cycle of rewrite/computed edges exists:
      `cycle_of_prepass`) — and **also by `calculateEdgeWeight`**, when the target of an edge comes back without weights
      and the path back to it holds no tuple hop.  Then either the target is in progress and the depth-first stack from
      it closes a cycle of rewrite/computed edges (`StackP.cycle`; needs `srcOKB`, `hopOKB`), or the target is finished
      with an empty weight map: an exclusion with a single edge or an operator with an unknown label, a node that no
      terminal type reaches (`NoType`).
    * `.invalidModel`: a non-terminal node without edges; an intersection whose strategy result is empty although no
      reference is open; a relation/union whose edges hold nothing but its own placeholder when it is resolved.  In each
      case no terminal type reaches the node (`HasT` fails for every type): the set "not the node itself, and if it has
      weights it has the type or a placeholder of another node" is closed under the rules of `HasT` (`e7_complete`,
      static: from the edge rule and the node rule, placeholders included).
    * `.tupleCycle`: an operator other than a union whose edges returned an open reference.  The open references name
      nodes in progress that the operator reaches (`KeyOK` for the placeholders), and the nodes in progress reach the
      operator (the stack): it lies on a cycle.  The top-level test `!tcs.isEmpty` of `AssignWeights` never fires: the
      list returned to the top level only names nodes in progress, and there are none.  -/
set_option linter.unusedSimpArgs false
set_option linter.unusedSectionVars false
set_option linter.unusedVariables false
namespace FgaVerif.Model.WAssign
open FgaVerif.Model FgaVerif.Model.WGraph

/-! ### hygiene of the graph (decidable; true of every graph the builder makes) -/

/-- every edge is stored under its source (`srcOKB`, `SrcOK` of `Proofs/WAssignWild.lean`), in the form used here -/
theorem srcOKB_edges (g : G) (h : srcOKB g = true) : ∀ n, ∀ e ∈ edgesOf g n, e.src = n := by
  intro n e he
  obtain ⟨i, hi⟩ := List.mem_iff_getElem?.1 he
  exact srcOKB_sound g h (n, i) e hi

/-- a direct edge never ends in an operator node (it ends in a type, a wildcard or a relation) -/
def hopOKB (g : G) : Bool :=
  g.edges.all (fun p => p.2.all (fun e => e.etype != .direct || nodeType g e.dst != .operator))

theorem hopOKB_sound (g : G) (h : hopOKB g = true) :
    ∀ n, ∀ e ∈ edgesOf g n, e.etype = .direct → nodeType g e.dst ≠ .operator := by
  intro n e he hd
  unfold edgesOf at he
  split at he
  · rename_i k es hf
    have hmem := List.mem_of_find?_eq_some hf
    unfold hopOKB at h
    rw [List.all_eq_true] at h
    have := h _ hmem
    simp only at this
    rw [List.all_eq_true] at this
    have := this e he
    intro hop
    rw [hd, hop] at this
    exact absurd this (by decide)
  · cases he

/-! ### what justifies an error -/

/-- a relation or operator node that no terminal type reaches -/
def NoType (g : G) : Prop := ∃ v, isTerminal (nodeType g v) = false ∧ ∀ T, ¬ HasT g v T

/-- an intersection, exclusion (or other non-union operator) on a cycle of the graph -/
def OpOnCycle (g : G) : Prop := ∃ v, isMaxNode g v = false ∧ Conn g v v

/-- a relation/operator node that is not a relation, a union, an intersection or an exclusion with two edges: an
    exclusion with fewer than two edges or an operator with an unknown label (never has a weight) -/
def BadOp (g : G) : Prop := ∃ v, isTerminal (nodeType g v) = false ∧ ¬ GoodNode g v

def Just (g : G) : AErr → Prop
  | .modelCycle => (∃ x, RPath g x x) ∨ BadOp g
  | .invalidModel => NoType g
  | .tupleCycle => OpOnCycle g
  | .fuel => True

/-- a node that a type reaches is a relation, a union, an intersection or an exclusion with two edges -/
theorem hasT_good {g : G} {v T : String} (h : HasT g v T) (hnt : isTerminal (nodeType g v) = false) : GoodNode g v := by
  have hcase : ∀ t, nodeType g v = t → isTerminal t = false → t = .typeAndRelation ∨ t = .operator := by
    intro t _
    cases t <;> decide
  rcases hcase _ rfl hnt with ht | ht
  · exact Or.inl ht
  · right
    refine ⟨ht, ?_⟩
    cases h with
    | rel e hm he hE =>
      unfold isMaxNode at hm
      rw [ht] at hm
      have hf : (NodeType.operator != NodeType.operator) = false := by decide
      rw [hf, Bool.false_or] at hm
      left
      simpa using hm
    | inter hm hl hne hall => exact Or.inr (Or.inl hl)
    | excl e hm hl he hE =>
      refine Or.inr (Or.inr ⟨hl, ?_⟩)
      obtain ⟨i, hi, _⟩ := (mem_dropLast_iff _ _).1 he
      omega

theorem noType_of_badOp {g : G} (h : BadOp g) : NoType g := by
  obtain ⟨v, hnt, hg⟩ := h
  exact ⟨v, hnt, fun T h => hg (hasT_good h hnt)⟩

/-- a type that reaches a node is not named like a placeholder -/
theorem hasT_notPH {g : G} (hn : NoPHTypes g) {v T : String} (h : HasT g v T) : isPH T = false := by
  refine HasT.rec (g := g)
    (motive_1 := fun v T _ => isPH T = false)
    (motive_2 := fun e T _ => ∀ v, e ∈ edgesOf g v → isPH T = false)
    ?_ ?_ ?_ ?_ ?_ h
  · intro v T e hm he hE ih
    exact ih v he
  · intro v T hm hl hne hall ih
    cases hes : edgesOf g v with
    | nil => exact absurd hes hne
    | cons e0 rest =>
      have h0 : e0 ∈ edgesOf g v := by rw [hes]; exact List.mem_cons_self ..
      exact ih e0 h0 v h0
  · intro v T e hm hl he hE ih
    exact ih v (List.dropLast_subset _ he)
  · intro e T ht hk v he
    subst hk
    exact hn v e he ht
  · intro e T ht hH ih v he
    exact ih

/-! ### the depth-first stack -/

/-- `StackP g K path n`: `K` lists the nodes whose visit is in progress (most recent first), `path` the edges between
    them, down to the current node `n` -/
inductive StackP (g : G) : List String → List WEdge → String → Prop
  | nil (n : String) : StackP g [] [] n
  | snoc {K : List String} {path : List WEdge} {v : String} (e : WEdge) : StackP g K path v → e ∈ edgesOf g v →
      e.src = v → isTerminal (nodeType g e.dst) = false → StackP g (v :: K) (path ++ [e]) e.dst

theorem StackP.conn {g : G} {K : List String} {path : List WEdge} {n : String} (h : StackP g K path n) :
    ∀ m ∈ K, Conn g m n := by
  induction h with
  | nil n => intro m hm; cases hm
  | snoc e _ he _ ht ih =>
    intro m hm
    rcases List.mem_cons.1 hm with rfl | hm
    · exact Conn.edge e he ht
    · exact (ih m hm).trans (Conn.edge e he ht)

def tcStep (g : G) (nodeID : String) (acc : Bool × Bool) (e : WEdge) : Bool × Bool :=
  (acc.1 || e.src == nodeID,
    acc.2 || ((acc.1 || e.src == nodeID) &&
      (e.etype == .ttu || (e.etype == .direct && nodeType g e.dst == .typeAndRelation))))

theorem isTupleCycle_eq (g : G) (nodeID : String) (path : List WEdge) :
    isTupleCycle g nodeID path = (path.foldl (tcStep g nodeID) (false, false)).2 := rfl

/-- an edge that `isTupleCycle` does not count as a tuple hop is a rewrite or computed edge -/
theorem nonhop_rstep' {g : G} (hh : ∀ n, ∀ e ∈ edgesOf g n, e.etype = .direct → nodeType g e.dst ≠ .operator)
    {v : String} {e : WEdge} (he : e ∈ edgesOf g v) (ht : isTerminal (nodeType g e.dst) = false)
    (hf : (e.etype == .ttu || (e.etype == .direct && nodeType g e.dst == .typeAndRelation)) = false) : RStep g v e.dst := by
  unfold RStep rewriteSuccs
  refine List.mem_map.2 ⟨e, List.mem_filter.2 ⟨he, ?_⟩, rfl⟩
  have key : ∀ (et : EdgeType) (nt : NodeType), (et = .direct → nt ≠ .operator) → isTerminal nt = false →
      (et == .ttu || (et == .direct && nt == .typeAndRelation)) = false → (et == .rewrite || et == .computed) = true := by
    intro et nt
    cases et <;> cases nt <;> decide
  exact key _ _ (hh v e he) ht hf

theorem StackP.fold {g : G} (hh : ∀ n, ∀ e ∈ edgesOf g n, e.etype = .direct → nodeType g e.dst ≠ .operator)
    {K : List String} {path : List WEdge} {n : String} (h : StackP g K path n) (x : String) :
    ((path.foldl (tcStep g x) (false, false)).1 = true ↔ x ∈ K) ∧
    ((path.foldl (tcStep g x) (false, false)).2 = false → x ∈ K → RPath g x n) ∧
    ((path.foldl (tcStep g x) (false, false)).2 = true → x ∈ K) := by
  induction h with
  | nil n =>
    refine ⟨by simp, ?_, ?_⟩
    · intro _ h; cases h
    · intro h; simp at h
  | @snoc K path v e _ he hs ht ih =>
    obtain ⟨ih1, ih2, ih3⟩ := ih
    rw [List.foldl_append]
    simp only [List.foldl_cons, List.foldl_nil]
    generalize path.foldl (tcStep g x) (false, false) = acc at ih1 ih2 ih3
    obtain ⟨tr, f⟩ := acc
    simp only at ih1 ih2 ih3
    simp only [tcStep, hs]
    refine ⟨?_, ?_, ?_⟩
    · rw [Bool.or_eq_true, ih1, List.mem_cons, beq_iff_eq]
      constructor
      · rintro (h | h)
        · exact Or.inr h
        · exact Or.inl h.symm
      · rintro (h | h)
        · exact Or.inr h.symm
        · exact Or.inl h
    · intro hf hx
      rw [Bool.or_eq_false_iff] at hf
      obtain ⟨hf1, hf2⟩ := hf
      have htr : (tr || v == x) = true := by
        rw [Bool.or_eq_true, ih1, beq_iff_eq]
        rcases List.mem_cons.1 hx with h | h
        · exact Or.inr h.symm
        · exact Or.inl h
      rw [htr, Bool.true_and] at hf2
      have hstep := nonhop_rstep' hh he ht hf2
      by_cases hxK : x ∈ K
      · exact (ih2 hf1 hxK).snoc hstep
      · rcases List.mem_cons.1 hx with h | h
        · subst h; exact RPath.one hstep
        · exact absurd h hxK
    · intro hf
      rw [Bool.or_eq_true] at hf
      rcases hf with hf | hf
      · exact List.mem_cons_of_mem _ (ih3 hf)
      · rw [Bool.and_eq_true, Bool.or_eq_true, ih1, beq_iff_eq] at hf
        rcases hf.1 with h | h
        · exact List.mem_cons_of_mem _ h
        · exact h ▸ List.mem_cons_self ..

/-! ### the invariants in the state in which an error is raised -/

/-- the invariants of passes 2 to 5 (the fifth with the witnesses `KeyOK`), and: every placeholder names a node whose
    visit is in progress (`K`) -/
structure E7Inv (g : G) (K : List String) (st : AState) : Prop where
  i2 : Inv2 st
  iD : InvD g st
  i5 : Inv5 g (KeyOK g) st
  i3 : Inv3 g K st
  kv : ∀ v ∈ K, v ∈ st.visited
  kn : ∀ v ∈ K, aget v st.nodeW = []
  phE : ∀ (r : ERef) k, Keys (aget r st.edgeW) k → isPH k = true → phNode k ∈ K
  phN : ∀ (N : String) k, Keys (aget N st.nodeW) k → isPH k = true → phNode k ∈ K

theorem E7Inv.toAll {g : G} {K : List String} {st : AState} (h : E7Inv g K st) : AllInv g K st :=
  ⟨h.i2, h.iD, ⟨h.i5.ok, h.i5.noph, h.i5.bE, h.i5.bN, fun _ _ _ _ => trivial, fun _ _ _ _ => trivial⟩, h.i3, h.kv, h.kn⟩

theorem e7inv_init (g : G) : E7Inv g [] {} :=
  ⟨inv2_init, invD_init g, inv5_init g _, inv3_init g, fun v hv => (by cases hv), fun v hv => (by cases hv),
    fun r k hk _ => absurd hk (keys_nil k), fun N k hk _ => absurd hk (keys_nil k)⟩

/-- a placeholder of a node map is witnessed: the node reaches the node the placeholder names -/
theorem E7Inv.connN {g : G} {K : List String} {st : AState} (h : E7Inv g K st) {N k : String}
    (hk : Keys (aget N st.nodeW) k) (hp : isPH k = true) : Conn g N (phNode k) := by
  obtain ⟨x, hx⟩ := Option.isSome_iff_exists.1 ((wget_isSome_iff_keys k _).2 hk)
  exact (h.i5.kN N k x hx).1 hp

/-- the invariants after a successful call that returns references to nodes in progress only -/
theorem calcNode_E7All (g : G) (hn : NoPHTypes g) (fuel : Nat) (K : List String) (n : String) (path : List WEdge)
    (st : AState) (hA : E7Inv g K st) (tc : List String) (st' : AState)
    (h : calcNode fuel g n path st = ((tc, none), st')) (htc : ∀ m ∈ tc, m ∈ K) : E7Inv g K st' := by
  obtain ⟨b1, b2, _⟩ := calcNode_B g hn fuel n path st hA.i2 tc st' h
  obtain ⟨d1, d2⟩ := calcNode_D g hn fuel n path st hA.i2 hA.iD tc st' h
  obtain ⟨n1, _, _⟩ := calcNode_N g _ (kclosed_keyOK g hn) hn fuel n path st hA.i2 hA.iD hA.i5 tc st' h
  obtain ⟨c1, _⟩ := calcNode_C g fuel n path st K hA.i3 tc st' h
  refine ⟨b1, d1, n1, c1, fun v hv => b2.vm v (hA.kv v hv), fun v hv => d2.en v (hA.kv v hv) (hA.kn v hv), ?_, ?_⟩
  · intro r k hk hp
    rcases b2.ce r k hk hp with h1 | h1
    · exact hA.phE r k h1 hp
    · exact htc _ h1
  · intro N k hk hp
    rcases b2.cn N k hk hp with h1 | h1
    · exact hA.phN N k h1 hp
    · exact htc _ h1

theorem edgeLoop_E7All (g : G) (hn : NoPHTypes g) (fuel : Nat) (K : List String) (nodeID : String) (path : List WEdge)
    (es : List (ERef × WEdge)) (tcs : List String) (st : AState) (hA : E7Inv g K st) (hk : nodeID ∈ K)
    (hes : ∀ p ∈ es, p.1.1 = nodeID ∧ p.2 ∈ edgesOf g nodeID) (hat : ∀ p ∈ es, edgeAt g p.1 = some p.2)
    (hin : ∀ p ∈ es, p.1 ∈ edgeRefs g nodeID) (tcs' : List String) (st' : AState)
    (h : edgeLoop (calcNode fuel g) g nodeID path es tcs st = ((tcs', none), st')) (htc : ∀ m ∈ tcs', m ∈ K) :
    E7Inv g K st' ∧ Rel2 [nodeID] st st' tcs' ∧ (∀ p ∈ es, aget p.1 st'.edgeW ≠ []) := by
  have hv := hA.kv _ hk
  obtain ⟨b1, b2, _⟩ := edgeLoop_B g hn _ (calcNode_B g hn fuel) nodeID path es tcs st hA.i2 hv hes tcs' st' h
  obtain ⟨d1, d2⟩ := edgeLoop_D g hn _ (calcNode_B g hn fuel) (calcNode_D g hn fuel) nodeID path es tcs st hA.i2 hA.iD hv
    hes hat tcs' st' h
  obtain ⟨n1, _, _⟩ := edgeLoop_N g _ (kclosed_keyOK g hn) hn _ (calcNode_B g hn fuel) (calcNode_D g hn fuel)
    (calcNode_N g _ (kclosed_keyOK g hn) hn fuel) nodeID path [] es tcs st hA.i2 hA.iD hA.i5 hv (hA.kn _ hk)
    (fun m hm => by cases hm) hes hat hin (fun m _ hm => by cases hm) tcs' st' h
  obtain ⟨c1, _, c3⟩ := edgeLoop_C g _ (calcNode_C g fuel) K nodeID path es tcs st hA.i3 tcs' st' h
  refine ⟨⟨b1, d1, n1, c1, fun v hv => b2.vm v (hA.kv v hv), fun v hv => d2.en v (hA.kv v hv) (hA.kn v hv), ?_, ?_⟩, b2, c3⟩
  · intro r k hk hp
    rcases b2.ce r k hk hp with h1 | h1
    · exact hA.phE r k h1 hp
    · exact htc _ h1
  · intro N k hk hp
    rcases b2.cn N k hk hp with h1 | h1
    · exact hA.phN N k h1 hp
    · exact htc _ h1

/-! ### completeness of the keys in an unfinished state (static)

    `N` is a set of nodes in progress whose edges hold nothing but the node's own placeholder.  The set of nodes that
    are not in `N` and, if they have weights, carry `T` or a placeholder of a node outside `N`, is closed under the
    rules of `HasT`. -/
section complete
variable {g : G} {K : List String} {st : AState}

theorem keys_of_wget {w : WMap} {k : String} {x : Nat} (h : wget k w = some x) : Keys w k :=
  (wget_isSome_iff_keys k w).1 (by rw [h]; rfl)

theorem wget_of_keys {w : WMap} {k : String} (h : Keys w k) : ∃ x, wget k w = some x :=
  Option.isSome_iff_exists.1 ((wget_isSome_iff_keys k w).2 h)

/-- the keys of an edge that satisfies the edge rule are those of its target -/
theorem edgeOK_keys {r : ERef} {e : WEdge} (h : EdgeOK st r e) (k : String) :
    Keys (aget r st.edgeW) k ↔ Keys (aget e.dst st.nodeW) k := by
  rw [← wget_isSome_iff_keys, ← wget_isSome_iff_keys, h k]
  cases wget k (aget e.dst st.nodeW) <;> simp

/-- what an edge that carries `T` holds, given the closure property `X` for its target -/
theorem e7_edge (hA : AllInv g K st) (N : String → Prop) {T : String} {r : ERef} {e : WEdge} (hat : edgeAt g r = some e)
    (hne : aget r st.edgeW ≠ [])
    (hE : (isTerminal (nodeType g e.dst) = true ∧ termKey g e.dst = T) ∨
      (isTerminal (nodeType g e.dst) = false ∧ ¬ N e.dst ∧ (aget e.dst st.nodeW ≠ [] →
        Keys (aget e.dst st.nodeW) T ∨ ∃ m, ¬ N m ∧ Keys (aget e.dst st.nodeW) ("R#" ++ m)))) :
    Keys (aget r st.edgeW) T ∨ ∃ m, ¬ N m ∧ Keys (aget r st.edgeW) ("R#" ++ m) := by
  rcases hE with ⟨ht, hk⟩ | ⟨ht, hnN, hX⟩
  · left
    rw [hA.iD.term r e hat ht hne, hk]
    exact ⟨1, List.mem_singleton.2 rfl⟩
  · rcases hA.iD.rule r e hat ht hne with hok | hraw
    · have hne' : aget e.dst st.nodeW ≠ [] := by
        intro hnil
        apply hne
        apply nil_of_wget_none
        intro k
        rw [hok k, hnil]
        rfl
      rcases hX hne' with h1 | ⟨m, hm, h1⟩
      · exact Or.inl ((edgeOK_keys hok T).2 h1)
      · exact Or.inr ⟨m, hm, (edgeOK_keys hok _).2 h1⟩
    · right
      refine ⟨e.dst, hnN, keys_of_wget (x := infinite) ?_⟩
      rw [hraw ("R#" ++ e.dst), if_pos rfl]

theorem e7_complete (hn : NoPHTypes g) (hA : AllInv g K st) (N : String → Prop)
    (hN : ∀ n, N n → isMaxNode g n = true ∧ ∀ r ∈ edgeRefs g n, aget r st.edgeW ≠ [] ∧
      ∀ k, Keys (aget r st.edgeW) k → k = "R#" ++ n) :
    ∀ v T, HasT g v T → ¬ N v ∧ (aget v st.nodeW ≠ [] →
      Keys (aget v st.nodeW) T ∨ ∃ m, ¬ N m ∧ Keys (aget v st.nodeW) ("R#" ++ m)) := by
  intro v T h
  have hT : isPH T = false := hasT_notPH hn h
  -- every edge of a node with weights has weights
  have hedges : ∀ v, aget v st.nodeW ≠ [] → ∀ r ∈ edgeRefs g v, aget r st.edgeW ≠ [] := by
    intro v hv r hr
    exact hA.i3.ed v (hA.i2.v2 v hv) (fun hk => hv (hA.kn v hk)) r hr
  refine HasT.rec (g := g)
    (motive_1 := fun v T' _ => T' = T → ¬ N v ∧ (aget v st.nodeW ≠ [] →
      Keys (aget v st.nodeW) T ∨ ∃ m, ¬ N m ∧ Keys (aget v st.nodeW) ("R#" ++ m)))
    (motive_2 := fun e T' _ => T' = T → (isTerminal (nodeType g e.dst) = true ∧ termKey g e.dst = T) ∨
      (isTerminal (nodeType g e.dst) = false ∧ ¬ N e.dst ∧ (aget e.dst st.nodeW ≠ [] →
        Keys (aget e.dst st.nodeW) T ∨ ∃ m, ¬ N m ∧ Keys (aget e.dst st.nodeW) ("R#" ++ m))))
    ?_ ?_ ?_ ?_ ?_ h rfl
  · -- relation / union
    intro v T' e hm he _ ih hTT
    have hE := ih hTT
    obtain ⟨r, hr, hat⟩ := mem_edgesOf_ref he
    refine ⟨?_, ?_⟩
    · intro hNv
      obtain ⟨_, hall⟩ := hN v hNv
      obtain ⟨hne, honly⟩ := hall r hr
      rcases e7_edge hA N hat hne hE with h1 | ⟨m, hm', h1⟩
      · have := honly T h1
        rw [this, isPH_mk] at hT
        cases hT
      · have := mk_inj (honly _ h1)
        exact hm' (this ▸ hNv)
    · intro hv
      have hne := hedges v hv r hr
      have hrule := hA.i5.ok v hv
      have lift : ∀ k, Keys (aget r st.edgeW) k → Keys (aget v st.nodeW) k := by
        intro k hk
        rw [← wget_isSome_iff_keys, hrule k]
        unfold stratL
        rw [if_pos hm, unionL_isSome]
        exact List.any_eq_true.2 ⟨_, List.mem_map.2 ⟨r, hr, rfl⟩, (wget_isSome_iff_keys k _).2 hk⟩
      rcases e7_edge hA N hat hne hE with h1 | ⟨m, hm', h1⟩
      · exact Or.inl (lift _ h1)
      · exact Or.inr ⟨m, hm', lift _ h1⟩
  · -- intersection
    intro v T' hm hl hne _ ih hTT
    refine ⟨fun hNv => (by rw [(hN v hNv).1] at hm; cases hm), ?_⟩
    intro hv
    left
    have hrule := hA.i5.ok v hv
    have hnoph := hA.i5.noph v hv hm
    rw [← wget_isSome_iff_keys, hrule T]
    unfold stratL
    rw [hm, if_neg (by simp), if_pos (by rw [hl]; rfl), interL_spec]
    have hkey : ∀ i e, (edgesOf g v)[i]? = some e → (wget T (aget (v, i) st.edgeW)).isSome = true := by
      intro i e he
      obtain ⟨hr, hat⟩ := idx_edgeRefs he
      rcases e7_edge hA N hat (hedges v hv _ hr) (ih e (List.mem_of_getElem? he) hTT) with h1 | ⟨m, _, h1⟩
      · exact (wget_isSome_iff_keys _ _).2 h1
      · obtain ⟨x, hx⟩ := wget_of_keys h1
        rw [hnoph _ hr _ (isPH_mk m)] at hx
        cases hx
    have hall : (edgeMaps g v st).all (fun m => (wget T m).isSome) = true := by
      rw [List.all_eq_true]
      intro m hm'
      obtain ⟨i, e, he, rfl⟩ := mem_edgeMaps hm'
      exact hkey i e he
    rw [if_pos hall, unionL_isSome]
    cases hes : edgesOf g v with
    | nil => exact absurd hes hne
    | cons e0 rest =>
      have h0 : (edgesOf g v)[0]? = some e0 := by rw [hes]; rfl
      exact List.any_eq_true.2 ⟨_, mem_edgeMaps_idx h0, hkey 0 e0 h0⟩
  · -- exclusion
    intro v T' e hm hl he _ ih hTT
    refine ⟨fun hNv => (by rw [(hN v hNv).1] at hm; cases hm), ?_⟩
    intro hv
    left
    have hrule := hA.i5.ok v hv
    have hnoph := hA.i5.noph v hv hm
    obtain ⟨i, hlt, hi⟩ := (mem_dropLast_iff _ _).1 he
    obtain ⟨hr, hat⟩ := idx_edgeRefs hi
    have hk : (wget T (aget (v, i) st.edgeW)).isSome = true := by
      rcases e7_edge hA N hat (hedges v hv _ hr) (ih hTT) with h1 | ⟨m, _, h1⟩
      · exact (wget_isSome_iff_keys _ _).2 h1
      · obtain ⟨x, hx⟩ := wget_of_keys h1
        rw [hnoph _ hr _ (isPH_mk m)] at hx
        cases hx
    rw [← wget_isSome_iff_keys, hrule T]
    unfold stratL
    rw [hm, if_neg (by simp), if_neg (by rw [hl]; decide), if_pos (by rw [hl]; rfl), mixedL_spec]
    have hany : (edgeMaps g v st).dropLast.any (fun m => (wget T m).isSome) = true :=
      List.any_eq_true.2 ⟨_, mem_edgeMaps_dropLast_idx hlt, hk⟩
    rw [if_pos hany, unionL_isSome]
    exact List.any_eq_true.2 ⟨_, mem_edgeMaps_idx hi, hk⟩
  · intro e T' ht hk hTT
    exact Or.inl ⟨ht, hk.trans hTT⟩
  · intro e T' ht _ ih hTT
    exact Or.inr ⟨ht, ih hTT⟩

end complete

/-! ### where the strategies and `calculateNodeWeightFromTheEdges` fail -/

def enfW (g : G) (nodeID : String) (st : AState) : WMap :=
  (edgeRefs g nodeID).foldl (fun acc r =>
    let ew := aget r st.edgeW
    if r.2 == 0 then ew.foldl (fun a (k, v) => wset k v a) acc
    else acc.foldl (fun a (k, v0) =>
      match wget k ew with
      | none => wdel k a
      | some v => wset k (Nat.max v0 v) a) acc) []

theorem enforce_eq (g : G) (nodeID : String) (st : AState) :
    enforceTypeStrategy g nodeID st =
      if noEdgesErr g nodeID then (some .invalidModel, st)
      else if (enfW g nodeID st).isEmpty then (some .invalidModel, st)
      else (none, { st with nodeW := aset nodeID (enfW g nodeID st) st.nodeW }) := rfl

theorem enfW_wget (g : G) (n : String) (st : AState) (hs : ∀ r : ERef, SortedM (aget r st.edgeW)) (T : String) :
    wget T (enfW g n st) = interL (edgeMaps g n st) T := by
  unfold enfW
  cases hl : (edgesOf g n).length with
  | zero =>
    have : edgeRefs g n = [] := by unfold edgeRefs; rw [hl]; rfl
    unfold edgeMaps
    rw [this]
    rfl
  | succ k =>
    obtain ⟨rest, hrefs, hrest⟩ := edgeRefs_cons g n k hl
    unfold edgeMaps
    rw [hrefs]
    have hs0 : SortedM ((aget (n, 0) st.edgeW).foldl (fun a (p : String × Nat) => wset p.1 p.2 a) []) :=
      foldl_inv SortedM _ (fun a p ha => sortedM_wset _ _ _ ha) _ _ sortedM_nil
    have key := fun T => enfRest_wget (fun r => aget r st.edgeW) T rest _ hrest hs0
    refine (key T).1.trans ?_
    rw [wget_copy T _ _ (hs _)]
    simp only [interL, List.map_cons]
    congr 1
    cases wget T (aget (n, 0) st.edgeW) <;> rfl

theorem enforce_err (g : G) (n : String) (st : AState) (hs : ∀ r : ERef, SortedM (aget r st.edgeW)) (e : AErr) (st' : AState)
    (h : enforceTypeStrategy g n st = (some e, st')) :
    e = .invalidModel ∧ (noEdgesErr g n = true ∨ ∀ T, interL (edgeMaps g n st) T = none) := by
  rw [enforce_eq] at h
  split at h
  · rename_i hne
    simp only [Prod.mk.injEq, Option.some.injEq] at h
    exact ⟨h.1.symm, Or.inl hne⟩
  · split at h
    · rename_i hemp
      simp only [Prod.mk.injEq, Option.some.injEq] at h
      refine ⟨h.1.symm, Or.inr ?_⟩
      intro T
      rw [← enfW_wget g n st hs T, List.isEmpty_iff.1 hemp]
      rfl
    · simp at h

theorem maxStrategy_err (g : G) (n : String) (st : AState) (e : AErr) (st' : AState)
    (h : maxStrategy g n st = (some e, st')) : e = .invalidModel ∧ noEdgesErr g n = true := by
  unfold maxStrategy at h
  split at h
  · rename_i hne
    simp only [Prod.mk.injEq, Option.some.injEq] at h
    exact ⟨h.1.symm, hne⟩
  · simp at h

theorem mixedStrategy_err (g : G) (n : String) (st : AState) (e : AErr) (st' : AState)
    (h : mixedStrategy g n st = (some e, st')) : e = .invalidModel ∧ noEdgesErr g n = true := by
  unfold mixedStrategy at h
  split at h
  · rename_i hne
    simp only [Prod.mk.injEq, Option.some.injEq] at h
    exact ⟨h.1.symm, hne⟩
  · simp at h

theorem calcAndFix_err (g : G) (n : String) (st : AState) (e : AErr) (st' : AState)
    (h : calcAndFix g n st = (some e, st'))
    (hk : nodeType g n = .typeAndRelation ∨ (nodeType g n = .operator ∧ nodeLabel g n = "union")) :
    e = .invalidModel ∧ (noEdgesErr g n = true ∨ (cafRes g n st).1 = []) := by
  rw [calcAndFix_eq] at h
  split at h
  · rename_i hc
    exfalso
    rcases hk with hk | ⟨hk, hl⟩
    · rw [hk] at hc
      generalize (nodeLabel g n != "union") = b at hc
      revert hc; cases b <;> decide
    · rw [hk, hl] at hc
      revert hc; decide
  · split at h
    · rename_i hne
      simp only [Prod.mk.injEq, Option.some.injEq] at h
      exact ⟨h.1.symm, Or.inl hne⟩
    · split at h
      · rename_i hemp
        simp only [Prod.mk.injEq, Option.some.injEq] at h
        exact ⟨h.1.symm, Or.inr (List.isEmpty_iff.1 hemp)⟩
      · simp at h

theorem isMaxNode_of_rel {g : G} {n : String} (h : nodeType g n = .typeAndRelation) : isMaxNode g n = true := by
  unfold isMaxNode; rw [h]; rfl

theorem isMaxNode_of_union {g : G} {n : String} (h : nodeLabel g n = "union") : isMaxNode g n = true := by
  unfold isMaxNode; rw [h]; simp

theorem nonterm_cases {g : G} {n : String} (h : isTerminal (nodeType g n) = false) :
    nodeType g n = .typeAndRelation ∨ nodeType g n = .operator := by
  revert h
  cases nodeType g n <;> decide

/-- the errors of `calculateNodeWeightFromTheEdges` -/
theorem fromTheEdges_err (g : G) (n : String) (tcs : List String) (st : AState) (hs : ∀ r : ERef, SortedM (aget r st.edgeW))
    (hnt : isTerminal (nodeType g n) = false) (tc : List String) (err : AErr) (st' : AState)
    (h : fromTheEdges g n tcs st = ((tc, some err), st')) :
    (err = .invalidModel ∧ noEdgesErr g n = true) ∨
    (err = .invalidModel ∧ tcs = [] ∧ isMaxNode g n = false ∧ nodeLabel g n = "intersection" ∧
      ∀ T, interL (edgeMaps g n st) T = none) ∨
    (err = .invalidModel ∧ isMaxNode g n = true ∧ n ∈ tcs ∧ (cafRes g n st).1 = []) ∨
    (err = .tupleCycle ∧ tcs ≠ [] ∧ isMaxNode g n = false) := by
  have hmaxE : ∀ {P : Prop}, ((tcs, (maxStrategy g n st).1), (maxStrategy g n st).2) = ((tc, some err), st') →
      err = .invalidModel ∧ noEdgesErr g n = true := by
    intro _ h
    simp only [Prod.mk.injEq] at h
    exact maxStrategy_err g n st err st' (Prod.ext h.1.2 h.2)
  have hnonmax : nodeType g n = .operator → nodeLabel g n ≠ "union" → isMaxNode g n = false := by
    intro h1 h2
    unfold isMaxNode
    rw [h1]
    have hf : (NodeType.operator != NodeType.operator) = false := by decide
    rw [hf, Bool.false_or]
    simpa using h2
  unfold fromTheEdges at h
  simp only at h
  split at h
  · -- no open reference
    rename_i hemp
    have htcs : tcs = [] := List.isEmpty_iff.1 hemp
    simp only [Prod.mk.injEq] at h
    have heq := Prod.ext (y := (some err, st')) h.1.2 h.2
    clear h
    split at heq
    · obtain ⟨h1, h2⟩ := maxStrategy_err g n st _ _ heq
      exact Or.inl ⟨h1, h2⟩
    · rename_i hop
      have hop' : nodeType g n = .operator := by
        rcases nonterm_cases hnt with h1 | h1
        · rw [h1] at hop; exact absurd hop (by decide)
        · exact h1
      split at heq
      · obtain ⟨h1, h2⟩ := maxStrategy_err g n st _ _ heq
        exact Or.inl ⟨h1, h2⟩
      · rename_i hnu
        split at heq
        · rename_i hint
          obtain ⟨h1, h2⟩ := enforce_err g n st hs _ _ heq
          rcases h2 with h2 | h2
          · exact Or.inl ⟨h1, h2⟩
          · exact Or.inr (Or.inl ⟨h1, htcs, hnonmax hop' (by simpa using hnu), by simpa using hint, h2⟩)
        · split at heq
          · obtain ⟨h1, h2⟩ := mixedStrategy_err g n st _ _ heq
            exact Or.inl ⟨h1, h2⟩
          · simp at heq
  · rename_i hemp
    have htcs : tcs ≠ [] := by
      intro hh; rw [hh] at hemp; simp at hemp
    split at h
    · -- a relation that is referred to
      rename_i hc
      simp only [Bool.and_eq_true] at hc
      have hrel : nodeType g n = .typeAndRelation := by
        have := hc.1
        revert this
        cases nodeType g n <;> decide
      split at h
      · rename_i e1 st1 heq
        simp only [Prod.mk.injEq, Option.some.injEq] at h
        obtain ⟨⟨_, rfl⟩, _⟩ := h
        obtain ⟨h1, h2⟩ := calcAndFix_err g n st _ _ heq (Or.inl hrel)
        rcases h2 with h2 | h2
        · exact Or.inl ⟨h1, h2⟩
        · exact Or.inr (Or.inr (Or.inl ⟨h1, isMaxNode_of_rel hrel, List.contains_iff_mem.1 hc.2, h2⟩))
      · simp at h
    · split at h
      · obtain ⟨h1, h2⟩ := hmaxE (P := True) h
        exact Or.inl ⟨h1, h2⟩
      · rename_i hop
        have hop' : nodeType g n = .operator := by
          rcases nonterm_cases hnt with h1 | h1
          · rw [h1] at hop; exact absurd hop (by decide)
          · exact h1
        split at h
        · rename_i hun
          have hun' : nodeLabel g n = "union" := by simpa using hun
          split at h
          · rename_i hcon
            split at h
            · rename_i e1 st1 heq
              simp only [Prod.mk.injEq, Option.some.injEq] at h
              obtain ⟨⟨_, rfl⟩, _⟩ := h
              obtain ⟨h1, h2⟩ := calcAndFix_err g n st _ _ heq (Or.inr ⟨hop', hun'⟩)
              rcases h2 with h2 | h2
              · exact Or.inl ⟨h1, h2⟩
              · exact Or.inr (Or.inr (Or.inl ⟨h1, isMaxNode_of_union hun', List.contains_iff_mem.1 hcon, h2⟩))
            · simp at h
          · obtain ⟨h1, h2⟩ := hmaxE (P := True) h
            exact Or.inl ⟨h1, h2⟩
        · rename_i hun
          simp only [Prod.mk.injEq, Option.some.injEq] at h
          exact Or.inr (Or.inr (Or.inr ⟨h.1.2.symm, htcs, hnonmax hop' (by simpa using hun)⟩))

/-- the references `calculateNodeWeightFromTheEdges` hands on: those it got, without the node itself -/
theorem fromTheEdges_tc (g : G) (n : String) (tcs : List String) (st : AState)
    (hnt : isTerminal (nodeType g n) = false) (tc : List String) (st' : AState)
    (h : fromTheEdges g n tcs st = ((tc, none), st')) : ∀ m ∈ tc, m ∈ tcs ∧ m ≠ n := by
  have hfilter : ∀ m ∈ tcs.filter (· != n), m ∈ tcs ∧ m ≠ n := by
    intro m hm
    rw [List.mem_filter] at hm
    exact ⟨hm.1, by simpa using hm.2⟩
  unfold fromTheEdges at h
  simp only at h
  split at h
  · rename_i hemp
    have htcs : tcs = [] := List.isEmpty_iff.1 hemp
    simp only [Prod.mk.injEq] at h
    obtain ⟨⟨rfl, _⟩, _⟩ := h
    intro m hm; rw [htcs] at hm; cases hm
  · split at h
    · split at h
      · simp at h
      · simp only [Prod.mk.injEq] at h
        obtain ⟨⟨rfl, _⟩, _⟩ := h
        exact hfilter
    · rename_i hc
      split at h
      · rename_i hop
        -- not an operator: a relation, and not among the references
        have hrel : nodeType g n = .typeAndRelation := by
          rcases nonterm_cases hnt with h1 | h1
          · exact h1
          · rw [h1] at hop; exact absurd hop (by decide)
        simp only [Prod.mk.injEq] at h
        obtain ⟨⟨rfl, _⟩, _⟩ := h
        intro m hm
        refine ⟨hm, ?_⟩
        rintro rfl
        apply hc
        rw [hrel]
        simp only [Bool.and_eq_true]
        exact ⟨by decide, List.contains_iff_mem.2 hm⟩
      · split at h
        · split at h
          · split at h
            · simp at h
            · simp only [Prod.mk.injEq] at h
              obtain ⟨⟨rfl, _⟩, _⟩ := h
              exact hfilter
          · rename_i hcon
            simp only [Prod.mk.injEq] at h
            obtain ⟨⟨rfl, _⟩, _⟩ := h
            intro m hm
            refine ⟨hm, ?_⟩
            rintro rfl
            exact hcon (List.contains_iff_mem.2 hm)
        · simp at h

/-! ### an error of `calculateNodeWeightFromTheEdges` is justified -/

theorem e7_edgeX {g : G} {K : List String} {st : AState} (hn : NoPHTypes g) (hA : AllInv g K st) (N : String → Prop)
    (hN : ∀ n, N n → isMaxNode g n = true ∧ ∀ r ∈ edgeRefs g n, aget r st.edgeW ≠ [] ∧
      ∀ k, Keys (aget r st.edgeW) k → k = "R#" ++ n) {e : WEdge} {T : String} (h : EdgeHasT g e T) :
    (isTerminal (nodeType g e.dst) = true ∧ termKey g e.dst = T) ∨
      (isTerminal (nodeType g e.dst) = false ∧ ¬ N e.dst ∧ (aget e.dst st.nodeW ≠ [] →
        Keys (aget e.dst st.nodeW) T ∨ ∃ m, ¬ N m ∧ Keys (aget e.dst st.nodeW) ("R#" ++ m))) := by
  cases h with
  | term ht hk => exact Or.inl ⟨ht, hk⟩
  | step ht hH =>
    obtain ⟨h1, h2⟩ := e7_complete hn hA N hN e.dst T hH
    exact Or.inr ⟨ht, h1, h2⟩

theorem e7_from_err (g : G) (hn : NoPHTypes g) (n : String) (K : List String) (path : List WEdge) (tcs : List String)
    (stL : AState) (hAL : E7Inv g (n :: K) stL) (hnt : isTerminal (nodeType g n) = false)
    (hall : ∀ r ∈ edgeRefs g n, aget r stL.edgeW ≠ [])
    (hnoph : tcs = [] → ∀ r ∈ edgeRefs g n, ∀ k, isPH k = true → ¬ Keys (aget r stL.edgeW) k)
    (hst : StackP g K path n) (htcs : ∀ m ∈ tcs, m ∈ n :: K ∧ Conn g n m)
    (tc : List String) (err : AErr) (st' : AState) (h : fromTheEdges g n tcs stL = ((tc, some err), st')) :
    Just g err := by
  have hA := hAL.toAll
  rcases fromTheEdges_err g n tcs stL hAL.iD.sorted.1 hnt tc err st' h with
    ⟨rfl, hne⟩ | ⟨rfl, htcs0, hm, hl, hnone⟩ | ⟨rfl, hm, hmem, hnil⟩ | ⟨rfl, hne, hm⟩
  · -- no edges
    refine ⟨n, hnt, ?_⟩
    have hnil : edgesOf g n = [] := by
      unfold noEdgesErr at hne
      simp only [Bool.and_eq_true] at hne
      exact List.isEmpty_iff.1 hne.1
    intro T hH
    cases hH with
    | rel e _ he _ => rw [hnil] at he; cases he
    | inter _ _ hne' _ => exact hne' hnil
    | excl e _ _ he _ => rw [hnil] at he; cases he
  · -- an intersection without a common type
    refine ⟨n, hnt, ?_⟩
    intro T hH
    have hN0 : ∀ n', (fun _ : String => False) n' → isMaxNode g n' = true ∧ ∀ r ∈ edgeRefs g n', aget r stL.edgeW ≠ [] ∧
        ∀ k, Keys (aget r stL.edgeW) k → k = "R#" ++ n' := fun _ hf => hf.elim
    cases hH with
    | rel e hm' _ _ => rw [hm] at hm'; cases hm'
    | excl e _ hl' _ _ => rw [hl] at hl'; revert hl'; decide
    | inter _ _ hne' hallE =>
      have hkey : ∀ i e, (edgesOf g n)[i]? = some e → (wget T (aget (n, i) stL.edgeW)).isSome = true := by
        intro i e he
        obtain ⟨hr, hat⟩ := idx_edgeRefs he
        rcases e7_edge hA (fun _ : String => False) hat (hall _ hr) (e7_edgeX hn hA (fun _ : String => False) hN0 (hallE e (List.mem_of_getElem? he))) with h1 | ⟨m, _, h1⟩
        · exact (wget_isSome_iff_keys _ _).2 h1
        · exact absurd h1 (hnoph htcs0 _ hr _ (isPH_mk m))
      have hallm : (edgeMaps g n stL).all (fun m => (wget T m).isSome) = true := by
        rw [List.all_eq_true]
        intro m hm'
        obtain ⟨i, e, he, rfl⟩ := mem_edgeMaps hm'
        exact hkey i e he
      have := hnone T
      rw [interL_spec, if_pos hallm] at this
      cases hes : edgesOf g n with
      | nil => exact hne' hes
      | cons e0 rest =>
        have h0 : (edgesOf g n)[0]? = some e0 := by rw [hes]; rfl
        have hs : (unionL (edgeMaps g n stL) T).isSome = true := by
          rw [unionL_isSome]
          exact List.any_eq_true.2 ⟨_, mem_edgeMaps_idx h0, hkey 0 e0 h0⟩
        rw [this] at hs
        cases hs
  · -- a relation or union whose edges hold its own placeholder only
    refine ⟨n, hnt, ?_⟩
    intro T hH
    have honly : ∀ r ∈ edgeRefs g n, ∀ k, Keys (aget r stL.edgeW) k → k = "R#" ++ n := by
      intro r hr k hk
      have := cafRes_wget g n stL k
      rw [hnil] at this
      have hw : wget k ([] : WMap) = none := rfl
      rw [hw] at this
      by_cases hkn : k = "R#" ++ n
      · exact hkn
      · exfalso
        have hs : (unionL (edgeMaps g n stL) k).isSome = true := by
          rw [unionL_isSome]
          exact List.any_eq_true.2 ⟨_, List.mem_map.2 ⟨r, hr, rfl⟩, (wget_isSome_iff_keys _ _).2 hk⟩
        rw [if_pos ⟨hkn, hs⟩] at this
        cases this
    have hN1 : ∀ n', (fun x : String => x = n) n' → isMaxNode g n' = true ∧ ∀ r ∈ edgeRefs g n', aget r stL.edgeW ≠ [] ∧
        ∀ k, Keys (aget r stL.edgeW) k → k = "R#" ++ n' := by
      intro n' hn'
      have hn'' : n' = n := hn'
      subst hn''
      exact ⟨hm, fun r hr => ⟨hall r hr, honly r hr⟩⟩
    exact (e7_complete hn hA _ hN1 n T hH).1 rfl
  · -- an intersection or exclusion with an open reference
    cases htc : tcs with
    | nil => exact absurd htc hne
    | cons m rest =>
      obtain ⟨hmK, hc⟩ := htcs m (by rw [htc]; exact List.mem_cons_self ..)
      refine ⟨n, hm, ?_⟩
      rcases List.mem_cons.1 hmK with rfl | hmK
      · exact hc
      · exact hc.trans (hst.conn m hmK)

/-! ### the seventh pass -/

def Rec7 (g : G) (rec : String → List WEdge → AState → Res) : Prop :=
  ∀ n path st K, E7Inv g K st → StackP g K path n → ∀ tc oe st', rec n path st = ((tc, oe), st') →
    (oe = none → ∀ m ∈ tc, m ∈ K ∧ Conn g n m) ∧ (∀ err, oe = some err → Just g err)

section pass
variable (g : G) (hn : NoPHTypes g) (hsrc : ∀ n, ∀ e ∈ edgesOf g n, e.src = n)
  (hhop : ∀ n, ∀ e ∈ edgesOf g n, e.etype = .direct → nodeType g e.dst ≠ .operator)
include hn hsrc hhop

theorem calcEdgeWith_E7 (fuel : Nat) (hrec : Rec7 g (calcNode fuel g)) (K : List String) (nodeID : String)
    (path : List WEdge) (hst : StackP g K path nodeID) (r : ERef) (e : WEdge) (he : e ∈ edgesOf g nodeID)
    (hnt : isTerminal (nodeType g e.dst) = false) (st : AState) (hA : E7Inv g (nodeID :: K) st)
    (tc : List String) (oe : Option AErr) (st2 : AState)
    (h : calcEdgeWith (calcNode fuel g) g r e path st = ((tc, oe), st2)) :
    (oe = none → ∀ m ∈ tc, m ∈ nodeID :: K ∧ Conn g nodeID m) ∧ (∀ err, oe = some err → Just g err) := by
  have hedge : Conn g nodeID e.dst := Conn.edge e he hnt
  have hstack : StackP g (nodeID :: K) (path ++ [e]) e.dst := StackP.snoc e hst he (hsrc _ _ he) hnt
  rw [calcEdgeWith_eq] at h
  split at h
  · rename_i hself
    simp only [Prod.mk.injEq] at h
    obtain ⟨⟨rfl, rfl⟩, _⟩ := h
    refine ⟨fun _ m hm => ?_, fun err h => by cases h⟩
    have hm' : m = e.src := List.mem_singleton.1 hm
    have hsd : e.src = e.dst := by simpa using hself
    rw [hm', hsrc _ _ he]
    refine ⟨List.mem_cons_self .., ?_⟩
    have := hedge
    rw [← hsd, hsrc _ _ he] at this
    exact this
  · split at h
    · rename_i tc0 err0 st1 heq
      simp only [Prod.mk.injEq] at h
      obtain ⟨⟨rfl, rfl⟩, _⟩ := h
      refine ⟨(fun h => by cases h), fun err h => ?_⟩
      cases h
      exact (hrec e.dst (path ++ [e]) st (nodeID :: K) hA hstack tc0 (some err0) st1 heq).2 _ rfl
    · rename_i tc0 st1 heq
      have hpost := (hrec e.dst (path ++ [e]) st (nodeID :: K) hA hstack tc0 none st1 heq).1 rfl
      have hA1 : E7Inv g (nodeID :: K) st1 :=
        calcNode_E7All g hn fuel (nodeID :: K) e.dst (path ++ [e]) st hA tc0 st1 heq (fun m hm => (hpost m hm).1)
      split at h
      · rename_i hempty
        have hnil : aget e.dst st1.nodeW = [] := List.isEmpty_iff.1 hempty
        split at h
        · rename_i htrue
          simp only [Prod.mk.injEq] at h
          obtain ⟨⟨rfl, rfl⟩, _⟩ := h
          refine ⟨fun _ m hm => ?_, fun err h => by cases h⟩
          rcases List.mem_append.1 hm with hm | hm
          · exact ⟨(hpost m hm).1, hedge.trans (hpost m hm).2⟩
          · rw [List.mem_singleton.1 hm]
            rw [isTupleCycle_eq] at htrue
            exact ⟨(StackP.fold hhop hstack e.dst).2.2 htrue, hedge⟩
        · rename_i hfalse
          simp only [Prod.mk.injEq] at h
          obtain ⟨⟨rfl, rfl⟩, _⟩ := h
          refine ⟨(fun h => by cases h), fun err h => ?_⟩
          cases h
          have hf : (List.foldl (tcStep g e.dst) (false, false) (path ++ [e])).2 = false := by
            rw [← isTupleCycle_eq]
            simpa using hfalse
          by_cases hin : e.dst ∈ nodeID :: K
          · exact Or.inl ⟨e.dst, (StackP.fold hhop hstack e.dst).2.1 hf hin⟩
          · right
            have hvis : e.dst ∈ st1.visited := by
              have := (calcNode_V fuel g e.dst (path ++ [e]) st).2
              rw [heq] at this
              rcases this rfl with h1 | h1
              · exact h1
              · rw [hnt] at h1; cases h1
            exact ⟨e.dst, hnt, fun hg => hA1.i3.ne e.dst hvis hin hg hnil⟩
      · simp only [Prod.mk.injEq] at h
        obtain ⟨⟨rfl, rfl⟩, _⟩ := h
        refine ⟨fun _ m hm => ?_, fun err h => by cases h⟩
        rcases scan_mem _ r _ _ m hm with hm | ⟨kv, hkv, hp, rfl⟩
        · exact ⟨(hpost m hm).1, hedge.trans (hpost m hm).2⟩
        · have hkeys : Keys (aget e.dst st1.nodeW) kv.1 := ⟨kv.2, hkv⟩
          exact ⟨hA1.phN e.dst kv.1 hkeys hp, hedge.trans (hA1.connN hkeys hp)⟩

theorem edgeLoop_single_E7 (fuel : Nat) (hrec : Rec7 g (calcNode fuel g)) (K : List String) (nodeID : String)
    (path : List WEdge) (hst : StackP g K path nodeID) (r : ERef) (e : WEdge) (he : e ∈ edgesOf g nodeID)
    (tcs : List String) (st : AState) (hA : E7Inv g (nodeID :: K) st)
    (tcs1 : List String) (oe : Option AErr) (st1 : AState)
    (h : edgeLoop (calcNode fuel g) g nodeID path [(r, e)] tcs st = ((tcs1, oe), st1)) :
    (oe = none → ∃ tc', tcs1 = tcs ++ tc' ∧ ∀ m ∈ tc', m ∈ nodeID :: K ∧ Conn g nodeID m) ∧
    (∀ err, oe = some err → Just g err) := by
  simp only [edgeLoop] at h
  split at h
  · simp only [Prod.mk.injEq] at h
    obtain ⟨⟨rfl, rfl⟩, _⟩ := h
    exact ⟨fun _ => ⟨[], by simp, fun m hm => by cases hm⟩, fun err h => by cases h⟩
  · split at h
    · simp only [Prod.mk.injEq] at h
      obtain ⟨⟨rfl, rfl⟩, _⟩ := h
      exact ⟨fun _ => ⟨[], by simp, fun m hm => by cases hm⟩, fun err h => by cases h⟩
    · rename_i hnt
      have hnt' : isTerminal (nodeType g e.dst) = false := by simpa using hnt
      generalize hce : calcEdgeWith (calcNode fuel g) g r e path st = res at h
      obtain ⟨⟨tc, oe'⟩, st2⟩ := res
      have hE := calcEdgeWith_E7 g hn hsrc hhop fuel hrec K nodeID path hst r e he hnt' st hA tc oe' st2 hce
      cases oe' with
      | some err =>
        simp only [Prod.mk.injEq] at h
        obtain ⟨⟨_, rfl⟩, _⟩ := h
        exact ⟨(fun h => by cases h), hE.2⟩
      | none =>
        simp only [edgeLoop, Prod.mk.injEq] at h
        obtain ⟨⟨rfl, rfl⟩, _⟩ := h
        exact ⟨fun _ => ⟨tc, rfl, hE.1 rfl⟩, fun err h => by cases h⟩

theorem edgeLoop_E7 (fuel : Nat) (hrec : Rec7 g (calcNode fuel g)) (K : List String) (nodeID : String)
    (path : List WEdge) (hst : StackP g K path nodeID) :
    ∀ (es : List (ERef × WEdge)) (tcs : List String) (st : AState), E7Inv g (nodeID :: K) st →
      (∀ m ∈ tcs, m ∈ nodeID :: K ∧ Conn g nodeID m) →
      (∀ p ∈ es, p.1.1 = nodeID ∧ p.2 ∈ edgesOf g nodeID) → (∀ p ∈ es, edgeAt g p.1 = some p.2) →
      (∀ p ∈ es, p.1 ∈ edgeRefs g nodeID) →
      ∀ tcs' oe st', edgeLoop (calcNode fuel g) g nodeID path es tcs st = ((tcs', oe), st') →
        (oe = none → ∀ m ∈ tcs', m ∈ nodeID :: K ∧ Conn g nodeID m) ∧ (∀ err, oe = some err → Just g err)
  | [], tcs, st, _, htcs, _, _, _, tcs', oe, st', h => by
    simp only [edgeLoop, Prod.mk.injEq] at h
    obtain ⟨⟨rfl, rfl⟩, _⟩ := h
    exact ⟨fun _ => htcs, fun err h => by cases h⟩
  | (r, e) :: rest, tcs, st, hA, htcs, hes, hat, hin, tcs', oe, st', h => by
    rw [edgeLoop_cons_eq] at h
    have he := (hes (r, e) (List.mem_cons_self ..)).2
    split at h
    · rename_i tcs1 err st1 heq1
      simp only [Prod.mk.injEq] at h
      obtain ⟨⟨_, rfl⟩, _⟩ := h
      refine ⟨(fun h => by cases h), fun err' h' => ?_⟩
      exact (edgeLoop_single_E7 g hn hsrc hhop fuel hrec K nodeID path hst r e he tcs st hA tcs1 (some err) st1 heq1).2 err' h'
    · rename_i tcs1 st1 heq1
      obtain ⟨tc', rfl, htc'⟩ :=
        (edgeLoop_single_E7 g hn hsrc hhop fuel hrec K nodeID path hst r e he tcs st hA tcs1 none st1 heq1).1 rfl
      have htcs1 : ∀ m ∈ tcs ++ tc', m ∈ nodeID :: K ∧ Conn g nodeID m := by
        intro m hm
        rcases List.mem_append.1 hm with hm | hm
        · exact htcs m hm
        · exact htc' m hm
      have hA1 := (edgeLoop_E7All g hn fuel (nodeID :: K) nodeID path [(r, e)] tcs st hA (List.mem_cons_self ..)
        (fun p hp => hes p (by rw [List.mem_singleton.1 hp]; exact List.mem_cons_self ..))
        (fun p hp => hat p (by rw [List.mem_singleton.1 hp]; exact List.mem_cons_self ..))
        (fun p hp => hin p (by rw [List.mem_singleton.1 hp]; exact List.mem_cons_self ..)) _ st1 heq1
        (fun m hm => (htcs1 m hm).1)).1
      exact edgeLoop_E7 fuel hrec K nodeID path hst rest _ st1 hA1 htcs1
        (fun p hp => hes p (List.mem_cons_of_mem _ hp)) (fun p hp => hat p (List.mem_cons_of_mem _ hp))
        (fun p hp => hin p (List.mem_cons_of_mem _ hp)) tcs' oe st' h

theorem calcNode_E7 : ∀ (fuel : Nat), Rec7 g (calcNode fuel g)
  | 0 => by
    intro n path st K _ _ tc oe st' h
    simp only [calcNode, Prod.mk.injEq] at h
    obtain ⟨⟨_, rfl⟩, _⟩ := h
    exact ⟨(fun h => by cases h), fun err h => by cases h; trivial⟩
  | fuel+1 => by
    intro n path st K hA hst tc oe st' h
    unfold calcNode at h
    split at h
    · simp only [Prod.mk.injEq] at h
      obtain ⟨⟨rfl, rfl⟩, _⟩ := h
      exact ⟨(fun _ m hm => by cases hm), fun err h => by cases h⟩
    · split at h
      · simp only [Prod.mk.injEq] at h
        obtain ⟨⟨rfl, rfl⟩, _⟩ := h
        exact ⟨(fun _ m hm => by cases hm), fun err h => by cases h⟩
      · rename_i hc ht
        have hnt : isTerminal (nodeType g n) = false := by simpa using ht
        have hfresh : n ∉ st.visited := fun hh => hc (List.contains_iff_mem.2 hh)
        have hnil0 : aget n st.nodeW = [] := by
          cases hh : aget n st.nodeW with
          | nil => rfl
          | cons a b => exact absurd (hA.i2.v2 n (by rw [hh]; simp)) hfresh
        simp only at h
        have hI := hA.i2
        have hI0 : Inv2 { st with visited := n :: st.visited } :=
          ⟨hI.i1, hI.i3, fun r hr => List.mem_cons_of_mem _ (hI.v1 r hr), fun N hN => List.mem_cons_of_mem _ (hI.v2 N hN),
            fun m r hr => List.mem_cons_of_mem _ (hI.v3 m r hr)⟩
        have hD0 : InvD g { st with visited := n :: st.visited } := hA.iD.of_core rfl rfl
        have h50 : Inv5 g (KeyOK g) { st with visited := n :: st.visited } := hA.i5.of_core rfl rfl
        have h30 : Inv3 g (n :: K) { st with visited := n :: st.visited } := by
          refine ⟨?_, ?_, hA.i3.pos⟩
          · intro v hv hvK hgood
            have hvn : v ≠ n := fun e => hvK (e ▸ List.mem_cons_self ..)
            rcases List.mem_cons.1 hv with e | hv
            · exact absurd e hvn
            · exact hA.i3.ne v hv (fun hh => hvK (List.mem_cons_of_mem _ hh)) hgood
          · intro v hv hvK r hr
            have hvn : v ≠ n := fun e => hvK (e ▸ List.mem_cons_self ..)
            rcases List.mem_cons.1 hv with e | hv
            · exact absurd e hvn
            · exact hA.i3.ed v hv (fun hh => hvK (List.mem_cons_of_mem _ hh)) r hr
        have hA0 : E7Inv g (n :: K) { st with visited := n :: st.visited } := by
          refine ⟨hI0, hD0, h50, h30, ?_, ?_, ?_, ?_⟩
          · intro v hv
            rcases List.mem_cons.1 hv with e | hv
            · exact e ▸ List.mem_cons_self ..
            · exact List.mem_cons_of_mem _ (hA.kv v hv)
          · intro v hv
            rcases List.mem_cons.1 hv with e | hv
            · exact e ▸ hnil0
            · exact hA.kn v hv
          · intro r k hk hp
            exact List.mem_cons_of_mem _ (hA.phE r k hk hp)
          · intro N k hk hp
            exact List.mem_cons_of_mem _ (hA.phN N k hk hp)
        split at h
        · rename_i tcs err stL heq
          simp only [Prod.mk.injEq] at h
          obtain ⟨⟨_, rfl⟩, _⟩ := h
          refine ⟨(fun h => by cases h), fun err' h' => ?_⟩
          exact (edgeLoop_E7 g hn hsrc hhop fuel (calcNode_E7 fuel) K n path hst _ [] _ hA0 (fun m hm => by cases hm)
            (mem_refs g n) (refs_edgeAt g n) (refs_in_edgeRefs g n) tcs (some err) stL heq).2 err' h'
        · rename_i tcs stL heq
          have htcs := (edgeLoop_E7 g hn hsrc hhop fuel (calcNode_E7 fuel) K n path hst _ [] _ hA0 (fun m hm => by cases hm)
            (mem_refs g n) (refs_edgeAt g n) (refs_in_edgeRefs g n) tcs none stL heq).1 rfl
          obtain ⟨hAL, hRL, hall⟩ := edgeLoop_E7All g hn fuel (n :: K) n path _ [] _ hA0 (List.mem_cons_self ..)
            (mem_refs g n) (refs_edgeAt g n) (refs_in_edgeRefs g n) tcs stL heq (fun m hm => (htcs m hm).1)
          cases oe with
          | none =>
            refine ⟨fun _ m hm => ?_, fun err h => by cases h⟩
            obtain ⟨h1, h2⟩ := fromTheEdges_tc g n tcs stL hnt tc st' h m hm
            obtain ⟨h3, h4⟩ := htcs m h1
            rcases List.mem_cons.1 h3 with e | h3
            · exact absurd e h2
            · exact ⟨h3, h4⟩
          | some err =>
            refine ⟨(fun h => by cases h), fun err' h' => ?_⟩
            cases h'
            refine e7_from_err g hn n K path tcs stL hAL hnt ?_ ?_ hst htcs tc err st' h
            · intro r hr
              obtain ⟨e, he⟩ := refs_cover g n r hr
              exact hall _ he
            · intro htcs0 r hr k hp hk
              rcases hRL.ce r k hk hp with h1 | h1
              · have := hI.v1 r (ne_nil_of_keys h1)
                rw [mem_edgeRefs_fst hr] at this
                exact hfresh this
              · rw [htcs0] at h1; cases h1

/-- the loop of `AssignWeights`: every error is justified; the test for unresolved references at top level never fires -/
theorem go_E7 : ∀ (ns : List String) (st : AState) (e : AErr), E7Inv g [] st →
    assignWeights.go g ns st = .error e → Just g e
  | [], st, e, _, heq => by
    simp [assignWeights.go] at heq
  | n :: ns, st, e, hA, heq => by
    unfold assignWeights.go at heq
    split at heq
    · exact go_E7 ns st e hA heq
    · split at heq
      · rename_i tcs err st2 hres
        cases heq
        exact (calcNode_E7 g hn hsrc hhop _ n [] st [] hA (StackP.nil n) _ (some e) _ hres).2 e rfl
      · rename_i tcs st2 hres
        have htcs := (calcNode_E7 g hn hsrc hhop _ n [] st [] hA (StackP.nil n) _ none _ hres).1 rfl
        have hnil : tcs = [] := by
          cases tcs with
          | nil => rfl
          | cons m rest => exact absurd (htcs m (List.mem_cons_self ..)).1 (by simp)
        split at heq
        · rename_i hne
          rw [hnil] at hne
          simp at hne
        · exact go_E7 ns st2 e (calcNode_E7All g hn _ [] n [] st hA tcs st2 hres (fun m hm => (htcs m hm).1)) heq

end pass

/-- **every error of the port is justified** -/
theorem assignWeights_error_justified (g : G) (hn : NoPHTypes g) (hcl : RClosed g)
    (hsrc : ∀ n, ∀ e ∈ edgesOf g n, e.src = n)
    (hhop : ∀ n, ∀ e ∈ edgesOf g n, e.etype = .direct → nodeType g e.dst ≠ .operator)
    (order : List String) (e : AErr) (h : assignWeights g order = .error e) : Just g e := by
  unfold assignWeights at h
  split at h
  · rename_i hb
    cases h
    exact Or.inl (cycle_of_prepass g hcl hb)
  · exact go_E7 g hn hsrc hhop _ {} e (e7inv_init g) h

/-! ### the test for unresolved references at top level is dead code -/

/-- `AssignWeights` without the test `len(tupleCycles) > 0` after the top-level call -/
def assignWeightsNoTopCheck (g : G) (order : List String) : Except AErr AState :=
  if hasRewriteOnlyCycle g then .error .modelCycle
  else
    let rest := (g.nodes.map (·.uniqueLabel)).filter (fun n => !order.contains n)
    let all := (order.filter (fun n => (g.node? n).isSome)) ++ rest
    let rec go : List String → AState → Except AErr AState
      | [], st => .ok st
      | n :: ns, st =>
        if st.visited.contains n then go ns st
        else
          match calcNode (g.nodes.length + 1) g n [] st with
          | ((_, some err), _) => .error err
          | ((_, none), st) => go ns st
    go all {}

theorem go_noTopCheck (g : G) (hn : NoPHTypes g) (hsrc : ∀ n, ∀ e ∈ edgesOf g n, e.src = n)
    (hhop : ∀ n, ∀ e ∈ edgesOf g n, e.etype = .direct → nodeType g e.dst ≠ .operator) :
    ∀ (ns : List String) (st : AState), E7Inv g [] st →
      assignWeights.go g ns st = assignWeightsNoTopCheck.go g ns st
  | [], st, _ => by simp [assignWeights.go, assignWeightsNoTopCheck.go]
  | n :: ns, st, hA => by
    unfold assignWeights.go assignWeightsNoTopCheck.go
    split
    · exact go_noTopCheck g hn hsrc hhop ns st hA
    · generalize hres : calcNode (g.nodes.length + 1) g n [] st = res
      obtain ⟨⟨tcs, oe⟩, st2⟩ := res
      cases oe with
      | some err => rfl
      | none =>
        have htcs := (calcNode_E7 g hn hsrc hhop _ n [] st [] hA (StackP.nil n) _ none _ hres).1 rfl
        have hnil : tcs = [] := by
          cases tcs with
          | nil => rfl
          | cons m rest => exact absurd (htcs m (List.mem_cons_self ..)).1 (by simp)
        subst hnil
        simp only [List.isEmpty_nil, Bool.not_true, Bool.false_eq_true, if_false]
        exact go_noTopCheck g hn hsrc hhop ns st2
          (calcNode_E7All g hn _ [] n [] st hA [] st2 hres (fun m hm => by cases hm))

/-- the list of unresolved references that comes back to the top level is always empty: the test never fires -/
theorem assignWeights_eq_noTopCheck (g : G) (hn : NoPHTypes g) (hsrc : ∀ n, ∀ e ∈ edgesOf g n, e.src = n)
    (hhop : ∀ n, ∀ e ∈ edgesOf g n, e.etype = .direct → nodeType g e.dst ≠ .operator) (order : List String) :
    assignWeights g order = assignWeightsNoTopCheck g order := by
  unfold assignWeights assignWeightsNoTopCheck
  split
  · rfl
  · exact go_noTopCheck g hn hsrc hhop _ {} (e7inv_init g)

/-! ### fuel is never exhausted

    The nested calls of `calculateNodeWeight` are made for nodes whose visit is in progress; these are distinct
    nodes of the graph, so the depth of the recursion never exceeds the number of nodes. -/

def NoFuel (res : Res) : Prop := res.1.2 ≠ some .fuel

def RecF (K : List String) (rec : String → List WEdge → AState → Res) : Prop :=
  ∀ n path st, (∀ v ∈ K, v ∈ st.visited) → NoFuel (rec n path st)

theorem maxStrategy_nofuel (g : G) (n : String) (st : AState) : (maxStrategy g n st).1 ≠ some .fuel := by
  unfold maxStrategy; split <;> simp

theorem mixedStrategy_nofuel (g : G) (n : String) (st : AState) : (mixedStrategy g n st).1 ≠ some .fuel := by
  unfold mixedStrategy; split <;> simp

theorem enforce_nofuel (g : G) (n : String) (st : AState) : (enforceTypeStrategy g n st).1 ≠ some .fuel := by
  rw [enforce_eq]; split
  · simp
  · split <;> simp

theorem calcAndFix_nofuel (g : G) (n : String) (st : AState) : (calcAndFix g n st).1 ≠ some .fuel := by
  rw [calcAndFix_eq]; split
  · simp
  · split
    · simp
    · split <;> simp

theorem fromTheEdges_nofuel (g : G) (n : String) (tcs : List String) (st : AState) : NoFuel (fromTheEdges g n tcs st) := by
  unfold NoFuel fromTheEdges
  simp only
  have hcaf : ∀ (f : List String), (match calcAndFix g n st with
      | (some e, st) => ((tcs, some e), st)
      | (none, st) => ((f, none), st)).1.2 ≠ some AErr.fuel := by
    intro f
    have := calcAndFix_nofuel g n st
    split
    · rename_i e st' heq
      rw [heq] at this
      exact this
    · simp
  split
  · simp only
    split
    · exact maxStrategy_nofuel g n st
    · split
      · exact maxStrategy_nofuel g n st
      · split
        · exact enforce_nofuel g n st
        · split
          · exact mixedStrategy_nofuel g n st
          · simp
  · split
    · exact hcaf _
    · split
      · exact maxStrategy_nofuel g n st
      · split
        · split
          · exact hcaf _
          · exact maxStrategy_nofuel g n st
        · simp

theorem calcEdgeWith_F (g : G) (K : List String) (rec : String → List WEdge → AState → Res) (hrecF : RecF K rec)
    (r : ERef) (e : WEdge) (path : List WEdge) (st : AState) (hK : ∀ v ∈ K, v ∈ st.visited) :
    NoFuel (calcEdgeWith rec g r e path st) := by
  unfold NoFuel
  rw [calcEdgeWith_eq]
  have hr := hrecF e.dst (path ++ [e]) st hK
  unfold NoFuel at hr
  split
  · simp
  · split
    · rename_i tc err st1 heq
      rw [heq] at hr
      exact hr
    · split
      · split <;> simp
      · simp

theorem edgeLoop_F (g : G) (K : List String) (rec : String → List WEdge → AState → Res) (hrecV : RecV g rec)
    (hrecF : RecF K rec) (nodeID : String) (path : List WEdge) :
    ∀ (es : List (ERef × WEdge)) (tcs : List String) (st : AState), (∀ v ∈ K, v ∈ st.visited) →
      NoFuel (edgeLoop rec g nodeID path es tcs st)
  | [], _, st, _ => by simp [NoFuel, edgeLoop]
  | (r, e) :: rest, tcs, st, hK => by
    unfold edgeLoop
    split
    · exact edgeLoop_F g K rec hrecV hrecF nodeID path rest tcs st hK
    · simp only
      split
      · refine edgeLoop_F g K rec hrecV hrecF nodeID path rest _ _ ?_
        intro v hv
        have := hK v hv
        simp only
        split <;> simpa using this
      · have hc := calcEdgeWith_V g rec hrecV r e path st
        have hf := calcEdgeWith_F g K rec hrecF r e path st hK
        unfold NoFuel at hf
        split
        · rename_i err heq
          unfold NoFuel
          simp only
          rw [heq] at hf
          exact hf
        · refine edgeLoop_F g K rec hrecV hrecF nodeID path rest _ _ ?_
          intro v hv
          simpa using hc.1 v (hK v hv)

theorem calcNode_F (g : G) : ∀ (fuel : Nat) (K : List String), K.Nodup → (∀ v ∈ K, v ∈ labels g) →
    g.nodes.length + 1 ≤ fuel + K.length → RecF K (calcNode fuel g)
  | 0, K, hnd, hsub, hle => by
    have := List.Nodup.length_le_of_subset hnd (fun v hv => hsub v hv)
    unfold labels at this
    rw [List.length_map] at this
    omega
  | fuel+1, K, hnd, hsub, hle => by
    intro n path st hK
    unfold NoFuel calcNode
    split
    · simp
    · split
      · simp
      · rename_i hc ht
        have hfresh : n ∉ st.visited := fun hh => hc (List.contains_iff_mem.2 hh)
        have hnt : isTerminal (nodeType g n) = false := by simpa using ht
        have hnK : n ∉ K := fun hh => hfresh (hK n hh)
        have hlab : n ∈ labels g := by
          obtain ⟨nd, hnd', rfl⟩ := nonterminal_in_graph g n hnt
          exact List.mem_map.2 ⟨nd, hnd', rfl⟩
        have hrecF : RecF (n :: K) (calcNode fuel g) :=
          calcNode_F g fuel (n :: K) (List.nodup_cons.2 ⟨hnK, hnd⟩)
            (fun v hv => by
              rcases List.mem_cons.1 hv with rfl | hv
              · exact hlab
              · exact hsub v hv)
            (by simp only [List.length_cons]; omega)
        have hl := edgeLoop_F g (n :: K) (calcNode fuel g) (calcNode_V fuel g) hrecF n path
          ((List.range (edgesOf g n).length).zip (edgesOf g n) |>.map (fun (i, e) => ((n, i), e))) []
          { st with visited := n :: st.visited }
          (fun v hv => by
            rcases List.mem_cons.1 hv with rfl | hv
            · exact List.mem_cons_self ..
            · exact List.mem_cons_of_mem _ (hK v hv))
        unfold NoFuel at hl
        simp only
        split
        · rename_i tcs err st' heq
          rw [heq] at hl
          exact hl
        · exact fromTheEdges_nofuel g n _ _

theorem go_F (g : G) : ∀ (ns : List String) (st : AState), assignWeights.go g ns st ≠ .error .fuel
  | [], st => by simp [assignWeights.go]
  | n :: ns, st => by
    unfold assignWeights.go
    split
    · exact go_F g ns st
    · have hf := calcNode_F g (g.nodes.length + 1) [] List.nodup_nil (fun v hv => by cases hv) (by simp) n [] st
        (fun v hv => by cases hv)
      unfold NoFuel at hf
      split
      · rename_i tcs err st2 hres
        rw [hres] at hf
        intro h
        cases h
        exact hf rfl
      · split
        · simp
        · exact go_F g ns _

/-- **the fuel of the port never runs out**, on any graph and for any start order -/
theorem assignWeights_fuel_suffices (g : G) (order : List String) : assignWeights g order ≠ .error .fuel := by
  unfold assignWeights
  split
  · simp
  · exact go_F g _ _

/-! ### the bundle: accepted iff well-founded -/

/-- a weighted graph is well-founded: no cycle of rewrite/computed edges, no intersection or exclusion (or other
    non-union operator) on any cycle, and every relation and operator node is reached by some terminal type (`HasT`:
    through some edge of a relation or union, every edge of an intersection, a base edge of an exclusion) -/
def WellFoundedG (g : G) : Prop :=
  (∀ x, ¬ RPath g x x) ∧ (∀ v, isMaxNode g v = false → ¬ Conn g v v) ∧
  (∀ v, isTerminal (nodeType g v) = false → ∃ T, HasT g v T)

theorem not_wellFounded_of_just {g : G} {e : AErr} (he : e ≠ .fuel) (h : Just g e) : ¬ WellFoundedG g := by
  rintro ⟨h1, h2, h3⟩
  cases e with
  | modelCycle =>
    rcases h with ⟨x, hx⟩ | hb
    · exact h1 x hx
    · obtain ⟨v, hv, hno⟩ := noType_of_badOp hb
      obtain ⟨T, hT⟩ := h3 v hv
      exact hno T hT
  | invalidModel =>
    obtain ⟨v, hv, hno⟩ := h
    obtain ⟨T, hT⟩ := h3 v hv
    exact hno T hT
  | tupleCycle =>
    obtain ⟨v, hv, hc⟩ := h
    exact h2 v hv hc
  | fuel => exact he rfl

def goodB (g : G) (v : String) : Bool :=
  nodeType g v == .typeAndRelation ||
  (nodeType g v == .operator && (nodeLabel g v == "union" || nodeLabel g v == "intersection" ||
    (nodeLabel g v == "exclusion" && decide (2 ≤ (edgesOf g v).length))))

/-- every relation/operator node of the graph is a relation, a union, an intersection or an exclusion with (at least)
    two edges -/
def allGoodB (g : G) : Bool := g.nodes.all (fun n => isTerminal (nodeType g n.uniqueLabel) || goodB g n.uniqueLabel)

theorem goodB_sound {g : G} {v : String} (h : goodB g v = true) : GoodNode g v := by
  unfold goodB at h
  unfold GoodNode
  rw [Bool.or_eq_true] at h
  rcases h with h | h
  · left
    revert h
    cases nodeType g v <;> decide
  · right
    rw [Bool.and_eq_true] at h
    refine ⟨?_, ?_⟩
    · have := h.1
      revert this
      cases nodeType g v <;> decide
    · have := h.2
      simp only [Bool.or_eq_true, Bool.and_eq_true, beq_iff_eq, decide_eq_true_eq] at this
      rcases this with (h1 | h1) | h1
      · exact Or.inl h1
      · exact Or.inr (Or.inl h1)
      · exact Or.inr (Or.inr h1)

theorem allGoodB_sound (g : G) (h : allGoodB g = true) : ∀ v, isTerminal (nodeType g v) = false → GoodNode g v := by
  intro v hv
  obtain ⟨nd, hnd, rfl⟩ := nonterminal_in_graph g v hv
  unfold allGoodB at h
  rw [List.all_eq_true] at h
  have := h nd hnd
  rw [hv, Bool.false_or] at this
  exact goodB_sound this

/-- an accepted graph is well-founded (from the post-conditions of success) -/
theorem accepted_wellFoundedG (g : G) (hn : NoPHTypes g) (hcl : RClosed g)
    (hgood : ∀ v, isTerminal (nodeType g v) = false → GoodNode g v) (order : List String) (st : AState)
    (h : assignWeights g order = .ok st) : WellFoundedG g := by
  have hF := final_of_success g hn order st h
  refine ⟨accepted_no_rewrite_cycle_closed g hcl order st h, ?_, ?_⟩
  · intro v hm
    have hnt : isTerminal (nodeType g v) = false := by
      unfold isMaxNode at hm
      rw [Bool.or_eq_false_iff] at hm
      have := hm.1
      revert this
      cases nodeType g v <;> decide
    exact accepted_no_nonmax_on_cycle g hn order st h v (hF.vis v hnt) hm
  · intro v hv
    obtain ⟨nd, hnd, rfl⟩ := nonterminal_in_graph g v hv
    have hne := (assignWeights_nonempty g order st h).1 nd hnd (hgood _ hv)
    obtain ⟨T, x, hx⟩ := exists_key_of_ne_nil _ hne
    exact ⟨T, (assignWeights_keys_sound g hn order st h).1 _ T (by rw [hx]; rfl)⟩

/-- **the port accepts a graph if and only if it is well-founded** — for every start order -/
theorem accepted_iff_wellFoundedG (g : G) (hn : NoPHTypes g) (hcl : RClosed g)
    (hsrc : ∀ n, ∀ e ∈ edgesOf g n, e.src = n)
    (hhop : ∀ n, ∀ e ∈ edgesOf g n, e.etype = .direct → nodeType g e.dst ≠ .operator)
    (hgood : ∀ v, isTerminal (nodeType g v) = false → GoodNode g v) (order : List String) :
    (∃ st, assignWeights g order = .ok st) ↔ WellFoundedG g := by
  constructor
  · rintro ⟨st, h⟩
    exact accepted_wellFoundedG g hn hcl hgood order st h
  · intro hwf
    cases h : assignWeights g order with
    | ok st => exact ⟨st, rfl⟩
    | error e =>
      have hne : e ≠ .fuel := fun he => assignWeights_fuel_suffices g order (he ▸ h)
      exact absurd hwf (not_wellFounded_of_just hne (assignWeights_error_justified g hn hcl hsrc hhop order e h))

/-- the justification in the vocabulary of the clauses of `accepts_only_well_founded`: a node of the graph on a cycle
    of rewrite/computed edges, or an operator of the graph other than a union on a cycle, or a relation/operator node of
    the graph that no terminal type reaches -/
theorem rejected_ill_founded (g : G) (hn : NoPHTypes g) (hcl : RClosed g)
    (hsrc : ∀ n, ∀ e ∈ edgesOf g n, e.src = n)
    (hhop : ∀ n, ∀ e ∈ edgesOf g n, e.etype = .direct → nodeType g e.dst ≠ .operator)
    (order : List String) (e : AErr) (h : assignWeights g order = .error e) :
    (∃ n ∈ g.nodes, RPath g n.uniqueLabel n.uniqueLabel) ∨
    (∃ n ∈ g.nodes, nodeType g n.uniqueLabel = .operator ∧ nodeLabel g n.uniqueLabel ≠ "union" ∧
      Conn g n.uniqueLabel n.uniqueLabel) ∨
    (∃ n ∈ g.nodes, isTerminal (nodeType g n.uniqueLabel) = false ∧ ∀ T, ¬ HasT g n.uniqueLabel T) := by
  have hne : e ≠ .fuel := fun he => assignWeights_fuel_suffices g order (he ▸ h)
  have hj := assignWeights_error_justified g hn hcl hsrc hhop order e h
  have hcyc : (∃ x, RPath g x x) → ∃ n ∈ g.nodes, RPath g n.uniqueLabel n.uniqueLabel := by
    rintro ⟨x, hx⟩
    obtain ⟨z, hz⟩ := hx.last
    obtain ⟨nd, hnd, rfl⟩ := List.mem_map.1 (hcl z x hz)
    exact ⟨nd, hnd, hx⟩
  have hnot : NoType g → ∃ n ∈ g.nodes, isTerminal (nodeType g n.uniqueLabel) = false ∧ ∀ T, ¬ HasT g n.uniqueLabel T := by
    rintro ⟨v, hv, hno⟩
    obtain ⟨nd, hnd, rfl⟩ := nonterminal_in_graph g v hv
    exact ⟨nd, hnd, hv, hno⟩
  cases e with
  | modelCycle =>
    rcases hj with hx | hb
    · exact Or.inl (hcyc hx)
    · exact Or.inr (Or.inr (hnot (noType_of_badOp hb)))
  | invalidModel => exact Or.inr (Or.inr (hnot hj))
  | tupleCycle =>
    obtain ⟨v, hm, hc⟩ := hj
    right; left
    unfold isMaxNode at hm
    rw [Bool.or_eq_false_iff] at hm
    have hop : nodeType g v = .operator := by
      have := hm.1
      revert this
      cases nodeType g v <;> decide
    have hnt : isTerminal (nodeType g v) = false := by rw [hop]; rfl
    obtain ⟨nd, hnd, rfl⟩ := nonterminal_in_graph g v hnt
    exact ⟨nd, hnd, hop, by simpa using hm.2, hc⟩
  | fuel => exact absurd rfl hne

end FgaVerif.Model.WAssign
