import FgaVerif.Model.LexSim
import FgaVerif.Proofs.Clean
/-! Facts about the token loop of the lexer model (`LexSim.lexLoop`) that hold **whatever the matcher
    is** — in particular for the interpreter of the automaton embedded in the generated lexer, whatever
    that automaton is after a change to the grammar:

    * the items (tokens of all channels, skipped tokens, the spans skipped after a token recognition
      error) are consecutive pieces of the input: concatenated they are a prefix of it, and the whole
      of it when the loop did not abort (`lexLoop_partition`);
    * the line and column recorded for an item are those of the offset at which it starts
      (`lexLoop_positions`), hence lie inside the input: the line exists and the column is not beyond its
      end (`lexLoop_position_inside`). -/
namespace FgaVerif.Model.LexSim
open FgaVerif.Model.Clean

/-! ### line / column of an offset -/

theorem advanceL_append (p : Nat × Nat) (a b : List Char) : advanceL p (a ++ b) = advanceL (advanceL p a) b := by
  simp [advanceL, List.foldl_append]

theorem advanceL_cons (p : Nat × Nat) (c : Char) (cs : List Char) : advanceL p (c :: cs) = advanceL (advance p c) cs := rfl

/-- `advanceL` in terms of the lines of the text walked over -/
theorem advanceL_lines (s : List Char) : ∀ (p : Nat × Nat),
    advanceL p s = (p.1 + (splitLines s).length - 1,
      if (splitLines s).length = 1 then p.2 + ((splitLines s).getLastD []).length
      else ((splitLines s).getLastD []).length) := by
  induction s with
  | nil => intro p; simp [advanceL, splitLines]
  | cons c cs ih =>
    intro p
    have hne := splitLines_ne_nil cs
    rw [advanceL_cons, ih]
    cases hs : splitLines cs with
    | nil => exact absurd hs hne
    | cons a as =>
      by_cases hc : c = '\n'
      · subst hc
        simp only [advance, splitLines, hs, beq_self_eq_true, if_true, List.length_cons]
        cases as with
        | nil => simp
        | cons b bs => simp; omega
      · have hc' : (c == '\n') = false := by simpa using hc
        simp only [advance, splitLines, hs, hc', Bool.false_eq_true, if_false, List.length_cons]
        cases as with
        | nil => simp; omega
        | cons b bs => simp

/-- from the start of the text: line = number of lines begun, column = length of the last one -/
theorem advanceL_start (s : List Char) :
    advanceL (1, 0) s = ((splitLines s).length, ((splitLines s).getLastD []).length) := by
  rw [advanceL_lines]
  have hne := splitLines_ne_nil s
  cases hs : splitLines s with
  | nil => exact absurd hs hne
  | cons a as =>
    cases as with
    | nil => simp
    | cons b bs => simp

/-- the position of an offset of the input lies inside the input -/
theorem offset_position_inside (pre input : List Char) (h : pre <+: input) :
    ∃ ln, (splitLines input)[(advanceL (1, 0) pre).1 - 1]? = some ln ∧ (advanceL (1, 0) pre).2 ≤ ln.length := by
  rw [advanceL_start]
  have hne := splitLines_ne_nil pre
  obtain ⟨_, hpt⟩ := splitLines_prefix pre input h
  have hlast : (splitLines pre)[(splitLines pre).length - 1]? = some ((splitLines pre).getLastD []) := by
    cases hs : splitLines pre with
    | nil => exact absurd hs hne
    | cons a as =>
      rw [List.getLastD_eq_getLast?, List.getLast?_eq_getElem?]
      simp
  obtain ⟨l', hl', hpre⟩ := hpt _ _ hlast
  exact ⟨l', hl', hpre.length_le⟩

/-! ### the loop -/

variable (matcher : Nat → List Char → MatchRes) (rtt : Array Nat) (acts : Array (Nat × Nat × Nat))

/-- the items partition a prefix of the input; all of it unless the loop aborted -/
theorem lexLoop_partition : ∀ (fuel : Nat) (st : LexState) (pos : Nat × Nat) (input : List Char),
    ((lexLoop matcher rtt acts fuel st pos input).flatMap Item.chars <+: input) ∧
    ((lexLoop matcher rtt acts fuel st pos input).all (fun i => !i.isAbort) = true →
      (lexLoop matcher rtt acts fuel st pos input).flatMap Item.chars = input) := by
  intro fuel
  induction fuel with
  | zero => intro st pos input; simp [lexLoop, Item.chars, Item.isAbort]
  | succ f ih =>
    intro st pos input
    cases input with
    | nil => simp [lexLoop, Item.chars, Item.isAbort]
    | cons c cs =>
      simp only [lexLoop]
      cases hm : matcher st.mode (c :: cs) with
      | stuck => simp [Item.chars, Item.isAbort]
      | eof => simp [Item.chars, Item.isAbort]
      | fail consumed =>
        simp only [List.flatMap_cons, Item.chars, List.all_cons, Item.isAbort, Bool.not_false, Bool.true_and]
        obtain ⟨h1, h2⟩ := ih st (advanceL pos ((c :: cs).take (consumed + 1))) ((c :: cs).drop (consumed + 1))
        constructor
        · have := (List.prefix_append_right_inj ((c :: cs).take (consumed + 1))).2 h1
          rwa [List.take_append_drop] at this
        · intro hall
          rw [h2 hall, List.take_append_drop]
      | accept len rule as =>
        by_cases hl : len = 0
        · simp [hl, Item.chars, Item.isAbort]
        · have hl' : (len == 0) = false := by simpa using hl
          simp only [hl', Bool.false_eq_true, if_false]
          cases hab : (runActions acts as { ty := -100, channel := 0, st := st, abort := none }).abort with
          | some why => simp [Item.chars, Item.isAbort]
          | none =>
            simp only [List.flatMap_cons, Item.chars, List.all_cons, Item.isAbort, Bool.not_false, Bool.true_and]
            obtain ⟨h1, h2⟩ := ih (runActions acts as { ty := -100, channel := 0, st := st, abort := none }).st
              (advanceL pos ((c :: cs).take len)) ((c :: cs).drop len)
            constructor
            · have := (List.prefix_append_right_inj ((c :: cs).take len)).2 h1
              rwa [List.take_append_drop] at this
            · intro hall
              rw [h2 hall, List.take_append_drop]

/-- every item that is not an abort carries the line and column of the offset at which it starts -/
theorem lexLoop_positions : ∀ (fuel : Nat) (st : LexState) (pos : Nat × Nat) (input : List Char)
    (pre : List Item) (it : Item) (post : List Item),
    lexLoop matcher rtt acts fuel st pos input = pre ++ it :: post → it.isAbort = false →
    it.pos = advanceL pos (pre.flatMap Item.chars) := by
  intro fuel
  induction fuel with
  | zero =>
    intro st pos input pre it post h hna
    simp only [lexLoop] at h
    cases pre with
    | nil => simp at h; obtain ⟨rfl, _⟩ := h; simp [Item.isAbort] at hna
    | cons a as => simp at h
  | succ f ih =>
    intro st pos input pre it post h hna
    have single : ∀ (x : Item), [x] = pre ++ it :: post → x = it := by
      intro x hx
      cases pre with
      | nil => simp at hx; exact hx.1
      | cons a as => simp at hx
    cases input with
    | nil =>
      simp only [lexLoop] at h
      have := single _ h
      cases pre with
      | nil => subst this; simp [Item.pos, advanceL]
      | cons a as => simp at h
    | cons c cs =>
      simp only [lexLoop] at h
      cases hm : matcher st.mode (c :: cs) with
      | stuck => rw [hm] at h; have := single _ h; subst this; simp [Item.isAbort] at hna
      | eof => rw [hm] at h; have := single _ h; subst this; simp [Item.isAbort] at hna
      | fail consumed =>
        rw [hm] at h
        simp only at h
        cases pre with
        | nil =>
          simp only [List.nil_append, List.cons.injEq] at h
          rw [← h.1]; simp [Item.pos, advanceL]
        | cons a as =>
          simp only [List.cons_append, List.cons.injEq] at h
          have := ih _ _ _ as it post h.2 hna
          rw [this, ← h.1]
          simp only [List.flatMap_cons, Item.chars, advanceL_append]
      | accept len rule aa =>
        rw [hm] at h
        simp only at h
        by_cases hl : len = 0
        · simp only [hl, beq_self_eq_true, if_true] at h
          have := single _ h; subst this; simp [Item.isAbort] at hna
        · have hl' : (len == 0) = false := by simpa using hl
          simp only [hl', Bool.false_eq_true, if_false] at h
          cases hab : (runActions acts aa { ty := -100, channel := 0, st := st, abort := none }).abort with
          | some why =>
            rw [hab] at h
            have := single _ h; subst this; simp [Item.isAbort] at hna
          | none =>
            rw [hab] at h
            simp only at h
            cases pre with
            | nil =>
              simp only [List.nil_append, List.cons.injEq] at h
              rw [← h.1]; simp [Item.pos, advanceL]
            | cons a as =>
              simp only [List.cons_append, List.cons.injEq] at h
              have := ih _ _ _ as it post h.2 hna
              rw [this, ← h.1]
              simp only [List.flatMap_cons, Item.chars, advanceL_append]

/-- **positions lie inside the input**: for every token and every token recognition error of the loop
    started at the beginning of the text, the (1-based) line exists in the text and the column is not
    beyond the end of that line -/
theorem lexLoop_position_inside (fuel : Nat) (input : List Char) (it : Item)
    (hmem : it ∈ lexLoop matcher rtt acts fuel {} (1, 0) input) (hna : it.isAbort = false) :
    ∃ ln, (splitLines input)[it.pos.1 - 1]? = some ln ∧ it.pos.2 ≤ ln.length := by
  obtain ⟨pre, post, hsplit⟩ := List.append_of_mem hmem
  have hpos := lexLoop_positions matcher rtt acts fuel {} (1, 0) input pre it post hsplit hna
  have hpart := (lexLoop_partition matcher rtt acts fuel {} (1, 0) input).1
  rw [hsplit, List.flatMap_append] at hpart
  have hpre : pre.flatMap Item.chars <+: input := (List.prefix_append _ _).trans hpart
  rw [hpos]
  exact offset_position_inside _ _ hpre

end FgaVerif.Model.LexSim
