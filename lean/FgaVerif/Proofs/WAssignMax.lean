import FgaVerif.Proofs.WAssignNode
import FgaVerif.Proofs.WAssignCycle
/-! The **completeness / maximality** direction for the port of `AssignWeights` (`Model/WAssign.lean`), C04.

    * `HasT g v T` / `EdgeHasT g e T` — the per-edge semantics of "terminal type `T` reaches node `v`", stated on the
      graph alone: through **some** edge of a relation or a union, through **every** edge of an intersection,
      through some **base** edge (all but the last) of an exclusion; an edge carries `T` when it ends in the terminal
      node `T` / `T:*` or in a node that `T` reaches.  The node classification is that of `stratL` / `NodeOK`.
    * `WalkT g v T k` — a walk from `v` to a terminal node of type `T` on which every node is reached by `T`, with `k`
      tuple hops (the convention of `ReachN`: the last edge counts one, every other edge one if it is direct or TTU).
      As in the specification (`Spec/WeightsSem.lean`) a walk may leave an intersection or an exclusion through any
      edge (also the subtracted one): the weight of such a node is the maximum over all of them.
    * `Final g st` — what the earlier passes establish about the result of a successful run (visited nodes, edge
      rule, node rule, bound, and the topological list of the rewrite pre-pass).  Consequences of `Final` alone, i.e.
      for every solution of the equations on a graph without rewrite-only cycle: `keys_complete` (induction on
      `HasT`), `weight_dominates_walks` (induction on the walk), `finite_sound` (a finite weight is sound and attained
      by a walk: induction on the weight, and on the topological list for the rewrite/computed edges, which keep the
      weight), `unbounded_walks_give_infinite`, and — given the soundness of the keys that carry `Infinite`
      (`InfKeysSound`) — `infinite_unbounded` (follow an edge that attains `Infinite`: a hop edge adds one to the
      bound, a chain of non-hop edges is finite).  `Final` alone does not give `InfKeysSound`: a key on all nodes of
      a cycle justifies itself in the equations.
    * the sixth pass (`KClosed2`, `Inv6`, `assignWeights_inv6`): the fifth pass with separate predicates for the keys
      of an edge and of a node; its instance `KEs`/`KNs` (`kclosed2_sem`) gives `assignWeights_keys_sound`: every key
      is a type that reaches the node.  A placeholder `R#n` is read as "every type that reaches `n` gets here".
    * pigeonhole (`walk_pump_or_short`, `long_walk_unbounded`): a walk with more hops than the graph has nodes can
      be pumped; `cycle_unbounded`: every cycle of an accepted graph contains a direct or TTU edge.
    * `assignWeights_keys_exact`, `assignWeights_finite_max`, `assignWeights_infinite_iff`,
      `assignWeights_infinite_iff_unbounded`: the clauses of C04 for the port.  No closedness hypothesis on the edges
      is needed (`nonterminal_in_graph`: a label outside the graph counts as a specific type).  -/
set_option linter.unusedSimpArgs false
set_option linter.unusedSectionVars false
set_option linter.unusedVariables false
namespace FgaVerif.Model.WAssign
open FgaVerif.Model FgaVerif.Model.WGraph

/-! ### the semantics -/
mutual
  /-- `HasT g v T`: terminal type `T` reaches node `v` -/
  inductive HasT (g : G) : String → String → Prop
    | rel {v T : String} (e : WEdge) : isMaxNode g v = true → e ∈ edgesOf g v → EdgeHasT g e T → HasT g v T
    | inter {v T : String} : isMaxNode g v = false → nodeLabel g v = "intersection" → edgesOf g v ≠ [] →
        (∀ e ∈ edgesOf g v, EdgeHasT g e T) → HasT g v T
    | excl {v T : String} (e : WEdge) : isMaxNode g v = false → nodeLabel g v = "exclusion" →
        e ∈ (edgesOf g v).dropLast → EdgeHasT g e T → HasT g v T
  /-- `EdgeHasT g e T`: the edge `e` carries `T` -/
  inductive EdgeHasT (g : G) : WEdge → String → Prop
    | term {e : WEdge} {T : String} : isTerminal (nodeType g e.dst) = true → termKey g e.dst = T → EdgeHasT g e T
    | step {e : WEdge} {T : String} : isTerminal (nodeType g e.dst) = false → HasT g e.dst T → EdgeHasT g e T
end

/-- a walk inside the semantics, with its number of tuple hops (the convention of `ReachN`) -/
inductive WalkT (g : G) : String → String → Nat → Prop
  | last {v : String} (e : WEdge) : HasT g v (termKey g e.dst) → e ∈ edgesOf g v →
      isTerminal (nodeType g e.dst) = true → WalkT g v (termKey g e.dst) 1
  | step {v T : String} {k : Nat} (e : WEdge) : HasT g v T → e ∈ edgesOf g v →
      isTerminal (nodeType g e.dst) = false → WalkT g e.dst T k → WalkT g v T (k + (if isHop e then 1 else 0))

theorem WalkT.hasT {g : G} {v T : String} {k : Nat} (h : WalkT g v T k) : HasT g v T := by
  cases h with
  | last e h _ _ => exact h
  | step e h _ _ _ => exact h

theorem WalkT.reachN {g : G} {v T : String} {k : Nat} (h : WalkT g v T k) : ReachN g v T k := by
  induction h with
  | last e _ he ht => exact ReachN.term e he ht
  | step e _ he ht _ ih => exact ReachN.step e he ht ih

theorem WalkT.pos {g : G} {v T : String} {k : Nat} (h : WalkT g v T k) : 1 ≤ k := by
  induction h with
  | last e _ he ht => exact Nat.le_refl 1
  | step e _ he ht _ ih => omega

/-- a type that reaches a node does so along a walk -/
theorem hasT_walk {g : G} {v T : String} (h : HasT g v T) : ∃ k, WalkT g v T k := by
  refine HasT.rec (g := g)
    (motive_1 := fun v T _ => ∃ k, WalkT g v T k)
    (motive_2 := fun e T _ => ∀ v, e ∈ edgesOf g v → HasT g v T → ∃ k, WalkT g v T k)
    ?_ ?_ ?_ ?_ ?_ h
  · intro v T e hm he hE ih
    exact ih v he (HasT.rel e hm he hE)
  · intro v T hm hl hne hall ih
    cases hes : edgesOf g v with
    | nil => exact absurd hes hne
    | cons e0 rest =>
      have h0 : e0 ∈ edgesOf g v := by rw [hes]; exact List.mem_cons_self ..
      exact ih e0 h0 v h0 (HasT.inter hm hl hne hall)
  · intro v T e hm hl he hE ih
    exact ih v (List.dropLast_subset _ he) (HasT.excl e hm hl he hE)
  · intro e T ht hk v he hh
    subst hk
    exact ⟨1, WalkT.last e hh he ht⟩
  · intro e T ht hH ih v he hh
    obtain ⟨k, hk⟩ := ih
    exact ⟨_, WalkT.step e hh he ht hk⟩

/-! ### lists -/
theorem mem_dropLast_iff {α : Type} (l : List α) (x : α) :
    x ∈ l.dropLast ↔ ∃ i, i + 1 < l.length ∧ l[i]? = some x := by
  rw [List.mem_iff_getElem?]
  constructor
  · rintro ⟨i, hi⟩
    rw [List.getElem?_dropLast] at hi
    split at hi
    · exact ⟨i, by omega, hi⟩
    · cases hi
  · rintro ⟨i, hlt, hi⟩
    exact ⟨i, by rw [List.getElem?_dropLast, if_pos (by omega)]; exact hi⟩

theorem edgeMaps_getElem? (g : G) (v : String) (st : AState) (i : Nat) :
    (edgeMaps g v st)[i]? = if i < (edgesOf g v).length then some (aget (v, i) st.edgeW) else none := by
  unfold edgeMaps edgeRefs
  rw [List.map_map, List.getElem?_map]
  by_cases h : i < (edgesOf g v).length
  · rw [List.getElem?_range h, if_pos h]; rfl
  · rw [if_neg h, List.getElem?_eq_none (by simpa using h)]; rfl

theorem edgeMaps_length (g : G) (v : String) (st : AState) : (edgeMaps g v st).length = (edgesOf g v).length := by
  unfold edgeMaps; rw [List.length_map, edgeRefs_length]

theorem idx_lt {α : Type} {l : List α} {i : Nat} {x : α} (h : l[i]? = some x) : i < l.length :=
  (List.getElem?_eq_some_iff.1 h).1

theorem mem_edgeMaps_idx {g : G} {v : String} {st : AState} {i : Nat} {e : WEdge} (he : (edgesOf g v)[i]? = some e) :
    aget (v, i) st.edgeW ∈ edgeMaps g v st :=
  List.mem_iff_getElem?.2 ⟨i, by rw [edgeMaps_getElem?, if_pos (idx_lt he)]⟩

theorem mem_edgeMaps {g : G} {v : String} {st : AState} {m : WMap} (h : m ∈ edgeMaps g v st) :
    ∃ i e, (edgesOf g v)[i]? = some e ∧ m = aget (v, i) st.edgeW := by
  obtain ⟨i, hi⟩ := List.mem_iff_getElem?.1 h
  rw [edgeMaps_getElem?] at hi
  split at hi
  · rename_i hlt
    refine ⟨i, (edgesOf g v)[i], List.getElem?_eq_getElem hlt, ?_⟩
    cases hi; rfl
  · cases hi

theorem mem_edgeMaps_dropLast {g : G} {v : String} {st : AState} {m : WMap} (h : m ∈ (edgeMaps g v st).dropLast) :
    ∃ i e, i + 1 < (edgesOf g v).length ∧ (edgesOf g v)[i]? = some e ∧ m = aget (v, i) st.edgeW := by
  obtain ⟨i, hlt, hi⟩ := (mem_dropLast_iff _ _).1 h
  rw [edgeMaps_length] at hlt
  rw [edgeMaps_getElem?, if_pos (by omega)] at hi
  refine ⟨i, (edgesOf g v)[i], hlt, List.getElem?_eq_getElem (by omega), ?_⟩
  cases hi; rfl

theorem mem_edgeMaps_dropLast_idx {g : G} {v : String} {st : AState} {i : Nat} (h : i + 1 < (edgesOf g v).length) :
    aget (v, i) st.edgeW ∈ (edgeMaps g v st).dropLast :=
  (mem_dropLast_iff _ _).2 ⟨i, by rw [edgeMaps_length]; exact h, by rw [edgeMaps_getElem?, if_pos (by omega)]⟩

/-! ### the strategies, declaratively -/
/-- a key the strategy keeps has the value of the maximum over all edges -/
theorem stratL_some_unionL {g : G} {v : String} {ms : List WMap} {T : String} {x : Nat} (h : stratL g v ms T = some x) :
    unionL ms T = some x := by
  unfold stratL at h
  split at h
  · exact h
  · split at h
    · rw [interL_spec] at h
      split at h
      · exact h
      · cases h
    · split at h
      · rw [mixedL_spec] at h
        split at h
        · exact h
        · cases h
      · cases h

theorem isSome_of_any {ms : List WMap} {T : String} {m : WMap} (hm : m ∈ ms) (h : (wget T m).isSome = true) :
    ∃ x, unionL ms T = some x := by
  apply Option.isSome_iff_exists.1
  rw [unionL_isSome]
  exact List.any_eq_true.2 ⟨m, hm, h⟩

/-! ### what a successful run establishes -/
/-- the post-conditions of the earlier passes, in the form used here -/
structure Final (g : G) (st : AState) : Prop where
  vis : ∀ u, isTerminal (nodeType g u) = false → u ∈ st.visited
  nonterm : ∀ v ∈ st.visited, isTerminal (nodeType g v) = false
  edgeT : ∀ v ∈ st.visited, ∀ (i : Nat) (e : WEdge), (edgesOf g v)[i]? = some e →
    isTerminal (nodeType g e.dst) = true → aget (v, i) st.edgeW = [(termKey g e.dst, 1)]
  edgeN : ∀ v ∈ st.visited, ∀ (i : Nat) (e : WEdge), (edgesOf g v)[i]? = some e →
    isTerminal (nodeType g e.dst) = false →
    ∀ T, wget T (aget (v, i) st.edgeW) = (wget T (aget e.dst st.nodeW)).map (bumpE e)
  node : ∀ v ∈ st.visited, NodeOK g st v
  le : ∀ (v T : String) (w : Nat), wget T (aget v st.nodeW) = some w → w ≤ infinite
  topo : ∃ l, Topo g l ∧ ∀ u, isTerminal (nodeType g u) = false → u ∈ l

/-- a node that is not terminal is a node of the graph (a label that is not in the graph counts as a specific
    type): no closedness hypothesis on the edges is needed -/
theorem nonterminal_in_graph (g : G) (u : String) (h : isTerminal (nodeType g u) = false) :
    ∃ nd ∈ g.nodes, nd.uniqueLabel = u := by
  unfold nodeType at h
  cases hh : g.node? u with
  | none => rw [hh] at h; exact absurd h (by decide)
  | some x =>
    unfold G.node? at hh
    exact ⟨x, List.mem_of_find?_eq_some hh, by simpa using List.find?_some hh⟩

theorem final_of_success (g : G) (hn : NoPHTypes g) (order : List String) (st : AState)
    (h : assignWeights g order = .ok st) : Final g st := by
  have hvis := assignWeights_visited g order st h
  have hedge := assignWeights_edge_rule g hn order st h
  have hidx : ∀ v (i : Nat) (e : WEdge), (edgesOf g v)[i]? = some e → (v, i) ∈ edgeRefs g v ∧ edgeAt g (v, i) = some e := by
    intro v i e he
    refine ⟨?_, he⟩
    unfold edgeRefs
    exact List.mem_map.2 ⟨i, List.mem_range.2 (idx_lt he), rfl⟩
  refine ⟨?_, hvis.2.2, ?_, ?_, assignWeights_node_rule g hn order st h, ?_, ?_⟩
  · intro u hu
    obtain ⟨nd, hnd, rfl⟩ := nonterminal_in_graph g u hu
    exact hvis.1 nd hnd hu
  · intro v hv i e he ht
    exact (hedge.1 v hv (v, i) (hidx v i e he).1 e (hidx v i e he).2).1 ht
  · intro v hv i e he ht
    exact (hedge.1 v hv (v, i) (hidx v i e he).1 e (hidx v i e he).2).2 ht
  · intro v T w hw
    exact ((assignWeights_witnessed g hn order st h).1 v T w hw).1
  · have hpre : hasRewriteOnlyCycle g = false := by
      cases hb : hasRewriteOnlyCycle g with
      | false => rfl
      | true => unfold assignWeights at h; simp [hb] at h
    rw [hasRewriteOnlyCycle_eq] at hpre
    obtain ⟨r1, _, r3⟩ := ofold_spec g g.nodes (false, []) rfl trivial hpre
    refine ⟨_, r1, ?_⟩
    intro u hu
    obtain ⟨nd, hnd, rfl⟩ := nonterminal_in_graph g u hu
    exact r3 nd hnd

/-! ### 2. completeness of the keys -/
section final
variable {g : G} {st : AState} (hF : Final g st)
include hF

/-- the value of a node dominates the value of each of its edges, for a key the node has -/
theorem node_ge_edge {v T : String} (hv : v ∈ st.visited) {w : Nat} (hw : wget T (aget v st.nodeW) = some w)
    {i : Nat} {e : WEdge} (he : (edgesOf g v)[i]? = some e) {y : Nat} (hy : wget T (aget (v, i) st.edgeW) = some y) :
    y ≤ w := by
  have h1 := hF.node v hv T
  rw [hw] at h1
  exact unionL_upper _ T w (stratL_some_unionL h1.symm) _ (mem_edgeMaps_idx he) y hy

theorem keys_complete_aux :
    (∀ v T, HasT g v T → v ∈ st.visited → (wget T (aget v st.nodeW)).isSome = true) := by
  intro v T h
  refine HasT.rec (g := g)
    (motive_1 := fun v T _ => v ∈ st.visited → (wget T (aget v st.nodeW)).isSome = true)
    (motive_2 := fun e T _ => ∀ v i, v ∈ st.visited → (edgesOf g v)[i]? = some e →
      (wget T (aget (v, i) st.edgeW)).isSome = true)
    ?_ ?_ ?_ ?_ ?_ h
  · intro v T e hm he _ ih hv
    obtain ⟨i, hi⟩ := List.mem_iff_getElem?.1 he
    have hk := ih v i hv hi
    rw [hF.node v hv T]
    unfold stratL; rw [if_pos hm, unionL_isSome]
    exact List.any_eq_true.2 ⟨_, mem_edgeMaps_idx hi, hk⟩
  · intro v T hm hl hne _ ih hv
    rw [hF.node v hv T]
    unfold stratL
    rw [hm, if_neg (by simp), if_pos (by rw [hl]; rfl), interL_spec]
    have hall : (edgeMaps g v st).all (fun m => (wget T m).isSome) = true := by
      rw [List.all_eq_true]
      intro m hm'
      obtain ⟨i, e, he, rfl⟩ := mem_edgeMaps hm'
      exact ih e (List.mem_of_getElem? he) v i hv he
    rw [if_pos hall, unionL_isSome]
    cases hes : edgesOf g v with
    | nil => exact absurd hes hne
    | cons e0 rest =>
      have h0 : (edgesOf g v)[0]? = some e0 := by rw [hes]; rfl
      exact List.any_eq_true.2 ⟨_, mem_edgeMaps_idx h0, ih e0 (List.mem_of_getElem? h0) v 0 hv h0⟩
  · intro v T e hm hl he _ ih hv
    obtain ⟨i, hlt, hi⟩ := (mem_dropLast_iff _ _).1 he
    have hk := ih v i hv hi
    rw [hF.node v hv T]
    unfold stratL
    rw [hm, if_neg (by simp), if_neg (by rw [hl]; decide), if_pos (by rw [hl]; rfl), mixedL_spec]
    have hany : (edgeMaps g v st).dropLast.any (fun m => (wget T m).isSome) = true :=
      List.any_eq_true.2 ⟨_, mem_edgeMaps_dropLast_idx hlt, hk⟩
    rw [if_pos hany, unionL_isSome]
    exact List.any_eq_true.2 ⟨_, mem_edgeMaps_idx hi, hk⟩
  · intro e T ht hk v i hv he
    rw [hF.edgeT v hv i e he ht, hk]
    simp [wget]
  · intro e T ht _ ih v i hv he
    rw [hF.edgeN v hv i e he ht T]
    have := ih (hF.vis _ ht)
    obtain ⟨x, hx⟩ := Option.isSome_iff_exists.1 this
    rw [hx]; rfl

/-- **completeness of the keys**: a visited node carries a weight for every type that reaches it -/
theorem keys_complete {v T : String} (hv : v ∈ st.visited) (h : HasT g v T) :
    (wget T (aget v st.nodeW)).isSome = true := keys_complete_aux hF v T h hv

/-! ### 3. maximality -/
/-- **the weight dominates the hop count of every walk** (saturating at `Infinite`) -/
theorem weight_dominates_walks {v T : String} {k : Nat} (hw : WalkT g v T k) (hv : v ∈ st.visited) :
    ∃ w, wget T (aget v st.nodeW) = some w ∧ min k infinite ≤ w := by
  induction hw with
  | @last v e hh he ht =>
    obtain ⟨w, hw⟩ := Option.isSome_iff_exists.1 (keys_complete hF hv hh)
    obtain ⟨i, hi⟩ := List.mem_iff_getElem?.1 he
    have hy : wget (termKey g e.dst) (aget (v, i) st.edgeW) = some 1 := by
      rw [hF.edgeT _ hv i e hi ht]; exact wget_single_self _ _
    have := node_ge_edge hF hv hw hi hy
    exact ⟨w, hw, Nat.le_trans (Nat.min_le_left _ _) this⟩
  | @step v T k e hh he ht _ ih =>
    obtain ⟨w, hw⟩ := Option.isSome_iff_exists.1 (keys_complete hF hv hh)
    obtain ⟨i, hi⟩ := List.mem_iff_getElem?.1 he
    obtain ⟨w', hw', hle⟩ := ih (hF.vis _ ht)
    have hy : wget T (aget (v, i) st.edgeW) = some (bumpE e w') := by
      rw [hF.edgeN v hv i e hi ht T, hw']; rfl
    have hge := node_ge_edge hF hv hw hi hy
    refine ⟨w, hw, Nat.le_trans ?_ hge⟩
    by_cases hinf : w' = infinite
    · rw [hinf, bumpE_inf]; exact Nat.min_le_right _ _
    · rw [bumpE_eq e w' hinf]
      have : k ≤ w' ∨ infinite ≤ w' := by
        rcases Nat.le_total k infinite with h1 | h1
        · left; rwa [Nat.min_eq_left h1] at hle
        · right; rwa [Nat.min_eq_right h1] at hle
      rcases this with h1 | h1
      · exact Nat.le_trans (Nat.min_le_left _ _) (by omega)
      · exact Nat.le_trans (Nat.min_le_right _ _) (by omega)

/-! ### finite weights are sound and attained (inside the semantics) -/
omit hF in
theorem nonhop_rstep {v : String} {e : WEdge} (he : e ∈ edgesOf g v) (hh : isHop e = false) : RStep g v e.dst := by
  unfold RStep rewriteSuccs
  refine List.mem_map.2 ⟨e, List.mem_filter.2 ⟨he, ?_⟩, rfl⟩
  unfold isHop at hh
  cases het : e.etype <;> rw [het] at hh <;> first | rfl | exact absurd hh (by decide)

/-- one edge: a finite value of the edge is justified once the value of its target is -/
theorem edge_sound {v T : String} (hv : v ∈ st.visited) {i : Nat} {e : WEdge} (he : (edgesOf g v)[i]? = some e)
    {y : Nat} (hy : wget T (aget (v, i) st.edgeW) = some y) (hlt : y < infinite)
    (hrec : isTerminal (nodeType g e.dst) = false → ∀ x, wget T (aget e.dst st.nodeW) = some x →
      x + (if isHop e then 1 else 0) = y → HasT g e.dst T ∧ WalkT g e.dst T x) :
    EdgeHasT g e T ∧ (HasT g v T → WalkT g v T y) := by
  cases ht : isTerminal (nodeType g e.dst) with
  | true =>
    rw [hF.edgeT v hv i e he ht] at hy
    obtain ⟨rfl, rfl⟩ := wget_single hy
    exact ⟨EdgeHasT.term ht rfl, fun hh => WalkT.last e hh (List.mem_of_getElem? he) ht⟩
  | false =>
    rw [hF.edgeN v hv i e he ht T] at hy
    cases hx : wget T (aget e.dst st.nodeW) with
    | none => rw [hx] at hy; cases hy
    | some x =>
      rw [hx] at hy
      have hb : bumpE e x = y := by simpa using hy
      have hxne : x ≠ infinite := by
        intro e1; rw [e1, bumpE_inf] at hb; omega
      rw [bumpE_eq e x hxne] at hb
      obtain ⟨h1, h2⟩ := hrec ht x hx hb
      refine ⟨EdgeHasT.step ht h1, fun hh => ?_⟩
      rw [← hb]
      exact WalkT.step e hh (List.mem_of_getElem? he) ht h2

theorem finite_sound_aux (w : Nat) (hwlt : w < infinite)
    (IH : ∀ y, y < w → ∀ v T, v ∈ st.visited → wget T (aget v st.nodeW) = some y → HasT g v T ∧ WalkT g v T y) :
    ∀ l, Topo g l → ∀ v ∈ l, ∀ T, v ∈ st.visited → wget T (aget v st.nodeW) = some w →
      HasT g v T ∧ WalkT g v T w := by
  intro l
  induction l with
  | nil => intro _ v hv; cases hv
  | cons a post ih =>
    intro htopo v hvl T hv hw
    rcases List.mem_cons.1 hvl with rfl | hvp
    · -- the recursion hypothesis for every edge of `v` whose value is at most `w`
      have hrec : ∀ (i : Nat) (e : WEdge) (y : Nat), (edgesOf g v)[i]? = some e → y ≤ w →
          isTerminal (nodeType g e.dst) = false → ∀ x, wget T (aget e.dst st.nodeW) = some x →
          x + (if isHop e then 1 else 0) = y → HasT g e.dst T ∧ WalkT g e.dst T x := by
        intro i e y he hyw ht x hx hb
        cases hh : isHop e with
        | true =>
          rw [hh] at hb
          exact IH x (by simp at hb; omega) _ _ (hF.vis _ ht) hx
        | false =>
          rw [hh] at hb
          have hxy : x = y := by simpa using hb
          rcases Nat.lt_or_ge x w with h1 | h1
          · exact IH x h1 _ _ (hF.vis _ ht) hx
          · have hxw : x = w := by omega
            subst hxw
            exact ih htopo.2 _ (htopo.1 _ (nonhop_rstep (List.mem_of_getElem? he) hh)) T (hF.vis _ ht) hx
      have hedge : ∀ (i : Nat) (e : WEdge) (y : Nat), (edgesOf g v)[i]? = some e →
          wget T (aget (v, i) st.edgeW) = some y → y ≤ w → EdgeHasT g e T ∧ (HasT g v T → WalkT g v T y) :=
        fun i e y he hy hyw => edge_sound hF hv he hy (by omega) (hrec i e y he hyw)
      have hnode := hF.node v hv T
      rw [hw] at hnode
      have hU := stratL_some_unionL hnode.symm
      obtain ⟨m, hm, hmw⟩ := unionL_attained _ T w hU
      obtain ⟨i, e, he, rfl⟩ := mem_edgeMaps hm
      obtain ⟨hE, hW⟩ := hedge i e w he hmw (Nat.le_refl _)
      have hle : ∀ (i' : Nat) (e' : WEdge) (y : Nat), (edgesOf g v)[i']? = some e' →
          wget T (aget (v, i') st.edgeW) = some y → y ≤ w :=
        fun i' e' y he' hy => unionL_upper _ T w hU _ (mem_edgeMaps_idx he') y hy
      have hH : HasT g v T := by
        cases hmax : isMaxNode g v with
        | true => exact HasT.rel e hmax (List.mem_of_getElem? he) hE
        | false =>
          have hn2 := hnode.symm
          unfold stratL at hn2
          rw [hmax, if_neg (by simp)] at hn2
          by_cases hl : nodeLabel g v = "intersection"
          · rw [if_pos (by rw [hl]; rfl), interL_spec] at hn2
            split at hn2
            · rename_i hall
              rw [List.all_eq_true] at hall
              refine HasT.inter hmax hl (fun h0 => ?_) ?_
              · rw [h0] at he; cases he
              · intro e' he'
                obtain ⟨i', hi'⟩ := List.mem_iff_getElem?.1 he'
                obtain ⟨y, hy⟩ := Option.isSome_iff_exists.1 (hall _ (mem_edgeMaps_idx (st := st) hi'))
                exact (hedge i' e' y hi' hy (hle i' e' y hi' hy)).1
            · cases hn2
          · rw [if_neg (by simpa using hl)] at hn2
            by_cases hl2 : nodeLabel g v = "exclusion"
            · rw [if_pos (by rw [hl2]; rfl), mixedL_spec] at hn2
              split at hn2
              · rename_i hany
                obtain ⟨m', hm', hs⟩ := List.any_eq_true.1 hany
                obtain ⟨i', e', hlt', hi', rfl⟩ := mem_edgeMaps_dropLast hm'
                obtain ⟨y, hy⟩ := Option.isSome_iff_exists.1 hs
                exact HasT.excl e' hmax hl2 ((mem_dropLast_iff _ _).2 ⟨i', hlt', hi'⟩)
                  (hedge i' e' y hi' hy (hle i' e' y hi' hy)).1
              · cases hn2
            · rw [if_neg (by simpa using hl2)] at hn2
              cases hn2
      exact ⟨hH, hW hH⟩
    · exact ih htopo.2 v hvp T hv hw

/-- **a finite weight is sound and attained**: the type reaches the node, and some walk (inside the semantics)
    has exactly that many hops -/
theorem finite_sound : ∀ (w : Nat), w < infinite → ∀ v T, v ∈ st.visited → wget T (aget v st.nodeW) = some w →
    HasT g v T ∧ WalkT g v T w := by
  intro w
  induction w using Nat.strongRecOn with
  | _ w IH =>
    intro hwlt v T hv hw
    obtain ⟨l, htopo, hall⟩ := hF.topo
    exact finite_sound_aux hF w hwlt (fun y hy => IH y hy (by omega)) l htopo v (hall v (hF.nonterm v hv)) T hv hw

/-- **a finite weight is the largest number of hops of a walk** -/
theorem finite_weight_is_max {v T : String} (hv : v ∈ st.visited) {w : Nat} (hw : wget T (aget v st.nodeW) = some w)
    (hlt : w < infinite) : HasT g v T ∧ WalkT g v T w ∧ ∀ k, WalkT g v T k → k ≤ w := by
  obtain ⟨h1, h2⟩ := finite_sound hF w hlt v T hv hw
  refine ⟨h1, h2, fun k hk => ?_⟩
  obtain ⟨w', hw', hle⟩ := weight_dominates_walks hF hk hv
  rw [hw] at hw'; cases hw'
  rcases Nat.le_total k infinite with h | h
  · rwa [Nat.min_eq_left h] at hle
  · rw [Nat.min_eq_right h] at hle; omega

/-- a walk with at least `Infinite` hops forces the weight `Infinite` -/
theorem long_walk_gives_infinite {v T : String} (hv : v ∈ st.visited) {k : Nat} (hk : infinite ≤ k)
    (hwalk : WalkT g v T k) : wget T (aget v st.nodeW) = some infinite := by
  obtain ⟨w, hw, hle⟩ := weight_dominates_walks hF hwalk hv
  rw [Nat.min_eq_right hk] at hle
  have := hF.le v T w hw
  rw [hw]; congr 1; omega

/-- **unbounded walks force the weight `Infinite`** -/
theorem unbounded_walks_give_infinite {v T : String} (hv : v ∈ st.visited)
    (h : ∀ n, ∃ k, n ≤ k ∧ WalkT g v T k) : wget T (aget v st.nodeW) = some infinite := by
  obtain ⟨k, hk, hwalk⟩ := h infinite
  exact long_walk_gives_infinite hF hv hk hwalk

/-! ### `Infinite` only if unbounded, given that the keys with weight `Infinite` are sound -/
/-- soundness of the keys that carry `Infinite` (the finite ones are sound by `finite_sound`) -/
def InfKeysSound (g : G) (st : AState) : Prop :=
  ∀ v ∈ st.visited, ∀ T, wget T (aget v st.nodeW) = some infinite → HasT g v T

theorem key_sound (hS : InfKeysSound g st) {v T : String} (hv : v ∈ st.visited)
    (hk : (wget T (aget v st.nodeW)).isSome = true) : HasT g v T := by
  obtain ⟨w, hw⟩ := Option.isSome_iff_exists.1 hk
  rcases Nat.lt_or_ge w infinite with h1 | h1
  · exact (finite_sound hF w h1 v T hv hw).1
  · have : w = infinite := Nat.le_antisymm (hF.le v T w hw) h1
    subst this
    exact hS v hv T hw

theorem infinite_unbounded_aux (hS : InfKeysSound g st) (T : String) (n : Nat)
    (IH : ∀ v, v ∈ st.visited → wget T (aget v st.nodeW) = some infinite →
      (∃ k, n ≤ k ∧ WalkT g v T k) ∨ ∃ k, infinite ≤ k ∧ WalkT g v T k) :
    ∀ l, Topo g l → ∀ v ∈ l, v ∈ st.visited → wget T (aget v st.nodeW) = some infinite →
      (∃ k, n + 1 ≤ k ∧ WalkT g v T k) ∨ ∃ k, infinite ≤ k ∧ WalkT g v T k := by
  intro l
  induction l with
  | nil => intro _ v hv; cases hv
  | cons a post ih =>
    intro htopo v hvl hv hw
    rcases List.mem_cons.1 hvl with rfl | hvp
    · have hH := hS v hv T hw
      have hnode := hF.node v hv T
      rw [hw] at hnode
      obtain ⟨m, hm, hmw⟩ := unionL_attained _ T infinite (stratL_some_unionL hnode.symm)
      obtain ⟨i, e, he, rfl⟩ := mem_edgeMaps hm
      have hmem := List.mem_of_getElem? he
      cases ht : isTerminal (nodeType g e.dst) with
      | true =>
        rw [hF.edgeT v hv i e he ht] at hmw
        exact absurd (wget_single hmw).2 (by decide)
      | false =>
        rw [hF.edgeN v hv i e he ht T] at hmw
        cases hx : wget T (aget e.dst st.nodeW) with
        | none => rw [hx] at hmw; cases hmw
        | some x =>
          rw [hx] at hmw
          have hb : bumpE e x = infinite := by simpa using hmw
          have hu := hF.vis _ ht
          by_cases hxi : x = infinite
          · subst hxi
            cases hh : isHop e with
            | true =>
              rcases IH _ hu hx with ⟨k, hk, hwk⟩ | ⟨k, hk, hwk⟩
              · exact Or.inl ⟨_, by rw [hh]; simp; omega, WalkT.step e hH hmem ht hwk⟩
              · exact Or.inr ⟨_, by omega, WalkT.step e hH hmem ht hwk⟩
            | false =>
              rcases ih htopo.2 _ (htopo.1 _ (nonhop_rstep hmem hh)) hu hx with ⟨k, hk, hwk⟩ | ⟨k, hk, hwk⟩
              · exact Or.inl ⟨_, by omega, WalkT.step e hH hmem ht hwk⟩
              · exact Or.inr ⟨_, by omega, WalkT.step e hH hmem ht hwk⟩
          · rw [bumpE_eq e x hxi] at hb
            have hxlt : x < infinite := Nat.lt_of_le_of_ne (hF.le _ T x hx) hxi
            have hwk := (finite_sound hF x hxlt _ T hu hx).2
            exact Or.inr ⟨_, Nat.le_of_eq hb.symm, WalkT.step e hH hmem ht hwk⟩
    · exact ih htopo.2 v hvp hv hw

/-- **`Infinite` only if the walks are unbounded** (or one of them has at least `Infinite` hops: the saturation of
    the hop count, which needs a graph with that many edges) -/
theorem infinite_unbounded (hS : InfKeysSound g st) (T : String) : ∀ (n : Nat) (v : String), v ∈ st.visited →
    wget T (aget v st.nodeW) = some infinite →
    (∃ k, n ≤ k ∧ WalkT g v T k) ∨ ∃ k, infinite ≤ k ∧ WalkT g v T k
  | 0, v, hv, hw => by
    obtain ⟨k, hk⟩ := hasT_walk (hS v hv T hw)
    exact Or.inl ⟨k, Nat.zero_le _, hk⟩
  | n + 1, v, hv, hw => by
    obtain ⟨l, htopo, hall⟩ := hF.topo
    exact infinite_unbounded_aux hF hS T n (fun u hu hwu => infinite_unbounded hS T n u hu hwu) l htopo v
      (hall v (hF.nonterm v hv)) hv hw

end final

/-! ### pigeonhole: a walk with more hops than the graph has nodes can be pumped -/
/-- a path inside the semantics from `a` to `b` (possibly empty) with `j` hops -/
inductive PathT (g : G) (T : String) : String → String → Nat → Prop
  | nil (a : String) : PathT g T a a 0
  | cons {v b : String} {j : Nat} (e : WEdge) : HasT g v T → e ∈ edgesOf g v →
      isTerminal (nodeType g e.dst) = false → PathT g T e.dst b j → PathT g T v b (j + (if isHop e then 1 else 0))

theorem PathT.cast {g : G} {T a b : String} {k k' : Nat} (h : PathT g T a b k) (e : k = k') : PathT g T a b k' := e ▸ h
theorem WalkT.cast {g : G} {T v : String} {k k' : Nat} (h : WalkT g v T k) (e : k = k') : WalkT g v T k' := e ▸ h

theorem PathT.snoc {g : G} {T a v : String} {j : Nat} (hp : PathT g T a v j) (e : WEdge) (hh : HasT g v T)
    (he : e ∈ edgesOf g v) (ht : isTerminal (nodeType g e.dst) = false) :
    PathT g T a e.dst (j + (if isHop e then 1 else 0)) := by
  induction hp with
  | nil a => exact (PathT.cons e hh he ht (PathT.nil _)).cast (by omega)
  | cons e' hh' he' ht' _ ih => exact (PathT.cons e' hh' he' ht' (ih hh he)).cast (by omega)

theorem PathT.trans {g : G} {T a b c : String} {i j : Nat} (h1 : PathT g T a b i) (h2 : PathT g T b c j) :
    PathT g T a c (i + j) := by
  induction h1 with
  | nil a => exact h2.cast (by omega)
  | cons e hh he ht _ ih => exact (PathT.cons e hh he ht (ih h2)).cast (by omega)

theorem PathT.walk {g : G} {T a b : String} {i k : Nat} (h1 : PathT g T a b i) (h2 : WalkT g b T k) :
    WalkT g a T (k + i) := by
  induction h1 with
  | nil a => exact h2
  | cons e hh he ht _ ih => exact (WalkT.step e hh he ht (ih h2)).cast (by omega)

/-- a cycle with at least one hop lies on a walk from `v` to `T` -/
def Pumpable (g : G) (T v : String) : Prop :=
  ∃ x a c b, PathT g T v x a ∧ PathT g T x x c ∧ 1 ≤ c ∧ WalkT g x T b

theorem PathT.pump {g : G} {T x : String} {c : Nat} (h : PathT g T x x c) : ∀ n, PathT g T x x (n * c)
  | 0 => (PathT.nil x).cast (by omega)
  | n + 1 => ((PathT.pump h n).trans h).cast (by rw [Nat.succ_mul])

theorem Pumpable.unbounded {g : G} {T v : String} (h : Pumpable g T v) : ∀ n, ∃ k, n ≤ k ∧ WalkT g v T k := by
  obtain ⟨x, a, c, b, hp, hc, h1, hw⟩ := h
  intro n
  refine ⟨_, ?_, hp.walk ((hc.pump n).walk hw)⟩
  have : n * 1 ≤ n * c := Nat.mul_le_mul_left n h1
  omega

theorem walk_pump_or_short (g : G) (T : String) : ∀ {m : String} {k : Nat}, WalkT g m T k →
    isTerminal (nodeType g m) = false →
    ∀ (seen : List String), seen.Nodup → (∀ s ∈ seen, s ∈ labels g) →
      (∀ s ∈ seen, ∃ c, 1 ≤ c ∧ PathT g T s m c) →
      Pumpable g T m ∨ k + seen.length ≤ g.nodes.length := by
  intro m k hw
  induction hw with
  | @last n e hh he ht =>
    intro hnt seen hnd hsub hpaths
    by_cases hin : n ∈ seen
    · obtain ⟨c, hc1, hc⟩ := hpaths n hin
      exact Or.inl ⟨n, 0, c, 1, .nil n, hc, hc1, .last e hh he ht⟩
    · right
      have hnd' : (n :: seen).Nodup := List.nodup_cons.2 ⟨hin, hnd⟩
      have hsub' : (n :: seen) ⊆ labels g := by
        intro s hs
        rcases List.mem_cons.1 hs with rfl | hs
        · obtain ⟨nd, hnd, rfl⟩ := nonterminal_in_graph g _ hnt
          exact List.mem_map.2 ⟨nd, hnd, rfl⟩
        · exact hsub s hs
      have := List.Nodup.length_le_of_subset hnd' hsub'
      unfold labels at this
      simp only [List.length_cons, List.length_map] at this
      omega
  | @step n T' k e hh he ht hw ih =>
    intro hnt seen hnd hsub hpaths
    cases hhop : isHop e with
    | false =>
      have hpaths' : ∀ s ∈ seen, ∃ c, 1 ≤ c ∧ PathT g T' s e.dst c := by
        intro s hs
        obtain ⟨c, hc1, hc⟩ := hpaths s hs
        have := hc.snoc e hh he ht
        rw [hhop] at this
        exact ⟨c, hc1, by simpa using this⟩
      rcases ih ht seen hnd hsub hpaths' with hp | hle
      · left
        obtain ⟨x, a, c, b, hpx, hcx, h1, hwx⟩ := hp
        exact ⟨x, _, c, b, PathT.cons e hh he ht hpx, hcx, h1, hwx⟩
      · right; simpa using hle
    | true =>
      by_cases hin : n ∈ seen
      · obtain ⟨c, hc1, hc⟩ := hpaths n hin
        left
        have hwn := WalkT.step e hh he ht hw
        rw [hhop] at hwn
        exact ⟨n, 0, c, _, .nil n, hc, hc1, hwn⟩
      · have hnd' : (n :: seen).Nodup := List.nodup_cons.2 ⟨hin, hnd⟩
        have hsub' : ∀ s ∈ n :: seen, s ∈ labels g := by
          intro s hs
          rcases List.mem_cons.1 hs with rfl | hs
          · obtain ⟨nd, hnd, rfl⟩ := nonterminal_in_graph g _ hnt
            exact List.mem_map.2 ⟨nd, hnd, rfl⟩
          · exact hsub s hs
        have hpaths' : ∀ s ∈ n :: seen, ∃ c, 1 ≤ c ∧ PathT g T' s e.dst c := by
          intro s hs
          rcases List.mem_cons.1 hs with rfl | hs
          · have := (PathT.nil (g := g) (T := T') s).snoc e hh he ht
            rw [hhop] at this
            exact ⟨1, Nat.le_refl _, by simpa using this⟩
          · obtain ⟨c, hc1, hc⟩ := hpaths s hs
            have := hc.snoc e hh he ht
            rw [hhop] at this
            exact ⟨c + 1, by omega, by simpa using this⟩
        rcases ih ht (n :: seen) hnd' hsub' hpaths' with hp | hle
        · left
          obtain ⟨x, a, c, b, hpx, hcx, h1, hwx⟩ := hp
          exact ⟨x, _, c, b, PathT.cons e hh he ht hpx, hcx, h1, hwx⟩
        · right
          simp only [List.length_cons, if_true] at hle ⊢
          omega

/-- **a walk with more hops than the graph has nodes can be pumped**: the walks are unbounded -/
theorem long_walk_unbounded (g : G) {v T : String} {k : Nat} (hw : WalkT g v T k)
    (hnt : isTerminal (nodeType g v) = false) (hk : g.nodes.length + 1 ≤ k) : ∀ n, ∃ k, n ≤ k ∧ WalkT g v T k := by
  rcases walk_pump_or_short g T hw hnt [] List.nodup_nil (fun _ h => by cases h) (fun _ h => by cases h) with hp | hle
  · exact hp.unbounded
  · simp at hle; omega

/-! ### cycles contain a hop: pumping -/
/-- `ConnN g a b j`: a path of at least one edge from `a` to the (non-terminal) node `b` with `j` tuple hops -/
inductive ConnN (g : G) : String → String → Nat → Prop
  | edge {v : String} (e : WEdge) : e ∈ edgesOf g v → isTerminal (nodeType g e.dst) = false →
      ConnN g v e.dst (if isHop e then 1 else 0)
  | step {v n : String} {j : Nat} (e : WEdge) : e ∈ edgesOf g v → isTerminal (nodeType g e.dst) = false →
      ConnN g e.dst n j → ConnN g v n (j + (if isHop e then 1 else 0))

theorem ReachN.cast {g : G} {v T : String} {k k' : Nat} (h : ReachN g v T k) (e : k = k') : ReachN g v T k' := e ▸ h
theorem ConnN.cast {g : G} {a b : String} {k k' : Nat} (h : ConnN g a b k) (e : k = k') : ConnN g a b k' := e ▸ h

theorem Conn.connN {g : G} {a b : String} (h : Conn g a b) : ∃ j, ConnN g a b j := by
  induction h with
  | edge e he ht => exact ⟨_, ConnN.edge e he ht⟩
  | step e he ht _ ih => obtain ⟨j, hj⟩ := ih; exact ⟨_, ConnN.step e he ht hj⟩

theorem ConnN.trans {g : G} {a b c : String} {i j : Nat} (h1 : ConnN g a b i) (h2 : ConnN g b c j) :
    ConnN g a c (i + j) := by
  induction h1 with
  | edge e he ht => exact (ConnN.step e he ht h2).cast (by omega)
  | step e he ht _ ih => exact (ConnN.step e he ht (ih h2)).cast (by omega)

theorem ConnN.reach {g : G} {a b T : String} {i k : Nat} (h1 : ConnN g a b i) (h2 : ReachN g b T k) :
    ReachN g a T (k + i) := by
  induction h1 with
  | edge e he ht => exact ReachN.step e he ht h2
  | step e he ht _ ih => exact (ReachN.step e he ht (ih h2)).cast (by omega)

theorem ConnN.nonterm {g : G} {a b : String} {i : Nat} (h : ConnN g a b i) : isTerminal (nodeType g b) = false := by
  induction h with
  | edge e he ht => exact ht
  | step e he ht _ ih => exact ih

/-- a path without a hop is a path of rewrite/computed edges -/
theorem ConnN.rpath {g : G} {a b : String} {i : Nat} (h : ConnN g a b i) (h0 : i = 0) : RPath g a b := by
  induction h with
  | edge e he ht =>
    cases hh : isHop e with
    | true => rw [hh] at h0; cases h0
    | false => exact RPath.one (nonhop_rstep he hh)
  | step e he ht _ ih =>
    cases hh : isHop e with
    | true => rw [hh] at h0; simp at h0
    | false =>
      rw [hh] at h0
      exact RPath.cons (nonhop_rstep he hh) (ih (by simpa using h0))

/-- going round a cycle `n` times -/
theorem ConnN.pump {g : G} {m : String} {j : Nat} (h : ConnN g m m j) : ∀ n, ConnN g m m (j + n * j)
  | 0 => h.cast (by omega)
  | n + 1 => (h.trans (ConnN.pump h n)).cast (by rw [Nat.succ_mul]; omega)

/-- **every cycle of an accepted graph contains a direct or TTU edge** (the pre-pass rejects the others), so the
    paths to a type that is reachable from a cycle have unboundedly many hops -/
theorem cycle_unbounded {g : G} {st : AState} (hF : Final g st) {v m T : String} (hvm : v = m ∨ Conn g v m)
    (hc : Conn g m m) {k0 : Nat} (hr : ReachN g m T k0) : ∀ n, ∃ k, n ≤ k ∧ ReachN g v T k := by
  obtain ⟨j, hj⟩ := hc.connN
  have hjpos : 1 ≤ j := by
    rcases Nat.eq_zero_or_pos j with h0 | h0
    · obtain ⟨l, htopo, hall⟩ := hF.topo
      exact absurd (hj.rpath h0) (topo_acyclic g l htopo m (hall m hj.nonterm))
    · exact h0
  intro n
  have h1 : ReachN g m T (k0 + (j + n * j)) := (hj.pump n).reach hr
  have hge : n ≤ k0 + (j + n * j) := by
    have : n * 1 ≤ n * j := Nat.mul_le_mul_left n hjpos
    omega
  rcases hvm with rfl | hvm
  · exact ⟨_, hge, h1⟩
  · obtain ⟨k', hk', hr'⟩ := conn_reach hvm h1
    exact ⟨k', Nat.le_trans hge hk', hr'⟩

/-! ### graphs without intersection and exclusion: the semantics is plain reachability -/
/-- every node takes the maximum over its edges (no intersection, no exclusion, no operator with another label) -/
def noOpsB (g : G) : Bool := g.nodes.all (fun n => isMaxNode g n.uniqueLabel)

theorem noOpsB_sound (g : G) (h : noOpsB g = true) (v : String) : isMaxNode g v = true := by
  unfold isMaxNode
  cases hh : g.node? v with
  | none => unfold nodeType; rw [hh]; rfl
  | some x =>
    have hx : x ∈ g.nodes := List.mem_of_find?_eq_some hh
    have hl : x.uniqueLabel = v := by simpa using List.find?_some hh
    have := List.all_eq_true.1 h x hx
    rw [hl] at this
    exact this

theorem reachN_walkT {g : G} (hmax : ∀ v, isMaxNode g v = true) {v T : String} {k : Nat} (h : ReachN g v T k) :
    WalkT g v T k := by
  induction h with
  | term e he ht => exact WalkT.last e (HasT.rel e (hmax _) he (EdgeHasT.term ht rfl)) he ht
  | step e he ht _ ih => exact WalkT.step e (HasT.rel e (hmax _) he (EdgeHasT.step ht ih.hasT)) he ht ih

/-! ### the sixth pass: soundness of the keys

    The fifth pass (`Proofs/WAssignNode.lean`) is generic in a predicate `K` on (source node, key, value) that is
    used both for the keys of an edge (relative to its source) and for those of a node, so it cannot say "every edge
    of this intersection carries `T`".  This is the same pass with two predicates: `KE` for the keys of an edge
    (by reference) and `KN` for the keys of a node, and a closure rule for the strategies (`KClosed2.node`).  The
    lemmas that do not mention `K` are those of the fifth pass. -/
structure KClosed2 (g : G) (KE : ERef → String → Nat → Prop) (KN : String → String → Nat → Prop) : Prop where
  term : ∀ r e, edgeAt g r = some e → isTerminal (nodeType g e.dst) = true → KE r (termKey g e.dst) 1
  ph : ∀ r e, edgeAt g r = some e → isTerminal (nodeType g e.dst) = false → KE r ("R#" ++ e.dst) infinite
  step : ∀ r e k x, edgeAt g r = some e → isTerminal (nodeType g e.dst) = false → KN e.dst k x → x ≤ infinite →
    KE r k (bumpE e x)
  node : ∀ v (E : ERef → WMap), (∀ r ∈ edgeRefs g v, ∀ k x, wget k (E r) = some x → KE r k x) →
    ∀ k x, stratL g v ((edgeRefs g v).map E) k = some x → KN v k x
  inf : ∀ n k x y r r0, r ∈ edgeRefs g n → r0 ∈ edgeRefs g n → isMaxNode g n = true → KE r k x →
    KE r0 ("R#" ++ n) y → KN n k infinite
  substE : ∀ r n k y, KE r ("R#" ++ n) y → KN n k infinite → KE r k infinite
  substN : ∀ v n k y, KN v ("R#" ++ n) y → KN n k infinite → KN v k infinite

structure Inv6 (g : G) (KE : ERef → String → Nat → Prop) (KN : String → String → Nat → Prop) (st : AState) : Prop where
  ok : ∀ v, aget v st.nodeW ≠ [] → NodeOK g st v
  noph : ∀ v, aget v st.nodeW ≠ [] → isMaxNode g v = false → ∀ r ∈ edgeRefs g v, ∀ k, isPH k = true →
    wget k (aget r st.edgeW) = none
  bE : ∀ (r : ERef) k x, wget k (aget r st.edgeW) = some x → x ≤ infinite
  bN : ∀ (N : String) k x, wget k (aget N st.nodeW) = some x → x ≤ infinite
  kE : ∀ (r : ERef) k x, wget k (aget r st.edgeW) = some x → KE r k x
  kN : ∀ (N : String) k x, wget k (aget N st.nodeW) = some x → KN N k x

theorem Inv6.of_core {g : G} {KE : ERef → String → Nat → Prop} {KN : String → String → Nat → Prop} {st st' : AState} (h : Inv6 g KE KN st)
    (hN : st'.nodeW = st.nodeW) (hE : st'.edgeW = st.edgeW) : Inv6 g KE KN st' := by
  refine ⟨?_, ?_, ?_, ?_, ?_, ?_⟩
  · intro v hv
    rw [hN] at hv
    exact (h.ok v hv).congr (by rw [hN]) (fun r _ => by rw [hE])
  · rw [hN, hE]; exact h.noph
  · rw [hE]; exact h.bE
  · rw [hN]; exact h.bN
  · rw [hE]; exact h.kE
  · rw [hN]; exact h.kN

/-- writing the weights of an edge of a node that has none yet -/
theorem write_edge_6 {g : G} {KE : ERef → String → Nat → Prop} {KN : String → String → Nat → Prop} (st st' : AState) (r : ERef) (w : WMap)
    (hI : Inv6 g KE KN st) (hN : st'.nodeW = st.nodeW) (hE : st'.edgeW = aset r w st.edgeW)
    (hnil : aget r.1 st.nodeW = []) (hw : ∀ k x, wget k w = some x → x ≤ infinite ∧ KE r k x) : Inv6 g KE KN st' := by
  have hself : aget r st'.edgeW = w := by rw [hE, aget_aset_self]
  have hne : ∀ r', r' ≠ r → aget r' st'.edgeW = aget r' st.edgeW := by
    intro r' h; rw [hE, aget_aset_ne _ _ _ h]
  have hother : ∀ v, aget v st.nodeW ≠ [] → ∀ r' ∈ edgeRefs g v, aget r' st'.edgeW = aget r' st.edgeW := by
    intro v hv r' hr'
    apply hne
    intro e
    apply hv
    rw [← mem_edgeRefs_fst hr', e]
    exact hnil
  refine ⟨?_, ?_, ?_, ?_, ?_, ?_⟩
  · intro v hv
    rw [hN] at hv
    exact (hI.ok v hv).congr (by rw [hN]) (hother v hv)
  · intro v hv hm r' hr' k hk
    rw [hN] at hv
    rw [hother v hv r' hr']
    exact hI.noph v hv hm r' hr' k hk
  · intro r' k x hx
    by_cases e : r' = r
    · subst e; rw [hself] at hx; exact (hw k x hx).1
    · rw [hne r' e] at hx; exact hI.bE r' k x hx
  · rw [hN]; exact hI.bN
  · intro r' k x hx
    by_cases e : r' = r
    · subst e; rw [hself] at hx; exact (hw k x hx).2
    · rw [hne r' e] at hx; exact hI.kE r' k x hx
  · rw [hN]; exact hI.kN

/-- writing the weights of a node with its strategy -/
theorem write_node_6 {g : G} {KE : ERef → String → Nat → Prop} {KN : String → String → Nat → Prop}
    (hK : KClosed2 g KE KN) (stL : AState) (n : String) (w : WMap)
    (hI : Inv6 g KE KN stL) (hw : ∀ T, wget T w = stratL g n (edgeMaps g n stL) T)
    (hnoph : isMaxNode g n = false → ∀ r ∈ edgeRefs g n, ∀ k, isPH k = true → wget k (aget r stL.edgeW) = none) :
    Inv6 g KE KN { stL with nodeW := aset n w stL.nodeW } := by
  have hself : aget n (aset n w stL.nodeW) = w := aget_aset_self ..
  have hne : ∀ N, N ≠ n → aget N (aset n w stL.nodeW) = aget N stL.nodeW := fun N h => aget_aset_ne _ _ _ h _
  have hval : ∀ k x, wget k w = some x → ∃ r ∈ edgeRefs g n, wget k (aget r stL.edgeW) = some x := by
    intro k x hx
    rw [hw k] at hx
    obtain ⟨m, hm, hmx⟩ := stratL_attained g n _ k x hx
    unfold edgeMaps at hm
    obtain ⟨r, hr, rfl⟩ := List.mem_map.1 hm
    exact ⟨r, hr, hmx⟩
  refine ⟨?_, ?_, hI.bE, ?_, hI.kE, ?_⟩
  · intro v hv
    by_cases e : v = n
    · subst e
      intro T
      show wget T (aget v (aset v w stL.nodeW)) = stratL g v (edgeMaps g v stL) T
      rw [hself]; exact hw T
    · have hv' : aget v stL.nodeW ≠ [] := by
        intro h; apply hv
        show aget v (aset n w stL.nodeW) = []
        rw [hne v e]; exact h
      exact (hI.ok v hv').congr (hne v e) (fun _ _ => rfl)
  · intro v hv hm
    by_cases e : v = n
    · subst e; exact hnoph hm
    · have hv' : aget v stL.nodeW ≠ [] := by
        intro h; apply hv
        show aget v (aset n w stL.nodeW) = []
        rw [hne v e]; exact h
      exact hI.noph v hv' hm
  · intro N k x hx
    by_cases e : N = n
    · subst e
      change wget k (aget N (aset N w stL.nodeW)) = some x at hx
      rw [hself] at hx
      obtain ⟨r, _, hr⟩ := hval k x hx
      exact hI.bE r k x hr
    · change wget k (aget N (aset n w stL.nodeW)) = some x at hx
      rw [hne N e] at hx
      exact hI.bN N k x hx
  · intro N k x hx
    by_cases e : N = n
    · subst e
      change wget k (aget N (aset N w stL.nodeW)) = some x at hx
      rw [hself] at hx
      exact hK.node N (fun r => aget r stL.edgeW) (fun r _ k x h => hI.kE r k x h) k x (by have := hw k; rw [hx] at this; exact this.symm)
    · change wget k (aget N (aset n w stL.nodeW)) = some x at hx
      rw [hne N e] at hx
      exact hI.kN N k x hx


/-- resolving the cycle reference `n` (a relation or a union, one of whose edges holds `R#n`) preserves the
    invariant: the substitution commutes with the maximum, never touches an intersection or an exclusion, and
    the resolved node satisfies the rule because its placeholder edge receives all its (Infinite) weights -/
theorem cafFinal_6 {g : G} {KE : ERef → String → Nat → Prop} {KN : String → String → Nat → Prop} (hK : KClosed2 g KE KN) (n : String) (stL : AState)
    (hI2 : Inv2 stL) (hD : InvD g stL) (hI : Inv6 g KE KN stL) (hmax : isMaxNode g n = true)
    (hself : ∃ r ∈ edgeRefs g n, wget ("R#" ++ n) (aget r stL.edgeW) ≠ none) :
    Inv6 g KE KN (cafFinal g n stL) ∧
    (∀ (r : ERef) m, m ≠ n → wget ("R#" ++ m) (aget r stL.edgeW) ≠ none →
      wget ("R#" ++ m) (aget r (cafFinal g n stL).edgeW) ≠ none) ∧
    (∀ m, m ≠ n → (∃ r ∈ edgeRefs g n, wget ("R#" ++ m) (aget r stL.edgeW) ≠ none) →
      wget ("R#" ++ m) (aget n (cafFinal g n stL).nodeW) ≠ none) := by
  obtain ⟨FE, FN, FNn⟩ := cafFinal_lookup g n stL hI2 hD
  have hWref : wget ("R#" ++ n) (cafRes g n stL).1 = none := by
    rw [cafRes_wget]; simp
  have hWinf : ∀ k x, wget k (cafRes g n stL).1 = some x →
      x = infinite ∧ k ≠ "R#" ++ n ∧ (unionL (edgeMaps g n stL) k).isSome = true := by
    intro k x hx
    rw [cafRes_wget] at hx
    split at hx
    · rename_i hc
      cases hx
      exact ⟨rfl, hc.1, hc.2⟩
    · cases hx
  have hrefSome : (unionL ((edgeRefs g n).map (fun r => aget r stL.edgeW)) ("R#" ++ n)).isSome = true := by
    rw [unionL_isSome, List.any_eq_true]
    obtain ⟨r, hr, hne⟩ := hself
    refine ⟨_, List.mem_map.2 ⟨r, hr, rfl⟩, ?_⟩
    cases h : wget ("R#" ++ n) (aget r stL.edgeW) with
    | none => exact absurd h hne
    | some y => rfl
  have hmapsE : ∀ v, edgeMaps g v (cafFinal g n stL) = (edgeRefs g v).map (fun r => aget r (cafFinal g n stL).edgeW) :=
    fun v => rfl
  have hbefore : ∀ N, N ≠ n → aget N (cafFinal g n stL).nodeW ≠ [] → aget N stL.nodeW ≠ [] := by
    intro N hN hne h
    apply hne
    apply nil_of_wget_none
    intro k
    rw [FN N hN k, h, substL_nil]
  -- the new weights of `n` satisfy `K`
  have hKn : ∀ k x, wget k (cafRes g n stL).1 = some x → KN n k x := by
    intro k x hx
    obtain ⟨rfl, hk, hs⟩ := hWinf k x hx
    obtain ⟨x', hx'⟩ := Option.isSome_iff_exists.1 hs
    obtain ⟨m, hm, hmx⟩ := unionL_attained _ k x' hx'
    unfold edgeMaps at hm
    obtain ⟨r, hr, rfl⟩ := List.mem_map.1 hm
    have k1 := hI.kE r k x' hmx
    obtain ⟨r0, hr0, hne0⟩ := hself
    cases h0 : wget ("R#" ++ n) (aget r0 stL.edgeW) with
    | none => exact absurd h0 hne0
    | some y =>
      have k2 := hI.kE r0 _ y h0
      exact hK.inf n k x' y r r0 hr hr0 hmax k1 k2
  refine ⟨⟨?_, ?_, ?_, ?_, ?_, ?_⟩, ?_, ?_⟩
  · -- the rule
    intro v hv T
    by_cases e : v = n
    · subst e
      unfold stratL
      rw [if_pos hmax, hmapsE, unionL_subst ("R#" ++ v) (cafRes g v stL).1 (fun r => aget r stL.edgeW)
        (fun r => aget r (cafFinal g v stL).edgeW) T (edgeRefs g v) (fun r _ k => FE r k), hrefSome, FNn T]
      simp only [if_true]
      by_cases eT : T = "R#" ++ v
      · rw [eT, hWref]; simp [optMax]
      · simp only [eT, if_false]
        rw [cafRes_wget]
        cases hu : unionL ((edgeRefs g v).map (fun r => aget r stL.edgeW)) T with
        | none =>
          have : unionL (edgeMaps g v stL) T = none := hu
          simp [this, optMax]
        | some x =>
          have hu' : unionL (edgeMaps g v stL) T = some x := hu
          obtain ⟨m, hm, hmx⟩ := unionL_attained _ T x hu
          obtain ⟨r, hr, rfl⟩ := List.mem_map.1 hm
          have hx : x ≤ infinite := hI.bE r T x hmx
          simp only [hu', eT, ne_eq, not_false_eq_true, Option.isSome_some, and_self, if_true, optMax]
          exact congrArg some (Nat.max_eq_right hx).symm
    · have hv' := hbefore v e hv
      have hok := hI.ok v hv'
      cases hm : isMaxNode g v with
      | true =>
        have hokT : ∀ T, wget T (aget v stL.nodeW) = unionL ((edgeRefs g v).map (fun r => aget r stL.edgeW)) T := by
          intro T
          have := hok T
          unfold stratL at this
          rw [if_pos hm] at this
          exact this
        unfold stratL
        rw [if_pos hm, hmapsE, unionL_subst ("R#" ++ n) (cafRes g n stL).1 (fun r => aget r stL.edgeW)
          (fun r => aget r (cafFinal g n stL).edgeW) T (edgeRefs g v) (fun r _ k => FE r k), FN v e T]
        unfold substL
        rw [hokT T, hokT ("R#" ++ n)]
      | false =>
        have hnoE : ∀ r ∈ edgeRefs g v, ∀ k, wget k (aget r (cafFinal g n stL).edgeW) = wget k (aget r stL.edgeW) := by
          intro r hr k
          rw [FE r k, substL_noref _ _ _ (hI.noph v hv' hm r hr _ (isPH_mk n))]
        have hnoN : wget ("R#" ++ n) (aget v stL.nodeW) = none := by
          cases h : wget ("R#" ++ n) (aget v stL.nodeW) with
          | none => rfl
          | some y =>
            rw [hok] at h
            obtain ⟨m, hm', hmx⟩ := stratL_attained g v _ _ y h
            unfold edgeMaps at hm'
            obtain ⟨r, hr, rfl⟩ := List.mem_map.1 hm'
            rw [hI.noph v hv' hm r hr _ (isPH_mk n)] at hmx
            cases hmx
        rw [FN v e T, substL_noref _ _ _ hnoN, hok T, hmapsE]
        exact (stratL_congr g v (fun r => aget r stL.edgeW) (fun r => aget r (cafFinal g n stL).edgeW) T (edgeRefs g v)
          (fun r hr => hnoE r hr T)).symm
  · intro v hv hm r hr k hk
    have e : v ≠ n := by
      intro e; rw [e, hmax] at hm; cases hm
    have hv' := hbefore v e hv
    rw [FE r k, substL_noref _ _ _ (hI.noph v hv' hm r hr _ (isPH_mk n))]
    exact hI.noph v hv' hm r hr k hk
  · intro r k x hx
    rw [FE r k] at hx
    rcases substL_eq_some hx with ⟨_, h⟩ | ⟨_, h⟩
    · exact hI.bE r k x h
    · rw [(hWinf k x h).1]; exact Nat.le_refl _
  · intro N k x hx
    by_cases e : N = n
    · subst e
      rw [FNn k] at hx
      rw [(hWinf k x hx).1]; exact Nat.le_refl _
    · rw [FN N e k] at hx
      rcases substL_eq_some hx with ⟨_, h⟩ | ⟨_, h⟩
      · exact hI.bN N k x h
      · rw [(hWinf k x h).1]; exact Nat.le_refl _
  · intro r k x hx
    rw [FE r k] at hx
    rcases substL_eq_some hx with ⟨_, h⟩ | ⟨hs, h⟩
    · exact hI.kE r k x h
    · obtain ⟨y, hy⟩ := Option.isSome_iff_exists.1 hs
      have k1 := hKn k x h
      rw [(hWinf k x h).1] at k1 ⊢
      exact hK.substE r n k y (hI.kE r _ y hy) k1
  · intro N k x hx
    by_cases e : N = n
    · subst e
      rw [FNn k] at hx
      exact hKn k x hx
    · rw [FN N e k] at hx
      rcases substL_eq_some hx with ⟨_, h⟩ | ⟨hs, h⟩
      · exact hI.kN N k x h
      · obtain ⟨y, hy⟩ := Option.isSome_iff_exists.1 hs
        have k1 := hKn k x h
        rw [(hWinf k x h).1] at k1 ⊢
        exact hK.substN N n k y (hI.kN N _ y hy) k1
  · intro r m hm hne
    rw [FE r _]
    unfold substL
    have : "R#" ++ m ≠ "R#" ++ n := fun h => hm (mk_inj h)
    simp only [this, if_false]
    cases h : wget ("R#" ++ m) (aget r stL.edgeW) with
    | none => exact absurd h hne
    | some y => exact optMax_some_ne_none y _
  · intro m hm ⟨r, hr, hne⟩
    rw [FNn, cafRes_wget]
    have h1 : "R#" ++ m ≠ "R#" ++ n := fun h => hm (mk_inj h)
    have h2 : (unionL (edgeMaps g n stL) ("R#" ++ m)).isSome = true := by
      rw [unionL_isSome, List.any_eq_true]
      refine ⟨_, List.mem_map.2 ⟨r, hr, rfl⟩, ?_⟩
      cases h : wget ("R#" ++ m) (aget r stL.edgeW) with
      | none => exact absurd h hne
      | some y => rfl
    simp [h1, h2]

def RecN6 (g : G) (KE : ERef → String → Nat → Prop) (KN : String → String → Nat → Prop) (rec : String → List WEdge → AState → Res) : Prop :=
  ∀ n path st, Inv2 st → InvD g st → Inv6 g KE KN st → ∀ tc st', rec n path st = ((tc, none), st') →
    Inv6 g KE KN st' ∧ Rel5 st st' ∧ (∀ m ∈ tc, m ∈ st.visited → wget ("R#" ++ m) (aget n st'.nodeW) ≠ none)

theorem calcEdgeWith_6 (g : G) (KE : ERef → String → Nat → Prop) (KN : String → String → Nat → Prop) (hK : KClosed2 g KE KN)
    (rec : String → List WEdge → AState → Res) (hrecB : RecB rec) (hrecD : RecD g rec) (hrecN : RecN6 g KE KN rec) (r : ERef)
    (e : WEdge) (path : List WEdge) (st : AState) (hI : Inv2 st) (hD : InvD g st) (h5 : Inv6 g KE KN st)
    (he : edgeAt g r = some e) (hnt : isTerminal (nodeType g e.dst) = false) (hempty : aget r st.edgeW = [])
    (hv : r.1 ∈ st.visited) (hnil : aget r.1 st.nodeW = []) (tc : List String) (st' : AState)
    (h : calcEdgeWith rec g r e path st = ((tc, none), st')) :
    Inv6 g KE KN st' ∧ Rel5 st st' ∧ (∀ m ∈ tc, m ∈ st.visited → wget ("R#" ++ m) (aget r st'.edgeW) ≠ none) := by
  have hmemE := edgeAt_mem he
  have hph : ∀ k x, wget k [("R#" ++ e.dst, infinite)] = some x → x ≤ infinite ∧ KE r k x := by
    intro k x hx
    obtain ⟨rfl, rfl⟩ := wget_single hx
    exact ⟨Nat.le_refl _, hK.ph r e he hnt⟩
  rw [calcEdgeWith_eq] at h
  split at h
  · rename_i hse
    have hsd : e.src = e.dst := by simpa using hse
    simp only [Prod.mk.injEq] at h
    obtain ⟨⟨rfl, _⟩, rfl⟩ := h
    refine ⟨write_edge_6 st _ r _ h5 rfl rfl hnil hph, Rel5.write r _ rfl hempty (fun v h => h), ?_⟩
    intro m hm _
    simp only [List.mem_singleton] at hm
    subst hm
    show wget ("R#" ++ e.src) (aget r (aset r [("R#" ++ e.dst, infinite)] st.edgeW)) ≠ none
    rw [aget_aset_self, hsd, wget_single_self]
    simp
  · split at h
    · simp at h
    · rename_i tc1 st1 heq
      obtain ⟨hI1, hR1, _⟩ := hrecB e.dst (path ++ [e]) st hI tc1 st1 heq
      obtain ⟨hD1, hRD1⟩ := hrecD e.dst (path ++ [e]) st hI hD tc1 st1 heq
      obtain ⟨h51, hR51, hT1⟩ := hrecN e.dst (path ++ [e]) st hI hD h5 tc1 st1 heq
      have hempty1 : aget r st1.edgeW = [] := hR1.ee r hv (by simp) hempty
      have hnil1 : aget r.1 st1.nodeW = [] := hRD1.en r.1 hv hnil
      split at h
      · rename_i hemp
        have htoW : aget e.dst st1.nodeW = [] := by
          cases hh : aget e.dst st1.nodeW with
          | nil => rfl
          | cons a b => rw [hh] at hemp; simp at hemp
        split at h
        · simp only [Prod.mk.injEq] at h
          obtain ⟨⟨rfl, _⟩, rfl⟩ := h
          refine ⟨write_edge_6 st1 _ r _ h51 rfl rfl hnil1 hph,
            hR51.trans (Rel5.write r _ rfl hempty1 (fun v h => h)), ?_⟩
          intro m hm hmv
          rcases List.mem_append.1 hm with hm | hm
          · have := hT1 m hm hmv
            rw [htoW] at this
            exact absurd rfl this
          · simp only [List.mem_singleton] at hm
            subst hm
            show wget ("R#" ++ e.dst) (aget r (aset r [("R#" ++ e.dst, infinite)] st1.edgeW)) ≠ none
            rw [aget_aset_self, wget_single_self]
            simp
        · simp at h
      · simp only [Prod.mk.injEq] at h
        obtain ⟨⟨rfl, _⟩, rfl⟩ := h
        have hcore := scan_core (!tc1.isEmpty) r (aget e.dst st1.nodeW)
          (tc1, if (!tc1.isEmpty) = true then tc1.foldl (fun st n => addDep n r st) st1 else st1)
        have hmem := scan_mem (!tc1.isEmpty) r (aget e.dst st1.nodeW)
          (tc1, if (!tc1.isEmpty) = true then tc1.foldl (fun st n => addDep n r st) st1 else st1)
        have hX : (if (!tc1.isEmpty) = true then tc1.foldl (fun st n => addDep n r st) st1 else st1).nodeW = st1.nodeW ∧
            (if (!tc1.isEmpty) = true then tc1.foldl (fun st n => addDep n r st) st1 else st1).edgeW = st1.edgeW ∧
            (if (!tc1.isEmpty) = true then tc1.foldl (fun st n => addDep n r st) st1 else st1).visited = st1.visited := by
          split
          · exact addDeps_core r tc1 st1
          · exact ⟨rfl, rfl, rfl⟩
        obtain ⟨sc, hsc⟩ : ∃ s, s = (aget e.dst st1.nodeW).foldl (scanStep (!tc1.isEmpty) r)
          (tc1, if (!tc1.isEmpty) = true then tc1.foldl (fun st n => addDep n r st) st1 else st1) := ⟨_, rfl⟩
        rw [← hsc] at hcore hmem ⊢
        have hNW : sc.2.nodeW = st1.nodeW := hcore.1.trans hX.1
        have hEW : sc.2.edgeW = st1.edgeW := hcore.2.1.trans hX.2.1
        have hVW : sc.2.visited = st1.visited := hcore.2.2.trans hX.2.2
        have hcopy : ∀ k x, wget k (edgeCopy e (aget e.dst st1.nodeW)) = some x → x ≤ infinite ∧ KE r k x := by
          intro k x hx
          rw [wget_edgeCopy] at hx
          cases h0 : wget k (aget e.dst st1.nodeW) with
          | none => rw [h0] at hx; cases hx
          | some x0 =>
            rw [h0] at hx
            simp only [Option.map_some, Option.some.injEq] at hx
            subst hx
            exact ⟨bumpE_le e (h51.bN _ _ _ h0), hK.step r e k x0 he hnt (h51.kN _ _ _ h0) (h51.bN _ _ _ h0)⟩
        refine ⟨write_edge_6 st1 _ r (edgeCopy e (aget e.dst st1.nodeW)) h51 hNW (by
            show aset r _ sc.2.edgeW = aset r _ _
            rw [hEW]) hnil1 hcopy,
          hR51.trans (Rel5.write r (edgeCopy e (aget e.dst st1.nodeW)) (by
            show aset r _ sc.2.edgeW = aset r _ _
            rw [hEW]) hempty1 (fun v h => by show v ∈ sc.2.visited; rw [hVW]; exact h)), ?_⟩
        intro m hm hmv
        show wget ("R#" ++ m) (aget r (aset r (edgeCopy e (aget e.dst st1.nodeW)) sc.2.edgeW)) ≠ none
        rw [aget_aset_self, wget_edgeCopy]
        have hto : wget ("R#" ++ m) (aget e.dst st1.nodeW) ≠ none := by
          rcases hmem m hm with h1 | ⟨kv, hkv, hp, rfl⟩
          · exact hT1 m h1 hmv
          · rw [← eq_mk_of_isPH kv.1 hp]
            intro hnone
            have := (wget_isSome_iff_keys kv.1 _).2 ⟨kv.2, hkv⟩
            rw [hnone] at this
            cases this
        cases h0 : wget ("R#" ++ m) (aget e.dst st1.nodeW) with
        | none => exact absurd h0 hto
        | some y => simp

theorem edgeLoop_6 (g : G) (KE : ERef → String → Nat → Prop) (KN : String → String → Nat → Prop) (hK : KClosed2 g KE KN) (hn : NoPHTypes g)
    (rec : String → List WEdge → AState → Res) (hrecB : RecB rec) (hrecD : RecD g rec) (hrecN : RecN6 g KE KN rec)
    (nodeID : String) (path : List WEdge) (V : List String) :
    ∀ (es : List (ERef × WEdge)) (tcs : List String) (st : AState), Inv2 st → InvD g st → Inv6 g KE KN st →
      nodeID ∈ st.visited → aget nodeID st.nodeW = [] → (∀ m ∈ V, m ∈ st.visited) →
      (∀ p ∈ es, p.1.1 = nodeID ∧ p.2 ∈ edgesOf g nodeID) → (∀ p ∈ es, edgeAt g p.1 = some p.2) →
      (∀ p ∈ es, p.1 ∈ edgeRefs g nodeID) → TcOK g nodeID V tcs st →
      ∀ tcs' st', edgeLoop rec g nodeID path es tcs st = ((tcs', none), st') →
        Inv6 g KE KN st' ∧ Rel5 st st' ∧ TcOK g nodeID V tcs' st'
  | [], tcs, st, _, _, h5, _, _, _, _, _, _, hT, tcs', st', h => by
    simp only [edgeLoop, Prod.mk.injEq] at h
    obtain ⟨⟨rfl, _⟩, rfl⟩ := h
    exact ⟨h5, Rel5.refl _, hT⟩
  | (r, e) :: rest, tcs, st, hI, hD, h5, hv, hnil, hV, hes, hat, hin, hT, tcs', st', h => by
    have hre := hes (r, e) (List.mem_cons_self ..)
    have hrest : ∀ p ∈ rest, p.1.1 = nodeID ∧ p.2 ∈ edgesOf g nodeID := fun p hp => hes p (List.mem_cons_of_mem _ hp)
    have hatr : ∀ p ∈ rest, edgeAt g p.1 = some p.2 := fun p hp => hat p (List.mem_cons_of_mem _ hp)
    have hinr : ∀ p ∈ rest, p.1 ∈ edgeRefs g nodeID := fun p hp => hin p (List.mem_cons_of_mem _ hp)
    have he : edgeAt g r = some e := hat (r, e) (List.mem_cons_self ..)
    have hrin : r ∈ edgeRefs g nodeID := hin (r, e) (List.mem_cons_self ..)
    have hr1 : r.1 = nodeID := hre.1
    unfold edgeLoop at h
    split at h
    · exact edgeLoop_6 g KE KN hK hn rec hrecB hrecD hrecN nodeID path V rest tcs st hI hD h5 hv hnil hV hrest hatr hinr hT tcs' st' h
    · rename_i hemp
      have hempty : aget r st.edgeW = [] := by
        cases hh : aget r st.edgeW with
        | nil => rfl
        | cons a b => rw [hh] at hemp; simp at hemp
      simp only at h
      split at h
      · rename_i hterm
        obtain ⟨stW, hstW⟩ : ∃ s : AState, s = (if (nodeType g e.dst == NodeType.wildcard) = true then
            addEdgeWildcardsToNode nodeID r (addWildcardToEdge
              (if (nodeType g e.dst == NodeType.wildcard) = true then (e.dst.dropEnd 2).toString else e.dst) r st) else st) :=
          ⟨_, rfl⟩
        rw [← hstW] at h
        have cN : stW.nodeW = st.nodeW := by rw [hstW]; split <;> simp
        have cE : stW.edgeW = st.edgeW := by rw [hstW]; split <;> simp
        have cV : stW.visited = st.visited := by rw [hstW]; split <;> simp
        have cD : stW.deps = st.deps := by rw [hstW]; split <;> simp
        have hw := write_edge st stW { stW with edgeW := aset r [(termKey g e.dst, 1)] stW.edgeW } r [(termKey g e.dst, 1)] []
          hI hempty (hr1 ▸ hv) cN cE cV (fun m r' h => cD ▸ h) (fun m r' h => Or.inl (cD ▸ h))
          (fun p hp => Or.inl ⟨p, cD ▸ hp, rfl⟩) (by
            intro k ⟨v, hk⟩ hp
            simp only [List.mem_singleton, Prod.mk.injEq] at hk
            obtain ⟨rfl, _⟩ := hk
            rw [hn nodeID e hre.2 hterm] at hp
            cases hp) rfl rfl rfl rfl
        obtain ⟨a, b⟩ := write_edge_D g st { stW with edgeW := aset r [(termKey g e.dst, 1)] stW.edgeW } r e
          [(termKey g e.dst, 1)] [] hD cN (by show aset r _ stW.edgeW = _; rw [cE]) he (sortedM_single _ _) (fun _ => rfl)
          (fun ht => by rw [hterm] at ht; cases ht)
        have hE1 : ({ stW with edgeW := aset r [(termKey g e.dst, 1)] stW.edgeW } : AState).edgeW =
            aset r [(termKey g e.dst, 1)] st.edgeW := by show aset r _ stW.edgeW = _; rw [cE]
        have h51 : Inv6 g KE KN { stW with edgeW := aset r [(termKey g e.dst, 1)] stW.edgeW } :=
          write_edge_6 st _ r [(termKey g e.dst, 1)] h5 cN hE1 (hr1 ▸ hnil) (by
            intro k x hx
            obtain ⟨rfl, rfl⟩ := wget_single hx
            exact ⟨one_le_infinite, hK.term r e he hterm⟩)
        have hR1 : Rel5 st { stW with edgeW := aset r [(termKey g e.dst, 1)] stW.edgeW } :=
          Rel5.write r _ hE1 hempty (fun v h => by show v ∈ stW.visited; rw [cV]; exact h)
        have hv' : nodeID ∈ ({ stW with edgeW := aset r [(termKey g e.dst, 1)] stW.edgeW } : AState).visited := by
          show nodeID ∈ stW.visited
          rw [cV]; exact hv
        have hV' : ∀ m ∈ V, m ∈ ({ stW with edgeW := aset r [(termKey g e.dst, 1)] stW.edgeW } : AState).visited :=
          fun m hm => hR1.vm m (hV m hm)
        obtain ⟨i1, i2, i3⟩ := edgeLoop_6 g KE KN hK hn rec hrecB hrecD hrecN nodeID path V rest tcs _ hw.1 a h51 hv'
          (by show aget nodeID stW.nodeW = []; rw [cN]; exact hnil) hV' hrest hatr hinr (hT.mono hR1 hV) tcs' st' h
        exact ⟨i1, hR1.trans i2, i3⟩
      · rename_i hterm
        have hnt : isTerminal (nodeType g e.dst) = false := by simpa using hterm
        split at h
        · simp at h
        · rename_i heq
          obtain ⟨tc, htc⟩ : ∃ t, t = (calcEdgeWith rec g r e path st).1.1 := ⟨_, rfl⟩
          obtain ⟨stC, hstC⟩ : ∃ s, s = (calcEdgeWith rec g r e path st).2 := ⟨_, rfl⟩
          have heq' : calcEdgeWith rec g r e path st = ((tc, none), stC) := by
            rw [htc, hstC]; exact Prod.ext (Prod.ext rfl heq) rfl
          rw [← htc, ← hstC] at h
          obtain ⟨hIC, hRC⟩ := calcEdgeWith_B g rec hrecB r e path st hI hempty (hr1 ▸ hv) tc stC heq'
          obtain ⟨hDC, hRDC⟩ := calcEdgeWith_D g rec hrecB hrecD r e path st hI hD he hnt tc stC heq'
          obtain ⟨h5C, hR5C, hTC⟩ := calcEdgeWith_6 g KE KN hK rec hrecB hrecD hrecN r e path st hI hD h5 he hnt hempty
            (hr1 ▸ hv) (hr1 ▸ hnil) tc stC heq'
          have hIC' : Inv2 (addEdgeWildcardsToNode nodeID r (calculateEdgeWildcards e.dst r stC)) :=
            hIC.of_core (by simp) (by simp) (by simp) (by simp)
          have hDC' : InvD g (addEdgeWildcardsToNode nodeID r (calculateEdgeWildcards e.dst r stC)) :=
            hDC.of_core (by simp) (by simp)
          have h5C' : Inv6 g KE KN (addEdgeWildcardsToNode nodeID r (calculateEdgeWildcards e.dst r stC)) :=
            h5C.of_core (by simp) (by simp)
          have hR5C' : Rel5 st (addEdgeWildcardsToNode nodeID r (calculateEdgeWildcards e.dst r stC)) :=
            hR5C.of_core (by simp) (by simp)
          have hv' : nodeID ∈ (addEdgeWildcardsToNode nodeID r (calculateEdgeWildcards e.dst r stC)).visited :=
            hR5C'.vm _ hv
          have hnil' : aget nodeID (addEdgeWildcardsToNode nodeID r (calculateEdgeWildcards e.dst r stC)).nodeW = [] := by
            simp only [addEdgeWildcardsToNode_nodeW, calculateEdgeWildcards_nodeW]
            exact hRDC.en nodeID hv hnil
          have hT' : TcOK g nodeID V (tcs ++ tc) (addEdgeWildcardsToNode nodeID r (calculateEdgeWildcards e.dst r stC)) := by
            intro m hm hmV
            rcases List.mem_append.1 hm with hm | hm
            · exact hT.mono hR5C' hV m hm hmV
            · refine ⟨r, hrin, ?_⟩
              simp only [addEdgeWildcardsToNode_edgeW, calculateEdgeWildcards_edgeW]
              exact hTC m hm (hV m hmV)
          obtain ⟨j1, j2, j3⟩ := edgeLoop_6 g KE KN hK hn rec hrecB hrecD hrecN nodeID path V rest (tcs ++ tc) _ hIC' hDC' h5C' hv'
            hnil' (fun m hm => hR5C'.vm m (hV m hm)) hrest hatr hinr hT' tcs' st' h
          exact ⟨j1, hR5C'.trans j2, j3⟩

theorem calcNode_6 (g : G) (KE : ERef → String → Nat → Prop) (KN : String → String → Nat → Prop) (hK : KClosed2 g KE KN) (hn : NoPHTypes g) :
    ∀ (fuel : Nat), RecN6 g KE KN (calcNode fuel g)
  | 0 => by
    intro n path st _ _ _ tc st' h
    simp [calcNode] at h
  | fuel+1 => by
    intro n path st hI hD h5 tc st' h
    unfold calcNode at h
    split at h
    · simp only [Prod.mk.injEq] at h
      obtain ⟨⟨rfl, _⟩, rfl⟩ := h
      exact ⟨h5, Rel5.refl _, fun m hm => by cases hm⟩
    · split at h
      · simp only [Prod.mk.injEq] at h
        obtain ⟨⟨rfl, _⟩, rfl⟩ := h
        exact ⟨h5, Rel5.refl _, fun m hm => by cases hm⟩
      · rename_i hc _
        have hfresh : n ∉ st.visited := fun hh => hc (List.contains_iff_mem.2 hh)
        have hnil0 : aget n st.nodeW = [] := by
          cases hh : aget n st.nodeW with
          | nil => rfl
          | cons a b => exact absurd (hI.v2 n (by rw [hh]; simp)) hfresh
        simp only at h
        have hI0 : Inv2 { st with visited := n :: st.visited } :=
          ⟨hI.i1, hI.i3, fun r hr => List.mem_cons_of_mem _ (hI.v1 r hr), fun N hN => List.mem_cons_of_mem _ (hI.v2 N hN),
            fun m r hr => List.mem_cons_of_mem _ (hI.v3 m r hr)⟩
        have hD0 : InvD g { st with visited := n :: st.visited } := hD.of_core rfl rfl
        have h50 : Inv6 g KE KN { st with visited := n :: st.visited } := h5.of_core rfl rfl
        split at h
        · simp at h
        · rename_i tcs stL heq
          obtain ⟨hIL, hRL, _⟩ := edgeLoop_B g hn (calcNode fuel g) (calcNode_B g hn fuel) n path _ [] _ hI0
            (List.mem_cons_self ..) (mem_refs g n) tcs stL heq
          obtain ⟨hDL, hRDL⟩ := edgeLoop_D g hn (calcNode fuel g) (calcNode_B g hn fuel) (calcNode_D g hn fuel) n path _ [] _ hI0 hD0
            (List.mem_cons_self ..) (mem_refs g n) (refs_edgeAt g n) tcs stL heq
          obtain ⟨h5L, hR5L, hTL⟩ := edgeLoop_6 g KE KN hK hn (calcNode fuel g) (calcNode_B g hn fuel) (calcNode_D g hn fuel)
            (calcNode_6 g KE KN hK hn fuel) n path (n :: st.visited) _ [] _ hI0 hD0 h50 (List.mem_cons_self ..) hnil0
            (fun m hm => hm) (mem_refs g n) (refs_edgeAt g n) (refs_in_edgeRefs g n) (fun m hm => by cases hm) tcs stL heq
          have hR5 : Rel5 st stL :=
            ⟨fun r m hm h => hR5L.keepE r m (List.mem_cons_of_mem _ hm) h, fun v hv => hR5L.vm v (List.mem_cons_of_mem _ hv)⟩
          rcases fromTheEdges_casesN g n tcs stL hDL.sorted.1 with ⟨t, e, s, hcs⟩ | ⟨hcs, htcs⟩ | ⟨w, hcs, hw, hnm⟩ | ⟨hcs, hmax, hin⟩
          · rw [hcs] at h; simp at h
          · rw [hcs] at h
            simp only [Prod.mk.injEq] at h
            obtain ⟨⟨rfl, _⟩, rfl⟩ := h
            exact ⟨h5L, hR5, fun m hm => by rw [htcs] at hm; cases hm⟩
          · rw [hcs] at h
            simp only [Prod.mk.injEq] at h
            obtain ⟨⟨rfl, _⟩, rfl⟩ := h
            refine ⟨write_node_6 hK stL n w h5L hw ?_, hR5.of_core rfl rfl, ?_⟩
            · intro hm r hr k hk
              have htcs := hnm hm
              cases hx : wget k (aget r stL.edgeW) with
              | none => rfl
              | some x =>
                have hkeys : Keys (aget r stL.edgeW) k := ⟨x, wget_some_mem _ _ _ hx⟩
                rcases hRL.ce r k hkeys hk with h1 | h1
                · have := hI.v1 r (ne_nil_of_keys h1)
                  rw [mem_edgeRefs_fst hr] at this
                  exact absurd this hfresh
                · rw [htcs] at h1; cases h1
            · intro m hm hmv
              show wget ("R#" ++ m) (aget n (aset n w stL.nodeW)) ≠ none
              rw [aget_aset_self, hw]
              cases hmx : isMaxNode g n with
              | false => rw [hnm hmx] at hm; cases hm
              | true =>
                obtain ⟨r, hr, hne⟩ := hTL m hm (List.mem_cons_of_mem _ hmv)
                unfold stratL
                rw [if_pos hmx]
                have : (unionL (edgeMaps g n stL) ("R#" ++ m)).isSome = true := by
                  rw [unionL_isSome, List.any_eq_true]
                  refine ⟨_, List.mem_map.2 ⟨r, hr, rfl⟩, ?_⟩
                  cases h0 : wget ("R#" ++ m) (aget r stL.edgeW) with
                  | none => exact absurd h0 hne
                  | some y => rfl
                intro hnone
                rw [hnone] at this
                cases this
          · rw [hcs] at h
            simp only [Prod.mk.injEq] at h
            obtain ⟨⟨rfl, _⟩, rfl⟩ := h
            have hself := hTL n hin (List.mem_cons_self ..)
            obtain ⟨c1, c2, c3⟩ := cafFinal_6 hK n stL hIL hDL h5L hmax hself
            refine ⟨c1, ⟨?_, ?_⟩, ?_⟩
            · intro r m hm hne
              have hmn : m ≠ n := fun e => hfresh (e ▸ hm)
              exact c2 r m hmn (hR5.keepE r m hm hne)
            · intro v hv
              rw [cafFinal_visited]
              exact hR5.vm v hv
            · intro m hm hmv
              obtain ⟨hm1, hm2⟩ := List.mem_filter.1 hm
              have hmn : m ≠ n := by simpa using hm2
              exact c3 m hmn (hTL m hm1 (List.mem_cons_of_mem _ hmv))

theorem go_6 (g : G) (KE : ERef → String → Nat → Prop) (KN : String → String → Nat → Prop) (hK : KClosed2 g KE KN) (hn : NoPHTypes g) :
    ∀ (ns : List String) (st st' : AState), Inv2 st → InvD g st → AllOK g st → Inv6 g KE KN st →
    assignWeights.go g ns st = .ok st' → Inv6 g KE KN st'
  | [], st, st', _, _, _, h5, heq => by
    simp only [assignWeights.go] at heq
    cases heq; exact h5
  | n :: ns, st, st', hI, hD, hA, h5, heq => by
    unfold assignWeights.go at heq
    split at heq
    · exact go_6 g KE KN hK hn ns st st' hI hD hA h5 heq
    · split at heq
      · cases heq
      · rename_i tcs st2 hres
        split at heq
        · cases heq
        · rename_i hemp
          have htcs : tcs = [] := by
            cases tcs with
            | nil => rfl
            | cons a b => simp at hemp
          subst htcs
          obtain ⟨hI2, _, _⟩ := calcNode_B g hn (g.nodes.length + 1) n [] st hI [] st2 hres
          obtain ⟨hD2, hR2⟩ := calcNode_D g hn (g.nodes.length + 1) n [] st hI hD [] st2 hres
          obtain ⟨h52, _, _⟩ := calcNode_6 g KE KN hK hn (g.nodes.length + 1) n [] st hI hD h5 [] st2 hres
          refine go_6 g KE KN hK hn ns st2 st' hI2 hD2 ?_ h52 heq
          intro r e he ht hne
          apply Classical.byContradiction
          intro hnot
          rcases hR2.bad r e he ht hne hnot with ⟨h1, h2⟩ | hh
          · exact h2 (hA r e he ht h1)
          · cases hh

theorem inv6_init (g : G) (KE : ERef → String → Nat → Prop) (KN : String → String → Nat → Prop) : Inv6 g KE KN {} :=
  ⟨fun v h => absurd rfl h, fun v h => absurd rfl h, fun r k x h => (by cases h), fun N k x h => (by cases h),
    fun r k x h => (by cases h), fun N k x h => (by cases h)⟩

theorem assignWeights_inv6 (g : G) (KE : ERef → String → Nat → Prop) (KN : String → String → Nat → Prop) (hK : KClosed2 g KE KN) (hn : NoPHTypes g)
    (order : List String) (st : AState) (h : assignWeights g order = .ok st) : Inv6 g KE KN st := by
  unfold assignWeights at h
  split at h
  · cases h
  · exact go_6 g KE KN hK hn _ {} st inv2_init (invD_init g) (fun r e _ _ hne => absurd rfl hne) (inv6_init g KE KN) h

/-! ### the instance: soundness of the keys -/
/-- the key `k` of the edge `r` is justified: a type carries over the edge; a placeholder `R#n` stands for "every
    type that reaches `n` is carried by the edge" -/
def KEs (g : G) (r : ERef) (k : String) (_x : Nat) : Prop :=
  ∀ e, edgeAt g r = some e →
    (isPH k = false → EdgeHasT g e k) ∧ (isPH k = true → ∀ T, HasT g (phNode k) T → EdgeHasT g e T)

/-- the key `k` of the node `v` is justified -/
def KNs (g : G) (v k : String) (_x : Nat) : Prop :=
  (isPH k = false → HasT g v k) ∧ (isPH k = true → ∀ T, HasT g (phNode k) T → HasT g v T)

theorem edgeRefs_edgeAt {g : G} {v : String} {r : ERef} (hr : r ∈ edgeRefs g v) :
    ∃ i e, r = (v, i) ∧ (edgesOf g v)[i]? = some e ∧ edgeAt g r = some e := by
  unfold edgeRefs at hr
  obtain ⟨i, hi, rfl⟩ := List.mem_map.1 hr
  have hlt := List.mem_range.1 hi
  exact ⟨i, (edgesOf g v)[i], rfl, List.getElem?_eq_getElem hlt, List.getElem?_eq_getElem hlt⟩

theorem idx_edgeRefs {g : G} {v : String} {i : Nat} {e : WEdge} (he : (edgesOf g v)[i]? = some e) :
    (v, i) ∈ edgeRefs g v ∧ edgeAt g (v, i) = some e := by
  refine ⟨?_, he⟩
  unfold edgeRefs
  exact List.mem_map.2 ⟨i, List.mem_range.2 (idx_lt he), rfl⟩

theorem edgeRefs_dropLast {g : G} {v : String} {r : ERef} (hr : r ∈ (edgeRefs g v).dropLast) :
    ∃ i e, r = (v, i) ∧ i + 1 < (edgesOf g v).length ∧ (edgesOf g v)[i]? = some e := by
  obtain ⟨j, hj, hrj⟩ := (mem_dropLast_iff _ _).1 hr
  rw [edgeRefs_length] at hj
  unfold edgeRefs at hrj
  rw [List.getElem?_map, List.getElem?_range (by omega)] at hrj
  simp only [Option.map_some, Option.some.injEq] at hrj
  exact ⟨j, (edgesOf g v)[j], hrj.symm, hj, List.getElem?_eq_getElem (by omega)⟩

/-- a key that the strategy of `v` keeps, over edge maps whose keys `k` are all justified by `T`, is justified -/
theorem strat_hasT {g : G} {v : String} (E : ERef → WMap) {k T : String} {x : Nat}
    (hP : ∀ r ∈ edgeRefs g v, (wget k (E r)).isSome = true → ∀ e, edgeAt g r = some e → EdgeHasT g e T)
    (hs : stratL g v ((edgeRefs g v).map E) k = some x) : HasT g v T := by
  have hU := stratL_some_unionL hs
  obtain ⟨m, hm, hmx⟩ := unionL_attained _ k x hU
  obtain ⟨r0, hr0, rfl⟩ := List.mem_map.1 hm
  obtain ⟨i0, e0, rfl, he0, hat0⟩ := edgeRefs_edgeAt hr0
  have hE0 : EdgeHasT g e0 T := hP _ hr0 (by rw [hmx]; rfl) e0 hat0
  cases hmax : isMaxNode g v with
  | true => exact HasT.rel e0 hmax (List.mem_of_getElem? he0) hE0
  | false =>
    unfold stratL at hs
    rw [hmax, if_neg (by simp)] at hs
    by_cases hl : nodeLabel g v = "intersection"
    · rw [if_pos (by rw [hl]; rfl), interL_spec] at hs
      split at hs
      · rename_i hall
        rw [List.all_eq_true] at hall
        refine HasT.inter hmax hl (fun h0 => ?_) ?_
        · rw [h0] at he0; cases he0
        · intro e he
          obtain ⟨i, hi⟩ := List.mem_iff_getElem?.1 he
          obtain ⟨hr, hat⟩ := idx_edgeRefs hi
          exact hP _ hr (hall _ (List.mem_map.2 ⟨_, hr, rfl⟩)) e hat
      · cases hs
    · rw [if_neg (by simpa using hl)] at hs
      by_cases hl2 : nodeLabel g v = "exclusion"
      · rw [if_pos (by rw [hl2]; rfl), mixedL_spec] at hs
        split at hs
        · rename_i hany
          obtain ⟨m', hm', hsome⟩ := List.any_eq_true.1 hany
          rw [← List.map_dropLast] at hm'
          obtain ⟨r, hr, rfl⟩ := List.mem_map.1 hm'
          obtain ⟨i, e, rfl, hlt, hi⟩ := edgeRefs_dropLast hr
          obtain ⟨hr', hat⟩ := idx_edgeRefs hi
          exact HasT.excl e hmax hl2 ((mem_dropLast_iff _ _).2 ⟨i, hlt, hi⟩) (hP _ hr' hsome e hat)
        · cases hs
      · rw [if_neg (by simpa using hl2)] at hs
        cases hs

theorem kclosed2_sem (g : G) (hn : NoPHTypes g) : KClosed2 g (KEs g) (KNs g) := by
  refine ⟨?_, ?_, ?_, ?_, ?_, ?_, ?_⟩
  · intro r e he ht e' he'
    rw [he] at he'; cases he'
    refine ⟨fun _ => EdgeHasT.term ht rfl, fun hp => ?_⟩
    rw [hn r.1 e (edgeAt_mem he) ht] at hp; cases hp
  · intro r e he ht e' he'
    rw [he] at he'; cases he'
    refine ⟨fun hp => ?_, fun _ T hT => ?_⟩
    · rw [isPH_mk] at hp; cases hp
    · rw [phNode_mk] at hT; exact EdgeHasT.step ht hT
  · intro r e k x he ht hk _ e' he'
    rw [he] at he'; cases he'
    exact ⟨fun hp => EdgeHasT.step ht (hk.1 hp), fun hp T hT => EdgeHasT.step ht (hk.2 hp T hT)⟩
  · intro v E hE k x hs
    refine ⟨fun hp => ?_, fun hp T hT => ?_⟩
    · refine strat_hasT E (fun r hr hsome e he => ?_) hs
      obtain ⟨x', hx'⟩ := Option.isSome_iff_exists.1 hsome
      exact ((hE r hr k x' hx') e he).1 hp
    · refine strat_hasT E (fun r hr hsome e he => ?_) hs
      obtain ⟨x', hx'⟩ := Option.isSome_iff_exists.1 hsome
      exact ((hE r hr k x' hx') e he).2 hp T hT
  · intro n k x y r r0 hr hr0 hmax hk _
    obtain ⟨i, e, rfl, hi, hat⟩ := edgeRefs_edgeAt hr
    have hmem := List.mem_of_getElem? hi
    exact ⟨fun hp => HasT.rel e hmax hmem ((hk e hat).1 hp), fun hp T hT => HasT.rel e hmax hmem ((hk e hat).2 hp T hT)⟩
  · intro r n k y hr hk e he
    have h1 : ∀ T, HasT g n T → EdgeHasT g e T := by
      intro T hT
      have := (hr e he).2 (isPH_mk n) T
      rw [phNode_mk] at this
      exact this hT
    exact ⟨fun hp => h1 k (hk.1 hp), fun hp T hT => h1 T (hk.2 hp T hT)⟩
  · intro v n k y hv hk
    have h1 : ∀ T, HasT g n T → HasT g v T := by
      intro T hT
      have := hv.2 (isPH_mk n) T
      rw [phNode_mk] at this
      exact this hT
    exact ⟨fun hp => h1 k (hk.1 hp), fun hp T hT => h1 T (hk.2 hp T hT)⟩

/-- **soundness of the keys**: on success every key of the final weight map of a node is a type that reaches it
    (and every key of an edge is carried by it) -/
theorem assignWeights_keys_sound (g : G) (hn : NoPHTypes g) (order : List String) (st : AState)
    (h : assignWeights g order = .ok st) :
    (∀ (N T : String), (wget T (aget N st.nodeW)).isSome = true → HasT g N T) ∧
    (∀ (r : ERef) (e : WEdge) (T : String), edgeAt g r = some e → (wget T (aget r st.edgeW)).isSome = true →
      EdgeHasT g e T) := by
  have h6 := assignWeights_inv6 g _ _ (kclosed2_sem g hn) hn order st h
  have hc := assignWeights_clean g hn order st h
  refine ⟨?_, ?_⟩
  · intro N T hk
    obtain ⟨w, hw⟩ := Option.isSome_iff_exists.1 hk
    exact (h6.kN N T w hw).1 (hc.node N T ⟨w, wget_some_mem _ _ _ hw⟩)
  · intro r e T he hk
    obtain ⟨w, hw⟩ := Option.isSome_iff_exists.1 hk
    exact ((h6.kE r T w hw) e he).1 (hc.edge r T ⟨w, wget_some_mem _ _ _ hw⟩)

/-! ### the theorems about a successful run -/
section success
variable (g : G) (hn : NoPHTypes g) (order : List String) (st : AState) (h : assignWeights g order = .ok st)
include hn h

/-- **completeness of the keys** -/
theorem assignWeights_keys_complete (v T : String) (hv : v ∈ st.visited) (hT : HasT g v T) :
    (wget T (aget v st.nodeW)).isSome = true :=
  keys_complete (final_of_success g hn order st h) hv hT

/-- **maximality**: the weight dominates the number of hops of every walk, saturating at `Infinite` -/
theorem assignWeights_dominates_walks (v T : String) (k : Nat) (hv : v ∈ st.visited) (hw : WalkT g v T k) :
    ∃ w, wget T (aget v st.nodeW) = some w ∧ min k infinite ≤ w :=
  weight_dominates_walks (final_of_success g hn order st h) hw hv

/-- a finite weight is sound, attained by a walk, and dominates every walk -/
theorem assignWeights_finite_max (v T : String) (w : Nat) (hv : v ∈ st.visited)
    (hw : wget T (aget v st.nodeW) = some w) (hlt : w < infinite) :
    HasT g v T ∧ WalkT g v T w ∧ ∀ k, WalkT g v T k → k ≤ w :=
  finite_weight_is_max (final_of_success g hn order st h) hv hw hlt

theorem assignWeights_unbounded_infinite (v T : String) (hv : v ∈ st.visited)
    (hu : ∀ n, ∃ k, n ≤ k ∧ WalkT g v T k) : wget T (aget v st.nodeW) = some infinite :=
  unbounded_walks_give_infinite (final_of_success g hn order st h) hv hu

/-- the witness of an `Infinite` weight, sharpened: the reachable cycle contains a hop, so the paths (through any
    edges) to the type have unboundedly many hops — or one of them has at least `Infinite` hops -/
theorem assignWeights_infinite_paths (v T : String) (hw : wget T (aget v st.nodeW) = some infinite) :
    (∀ n, ∃ k, n ≤ k ∧ ReachN g v T k) ∨ ∃ k, infinite ≤ k ∧ ReachN g v T k := by
  have hF := final_of_success g hn order st h
  rcases ((assignWeights_witnessed g hn order st h).1 v T infinite hw).2.2.2 rfl with ⟨m, hvm, hc, k0, hr⟩ | h2
  · exact Or.inl (cycle_unbounded hF hvm hc hr)
  · exact Or.inr h2

/-- the keys that carry `Infinite` are sound (sixth pass) -/
theorem assignWeights_infKeysSound : InfKeysSound g st := by
  intro v hv T hw
  exact (assignWeights_keys_sound g hn order st h).1 v T (by rw [hw]; rfl)

/-- **a node carries a weight for exactly the terminal types that reach it** -/
theorem assignWeights_keys_exact (v T : String) (hv : v ∈ st.visited) :
    (wget T (aget v st.nodeW)).isSome = true ↔ HasT g v T :=
  ⟨(assignWeights_keys_sound g hn order st h).1 v T, assignWeights_keys_complete g hn order st h v T hv⟩

/-- **`Infinite` only if the walks are unbounded** (or one has at least `Infinite` hops: the saturation of the
    hop count) -/
theorem assignWeights_infinite_unbounded (v T : String) (hv : v ∈ st.visited)
    (hw : wget T (aget v st.nodeW) = some infinite) :
    (∀ n, ∃ k, n ≤ k ∧ WalkT g v T k) ∨ ∃ k, infinite ≤ k ∧ WalkT g v T k := by
  have hF := final_of_success g hn order st h
  have hS := assignWeights_infKeysSound g hn order st h
  by_cases hlong : ∃ k, infinite ≤ k ∧ WalkT g v T k
  · exact Or.inr hlong
  · left
    intro n
    rcases infinite_unbounded hF hS T n v hv hw with h1 | h1
    · exact h1
    · exact absurd h1 hlong

/-- **the weight is `Infinite` exactly when the walks are unbounded or one of them has at least `Infinite` hops** -/
theorem assignWeights_infinite_iff (v T : String) (hv : v ∈ st.visited) :
    wget T (aget v st.nodeW) = some infinite ↔
      ((∀ n, ∃ k, n ≤ k ∧ WalkT g v T k) ∨ ∃ k, infinite ≤ k ∧ WalkT g v T k) := by
  constructor
  · exact assignWeights_infinite_unbounded g hn order st h v T hv
  · rintro (hu | ⟨k, hk, hwalk⟩)
    · exact assignWeights_unbounded_infinite g hn order st h v T hv hu
    · exact long_walk_gives_infinite (final_of_success g hn order st h) hv hk hwalk

/-- with fewer than `Infinite` nodes (always, in practice): **`Infinite` exactly when the walks are unbounded** -/
theorem assignWeights_infinite_iff_unbounded (hsz : g.nodes.length < infinite) (v T : String) (hv : v ∈ st.visited) :
    wget T (aget v st.nodeW) = some infinite ↔ ∀ n, ∃ k, n ≤ k ∧ WalkT g v T k := by
  rw [assignWeights_infinite_iff g hn order st h v T hv]
  constructor
  · rintro (hu | ⟨k, hk, hwalk⟩)
    · exact hu
    · exact long_walk_unbounded g hwalk ((final_of_success g hn order st h).nonterm v hv) (by omega)
  · exact Or.inl

end success

end FgaVerif.Model.WAssign
