import FgaVerif.Model.PGraph
/-! The path query of the plain graph port: the fuelled breadth-first search is sound, and on a graph
    whose lines connect existing nodes (ids below the number of nodes) it is complete. -/
namespace FgaVerif.Model.PGraph

theorem nodup_eraseDups [BEq α] [LawfulBEq α] : ∀ (n : Nat) (l : List α), l.length ≤ n → l.eraseDups.Nodup
  | 0, l, h => by
    have : l = [] := List.eq_nil_of_length_eq_zero (Nat.le_zero.1 h)
    subst this; simp
  | n+1, [], _ => by simp
  | n+1, a :: as, h => by
    rw [List.eraseDups_cons]
    refine List.nodup_cons.2 ⟨?_, nodup_eraseDups n _ ?_⟩
    · intro hm
      have := (List.mem_eraseDups.1 hm)
      simp at this
    · refine Nat.le_trans (List.length_filter_le _ as) ?_
      simp only [List.length_cons] at h
      omega

/-- `b` is a successor of `a` -/
def Succ (g : G) (a b : Nat) : Prop := b ∈ succs g a

theorem succ_iff_line (g : G) (a b : Nat) : Succ g a b ↔ ∃ l ∈ g.lines, l.src = a ∧ l.dst = b := by
  unfold Succ succs
  simp only [List.mem_map, List.mem_filter, beq_iff_eq]
  constructor
  · rintro ⟨l, ⟨hl, hs⟩, hd⟩; exact ⟨l, hl, hs, hd⟩
  · rintro ⟨l, hl, hs, hd⟩; exact ⟨l, ⟨hl, hs⟩, hd⟩

inductive Reach (g : G) : Nat → Nat → Prop
  | refl (x : Nat) : Reach g x x
  | step {x y z : Nat} : Reach g x y → Succ g y z → Reach g x z

theorem reach_sound (g : G) (P : Nat → Prop) (hP : ∀ x y, P x → Succ g x y → P y) :
    ∀ (fuel : Nat) (seen work : List Nat), (∀ x ∈ seen, P x) → (∀ x ∈ work, P x) →
      ∀ x ∈ reach g fuel seen work, P x
  | 0, seen, work, hs, _ => by simpa [reach] using hs
  | fuel+1, seen, [], hs, _ => by simpa [reach] using hs
  | fuel+1, seen, n :: rest, hs, hw => by
    simp only [reach]
    have hn : P n := hw n (by simp)
    have hnew : ∀ x ∈ ((succs g n).filter (fun x => !seen.contains x && !rest.contains x)).eraseDups, P x := by
      intro x hx
      exact hP n x hn (List.mem_filter.1 (List.mem_eraseDups.1 hx)).1
    apply reach_sound g P hP fuel
    · intro x hx
      rcases List.mem_append.1 hx with h | h
      · exact hs x h
      · exact hnew x h
    · intro x hx
      rcases List.mem_append.1 hx with h | h
      · exact hw x (by simp [h])
      · exact hnew x h

structure SearchInv (g : G) (U seen work : List Nat) : Prop where
  nodup : seen.Nodup
  sub : seen ⊆ U
  work_sub : work ⊆ seen
  closed : ∀ x ∈ seen, x ∉ work → ∀ y, Succ g x y → y ∈ seen

def UClosed (g : G) (U : List Nat) : Prop := ∀ x ∈ U, ∀ y, Succ g x y → y ∈ U

theorem reach_complete_aux (g : G) (U : List Nat) (hU : UClosed g U) :
    ∀ (fuel : Nat) (seen work : List Nat), SearchInv g U seen work → work.Nodup →
      work.length + U.length - seen.length ≤ fuel →
      ∀ x ∈ reach g fuel seen work, ∀ y, Succ g x y → y ∈ reach g fuel seen work
  | 0, seen, work, inv, _, hf => by
    have hlen : seen.length ≤ U.length := inv.nodup.length_le_of_subset inv.sub
    have hw : work = [] := by
      cases work with
      | nil => rfl
      | cons a as => simp only [List.length_cons] at hf; omega
    subst hw
    simp only [reach]
    intro x hx y hy
    exact inv.closed x hx (by simp) y hy
  | fuel+1, seen, [], inv, _, _ => by
    simp only [reach]
    intro x hx y hy
    exact inv.closed x hx (by simp) y hy
  | fuel+1, seen, n :: rest, inv, hwn, hf => by
    simp only [reach]
    have hn_seen : n ∈ seen := inv.work_sub (by simp)
    have hnew_nodup : (((succs g n).filter (fun x => !seen.contains x && !rest.contains x)).eraseDups).Nodup :=
      nodup_eraseDups _ _ (Nat.le_refl _)
    have hnew_not_seen : ∀ x ∈ ((succs g n).filter (fun x => !seen.contains x && !rest.contains x)).eraseDups, x ∉ seen := by
      intro x hx
      have := (List.mem_filter.1 (List.mem_eraseDups.1 hx)).2
      simp only [Bool.and_eq_true, Bool.not_eq_true', List.contains_eq_mem, decide_eq_false_iff_not] at this
      exact this.1
    have hnew_succ : ∀ x ∈ ((succs g n).filter (fun x => !seen.contains x && !rest.contains x)).eraseDups, Succ g n x := by
      intro x hx
      exact (List.mem_filter.1 (List.mem_eraseDups.1 hx)).1
    have hnew_mem : ∀ y, Succ g n y → y ∉ seen →
        y ∈ ((succs g n).filter (fun x => !seen.contains x && !rest.contains x)).eraseDups := by
      intro y hy hys
      refine List.mem_eraseDups.2 (List.mem_filter.2 ⟨hy, ?_⟩)
      have hyr : y ∉ rest := fun h => hys (inv.work_sub (by simp [h]))
      simp [hys, hyr]
    generalize ((succs g n).filter (fun x => !seen.contains x && !rest.contains x)).eraseDups = new at *
    have hrest_nodup : rest.Nodup := (List.nodup_cons.1 hwn).2
    apply reach_complete_aux g U hU fuel (seen ++ new) (rest ++ new)
    · refine ⟨?_, ?_, ?_, ?_⟩
      · exact List.nodup_append.2 ⟨inv.nodup, hnew_nodup, fun a ha b hb hab => hnew_not_seen b hb (hab ▸ ha)⟩
      · intro x hx
        rcases List.mem_append.1 hx with h | h
        · exact inv.sub h
        · exact hU n (inv.sub hn_seen) x (hnew_succ x h)
      · intro x hx
        rcases List.mem_append.1 hx with h | h
        · exact List.mem_append.2 (Or.inl (inv.work_sub (by simp [h])))
        · exact List.mem_append.2 (Or.inr h)
      · intro x hx hxw y hy
        rcases List.mem_append.1 hx with h | h
        · by_cases hxn : x = n
          · subst hxn
            by_cases hys : y ∈ seen
            · exact List.mem_append.2 (Or.inl hys)
            · exact List.mem_append.2 (Or.inr (hnew_mem y hy hys))
          · have : x ∉ n :: rest := by
              intro hm
              rcases List.mem_cons.1 hm with h1 | h1
              · exact hxn h1
              · exact hxw (List.mem_append.2 (Or.inl h1))
            exact List.mem_append.2 (Or.inl (inv.closed x h this y hy))
        · exact absurd (List.mem_append.2 (Or.inr h)) hxw
    · refine List.nodup_append.2 ⟨hrest_nodup, hnew_nodup, ?_⟩
      intro a ha b hb hab
      exact hnew_not_seen b hb (hab ▸ inv.work_sub (by simp [ha]))
    · have hlen2 : (seen ++ new).length ≤ U.length := by
        refine (List.nodup_append.2 ⟨inv.nodup, hnew_nodup, fun a ha b hb hab => hnew_not_seen b hb (hab ▸ ha)⟩).length_le_of_subset ?_
        intro x hx
        rcases List.mem_append.1 hx with h | h
        · exact inv.sub h
        · exact hU n (inv.sub hn_seen) x (hnew_succ x h)
      simp only [List.length_append, List.length_cons] at hf hlen2 ⊢
      omega

theorem reach_mono (g : G) : ∀ (fuel : Nat) (seen work : List Nat), ∀ x ∈ seen, x ∈ reach g fuel seen work
  | 0, seen, work, x, hx => by simpa [reach] using hx
  | fuel+1, seen, [], x, hx => by simpa [reach] using hx
  | fuel+1, seen, n :: rest, x, hx => by
    simp only [reach]
    exact reach_mono g fuel _ _ x (List.mem_append.2 (Or.inl hx))

/-- every line connects existing nodes -/
def LinesValid (g : G) : Prop := ∀ l ∈ g.lines, l.src < g.nodes.length ∧ l.dst < g.nodes.length

theorem pathExistsIds_iff (g : G) (hv : LinesValid g) (a b : Nat) (ha : a < g.nodes.length) :
    pathExistsIds g a b = true ↔ Reach g a b := by
  unfold pathExistsIds
  let U := List.range g.nodes.length
  have hU : UClosed g U := by
    intro x _ y hy
    obtain ⟨l, hl, _, hd⟩ := (succ_iff_line g x y).1 hy
    exact List.mem_range.2 (hd ▸ (hv l hl).2)
  constructor
  · intro h
    simp only [Bool.or_eq_true, beq_iff_eq, List.contains_eq_mem, decide_eq_true_eq] at h
    rcases h with h | h
    · subst h; exact Reach.refl _
    · exact reach_sound g (fun y => Reach g a y) (fun x y hx hs => Reach.step hx hs) _ [a] [a]
        (by intro y hy; simp at hy; subst hy; exact Reach.refl _)
        (by intro y hy; simp at hy; subst hy; exact Reach.refl _) b h
  · intro h
    have inv : SearchInv g U [a] [a] :=
      ⟨by simp, by intro x hx; simp at hx; subst hx; exact List.mem_range.2 ha, by simp,
       by intro x hx hna; simp at hx; subst hx; simp at hna⟩
    have hclosed := reach_complete_aux g U hU (g.nodes.length + 1) [a] [a] inv (by simp) (by simp [U])
    have : b ∈ reach g (g.nodes.length + 1) [a] [a] := by
      induction h with
      | refl => exact reach_mono g _ _ _ a (by simp)
      | step _ hs ih => exact hclosed _ ih _ hs
    simp [this]

end FgaVerif.Model.PGraph
