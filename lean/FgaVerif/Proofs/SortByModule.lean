import FgaVerif.Model.Printer
import FgaVerif.Proofs.Sort
/-! `sortByModule` (as a ≤ test) is a total preorder on (name, module, file) keys: unattributed items
    first, then by module, file, name; two keys that are each ≤ the other have the same name. -/
namespace FgaVerif.Model.Printer

structure Key where
  name : String
  module : String
  file : String

def keyLe (a b : Key) : Bool := sortByModuleLe a.name b.name a.module b.module a.file b.file

/-- the order as a proposition -/
def KeyLe (a b : Key) : Prop :=
  (a.module = "" ∧ b.module = "" ∧ a.name ≤ b.name) ∨
  (a.module = "" ∧ b.module ≠ "") ∨
  (a.module ≠ "" ∧ b.module ≠ "" ∧
    ((a.module ≠ b.module ∧ a.module ≤ b.module) ∨
     (a.module = b.module ∧ ((a.file ≠ b.file ∧ a.file ≤ b.file) ∨ (a.file = b.file ∧ a.name ≤ b.name)))))

theorem keyLe_iff (a b : Key) : keyLe a b = true ↔ KeyLe a b := by
  unfold keyLe sortByModuleLe KeyLe
  by_cases ha : a.module = "" <;> by_cases hb : b.module = "" <;>
    by_cases hm : a.module = b.module <;> by_cases hf : a.file = b.file <;>
    simp_all

theorem keyLe_total (a b : Key) : keyLe a b = true ∨ keyLe b a = true := by
  rw [keyLe_iff, keyLe_iff]
  unfold KeyLe
  by_cases ha : a.module = "" <;> by_cases hb : b.module = ""
  · rcases String.le_total a.name b.name with h | h
    · exact Or.inl (Or.inl ⟨ha, hb, h⟩)
    · exact Or.inr (Or.inl ⟨hb, ha, h⟩)
  · exact Or.inl (Or.inr (Or.inl ⟨ha, hb⟩))
  · exact Or.inr (Or.inr (Or.inl ⟨hb, ha⟩))
  · by_cases hm : a.module = b.module
    · by_cases hf : a.file = b.file
      · rcases String.le_total a.name b.name with h | h
        · exact Or.inl (Or.inr (Or.inr ⟨ha, hb, Or.inr ⟨hm, Or.inr ⟨hf, h⟩⟩⟩))
        · exact Or.inr (Or.inr (Or.inr ⟨hb, ha, Or.inr ⟨hm.symm, Or.inr ⟨hf.symm, h⟩⟩⟩))
      · rcases String.le_total a.file b.file with h | h
        · exact Or.inl (Or.inr (Or.inr ⟨ha, hb, Or.inr ⟨hm, Or.inl ⟨hf, h⟩⟩⟩))
        · exact Or.inr (Or.inr (Or.inr ⟨hb, ha, Or.inr ⟨hm.symm, Or.inl ⟨fun e => hf e.symm, h⟩⟩⟩))
    · rcases String.le_total a.module b.module with h | h
      · exact Or.inl (Or.inr (Or.inr ⟨ha, hb, Or.inl ⟨hm, h⟩⟩))
      · exact Or.inr (Or.inr (Or.inr ⟨hb, ha, Or.inl ⟨fun e => hm e.symm, h⟩⟩))

theorem keyLe_antisymm_name (a b : Key) (h1 : keyLe a b = true) (h2 : keyLe b a = true) : a.name = b.name := by
  rw [keyLe_iff] at h1 h2
  unfold KeyLe at h1 h2
  rcases h1 with ⟨ha, hb, hn⟩ | ⟨ha, hb⟩ | ⟨ha, hb, h1⟩
  · rcases h2 with ⟨_, _, hn2⟩ | ⟨_, hb2⟩ | ⟨hb2, _, _⟩
    · exact String.le_antisymm hn hn2
    · exact absurd ha hb2
    · exact absurd hb hb2
  · rcases h2 with ⟨hb2, _, _⟩ | ⟨hb2, _⟩ | ⟨_, ha2, _⟩
    · exact absurd hb2 hb
    · exact absurd hb2 hb
    · exact absurd ha ha2
  · rcases h2 with ⟨hb2, _, _⟩ | ⟨hb2, _⟩ | ⟨_, _, h2⟩
    · exact absurd hb2 hb
    · exact absurd hb2 hb
    · rcases h1 with ⟨hne, hle⟩ | ⟨hm, h1⟩
      · rcases h2 with ⟨_, hle2⟩ | ⟨hm2, _⟩
        · exact absurd (String.le_antisymm hle hle2) hne
        · exact absurd hm2.symm hne
      · rcases h2 with ⟨hne2, _⟩ | ⟨_, h2⟩
        · exact absurd hm.symm hne2
        · rcases h1 with ⟨hfne, hfle⟩ | ⟨hf, hn⟩
          · rcases h2 with ⟨_, hfle2⟩ | ⟨hf2, _⟩
            · exact absurd (String.le_antisymm hfle hfle2) hfne
            · exact absurd hf2.symm hfne
          · rcases h2 with ⟨hfne2, _⟩ | ⟨_, hn2⟩
            · exact absurd hf.symm hfne2
            · exact String.le_antisymm hn hn2

theorem le_of_le_ne_trans {a b c : String} (h1 : a ≤ b) (h2 : b ≤ c) (hac : a = c) : a = b := by
  subst hac
  exact String.le_antisymm h1 h2

theorem keyLe_trans (a b c : Key) (h1 : keyLe a b = true) (h2 : keyLe b c = true) : keyLe a c = true := by
  rw [keyLe_iff] at h1 h2 ⊢
  unfold KeyLe at h1 h2 ⊢
  rcases h1 with ⟨ha, hb, hn⟩ | ⟨ha, hb⟩ | ⟨ha, hb, h1⟩
  · rcases h2 with ⟨_, hc, hn2⟩ | ⟨_, hc⟩ | ⟨hb2, _, _⟩
    · exact Or.inl ⟨ha, hc, String.le_trans hn hn2⟩
    · exact Or.inr (Or.inl ⟨ha, hc⟩)
    · exact absurd hb hb2
  · rcases h2 with ⟨hb2, _, _⟩ | ⟨hb2, _⟩ | ⟨_, hc, _⟩
    · exact absurd hb2 hb
    · exact absurd hb2 hb
    · exact Or.inr (Or.inl ⟨ha, hc⟩)
  · rcases h2 with ⟨hb2, _, _⟩ | ⟨hb2, _⟩ | ⟨_, hc, h2⟩
    · exact absurd hb2 hb
    · exact absurd hb2 hb
    · refine Or.inr (Or.inr ⟨ha, hc, ?_⟩)
      rcases h1 with ⟨hne, hle⟩ | ⟨hm, h1⟩
      · rcases h2 with ⟨hne2, hle2⟩ | ⟨hm2, _⟩
        · refine Or.inl ⟨?_, String.le_trans hle hle2⟩
          intro hac
          exact hne (le_of_le_ne_trans hle hle2 hac)
        · exact Or.inl ⟨by rw [← hm2]; exact hne, by rw [← hm2]; exact hle⟩
      · rcases h2 with ⟨hne2, hle2⟩ | ⟨hm2, h2⟩
        · exact Or.inl ⟨by rw [hm]; exact hne2, by rw [hm]; exact hle2⟩
        · refine Or.inr ⟨hm.trans hm2, ?_⟩
          rcases h1 with ⟨hfne, hfle⟩ | ⟨hf, hn⟩
          · rcases h2 with ⟨hfne2, hfle2⟩ | ⟨hf2, _⟩
            · refine Or.inl ⟨?_, String.le_trans hfle hfle2⟩
              intro hac
              exact hfne (le_of_le_ne_trans hfle hfle2 hac)
            · exact Or.inl ⟨by rw [← hf2]; exact hfne, by rw [← hf2]; exact hfle⟩
          · rcases h2 with ⟨hfne2, hfle2⟩ | ⟨hf2, hn2⟩
            · exact Or.inl ⟨by rw [hf]; exact hfne2, by rw [hf]; exact hfle2⟩
            · exact Or.inr ⟨hf.trans hf2, String.le_trans hn hn2⟩

end FgaVerif.Model.Printer
