import FgaVerif.Proofs.MergeRelAttr
import FgaVerif.Proofs.MergeAttr
/-! Where the merger's errors come from: every error of `merge` is a syntax error of one file's own
    parse, or a conflict naming an input file, and the named file really contains the offending
    declaration.  Nothing here assumes `FilesWF`: the hypothesis is that `merge` returned an error
    list (so no panic happened). -/
namespace FgaVerif.Model.Merge
open FgaVerif.Model FgaVerif.Model.Listener

/-! ### telling the five messages apart -/

theorem str_append_left_cancel {a b c : String} (h : a ++ b = a ++ c) : b = c := by
  have := congrArg String.toList h
  simp only [String.toList_append, List.append_cancel_left_eq] at this
  exact String.toList_inj.1 this

theorem str_append_right_cancel {a b c : String} (h : a ++ c = b ++ c) : a = b := by
  have := congrArg String.toList h
  simp only [String.toList_append, List.append_cancel_right_eq] at this
  exact String.toList_inj.1 this

/-! ### the first loop, one definition at a time -/

/-- the body of `collectTypes` -/
def typeStep (file : String) (lines : List (List Char)) (exts : Option (List (String × Nat)))
    (td : TypeDef) (i : Nat) (st : MState) : MState :=
  let ext := isExtensionAt exts td.name i
  if st.types.contains td.name && !ext then
    let pos := constructLineAndColumnData lines (lineWithPrefix ("type " ++ td.name) lines) td.name
    { st with errors := st.errors ++ [.mod ("duplicate type definition " ++ td.name) file pos] }
  else if ext then
    { st with extended := AList.insert file ((AList.find? file st.extended).getD [] ++ [td]) st.extended }
  else
    let st := { st with types := st.types ++ [td.name] }
    if modName td != "" then
      { st with rawTypeDefs := st.rawTypeDefs ++ [setTypeFile td file] }
    else
      { st with errors := st.errors ++ [.mod "file is not a module" file {}] }

theorem collectTypes_cons (file : String) (lines : List (List Char)) (exts : Option (List (String × Nat)))
    (td : TypeDef) (rest : List TypeDef) (i : Nat) (st : MState) :
    collectTypes file lines exts (td :: rest) i st =
      collectTypes file lines exts rest (i + 1) (typeStep file lines exts td i st) := rfl

/-- the "duplicate type definition" error as the first loop raises it -/
def dupTypeErr (file : String) (lines : List (List Char)) (n : String) : MergeErr :=
  .mod ("duplicate type definition " ++ n) file
    (constructLineAndColumnData lines (lineWithPrefix ("type " ++ n) lines) n)

/-- the "duplicate condition" error as the first loop raises it -/
def dupCondErr (file : String) (lines : List (List Char)) (n : String) : MergeErr :=
  .mod ("duplicate condition " ++ n) file
    (constructLineAndColumnData lines (lineWithPrefix ("condition " ++ n) lines) n)

theorem typeStep_errors (file : String) (lines : List (List Char)) (exts : Option (List (String × Nat)))
    (td : TypeDef) (i : Nat) (st : MState) :
    ∀ err ∈ (typeStep file lines exts td i st).errors,
      err ∈ st.errors ∨
      (isExtensionAt exts td.name i = false ∧ td.name ∈ st.types ∧ err = dupTypeErr file lines td.name) ∨
      (isExtensionAt exts td.name i = false ∧ modName td = "" ∧ err = .mod "file is not a module" file {}) := by
  intro err herr
  unfold typeStep at herr
  simp only at herr
  split at herr
  · rename_i hc
    simp only [Bool.and_eq_true, Bool.not_eq_true', List.contains_eq_mem, decide_eq_true_eq] at hc
    simp only [List.mem_append, List.mem_singleton] at herr
    rcases herr with h | h
    · exact Or.inl h
    · exact Or.inr (Or.inl ⟨hc.2, hc.1, h⟩)
  · split at herr
    · exact Or.inl herr
    · rename_i hext
      have hext' : isExtensionAt exts td.name i = false := by simpa using hext
      split at herr
      · exact Or.inl herr
      · rename_i hm
        simp only [List.mem_append, List.mem_singleton] at herr
        rcases herr with h | h
        · exact Or.inl h
        · exact Or.inr (Or.inr ⟨hext', by simpa using hm, h⟩)

theorem typeStep_types (file : String) (lines : List (List Char)) (exts : Option (List (String × Nat)))
    (td : TypeDef) (i : Nat) (st : MState) :
    ∀ n ∈ (typeStep file lines exts td i st).types,
      n ∈ st.types ∨ (n = td.name ∧ isExtensionAt exts td.name i = false) := by
  intro n hn
  unfold typeStep at hn
  simp only at hn
  split at hn
  · exact Or.inl hn
  · split at hn
    · exact Or.inl hn
    · rename_i hext
      have hext' : isExtensionAt exts td.name i = false := by simpa using hext
      split at hn <;>
      · simp only [List.mem_append, List.mem_singleton] at hn
        rcases hn with h | h
        · exact Or.inl h
        · exact Or.inr ⟨h, hext'⟩

theorem typeStep_raw (file : String) (lines : List (List Char)) (exts : Option (List (String × Nat)))
    (td : TypeDef) (i : Nat) (st : MState) :
    ∀ t ∈ (typeStep file lines exts td i st).rawTypeDefs,
      t ∈ st.rawTypeDefs ∨ (isExtensionAt exts td.name i = false ∧ t = setTypeFile td file) := by
  intro t ht
  unfold typeStep at ht
  simp only at ht
  split at ht
  · exact Or.inl ht
  · split at ht
    · exact Or.inl ht
    · rename_i hext
      have hext' : isExtensionAt exts td.name i = false := by simpa using hext
      split at ht
      · simp only [List.mem_append, List.mem_singleton] at ht
        rcases ht with h | h
        · exact Or.inl h
        · exact Or.inr ⟨hext', h⟩
      · exact Or.inl ht

theorem typeStep_raw_mono (file : String) (lines : List (List Char)) (exts : Option (List (String × Nat)))
    (td : TypeDef) (i : Nat) (st : MState) :
    ∀ t ∈ st.rawTypeDefs, t ∈ (typeStep file lines exts td i st).rawTypeDefs := by
  intro t ht
  unfold typeStep
  simp only
  split
  · exact ht
  · split
    · exact ht
    · split
      · exact List.mem_append_left _ ht
      · exact ht

/-- a first base definition that carries a module name is registered -/
theorem typeStep_first (file : String) (lines : List (List Char)) (exts : Option (List (String × Nat)))
    (td : TypeDef) (i : Nat) (st : MState) (hext : isExtensionAt exts td.name i = false)
    (hnew : td.name ∉ st.types) (hm : modName td ≠ "") :
    td.name ∈ (typeStep file lines exts td i st).rawTypeDefs.map (·.name) := by
  unfold typeStep
  have h1 : st.types.contains td.name = false := by simpa using hnew
  have h2 : (modName td != "") = true := by simpa using hm
  simp only [hext, h1, Bool.not_false, Bool.and_true, Bool.false_eq_true, if_false, h2, if_true]
  exact List.mem_map.2 ⟨setTypeFile td file, by simp, by unfold setTypeFile; split <;> rfl⟩

theorem collectTypes_errs (file : String) (lines : List (List Char)) (exts : Option (List (String × Nat))) :
    ∀ (tds : List TypeDef) (i : Nat) (st : MState), ∀ err ∈ (collectTypes file lines exts tds i st).errors,
      err ∈ st.errors ∨
      (∃ k td, tds[k]? = some td ∧ isExtensionAt exts td.name (i + k) = false ∧
        (td.name ∈ st.types ∨ ∃ k' td', k' < k ∧ tds[k']? = some td' ∧ td'.name = td.name ∧
            isExtensionAt exts td.name (i + k') = false) ∧
        err = dupTypeErr file lines td.name) ∨
      (∃ k td, tds[k]? = some td ∧ isExtensionAt exts td.name (i + k) = false ∧ modName td = "" ∧
        err = .mod "file is not a module" file {})
  | [], i, st, err, herr => by simp only [collectTypes] at herr; exact Or.inl herr
  | td :: rest, i, st, err, herr => by
    rw [collectTypes_cons] at herr
    rcases collectTypes_errs file lines exts rest (i + 1) _ err herr with h | ⟨k, td1, h1, h2, h3, h4⟩ | ⟨k, td1, h1, h2, h3, h4⟩
    · rcases typeStep_errors file lines exts td i st err h with h | ⟨a, b, c⟩ | ⟨a, b, c⟩
      · exact Or.inl h
      · exact Or.inr (Or.inl ⟨0, td, rfl, a, Or.inl b, c⟩)
      · exact Or.inr (Or.inr ⟨0, td, rfl, a, b, c⟩)
    · have e1 : i + 1 + k = i + (k + 1) := by omega
      refine Or.inr (Or.inl ⟨k + 1, td1, by simpa using h1, by rw [← e1]; exact h2, ?_, h4⟩)
      rcases h3 with h3 | ⟨k', td', g1, g2, g3, g4⟩
      · rcases typeStep_types file lines exts td i st _ h3 with h | ⟨h, h'⟩
        · exact Or.inl h
        · exact Or.inr ⟨0, td, by omega, rfl, h.symm, by rw [h]; exact h'⟩
      · have e2 : i + 1 + k' = i + (k' + 1) := by omega
        exact Or.inr ⟨k' + 1, td', by omega, by simpa using g2, g3, by rw [← e2]; exact g4⟩
    · have e1 : i + 1 + k = i + (k + 1) := by omega
      exact Or.inr (Or.inr ⟨k + 1, td1, by simpa using h1, by rw [← e1]; exact h2, h3, h4⟩)

theorem collectTypes_types (file : String) (lines : List (List Char)) (exts : Option (List (String × Nat))) :
    ∀ (tds : List TypeDef) (i : Nat) (st : MState), ∀ n ∈ (collectTypes file lines exts tds i st).types,
      n ∈ st.types ∨ n ∈ (baseDefs exts tds i).map (·.name)
  | [], i, st, n, hn => by simp only [collectTypes] at hn; exact Or.inl hn
  | td :: rest, i, st, n, hn => by
    rw [collectTypes_cons] at hn
    simp only [baseDefs]
    rcases collectTypes_types file lines exts rest (i + 1) _ n hn with h | h
    · rcases typeStep_types file lines exts td i st n h with h | ⟨h, h'⟩
      · exact Or.inl h
      · right; simp [h', h]
    · right
      split
      · exact h
      · exact List.mem_cons_of_mem _ h

theorem collectTypes_raw_src (file : String) (lines : List (List Char)) (exts : Option (List (String × Nat))) :
    ∀ (tds : List TypeDef) (i : Nat) (st : MState), ∀ t ∈ (collectTypes file lines exts tds i st).rawTypeDefs,
      t ∈ st.rawTypeDefs ∨ ∃ td ∈ baseDefs exts tds i, t = setTypeFile td file
  | [], i, st, t, ht => by simp only [collectTypes] at ht; exact Or.inl ht
  | td :: rest, i, st, t, ht => by
    rw [collectTypes_cons] at ht
    simp only [baseDefs]
    rcases collectTypes_raw_src file lines exts rest (i + 1) _ t ht with h | ⟨td', h1, h2⟩
    · rcases typeStep_raw file lines exts td i st t h with h | ⟨h, h'⟩
      · exact Or.inl h
      · right; exact ⟨td, by simp [h], h'⟩
    · right
      refine ⟨td', ?_, h2⟩
      split
      · exact h1
      · exact List.mem_cons_of_mem _ h1

theorem collectTypes_raw_mono (file : String) (lines : List (List Char)) (exts : Option (List (String × Nat))) :
    ∀ (tds : List TypeDef) (i : Nat) (st : MState), ∀ t ∈ st.rawTypeDefs,
      t ∈ (collectTypes file lines exts tds i st).rawTypeDefs
  | [], i, st, t, ht => by simp only [collectTypes]; exact ht
  | td :: rest, i, st, t, ht => by
    rw [collectTypes_cons]
    exact collectTypes_raw_mono file lines exts rest (i + 1) _ t (typeStep_raw_mono file lines exts td i st t ht)

/-- if the first base definition named `N` among `tds` carries a module name (and `N` was not seen
    before), `N` is registered -/
theorem collectTypes_first (file : String) (lines : List (List Char)) (exts : Option (List (String × Nat))) (N : String) :
    ∀ (tds : List TypeDef) (i : Nat) (st : MState), N ∉ st.types →
      (∀ d, (baseDefs exts tds i).find? (fun d => d.name == N) = some d → modName d ≠ "" →
        N ∈ (collectTypes file lines exts tds i st).rawTypeDefs.map (·.name)) ∧
      ((baseDefs exts tds i).find? (fun d => d.name == N) = none →
        N ∉ (collectTypes file lines exts tds i st).types)
  | [], i, st, hN => by
    exact ⟨fun d h => by simp [baseDefs] at h, fun _ => by simpa only [collectTypes] using hN⟩
  | td :: rest, i, st, hN => by
    rw [collectTypes_cons]
    simp only [baseDefs]
    by_cases hext : isExtensionAt exts td.name i = true
    · simp only [hext, if_true]
      have hN1 : N ∉ (typeStep file lines exts td i st).types := by
        intro hc
        rcases typeStep_types file lines exts td i st N hc with h | ⟨_, h⟩
        · exact hN h
        · rw [hext] at h; cases h
      exact collectTypes_first file lines exts N rest (i + 1) _ hN1
    · have hext' : isExtensionAt exts td.name i = false := by simpa using hext
      simp only [hext', Bool.false_eq_true, if_false, List.find?_cons]
      by_cases hn : td.name = N
      · subst hn
        simp only [beq_self_eq_true]
        refine ⟨?_, fun h => by cases h⟩
        intro d hd hm
        simp only [Option.some.injEq] at hd
        subst hd
        have h1 := typeStep_first file lines exts td i st hext' hN hm
        obtain ⟨t, ht, htn⟩ := List.mem_map.1 h1
        exact List.mem_map.2 ⟨t, collectTypes_raw_mono file lines exts rest (i + 1) _ t ht, htn⟩
      · have hn' : (td.name == N) = false := by simpa using hn
        simp only [hn']
        have hN1 : N ∉ (typeStep file lines exts td i st).types := by
          intro hc
          rcases typeStep_types file lines exts td i st N hc with h | ⟨h, _⟩
          · exact hN h
          · exact hn h.symm
        exact collectTypes_first file lines exts N rest (i + 1) _ hN1

/-! ### conditions -/

/-- the body of `collectConds` -/
def condStep (file : String) (lines : List (List Char)) (name : String) (c : Condition) (st : MState) : MState :=
  if AList.contains name st.conditions then
    let pos := constructLineAndColumnData lines (lineWithPrefix ("condition " ++ name) lines) name
    { st with errors := st.errors ++ [.mod ("duplicate condition " ++ name) file pos] }
  else
    match c.md with
    | none => { st with errors := st.errors ++ [.mod "file is not a module" file {}] }
    | some m =>
      { st with conditions := AList.insert name { c with md := some { m with file := file } } st.conditions }

theorem collectConds_cons (file : String) (lines : List (List Char)) (name : String) (c : Condition)
    (rest : List (String × Condition)) (st : MState) :
    collectConds file lines ((name, c) :: rest) st = collectConds file lines rest (condStep file lines name c st) := rfl

theorem condStep_errors (file : String) (lines : List (List Char)) (name : String) (c : Condition) (st : MState) :
    ∀ err ∈ (condStep file lines name c st).errors,
      err ∈ st.errors ∨ (AList.contains name st.conditions = true ∧ err = dupCondErr file lines name) ∨
      (c.md = none ∧ err = .mod "file is not a module" file {}) := by
  intro err herr
  unfold condStep at herr
  split at herr
  · rename_i hc
    simp only [List.mem_append, List.mem_singleton] at herr
    rcases herr with h | h
    · exact Or.inl h
    · exact Or.inr (Or.inl ⟨hc, h⟩)
  · split at herr
    · rename_i hmd
      simp only [List.mem_append, List.mem_singleton] at herr
      rcases herr with h | h
      · exact Or.inl h
      · exact Or.inr (Or.inr ⟨hmd, h⟩)
    · exact Or.inl herr

theorem condStep_conds (file : String) (lines : List (List Char)) (name : String) (c : Condition) (st : MState) (x : String) :
    AList.contains x (condStep file lines name c st).conditions = true →
      AList.contains x st.conditions = true ∨ x = name := by
  intro h
  unfold condStep at h
  split at h
  · exact Or.inl h
  · split at h
    · exact Or.inl h
    · simp only [AList.contains_insert, Bool.or_eq_true, beq_iff_eq] at h
      rcases h with h | h
      · exact Or.inr h
      · exact Or.inl h

theorem collectConds_errs (file : String) (lines : List (List Char)) :
    ∀ (cs : List (String × Condition)) (st : MState), ∀ err ∈ (collectConds file lines cs st).errors,
      err ∈ st.errors ∨
      (∃ (k : Nat) (name : String) (c : Condition), cs[k]? = some (name, c) ∧
        (AList.contains name st.conditions = true ∨ ∃ k' c', k' < k ∧ cs[k']? = some (name, c')) ∧
        err = dupCondErr file lines name) ∨
      (∃ (k : Nat) (name : String) (c : Condition), cs[k]? = some (name, c) ∧ c.md = none ∧ err = .mod "file is not a module" file {})
  | [], st, err, herr => by simp only [collectConds] at herr; exact Or.inl herr
  | (name, c) :: rest, st, err, herr => by
    rw [collectConds_cons] at herr
    rcases collectConds_errs file lines rest _ err herr with h | ⟨k, n1, c1, h1, h2, h3⟩ | ⟨k, n1, c1, h1, h2, h3⟩
    · rcases condStep_errors file lines name c st err h with h | ⟨a, b⟩ | ⟨a, b⟩
      · exact Or.inl h
      · exact Or.inr (Or.inl ⟨0, name, c, rfl, Or.inl a, b⟩)
      · exact Or.inr (Or.inr ⟨0, name, c, rfl, a, b⟩)
    · refine Or.inr (Or.inl ⟨k + 1, n1, c1, by simpa using h1, ?_, h3⟩)
      rcases h2 with h2 | ⟨k', c', g1, g2⟩
      · rcases condStep_conds file lines name c st n1 h2 with h | h
        · exact Or.inl h
        · exact Or.inr ⟨0, c, by omega, by rw [h]; rfl⟩
      · exact Or.inr ⟨k' + 1, c', by omega, by simpa using g2⟩
    · exact Or.inr (Or.inr ⟨k + 1, n1, c1, by simpa using h1, h2, h3⟩)

theorem collectConds_conds (file : String) (lines : List (List Char)) (x : String) :
    ∀ (cs : List (String × Condition)) (st : MState),
      AList.contains x (collectConds file lines cs st).conditions = true →
        AList.contains x st.conditions = true ∨ x ∈ cs.map (·.1)
  | [], st, h => by simp only [collectConds] at h; exact Or.inl h
  | (name, c) :: rest, st, h => by
    rw [collectConds_cons] at h
    rcases collectConds_conds file lines x rest _ h with h | h
    · rcases condStep_conds file lines name c st x h with h | h
      · exact Or.inl h
      · right; simp [h]
    · right; simp only [List.map_cons]; exact List.mem_cons_of_mem _ h

/-! ### the first loop over all files -/

/-- `err` is raised by the first loop while it reads file `f`, the files `pre` having been read before -/
def FileErr (pre : List FileIn) (f : FileIn) (err : MergeErr) : Prop :=
  (∃ l e, f.outcome = .errors l ∧ e ∈ l ∧ err = .syn e) ∨
  (∃ mdl exts, f.outcome = .ok mdl exts ∧
    ((∃ i td, mdl.types[i]? = some td ∧ isExtensionAt exts td.name i = false ∧
        (td.name ∈ pre.flatMap fileBaseNames ∨
          ∃ j td', j < i ∧ mdl.types[j]? = some td' ∧ td'.name = td.name ∧ isExtensionAt exts td.name j = false) ∧
        err = dupTypeErr f.name (splitLines f.contents) td.name) ∨
     (∃ i td, mdl.types[i]? = some td ∧ isExtensionAt exts td.name i = false ∧ modName td = "" ∧
        err = .mod "file is not a module" f.name {}) ∨
     (∃ (i : Nat) (name : String) (c : Condition), mdl.conds[i]? = some (name, c) ∧
        (name ∈ pre.flatMap fileCondNames ∨ ∃ j c', j < i ∧ mdl.conds[j]? = some (name, c')) ∧
        err = dupCondErr f.name (splitLines f.contents) name) ∨
     (∃ (i : Nat) (name : String) (c : Condition), mdl.conds[i]? = some (name, c) ∧ c.md = none ∧ err = .mod "file is not a module" f.name {})))

theorem collect_errs :
    ∀ (rest pre : List FileIn) (st r : MState), collect rest st = .ok r →
      (∀ n ∈ st.types, n ∈ pre.flatMap fileBaseNames) →
      (∀ n, AList.contains n st.conditions = true → n ∈ pre.flatMap fileCondNames) →
      ∀ err ∈ r.errors, err ∈ st.errors ∨ ∃ a f b, rest = a ++ f :: b ∧ FileErr (pre ++ a) f err
  | [], pre, st, r, h, _, _, err, herr => by
    simp only [collect, Except.ok.injEq] at h; subst h; exact Or.inl herr
  | f :: rest, pre, st, r, h, hT, hC, err, herr => by
    have shift : (∃ a f' b, rest = a ++ f' :: b ∧ FileErr (pre ++ [f] ++ a) f' err) →
        ∃ a f' b, f :: rest = a ++ f' :: b ∧ FileErr (pre ++ a) f' err := by
      rintro ⟨a, f', b, h1, h2⟩
      exact ⟨f :: a, f', b, by rw [h1]; rfl, by simpa [List.append_assoc] using h2⟩
    simp only [collect] at h
    split at h
    · cases h
    · rename_i l hout
      have hT' : ∀ n ∈ st.types, n ∈ (pre ++ [f]).flatMap fileBaseNames := by
        intro n hn; rw [List.flatMap_append]; exact List.mem_append_left _ (hT n hn)
      have hC' : ∀ n, AList.contains n st.conditions = true → n ∈ (pre ++ [f]).flatMap fileCondNames := by
        intro n hn; rw [List.flatMap_append]; exact List.mem_append_left _ (hC n hn)
      rcases collect_errs rest (pre ++ [f]) _ r h hT' hC' err herr with h1 | h1
      · simp only [List.mem_append, List.mem_map] at h1
        rcases h1 with h1 | ⟨e, he, rfl⟩
        · exact Or.inl h1
        · exact Or.inr ⟨[], f, rest, rfl, by rw [List.append_nil]; exact Or.inl ⟨l, e, hout, he, rfl⟩⟩
      · exact Or.inr (shift h1)
    · rename_i mdl exts hout
      let st0 : MState := { st with moduleFiles := AList.insert f.name (splitLines f.contents) st.moduleFiles }
      obtain ⟨_, _, hcond1, _⟩ := collectTypes_spec f.name (splitLines f.contents) exts mdl.types 0 st0
      obtain ⟨_, _, hty2, _, _, _⟩ := collectConds_spec f.name (splitLines f.contents) mdl.conds
        (collectTypes f.name (splitLines f.contents) exts mdl.types 0 st0) _ (fun x => AList.contains_eq_keys x _)
      have hT' : ∀ n ∈ (collectConds f.name (splitLines f.contents) mdl.conds
          (collectTypes f.name (splitLines f.contents) exts mdl.types 0 st0)).types,
          n ∈ (pre ++ [f]).flatMap fileBaseNames := by
        intro n hn
        rw [hty2] at hn
        rw [List.flatMap_append]
        rcases collectTypes_types f.name (splitLines f.contents) exts mdl.types 0 st0 n hn with h1 | h1
        · exact List.mem_append_left _ (hT n h1)
        · refine List.mem_append_right _ ?_
          simp only [List.flatMap_cons, List.flatMap_nil, List.append_nil, fileBaseNames, hout]
          exact h1
      have hC' : ∀ n, AList.contains n (collectConds f.name (splitLines f.contents) mdl.conds
          (collectTypes f.name (splitLines f.contents) exts mdl.types 0 st0)).conditions = true →
          n ∈ (pre ++ [f]).flatMap fileCondNames := by
        intro n hn
        rw [List.flatMap_append]
        rcases collectConds_conds f.name (splitLines f.contents) n mdl.conds _ hn with h1 | h1
        · rw [hcond1] at h1
          exact List.mem_append_left _ (hC n h1)
        · refine List.mem_append_right _ ?_
          simp only [List.flatMap_cons, List.flatMap_nil, List.append_nil, fileCondNames, hout]
          exact h1
      rcases collect_errs rest (pre ++ [f]) _ r h hT' hC' err herr with h1 | h1
      · rcases collectConds_errs f.name (splitLines f.contents) mdl.conds _ err h1 with
          h2 | ⟨k, n1, c1, g1, g2, g3⟩ | ⟨k, n1, c1, g1, g2, g3⟩
        · rcases collectTypes_errs f.name (splitLines f.contents) exts mdl.types 0 st0 err h2 with
            h3 | ⟨k, td, g1, g2, g3, g4⟩ | ⟨k, td, g1, g2, g3, g4⟩
          · exact Or.inl h3
          · refine Or.inr ⟨[], f, rest, rfl, Or.inr ⟨mdl, exts, hout, Or.inl ⟨k, td, g1, by simpa using g2, ?_, g4⟩⟩⟩
            rw [List.append_nil]
            rcases g3 with g3 | ⟨k', td', q1, q2, q3, q4⟩
            · exact Or.inl (hT _ g3)
            · exact Or.inr ⟨k', td', q1, q2, q3, by simpa using q4⟩
          · exact Or.inr ⟨[], f, rest, rfl, Or.inr ⟨mdl, exts, hout, Or.inr (Or.inl ⟨k, td, g1, by simpa using g2, g3, g4⟩)⟩⟩
        · refine Or.inr ⟨[], f, rest, rfl, Or.inr ⟨mdl, exts, hout, Or.inr (Or.inr (Or.inl ⟨k, n1, c1, g1, ?_, g3⟩))⟩⟩
          rw [List.append_nil]
          rcases g2 with g2 | g2
          · rw [hcond1] at g2
            exact Or.inl (hC _ g2)
          · exact Or.inr g2
        · exact Or.inr ⟨[], f, rest, rfl, Or.inr ⟨mdl, exts, hout, Or.inr (Or.inr (Or.inr ⟨k, n1, c1, g1, g2, g3⟩))⟩⟩
      · exact Or.inr (shift h1)

/-- registered base definitions are never dropped by the first loop -/
theorem collect_raw_mono :
    ∀ (fs : List FileIn) (st r : MState), collect fs st = .ok r → ∀ t ∈ st.rawTypeDefs, t ∈ r.rawTypeDefs
  | [], st, r, h, t, ht => by simp only [collect, Except.ok.injEq] at h; subst h; exact ht
  | f :: rest, st, r, h, t, ht => by
    simp only [collect] at h
    split at h
    · cases h
    · exact collect_raw_mono rest _ r h t ht
    · rename_i mdl exts hout
      refine collect_raw_mono rest _ r h t ?_
      obtain ⟨_, _, _, hraw2, _, _⟩ := collectConds_spec f.name (splitLines f.contents) mdl.conds
        (collectTypes f.name (splitLines f.contents) exts mdl.types 0
          { st with moduleFiles := AList.insert f.name (splitLines f.contents) st.moduleFiles }) _
        (fun x => AList.contains_eq_keys x _)
      rw [hraw2]
      exact collectTypes_raw_mono f.name (splitLines f.contents) exts mdl.types 0 _ t ht

/-- every registered base definition is a base definition of some file (with that file's name recorded) -/
theorem collect_raw_src :
    ∀ (fs : List FileIn) (st r : MState), collect fs st = .ok r → ∀ t ∈ r.rawTypeDefs,
      t ∈ st.rawTypeDefs ∨ ∃ f ∈ fs, ∃ td ∈ fileBaseDefs f, t = setTypeFile td f.name
  | [], st, r, h, t, ht => by simp only [collect, Except.ok.injEq] at h; subst h; exact Or.inl ht
  | f :: rest, st, r, h, t, ht => by
    simp only [collect] at h
    split at h
    · cases h
    · rcases collect_raw_src rest _ r h t ht with h1 | ⟨f', hf', r'⟩
      · exact Or.inl h1
      · exact Or.inr ⟨f', by simp [hf'], r'⟩
    · rename_i mdl exts hout
      rcases collect_raw_src rest _ r h t ht with h1 | ⟨f', hf', r'⟩
      · obtain ⟨_, _, _, hraw2, _, _⟩ := collectConds_spec f.name (splitLines f.contents) mdl.conds
          (collectTypes f.name (splitLines f.contents) exts mdl.types 0
            { st with moduleFiles := AList.insert f.name (splitLines f.contents) st.moduleFiles }) _
          (fun x => AList.contains_eq_keys x _)
        rw [hraw2] at h1
        rcases collectTypes_raw_src f.name (splitLines f.contents) exts mdl.types 0 _ t h1 with h2 | ⟨td, g1, g2⟩
        · exact Or.inl h2
        · exact Or.inr ⟨f, by simp, td, by simp only [fileBaseDefs, hout]; exact g1, g2⟩
      · exact Or.inr ⟨f', by simp [hf'], r'⟩

/-- if the first base definition named `N` in the files carries a module name, `N` is registered -/
theorem collect_first (N : String) :
    ∀ (fs : List FileIn) (st r : MState), collect fs st = .ok r → N ∉ st.types →
      ∀ d, (fs.flatMap fileBaseDefs).find? (fun d => d.name == N) = some d → modName d ≠ "" →
        N ∈ r.rawTypeDefs.map (·.name)
  | [], st, r, _, _, d, hd, _ => by simp at hd
  | f :: rest, st, r, h, hN, d, hd, hm => by
    simp only [collect] at h
    simp only [List.flatMap_cons, List.find?_append] at hd
    split at h
    · cases h
    · rename_i l hout
      simp only [fileBaseDefs, hout, List.find?_nil, Option.none_or] at hd
      exact collect_first N rest _ r h hN d hd hm
    · rename_i mdl exts hout
      simp only [fileBaseDefs, hout] at hd
      let st0 : MState := { st with moduleFiles := AList.insert f.name (splitLines f.contents) st.moduleFiles }
      obtain ⟨_, _, hty2, hraw2, _, _⟩ := collectConds_spec f.name (splitLines f.contents) mdl.conds
        (collectTypes f.name (splitLines f.contents) exts mdl.types 0 st0) _
        (fun x => AList.contains_eq_keys x _)
      obtain ⟨c1, c2⟩ := collectTypes_first f.name (splitLines f.contents) exts N mdl.types 0 st0 hN
      cases hfa : (baseDefs exts mdl.types 0).find? (fun d => d.name == N) with
      | some d' =>
        rw [hfa] at hd
        simp only [Option.some_or, Option.some.injEq] at hd
        subst hd
        obtain ⟨t, ht, htn⟩ := List.mem_map.1 (c1 d' hfa hm)
        refine List.mem_map.2 ⟨t, collect_raw_mono rest _ r h t ?_, htn⟩
        rw [hraw2]; exact ht
      | none =>
        rw [hfa] at hd
        simp only [Option.none_or] at hd
        refine collect_first N rest _ r h ?_ d hd hm
        rw [hty2]; exact c2 hfa

/-- the text the merger keeps for a file name is the text of an input file of that name -/
theorem collect_moduleFiles (k : String) :
    ∀ (fs : List FileIn) (st r : MState), collect fs st = .ok r →
      (AList.find? k r.moduleFiles = AList.find? k st.moduleFiles ∧ ∀ f ∈ fs, f.name ≠ k) ∨
      ∃ f ∈ fs, f.name = k ∧ AList.find? k r.moduleFiles = some (splitLines f.contents)
  | [], st, r, h => by
    simp only [collect, Except.ok.injEq] at h; subst h
    exact Or.inl ⟨rfl, fun f hf => by simp at hf⟩
  | f :: rest, st, r, h => by
    have key : ∀ (st1 : MState), st1.moduleFiles = AList.insert f.name (splitLines f.contents) st.moduleFiles →
        collect rest st1 = .ok r →
        (AList.find? k r.moduleFiles = AList.find? k st.moduleFiles ∧ ∀ f' ∈ f :: rest, f'.name ≠ k) ∨
        ∃ f' ∈ f :: rest, f'.name = k ∧ AList.find? k r.moduleFiles = some (splitLines f'.contents) := by
      intro st1 hmf h1
      rcases collect_moduleFiles k rest st1 r h1 with ⟨g1, g2⟩ | ⟨f', hf', g1, g2⟩
      · by_cases hk : f.name = k
        · subst hk
          refine Or.inr ⟨f, by simp, rfl, ?_⟩
          rw [g1, hmf, AList.find?_insert_self]
        · refine Or.inl ⟨?_, ?_⟩
          · rw [g1, hmf]
            exact AList.find?_insert_other f.name k (by simpa using fun e => hk e.symm) _ _
          · intro f' hf'
            rcases List.mem_cons.1 hf' with rfl | hf'
            · exact hk
            · exact g2 f' hf'
      · exact Or.inr ⟨f', by simp [hf'], g1, g2⟩
    simp only [collect] at h
    split at h
    · cases h
    · exact key _ rfl h
    · rename_i mdl exts hout
      refine key _ ?_ h
      obtain ⟨_, _, _, _, _, hmf2⟩ := collectConds_spec f.name (splitLines f.contents) mdl.conds
        (collectTypes f.name (splitLines f.contents) exts mdl.types 0
          { st with moduleFiles := AList.insert f.name (splitLines f.contents) st.moduleFiles }) _
        (fun x => AList.contains_eq_keys x _)
      obtain ⟨_, _, _, hmf1⟩ := collectTypes_spec f.name (splitLines f.contents) exts mdl.types 0
          { st with moduleFiles := AList.insert f.name (splitLines f.contents) st.moduleFiles }
      rw [hmf2, hmf1]

/-! ### the second loop -/

/-- the "relation already exists" error as the second loop raises it -/
def clashErr (file : String) (lines : List (List Char)) (k n : String) : MergeErr :=
  .mod ("relation " ++ k ++ " already exists on type " ++ n) file
    (constructLineAndColumnData lines (lineWithPrefix ("define " ++ k) lines) k)

/-- the "extended type does not exist" error as the second loop raises it -/
def missingErr (file : String) (lines : List (List Char)) (n : String) : MergeErr :=
  .mod ("extended type " ++ n ++ " does not exist") file
    (constructLineAndColumnData lines (lineWithPrefix ("extend type " ++ n) lines) n)

theorem addRelations_errs (file : String) (lines : List (List Char)) (existing : List String) (ext : TypeDef) :
    ∀ (rels : List (String × Userset)) (orig : TypeDef) (errs : List MergeErr) (orig' : TypeDef) (errs' : List MergeErr),
      addRelations file lines existing ext rels orig errs = .ok (orig', errs') →
      (∀ err ∈ errs', err ∈ errs ∨ ∃ k ∈ rels.map (·.1), k ∈ existing ∧ err = clashErr file lines k ext.name) ∧
      (∀ k ∈ AList.keys orig'.relations, k ∈ AList.keys orig.relations ∨ k ∈ rels.map (·.1))
  | [], orig, errs, orig', errs', h => by
    simp only [addRelations, Except.ok.injEq, Prod.mk.injEq] at h
    obtain ⟨rfl, rfl⟩ := h
    exact ⟨fun err he => Or.inl he, fun k hk => Or.inl hk⟩
  | (name, rel) :: rest, orig, errs, orig', errs', h => by
    simp only [addRelations] at h
    split at h
    · rename_i hc
      obtain ⟨g1, g2⟩ := addRelations_errs file lines existing ext rest orig _ orig' errs' h
      refine ⟨?_, ?_⟩
      · intro err he
        rcases g1 err he with h1 | ⟨k, hk, hk2, hk3⟩
        · simp only [List.mem_append, List.mem_singleton] at h1
          rcases h1 with h1 | h1
          · exact Or.inl h1
          · exact Or.inr ⟨name, by simp, by simpa using hc, h1⟩
        · exact Or.inr ⟨k, by simp only [List.map_cons]; exact List.mem_cons_of_mem _ hk, hk2, hk3⟩
      · intro k hk
        rcases g2 k hk with h1 | h1
        · exact Or.inl h1
        · exact Or.inr (by simp only [List.map_cons]; exact List.mem_cons_of_mem _ h1)
    · split at h
      · cases h
      · split at h
        · cases h
        · obtain ⟨g1, g2⟩ := addRelations_errs file lines existing ext rest _ errs orig' errs' h
          refine ⟨?_, ?_⟩
          · intro err he
            rcases g1 err he with h1 | ⟨k, hk, hk2, hk3⟩
            · exact Or.inl h1
            · exact Or.inr ⟨k, by simp only [List.map_cons]; exact List.mem_cons_of_mem _ hk, hk2, hk3⟩
          · intro k hk
            rcases g2 k hk with h1 | h1
            · simp only [AList.mem_keys_insert] at h1
              rcases h1 with h1 | h1
              · exact Or.inr (by simp [h1])
              · exact Or.inl h1
            · exact Or.inr (by simp only [List.map_cons]; exact List.mem_cons_of_mem _ h1)

theorem applyExtension_errs (file : String) (lines : List (List Char)) (ext : TypeDef) (st st' : MState)
    (h : applyExtension file lines ext st = .ok st') :
    (∀ err ∈ st'.errors, err ∈ st.errors ∨
      (ext.name ∉ st.rawTypeDefs.map (·.name) ∧ err = missingErr file lines ext.name) ∨
      (∃ k ∈ AList.keys ext.relations, k ∈ curKeys st.rawTypeDefs ext.name ∧ err = clashErr file lines k ext.name)) ∧
    st'.rawTypeDefs.map (·.name) = st.rawTypeDefs.map (·.name) ∧ st'.moduleFiles = st.moduleFiles ∧
    (∀ n k, k ∈ curKeys st'.rawTypeDefs n → k ∈ curKeys st.rawTypeDefs n ∨ (n = ext.name ∧ k ∈ AList.keys ext.relations)) := by
  unfold applyExtension at h
  cases hidx : st.rawTypeDefs.findIdx? (fun t => t.name == ext.name) with
  | none =>
    simp only [hidx, Except.ok.injEq] at h; subst h
    have hnone := findIdx?_none_find? _ _ hidx
    refine ⟨?_, rfl, rfl, fun n k hk => Or.inl hk⟩
    intro err he
    simp only [List.mem_append, List.mem_singleton] at he
    rcases he with he | he
    · exact Or.inl he
    · exact Or.inr (Or.inl ⟨find?_none_not_mem _ _ hnone, he⟩)
  | some i =>
    obtain ⟨x, hx⟩ := findIdx?_some_get _ _ _ hidx
    simp only [hidx, hx] at h
    have hxname : x.name = ext.name := by
      obtain ⟨_, hp, _⟩ := findIdx?_set (fun t => t.name == ext.name) id _ i x hidx hx
      simpa using hp
    have hfind : st.rawTypeDefs.find? (fun t => t.name == ext.name) = some x :=
      (findIdx?_set (fun t => t.name == ext.name) id _ i x hidx hx).2.2
    have hcur : curKeys st.rawTypeDefs ext.name = AList.keys x.relations := by simp [curKeys, hfind]
    split at h
    · simp only [Except.ok.injEq] at h; subst h
      let f : TypeDef → TypeDef := fun o =>
        { o with relations := ext.relations, md := some { (o.md.getD {}) with relations := setRelFiles file (relMetaOf ext) } }
      have hset := (findIdx?_set (fun t => t.name == ext.name) f _ i x hidx hx).1
      have hf : ∀ t, t.name = ext.name → (f t).name = t.name := fun t _ => rfl
      refine ⟨fun err he => Or.inl he, ?_, rfl, ?_⟩
      · show (replaceAt st.rawTypeDefs i (f x)).map (·.name) = _
        unfold replaceAt; rw [hset]; exact updFirst_names _ f hf _
      · intro n k hk
        change k ∈ curKeys (replaceAt st.rawTypeDefs i (f x)) n at hk
        unfold replaceAt at hk; rw [hset] at hk
        by_cases hn : n = ext.name
        · subst hn
          rw [curKeys_updFirst_same _ f hf _ x hfind] at hk
          exact Or.inr ⟨rfl, hk⟩
        · rw [curKeys_updFirst_other _ n hn f hf] at hk
          exact Or.inl hk
    · split at h
      · cases h
      · rename_i orig' errs hadd
        simp only [Except.ok.injEq] at h; subst h
        obtain ⟨g1, g2⟩ := addRelations_errs file lines _ ext _ x [] orig' errs hadd
        have hnm := addRelations_name file lines _ ext _ x [] orig' errs hadd
        let f : TypeDef → TypeDef := fun _ => orig'
        have hset := (findIdx?_set (fun t => t.name == ext.name) f _ i x hidx hx).1
        have hf : ∀ t, t.name = ext.name → (f t).name = t.name := fun t ht => by
          show orig'.name = t.name; rw [hnm, hxname, ht]
        refine ⟨?_, ?_, rfl, ?_⟩
        · intro err he
          simp only [List.mem_append] at he
          rcases he with he | he
          · exact Or.inl he
          · rcases g1 err he with h1 | ⟨k, hk, hk2, hk3⟩
            · simp at h1
            · exact Or.inr (Or.inr ⟨k, hk, by rw [hcur]; exact hk2, hk3⟩)
        · show (replaceAt st.rawTypeDefs i (f x)).map (·.name) = _
          unfold replaceAt; rw [hset]; exact updFirst_names _ f hf _
        · intro n k hk
          change k ∈ curKeys (replaceAt st.rawTypeDefs i (f x)) n at hk
          unfold replaceAt at hk; rw [hset] at hk
          by_cases hn : n = ext.name
          · subst hn
            rw [curKeys_updFirst_same _ f hf _ x hfind] at hk
            rcases g2 k hk with h1 | h1
            · exact Or.inl (by rw [hcur]; exact h1)
            · exact Or.inr ⟨rfl, h1⟩
          · rw [curKeys_updFirst_other _ n hn f hf] at hk
            exact Or.inl hk

/-- `err` is raised by the second loop while it applies the extension `e` (standing in `file`), the
    extensions `before` having been applied; `names` are the registered type names and `K0 n k` says
    that relation `k` was on type `n` when the loop started -/
def ExtErr (names : List String) (K0 : String → String → Prop) (before : List TypeDef)
    (file : String) (lines : List (List Char)) (e : TypeDef) (err : MergeErr) : Prop :=
  (e.name ∉ names ∧ err = missingErr file lines e.name) ∨
  (∃ k ∈ AList.keys e.relations,
    (K0 e.name k ∨ ∃ p ∈ before, p.name = e.name ∧ k ∈ AList.keys p.relations) ∧
    err = clashErr file lines k e.name)

theorem applyExtensions_errs (file : String) (lines : List (List Char)) (K0 : String → String → Prop) :
    ∀ (exts : List TypeDef) (st st' : MState) (applied : List TypeDef),
      applyExtensions file lines exts st = .ok st' →
      (∀ n k, k ∈ curKeys st.rawTypeDefs n → K0 n k ∨ ∃ p ∈ applied, p.name = n ∧ k ∈ AList.keys p.relations) →
      (∀ err ∈ st'.errors, err ∈ st.errors ∨
        ∃ a e b, exts = a ++ e :: b ∧ ExtErr (st.rawTypeDefs.map (·.name)) K0 (applied ++ a) file lines e err) ∧
      st'.rawTypeDefs.map (·.name) = st.rawTypeDefs.map (·.name) ∧ st'.moduleFiles = st.moduleFiles ∧
      (∀ n k, k ∈ curKeys st'.rawTypeDefs n →
        K0 n k ∨ ∃ p ∈ applied ++ exts, p.name = n ∧ k ∈ AList.keys p.relations)
  | [], st, st', applied, h, hK => by
    simp only [applyExtensions, Except.ok.injEq] at h; subst h
    exact ⟨fun err he => Or.inl he, rfl, rfl, by simpa using hK⟩
  | e :: rest, st, st', applied, h, hK => by
    simp only [applyExtensions] at h
    split at h
    · cases h
    · rename_i st1 h1
      obtain ⟨a1, a2, a3, a4⟩ := applyExtension_errs file lines e st st1 h1
      have hK1 : ∀ n k, k ∈ curKeys st1.rawTypeDefs n →
          K0 n k ∨ ∃ p ∈ applied ++ [e], p.name = n ∧ k ∈ AList.keys p.relations := by
        intro n k hk
        rcases a4 n k hk with h2 | ⟨h2, h3⟩
        · rcases hK n k h2 with h4 | ⟨p, hp, h4⟩
          · exact Or.inl h4
          · exact Or.inr ⟨p, List.mem_append_left _ hp, h4⟩
        · exact Or.inr ⟨e, by simp, h2.symm, h3⟩
      obtain ⟨b1, b2, b3, b4⟩ := applyExtensions_errs file lines K0 rest st1 st' (applied ++ [e]) h hK1
      refine ⟨?_, b2.trans a2, b3.trans a3, by simpa [List.append_assoc] using b4⟩
      intro err he
      rcases b1 err he with h2 | ⟨a, e', b, h2, h3⟩
      · rcases a1 err h2 with h3 | ⟨h3, h4⟩ | ⟨k, hk, h3, h4⟩
        · exact Or.inl h3
        · exact Or.inr ⟨[], e, rest, rfl, Or.inl ⟨h3, h4⟩⟩
        · refine Or.inr ⟨[], e, rest, rfl, Or.inr ⟨k, hk, ?_, h4⟩⟩
          rw [List.append_nil]
          exact hK _ _ h3
      · refine Or.inr ⟨e :: a, e', b, by rw [h2]; rfl, ?_⟩
        rw [a2] at h3
        simpa [List.append_assoc] using h3

theorem applyAll_errs (K0 : String → String → Prop) (mf : List (String × List (List Char))) :
    ∀ (xs : List (String × List TypeDef)) (st st' : MState) (applied : List TypeDef),
      applyAll xs st = .ok st' → st.moduleFiles = mf →
      (∀ n k, k ∈ curKeys st.rawTypeDefs n → K0 n k ∨ ∃ p ∈ applied, p.name = n ∧ k ∈ AList.keys p.relations) →
      ∀ err ∈ st'.errors, err ∈ st.errors ∨
        ∃ x ∈ xs, ∃ e ∈ x.2, ∃ a b, xs.flatMap (·.2) = a ++ e :: b ∧
          ExtErr (st.rawTypeDefs.map (·.name)) K0 (applied ++ a) x.1 ((AList.find? x.1 mf).getD []) e err
  | [], st, st', applied, h, _, _, err, he => by
    simp only [applyAll, Except.ok.injEq] at h; subst h; exact Or.inl he
  | (file, exts) :: rest, st, st', applied, h, hmf, hK, err, he => by
    simp only [applyAll] at h
    split at h
    · cases h
    · rename_i st1 h1
      rw [hmf] at h1
      obtain ⟨a1, a2, a3, a4⟩ := applyExtensions_errs file _ K0 exts st st1 applied h1 hK
      rcases applyAll_errs K0 mf rest st1 st' (applied ++ exts) h (a3.trans hmf) a4 err he with
        h2 | ⟨x, hx, e, hex, a, b, h2, h3⟩
      · rcases a1 err h2 with h3 | ⟨a, e, b, h3, h4⟩
        · exact Or.inl h3
        · refine Or.inr ⟨(file, exts), by simp, e, by rw [h3]; simp, a, b ++ rest.flatMap (·.2), ?_, h4⟩
          simp only [List.flatMap_cons, h3, List.append_assoc, List.cons_append]
      · refine Or.inr ⟨x, by simp [hx], e, hex, exts ++ a, b, ?_, ?_⟩
        · simp only [List.flatMap_cons, h2, List.append_assoc]
        · rw [a2] at h3
          simpa [List.append_assoc] using h3

/-! ### the whole merge -/

theorem stf_name (td : TypeDef) (f : String) : (setTypeFile td f).name = td.name := by
  unfold setTypeFile; split <;> rfl

theorem stf_relations (td : TypeDef) (f : String) : (setTypeFile td f).relations = td.relations := by
  unfold setTypeFile; split <;> rfl

theorem mem_contrib {n k : String} {d : TypeDef} {ds : List TypeDef} (hd : d ∈ ds) (hn : d.name = n)
    (hk : k ∈ AList.keys d.relations) : k ∈ contrib n ds := by
  unfold contrib
  exact List.mem_flatMap.2 ⟨d, List.mem_filter.2 ⟨hd, by simp [hn]⟩, hk⟩

/-- what an extension definition of a file is, in terms of the file's parse outcome -/
theorem mem_extDefs_iff (exts : Option (List (String × Nat))) (e : TypeDef) :
    ∀ (tds : List TypeDef) (i : Nat),
      e ∈ extDefs exts tds i ↔ ∃ k, tds[k]? = some e ∧ isExtensionAt exts e.name (i + k) = true
  | [], i => by simp [extDefs]
  | td :: rest, i => by
    have ih := mem_extDefs_iff exts e rest (i + 1)
    simp only [extDefs]
    constructor
    · intro h
      split at h
      · rename_i hext
        rcases List.mem_cons.1 h with rfl | h
        · exact ⟨0, rfl, hext⟩
        · obtain ⟨k, h1, h2⟩ := ih.1 h
          exact ⟨k + 1, by simpa using h1, by rw [show i + (k + 1) = i + 1 + k by omega]; exact h2⟩
      · obtain ⟨k, h1, h2⟩ := ih.1 h
        exact ⟨k + 1, by simpa using h1, by rw [show i + (k + 1) = i + 1 + k by omega]; exact h2⟩
    · rintro ⟨k, h1, h2⟩
      cases k with
      | zero =>
        simp only [List.getElem?_cons_zero, Option.some.injEq] at h1
        subst h1
        simp only [Nat.add_zero] at h2
        simp [h2]
      | succ k =>
        simp only [List.getElem?_cons_succ] at h1
        have : e ∈ extDefs exts rest (i + 1) :=
          ih.2 ⟨k, h1, by rw [show i + 1 + k = i + (k + 1) by omega]; exact h2⟩
        split
        · exact List.mem_cons_of_mem _ this
        · exact this

/-- `e` is one of the `extend type` blocks of file `f` -/
theorem mem_fileExtDefs_iff (f : FileIn) (e : TypeDef) :
    e ∈ fileExtDefs f ↔
      ∃ mdl exts i, f.outcome = .ok mdl exts ∧ mdl.types[i]? = some e ∧ isExtensionAt exts e.name i = true := by
  unfold fileExtDefs
  cases hout : f.outcome with
  | panic p => simp
  | errors l => simp
  | ok mdl exts =>
    simp only [mem_extDefs_iff, Nat.zero_add, Outcome.ok.injEq]
    constructor
    · rintro ⟨k, h1, h2⟩; exact ⟨mdl, exts, k, ⟨rfl, rfl⟩, h1, h2⟩
    · rintro ⟨m', e', k, ⟨rfl, rfl⟩, h1, h2⟩; exact ⟨k, h1, h2⟩

/-- **where every error of the merge comes from**: it is raised by the first loop while reading one
    file (a syntax error of that file's own parse, a duplicate type or condition, a declaration without
    module), or by the second loop while applying an `extend type` block `e` of a file `f` (its target
    is not registered; or one of its relations is already on the target: declared by the target's base
    definition, or by another extension block — the extension blocks of the files contribute it at
    least twice).  The position is computed in the text of an input file of the same name. -/
theorem merge_error_cases (fs : List FileIn) (v : String) (es : List MergeErr) (h : merge fs v = .errors es) :
    ∀ err ∈ es,
      (∃ pre f post, fs = pre ++ f :: post ∧ FileErr pre f err) ∨
      (∃ f ∈ fs, ∃ e ∈ fileExtDefs f, ∃ f' ∈ fs, f'.name = f.name ∧
        ((err = missingErr f.name (splitLines f'.contents) e.name ∧
            ∀ d, (fs.flatMap fileBaseDefs).find? (fun d => d.name == e.name) = some d → modName d = "") ∨
         (∃ k ∈ AList.keys e.relations, err = clashErr f.name (splitLines f'.contents) k e.name ∧
            (k ∈ contrib e.name (fs.flatMap fileBaseDefs) ∨
              2 ≤ (contrib e.name (fs.flatMap fileExtDefs)).count k)))) := by
  intro err herr
  unfold merge at h
  split at h
  · cases h
  · rename_i st hcol
    split at h
    · cases h
    · rename_i st2 happ
      split at h
      · cases h
      · simp only [MergeOutcome.errors.injEq] at h
        subst h
        rcases applyAll_errs (fun n k => k ∈ curKeys st.rawTypeDefs n) st.moduleFiles st.extended st st2 []
            happ rfl (fun n k hk => Or.inl hk) err herr with h1 | ⟨x, hx, e, hex, a, b, hsplit, hE⟩
        · left
          rcases collect_errs fs [] {} st hcol (fun n hn => by simp at hn)
              (fun n hn => by simp [AList.contains, AList.find?] at hn) err h1 with h2 | ⟨a, f, b, h2, h3⟩
          · simp at h2
          · exact ⟨a, f, b, h2, by simpa using h3⟩
        · right
          rcases collect_extended_src fs {} st hcol x hx e hex with ⟨x0, hx0, _⟩ | ⟨f, hf, hfn, hfe⟩
          · simp at hx0
          · have hlines : ∃ f' ∈ fs, f'.name = f.name ∧
                (AList.find? x.1 st.moduleFiles).getD [] = splitLines f'.contents := by
              rcases collect_moduleFiles x.1 fs {} st hcol with ⟨_, g2⟩ | ⟨f', hf', g1, g2⟩
              · exact absurd hfn (g2 f hf)
              · exact ⟨f', hf', g1.trans hfn.symm, by rw [g2]; rfl⟩
            obtain ⟨f', hf', hfn', hl⟩ := hlines
            refine ⟨f, hf, e, hfe, f', hf', hfn', ?_⟩
            rw [hl, ← hfn] at hE
            rcases hE with ⟨hmiss, herr'⟩ | ⟨k, hk, hsrc, herr'⟩
            · refine Or.inl ⟨herr', ?_⟩
              intro d hd
              apply Decidable.byContradiction
              intro hm
              exact hmiss (collect_first e.name fs {} st hcol (by simp) d hd hm)
            · refine Or.inr ⟨k, hk, herr', ?_⟩
              rcases hsrc with hcur | ⟨p, hp, hpn, hpk⟩
              · left
                unfold curKeys at hcur
                cases hfind : st.rawTypeDefs.find? (fun t => t.name == e.name) with
                | none => rw [hfind] at hcur; simp at hcur
                | some t =>
                  rw [hfind] at hcur
                  simp only at hcur
                  have htm := List.mem_of_find?_eq_some hfind
                  have htn : t.name = e.name := by simpa using List.find?_some hfind
                  rcases collect_raw_src fs {} st hcol t htm with h0 | ⟨f0, hf0, td, htd, rfl⟩
                  · simp at h0
                  · rw [stf_relations] at hcur
                    rw [stf_name] at htn
                    exact mem_contrib (List.mem_flatMap.2 ⟨f0, hf0, htd⟩) htn hcur
              · right
                obtain ⟨_, hperm, _⟩ := collect_state fs {} st hcol (by simp [AList.SortedKeys])
                simp only [List.flatMap_nil, List.nil_append] at hperm
                rw [← (contrib_perm e.name hperm).count_eq k, hsplit, contrib_append, List.count_append]
                have c1 : 1 ≤ (contrib e.name a).count k :=
                  List.one_le_count_iff.2 (mem_contrib (by simpa using hp) hpn hpk)
                have c2 : 1 ≤ (contrib e.name (e :: b)).count k :=
                  List.one_le_count_iff.2 (mem_contrib (List.mem_cons_self ..) rfl hk)
                omega

/-! ### the five messages are pairwise different -/

theorem msg_dt_dc (a b : String) : "duplicate type definition " ++ a ≠ "duplicate condition " ++ b := by
  intro h; have := congrArg String.toList h; simp [String.toList_append] at this
theorem msg_dt_nm (a : String) : "duplicate type definition " ++ a ≠ "file is not a module" := by
  intro h; have := congrArg String.toList h; simp [String.toList_append] at this
theorem msg_dt_mt (a b : String) : "duplicate type definition " ++ a ≠ "extended type " ++ b ++ " does not exist" := by
  intro h; have := congrArg String.toList h; simp [String.toList_append] at this
theorem msg_dt_rc (a b c : String) :
    "duplicate type definition " ++ a ≠ "relation " ++ b ++ " already exists on type " ++ c := by
  intro h; have := congrArg String.toList h; simp [String.toList_append] at this
theorem msg_dc_nm (a : String) : "duplicate condition " ++ a ≠ "file is not a module" := by
  intro h; have := congrArg String.toList h; simp [String.toList_append] at this
theorem msg_dc_mt (a b : String) : "duplicate condition " ++ a ≠ "extended type " ++ b ++ " does not exist" := by
  intro h; have := congrArg String.toList h; simp [String.toList_append] at this
theorem msg_dc_rc (a b c : String) :
    "duplicate condition " ++ a ≠ "relation " ++ b ++ " already exists on type " ++ c := by
  intro h; have := congrArg String.toList h; simp [String.toList_append] at this
theorem msg_nm_mt (b : String) : "file is not a module" ≠ "extended type " ++ b ++ " does not exist" := by
  intro h; have := congrArg String.toList h; simp [String.toList_append] at this
theorem msg_nm_rc (b c : String) : "file is not a module" ≠ "relation " ++ b ++ " already exists on type " ++ c := by
  intro h; have := congrArg String.toList h; simp [String.toList_append] at this
theorem msg_mt_rc (a b c : String) :
    "extended type " ++ a ++ " does not exist" ≠ "relation " ++ b ++ " already exists on type " ++ c := by
  intro h; have := congrArg String.toList h; simp [String.toList_append] at this

/-- two lists that agree up to the first occurrence of `c` in each -/
theorem split_first_eq {α : Type} (c : α) : ∀ (a b x y : List α), c ∉ a → c ∉ b → a ++ c :: x = b ++ c :: y → a = b ∧ x = y
  | [], [], x, y, _, _, h => by simpa using h
  | [], b0 :: b, x, y, _, hb, h => by
    simp only [List.nil_append, List.cons_append, List.cons.injEq] at h
    exact absurd (by simp [h.1]) hb
  | a0 :: a, [], x, y, ha, _, h => by
    simp only [List.nil_append, List.cons_append, List.cons.injEq] at h
    exact absurd (by simp [h.1]) ha
  | a0 :: a, b0 :: b, x, y, ha, hb, h => by
    simp only [List.cons_append, List.cons.injEq] at h
    obtain ⟨g1, g2⟩ := split_first_eq c a b x y (fun hc => ha (List.mem_cons_of_mem _ hc))
      (fun hc => hb (List.mem_cons_of_mem _ hc)) h.2
    exact ⟨by rw [h.1, g1], g2⟩

/-- the "relation … already exists on type …" message determines the relation and the type, for
    relation names without a blank (as the DSL's identifiers are) -/
theorem clash_msg_inj (k n R N : String) (hk : ' ' ∉ k.toList) (hR : ' ' ∉ R.toList)
    (h : "relation " ++ k ++ " already exists on type " ++ n = "relation " ++ R ++ " already exists on type " ++ N) :
    k = R ∧ n = N := by
  have h1 : k ++ (" already exists on type " ++ n) = R ++ (" already exists on type " ++ N) := by
    apply str_append_left_cancel (a := "relation ")
    simpa only [String.append_assoc] using h
  have h2 := congrArg String.toList h1
  simp only [String.toList_append] at h2
  have hs : " already exists on type ".toList = ' ' :: "already exists on type ".toList := by decide
  rw [hs] at h2
  simp only [List.cons_append] at h2
  obtain ⟨g1, g2⟩ := split_first_eq ' ' _ _ _ _ hk hR h2
  simp only [List.append_cancel_left_eq] at g2
  exact ⟨String.toList_inj.1 g1, String.toList_inj.1 g2⟩

/-! ### the error kinds, read off the message -/

/-- file `f`, read after the files `pre`, defines type `N` (not as an extension) at index `i`, and `N`
    is also defined by an earlier file or earlier in `f` -/
def DupTypeIn (pre : List FileIn) (f : FileIn) (N : String) (pos : Pos) : Prop :=
  ∃ mdl exts i td, f.outcome = .ok mdl exts ∧ mdl.types[i]? = some td ∧ td.name = N ∧
    isExtensionAt exts N i = false ∧
    (N ∈ pre.flatMap fileBaseNames ∨
      ∃ j td', j < i ∧ mdl.types[j]? = some td' ∧ td'.name = N ∧ isExtensionAt exts N j = false) ∧
    pos = constructLineAndColumnData (splitLines f.contents)
            (lineWithPrefix ("type " ++ N) (splitLines f.contents)) N

def DupCondIn (pre : List FileIn) (f : FileIn) (N : String) (pos : Pos) : Prop :=
  ∃ (mdl : Model) (exts : Option (List (String × Nat))) (i : Nat) (c : Condition),
    f.outcome = .ok mdl exts ∧ mdl.conds[i]? = some (N, c) ∧
    (N ∈ pre.flatMap fileCondNames ∨ ∃ (j : Nat) (c' : Condition), j < i ∧ mdl.conds[j]? = some (N, c')) ∧
    pos = constructLineAndColumnData (splitLines f.contents)
            (lineWithPrefix ("condition " ++ N) (splitLines f.contents)) N

def NotModuleIn (f : FileIn) : Prop :=
  ∃ mdl exts, f.outcome = .ok mdl exts ∧
    ((∃ i td, mdl.types[i]? = some td ∧ isExtensionAt exts td.name i = false ∧ modName td = "") ∨
     (∃ (i : Nat) (name : String) (c : Condition), mdl.conds[i]? = some (name, c) ∧ c.md = none))

theorem merge_mod_error_cases (fs : List FileIn) (v : String) (es : List MergeErr) (h : merge fs v = .errors es)
    (msg file : String) (pos : Pos) (hm : MergeErr.mod msg file pos ∈ es) :
    (∃ pre f post N, fs = pre ++ f :: post ∧ f.name = file ∧ msg = "duplicate type definition " ++ N ∧
        DupTypeIn pre f N pos) ∨
    (∃ pre f post N, fs = pre ++ f :: post ∧ f.name = file ∧ msg = "duplicate condition " ++ N ∧
        DupCondIn pre f N pos) ∨
    (∃ f ∈ fs, f.name = file ∧ msg = "file is not a module" ∧ NotModuleIn f ∧ pos = {}) ∨
    (∃ f ∈ fs, f.name = file ∧ ∃ e ∈ fileExtDefs f, msg = "extended type " ++ e.name ++ " does not exist" ∧
        (∀ d, (fs.flatMap fileBaseDefs).find? (fun d => d.name == e.name) = some d → modName d = "") ∧
        ∃ f' ∈ fs, f'.name = file ∧
          pos = constructLineAndColumnData (splitLines f'.contents)
                  (lineWithPrefix ("extend type " ++ e.name) (splitLines f'.contents)) e.name) ∨
    (∃ f ∈ fs, f.name = file ∧ ∃ e ∈ fileExtDefs f, ∃ k ∈ AList.keys e.relations,
        msg = "relation " ++ k ++ " already exists on type " ++ e.name ∧
        (k ∈ contrib e.name (fs.flatMap fileBaseDefs) ∨ 2 ≤ (contrib e.name (fs.flatMap fileExtDefs)).count k) ∧
        ∃ f' ∈ fs, f'.name = file ∧
          pos = constructLineAndColumnData (splitLines f'.contents)
                  (lineWithPrefix ("define " ++ k) (splitLines f'.contents)) k) := by
  rcases merge_error_cases fs v es h _ hm with ⟨pre, f, post, hfs, hF⟩ | ⟨f, hf, e, he, f', hf', hfn', hE⟩
  · have hfmem : f ∈ fs := by rw [hfs]; simp
    rcases hF with ⟨l, e, _, _, heq⟩ | ⟨mdl, exts, hout, hF⟩
    · cases heq
    · rcases hF with ⟨i, td, g1, g2, g3, heq⟩ | ⟨i, td, g1, g2, g3, heq⟩ | ⟨i, name, c, g1, g2, heq⟩ | ⟨i, name, c, g1, g2, heq⟩
      · simp only [dupTypeErr, MergeErr.mod.injEq] at heq
        obtain ⟨q1, q2, q3⟩ := heq
        exact Or.inl ⟨pre, f, post, td.name, hfs, q2.symm, q1, mdl, exts, i, td, hout, g1, rfl, g2, g3, q3⟩
      · simp only [MergeErr.mod.injEq] at heq
        obtain ⟨q1, q2, q3⟩ := heq
        exact Or.inr (Or.inr (Or.inl ⟨f, hfmem, q2.symm, q1, ⟨mdl, exts, hout, Or.inl ⟨i, td, g1, g2, g3⟩⟩, q3⟩))
      · simp only [dupCondErr, MergeErr.mod.injEq] at heq
        obtain ⟨q1, q2, q3⟩ := heq
        exact Or.inr (Or.inl ⟨pre, f, post, name, hfs, q2.symm, q1, mdl, exts, i, c, hout, g1, g2, q3⟩)
      · simp only [MergeErr.mod.injEq] at heq
        obtain ⟨q1, q2, q3⟩ := heq
        exact Or.inr (Or.inr (Or.inl ⟨f, hfmem, q2.symm, q1, ⟨mdl, exts, hout, Or.inr ⟨i, name, c, g1, g2⟩⟩, q3⟩))
  · rcases hE with ⟨heq, hno⟩ | ⟨k, hk, heq, hsrc⟩
    · simp only [missingErr, MergeErr.mod.injEq] at heq
      obtain ⟨q1, q2, q3⟩ := heq
      exact Or.inr (Or.inr (Or.inr (Or.inl ⟨f, hf, q2.symm, e, he, q1, hno, f', hf', hfn'.trans q2.symm, q3⟩)))
    · simp only [clashErr, MergeErr.mod.injEq] at heq
      obtain ⟨q1, q2, q3⟩ := heq
      exact Or.inr (Or.inr (Or.inr (Or.inr ⟨f, hf, q2.symm, e, he, k, hk, q1, hsrc, f', hf', hfn'.trans q2.symm, q3⟩)))

/-! ### the theorems of C07's last clause -/

/-- A. every conflict reported by the merge names one of the input files -/
theorem merge_errors_name_input_files (fs : List FileIn) (v : String) (es : List MergeErr)
    (h : merge fs v = .errors es) (msg file : String) (pos : Pos) (hm : MergeErr.mod msg file pos ∈ es) :
    ∃ f ∈ fs, f.name = file := by
  rcases merge_mod_error_cases fs v es h msg file pos hm with
    ⟨pre, f, post, _, hfs, hn, _⟩ | ⟨pre, f, post, _, hfs, hn, _⟩ | ⟨f, hf, hn, _⟩ | ⟨f, hf, hn, _⟩ | ⟨f, hf, hn, _⟩
  · exact ⟨f, by rw [hfs]; simp, hn⟩
  · exact ⟨f, by rw [hfs]; simp, hn⟩
  · exact ⟨f, hf, hn⟩
  · exact ⟨f, hf, hn⟩
  · exact ⟨f, hf, hn⟩

/-- C. every syntax error in the merge's error list is an error of some input file's own parse -/
theorem syn_errors_come_from_files (fs : List FileIn) (v : String) (es : List MergeErr)
    (h : merge fs v = .errors es) (e : SynErr) (hm : MergeErr.syn e ∈ es) :
    ∃ f ∈ fs, ∃ l, f.outcome = .errors l ∧ e ∈ l := by
  rcases merge_error_cases fs v es h _ hm with ⟨pre, f, post, hfs, hF⟩ | ⟨f, hf, e', he, f', hf', hfn', hE⟩
  · rcases hF with ⟨l, e0, hout, hel, heq⟩ | ⟨mdl, exts, hout, hF⟩
    · simp only [MergeErr.syn.injEq] at heq
      subst heq
      exact ⟨f, by rw [hfs]; simp, l, hout, hel⟩
    · rcases hF with ⟨_, _, _, _, _, heq⟩ | ⟨_, _, _, _, _, heq⟩ | ⟨_, _, _, _, _, heq⟩ | ⟨_, _, _, _, _, heq⟩
      · simp only [dupTypeErr] at heq; cases heq
      · cases heq
      · simp only [dupCondErr] at heq; cases heq
      · cases heq
  · rcases hE with ⟨heq, _⟩ | ⟨_, _, heq, _⟩
    · simp only [missingErr] at heq; cases heq
    · simp only [clashErr] at heq; cases heq

/-- B1. "duplicate type definition N" names a file that defines `N` (not as an extension), `N` being
    also defined by a file read before it, or earlier in the same file; the position is the one of
    `type N` in that file's text -/
theorem dup_type_error_in_file (fs : List FileIn) (v : String) (es : List MergeErr)
    (h : merge fs v = .errors es) (N file : String) (pos : Pos)
    (hm : MergeErr.mod ("duplicate type definition " ++ N) file pos ∈ es) :
    ∃ pre f post mdl exts i td, fs = pre ++ f :: post ∧ f.name = file ∧ f.outcome = .ok mdl exts ∧
      mdl.types[i]? = some td ∧ td.name = N ∧ isExtensionAt exts N i = false ∧
      (N ∈ pre.flatMap fileBaseNames ∨
        ∃ j td', j < i ∧ mdl.types[j]? = some td' ∧ td'.name = N ∧ isExtensionAt exts N j = false) ∧
      pos = constructLineAndColumnData (splitLines f.contents)
              (lineWithPrefix ("type " ++ N) (splitLines f.contents)) N := by
  rcases merge_mod_error_cases fs v es h _ file pos hm with
    ⟨pre, f, post, N', hfs, hn, hmsg, hD⟩ | ⟨_, _, _, _, _, _, hmsg, _⟩ | ⟨_, _, _, hmsg, _⟩ |
    ⟨_, _, _, _, _, hmsg, _⟩ | ⟨_, _, _, _, _, _, _, hmsg, _⟩
  · have : N = N' := str_append_left_cancel hmsg
    subst this
    obtain ⟨mdl, exts, i, td, g1, g2, g3, g4, g5, g6⟩ := hD
    exact ⟨pre, f, post, mdl, exts, i, td, hfs, hn, g1, g2, g3, g4, g5, g6⟩
  · exact absurd hmsg (msg_dt_dc _ _)
  · exact absurd hmsg (msg_dt_nm _)
  · exact absurd hmsg (msg_dt_mt _ _)
  · exact absurd hmsg (msg_dt_rc _ _ _)

/-- B2. "duplicate condition N" names a file that declares condition `N`, `N` being also declared by a
    file read before it (or earlier in the same file) -/
theorem dup_condition_error_in_file (fs : List FileIn) (v : String) (es : List MergeErr)
    (h : merge fs v = .errors es) (N file : String) (pos : Pos)
    (hm : MergeErr.mod ("duplicate condition " ++ N) file pos ∈ es) :
    ∃ (pre : List FileIn) (f : FileIn) (post : List FileIn) (mdl : Model)
      (exts : Option (List (String × Nat))) (i : Nat) (c : Condition),
      fs = pre ++ f :: post ∧ f.name = file ∧ f.outcome = .ok mdl exts ∧
      mdl.conds[i]? = some (N, c) ∧
      (N ∈ pre.flatMap fileCondNames ∨ ∃ (j : Nat) (c' : Condition), j < i ∧ mdl.conds[j]? = some (N, c')) ∧
      pos = constructLineAndColumnData (splitLines f.contents)
              (lineWithPrefix ("condition " ++ N) (splitLines f.contents)) N := by
  rcases merge_mod_error_cases fs v es h _ file pos hm with
    ⟨_, _, _, _, _, _, hmsg, _⟩ | ⟨pre, f, post, N', hfs, hn, hmsg, hD⟩ | ⟨_, _, _, hmsg, _⟩ |
    ⟨_, _, _, _, _, hmsg, _⟩ | ⟨_, _, _, _, _, _, _, hmsg, _⟩
  · exact absurd hmsg.symm (msg_dt_dc _ _)
  · have : N = N' := str_append_left_cancel hmsg
    subst this
    obtain ⟨mdl, exts, i, c, g1, g2, g3, g4⟩ := hD
    exact ⟨pre, f, post, mdl, exts, i, c, hfs, hn, g1, g2, g3, g4⟩
  · exact absurd hmsg (msg_dc_nm _)
  · exact absurd hmsg (msg_dc_mt _ _)
  · exact absurd hmsg (msg_dc_rc _ _ _)

/-- B3. "file is not a module" names a file that declares a type without module name or a condition
    without module metadata -/
theorem not_module_error_in_file (fs : List FileIn) (v : String) (es : List MergeErr)
    (h : merge fs v = .errors es) (file : String) (pos : Pos)
    (hm : MergeErr.mod "file is not a module" file pos ∈ es) :
    ∃ f ∈ fs, f.name = file ∧ ∃ mdl exts, f.outcome = .ok mdl exts ∧
      ((∃ i td, mdl.types[i]? = some td ∧ isExtensionAt exts td.name i = false ∧ modName td = "") ∨
       (∃ (i : Nat) (name : String) (c : Condition), mdl.conds[i]? = some (name, c) ∧ c.md = none)) ∧
      pos = {} := by
  rcases merge_mod_error_cases fs v es h _ file pos hm with
    ⟨_, _, _, _, _, _, hmsg, _⟩ | ⟨_, _, _, _, _, _, hmsg, _⟩ | ⟨f, hf, hn, _, hD, hpos⟩ |
    ⟨_, _, _, _, _, hmsg, _⟩ | ⟨_, _, _, _, _, _, _, hmsg, _⟩
  · exact absurd hmsg.symm (msg_dt_nm _)
  · exact absurd hmsg.symm (msg_dc_nm _)
  · obtain ⟨mdl, exts, g1, g2⟩ := hD
    exact ⟨f, hf, hn, mdl, exts, g1, g2, hpos⟩
  · exact absurd hmsg (msg_nm_mt _)
  · exact absurd hmsg (msg_nm_rc _ _)

/-- B4. "extended type N does not exist" names a file that contains an `extend type N` block, and `N`
    is not registered: no file defines `N`, or the first definition of `N` (in the order of the files)
    carries no module name (and was itself reported as "file is not a module") -/
theorem missing_target_error_in_file (fs : List FileIn) (v : String) (es : List MergeErr)
    (h : merge fs v = .errors es) (N file : String) (pos : Pos)
    (hm : MergeErr.mod ("extended type " ++ N ++ " does not exist") file pos ∈ es) :
    ∃ f ∈ fs, f.name = file ∧ ∃ e ∈ fileExtDefs f, e.name = N ∧
      (∀ d, (fs.flatMap fileBaseDefs).find? (fun d => d.name == N) = some d → modName d = "") ∧
      ∃ f' ∈ fs, f'.name = file ∧
        pos = constructLineAndColumnData (splitLines f'.contents)
                (lineWithPrefix ("extend type " ++ N) (splitLines f'.contents)) N := by
  rcases merge_mod_error_cases fs v es h _ file pos hm with
    ⟨_, _, _, _, _, _, hmsg, _⟩ | ⟨_, _, _, _, _, _, hmsg, _⟩ | ⟨_, _, _, hmsg, _⟩ |
    ⟨f, hf, hn, e, he, hmsg, hno, hpos⟩ | ⟨_, _, _, _, _, _, _, hmsg, _⟩
  · exact absurd hmsg.symm (msg_dt_mt _ _)
  · exact absurd hmsg.symm (msg_dc_mt _ _)
  · exact absurd hmsg.symm (msg_nm_mt _)
  · have : N = e.name := str_append_left_cancel (str_append_right_cancel hmsg)
    subst this
    exact ⟨f, hf, hn, e, he, rfl, hno, hpos⟩
  · exact absurd hmsg (msg_mt_rc _ _ _)

/-- … so when every base definition carries a module name, no file defines `N` at all -/
theorem missing_target_not_defined (fs : List FileIn) (v : String) (es : List MergeErr)
    (h : merge fs v = .errors es) (N file : String) (pos : Pos)
    (hm : MergeErr.mod ("extended type " ++ N ++ " does not exist") file pos ∈ es)
    (hmod : ∀ d ∈ fs.flatMap fileBaseDefs, modName d ≠ "") : N ∉ fs.flatMap fileBaseNames := by
  obtain ⟨_, _, _, _, _, _, hno, _⟩ := missing_target_error_in_file fs v es h N file pos hm
  intro hmem
  have hmem' : N ∈ (fs.flatMap fileBaseDefs).map (·.name) := by
    rw [List.map_flatMap]
    obtain ⟨f, hf, hfn⟩ := List.mem_flatMap.1 hmem
    exact List.mem_flatMap.2 ⟨f, hf, by rw [← fileBaseNames_eq]; exact hfn⟩
  cases hfind : (fs.flatMap fileBaseDefs).find? (fun d => d.name == N) with
  | none => exact find?_none_not_mem _ _ hfind hmem'
  | some d => exact hmod d (List.mem_of_find?_eq_some hfind) (hno d hfind)

/-- B5. "relation R already exists on type N" names a file that contains an `extend type` block `e`
    declaring a relation `k` (the message being the one for `k` and `e.name`), and `k` is already on
    that type: declared by its base definition, or by another extension block — the `extend type`
    blocks of the files contribute `k` to it at least twice -/
theorem relation_clash_error_in_file (fs : List FileIn) (v : String) (es : List MergeErr)
    (h : merge fs v = .errors es) (R N file : String) (pos : Pos)
    (hm : MergeErr.mod ("relation " ++ R ++ " already exists on type " ++ N) file pos ∈ es) :
    ∃ f ∈ fs, f.name = file ∧ ∃ e ∈ fileExtDefs f, ∃ k ∈ AList.keys e.relations,
      "relation " ++ k ++ " already exists on type " ++ e.name = "relation " ++ R ++ " already exists on type " ++ N ∧
      (k ∈ contrib e.name (fs.flatMap fileBaseDefs) ∨ 2 ≤ (contrib e.name (fs.flatMap fileExtDefs)).count k) ∧
      ∃ f' ∈ fs, f'.name = file ∧
        pos = constructLineAndColumnData (splitLines f'.contents)
                (lineWithPrefix ("define " ++ k) (splitLines f'.contents)) k := by
  rcases merge_mod_error_cases fs v es h _ file pos hm with
    ⟨_, _, _, _, _, _, hmsg, _⟩ | ⟨_, _, _, _, _, _, hmsg, _⟩ | ⟨_, _, _, hmsg, _⟩ |
    ⟨_, _, _, _, _, hmsg, _⟩ | ⟨f, hf, hn, e, he, k, hk, hmsg, hsrc, hpos⟩
  · exact absurd hmsg.symm (msg_dt_rc _ _ _)
  · exact absurd hmsg.symm (msg_dc_rc _ _ _)
  · exact absurd hmsg.symm (msg_nm_rc _ _)
  · exact absurd hmsg.symm (msg_mt_rc _ _ _)
  · exact ⟨f, hf, hn, e, he, k, hk, hmsg.symm, hsrc, hpos⟩

/-- … with relation names free of blanks (as the DSL's identifiers are), the block extends exactly
    `N` and declares exactly `R`, and `R` is contributed to `N` at least twice by the definitions and
    extension blocks of the files: `ConflictFree.relations` fails at `N` -/
theorem relation_clash_error_exact (fs : List FileIn) (v : String) (es : List MergeErr)
    (h : merge fs v = .errors es) (R N file : String) (pos : Pos)
    (hm : MergeErr.mod ("relation " ++ R ++ " already exists on type " ++ N) file pos ∈ es)
    (hR : ' ' ∉ R.toList)
    (hfs : ∀ f ∈ fs, ∀ e ∈ fileExtDefs f, ∀ k ∈ AList.keys e.relations, ' ' ∉ k.toList) :
    (∃ f ∈ fs, f.name = file ∧ ∃ e ∈ fileExtDefs f, e.name = N ∧ R ∈ AList.keys e.relations) ∧
    (R ∈ contrib N (fs.flatMap fileBaseDefs) ∨ 2 ≤ (contrib N (fs.flatMap fileExtDefs)).count R) ∧
    ¬ (contrib N (fs.flatMap fileBaseDefs ++ fs.flatMap fileExtDefs)).Nodup := by
  obtain ⟨f, hf, hn, e, he, k, hk, hmsg, hsrc, _⟩ := relation_clash_error_in_file fs v es h R N file pos hm
  obtain ⟨rfl, rfl⟩ := clash_msg_inj k e.name R N (hfs f hf e he k hk) hR hmsg
  refine ⟨⟨f, hf, hn, e, he, rfl, hk⟩, hsrc, ?_⟩
  intro hnd
  have hle := List.nodup_iff_count.1 hnd k
  rw [contrib_append, List.count_append] at hle
  have c2 : 1 ≤ (contrib e.name (fs.flatMap fileExtDefs)).count k :=
    List.one_le_count_iff.2 (mem_contrib (List.mem_flatMap.2 ⟨f, hf, he⟩) rfl hk)
  rcases hsrc with h1 | h1
  · have c1 : 1 ≤ (contrib e.name (fs.flatMap fileBaseDefs)).count k := List.one_le_count_iff.2 h1
    omega
  · omega

end FgaVerif.Model.Merge
