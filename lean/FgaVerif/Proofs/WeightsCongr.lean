import FgaVerif.Proofs.WeightsPump
import FgaVerif.Proofs.Weights
/-! The weights are a function of what the graph *means*: two specification graphs with the same
    `HasType` and `Walk` relations get the same weight maps (both results are characterised by those
    relations).  Consequences: the order of the nodes (type definitions) and the order of the operands
    of relations, unions, groups and intersections do not matter. -/
namespace FgaVerif.Spec.Weights

/-- the hypotheses the driver evaluates on every input -/
def Converged (g : SGraph) : Prop := isFixpoint g (weights g) = true ∧ normalB g (weights g) = true

theorem lookup_finite_max (g : SGraph) (h : Converged g) (n T : String) (v : Nat)
    (hl : lookupW T (stateGet (weights g) n) = some v) (hv : v ≠ infinite) :
    Walk g T n v ∧ ∀ k, Walk g T n k → k ≤ v := by
  obtain ⟨hfix, hnorm⟩ := h
  obtain ⟨hc, hnv⟩ := normal_values g (weights g) hnorm
  have hlt : v < g.length + 1 := by
    rcases hnv n T v hl with h1 | h1
    · exact absurd h1 hv
    · exact h1
  constructor
  · obtain ⟨k, hw, hk⟩ := weights_sound g hc n T v hl
    rcases hk with ⟨h1, _⟩ | h1
    · exact absurd h1 hv
    · have h1' : v = min k (g.length + 2) := h1
      have : v = k := by omega
      rw [this]; exact hw
  · intro k hw
    obtain ⟨v', hv', hle⟩ := walk_dominated g (weights g) (stateSorted_weights g) hfix hc T n k hw
    rw [hl] at hv'; cases hv'
    have hle' : min k (g.length + 2) ≤ v := hle
    omega

theorem lookup_infinite_iff (g : SGraph) (h : Converged g) (n T : String) :
    lookupW T (stateGet (weights g) n) = some infinite ↔ ∀ K, ∃ k, K ≤ k ∧ Walk g T n k := by
  obtain ⟨hfix, hnorm⟩ := h
  obtain ⟨hc, hnv⟩ := normal_values g (weights g) hnorm
  constructor
  · intro hl
    obtain ⟨k, hw, hk⟩ := weights_sound g hc n T infinite hl
    rcases hk with ⟨_, h1⟩ | h1
    · exact long_walk_unbounded g T n k hw (by omega)
    · have h1' : infinite = min k (g.length + 2) := h1
      omega
  · intro hu
    obtain ⟨k, hk, hw⟩ := hu (g.length + 1)
    obtain ⟨v, hv, hle⟩ := walk_dominated g (weights g) (stateSorted_weights g) hfix hc T n k hw
    have hle' : min k (g.length + 2) ≤ v := hle
    rcases hnv n T v hv with h1 | h1
    · rw [hv, h1]
    · omega

theorem lookup_some_iff (g : SGraph) (h : Converged g) (n T : String) :
    (lookupW T (stateGet (weights g) n)).isSome = true ↔ HasType g T n := by
  obtain ⟨hfix, hnorm⟩ := h
  obtain ⟨hc, _⟩ := normal_values g (weights g) hnorm
  constructor
  · intro h
    obtain ⟨v, hv⟩ := Option.isSome_iff_exists.1 h
    obtain ⟨k, hw, _⟩ := weights_sound g hc n T v hv
    exact hw.hasType
  · exact (keys_complete g (weights g) (stateSorted_weights g) hfix T).1 n

/-- **graphs that mean the same get the same weights** -/
theorem weights_determined (g g' : SGraph) (hg : Converged g) (hg' : Converged g')
    (hH : ∀ T n, HasType g T n ↔ HasType g' T n) (hW : ∀ T n k, Walk g T n k ↔ Walk g' T n k) (n : String) :
    stateGet (weights g) n = stateGet (weights g') n := by
  apply SortedW.ext _ _ (stateSorted_weights g n) (stateSorted_weights g' n)
  intro T
  cases hl : lookupW T (stateGet (weights g) n) with
  | none =>
    cases hl' : lookupW T (stateGet (weights g') n) with
    | none => rfl
    | some v' =>
      have := (hH T n).2 ((lookup_some_iff g' hg' n T).1 (by simp [hl']))
      have := (lookup_some_iff g hg n T).2 this
      rw [hl] at this; cases this
  | some v =>
    have hT' := (hH T n).1 ((lookup_some_iff g hg n T).1 (by simp [hl]))
    obtain ⟨v', hl'⟩ := Option.isSome_iff_exists.1 ((lookup_some_iff g' hg' n T).2 hT')
    rw [hl']
    by_cases hv : v = infinite
    · subst hv
      have hu := (lookup_infinite_iff g hg n T).1 hl
      have hu' : ∀ K, ∃ k, K ≤ k ∧ Walk g' T n k := fun K => by
        obtain ⟨k, hk, hw⟩ := hu K; exact ⟨k, hk, (hW T n k).1 hw⟩
      have := (lookup_infinite_iff g' hg' n T).2 hu'
      rw [hl'] at this; exact this.symm
    · by_cases hv' : v' = infinite
      · subst hv'
        have hu' := (lookup_infinite_iff g' hg' n T).1 hl'
        have hu : ∀ K, ∃ k, K ≤ k ∧ Walk g T n k := fun K => by
          obtain ⟨k, hk, hw⟩ := hu' K; exact ⟨k, hk, (hW T n k).2 hw⟩
        have := (lookup_infinite_iff g hg n T).2 hu
        rw [hl] at this; cases this; exact absurd rfl hv
      · obtain ⟨hw, hmax⟩ := lookup_finite_max g hg n T v hl hv
        obtain ⟨hw', hmax'⟩ := lookup_finite_max g' hg' n T v' hl' hv'
        have h1 := hmax' v ((hW T n v).1 hw)
        have h2 := hmax v' ((hW T n v').2 hw')
        have : v = v' := by omega
        rw [this]

/-! ### graphs that mean the same -/

/-- same strategy, same operands up to order and repetition (an exclusion's operands are positional) -/
def NodeEquiv (a b : Node) : Prop :=
  a.kind = b.kind ∧ (∀ e, e ∈ a.edges ↔ e ∈ b.edges) ∧ (a.kind = .diff → a.edges = b.edges)

def GraphEquiv (g g' : SGraph) : Prop :=
  ∀ n, (nodeOf g n = none ∧ nodeOf g' n = none) ∨
    ∃ a b, nodeOf g n = some a ∧ nodeOf g' n = some b ∧ NodeEquiv a b

theorem NodeEquiv.symm {a b : Node} (h : NodeEquiv a b) : NodeEquiv b a :=
  ⟨h.1.symm, fun e => (h.2.1 e).symm, fun hk => (h.2.2 (h.1.trans hk)).symm⟩

theorem GraphEquiv.symm {g g' : SGraph} (h : GraphEquiv g g') : GraphEquiv g' g := by
  intro n
  rcases h n with ⟨h1, h2⟩ | ⟨a, b, h1, h2, h3⟩
  · exact Or.inl ⟨h2, h1⟩
  · exact Or.inr ⟨b, a, h2, h1, h3.symm⟩

theorem GraphEquiv.some {g g' : SGraph} (h : GraphEquiv g g') {n : String} {a : Node} (hf : nodeOf g n = some a) :
    ∃ b, nodeOf g' n = some b ∧ NodeEquiv a b := by
  rcases h n with ⟨h1, _⟩ | ⟨a', b, h1, h2, h3⟩
  · rw [hf] at h1; cases h1
  · rw [hf] at h1; cases h1; exact ⟨b, h2, h3⟩

theorem hasType_congr {g g' : SGraph} (h : GraphEquiv g g') (T : String) :
    ∀ n, HasType g T n → HasType g' T n := by
  intro n hn
  refine HasType.rec (g := g) (T := T)
    (motive_1 := fun n _ => HasType g' T n) (motive_2 := fun e _ => EdgeHas g' T e)
    ?_ ?_ ?_ ?_ ?_ ?_ hn
  · intro n nd e hf h1 h2 he _ ih
    obtain ⟨b, hb, hk, hmem, _⟩ := h.some hf
    exact .any hb (hk ▸ h1) (hk ▸ h2) ((hmem e).1 he) ih
  · intro n nd hf hkind hne _ ih
    obtain ⟨b, hb, hk, hmem, _⟩ := h.some hf
    refine .all hb (hk ▸ hkind) ?_ (fun e he => ih e ((hmem e).2 he))
    intro hnil
    cases hes : nd.edges with
    | nil => exact hne hes
    | cons e0 rest =>
      have : e0 ∈ b.edges := (hmem e0).1 (by rw [hes]; simp)
      rw [hnil] at this; cases this
  · intro n nd e hf hkind h2 he _ ih
    obtain ⟨b, hb, hk, _, heq⟩ := h.some hf
    have := heq hkind
    exact .base hb (hk ▸ hkind) (this ▸ h2) (this ▸ he) ih
  · intro e hd; exact .type hd
  · intro e hd; exact .wildcard hd
  · intro e m hd _ ih; exact .node hd ih

theorem walk_congr {g g' : SGraph} (h : GraphEquiv g g') (T : String) {n : String} {k : Nat}
    (hw : Walk g T n k) : Walk g' T n k := by
  induction hw with
  | @last n nd e hf hT he hd =>
    obtain ⟨b, hb, _, hmem, _⟩ := h.some hf
    exact .last hb (hasType_congr h T n hT) ((hmem e).1 he) hd
  | @step n m nd e k hf hT he hd _ ih =>
    obtain ⟨b, hb, _, hmem, _⟩ := h.some hf
    exact .step hb (hasType_congr h T n hT) ((hmem e).1 he) hd ih

/-- **equivalent graphs get the same weights** -/
theorem weights_congr (g g' : SGraph) (hg : Converged g) (hg' : Converged g') (h : GraphEquiv g g') (n : String) :
    stateGet (weights g) n = stateGet (weights g') n :=
  weights_determined g g' hg hg'
    (fun T n => ⟨hasType_congr h T n, hasType_congr h.symm T n⟩)
    (fun T _ _ => ⟨walk_congr h T, walk_congr h.symm T⟩) n

/-! ### the order of the nodes -/

theorem find?_unique {α : Type} (p : α → Bool) (l : List α) (huniq : ∀ a ∈ l, ∀ b ∈ l, p a = true → p b = true → a = b)
    (a : α) : l.find? p = some a ↔ a ∈ l ∧ p a = true := by
  constructor
  · intro h; exact ⟨List.mem_of_find?_eq_some h, List.find?_some h⟩
  · rintro ⟨hm, hp⟩
    cases hf : l.find? p with
    | none => exact absurd hp (by simpa using (List.find?_eq_none.1 hf) a hm)
    | some b =>
      have := huniq b (List.mem_of_find?_eq_some hf) a hm (List.find?_some hf) hp
      rw [this]

theorem inj_of_nodup_map {α β : Type} (f : α → β) : ∀ (l : List α), (l.map f).Nodup →
    ∀ a ∈ l, ∀ b ∈ l, f a = f b → a = b
  | [], _, a, ha, _, _, _ => by cases ha
  | x :: xs, hn, a, ha, b, hb, hab => by
    simp only [List.map_cons, List.nodup_cons] at hn
    rcases List.mem_cons.1 ha with rfl | ha'
    · rcases List.mem_cons.1 hb with rfl | hb'
      · rfl
      · exact absurd (List.mem_map.2 ⟨b, hb', hab.symm⟩) hn.1
    · rcases List.mem_cons.1 hb with rfl | hb'
      · exact absurd (List.mem_map.2 ⟨a, ha', hab⟩) hn.1
      · exact inj_of_nodup_map f xs hn.2 a ha' b hb' hab

theorem names_unique (g : SGraph) (hn : (g.map (·.name)).Nodup) (n : String) :
    ∀ a ∈ g, ∀ b ∈ g, (a.name == n) = true → (b.name == n) = true → a = b := by
  intro a ha b hb h1 h2
  have e1 : a.name = n := by simpa using h1
  have e2 : b.name = n := by simpa using h2
  exact inj_of_nodup_map (·.name) g hn a ha b hb (e1.trans e2.symm)

theorem nodeOf_perm {g g' : SGraph} (hp : g.Perm g') (hn : (g.map (·.name)).Nodup) (n : String) :
    nodeOf g n = nodeOf g' n := by
  have hn' : (g'.map (·.name)).Nodup := (hp.map _).nodup_iff.1 hn
  unfold nodeOf
  cases hf : g.find? (·.name == n) with
  | none =>
    cases hf' : g'.find? (·.name == n) with
    | none => rfl
    | some b =>
      have := (find?_unique _ g' (names_unique g' hn' n) b).1 hf'
      have hb : b ∈ g := hp.mem_iff.2 this.1
      exact absurd this.2 (by simpa using (List.find?_eq_none.1 hf) b hb)
  | some a =>
    have := (find?_unique _ g (names_unique g hn n) a).1 hf
    exact ((find?_unique _ g' (names_unique g' hn' n) a).2 ⟨hp.mem_iff.1 this.1, this.2⟩).symm

theorem NodeEquiv.refl (a : Node) : NodeEquiv a a := ⟨rfl, fun _ => Iff.rfl, fun _ => rfl⟩

theorem graphEquiv_of_nodeOf_eq {g g' : SGraph} (h : ∀ n, nodeOf g n = nodeOf g' n) : GraphEquiv g g' := by
  intro n
  cases hf : nodeOf g n with
  | none => exact Or.inl ⟨rfl, by rw [← h n, hf]⟩
  | some a => exact Or.inr ⟨a, a, rfl, by rw [← h n, hf], .refl a⟩

/-- **the order of the nodes (type definitions, relations) does not matter** -/
theorem weights_perm (g g' : SGraph) (hp : g.Perm g') (hn : (g.map (·.name)).Nodup)
    (hg : Converged g) (hg' : Converged g') (n : String) :
    stateGet (weights g) n = stateGet (weights g') n :=
  weights_congr g g' hg hg' (graphEquiv_of_nodeOf_eq (nodeOf_perm hp hn)) n

end FgaVerif.Spec.Weights

namespace FgaVerif.Spec.Weights
open FgaVerif.Model

/-! ### the order of the type definitions of the model -/

theorem any_perm {α : Type} (p : α → Bool) {l l' : List α} (h : l.Perm l') : l.any p = l'.any p := by
  cases ha : l.any p with
  | true =>
    obtain ⟨x, hx, hpx⟩ := List.any_eq_true.1 ha
    exact (List.any_eq_true.2 ⟨x, h.mem_iff.1 hx, hpx⟩).symm
  | false =>
    cases hb : l'.any p with
    | false => rfl
    | true =>
      obtain ⟨x, hx, hpx⟩ := List.any_eq_true.1 hb
      have := List.any_eq_true.2 ⟨x, h.mem_iff.2 hx, hpx⟩
      rw [ha] at this; cases this

theorem eraseDups_perm {l l' : List String} (h : l.Perm l') : l.eraseDups.Perm l'.eraseDups := by
  apply (List.perm_ext_iff_of_nodup (nodup_eraseDups _ l (Nat.le_refl _)) (nodup_eraseDups _ l' (Nat.le_refl _))).2
  intro a
  rw [List.mem_eraseDups, List.mem_eraseDups]
  exact h.mem_iff

/-- **permuting the type definitions of a model permutes its specification graph** -/
theorem sgraph_perm (grouped : Bool) (m m' : Model) (hp : m.types.Perm m'.types) :
    (sgraph grouped m).Perm (sgraph grouped m') := by
  unfold sgraph
  simp only
  have h0 := List.Perm.flatMap_right (fun td : TypeDef => td.relations.flatMap (fun (r, u) => relationNodes grouped td r u)) hp
  have h1 : (if grouped then m.types.flatMap (fun td => td.relations.flatMap (fun (r, u) => relationNodes grouped td r u))
        else (m.types.flatMap (fun td => td.relations.flatMap (fun (r, u) => relationNodes grouped td r u))).map
          (fun n => { n with edges := dedupHops n.edges [] })).Perm
      (if grouped then m'.types.flatMap (fun td => td.relations.flatMap (fun (r, u) => relationNodes grouped td r u))
        else (m'.types.flatMap (fun td => td.relations.flatMap (fun (r, u) => relationNodes grouped td r u))).map
          (fun n => { n with edges := dedupHops n.edges [] })) := by
    cases grouped with
    | true => simpa using h0
    | false => simpa using h0.map _
  generalize (if grouped then m.types.flatMap (fun td => td.relations.flatMap (fun (r, u) => relationNodes grouped td r u))
        else (m.types.flatMap (fun td => td.relations.flatMap (fun (r, u) => relationNodes grouped td r u))).map
          (fun n => { n with edges := dedupHops n.edges [] })) = d at h1 ⊢
  generalize (if grouped then m'.types.flatMap (fun td => td.relations.flatMap (fun (r, u) => relationNodes grouped td r u))
        else (m'.types.flatMap (fun td => td.relations.flatMap (fun (r, u) => relationNodes grouped td r u))).map
          (fun n => { n with edges := dedupHops n.edges [] })) = d' at h1 ⊢
  refine h1.append (List.Perm.map _ (eraseDups_perm ?_))
  have hr : (referenced d).Perm (referenced d') := List.Perm.flatMap_right _ h1
  have hf : (fun x => !d.any (·.name == x)) = (fun x => !d'.any (·.name == x)) := by
    funext x; rw [any_perm _ h1]
  rw [hf]
  exact hr.filter _

end FgaVerif.Spec.Weights
