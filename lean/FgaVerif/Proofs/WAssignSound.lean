import FgaVerif.Proofs.WAssignCycle
import FgaVerif.Proofs.WAssignNode
/-! **Soundness of the port of `AssignWeights`: whatever it accepts is well-founded** (C05, the "accepted ⇒
    well-founded" half, about the algorithm itself).  Post-conditions of `assignWeights g order = .ok st`, for every
    graph and every start order:

    1. `accepted_no_rewrite_cycle` — no node of the graph lies on a cycle of rewrite/computed edges (the pre-pass
       did not fire, and it is complete: `no_cycle_of_prepass`); on a graph whose rewrite/computed edges end in nodes
       of the graph (`RClosed`) no label at all does (`accepted_no_rewrite_cycle_closed`).
    2. `accepted_no_operator_on_cycle` — **no intersection, exclusion or other non-union operator node lies on any
       cycle of the graph** (`Conn g v v` is impossible for a visited node that is not a "maximum" node).  A sixth pass
       over the computation (`calcNode_6S`, `go_6S`), with the invariants of passes 2–5 as black boxes (`AllInv`):
       a non-union operator is only computed when the list of open cycle references returned by its edges is empty;
       at that moment none of its edges holds a placeholder, so every edge satisfies the edge rule (`InvD.rule`: an
       edge satisfies the rule or holds only the placeholder of its target), so every target has weights and no
       placeholder (`BB`).  The set of nodes that have weights and no placeholder is closed under the edges of the
       graph (`BB_closed`: node rule for relations and unions, `Inv5.noph` for the others, every edge of a node that
       has weights has weights, edge rule).  The operator itself has no weights yet — so it is not reachable from its
       own edges (`no_cycle_of_closed`).
    3. `accepted_intersection_common_type` — every intersection of the graph has a terminal type that is present on
       every one of its edges (non-empty weight map + node rule), and that type is reachable from it.
    4. `accepted_relation_reaches_terminal` — every relation, union, intersection (and exclusion with two edges)
       reaches a terminal node of the graph by a path (`ReachN`).
    5. `accepts_only_well_founded` — the conjunction.  -/
set_option linter.unusedSimpArgs false
set_option linter.unusedSectionVars false
set_option linter.unusedVariables false
namespace FgaVerif.Model.WAssign
open FgaVerif.Model FgaVerif.Model.WGraph

/-! ### 1. no rewrite-only cycle -/

theorem prepass_of_ok (g : G) (order : List String) (st : AState) (h : assignWeights g order = .ok st) :
    hasRewriteOnlyCycle g = false := by
  cases hb : hasRewriteOnlyCycle g with
  | false => rfl
  | true =>
    unfold assignWeights at h
    rw [hb] at h
    simp at h

/-- on success no node of the graph lies on a cycle of rewrite/computed edges -/
theorem accepted_no_rewrite_cycle (g : G) (order : List String) (st : AState) (h : assignWeights g order = .ok st) :
    ∀ n ∈ g.nodes, ¬ RPath g n.uniqueLabel n.uniqueLabel :=
  no_cycle_of_prepass g (prepass_of_ok g order st h)

/-- … and on a graph whose rewrite/computed edges end in nodes of the graph, no label at all -/
theorem accepted_no_rewrite_cycle_closed (g : G) (hcl : RClosed g) (order : List String) (st : AState)
    (h : assignWeights g order = .ok st) : ∀ x, ¬ RPath g x x := by
  intro x hx
  obtain ⟨z, hz⟩ := hx.last
  obtain ⟨n, hn, rfl⟩ := List.mem_map.1 (hcl z x hz)
  exact accepted_no_rewrite_cycle g order st h n hn hx

/-! ### 3. an accepted intersection has a type common to all its edges -/

theorem ref_mem_edgeRefs {g : G} {v : String} {i : Nat} {e : WEdge} (he : (edgesOf g v)[i]? = some e) :
    (v, i) ∈ edgeRefs g v := by
  unfold edgeRefs
  refine List.mem_map.2 ⟨i, ?_, rfl⟩
  rw [List.mem_range]
  exact (List.getElem?_eq_some_iff.1 he).1

theorem exists_key_of_ne_nil (w : WMap) (h : w ≠ []) : ∃ T x, wget T w = some x := by
  obtain ⟨k, hk⟩ := keys_of_ne_nil w h
  have := (wget_isSome_iff_keys k w).2 hk
  obtain ⟨x, hx⟩ := Option.isSome_iff_exists.1 this
  exact ⟨k, x, hx⟩

/-- every intersection node of an accepted graph has a terminal type `T` that is present on **every** one of its
    edges; `T` is the type of a terminal node reachable from the intersection -/
theorem accepted_intersection_common_type (g : G) (hn : NoPHTypes g) (order : List String) (st : AState)
    (h : assignWeights g order = .ok st) (n : WNode) (hmem : n ∈ g.nodes)
    (hop : nodeType g n.uniqueLabel = .operator) (hlbl : nodeLabel g n.uniqueLabel = "intersection") :
    ∃ T, (∃ j, ReachN g n.uniqueLabel T j) ∧ isPH T = false ∧
      ∀ i e, (edgesOf g n.uniqueLabel)[i]? = some e → (wget T (aget (n.uniqueLabel, i) st.edgeW)).isSome = true := by
  have hne := (assignWeights_nonempty g order st h).1 n hmem (Or.inr ⟨hop, Or.inr (Or.inl hlbl)⟩)
  have hvis := (assignWeights_visited g order st h).1 n hmem (by rw [hop]; rfl)
  have hrule := assignWeights_node_rule g hn order st h _ hvis
  have hwit := (assignWeights_witnessed g hn order st h).1
  have hclean := assignWeights_clean g hn order st h
  obtain ⟨T, x, hx⟩ := exists_key_of_ne_nil _ hne
  refine ⟨T, (hwit _ T x hx).2.1, hclean.node _ T ⟨x, wget_some_mem _ _ _ hx⟩, ?_⟩
  intro i e he
  have hT := hrule T
  rw [hx] at hT
  unfold stratL at hT
  have hmax : isMaxNode g n.uniqueLabel = false := by
    unfold isMaxNode
    rw [hop, hlbl]
    decide
  rw [hmax] at hT
  simp only [Bool.false_eq_true, if_false, hlbl, beq_self_eq_true, if_true] at hT
  rw [interL_spec] at hT
  split at hT
  · rename_i hall
    rw [List.all_eq_true] at hall
    apply hall
    unfold edgeMaps
    exact List.mem_map.2 ⟨(n.uniqueLabel, i), ref_mem_edgeRefs he, rfl⟩
  · cases hT

/-! ### 4. an accepted relation reaches a terminal type -/

/-- every relation (union, intersection, two-edged exclusion) of an accepted graph reaches a terminal node -/
theorem accepted_good_reaches_terminal (g : G) (hn : NoPHTypes g) (order : List String) (st : AState)
    (h : assignWeights g order = .ok st) (n : WNode) (hmem : n ∈ g.nodes) (hgood : GoodNode g n.uniqueLabel) :
    ∃ T j, ReachN g n.uniqueLabel T j := by
  have hne := (assignWeights_nonempty g order st h).1 n hmem hgood
  obtain ⟨T, x, hx⟩ := exists_key_of_ne_nil _ hne
  obtain ⟨j, hj⟩ := ((assignWeights_witnessed g hn order st h).1 _ T x hx).2.1
  exact ⟨T, j, hj⟩

theorem accepted_relation_reaches_terminal (g : G) (hn : NoPHTypes g) (order : List String) (st : AState)
    (h : assignWeights g order = .ok st) (n : WNode) (hmem : n ∈ g.nodes)
    (hk : nodeType g n.uniqueLabel = .typeAndRelation) : ∃ T j, ReachN g n.uniqueLabel T j :=
  accepted_good_reaches_terminal g hn order st h n hmem (Or.inl hk)

/-! ### 2. no intersection or exclusion on a cycle

    The static core: in a state that satisfies the invariants of passes 2–5, the nodes that have weights and no
    placeholder are closed under the edges of the graph. -/

/-- the invariants of passes 2 to 5 together; `K` lists the nodes whose visit is in progress -/
structure AllInv (g : G) (K : List String) (st : AState) : Prop where
  i2 : Inv2 st
  iD : InvD g st
  i5 : Inv5 g (fun _ _ _ => True) st
  i3 : Inv3 g K st
  kv : ∀ v ∈ K, v ∈ st.visited
  kn : ∀ v ∈ K, aget v st.nodeW = []

/-- the node has weights and none of them is a placeholder -/
def BB (st : AState) (x : String) : Prop :=
  aget x st.nodeW ≠ [] ∧ ∀ k, isPH k = true → wget k (aget x st.nodeW) = none

/-- an edge that has weights, none of them a placeholder, satisfies the edge rule: its target has weights and no
    placeholder -/
theorem edge_target_BB {g : G} {st : AState} (hD : InvD g st) (r : ERef) (e : WEdge) (he : edgeAt g r = some e)
    (ht : isTerminal (nodeType g e.dst) = false) (hne : aget r st.edgeW ≠ [])
    (hnoph : ∀ k, isPH k = true → wget k (aget r st.edgeW) = none) : BB st e.dst := by
  rcases hD.rule r e he ht hne with hok | hraw
  · refine ⟨?_, ?_⟩
    · intro hnil
      apply hne
      apply nil_of_wget_none
      intro k
      rw [hok k, hnil]
      rfl
    · intro k hk
      have := hok k
      rw [hnoph k hk] at this
      cases hw : wget k (aget e.dst st.nodeW) with
      | none => rfl
      | some x => rw [hw] at this; cases this
  · have := hraw ("R#" ++ e.dst)
    rw [if_pos rfl, hnoph _ (isPH_mk _)] at this
    cases this

theorem mem_edgesOf_ref {g : G} {x : String} {e : WEdge} (he : e ∈ edgesOf g x) :
    ∃ r ∈ edgeRefs g x, edgeAt g r = some e := by
  obtain ⟨i, hi, hget⟩ := List.mem_iff_getElem.1 he
  refine ⟨(x, i), ?_, ?_⟩
  · unfold edgeRefs
    exact List.mem_map.2 ⟨i, List.mem_range.2 hi, rfl⟩
  · unfold edgeAt
    simp only
    rw [List.getElem?_eq_getElem hi, hget]

/-- **closure**: every edge of a node that has weights and no placeholder leads to such a node (or to a terminal) -/
theorem BB_closed {g : G} {K : List String} {st : AState} (hA : AllInv g K st) (x : String) (hx : BB st x) (e : WEdge)
    (he : e ∈ edgesOf g x) (ht : isTerminal (nodeType g e.dst) = false) : BB st e.dst := by
  obtain ⟨r, hr, hat⟩ := mem_edgesOf_ref he
  have hvis : x ∈ st.visited := hA.i2.v2 x hx.1
  have hxK : x ∉ K := fun hk => hx.1 (hA.kn x hk)
  have hne : aget r st.edgeW ≠ [] := hA.i3.ed x hvis hxK r hr
  refine edge_target_BB hA.iD r e hat ht hne ?_
  intro k hk
  cases hm : isMaxNode g x with
  | false => exact hA.i5.noph x hx.1 hm r hr k hk
  | true =>
    have hrule := hA.i5.ok x hx.1 k
    rw [hx.2 k hk] at hrule
    unfold stratL at hrule
    rw [if_pos hm] at hrule
    have hs := unionL_isSome (edgeMaps g x st) k
    rw [← hrule] at hs
    have hany : ((edgeMaps g x st).any (fun m => (wget k m).isSome)) = false := by rw [← hs]; rfl
    rw [List.any_eq_false] at hany
    have := hany (aget r st.edgeW) (List.mem_map.2 ⟨r, hr, rfl⟩)
    cases hw : wget k (aget r st.edgeW) with
    | none => rfl
    | some y => rw [hw] at this; simp at this

theorem BB_conn {g : G} {K : List String} {st : AState} (hA : AllInv g K st) {a b : String} (hc : Conn g a b) :
    (∀ e ∈ edgesOf g a, isTerminal (nodeType g e.dst) = false → BB st e.dst) → BB st b := by
  induction hc with
  | edge e he ht => exact fun h => h e he ht
  | step e he ht _ ih =>
    intro h
    exact ih (fun e' he' ht' => BB_closed hA _ (h e he ht) e' he' ht')

/-- a node whose visit is in progress, all of whose edges have weights and no placeholder, lies on no cycle -/
theorem no_cycle_of_closed {g : G} {K : List String} {st : AState} (hA : AllInv g K st) (n : String) (hn : n ∈ K)
    (hedges : ∀ r ∈ edgeRefs g n, aget r st.edgeW ≠ [] ∧ ∀ k, isPH k = true → wget k (aget r st.edgeW) = none) :
    ¬ Conn g n n := by
  intro hc
  have := BB_conn hA hc (fun e he ht => by
    obtain ⟨r, hr, hat⟩ := mem_edgesOf_ref he
    exact edge_target_BB hA.iD r e hat ht (hedges r hr).1 (hedges r hr).2)
  exact this.1 (hA.kn n hn)

/-! ### the sixth pass -/

theorem calcNode_All (g : G) (hn : NoPHTypes g) (fuel : Nat) (K : List String) (n : String) (path : List WEdge)
    (st : AState) (hA : AllInv g K st) (tc : List String) (st' : AState)
    (h : calcNode fuel g n path st = ((tc, none), st')) : AllInv g K st' := by
  obtain ⟨b1, b2, _⟩ := calcNode_B g hn fuel n path st hA.i2 tc st' h
  obtain ⟨d1, d2⟩ := calcNode_D g hn fuel n path st hA.i2 hA.iD tc st' h
  obtain ⟨n1, _, _⟩ := calcNode_N g _ (kclosed_true g) hn fuel n path st hA.i2 hA.iD hA.i5 tc st' h
  obtain ⟨c1, _⟩ := calcNode_C g fuel n path st K hA.i3 tc st' h
  exact ⟨b1, d1, n1, c1, fun v hv => b2.vm v (hA.kv v hv), fun v hv => d2.en v (hA.kv v hv) (hA.kn v hv)⟩

theorem edgeLoop_All (g : G) (hn : NoPHTypes g) (fuel : Nat) (K : List String) (nodeID : String) (path : List WEdge)
    (es : List (ERef × WEdge)) (tcs : List String) (st : AState) (hA : AllInv g K st) (hk : nodeID ∈ K)
    (hes : ∀ p ∈ es, p.1.1 = nodeID ∧ p.2 ∈ edgesOf g nodeID) (hat : ∀ p ∈ es, edgeAt g p.1 = some p.2)
    (hin : ∀ p ∈ es, p.1 ∈ edgeRefs g nodeID) (tcs' : List String) (st' : AState)
    (h : edgeLoop (calcNode fuel g) g nodeID path es tcs st = ((tcs', none), st')) :
    AllInv g K st' ∧ Rel2 [nodeID] st st' tcs' ∧ (∀ p ∈ es, aget p.1 st'.edgeW ≠ []) := by
  have hv := hA.kv _ hk
  obtain ⟨b1, b2, _⟩ := edgeLoop_B g hn _ (calcNode_B g hn fuel) nodeID path es tcs st hA.i2 hv hes tcs' st' h
  obtain ⟨d1, d2⟩ := edgeLoop_D g hn _ (calcNode_B g hn fuel) (calcNode_D g hn fuel) nodeID path es tcs st hA.i2 hA.iD hv
    hes hat tcs' st' h
  obtain ⟨n1, _, _⟩ := edgeLoop_N g _ (kclosed_true g) hn _ (calcNode_B g hn fuel) (calcNode_D g hn fuel)
    (calcNode_N g _ (kclosed_true g) hn fuel) nodeID path [] es tcs st hA.i2 hA.iD hA.i5 hv (hA.kn _ hk)
    (fun m hm => by cases hm) hes hat hin (fun m _ hm => by cases hm) tcs' st' h
  obtain ⟨c1, _, c3⟩ := edgeLoop_C g _ (calcNode_C g fuel) K nodeID path es tcs st hA.i3 tcs' st' h
  exact ⟨⟨b1, d1, n1, c1, fun v hv => b2.vm v (hA.kv v hv), fun v hv => d2.en v (hA.kv v hv) (hA.kn v hv)⟩, b2, c3⟩

/-- the loop over the edges, one edge at a time -/
theorem edgeLoop_cons_eq (rec : String → List WEdge → AState → Res) (g : G) (nodeID : String) (path : List WEdge)
    (r : ERef) (e : WEdge) (rest : List (ERef × WEdge)) (tcs : List String) (st : AState) :
    edgeLoop rec g nodeID path ((r, e) :: rest) tcs st =
      match edgeLoop rec g nodeID path [(r, e)] tcs st with
      | ((tcs1, some err), st1) => ((tcs1, some err), st1)
      | ((tcs1, none), st1) => edgeLoop rec g nodeID path rest tcs1 st1 := by
  simp only [edgeLoop]
  split
  · rfl
  · split
    · rfl
    · split <;> rfl

/-- one step of the loop changes `visited` only through the recursive call -/
theorem edgeLoop_single_vis (rec : String → List WEdge → AState → Res) (g : G) (nodeID : String) (path : List WEdge)
    (r : ERef) (e : WEdge) (tcs : List String) (st : AState) (tcs1 : List String) (st1 : AState)
    (h : edgeLoop rec g nodeID path [(r, e)] tcs st = ((tcs1, none), st1)) :
    st1.visited = st.visited ∨
      ∃ tc st3, rec e.dst (path ++ [e]) st = ((tc, none), st3) ∧ st1.visited = st3.visited := by
  simp only [edgeLoop] at h
  split at h
  · simp only [Prod.mk.injEq] at h
    exact Or.inl (by rw [← h.2])
  · split at h
    · simp only [Prod.mk.injEq] at h
      left
      rw [← h.2]
      simp only
      split <;> simp
    · split at h
      · cases h
      · rename_i herr
        simp only [Prod.mk.injEq] at h
        rw [← h.2]
        simp only [addEdgeWildcardsToNode_visited, calculateEdgeWildcards_visited]
        rw [calcEdgeWith_eq] at herr ⊢
        split
        · left; rfl
        · rename_i hse
          simp only [hse, Bool.false_eq_true, if_false] at herr
          split
          · rename_i tc err st3 heq
            rw [heq] at herr
            simp at herr
          · rename_i tc st3 heq
            right
            refine ⟨tc, st3, heq, ?_⟩
            split
            · split
              · rfl
              · rfl
            · simp only [scan_visited]
              split
              · exact addDeps_visited ..
              · rfl

/-- visited nodes whose visit is over (not in `K`) and that are not relations or unions lie on no cycle -/
def Inv6S (g : G) (K : List String) (vis : List String) : Prop :=
  ∀ v ∈ vis, v ∉ K → isMaxNode g v = false → ¬ Conn g v v

def Rec6S (g : G) (rec : String → List WEdge → AState → Res) : Prop :=
  ∀ n path st K, AllInv g K st → Inv6S g K st.visited → ∀ tc st', rec n path st = ((tc, none), st') →
    Inv6S g K st'.visited

theorem edgeLoop_6S (g : G) (hn : NoPHTypes g) (fuel : Nat) (hrec : Rec6S g (calcNode fuel g)) (K : List String)
    (nodeID : String) (path : List WEdge) (hk : nodeID ∈ K) :
    ∀ (es : List (ERef × WEdge)) (tcs : List String) (st : AState), AllInv g K st → Inv6S g K st.visited →
      (∀ p ∈ es, p.1.1 = nodeID ∧ p.2 ∈ edgesOf g nodeID) → (∀ p ∈ es, edgeAt g p.1 = some p.2) →
      (∀ p ∈ es, p.1 ∈ edgeRefs g nodeID) →
      ∀ tcs' st', edgeLoop (calcNode fuel g) g nodeID path es tcs st = ((tcs', none), st') → Inv6S g K st'.visited
  | [], tcs, st, _, h6, _, _, _, tcs', st', h => by
    simp only [edgeLoop, Prod.mk.injEq] at h
    rw [← h.2]; exact h6
  | (r, e) :: rest, tcs, st, hA, h6, hes, hat, hin, tcs', st', h => by
    rw [edgeLoop_cons_eq] at h
    split at h
    · cases h
    · rename_i tcs1 st1 heq1
      have hA1 := (edgeLoop_All g hn fuel K nodeID path [(r, e)] tcs st hA hk
        (fun p hp => hes p (by rw [List.mem_singleton.1 hp]; exact List.mem_cons_self ..))
        (fun p hp => hat p (by rw [List.mem_singleton.1 hp]; exact List.mem_cons_self ..))
        (fun p hp => hin p (by rw [List.mem_singleton.1 hp]; exact List.mem_cons_self ..)) tcs1 st1 heq1).1
      have h61 : Inv6S g K st1.visited := by
        rcases edgeLoop_single_vis _ g nodeID path r e tcs st tcs1 st1 heq1 with hv | ⟨tc, st3, hc, hv⟩
        · rw [hv]; exact h6
        · rw [hv]; exact hrec e.dst (path ++ [e]) st K hA h6 tc st3 hc
      exact edgeLoop_6S g hn fuel hrec K nodeID path hk rest tcs1 st1 hA1 h61
        (fun p hp => hes p (List.mem_cons_of_mem _ hp)) (fun p hp => hat p (List.mem_cons_of_mem _ hp))
        (fun p hp => hin p (List.mem_cons_of_mem _ hp)) tcs' st' h

theorem calcNode_6S (g : G) (hn : NoPHTypes g) : ∀ (fuel : Nat), Rec6S g (calcNode fuel g)
  | 0 => by
    intro n path st K _ _ tc st' h
    simp [calcNode] at h
  | fuel+1 => by
    intro n path st K hA h6 tc st' h
    unfold calcNode at h
    split at h
    · simp only [Prod.mk.injEq] at h
      rw [← h.2]; exact h6
    · split at h
      · simp only [Prod.mk.injEq] at h
        rw [← h.2]; exact h6
      · rename_i hc ht
        have hfresh : n ∉ st.visited := fun hh => hc (List.contains_iff_mem.2 hh)
        have hnil0 : aget n st.nodeW = [] := by
          cases hh : aget n st.nodeW with
          | nil => rfl
          | cons a b => exact absurd (hA.i2.v2 n (by rw [hh]; simp)) hfresh
        simp only at h
        have hI := hA.i2
        have hI0 : Inv2 { st with visited := n :: st.visited } :=
          ⟨hI.i1, hI.i3, fun r hr => List.mem_cons_of_mem _ (hI.v1 r hr), fun N hN => List.mem_cons_of_mem _ (hI.v2 N hN),
            fun m r hr => List.mem_cons_of_mem _ (hI.v3 m r hr)⟩
        have hD0 : InvD g { st with visited := n :: st.visited } := hA.iD.of_core rfl rfl
        have h50 : Inv5 g (fun _ _ _ => True) { st with visited := n :: st.visited } := hA.i5.of_core rfl rfl
        have h30 : Inv3 g (n :: K) { st with visited := n :: st.visited } := by
          refine ⟨?_, ?_, hA.i3.pos⟩
          · intro v hv hvK hgood
            have hvn : v ≠ n := fun e => hvK (e ▸ List.mem_cons_self ..)
            rcases List.mem_cons.1 hv with e | hv
            · exact absurd e hvn
            · exact hA.i3.ne v hv (fun hh => hvK (List.mem_cons_of_mem _ hh)) hgood
          · intro v hv hvK r hr
            have hvn : v ≠ n := fun e => hvK (e ▸ List.mem_cons_self ..)
            rcases List.mem_cons.1 hv with e | hv
            · exact absurd e hvn
            · exact hA.i3.ed v hv (fun hh => hvK (List.mem_cons_of_mem _ hh)) r hr
        have hA0 : AllInv g (n :: K) { st with visited := n :: st.visited } := by
          refine ⟨hI0, hD0, h50, h30, ?_, ?_⟩
          · intro v hv
            rcases List.mem_cons.1 hv with e | hv
            · exact e ▸ List.mem_cons_self ..
            · exact List.mem_cons_of_mem _ (hA.kv v hv)
          · intro v hv
            rcases List.mem_cons.1 hv with e | hv
            · exact e ▸ hnil0
            · exact hA.kn v hv
        have h60 : Inv6S g (n :: K) (n :: st.visited) := by
          intro v hv hvK
          rcases List.mem_cons.1 hv with e | hv
          · exact absurd (e ▸ List.mem_cons_self ..) hvK
          · exact h6 v hv (fun hh => hvK (List.mem_cons_of_mem _ hh))
        split at h
        · simp at h
        · rename_i tcs stL heq
          obtain ⟨hAL, hRL, hall⟩ := edgeLoop_All g hn fuel (n :: K) n path _ [] _ hA0 (List.mem_cons_self ..)
            (mem_refs g n) (refs_edgeAt g n) (refs_in_edgeRefs g n) tcs stL heq
          have h6L := edgeLoop_6S g hn fuel (calcNode_6S g hn fuel) (n :: K) n path (List.mem_cons_self ..) _ [] _ hA0 h60
            (mem_refs g n) (refs_edgeAt g n) (refs_in_edgeRefs g n) tcs stL heq
          have hvis : st'.visited = stL.visited := by
            have := fromTheEdges_visited g n tcs stL
            rw [h] at this; exact this
          rw [hvis]
          intro v hv hvK hmax
          by_cases hvn : v = n
          · subst hvn
            have htcs : tcs = [] := by
              rcases fromTheEdges_casesN g v tcs stL hAL.iD.sorted.1 with
                ⟨t, e, s, hcs⟩ | ⟨hcs, htcs⟩ | ⟨w, hcs, hw, hnm⟩ | ⟨hcs, hmx, hin⟩
              · rw [hcs] at h; simp at h
              · exact htcs
              · exact hnm hmax
              · rw [hmax] at hmx; cases hmx
            apply no_cycle_of_closed hAL v (List.mem_cons_self ..)
            intro r hr
            obtain ⟨e, he⟩ := refs_cover g v r hr
            refine ⟨hall _ he, ?_⟩
            intro k hk
            cases hx : wget k (aget r stL.edgeW) with
            | none => rfl
            | some x =>
              have hkeys : Keys (aget r stL.edgeW) k := ⟨x, wget_some_mem _ _ _ hx⟩
              rcases hRL.ce r k hkeys hk with h1 | h1
              · have := hI.v1 r (ne_nil_of_keys h1)
                rw [mem_edgeRefs_fst hr] at this
                exact absurd this hfresh
              · rw [htcs] at h1; cases h1
          · refine h6L v hv (fun hh => ?_) hmax
            rcases List.mem_cons.1 hh with e | hh
            · exact hvn e
            · exact hvK hh

theorem allInv_init (g : G) : AllInv g [] {} :=
  ⟨inv2_init, invD_init g, inv5_init g _, inv3_init g, fun v hv => (by cases hv), fun v hv => (by cases hv)⟩

theorem go_6S (g : G) (hn : NoPHTypes g) : ∀ (ns : List String) (st st' : AState), AllInv g [] st → Inv6S g [] st.visited →
    assignWeights.go g ns st = .ok st' → Inv6S g [] st'.visited
  | [], st, st', _, h6, heq => by
    simp only [assignWeights.go] at heq
    cases heq; exact h6
  | n :: ns, st, st', hA, h6, heq => by
    unfold assignWeights.go at heq
    split at heq
    · exact go_6S g hn ns st st' hA h6 heq
    · split at heq
      · cases heq
      · rename_i tcs st2 hres
        split at heq
        · cases heq
        · exact go_6S g hn ns st2 st' (calcNode_All g hn _ [] n [] st hA tcs st2 hres)
            (calcNode_6S g hn _ n [] st [] hA h6 tcs st2 hres) heq

/-- **2. on success no visited node other than a relation or a union lies on a cycle of the graph** -/
theorem accepted_no_nonmax_on_cycle (g : G) (hn : NoPHTypes g) (order : List String) (st : AState)
    (h : assignWeights g order = .ok st) : ∀ v ∈ st.visited, isMaxNode g v = false → ¬ Conn g v v := by
  unfold assignWeights at h
  split at h
  · cases h
  · have := go_6S g hn _ {} st (allInv_init g) (fun v hv => by cases hv) h
    exact fun v hv hm => this v hv (fun hh => by cases hh) hm

/-- **2. no intersection, exclusion (or other non-union operator) node of an accepted graph lies on any cycle** -/
theorem accepted_no_operator_on_cycle (g : G) (hn : NoPHTypes g) (order : List String) (st : AState)
    (h : assignWeights g order = .ok st) (n : WNode) (hmem : n ∈ g.nodes) (hop : nodeType g n.uniqueLabel = .operator)
    (hlbl : nodeLabel g n.uniqueLabel ≠ "union") : ¬ Conn g n.uniqueLabel n.uniqueLabel := by
  have hvis := (assignWeights_visited g order st h).1 n hmem (by rw [hop]; rfl)
  apply accepted_no_nonmax_on_cycle g hn order st h _ hvis
  unfold isMaxNode
  rw [hop]
  have hf : (NodeType.operator != NodeType.operator) = false := by decide
  rw [hf, Bool.false_or]
  simpa using hlbl

/-! ### 5. the bundle -/

/-- **whatever the port accepts is well-founded** -/
theorem accepts_only_well_founded (g : G) (hn : NoPHTypes g) (order : List String) (st : AState)
    (h : assignWeights g order = .ok st) :
    (∀ n ∈ g.nodes, ¬ RPath g n.uniqueLabel n.uniqueLabel) ∧
    (∀ n ∈ g.nodes, nodeType g n.uniqueLabel = .operator → nodeLabel g n.uniqueLabel ≠ "union" →
      ¬ Conn g n.uniqueLabel n.uniqueLabel) ∧
    (∀ n ∈ g.nodes, nodeType g n.uniqueLabel = .operator → nodeLabel g n.uniqueLabel = "intersection" →
      ∃ T, (∃ j, ReachN g n.uniqueLabel T j) ∧ isPH T = false ∧
        ∀ i e, (edgesOf g n.uniqueLabel)[i]? = some e → (wget T (aget (n.uniqueLabel, i) st.edgeW)).isSome = true) ∧
    (∀ n ∈ g.nodes, nodeType g n.uniqueLabel = .typeAndRelation → ∃ T j, ReachN g n.uniqueLabel T j) :=
  ⟨accepted_no_rewrite_cycle g order st h,
    fun n hmem hop hlbl => accepted_no_operator_on_cycle g hn order st h n hmem hop hlbl,
    fun n hmem hop hlbl => accepted_intersection_common_type g hn order st h n hmem hop hlbl,
    fun n hmem hk => accepted_relation_reaches_terminal g hn order st h n hmem hk⟩

end FgaVerif.Model.WAssign
