import FgaVerif.Proofs.GParseSound
/-! Completeness of the grammar interpreter `Model/GParse.lean` with respect to the declarative semantics
    `Match` / `Derives` of `Proofs/GParseSound.lean`, for every grammar and every token array.

    The statement is about **end positions**: whenever a derivation reaches a position, so does one of
    the results of the interpreter — unless the interpreter ran out of fuel somewhere, which it says
    (`outOfFuel`).

    One side condition is needed, and it is necessary (`plus_counterexample`): the interpreter's `x+`
    keeps only the first iterations that make progress (like its `x*`), whereas `Match.plus` lets the
    first iteration match the empty span.  For `x*` that is harmless (an iteration without progress can
    be dropped: `star_norm`), for `x+` it loses exactly the *empty* match of `x+`.  So the grammar must
    not have an `x+` whose body can match the empty span: `PlusProgress` (semantic), implied by the
    decidable `plusGuarded` (syntactic: every `x+` body must consume a token).

    * `Spans`, `match_anyAcc`, `star_norm` — end positions do not depend on the accumulators; `x*`
      normalised to progressing iterations.
    * `Mono` — the flag `outOfFuel` is never reset.
    * `MemoComplete`, `Complete`, `CompleteAt` — the invariant and the four statements.
    * `parse_complete`, `parse_noParse`, `parse_cases`, `parse_accepts_iff` — the main theorems. -/
namespace FgaVerif.Proofs.GParseComplete
open FgaVerif.Model FgaVerif.Model.Conform FgaVerif.Model.GParse FgaVerif.Proofs.GParseSound

/-! ### end positions do not depend on the accumulators -/

/-- the body `g` can be matched from token position `p` to token position `q` (for some accumulators) -/
def Spans (rules : List (String × Gram)) (toks : Array Tok) (g : Gram) (p q : Nat) : Prop :=
  ∃ cs ls cs' ls', Match rules toks g p cs ls q cs' ls'

section
variable {rules : List (String × Gram)} {toks : Array Tok}

theorem Spans.of {g p cs ls q cs' ls'} (h : Match rules toks g p cs ls q cs' ls') :
    Spans rules toks g p q := ⟨_, _, _, _, h⟩

/-- which end positions a body reaches does not depend on the children and label fields accumulated so
    far -/
theorem match_anyAcc {g p cs ls q cs' ls'} (h : Match rules toks g p cs ls q cs' ls') :
    ∀ cs₀ ls₀, ∃ cs₁ ls₁, Match rules toks g p cs₀ ls₀ q cs₁ ls₁ := by
  induction h with
  | tok ht hty => exact fun _ _ => ⟨_, _, Match.tok ht hty⟩
  | notTok ht h₁ h₂ => exact fun _ _ => ⟨_, _, Match.notTok ht h₁ h₂⟩
  | rule hb hm _ => exact fun _ _ => ⟨_, _, Match.rule hb hm⟩
  | seqNil => exact fun _ _ => ⟨_, _, Match.seqNil⟩
  | seqCons _ _ ih₁ ih₂ =>
    intro cs₀ ls₀
    obtain ⟨c₁, l₁, h₁⟩ := ih₁ cs₀ ls₀
    obtain ⟨c₂, l₂, h₂⟩ := ih₂ c₁ l₁
    exact ⟨_, _, Match.seqCons h₁ h₂⟩
  | alt hx _ ih =>
    intro cs₀ ls₀
    obtain ⟨c₁, l₁, h₁⟩ := ih cs₀ ls₀
    exact ⟨_, _, Match.alt hx h₁⟩
  | optNone => exact fun _ _ => ⟨_, _, Match.optNone⟩
  | optSome _ ih =>
    intro cs₀ ls₀
    obtain ⟨c₁, l₁, h₁⟩ := ih cs₀ ls₀
    exact ⟨_, _, Match.optSome h₁⟩
  | starNil => exact fun _ _ => ⟨_, _, Match.starNil⟩
  | starCons _ _ ih₁ ih₂ =>
    intro cs₀ ls₀
    obtain ⟨c₁, l₁, h₁⟩ := ih₁ cs₀ ls₀
    obtain ⟨c₂, l₂, h₂⟩ := ih₂ c₁ l₁
    exact ⟨_, _, Match.starCons h₁ h₂⟩
  | plus _ _ ih₁ ih₂ =>
    intro cs₀ ls₀
    obtain ⟨c₁, l₁, h₁⟩ := ih₁ cs₀ ls₀
    obtain ⟨c₂, l₂, h₂⟩ := ih₂ c₁ l₁
    exact ⟨_, _, Match.plus h₁ h₂⟩
  | label _ ih =>
    intro cs₀ ls₀
    obtain ⟨c₁, l₁, h₁⟩ := ih cs₀ ls₀
    exact ⟨_, _, Match.label h₁⟩

theorem Spans.acc {g p q} (h : Spans rules toks g p q) (cs ls) :
    ∃ cs' ls', Match rules toks g p cs ls q cs' ls' := by
  obtain ⟨_, _, _, _, hm⟩ := h
  exact match_anyAcc hm cs ls

theorem Spans.le {g p q} (h : Spans rules toks g p q) : p ≤ q := by
  obtain ⟨_, _, _, _, hm⟩ := h
  exact hm.yield.1

/-- `x*` normalised: either no token is consumed, or there is a first iteration that consumes at least
    one token, followed by `x*` (iterations without progress can be dropped; the accumulators change,
    the end position does not) -/
theorem star_norm {x p cs ls q cs' ls'} (h : Match rules toks (.star x) p cs ls q cs' ls') :
    q = p ∨ ∃ p', p < p' ∧ Spans rules toks x p p' ∧ Spans rules toks (.star x) p' q := by
  generalize hg : Gram.star x = g at h
  induction h with
  | starNil => exact Or.inl rfl
  | starCons h₁ h₂ _ ih₂ =>
    cases hg
    rcases Nat.eq_or_lt_of_le h₁.yield.1 with e | hlt
    · subst e
      exact ih₂ rfl
    · exact Or.inr ⟨_, hlt, Spans.of h₁, Spans.of h₂⟩
  | _ => cases hg

end

/-! ### the side condition on `x+` -/

/-- no `x+` inside `g` has a body `x` that can match the empty span -/
inductive PlusOK (rules : List (String × Gram)) (toks : Array Tok) : Gram → Prop
  | tok {ty} : PlusOK rules toks (.tok ty)
  | notTok {tys} : PlusOK rules toks (.notTok tys)
  | rule {n} : PlusOK rules toks (.rule n)
  | seq {xs} : (∀ x, x ∈ xs → PlusOK rules toks x) → PlusOK rules toks (.seq xs)
  | alt {xs} : (∀ x, x ∈ xs → PlusOK rules toks x) → PlusOK rules toks (.alt xs)
  | opt {x} : PlusOK rules toks x → PlusOK rules toks (.opt x)
  | star {x} : PlusOK rules toks x → PlusOK rules toks (.star x)
  | plus {x} : PlusOK rules toks x → (∀ p, ¬ Spans rules toks x p p) → PlusOK rules toks (.plus x)
  | label {l x} : PlusOK rules toks x → PlusOK rules toks (.label l x)

/-- **side condition**: in no rule body is there an `x+` whose body `x` can match the empty span (over
    these tokens) -/
def PlusProgress (rules : List (String × Gram)) (toks : Array Tok) : Prop :=
  ∀ n body, lookup rules n = some body → PlusOK rules toks body

/-! ### the flag is never reset -/

/-- once `outOfFuel` is set, `x` leaves it set -/
def Mono (x : PM α) : Prop := ∀ s, s.outOfFuel = true → (runM x s).2.outOfFuel = true

theorem Mono.pure {a : α} : Mono (pure a : PM α) := fun _ h => h

theorem Mono.bind {x : PM α} {f : α → PM β} (hx : Mono x) (hf : ∀ a, Mono (f a)) : Mono (x >>= f) := by
  intro s hs
  rw [runM_bind]
  exact hf _ _ (hx s hs)

theorem Mono.noFuel : Mono (noFuel : PM (List α)) := fun _ _ => rfl

theorem Mono.mapM {f : α → PM β} (h : ∀ a, Mono (f a)) : ∀ (xs : List α), Mono (xs.mapM f)
  | [] => by rw [List.mapM_nil]; exact Mono.pure
  | a :: xs => by
    rw [List.mapM_cons]
    exact Mono.bind (h a) fun _ => Mono.bind (Mono.mapM h xs) fun _ => Mono.pure

/-- what `parseRule` stores and returns: one context of rule `n` per result of the body -/
def ruleOut (toks : Array Tok) (n : String) (p : Nat) (rs : List Partial) : List (Nat × Tree) :=
  rs.map (fun (x : Partial) => match x with
    | (e, cs, ls) => (e, Tree.rule n (startLC toks p).1 (startLC toks p).2 ls cs.reverse))

/-- `parseRule` with fuel as a state transformer -/
theorem runM_parseRule_succ (rules : List (String × Gram)) (toks : Array Tok) (f : Nat) (n : String)
    (p : Nat) (s : PState) :
    runM (parseRule rules toks (f + 1) n p) s =
      match s.memo.get? (n, p) with
      | some r => (r, s)
      | none =>
        match lookup rules n with
        | none => ([], s)
        | some body =>
          (ruleOut toks n p (runM (parseG rules toks f body (p, [], [])) s).1,
           { (runM (parseG rules toks f body (p, [], [])) s).2 with
             memo := (runM (parseG rules toks f body (p, [], [])) s).2.memo.insert (n, p)
               (ruleOut toks n p (runM (parseG rules toks f body (p, [], [])) s).1) }) := by
  rw [parseRule.eq_2, runM_bind, runM_get]
  show runM (match s.memo.get? (n, p) with
      | some r => Pure.pure r
      | none => _) s = _
  cases s.memo.get? (n, p) with
  | some r => rfl
  | none =>
    cases lookup rules n with
    | none => rfl
    | some body => rfl

/-- the four monotonicity statements, for one amount of fuel -/
def MonoAt (rules : List (String × Gram)) (toks : Array Tok) (f : Nat) : Prop :=
  (∀ g st, Mono (parseG rules toks f g st)) ∧
  (∀ x st, Mono (parseStar rules toks f x st)) ∧
  (∀ xs sts, Mono (parseSeq rules toks f xs sts)) ∧
  (∀ n p, Mono (parseRule rules toks f n p))

theorem monoAt (rules : List (String × Gram)) (toks : Array Tok) : ∀ f, MonoAt rules toks f
  | 0 => by
    refine ⟨fun g st => ?_, fun x st => ?_, fun xs sts => ?_, fun n p => ?_⟩
    · rw [parseG.eq_1]; exact Mono.noFuel
    · rw [parseStar.eq_1]; exact Mono.noFuel
    · rw [parseSeq.eq_1]; exact Mono.noFuel
    · rw [parseRule.eq_1]; exact Mono.noFuel
  | f + 1 => by
    obtain ⟨mG, mStar, mSeq, mRule⟩ := monoAt rules toks f
    refine ⟨fun g st => ?_, fun x st => ?_, fun xs sts => ?_, fun n p => ?_⟩
    · obtain ⟨p, cs, ls⟩ := st
      cases g with
      | tok ty =>
        rw [parseG.eq_2]
        cases toks[p]? <;> exact Mono.pure
      | notTok tys =>
        rw [parseG.eq_3]
        cases toks[p]? <;> exact Mono.pure
      | rule n => rw [parseG.eq_4]; exact Mono.bind (mRule n p) fun _ => Mono.pure
      | seq xs => rw [parseG.eq_5]; exact mSeq xs _
      | alt xs => rw [parseG.eq_6]; exact Mono.bind (Mono.mapM (fun x => mG x _) xs) fun _ => Mono.pure
      | opt x => rw [parseG.eq_7]; exact Mono.bind (mG x _) fun _ => Mono.pure
      | star x => rw [parseG.eq_8]; exact mStar x _
      | plus x =>
        rw [parseG.eq_9]
        exact Mono.bind (mG x _) fun _ => Mono.bind (Mono.mapM (fun r => mStar x r) _) fun _ => Mono.pure
      | label l x => rw [parseG.eq_10]; exact Mono.bind (mG x _) fun _ => Mono.pure
    · rw [parseStar.eq_2]
      exact Mono.bind (mG x _) fun _ => Mono.bind (Mono.mapM (fun r => mStar x r) _) fun _ => Mono.pure
    · cases xs with
      | nil => rw [parseSeq.eq_2]; exact Mono.pure
      | cons x rest =>
        rw [parseSeq.eq_3]
        exact Mono.bind (Mono.mapM (fun s => mG x s) sts) fun _ => mSeq rest _
    · intro s hs
      rw [runM_parseRule_succ]
      split
      · exact hs
      · split
        · exact hs
        · exact mG _ _ s hs

/-! ### `dedupPos` keeps one result per end position -/

theorem dedupPos_go_acc (y : Partial) :
    ∀ (xs : List Partial) (seen : List Nat) (acc : List Partial), y ∈ acc → y ∈ dedupPos.go xs seen acc
  | [], _, acc, h => by simpa [dedupPos.go] using h
  | x :: rest, seen, acc, h => by
    simp only [dedupPos.go]
    split
    · exact dedupPos_go_acc y rest _ _ h
    · exact dedupPos_go_acc y rest _ _ (List.mem_cons_of_mem _ h)

theorem dedupPos_go_cover :
    ∀ (xs : List Partial) (seen : List Nat) (acc : List Partial),
      (∀ n ∈ seen, ∃ y ∈ acc, y.1 = n) → ∀ x ∈ xs, ∃ y ∈ dedupPos.go xs seen acc, y.1 = x.1
  | [], _, _, _, x, hx => by cases hx
  | z :: rest, seen, acc, hinv, x, hx => by
    simp only [dedupPos.go]
    split
    · next hc =>
      rcases List.mem_cons.1 hx with rfl | hx
      · obtain ⟨y, hy, e⟩ := hinv _ (by simpa using hc)
        exact ⟨y, dedupPos_go_acc y rest _ _ hy, e⟩
      · exact dedupPos_go_cover rest seen acc hinv x hx
    · have hinv' : ∀ n ∈ z.1 :: seen, ∃ y ∈ z :: acc, y.1 = n := by
        intro n hn
        rcases List.mem_cons.1 hn with rfl | hn
        · exact ⟨z, by simp, rfl⟩
        · obtain ⟨y, hy, e⟩ := hinv n hn
          exact ⟨y, List.mem_cons_of_mem _ hy, e⟩
      rcases List.mem_cons.1 hx with rfl | hx
      · exact ⟨x, dedupPos_go_acc x rest _ _ (by simp), rfl⟩
      · exact dedupPos_go_cover rest _ _ hinv' x hx

/-- every end position of `xs` is an end position of `dedupPos xs` -/
theorem dedupPos_cover {xs : List Partial} {x : Partial} (h : x ∈ xs) : ∃ y ∈ dedupPos xs, y.1 = x.1 :=
  dedupPos_go_cover xs [] [] (by simp) x h

/-! ### the invariant of the memo table and the Hoare-style predicate -/

/-- every stored entry covers every end position that a derivation of its rule from its start position
    reaches -/
def MemoCompl (rules : List (String × Gram)) (toks : Array Tok) (m : Memo) : Prop :=
  ∀ n p rs, m.get? (n, p) = some rs → ∀ t q, Derives rules toks n t p q → ∃ r ∈ rs, r.1 = q

/-- the memo table is complete, as long as the recursion has not run out of fuel (an entry stored by a call
    that ran out of fuel inside may miss results, but then the flag is set, for good: `Mono`) -/
def MemoComplete (rules : List (String × Gram)) (toks : Array Tok) (s : PState) : Prop :=
  s.outOfFuel = false → MemoCompl rules toks s.memo

/-- run from a state whose memo table is complete: if the flag is still unset afterwards, then the memo
    table is still complete, the flag was unset before, and the result satisfies `Q` -/
def Complete (rules : List (String × Gram)) (toks : Array Tok) (x : PM α) (Q : α → Prop) : Prop :=
  ∀ s, MemoComplete rules toks s → (runM x s).2.outOfFuel = false →
    MemoComplete rules toks (runM x s).2 ∧ s.outOfFuel = false ∧ Q (runM x s).1

section
variable {rules : List (String × Gram)} {toks : Array Tok}

theorem Complete.pure {a : α} {Q : α → Prop} (h : Q a) : Complete rules toks (pure a) Q :=
  fun _ hs hf => ⟨hs, hf, h⟩

theorem Complete.bind {x : PM α} {f : α → PM β} {P : α → Prop} {Q : β → Prop}
    (hx : Complete rules toks x P) (hm : ∀ a, Mono (f a)) (hf : ∀ a, P a → Complete rules toks (f a) Q) :
    Complete rules toks (x >>= f) Q := by
  intro s hs hfl
  rw [runM_bind] at hfl ⊢
  have h₁ : (runM x s).2.outOfFuel = false := by
    cases h : (runM x s).2.outOfFuel with
    | false => rfl
    | true => rw [hm _ _ h] at hfl; cases hfl
  obtain ⟨a, b, c⟩ := hx s hs h₁
  obtain ⟨a', _, c'⟩ := hf _ c _ a hfl
  exact ⟨a', b, c'⟩

theorem Complete.mono {x : PM α} {P Q : α → Prop} (hx : Complete rules toks x P) (h : ∀ a, P a → Q a) :
    Complete rules toks x Q :=
  fun s hs hfl => ⟨(hx s hs hfl).1, (hx s hs hfl).2.1, h _ (hx s hs hfl).2.2⟩

/-- out of fuel: the flag is set, so nothing is claimed -/
theorem Complete.noFuel {Q : List α → Prop} : Complete rules toks (GParse.noFuel : PM (List α)) Q := by
  intro s _ hfl
  have : (runM (GParse.noFuel : PM (List α)) s).2.outOfFuel = true := rfl
  rw [this] at hfl; cases hfl

theorem Complete.mapM {f : α → PM β} {P : α → β → Prop} (hm : ∀ a, Mono (f a)) :
    ∀ (xs : List α), (∀ a ∈ xs, Complete rules toks (f a) (P a)) →
      Complete rules toks (xs.mapM f) (fun bs => ∀ a ∈ xs, ∃ b ∈ bs, P a b)
  | [], _ => by
    rw [List.mapM_nil]; exact Complete.pure (by simp)
  | a :: xs, h => by
    rw [List.mapM_cons]
    refine Complete.bind (h a (by simp)) (fun _ => Mono.bind (Mono.mapM hm xs) fun _ => Mono.pure)
      fun b hb => ?_
    refine Complete.bind (Complete.mapM hm xs fun a' ha' => h a' (by simp [ha'])) (fun _ => Mono.pure)
      fun bs hbs => ?_
    refine Complete.pure ?_
    intro a' ha'
    rcases List.mem_cons.1 ha' with rfl | ha'
    · exact ⟨b, by simp, hb⟩
    · obtain ⟨b', hb', hp⟩ := hbs a' ha'
      exact ⟨b', by simp [hb'], hp⟩

end

/-! ### completeness of the four mutually recursive functions -/

/-- the list of results `rs` has every end position that a match of `g` from `p` reaches -/
def Covers (rules : List (String × Gram)) (toks : Array Tok) (g : Gram) (p : Nat) (rs : List Partial) :
    Prop :=
  ∀ q, Spans rules toks g p q → ∃ r ∈ rs, r.1 = q

/-- in terms of `Match` from the very accumulators the interpreter was started with (or any others) -/
theorem Covers.ofMatch {rules : List (String × Gram)} {toks : Array Tok} {g : Gram} {p : Nat}
    {rs : List Partial} (h : Covers rules toks g p rs) {cs ls q cs' ls'}
    (hm : Match rules toks g p cs ls q cs' ls') : ∃ r ∈ rs, r.1 = q :=
  h q ⟨_, _, _, _, hm⟩

/-- the four statements, for one amount of fuel -/
def CompleteAt (rules : List (String × Gram)) (toks : Array Tok) (f : Nat) : Prop :=
  (∀ g st, PlusOK rules toks g →
    Complete rules toks (parseG rules toks f g st) (fun rs => Covers rules toks g st.1 rs)) ∧
  (∀ x st, PlusOK rules toks x →
    Complete rules toks (parseStar rules toks f x st) (fun rs => Covers rules toks (.star x) st.1 rs)) ∧
  (∀ xs sts, (∀ x, x ∈ xs → PlusOK rules toks x) →
    Complete rules toks (parseSeq rules toks f xs sts)
      (fun rs => ∀ st ∈ sts, Covers rules toks (.seq xs) st.1 rs)) ∧
  (∀ n p, Complete rules toks (parseRule rules toks f n p)
    (fun rs => ∀ t q, Derives rules toks n t p q → ∃ r ∈ rs, r.1 = q))

theorem completeAt_zero (rules : List (String × Gram)) (toks : Array Tok) : CompleteAt rules toks 0 := by
  refine ⟨fun g st _ => ?_, fun x st _ => ?_, fun xs sts _ => ?_, fun n p => ?_⟩
  · rw [parseG.eq_1]; exact Complete.noFuel
  · rw [parseStar.eq_1]; exact Complete.noFuel
  · rw [parseSeq.eq_1]; exact Complete.noFuel
  · rw [parseRule.eq_1]; exact Complete.noFuel

section
variable {rules : List (String × Gram)} {toks : Array Tok} {f : Nat}

/-- the common part of `x*` and `x+`: after the progressing first iterations `rs` of `x` from `p`, the
    results of `x*` from each of them cover what `x` then `x*` reaches with progress in the first step -/
theorem cover_iter {x : Gram} {p : Nat} {rs : List Partial} {more : List (List Partial)}
    (hrs : Covers rules toks x p rs)
    (hmore : ∀ a ∈ rs.filter (fun r => r.1 > p), ∃ bs ∈ more, Covers rules toks (.star x) a.1 bs)
    {p' q : Nat} (hlt : p < p') (h₁ : Spans rules toks x p p') (h₂ : Spans rules toks (.star x) p' q) :
    ∃ r ∈ more.flatten, r.1 = q := by
  obtain ⟨a, ha, e⟩ := hrs p' h₁
  have ha' : a ∈ rs.filter (fun r => r.1 > p) := List.mem_filter.2 ⟨ha, by simp [e, hlt]⟩
  obtain ⟨bs, hbs, hc⟩ := hmore a ha'
  obtain ⟨r, hr, e'⟩ := hc q (e ▸ h₂)
  exact ⟨r, List.mem_flatten.2 ⟨bs, hbs, hr⟩, e'⟩

theorem complete_parseG_succ (hmono : MonoAt rules toks f) (ih : CompleteAt rules toks f)
    (g : Gram) (st : Partial) (hg : PlusOK rules toks g) :
    Complete rules toks (parseG rules toks (f + 1) g st) (fun rs => Covers rules toks g st.1 rs) := by
  obtain ⟨ihG, ihStar, ihSeq, ihRule⟩ := ih
  obtain ⟨mG, mStar, mSeq, mRule⟩ := hmono
  obtain ⟨p, cs, ls⟩ := st
  show Complete rules toks _ (fun rs => Covers rules toks g p rs)
  cases g with
  | tok ty =>
    rw [parseG.eq_2]
    cases ht : toks[p]? with
    | none =>
      refine Complete.pure ?_
      rintro q ⟨_, _, _, _, hm⟩
      cases hm with
      | tok ht' _ => rw [ht] at ht'; cases ht'
    | some t =>
      refine Complete.pure ?_
      rintro q ⟨_, _, _, _, hm⟩
      cases hm with
      | tok ht' hty =>
        rw [ht] at ht'; cases ht'
        exact ⟨(p + 1, tokTree t :: cs, ls), by simp [hty], rfl⟩
  | notTok tys =>
    rw [parseG.eq_3]
    cases ht : toks[p]? with
    | none =>
      refine Complete.pure ?_
      rintro q ⟨_, _, _, _, hm⟩
      cases hm with
      | notTok ht' _ _ => rw [ht] at ht'; cases ht'
    | some t =>
      refine Complete.pure ?_
      rintro q ⟨_, _, _, _, hm⟩
      cases hm with
      | notTok ht' h₁ h₂ =>
        rw [ht] at ht'; cases ht'
        exact ⟨(p + 1, tokTree t :: cs, ls), by simp [h₁, h₂], rfl⟩
  | rule n =>
    rw [parseG.eq_4]
    refine Complete.bind (ihRule n p) (fun _ => Mono.pure) fun rs hrs => Complete.pure ?_
    rintro q ⟨_, _, _, _, hm⟩
    cases hm with
    | rule hb hm' =>
      obtain ⟨⟨e, t⟩, hr, hq⟩ := hrs _ q (Derives.mk hb hm')
      exact ⟨_, List.mem_map.2 ⟨(e, t), hr, rfl⟩, hq⟩
  | seq xs =>
    rw [parseG.eq_5]
    cases hg with
    | seq hxs => exact (ihSeq xs [(p, cs, ls)] hxs).mono fun rs hrs => hrs (p, cs, ls) (by simp)
  | alt xs =>
    rw [parseG.eq_6]
    cases hg with
    | alt hxs =>
      refine Complete.bind (Complete.mapM (P := fun x rs => Covers rules toks x p rs) (fun x => mG x _) xs
        fun x hx => ihG x (p, cs, ls) (hxs x hx)) (fun _ => Mono.pure) fun rss hrss => Complete.pure ?_
      rintro q ⟨_, _, _, _, hm⟩
      cases hm with
      | alt hx hm' =>
        obtain ⟨rs, hrs, hc⟩ := hrss _ hx
        obtain ⟨r, hr, e⟩ := hc q (Spans.of hm')
        obtain ⟨y, hy, e'⟩ := dedupPos_cover (List.mem_flatten.2 ⟨rs, hrs, hr⟩)
        exact ⟨y, hy, e'.trans e⟩
  | opt x =>
    rw [parseG.eq_7]
    cases hg with
    | opt hx =>
      refine Complete.bind (ihG x (p, cs, ls) hx) (fun _ => Mono.pure) fun rs hrs => Complete.pure ?_
      rintro q ⟨_, _, _, _, hm⟩
      cases hm with
      | optNone =>
        obtain ⟨y, hy, e'⟩ := dedupPos_cover (xs := rs ++ [(p, cs, ls)]) (x := (p, cs, ls)) (by simp)
        exact ⟨y, hy, e'⟩
      | optSome hm' =>
        obtain ⟨r, hr, e⟩ := hrs q (Spans.of hm')
        obtain ⟨y, hy, e'⟩ := dedupPos_cover (xs := rs ++ [(p, cs, ls)]) (x := r) (by simp [hr])
        exact ⟨y, hy, e'.trans e⟩
  | star x =>
    rw [parseG.eq_8]
    cases hg with
    | star hx => exact ihStar x (p, cs, ls) hx
  | plus x =>
    rw [parseG.eq_9]
    cases hg with
    | plus hx hnp =>
      refine Complete.bind (ihG x (p, cs, ls) hx)
        (fun _ => Mono.bind (Mono.mapM (fun r => mStar x r) _) fun _ => Mono.pure) fun rs hrs => ?_
      refine Complete.bind (Complete.mapM (P := fun a bs => Covers rules toks (.star x) a.1 bs)
        (fun r => mStar x r) _ fun a _ => ihStar x a hx) (fun _ => Mono.pure) fun more hmore =>
        Complete.pure ?_
      rintro q ⟨_, _, _, _, hm⟩
      cases hm with
      | plus h₁ h₂ =>
        rcases Nat.eq_or_lt_of_le h₁.yield.1 with e | hlt
        · subst e; exact absurd (Spans.of h₁) (hnp _)
        · obtain ⟨r, hr, e⟩ := cover_iter hrs hmore hlt (Spans.of h₁) (Spans.of h₂)
          obtain ⟨y, hy, e'⟩ := dedupPos_cover hr
          exact ⟨y, hy, e'.trans e⟩
  | label l x =>
    rw [parseG.eq_10]
    cases hg with
    | label hx =>
      refine Complete.bind (ihG x (p, cs, ls) hx) (fun _ => Mono.pure) fun rs hrs => Complete.pure ?_
      rintro q ⟨_, _, _, _, hm⟩
      cases hm with
      | label hm' =>
        obtain ⟨⟨e, cs', ls'⟩, hr, hq⟩ := hrs q (Spans.of hm')
        exact ⟨_, List.mem_map.2 ⟨(e, cs', ls'), hr, rfl⟩, hq⟩

theorem complete_parseStar_succ (hmono : MonoAt rules toks f) (ih : CompleteAt rules toks f)
    (x : Gram) (st : Partial) (hx : PlusOK rules toks x) :
    Complete rules toks (parseStar rules toks (f + 1) x st)
      (fun rs => Covers rules toks (.star x) st.1 rs) := by
  obtain ⟨ihG, ihStar, _, _⟩ := ih
  obtain ⟨mG, mStar, _, _⟩ := hmono
  rw [parseStar.eq_2]
  refine Complete.bind (ihG x st hx)
    (fun _ => Mono.bind (Mono.mapM (fun r => mStar x r) _) fun _ => Mono.pure) fun rs hrs => ?_
  refine Complete.bind (Complete.mapM (P := fun a bs => Covers rules toks (.star x) a.1 bs)
    (fun r => mStar x r) _ fun a _ => ihStar x a hx) (fun _ => Mono.pure) fun more hmore =>
    Complete.pure ?_
  rintro q ⟨_, _, _, _, hm⟩
  rcases star_norm hm with rfl | ⟨p', hlt, h₁, h₂⟩
  · obtain ⟨y, hy, e'⟩ := dedupPos_cover (xs := more.flatten ++ [st]) (x := st) (by simp)
    exact ⟨y, hy, e'⟩
  · obtain ⟨r, hr, e⟩ := cover_iter hrs hmore hlt h₁ h₂
    obtain ⟨y, hy, e'⟩ := dedupPos_cover (xs := more.flatten ++ [st]) (x := r) (by simp [hr])
    exact ⟨y, hy, e'.trans e⟩

theorem complete_parseSeq_succ (hmono : MonoAt rules toks f) (ih : CompleteAt rules toks f)
    (xs : List Gram) (sts : List Partial) (hxs : ∀ x, x ∈ xs → PlusOK rules toks x) :
    Complete rules toks (parseSeq rules toks (f + 1) xs sts)
      (fun rs => ∀ st ∈ sts, Covers rules toks (.seq xs) st.1 rs) := by
  obtain ⟨ihG, _, ihSeq, _⟩ := ih
  obtain ⟨mG, _, mSeq, _⟩ := hmono
  cases xs with
  | nil =>
    rw [parseSeq.eq_2]
    refine Complete.pure ?_
    rintro st hst q ⟨_, _, _, _, hm⟩
    cases hm with
    | seqNil => exact ⟨st, hst, rfl⟩
  | cons x rest =>
    rw [parseSeq.eq_3]
    refine Complete.bind (Complete.mapM (P := fun a bs => Covers rules toks x a.1 bs) (fun a => mG x a) sts
      fun a _ => ihG x a (hxs x (by simp))) (fun _ => mSeq rest _) fun rss hrss => ?_
    refine (ihSeq rest _ fun y hy => hxs y (by simp [hy])).mono fun rs hrs => ?_
    rintro st hst q ⟨_, _, _, _, hm⟩
    cases hm with
    | seqCons h₁ h₂ =>
      obtain ⟨bs, hbs, hc⟩ := hrss st hst
      obtain ⟨r, hr, e⟩ := hc _ (Spans.of h₁)
      obtain ⟨y, hy, e'⟩ := dedupPos_cover (List.mem_flatten.2 ⟨bs, hbs, hr⟩)
      exact hrs y hy q ((e'.trans e) ▸ Spans.of h₂)

theorem complete_parseRule_succ (hG : PlusProgress rules toks) (ih : CompleteAt rules toks f)
    (n : String) (p : Nat) :
    Complete rules toks (parseRule rules toks (f + 1) n p)
      (fun rs => ∀ t q, Derives rules toks n t p q → ∃ r ∈ rs, r.1 = q) := by
  obtain ⟨ihG, _, _, _⟩ := ih
  intro s hs hfl
  rw [runM_parseRule_succ] at hfl ⊢
  split at hfl
  · next rs hmemo =>
    exact ⟨hs, hfl, hs hfl n p rs hmemo⟩
  · next hmemo =>
    split at hfl
    · next hbody =>
      refine ⟨hs, hfl, ?_⟩
      intro t q hd
      cases hd with
      | mk hb _ => rw [hbody] at hb; cases hb
    · next body hbody =>
      obtain ⟨hs', hfl₀, hrs⟩ := ihG body (p, [], []) (hG n body hbody) s hs hfl
      have hout : ∀ t q, Derives rules toks n t p q →
          ∃ r ∈ ruleOut toks n p (runM (parseG rules toks f body (p, [], [])) s).1, r.1 = q := by
        intro t q hd
        cases hd with
        | mk hb hm =>
          rw [hbody] at hb; cases hb
          obtain ⟨⟨e, cs, ls⟩, hr, hq⟩ := hrs q (Spans.of hm)
          exact ⟨_, List.mem_map.2 ⟨(e, cs, ls), hr, rfl⟩, hq⟩
      refine ⟨?_, hfl₀, hout⟩
      intro _ n' p' rs' hget
      have hget' : ((runM (parseG rules toks f body (p, [], [])) s).2.memo.insert (n, p)
          (ruleOut toks n p (runM (parseG rules toks f body (p, [], [])) s).1)).get? (n', p') =
            some rs' := hget
      rw [Std.HashMap.get?_insert] at hget'
      split at hget'
      · next heq =>
        have heq := eq_of_beq heq
        cases heq
        cases hget'
        exact hout
      · exact hs' hfl n' p' rs' hget'

end

theorem completeAt {rules : List (String × Gram)} {toks : Array Tok} (hG : PlusProgress rules toks) :
    ∀ f, CompleteAt rules toks f
  | 0 => completeAt_zero rules toks
  | f + 1 =>
    have ih := completeAt hG f
    have hm := monoAt rules toks f
    ⟨complete_parseG_succ hm ih, complete_parseStar_succ hm ih, complete_parseSeq_succ hm ih,
      complete_parseRule_succ hG ih⟩

/-! ### the main theorems -/

theorem memoComplete_empty (rules : List (String × Gram)) (toks : Array Tok) :
    MemoComplete rules toks {} := by
  intro _ n p rs h
  have : (({} : PState).memo).get? (n, p) = none := Std.HashMap.get?_emptyWithCapacity
  rw [this] at h; cases h

/-- **completeness of `parseRule`**, any fuel, from the empty memo table: if the run did not run out of fuel
    then its results have every end position that a derivation of rule `n` from `p` reaches -/
theorem parseRule_complete {rules : List (String × Gram)} {toks : Array Tok} (hG : PlusProgress rules toks)
    (f : Nat) (n : String) (p : Nat)
    (hfl : (runM (parseRule rules toks f n p) {}).2.outOfFuel = false) {t : Tree} {q : Nat}
    (h : Derives rules toks n t p q) : ∃ r ∈ (runM (parseRule rules toks f n p) {}).1, r.1 = q :=
  ((completeAt hG f).2.2.2 n p {} (memoComplete_empty rules toks) hfl).2.2 t q h

/-- `parse`, unfolded -/
theorem parse_eq (rules : List (String × Gram)) (start : String) (toks : Array Tok) :
    parse rules start toks =
      if (runM (parseRule rules toks (16 * toks.size + 400) start 0) {}).2.outOfFuel = true then
        Outcome.outOfFuel
      else
        match (runM (parseRule rules toks (16 * toks.size + 400) start 0) {}).1.find?
            (fun r => r.1 == toks.size) with
        | some r => Outcome.tree r.2
        | none => Outcome.noParse := rfl

/-- **Completeness of the parser model** (for every grammar whose `x+` bodies cannot match the empty span,
    and every token array): if there is a derivation tree of the start rule spanning all the tokens then
    `parse` does not answer `noParse`. -/
theorem parse_complete (rules : List (String × Gram)) (start : String) (toks : Array Tok) (t : Tree)
    (hG : PlusProgress rules toks) (h : Derives rules toks start t 0 toks.size) :
    parse rules start toks ≠ .noParse := by
  rw [parse_eq]
  split
  · intro hc; cases hc
  · next hfl =>
    have hfl' : (runM (parseRule rules toks (16 * toks.size + 400) start 0) {}).2.outOfFuel = false := by
      simpa using hfl
    obtain ⟨r, hr, e⟩ := parseRule_complete hG _ start 0 hfl' h
    split
    · intro hc; cases hc
    · next hnone =>
      have := List.find?_eq_none.1 hnone r hr
      simp [e] at this

/-- the same, positively: a derivable token sequence gets a tree, or the explicit answer `outOfFuel` -/
theorem parse_of_derives (rules : List (String × Gram)) (start : String) (toks : Array Tok) (t : Tree)
    (hG : PlusProgress rules toks) (h : Derives rules toks start t 0 toks.size) :
    (∃ t', parse rules start toks = .tree t') ∨ parse rules start toks = .outOfFuel := by
  have := parse_complete rules start toks t hG h
  cases hp : parse rules start toks with
  | tree t' => exact Or.inl ⟨t', rfl⟩
  | noParse => exact absurd hp this
  | outOfFuel => exact Or.inr rfl

/-- **`noParse` is a proof of absence**: no derivation tree of the start rule spans all the tokens -/
theorem parse_noParse (rules : List (String × Gram)) (start : String) (toks : Array Tok)
    (hG : PlusProgress rules toks) (h : parse rules start toks = .noParse) :
    ¬ ∃ t, Derives rules toks start t 0 toks.size :=
  fun ⟨t, ht⟩ => parse_complete rules start toks t hG ht h

/-- the three answers of `parse`, with soundness: a tree (which is then a derivation), out of fuel, or
    `noParse` and then the token sequence is not in the language of the start rule -/
theorem parse_cases (rules : List (String × Gram)) (start : String) (toks : Array Tok)
    (hG : PlusProgress rules toks) :
    (∃ t, parse rules start toks = .tree t ∧ Derives rules toks start t 0 toks.size) ∨
    parse rules start toks = .outOfFuel ∨
    (parse rules start toks = .noParse ∧ ¬ ∃ t, Derives rules toks start t 0 toks.size) := by
  cases hp : parse rules start toks with
  | tree t => exact Or.inl ⟨t, rfl, parse_sound rules start toks t hp⟩
  | noParse => exact Or.inr (Or.inr ⟨rfl, parse_noParse rules start toks hG hp⟩)
  | outOfFuel => exact Or.inr (Or.inl rfl)

/-- **when the answer is not `outOfFuel`, `parse` accepts exactly the token sequences of the language** of
    the start rule (soundness and completeness together) -/
theorem parse_accepts_iff (rules : List (String × Gram)) (start : String) (toks : Array Tok)
    (hG : PlusProgress rules toks) (hf : parse rules start toks ≠ .outOfFuel) :
    (∃ t, parse rules start toks = .tree t) ↔ ∃ t, Derives rules toks start t 0 toks.size := by
  constructor
  · rintro ⟨t, ht⟩
    exact ⟨t, parse_sound rules start toks t ht⟩
  · rintro ⟨t, ht⟩
    rcases parse_of_derives rules start toks t hG ht with h | h
    · exact h
    · exact absurd h hf

/-- and `noParse` exactly the others -/
theorem parse_noParse_iff (rules : List (String × Gram)) (start : String) (toks : Array Tok)
    (hG : PlusProgress rules toks) (hf : parse rules start toks ≠ .outOfFuel) :
    parse rules start toks = .noParse ↔ ¬ ∃ t, Derives rules toks start t 0 toks.size := by
  constructor
  · exact parse_noParse rules start toks hG
  · intro hn
    cases hp : parse rules start toks with
    | tree t => exact absurd ⟨t, parse_sound rules start toks t hp⟩ hn
    | noParse => rfl
    | outOfFuel => exact absurd hp hf

/-! ### a decidable sufficient condition for the side condition -/

/-- `consumes rules k g`: syntactically, every match of `g` consumes at least one token (rule references
    are followed to depth `k`; `false` when in doubt) -/
def consumes (rules : List (String × Gram)) : Nat → Gram → Bool
  | 0, _ => false
  | _+1, .tok _ => true
  | _+1, .notTok _ => true
  | k+1, .rule n =>
    match lookup rules n with
    | some body => consumes rules k body
    | none => true
  | k+1, .seq xs => xs.any (consumes rules k)
  | k+1, .alt xs => xs.all (consumes rules k)
  | _+1, .opt _ => false
  | _+1, .star _ => false
  | k+1, .plus x => consumes rules k x
  | k+1, .label _ x => consumes rules k x

/-- every `x+` inside `g` (nesting depth below `d`) has a body that `consumes` -/
def plusOKb (rules : List (String × Gram)) (k : Nat) : Nat → Gram → Bool
  | 0, _ => false
  | _+1, .tok _ => true
  | _+1, .notTok _ => true
  | _+1, .rule _ => true
  | d+1, .seq xs => xs.all (plusOKb rules k d)
  | d+1, .alt xs => xs.all (plusOKb rules k d)
  | d+1, .opt x => plusOKb rules k d x
  | d+1, .star x => plusOKb rules k d x
  | d+1, .plus x => plusOKb rules k d x && consumes rules k x
  | d+1, .label _ x => plusOKb rules k d x

/-- the check on a grammar: in every rule body, every `x+` has a body that syntactically consumes a token -/
def plusGuarded (rules : List (String × Gram)) (k : Nat) : Bool :=
  rules.all fun r => plusOKb rules k k r.2

theorem consumes_sound {rules : List (String × Gram)} {toks : Array Tok} {g p cs ls q cs' ls'}
    (h : Match rules toks g p cs ls q cs' ls') : ∀ k, consumes rules k g = true → p < q := by
  induction h with
  | tok _ _ => intro _ _; omega
  | notTok _ _ _ => intro _ _; omega
  | rule hb _ ih =>
    intro k hk
    cases k with
    | zero => simp [consumes] at hk
    | succ k =>
      simp only [consumes, hb] at hk
      exact ih k hk
  | seqNil => intro k hk; cases k <;> simp [consumes] at hk
  | seqCons h₁ h₂ ih₁ ih₂ =>
    intro k hk
    cases k with
    | zero => simp [consumes] at hk
    | succ k =>
      simp only [consumes, List.any_cons, Bool.or_eq_true] at hk
      rcases hk with hk | hk
      · have := ih₁ k hk
        have := h₂.yield.1
        omega
      · have := ih₂ (k + 1) (by simpa [consumes] using hk)
        have := h₁.yield.1
        omega
  | alt hx _ ih =>
    intro k hk
    cases k with
    | zero => simp [consumes] at hk
    | succ k =>
      simp only [consumes, List.all_eq_true] at hk
      exact ih k (hk _ hx)
  | optNone => intro k hk; cases k <;> simp [consumes] at hk
  | optSome _ _ => intro k hk; cases k <;> simp [consumes] at hk
  | starNil => intro k hk; cases k <;> simp [consumes] at hk
  | starCons _ _ _ _ => intro k hk; cases k <;> simp [consumes] at hk
  | plus _ h₂ ih₁ _ =>
    intro k hk
    cases k with
    | zero => simp [consumes] at hk
    | succ k =>
      simp only [consumes] at hk
      have := ih₁ k hk
      have := h₂.yield.1
      omega
  | label _ ih =>
    intro k hk
    cases k with
    | zero => simp [consumes] at hk
    | succ k =>
      simp only [consumes] at hk
      exact ih k hk

theorem plusOKb_sound {rules : List (String × Gram)} {toks : Array Tok} {k : Nat} :
    ∀ (d : Nat) (g : Gram), plusOKb rules k d g = true → PlusOK rules toks g
  | 0, g, h => by simp [plusOKb] at h
  | d + 1, g, h => by
    cases g with
    | tok ty => exact PlusOK.tok
    | notTok tys => exact PlusOK.notTok
    | rule n => exact PlusOK.rule
    | seq xs =>
      simp only [plusOKb, List.all_eq_true] at h
      exact PlusOK.seq fun x hx => plusOKb_sound d x (h x hx)
    | alt xs =>
      simp only [plusOKb, List.all_eq_true] at h
      exact PlusOK.alt fun x hx => plusOKb_sound d x (h x hx)
    | opt x => simp only [plusOKb] at h; exact PlusOK.opt (plusOKb_sound d x h)
    | star x => simp only [plusOKb] at h; exact PlusOK.star (plusOKb_sound d x h)
    | plus x =>
      simp only [plusOKb, Bool.and_eq_true] at h
      refine PlusOK.plus (plusOKb_sound d x h.1) ?_
      rintro p ⟨_, _, _, _, hm⟩
      exact Nat.lt_irrefl _ (consumes_sound hm k h.2)
    | label l x => simp only [plusOKb] at h; exact PlusOK.label (plusOKb_sound d x h)

/-- the syntactic check implies the side condition, for every token array -/
theorem plusGuarded_sound {rules : List (String × Gram)} {k : Nat} (h : plusGuarded rules k = true)
    (toks : Array Tok) : PlusProgress rules toks := by
  intro n body hb
  unfold lookup at hb
  cases hf : rules.find? (fun x => x.1 == n) with
  | none => rw [hf] at hb; cases hb
  | some r =>
    rw [hf] at hb
    cases hb
    have hmem := List.mem_of_find?_eq_some hf
    simp only [plusGuarded, List.all_eq_true] at h
    exact plusOKb_sound k r.2 (h r hmem)

/-! ### the side condition is necessary

    `s : (A?)+ ;` on the empty token array: `Match.plus` lets the first iteration of `(A?)+` match the empty
    span, so there is a derivation of `s` from 0 to 0; the interpreter drops first iterations that make no
    progress and answers `noParse` (with fuel to spare). -/

def cexRules : List (String × Gram) := [("s", .plus (.opt (.tok "A")))]

theorem cex_derives : ∃ t, Derives cexRules #[] "s" t 0 (#[] : Array Tok).size :=
  ⟨_, Derives.mk (body := .plus (.opt (.tok "A"))) (by simp [lookup, cexRules])
    (Match.plus Match.optNone Match.starNil)⟩

private theorem memo_get_empty (k : String × Nat) : (∅ : Memo).get? k = none :=
  Std.HashMap.get?_emptyWithCapacity

set_option linter.unusedSimpArgs false in
theorem cex_noParse : parse cexRules "s" #[] = .noParse := by
  have hsz : 16 * (#[] : Array Tok).size + 400 = 399 + 1 := rfl
  have hs : lookup cexRules "s" = some (.plus (.opt (.tok "A"))) := by simp [lookup, cexRules]
  have h0 : (#[] : Array Tok)[0]? = none := rfl
  unfold parse
  rw [hsz]
  simp only [StateT.run, parseRule.eq_2, parseG.eq_2, parseG.eq_7, parseG.eq_9,
    bind, StateT.bind, get, getThe, MonadStateOf.get, StateT.get, pure, StateT.pure,
    modify, modifyGet, MonadStateOf.modifyGet, StateT.modifyGet,
    memo_get_empty, hs, h0, List.mapM_cons, List.mapM_nil,
    List.flatten, List.map, List.append, List.filter, dedupPos, dedupPos.go, List.contains, List.elem,
    List.reverse, List.reverseAux, List.nil_append, List.cons_append,
    List.append_nil, List.append_eq, ↓reduceIte, Nat.lt_irrefl, gt_iff_lt, decide_false,
    Bool.false_eq_true, List.find?, List.flatten_nil]

/-- **without the side condition completeness fails**: a grammar, a token array and a derivation for which
    `parse` answers `noParse` -/
theorem plus_counterexample :
    ∃ (rules : List (String × Gram)) (start : String) (toks : Array Tok),
      (∃ t, Derives rules toks start t 0 toks.size) ∧ parse rules start toks = .noParse :=
  ⟨cexRules, "s", #[], cex_derives, cex_noParse⟩

end FgaVerif.Proofs.GParseComplete
