import FgaVerif.Model.GParse
/-! Soundness of the grammar interpreter `Model/GParse.lean` with respect to a declarative notion of
    derivation, for every grammar and every token array.

    * `Match rules toks g p cs ls q cs' ls'` — the declarative semantics of a rule body (no fuel, no memo
      table, no deduplication): from token position `p`, with the children pushed so far `cs` (reversed)
      and the label fields set so far `ls`, the body `g` can be matched up to position `q`, leaving `cs'`
      and `ls'`.
    * `Derives rules toks n t p q` — `t` is a derivation tree of rule `n` for the tokens `p … q-1`.
    * `leaves` — the terminals of a tree in order; `Match.yield`: what a match pushes has exactly the
      tokens of its span as leaves.
    * `parse_sound`, `parse_yield` — every tree returned by `parse` is a derivation of the start rule
      over the whole token array, and its leaves are exactly the tokens. -/
namespace FgaVerif.Proofs.GParseSound
open FgaVerif.Model FgaVerif.Model.Conform FgaVerif.Model.GParse

/-! ### the declarative semantics -/

/-- (line, column) a rule context starting at token position `p` records: those of `toks[p]`,
    `(0, 0)` beyond the end -/
def startLC (toks : Array Tok) (p : Nat) : Nat × Nat :=
  match toks[p]? with
  | some t => (t.line, t.col)
  | none => (0, 0)

/-- `Match rules toks g p cs ls q cs' ls'`: starting at token position `p` with children `cs` (reversed)
    and label fields `ls`, the body `g` matches up to position `q`, having pushed the new children
    (giving `cs'`) and set the new label fields (giving `ls'`). -/
inductive Match (rules : List (String × Gram)) (toks : Array Tok) :
    Gram → Nat → List Tree → List (String × Nat) → Nat → List Tree → List (String × Nat) → Prop
  /-- a token of type `ty` is consumed and pushed as a terminal -/
  | tok {ty p cs ls t} : toks[p]? = some t → t.ty = ty →
      Match rules toks (.tok ty) p cs ls (p + 1) (tokTree t :: cs) ls
  /-- `~(…)`: any token but `EOF` and the listed ones -/
  | notTok {tys p cs ls t} : toks[p]? = some t → t.ty ≠ "EOF" → t.ty ∉ tys →
      Match rules toks (.notTok tys) p cs ls (p + 1) (tokTree t :: cs) ls
  /-- a rule reference pushes one rule context whose children and label fields are those of a match of
      the rule's body from a fresh accumulator -/
  | rule {n body p cs ls q csRev ls'} : lookup rules n = some body →
      Match rules toks body p [] [] q csRev ls' →
      Match rules toks (.rule n) p cs ls q
        (Tree.rule n (startLC toks p).1 (startLC toks p).2 ls' csRev.reverse :: cs) ls
  | seqNil {p cs ls} : Match rules toks (.seq []) p cs ls p cs ls
  | seqCons {g gs p cs ls q cs₁ ls₁ r cs₂ ls₂} :
      Match rules toks g p cs ls q cs₁ ls₁ → Match rules toks (.seq gs) q cs₁ ls₁ r cs₂ ls₂ →
      Match rules toks (.seq (g :: gs)) p cs ls r cs₂ ls₂
  | alt {g gs p cs ls q cs' ls'} : g ∈ gs → Match rules toks g p cs ls q cs' ls' →
      Match rules toks (.alt gs) p cs ls q cs' ls'
  | optNone {g p cs ls} : Match rules toks (.opt g) p cs ls p cs ls
  | optSome {g p cs ls q cs' ls'} : Match rules toks g p cs ls q cs' ls' →
      Match rules toks (.opt g) p cs ls q cs' ls'
  | starNil {g p cs ls} : Match rules toks (.star g) p cs ls p cs ls
  | starCons {g p cs ls q cs₁ ls₁ r cs₂ ls₂} :
      Match rules toks g p cs ls q cs₁ ls₁ → Match rules toks (.star g) q cs₁ ls₁ r cs₂ ls₂ →
      Match rules toks (.star g) p cs ls r cs₂ ls₂
  | plus {g p cs ls q cs₁ ls₁ r cs₂ ls₂} :
      Match rules toks g p cs ls q cs₁ ls₁ → Match rules toks (.star g) q cs₁ ls₁ r cs₂ ls₂ →
      Match rules toks (.plus g) p cs ls r cs₂ ls₂
  /-- `l=g`: the label field points at the index of the next child at the time the element starts -/
  | label {l g p cs ls q cs' ls'} : Match rules toks g p cs ls q cs' ls' →
      Match rules toks (.label l g) p cs ls q cs' (ls' ++ [(l, cs.length)])

/-- `Derives rules toks n t p q`: `t` is a derivation tree of rule `n` over the tokens `p, …, q-1`: a
    context of rule `n` positioned at `toks[p]` whose children (and label fields) are a match of the
    body of `n` from `p` to `q`. -/
inductive Derives (rules : List (String × Gram)) (toks : Array Tok) : String → Tree → Nat → Nat → Prop
  | mk {n body p q csRev ls} : lookup rules n = some body →
      Match rules toks body p [] [] q csRev ls →
      Derives rules toks n (Tree.rule n (startLC toks p).1 (startLC toks p).2 ls csRev.reverse) p q

theorem Match.ofDerives {rules toks n t p q} (h : Derives rules toks n t p q) (cs ls) :
    Match rules toks (.rule n) p cs ls q (t :: cs) ls := by
  cases h with
  | mk hb hm => exact Match.rule hb hm

theorem Derives.isRule {rules toks n t p q} (h : Derives rules toks n t p q) :
    ∃ line col ls cs, t = Tree.rule n line col ls cs := by
  cases h; exact ⟨_, _, _, _, rfl⟩

/-! ### the yield -/

mutual
  /-- the terminals of a tree, in order -/
  def leaves : Tree → List Tree
    | .rule _ _ _ _ cs => leavesL cs
    | t@(.tok _ _ _ _ _) => [t]
  def leavesL : List Tree → List Tree
    | [] => []
    | c :: cs => leaves c ++ leavesL cs
end

theorem leavesL_append (a b : List Tree) : leavesL (a ++ b) = leavesL a ++ leavesL b := by
  induction a with
  | nil => simp [leavesL]
  | cons x xs ih => simp [leavesL, ih]

/-- tokens `p, …, q-1` -/
def slice (l : List α) (p q : Nat) : List α := (l.drop p).take (q - p)

theorem slice_self (l : List α) (p : Nat) : slice l p p = [] := by simp [slice]

theorem slice_append (l : List α) {p q r : Nat} (h₁ : p ≤ q) (h₂ : q ≤ r) :
    slice l p q ++ slice l q r = slice l p r := by
  unfold slice
  have e₁ : r - p = (q - p) + (r - q) := by omega
  have e₂ : l.drop q = (l.drop p).drop (q - p) := by
    rw [List.drop_drop]; congr 1; omega
  rw [e₁, e₂, List.take_add]

theorem slice_one (toks : Array α) {p : Nat} {t : α} (h : toks[p]? = some t) :
    slice toks.toList p (p + 1) = [t] := by
  unfold slice
  have hp : p < toks.size := by
    rcases Nat.lt_or_ge p toks.size with h' | h'
    · exact h'
    · rw [Array.getElem?_eq_none h'] at h; cases h
  have ht : toks.toList[p]? = some t := by simpa using h
  have : p + 1 - p = 1 := by omega
  rw [this, List.take_one, List.head?_drop, ht]; rfl

/-- a match moves forward, only pushes children, and what it pushes has exactly the tokens of its span
    as leaves -/
theorem Match.yield {rules toks g p cs ls q cs' ls'} (h : Match rules toks g p cs ls q cs' ls') :
    p ≤ q ∧ ∃ new, cs' = new ++ cs ∧
      leavesL new.reverse = (slice toks.toList p q).map tokTree := by
  induction h with
  | tok ht _ => exact ⟨by omega, [_], rfl, by simp [slice_one toks ht, leavesL, leaves, tokTree]⟩
  | notTok ht _ _ => exact ⟨by omega, [_], rfl, by simp [slice_one toks ht, leavesL, leaves, tokTree]⟩
  | rule _ _ ih =>
    obtain ⟨hle, new, hcs, hl⟩ := ih
    refine ⟨hle, [_], rfl, ?_⟩
    simp only [List.append_nil] at hcs
    subst hcs
    simp [leavesL, leaves, hl]
  | seqNil => exact ⟨Nat.le_refl _, [], rfl, by simp [slice_self, leavesL]⟩
  | seqCons _ _ ih₁ ih₂ =>
    obtain ⟨h₁, n₁, e₁, l₁⟩ := ih₁
    obtain ⟨h₂, n₂, e₂, l₂⟩ := ih₂
    refine ⟨Nat.le_trans h₁ h₂, n₂ ++ n₁, by simp [e₁, e₂], ?_⟩
    rw [List.reverse_append, leavesL_append, l₁, l₂, ← List.map_append, slice_append _ h₁ h₂]
  | alt _ _ ih => exact ih
  | optNone => exact ⟨Nat.le_refl _, [], rfl, by simp [slice_self, leavesL]⟩
  | optSome _ ih => exact ih
  | starNil => exact ⟨Nat.le_refl _, [], rfl, by simp [slice_self, leavesL]⟩
  | starCons _ _ ih₁ ih₂ =>
    obtain ⟨h₁, n₁, e₁, l₁⟩ := ih₁
    obtain ⟨h₂, n₂, e₂, l₂⟩ := ih₂
    refine ⟨Nat.le_trans h₁ h₂, n₂ ++ n₁, by simp [e₁, e₂], ?_⟩
    rw [List.reverse_append, leavesL_append, l₁, l₂, ← List.map_append, slice_append _ h₁ h₂]
  | plus _ _ ih₁ ih₂ =>
    obtain ⟨h₁, n₁, e₁, l₁⟩ := ih₁
    obtain ⟨h₂, n₂, e₂, l₂⟩ := ih₂
    refine ⟨Nat.le_trans h₁ h₂, n₂ ++ n₁, by simp [e₁, e₂], ?_⟩
    rw [List.reverse_append, leavesL_append, l₁, l₂, ← List.map_append, slice_append _ h₁ h₂]
  | label _ ih => exact ih

/-- the leaves of a derivation tree of the tokens `p, …, q-1` are exactly these tokens -/
theorem Derives.yield {rules toks n t p q} (h : Derives rules toks n t p q) :
    p ≤ q ∧ leaves t = (slice toks.toList p q).map tokTree := by
  cases h with
  | mk _ hm =>
    obtain ⟨hle, new, hcs, hl⟩ := hm.yield
    simp only [List.append_nil] at hcs
    subst hcs
    exact ⟨hle, by simp [leaves, hl]⟩

/-! ### the state monad, Hoare style -/

/-- a computation of the parser monad as a state transformer -/
def runM (x : PM α) (s : PState) : α × PState := x s

theorem runM_pure (a : α) (s : PState) : runM (pure a) s = (a, s) := rfl
theorem runM_bind (x : PM α) (f : α → PM β) (s : PState) :
    runM (x >>= f) s = runM (f (runM x s).1) (runM x s).2 := rfl
theorem runM_get (s : PState) : runM (get : PM PState) s = (s, s) := rfl
theorem runM_modify (f : PState → PState) (s : PState) : runM (modify f : PM PUnit) s = (⟨⟩, f s) := rfl

/-- every memoised result is a derivation of its rule from its start position to its end position -/
def MemoOK (rules : List (String × Gram)) (toks : Array Tok) (m : Memo) : Prop :=
  ∀ n p rs, m.get? (n, p) = some rs → ∀ r ∈ rs, Derives rules toks n r.2 p r.1

/-- `x` keeps the memo table sound and its result satisfies `Q` -/
def Sound (rules : List (String × Gram)) (toks : Array Tok) (x : PM α) (Q : α → Prop) : Prop :=
  ∀ s, MemoOK rules toks s.memo → MemoOK rules toks (runM x s).2.memo ∧ Q (runM x s).1

section
variable {rules : List (String × Gram)} {toks : Array Tok}

theorem Sound.pure {a : α} {Q : α → Prop} (h : Q a) : Sound rules toks (pure a) Q :=
  fun _ hs => ⟨hs, h⟩

theorem Sound.bind {x : PM α} {f : α → PM β} {P : α → Prop} {Q : β → Prop}
    (hx : Sound rules toks x P) (hf : ∀ a, P a → Sound rules toks (f a) Q) :
    Sound rules toks (x >>= f) Q := by
  intro s hs
  rw [runM_bind]
  obtain ⟨h₁, h₂⟩ := hx s hs
  exact hf _ h₂ _ h₁

theorem Sound.mono {x : PM α} {P Q : α → Prop} (hx : Sound rules toks x P) (h : ∀ a, P a → Q a) :
    Sound rules toks x Q :=
  fun s hs => ⟨(hx s hs).1, h _ (hx s hs).2⟩

theorem Sound.noFuel {Q : List α → Prop} (h : Q []) : Sound rules toks (noFuel : PM (List α)) Q := by
  intro s hs
  exact ⟨hs, h⟩

theorem Sound.mapM {f : α → PM β} {P : α → β → Prop} :
    ∀ (xs : List α), (∀ a ∈ xs, Sound rules toks (f a) (P a)) →
      Sound rules toks (xs.mapM f) (fun bs => ∀ b ∈ bs, ∃ a ∈ xs, P a b)
  | [], _ => by
    rw [List.mapM_nil]; exact Sound.pure (by simp)
  | a :: xs, h => by
    rw [List.mapM_cons]
    refine Sound.bind (h a (by simp)) fun b hb => ?_
    refine Sound.bind (Sound.mapM xs fun a' ha' => h a' (by simp [ha'])) fun bs hbs => ?_
    refine Sound.pure ?_
    intro b' hb'
    rcases List.mem_cons.1 hb' with rfl | hb'
    · exact ⟨a, by simp, hb⟩
    · obtain ⟨a', ha', hp⟩ := hbs b' hb'
      exact ⟨a', by simp [ha'], hp⟩
end

/-! ### `dedupPos` only drops results -/

theorem mem_of_mem_dedupPos_go (x : Partial) :
    ∀ (xs : List Partial) (seen : List Nat) (acc : List Partial),
      x ∈ dedupPos.go xs seen acc → x ∈ acc ∨ x ∈ xs
  | [], _, acc, h => by
    simp only [dedupPos.go, List.mem_reverse] at h; exact Or.inl h
  | y :: rest, seen, acc, h => by
    simp only [dedupPos.go] at h
    split at h
    · rcases mem_of_mem_dedupPos_go x rest _ _ h with h | h
      · exact Or.inl h
      · exact Or.inr (by simp [h])
    · rcases mem_of_mem_dedupPos_go x rest _ _ h with h | h
      · rcases List.mem_cons.1 h with rfl | h
        · exact Or.inr (by simp)
        · exact Or.inl h
      · exact Or.inr (by simp [h])

theorem mem_of_mem_dedupPos {x : Partial} {xs : List Partial} (h : x ∈ dedupPos xs) : x ∈ xs := by
  rcases mem_of_mem_dedupPos_go x xs [] [] h with h | h
  · cases h
  · exact h

/-! ### soundness of the four mutually recursive functions -/

/-- `Match` between two states of the interpreter (position, children, label fields) -/
def MatchP (rules : List (String × Gram)) (toks : Array Tok) (g : Gram) (st r : Partial) : Prop :=
  Match rules toks g st.1 st.2.1 st.2.2 r.1 r.2.1 r.2.2

/-- the four statements, for one amount of fuel -/
def SoundAt (rules : List (String × Gram)) (toks : Array Tok) (f : Nat) : Prop :=
  (∀ g st, Sound rules toks (parseG rules toks f g st) (fun rs => ∀ r ∈ rs, MatchP rules toks g st r)) ∧
  (∀ x st, Sound rules toks (parseStar rules toks f x st)
    (fun rs => ∀ r ∈ rs, MatchP rules toks (.star x) st r)) ∧
  (∀ xs sts, Sound rules toks (parseSeq rules toks f xs sts)
    (fun rs => ∀ r ∈ rs, ∃ st ∈ sts, MatchP rules toks (.seq xs) st r)) ∧
  (∀ n p, Sound rules toks (parseRule rules toks f n p)
    (fun rs => ∀ r ∈ rs, Derives rules toks n r.2 p r.1))

theorem soundAt_zero (rules : List (String × Gram)) (toks : Array Tok) : SoundAt rules toks 0 := by
  refine ⟨fun g st => ?_, fun x st => ?_, fun xs sts => ?_, fun n p => ?_⟩
  · rw [parseG.eq_1]; exact Sound.noFuel (by simp)
  · rw [parseStar.eq_1]; exact Sound.noFuel (by simp)
  · rw [parseSeq.eq_1]; exact Sound.noFuel (by simp)
  · rw [parseRule.eq_1]; exact Sound.noFuel (by simp)

theorem sound_parseG_succ {rules : List (String × Gram)} {toks : Array Tok} {f : Nat}
    (ih : SoundAt rules toks f) (g : Gram) (st : Partial) :
    Sound rules toks (parseG rules toks (f + 1) g st) (fun rs => ∀ r ∈ rs, MatchP rules toks g st r) := by
  obtain ⟨ihG, ihStar, ihSeq, ihRule⟩ := ih
  obtain ⟨p, cs, ls⟩ := st
  cases g with
  | tok ty =>
    rw [parseG.eq_2]
    cases ht : toks[p]? with
    | none => exact Sound.pure (by simp)
    | some t =>
      refine Sound.pure ?_
      intro r hr
      split at hr
      · next hty =>
        rw [List.mem_singleton] at hr; subst hr
        exact Match.tok ht (by simpa using hty)
      · cases hr
  | notTok tys =>
    rw [parseG.eq_3]
    cases ht : toks[p]? with
    | none => exact Sound.pure (by simp)
    | some t =>
      refine Sound.pure ?_
      intro r hr
      split at hr
      · cases hr
      · next hty =>
        rw [List.mem_singleton] at hr; subst hr
        simp only [Bool.or_eq_true, beq_iff_eq, List.contains_iff_mem, not_or] at hty
        exact Match.notTok ht hty.1 hty.2
  | rule n =>
    rw [parseG.eq_4]
    refine Sound.bind (ihRule n p) fun rs hrs => Sound.pure ?_
    intro r hr
    obtain ⟨⟨e, t⟩, het, rfl⟩ := List.mem_map.1 hr
    exact Match.ofDerives (hrs _ het) cs ls
  | seq xs =>
    rw [parseG.eq_5]
    refine (ihSeq xs [(p, cs, ls)]).mono fun rs hrs r hr => ?_
    obtain ⟨st, hst, hm⟩ := hrs r hr
    rw [List.mem_singleton] at hst; subst hst
    exact hm
  | alt xs =>
    rw [parseG.eq_6]
    refine Sound.bind (Sound.mapM (P := fun x rs => ∀ r ∈ rs, MatchP rules toks x (p, cs, ls) r) xs
      fun x _ => ihG x (p, cs, ls)) fun rss hrss => Sound.pure ?_
    intro r hr
    obtain ⟨rs, hrs, hr⟩ := List.mem_flatten.1 (mem_of_mem_dedupPos hr)
    obtain ⟨x, hx, hm⟩ := hrss rs hrs
    exact Match.alt hx (hm r hr)
  | opt x =>
    rw [parseG.eq_7]
    refine Sound.bind (ihG x (p, cs, ls)) fun rs hrs => Sound.pure ?_
    intro r hr
    rcases List.mem_append.1 (mem_of_mem_dedupPos hr) with hr | hr
    · exact Match.optSome (hrs r hr)
    · rw [List.mem_singleton] at hr; subst hr
      exact Match.optNone
  | star x =>
    rw [parseG.eq_8]
    exact ihStar x (p, cs, ls)
  | plus x =>
    rw [parseG.eq_9]
    refine Sound.bind (ihG x (p, cs, ls)) fun rs hrs => ?_
    refine Sound.bind (Sound.mapM (P := fun a bs => ∀ r ∈ bs, MatchP rules toks (.star x) a r) _
      fun a _ => ihStar x a) fun more hmore => Sound.pure ?_
    intro r hr
    obtain ⟨bs, hbs, hr⟩ := List.mem_flatten.1 (mem_of_mem_dedupPos hr)
    obtain ⟨a, ha, hm⟩ := hmore bs hbs
    exact Match.plus (hrs a (List.mem_filter.1 ha).1) (hm r hr)
  | label l x =>
    rw [parseG.eq_10]
    refine Sound.bind (ihG x (p, cs, ls)) fun rs hrs => Sound.pure ?_
    intro r hr
    obtain ⟨⟨e, cs', ls'⟩, het, rfl⟩ := List.mem_map.1 hr
    exact Match.label (hrs _ het)

theorem sound_parseStar_succ {rules : List (String × Gram)} {toks : Array Tok} {f : Nat}
    (ih : SoundAt rules toks f) (x : Gram) (st : Partial) :
    Sound rules toks (parseStar rules toks (f + 1) x st)
      (fun rs => ∀ r ∈ rs, MatchP rules toks (.star x) st r) := by
  obtain ⟨ihG, ihStar, _, _⟩ := ih
  rw [parseStar.eq_2]
  refine Sound.bind (ihG x st) fun rs hrs => ?_
  refine Sound.bind (Sound.mapM (P := fun a bs => ∀ r ∈ bs, MatchP rules toks (.star x) a r) _
    fun a _ => ihStar x a) fun more hmore => Sound.pure ?_
  intro r hr
  rcases List.mem_append.1 (mem_of_mem_dedupPos hr) with hr | hr
  · obtain ⟨bs, hbs, hr⟩ := List.mem_flatten.1 hr
    obtain ⟨a, ha, hm⟩ := hmore bs hbs
    exact Match.starCons (hrs a (List.mem_filter.1 ha).1) (hm r hr)
  · rw [List.mem_singleton] at hr; subst hr
    exact Match.starNil

theorem sound_parseSeq_succ {rules : List (String × Gram)} {toks : Array Tok} {f : Nat}
    (ih : SoundAt rules toks f) (xs : List Gram) (sts : List Partial) :
    Sound rules toks (parseSeq rules toks (f + 1) xs sts)
      (fun rs => ∀ r ∈ rs, ∃ st ∈ sts, MatchP rules toks (.seq xs) st r) := by
  obtain ⟨ihG, _, ihSeq, _⟩ := ih
  cases xs with
  | nil =>
    rw [parseSeq.eq_2]
    exact Sound.pure fun r hr => ⟨r, hr, Match.seqNil⟩
  | cons x rest =>
    rw [parseSeq.eq_3]
    refine Sound.bind (Sound.mapM (P := fun a bs => ∀ r ∈ bs, MatchP rules toks x a r) sts
      fun a _ => ihG x a) fun rss hrss => ?_
    refine (ihSeq rest _).mono fun rs hrs r hr => ?_
    obtain ⟨mid, hmid, hm₂⟩ := hrs r hr
    obtain ⟨bs, hbs, hmid⟩ := List.mem_flatten.1 (mem_of_mem_dedupPos hmid)
    obtain ⟨st, hst, hm₁⟩ := hrss bs hbs
    exact ⟨st, hst, Match.seqCons (hm₁ mid hmid) hm₂⟩

theorem sound_parseRule_succ {rules : List (String × Gram)} {toks : Array Tok} {f : Nat}
    (ih : SoundAt rules toks f) (n : String) (p : Nat) :
    Sound rules toks (parseRule rules toks (f + 1) n p)
      (fun rs => ∀ r ∈ rs, Derives rules toks n r.2 p r.1) := by
  obtain ⟨ihG, _, _, _⟩ := ih
  rw [parseRule.eq_2]
  intro s hs
  rw [runM_bind, runM_get]
  show MemoOK rules toks (runM (match s.memo.get? (n, p) with
      | some r => Pure.pure r
      | none => _) s).2.memo ∧ _
  cases hmemo : s.memo.get? (n, p) with
  | some rs => exact ⟨hs, hs n p rs hmemo⟩
  | none =>
    cases hbody : lookup rules n with
    | none => exact ⟨hs, by simp [runM_pure]⟩
    | some body =>
      show MemoOK rules toks (runM (parseG rules toks f body (p, [], []) >>= _) s).2.memo ∧ _
      rw [runM_bind]
      obtain ⟨hs', hrs⟩ := ihG body (p, [], []) s hs
      generalize runM (parseG rules toks f body (p, [], [])) s = res at hs' hrs
      obtain ⟨rs, s'⟩ := res
      have hout : ∀ r ∈ rs.map (fun (x : Partial) => match x with
          | (e, cs, ls) => (e, Tree.rule n (startLC toks p).1 (startLC toks p).2 ls cs.reverse)),
          Derives rules toks n r.2 p r.1 := by
        intro r hr
        obtain ⟨⟨e, cs, ls⟩, het, rfl⟩ := List.mem_map.1 hr
        exact Derives.mk hbody (hrs _ het)
      refine ⟨?_, hout⟩
      intro n' p' rs' hget r hr
      have hget' : (s'.memo.insert (n, p) (rs.map (fun (x : Partial) => match x with
          | (e, cs, ls) => (e, Tree.rule n (startLC toks p).1 (startLC toks p).2 ls cs.reverse)))).get?
            (n', p') = some rs' := hget
      rw [Std.HashMap.get?_insert] at hget'
      split at hget'
      · next heq =>
        have heq := eq_of_beq heq
        cases heq
        cases hget'
        exact hout r hr
      · exact hs' n' p' rs' hget' r hr

theorem soundAt (rules : List (String × Gram)) (toks : Array Tok) : ∀ f, SoundAt rules toks f
  | 0 => soundAt_zero rules toks
  | f + 1 =>
    have ih := soundAt rules toks f
    ⟨sound_parseG_succ ih, sound_parseStar_succ ih, sound_parseSeq_succ ih, sound_parseRule_succ ih⟩

/-! ### the main theorems -/

theorem memoOK_empty (rules : List (String × Gram)) (toks : Array Tok) :
    MemoOK rules toks ({} : PState).memo := by
  intro n p rs h
  have : (({} : PState).memo).get? (n, p) = none := Std.HashMap.get?_emptyWithCapacity
  rw [this] at h; cases h

/-- what `parse` returns as a tree is one of the results of the start rule at position 0 that ends at
    the end of the token array -/
theorem parse_tree_mem {rules : List (String × Gram)} {start : String} {toks : Array Tok} {t : Tree}
    (h : parse rules start toks = .tree t) :
    (toks.size, t) ∈ (runM (parseRule rules toks (16 * toks.size + 400) start 0) {}).1 := by
  unfold parse at h
  simp only [StateT.run] at h
  change (if (runM (parseRule rules toks (16 * toks.size + 400) start 0) {}).2.outOfFuel = true then
      Outcome.outOfFuel else
    match (runM (parseRule rules toks (16 * toks.size + 400) start 0) {}).1.find?
        (fun r => r.1 == toks.size) with
    | some r => Outcome.tree r.2
    | none => Outcome.noParse) = Outcome.tree t at h
  split at h
  · cases h
  · split at h
    · next r hfind =>
      cases h
      have hm := List.mem_of_find?_eq_some hfind
      have hp := List.find?_some hfind
      have : r.1 = toks.size := by simpa using hp
      have e : (toks.size, r.2) = r := Prod.ext this.symm rfl
      rw [e]; exact hm
    · cases h

/-- **Soundness of the parser model, for every grammar and every token array**: a tree returned by
    `parse` is a derivation tree of the start rule spanning all the tokens. -/
theorem parse_sound (rules : List (String × Gram)) (start : String) (toks : Array Tok) (t : Tree)
    (h : parse rules start toks = .tree t) : Derives rules toks start t 0 toks.size :=
  ((soundAt rules toks _).2.2.2 start 0 {} (memoOK_empty rules toks)).2 _ (parse_tree_mem h)

/-- the returned tree is a context of the start rule -/
theorem parse_isRule (rules : List (String × Gram)) (start : String) (toks : Array Tok) (t : Tree)
    (h : parse rules start toks = .tree t) : ∃ line col ls cs, t = Tree.rule start line col ls cs :=
  (parse_sound rules start toks t h).isRule

/-- the leaves of the returned tree are exactly the tokens, in order -/
theorem parse_yield (rules : List (String × Gram)) (start : String) (toks : Array Tok) (t : Tree)
    (h : parse rules start toks = .tree t) : leaves t = toks.toList.map tokTree := by
  have := (parse_sound rules start toks t h).yield.2
  rw [this]
  simp [slice, List.take_of_length_le]

end FgaVerif.Proofs.GParseSound
