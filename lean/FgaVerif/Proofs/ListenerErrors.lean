import FgaVerif.Proofs.ErrLog
import FgaVerif.Proofs.AList
/-! The structural errors the listener itself raises (besides a relation defined twice, which is
    treated in `Proofs/Listener.lean`): a condition defined twice, a condition parameter defined
    twice, `extend` in a non-modular model, a type extended twice in one file.

    Each is shown to be appended to the error log by the walk of the offending node, **for parse
    trees of arbitrary shape** (no grammaticality assumption on the node's children or on what
    surrounds it), and — with the monotonicity of the log (`Proofs/ErrLog.lean`) — to void the result
    of the transform at whatever position and nesting depth the node sits (`Reaches`,
    `listener_error_voids_transform`). -/
namespace FgaVerif.Model.Listener
open FgaVerif.Model

/-! ### the walk of a rule node, taken apart -/

/-- what the walker passes down to the children of a node as "is my parent an `extend` typeDef" -/
def childPe (name : String) (ctx : Tree) : Option Bool :=
  if name == "typeDef" then some (ctx.childTok? "EXTEND").isSome else none

theorem walk_rule_eq (pe) (name : String) (sl sc ls) (cs : List Tree) (st : LState) :
    walk pe (.rule name sl sc ls cs) st =
      (match enterRule name (.rule name sl sc ls cs) st with
       | .error p => .error p
       | .ok st1 =>
         match walkL (childPe name (.rule name sl sc ls cs)) cs st1 with
         | .error p => .error p
         | .ok st2 => exitRule name (.rule name sl sc ls cs) pe st2) := by
  rw [walk]
  rfl

/-- a successful walk of a rule node is: enter callback, children, exit callback — all successful -/
theorem walk_rule_inv (pe) (name : String) (sl sc ls) (cs : List Tree) (st st' : LState)
    (h : walk pe (.rule name sl sc ls cs) st = .ok st') :
    ∃ st1 st2, enterRule name (.rule name sl sc ls cs) st = .ok st1 ∧
      walkL (childPe name (.rule name sl sc ls cs)) cs st1 = .ok st2 ∧
      exitRule name (.rule name sl sc ls cs) pe st2 = .ok st' := by
  rw [walk_rule_eq] at h
  split at h
  · cases h
  · rename_i st1 h1
    split at h
    · cases h
    · rename_i st2 h2
      exact ⟨st1, st2, h1, h2, h⟩

theorem walk_rule_of (pe) (name : String) (sl sc ls) (cs : List Tree) (st st1 st2 : LState)
    (h1 : enterRule name (.rule name sl sc ls cs) st = .ok st1)
    (h2 : walkL (childPe name (.rule name sl sc ls cs)) cs st1 = .ok st2) :
    walk pe (.rule name sl sc ls cs) st = exitRule name (.rule name sl sc ls cs) pe st2 := by
  rw [walk_rule_eq, h1]
  simp only [h2]

theorem walkL_cons_inv (pe) (t : Tree) (ts : List Tree) (st st' : LState) (h : walkL pe (t :: ts) st = .ok st') :
    ∃ st1, walk pe t st = .ok st1 ∧ walkL pe ts st1 = .ok st' := by
  simp only [walkL] at h
  split at h
  · cases h
  · rename_i st1 h1
    exact ⟨st1, h1, h⟩

theorem walkL_singleton (pe) (t : Tree) (st : LState) : walkL pe [t] st = walk pe t st := by
  simp only [walkL]
  cases walk pe t st <;> rfl

/-! ### "the error `e` is appended to the log between `st` and `st'`" -/

/-- `e` is logged somewhere between the two states (the log only ever grows, so this is the same
    as: `e` is one of the entries that `st'` has beyond those of `st`) -/
def Logged (e : SynErr) (st st' : LState) : Prop := ∃ l1 l2, st'.errors = st.errors ++ l1 ++ e :: l2

theorem Logged.mem {e st st'} (h : Logged e st st') : e ∈ st'.errors := by
  obtain ⟨l1, l2, h⟩ := h
  rw [h]; simp

theorem Logged.ne_nil {e st st'} (h : Logged e st st') : st'.errors ≠ [] := by
  intro hn
  have := h.mem
  rw [hn] at this
  cases this

theorem Logged.of_first {e : SynErr} {st st' : LState} {l : List SynErr} (h : st'.errors = st.errors ++ e :: l) :
    Logged e st st' := ⟨[], l, by simp [h]⟩

theorem Logged.of_last {e : SynErr} {st st' : LState} {l : List SynErr} (h : st'.errors = st.errors ++ l ++ [e]) :
    Logged e st st' := ⟨l, [], h⟩

/-- … and stays logged whatever is walked afterwards -/
theorem Logged.then_grows {e a b c} (h : Logged e a b) (g : ∃ l, c.errors = b.errors ++ l) : Logged e a c := by
  obtain ⟨l1, l2, h⟩ := h
  obtain ⟨l, g⟩ := g
  exact ⟨l1, l2 ++ l, by rw [g, h]; simp⟩

/-- … whatever was walked before -/
theorem Logged.after_grows {e a b c} (g : ∃ l, b.errors = a.errors ++ l) (h : Logged e b c) : Logged e a c := by
  obtain ⟨l1, l2, h⟩ := h
  obtain ⟨l, g⟩ := g
  exact ⟨l ++ l1, l2, by rw [h, g]; simp⟩

/-! ### positions in a walk: any sibling rank, any nesting depth

    `Reaches pe ts st pe' t s`: the walk of the forest `ts` started in state `st` gets to the node
    `t` — a member of `ts` or a descendant of one, at any depth — and calls `walk pe' t` in state `s`
    there.  (`skip`: a preceding sibling is walked through; `down`: the walk enters a rule node, runs
    its enter callback, and goes on among its children.) -/
inductive Reaches : Option Bool → List Tree → LState → Option Bool → Tree → LState → Prop
  | here (pe t rest st) : Reaches pe (t :: rest) st pe t st
  | skip (pe c cs st st1 pe' t s) : walk pe c st = .ok st1 → Reaches pe cs st1 pe' t s →
      Reaches pe (c :: cs) st pe' t s
  | down (pe name sl sc ls cs rest st st1 pe' t s) :
      enterRule name (.rule name sl sc ls cs) st = .ok st1 →
      Reaches (childPe name (.rule name sl sc ls cs)) cs st1 pe' t s →
      Reaches pe (.rule name sl sc ls cs :: rest) st pe' t s

/-- if the whole walk succeeds, so did the walk of the node reached, and everything in the log after
    that node is still in the log at the end; everything in the log at the start is in the log when the
    node is reached -/
theorem Reaches.grows {pe ts st pe' t s} (hr : Reaches pe ts st pe' t s) :
    ∀ final, walkL pe ts st = .ok final →
      (∃ l0, s.errors = st.errors ++ l0) ∧
      ∃ mid, walk pe' t s = .ok mid ∧ ∃ l, final.errors = mid.errors ++ l := by
  induction hr with
  | here pe t rest st =>
    intro final h
    obtain ⟨st1, h1, h2⟩ := walkL_cons_inv _ _ _ _ _ h
    exact ⟨⟨[], by simp⟩, st1, h1, walkL_grows _ _ _ _ h2⟩
  | skip pe c cs st st1 pe' t s hw _ ih =>
    intro final h
    obtain ⟨st1', h1, h2⟩ := walkL_cons_inv _ _ _ _ _ h
    rw [hw] at h1
    cases h1
    obtain ⟨⟨l0, hl0⟩, mid, hm, hl⟩ := ih final h2
    obtain ⟨l1, hl1⟩ := walk_grows _ _ _ _ hw
    exact ⟨⟨l1 ++ l0, by rw [hl0, hl1]; simp⟩, mid, hm, hl⟩
  | down pe name sl sc ls cs rest st st1 pe' t s he _ ih =>
    intro final h
    obtain ⟨m1, h1, h2⟩ := walkL_cons_inv _ _ _ _ _ h
    obtain ⟨st1', st2, e1, e2, e3⟩ := walk_rule_inv _ _ _ _ _ _ _ _ h1
    rw [he] at e1
    cases e1
    obtain ⟨⟨l0, hl0⟩, mid, hm, l, hl⟩ := ih st2 e2
    obtain ⟨la, hla⟩ := grows_enterRule _ _ _ _ he
    obtain ⟨lb, hlb⟩ := grows_exitRule _ _ _ _ _ e3
    obtain ⟨lc, hlc⟩ := walkL_grows _ _ _ _ h2
    exact ⟨⟨la ++ l0, by rw [hl0, hla]; simp⟩, mid, hm, l ++ lb ++ lc, by rw [hlc, hlb, hl]; simp⟩

/-- **an error logged anywhere voids the transform**: if the walk of the document's tree reaches —
    at any position and depth — a node whose walk, from the state it is reached in, cannot succeed
    with an empty log, then the transform returns no model -/
theorem listener_error_voids_transform (antlrErrors : List SynErr) (T : Tree) (pe' : Option Bool) (t : Tree)
    (s : LState) (hr : Reaches none [T] { errors := antlrErrors } pe' t s)
    (hne : ∀ mid, walk pe' t s = .ok mid → mid.errors ≠ []) (m : Model) (x) :
    transform antlrErrors T ≠ .ok m x := by
  intro h
  obtain ⟨_, st, hw, he⟩ := transform_ok_no_errors antlrErrors T m x h
  rw [← walkL_singleton] at hw
  obtain ⟨_, mid, hm, l, hl⟩ := hr.grows st hw
  apply hne mid hm
  rw [he] at hl
  have := congrArg List.length hl
  simp at this
  exact List.eq_nil_of_length_eq_zero (by omega)

/-- the same, for a node that logs a given error -/
theorem logged_error_voids_transform (antlrErrors : List SynErr) (T : Tree) (pe' : Option Bool) (t : Tree)
    (s : LState) (hr : Reaches none [T] { errors := antlrErrors } pe' t s) (e : SynErr)
    (hlog : ∀ mid, walk pe' t s = .ok mid → Logged e s mid) (m : Model) (x) :
    transform antlrErrors T ≠ .ok m x :=
  listener_error_voids_transform antlrErrors T pe' t s hr (fun mid hm => (hlog mid hm).ne_nil) m x

/-! ### dispatch (string matches decided once, here) -/

theorem enter_condition (c st) : enterRule "condition" c st = enterCondition c st := by simp [enterRule]
theorem exit_condition (c pe st) : exitRule "condition" c pe st = exitCondition st := by simp [exitRule]
theorem enter_typeDef (c st) : enterRule "typeDef" c st = enterTypeDef c st := by simp [enterRule]
theorem exit_typeDef (c pe st) : exitRule "typeDef" c pe st = exitTypeDef c st := by simp [exitRule]
theorem enter_conditionParameter (c st) : enterRule "conditionParameter" c st = .ok st := by simp [enterRule]
theorem exit_conditionParameter (c pe st) :
    exitRule "conditionParameter" c pe st = exitConditionParameter c st := by simp [exitRule]

/-- if the enter callback of a rule node logs `e` first, every successful walk of the node has `e`
    right after the entries the log had before -/
theorem walk_logs_of_enter (pe) (name : String) (sl sc ls) (cs : List Tree) (st st' : LState) (e : SynErr)
    (henter : ∀ st1, enterRule name (.rule name sl sc ls cs) st = .ok st1 → st1.errors = st.errors ++ [e])
    (h : walk pe (.rule name sl sc ls cs) st = .ok st') : ∃ l, st'.errors = st.errors ++ e :: l := by
  obtain ⟨st1, st2, e1, e2, e3⟩ := walk_rule_inv _ _ _ _ _ _ _ _ h
  obtain ⟨l2, hl2⟩ := walkL_grows _ _ _ _ e2
  obtain ⟨l3, hl3⟩ := grows_exitRule _ _ _ _ _ e3
  exact ⟨l2 ++ l3, by rw [hl3, hl2, henter st1 e1]; simp⟩

/-- the "rejected anywhere" pattern: the node logs `e`, the rest of the forest only adds to the log -/
theorem walkL_logged_of_head (pe) (t : Tree) (rest : List Tree) (st final : LState) (e : SynErr)
    (hlog : ∀ mid, walk pe t st = .ok mid → Logged e st mid)
    (h : walkL pe (t :: rest) st = .ok final) : Logged e st final := by
  obtain ⟨mid, h1, h2⟩ := walkL_cons_inv _ _ _ _ _ h
  exact (hlog mid h1).then_grows (walkL_grows _ _ _ _ h2)

/-! ## 1. a condition defined twice -/

/-- the entry logged for a condition whose name (the `conditionName` child `cn`) is already taken -/
def dupConditionErr (cn : Tree) : SynErr :=
  ⟨cn.startPos.1, cn.startPos.2, s!"condition '{cn.text}' is already defined in the model"⟩

/-- callback level: whatever the context node looks like -/
theorem enterCondition_duplicate (ctx cn : Tree) (st : LState) (hcn : ctx.childRule? "conditionName" = some cn)
    (hdup : AList.contains cn.text st.conds = true) :
    ∃ st1, enterCondition ctx st = .ok st1 ∧ st1.errors = st.errors ++ [dupConditionErr cn] := by
  unfold enterCondition
  simp only [hcn, hdup, if_true]
  exact ⟨_, rfl, rfl⟩

/-- **a condition whose name is already defined is logged, at the position of the name, by every
    successful walk of the `condition` node** — whatever the node's children are (parameters,
    expression, error nodes, anything) -/
theorem duplicate_condition_logged (pe : Option Bool) (sl sc : Nat) (ls) (cs : List Tree) (cn : Tree) (st st' : LState)
    (hcn : (Tree.rule "condition" sl sc ls cs).childRule? "conditionName" = some cn)
    (hdup : AList.contains cn.text st.conds = true)
    (h : walk pe (.rule "condition" sl sc ls cs) st = .ok st') :
    ∃ l, st'.errors = st.errors ++ dupConditionErr cn :: l := by
  refine walk_logs_of_enter pe _ sl sc ls cs st st' _ (fun st1 h1 => ?_) h
  obtain ⟨st1', e1, he⟩ := enterCondition_duplicate _ cn st hcn hdup
  rw [enter_condition, e1] at h1
  cases h1
  exact he

/-- … hence whatever follows in the walk (further siblings of any shape), the log is not empty at the
    end: the error is in it -/
theorem duplicate_condition_rejected_anywhere (pe' : Option Bool) (sl sc : Nat) (ls) (cs : List Tree) (cn : Tree)
    (st : LState) (hcn : (Tree.rule "condition" sl sc ls cs).childRule? "conditionName" = some cn)
    (hdup : AList.contains cn.text st.conds = true) (rest : List Tree) (final : LState)
    (h : walkL pe' (.rule "condition" sl sc ls cs :: rest) st = .ok final) :
    dupConditionErr cn ∈ final.errors ∧ final.errors ≠ [] := by
  have := walkL_logged_of_head pe' _ rest st final (dupConditionErr cn)
    (fun mid hm => by
      obtain ⟨l, hl⟩ := duplicate_condition_logged pe' sl sc ls cs cn st mid hcn hdup hm
      exact Logged.of_first hl) h
  exact ⟨this.mem, this.ne_nil⟩

/-- … and at whatever depth of whatever document tree the node sits, the transform returns no model -/
theorem duplicate_condition_voids_transform (antlrErrors : List SynErr) (T : Tree) (pe' : Option Bool)
    (sl sc : Nat) (ls) (cs : List Tree) (cn : Tree) (s : LState)
    (hr : Reaches none [T] { errors := antlrErrors } pe' (.rule "condition" sl sc ls cs) s)
    (hcn : (Tree.rule "condition" sl sc ls cs).childRule? "conditionName" = some cn)
    (hdup : AList.contains cn.text s.conds = true) (m : Model) (x) :
    transform antlrErrors T ≠ .ok m x :=
  logged_error_voids_transform antlrErrors T pe' _ s hr (dupConditionErr cn)
    (fun mid hm => by
      obtain ⟨l, hl⟩ := duplicate_condition_logged pe' sl sc ls cs cn s mid hcn hdup hm
      exact Logged.of_first hl) m x

/-! ## 3. `extend` in a model that is not modular -/

def extendNonModularErr (tn : Tree) : SynErr :=
  ⟨tn.startPos.1, tn.startPos.2, "extend can only be used in a modular model"⟩

theorem enterTypeDef_extend_nonmodular (ctx tn : Tree) (st : LState) (htn : ctx.label? "typeName" = some tn)
    (hext : (ctx.childTok? "EXTEND").isSome = true) (hmod : st.isModular = false) :
    ∃ st1, enterTypeDef ctx st = .ok st1 ∧ st1.errors = st.errors ++ [extendNonModularErr tn] := by
  unfold enterTypeDef
  simp only [htn, hext, hmod, Bool.not_false, Bool.and_self, if_true]
  exact ⟨_, rfl, rfl⟩

/-- **`extend type …` outside a module is logged, at the position of the type name, by every
    successful walk of the `typeDef` node**, whatever its children -/
theorem extend_nonmodular_logged (pe : Option Bool) (sl sc : Nat) (ls) (cs : List Tree) (tn : Tree) (st st' : LState)
    (htn : (Tree.rule "typeDef" sl sc ls cs).label? "typeName" = some tn)
    (hext : ((Tree.rule "typeDef" sl sc ls cs).childTok? "EXTEND").isSome = true)
    (hmod : st.isModular = false)
    (h : walk pe (.rule "typeDef" sl sc ls cs) st = .ok st') :
    ∃ l, st'.errors = st.errors ++ extendNonModularErr tn :: l := by
  refine walk_logs_of_enter pe _ sl sc ls cs st st' _ (fun st1 h1 => ?_) h
  obtain ⟨st1', e1, he⟩ := enterTypeDef_extend_nonmodular _ tn st htn hext hmod
  rw [enter_typeDef, e1] at h1
  cases h1
  exact he

theorem extend_nonmodular_rejected_anywhere (pe' : Option Bool) (sl sc : Nat) (ls) (cs : List Tree) (tn : Tree)
    (st : LState) (htn : (Tree.rule "typeDef" sl sc ls cs).label? "typeName" = some tn)
    (hext : ((Tree.rule "typeDef" sl sc ls cs).childTok? "EXTEND").isSome = true)
    (hmod : st.isModular = false) (rest : List Tree) (final : LState)
    (h : walkL pe' (.rule "typeDef" sl sc ls cs :: rest) st = .ok final) :
    extendNonModularErr tn ∈ final.errors ∧ final.errors ≠ [] := by
  have := walkL_logged_of_head pe' _ rest st final (extendNonModularErr tn)
    (fun mid hm => by
      obtain ⟨l, hl⟩ := extend_nonmodular_logged pe' sl sc ls cs tn st mid htn hext hmod hm
      exact Logged.of_first hl) h
  exact ⟨this.mem, this.ne_nil⟩

theorem extend_nonmodular_voids_transform (antlrErrors : List SynErr) (T : Tree) (pe' : Option Bool)
    (sl sc : Nat) (ls) (cs : List Tree) (tn : Tree) (s : LState)
    (hr : Reaches none [T] { errors := antlrErrors } pe' (.rule "typeDef" sl sc ls cs) s)
    (htn : (Tree.rule "typeDef" sl sc ls cs).label? "typeName" = some tn)
    (hext : ((Tree.rule "typeDef" sl sc ls cs).childTok? "EXTEND").isSome = true)
    (hmod : s.isModular = false) (m : Model) (x) :
    transform antlrErrors T ≠ .ok m x :=
  logged_error_voids_transform antlrErrors T pe' _ s hr (extendNonModularErr tn)
    (fun mid hm => by
      obtain ⟨l, hl⟩ := extend_nonmodular_logged pe' sl sc ls cs tn s mid htn hext hmod hm
      exact Logged.of_first hl) m x

/-! ### subtrees the listener has no business with, and frames

    `avoids bad t`: no rule node of `t` (at any depth) has a name for which `bad` holds. -/

mutual
  def avoids (bad : String → Bool) : Tree → Bool
    | .tok _ _ _ _ _ => true
    | .rule name _ _ _ cs => !bad name && avoidsL bad cs
  def avoidsL (bad : String → Bool) : List Tree → Bool
    | [] => true
    | c :: cs => avoids bad c && avoidsL bad cs
end

/-- a subtree without any rule for which the listener has a callback (tokens, error nodes,
    `parameterName`, `parameterType`, `conditionName`, `relationName`, `identifier`, … nodes over such) -/
def inert (t : Tree) : Bool := avoids (fun n => callbackRules.contains n) t
def inertL (ts : List Tree) : Bool := avoidsL (fun n => callbackRules.contains n) ts

theorem enterRule_no_callback (name : String) (ctx : Tree) (st : LState) (h : callbackRules.contains name = false) :
    enterRule name ctx st = .ok st := by
  revert h
  unfold enterRule
  split <;> first | (intro h; exact absurd h (by decide)) | (intro _; rfl)

theorem exitRule_no_callback (name : String) (ctx : Tree) (pe) (st : LState) (h : callbackRules.contains name = false) :
    exitRule name ctx pe st = .ok st := by
  revert h
  unfold exitRule
  split <;> first | (intro h; exact absurd h (by decide)) | (intro _; rfl)

mutual
  /-- the walk of an inert subtree succeeds and leaves the state as it is -/
  theorem walk_inert (pe) : (t : Tree) → (st : LState) → inert t = true → walk pe t st = .ok st
    | .tok _ _ _ _ _, st, _ => by simp only [walk]
    | .rule name sl sc ls cs, st, h => by
      have h' : callbackRules.contains name = false ∧ inertL cs = true := by
        simpa [inert, inertL, avoids] using h
      rw [walk_rule_of pe name sl sc ls cs st st st (enterRule_no_callback _ _ _ h'.1) (walkL_inert _ cs st h'.2)]
      exact exitRule_no_callback _ _ _ _ h'.1
  theorem walkL_inert (pe) : (ts : List Tree) → (st : LState) → inertL ts = true → walkL pe ts st = .ok st
    | [], st, _ => by simp only [walkL]
    | t :: ts, st, h => by
      have h' : inert t = true ∧ inertL ts = true := by simpa [inert, inertL, avoidsL] using h
      simp only [walkL, walk_inert pe t st h'.1]
      exact walkL_inert pe ts st h'.2
end

/-- the callbacks of all rules but the `bad` ones leave the component `k` of the state alone -/
structure Keeps {κ : Type} (bad : String → Bool) (k : LState → κ) : Prop where
  enter : ∀ name ctx st st', bad name = false → enterRule name ctx st = .ok st' → k st' = k st
  exit : ∀ name ctx pe st st', bad name = false → exitRule name ctx pe st = .ok st' → k st' = k st

mutual
  theorem walk_keeps {κ : Type} {bad : String → Bool} {k : LState → κ} (K : Keeps bad k) (pe) :
      (t : Tree) → (st st' : LState) → avoids bad t = true → walk pe t st = .ok st' → k st' = k st
    | .tok _ _ _ _ _, st, st', _, h => by simp only [walk] at h; cases h; rfl
    | .rule name sl sc ls cs, st, st', ha, h => by
      have ha' : bad name = false ∧ avoidsL bad cs = true := by simpa [avoids] using ha
      obtain ⟨st1, st2, e1, e2, e3⟩ := walk_rule_inv _ _ _ _ _ _ _ _ h
      rw [K.exit _ _ _ _ _ ha'.1 e3, walkL_keeps K _ cs st1 st2 ha'.2 e2, K.enter _ _ _ _ ha'.1 e1]
  theorem walkL_keeps {κ : Type} {bad : String → Bool} {k : LState → κ} (K : Keeps bad k) (pe) :
      (ts : List Tree) → (st st' : LState) → avoidsL bad ts = true → walkL pe ts st = .ok st' → k st' = k st
    | [], st, st', _, h => by simp only [walkL] at h; cases h; rfl
    | t :: ts, st, st', ha, h => by
      have ha' : avoids bad t = true ∧ avoidsL bad ts = true := by simpa [avoidsL] using ha
      obtain ⟨st1, h1, h2⟩ := walkL_cons_inv _ _ _ _ _ h
      rw [walkL_keeps K pe ts st1 st' ha'.2 h2, walk_keeps K pe t st st1 ha'.1 h1]
end

/-- name and parameters of the condition under construction -/
def condKey (st : LState) : Option (String × List (String × CondParam)) :=
  st.currentCondition.map (fun c => (c.name, c.params))
/-- the rules whose callbacks touch `condKey` -/
def condBad (n : String) : Bool := n == "condition" || n == "conditionParameter"

/-- modular flag, extension map, and name of the type under construction -/
def typeKey (st : LState) : Bool × Option (List (String × Nat)) × Option String :=
  (st.isModular, st.typeDefExtensions, st.currentTypeDef.map (·.name))
/-- the rules whose callbacks touch `typeKey` -/
def typeBad (n : String) : Bool := n == "typeDef" || n == "moduleHeader"

syntax "cb_keep " ident : tactic
macro_rules
  | `(tactic| cb_keep $h:ident) => `(tactic| (
      simp only [enterMain, enterTypeDef, enterConditions, enterCondition, enterRelationDeclaration,
        enterRelationDefDirectAssignment, enterRelationRecurseNoDirect, enterRelationDefPartials,
        exitModuleHeader, exitModelHeader, exitConditionParameter, exitConditionExpression, exitCondition,
        exitTypeDef, exitRelationDeclaration, exitRelationDefDirectAssignment, exitRelationDefTypeRestriction,
        exitRelationDefRewrite, exitRelationRecurse, exitRelationRecurseNoDirect, withRelation] at $h:ident
      repeat' split at $h:ident
      all_goals first
        | (cases $h:ident; done)
        | (cases $h:ident; rfl)
        | (cases $h:ident; simp_all [condKey, typeKey, notify]; done)))

/-- only `condition` and `conditionParameter` nodes change the name or the parameters of the
    condition under construction -/
theorem keeps_cond : Keeps condBad condKey where
  enter := by
    intro name ctx st st' hb h
    unfold enterRule at h
    split at h
    all_goals first
      | (exact absurd hb (by decide))
      | (cases h; rfl)
      | (cb_keep h)
  exit := by
    intro name ctx pe st st' hb h
    unfold exitRule at h
    split at h
    all_goals first
      | (exact absurd hb (by decide))
      | (cases h; rfl)
      | (cb_keep h)

/-- only `typeDef` and `moduleHeader` nodes change the modular flag, the extension map or the name
    of the type under construction (a relation declaration changes its relations, not its name) -/
theorem keeps_type : Keeps typeBad typeKey where
  enter := by
    intro name ctx st st' hb h
    unfold enterRule at h
    split at h
    all_goals first
      | (exact absurd hb (by decide))
      | (cases h; rfl)
      | (cb_keep h)
  exit := by
    intro name ctx pe st st' hb h
    unfold exitRule at h
    split at h
    all_goals first
      | (exact absurd hb (by decide))
      | (cases h; rfl)
      | (cb_keep h)

/-! ## 2. a condition parameter defined twice -/

def dupParameterErr (pn : Tree) (condName : String) : SynErr :=
  ⟨pn.startPos.1, pn.startPos.2, s!"parameter '{pn.text}' is already defined in the condition '{condName}'"⟩

/-- callback level, for every context node: a parameter whose name is already among the parameters of
    the condition under construction is logged, at the position of the name (and the callback
    succeeds: the new type replaces the old one in the map, as in Go) -/
theorem exitConditionParameter_duplicate (ctx pn pt : Tree) (st : LState) (c : Condition)
    (hpn : ctx.childRule? "parameterName" = some pn) (hpt : ctx.childRule? "parameterType" = some pt)
    (hc : st.currentCondition = some c) (hdup : AList.contains pn.text c.params = true) :
    ∃ st', exitConditionParameter ctx st = .ok st' ∧ st'.errors = st.errors ++ [dupParameterErr pn c.name] := by
  unfold exitConditionParameter
  simp only [hpn, hpt, hc, hdup, if_true, notify]
  exact ⟨_, rfl, rfl⟩

/-- **whole node, children the listener ignores** (what the grammar produces: `parameterName`,
    `parameterType`, tokens — or any other inert subtrees): the walk succeeds and logs exactly the error -/
theorem duplicate_parameter_logged (pe : Option Bool) (sl sc : Nat) (ls) (cs : List Tree) (pn pt : Tree)
    (st : LState) (c : Condition) (hin : inertL cs = true)
    (hpn : (Tree.rule "conditionParameter" sl sc ls cs).childRule? "parameterName" = some pn)
    (hpt : (Tree.rule "conditionParameter" sl sc ls cs).childRule? "parameterType" = some pt)
    (hc : st.currentCondition = some c) (hdup : AList.contains pn.text c.params = true) :
    ∃ st', walk pe (.rule "conditionParameter" sl sc ls cs) st = .ok st' ∧
      st'.errors = st.errors ++ [dupParameterErr pn c.name] := by
  rw [walk_rule_of pe _ sl sc ls cs st st st (enter_conditionParameter _ _) (walkL_inert _ cs st hin),
    exit_conditionParameter]
  exact exitConditionParameter_duplicate _ pn pt st c hpn hpt hc hdup

/-- **whole node, arbitrary children** as long as no `condition` / `conditionParameter` node is nested
    in them: every successful walk ends with the error as the last entry of the log -/
theorem duplicate_parameter_logged_general (pe : Option Bool) (sl sc : Nat) (ls) (cs : List Tree) (pn pt : Tree)
    (st st' : LState) (c : Condition) (hav : avoidsL condBad cs = true)
    (hpn : (Tree.rule "conditionParameter" sl sc ls cs).childRule? "parameterName" = some pn)
    (hpt : (Tree.rule "conditionParameter" sl sc ls cs).childRule? "parameterType" = some pt)
    (hc : st.currentCondition = some c) (hdup : AList.contains pn.text c.params = true)
    (h : walk pe (.rule "conditionParameter" sl sc ls cs) st = .ok st') :
    ∃ l, st'.errors = st.errors ++ l ++ [dupParameterErr pn c.name] := by
  obtain ⟨st1, st2, e1, e2, e3⟩ := walk_rule_inv _ _ _ _ _ _ _ _ h
  rw [enter_conditionParameter] at e1
  cases e1
  have hk := walkL_keeps keeps_cond _ cs _ _ hav e2
  obtain ⟨l, hl⟩ := walkL_grows _ _ _ _ e2
  have hc2 : ∃ c2, st2.currentCondition = some c2 ∧ c2.name = c.name ∧ c2.params = c.params := by
    simp only [condKey, hc, Option.map_some] at hk
    cases h2 : st2.currentCondition with
    | none => simp [h2] at hk
    | some c2 =>
      simp only [h2, Option.map_some, Option.some.injEq, Prod.mk.injEq] at hk
      exact ⟨c2, rfl, hk.1, hk.2⟩
  obtain ⟨c2, hc2, hn, hp⟩ := hc2
  obtain ⟨st'', e4, he⟩ := exitConditionParameter_duplicate _ pn pt st2 c2 hpn hpt hc2 (by rw [hp]; exact hdup)
  rw [exit_conditionParameter, e4] at e3
  cases e3
  exact ⟨l, by rw [he, hl, hn]⟩

theorem duplicate_parameter_rejected_anywhere (pe' : Option Bool) (sl sc : Nat) (ls) (cs : List Tree) (pn pt : Tree)
    (st : LState) (c : Condition) (hav : avoidsL condBad cs = true)
    (hpn : (Tree.rule "conditionParameter" sl sc ls cs).childRule? "parameterName" = some pn)
    (hpt : (Tree.rule "conditionParameter" sl sc ls cs).childRule? "parameterType" = some pt)
    (hc : st.currentCondition = some c) (hdup : AList.contains pn.text c.params = true)
    (rest : List Tree) (final : LState)
    (h : walkL pe' (.rule "conditionParameter" sl sc ls cs :: rest) st = .ok final) :
    dupParameterErr pn c.name ∈ final.errors ∧ final.errors ≠ [] := by
  have := walkL_logged_of_head pe' _ rest st final (dupParameterErr pn c.name)
    (fun mid hm => by
      obtain ⟨l, hl⟩ := duplicate_parameter_logged_general pe' sl sc ls cs pn pt st mid c hav hpn hpt hc hdup hm
      exact Logged.of_last hl) h
  exact ⟨this.mem, this.ne_nil⟩

theorem duplicate_parameter_voids_transform (antlrErrors : List SynErr) (T : Tree) (pe' : Option Bool)
    (sl sc : Nat) (ls) (cs : List Tree) (pn pt : Tree) (s : LState) (c : Condition)
    (hr : Reaches none [T] { errors := antlrErrors } pe' (.rule "conditionParameter" sl sc ls cs) s)
    (hav : avoidsL condBad cs = true)
    (hpn : (Tree.rule "conditionParameter" sl sc ls cs).childRule? "parameterName" = some pn)
    (hpt : (Tree.rule "conditionParameter" sl sc ls cs).childRule? "parameterType" = some pt)
    (hc : s.currentCondition = some c) (hdup : AList.contains pn.text c.params = true) (m : Model) (x) :
    transform antlrErrors T ≠ .ok m x :=
  logged_error_voids_transform antlrErrors T pe' _ s hr (dupParameterErr pn c.name)
    (fun mid hm => by
      obtain ⟨l, hl⟩ := duplicate_parameter_logged_general pe' sl sc ls cs pn pt s mid c hav hpn hpt hc hdup hm
      exact Logged.of_last hl) m x

/-! ## 4. the same type extended twice in one file -/

def extendedTwiceErr (tn : Tree) (typeName : String) : SynErr :=
  ⟨tn.startPos.1, tn.startPos.2, s!"'{typeName}' is already extended in file."⟩

/-- callback level, for every context node: if the callback returns at all (Go dereferences
    `ctx.GetTypeName()` here), the node has its `typeName` field and the error is logged at it -/
theorem exitTypeDef_extended_twice (ctx : Tree) (st st' : LState) (td : TypeDef) (exts : List (String × Nat))
    (hext : (ctx.childTok? "EXTEND").isSome = true) (hmod : st.isModular = true)
    (hexts : st.typeDefExtensions = some exts) (htd : st.currentTypeDef = some td) (hname : td.name ≠ "")
    (hdup : AList.contains td.name exts = true) (h : exitTypeDef ctx st = .ok st') :
    ∃ tn, ctx.label? "typeName" = some tn ∧ st'.errors = st.errors ++ [extendedTwiceErr tn td.name] := by
  have hn : (td.name == "") = false := by simpa using hname
  unfold exitTypeDef at h
  simp only [htd, hn, Bool.false_eq_true, if_false, hext, hmod, Bool.not_true, Bool.false_and, Bool.and_self,
    if_true, hexts, hdup] at h
  split at h
  · cases h
  · rename_i tn htn
    cases h
    exact ⟨tn, htn, rfl⟩

/-- … and with the field present the callback does return -/
theorem exitTypeDef_extended_twice_ok (ctx tn : Tree) (st : LState) (td : TypeDef) (exts : List (String × Nat))
    (htn : ctx.label? "typeName" = some tn)
    (hext : (ctx.childTok? "EXTEND").isSome = true) (hmod : st.isModular = true)
    (hexts : st.typeDefExtensions = some exts) (htd : st.currentTypeDef = some td) (hname : td.name ≠ "")
    (hdup : AList.contains td.name exts = true) :
    ∃ st', exitTypeDef ctx st = .ok st' ∧ st'.errors = st.errors ++ [extendedTwiceErr tn td.name] := by
  have hn : (td.name == "") = false := by simpa using hname
  unfold exitTypeDef
  simp only [htd, hn, Bool.false_eq_true, if_false, hext, hmod, Bool.not_true, Bool.false_and, Bool.and_self,
    if_true, hexts, hdup, htn]
  exact ⟨_, rfl, rfl⟩

theorem childPe_typeDef_extend (ctx : Tree) (hext : (ctx.childTok? "EXTEND").isSome = true) :
    childPe "typeDef" ctx = some true := by
  simp [childPe, hext]

/-- **whole node, arbitrary children, in terms of the state after the children**: if, when the
    children of an `extend type` node have been walked, the type under construction is one the
    extension map already has, every successful walk of the node ends with the error as the last entry -/
theorem extended_twice_logged_after_children (pe : Option Bool) (sl sc : Nat) (ls) (cs : List Tree)
    (st st1 st2 st' : LState) (td : TypeDef) (exts : List (String × Nat))
    (hext : ((Tree.rule "typeDef" sl sc ls cs).childTok? "EXTEND").isSome = true)
    (h1 : enterTypeDef (.rule "typeDef" sl sc ls cs) st = .ok st1)
    (h2 : walkL (some true) cs st1 = .ok st2)
    (hmod : st2.isModular = true) (hexts : st2.typeDefExtensions = some exts)
    (htd : st2.currentTypeDef = some td) (hname : td.name ≠ "") (hdup : AList.contains td.name exts = true)
    (h : walk pe (.rule "typeDef" sl sc ls cs) st = .ok st') :
    ∃ tn l, (Tree.rule "typeDef" sl sc ls cs).label? "typeName" = some tn ∧
      st'.errors = st.errors ++ l ++ [extendedTwiceErr tn td.name] := by
  obtain ⟨st1', st2', e1, e2, e3⟩ := walk_rule_inv _ _ _ _ _ _ _ _ h
  rw [enter_typeDef, h1] at e1
  cases e1
  rw [childPe_typeDef_extend _ hext, h2] at e2
  cases e2
  rw [exit_typeDef] at e3
  obtain ⟨tn, htn, he⟩ := exitTypeDef_extended_twice _ st2 st' td exts hext hmod hexts htd hname hdup e3
  obtain ⟨la, hla⟩ := grows_enterTypeDef _ _ _ h1
  obtain ⟨lb, hlb⟩ := walkL_grows _ _ _ _ h2
  exact ⟨tn, la ++ lb, htn, by rw [he, hlb, hla]; simp⟩

/-- **whole node, arbitrary children** as long as no `typeDef` / `moduleHeader` node is nested in them
    (relation declarations of any shape, error nodes, …): an `extend type X` in a module whose extension
    map already has `X` is logged, at the position of the type name, by every successful walk -/
theorem extended_twice_logged (pe : Option Bool) (sl sc : Nat) (ls) (cs : List Tree) (tn : Tree) (st st' : LState)
    (exts : List (String × Nat))
    (htn : (Tree.rule "typeDef" sl sc ls cs).label? "typeName" = some tn) (hne : tn.text ≠ "")
    (hext : ((Tree.rule "typeDef" sl sc ls cs).childTok? "EXTEND").isSome = true)
    (hmod : st.isModular = true) (hexts : st.typeDefExtensions = some exts)
    (hdup : AList.contains tn.text exts = true) (hav : avoidsL typeBad cs = true)
    (h : walk pe (.rule "typeDef" sl sc ls cs) st = .ok st') :
    ∃ l, st'.errors = st.errors ++ l ++ [extendedTwiceErr tn tn.text] := by
  obtain ⟨st1, st2, e1, e2, e3⟩ := walk_rule_inv _ _ _ _ _ _ _ _ h
  rw [enter_typeDef] at e1
  have hk1 : typeKey st1 = (true, some exts, some tn.text) := by
    unfold enterTypeDef at e1
    simp only [htn, hmod, Bool.not_true, Bool.and_false, Bool.false_eq_true, if_false] at e1
    cases e1
    simp [typeKey, hexts]
  have hk := walkL_keeps keeps_type _ cs _ _ hav e2
  rw [hk1] at hk
  rw [childPe_typeDef_extend _ hext] at e2
  simp only [typeKey, Prod.mk.injEq] at hk
  obtain ⟨hm2, hx2, ht2⟩ := hk
  cases htd : st2.currentTypeDef with
  | none => simp [htd] at ht2
  | some td =>
    have hnm : td.name = tn.text := by simpa [htd] using ht2
    obtain ⟨tn', l, htn', he⟩ := extended_twice_logged_after_children pe sl sc ls cs st st1 st2 st' td exts hext e1 e2
      hm2 hx2 htd (by rw [hnm]; exact hne) (by rw [hnm]; exact hdup) h
    rw [htn] at htn'
    cases htn'
    exact ⟨l, by rw [he, hnm]⟩

theorem extended_twice_rejected_anywhere (pe' : Option Bool) (sl sc : Nat) (ls) (cs : List Tree) (tn : Tree)
    (st : LState) (exts : List (String × Nat))
    (htn : (Tree.rule "typeDef" sl sc ls cs).label? "typeName" = some tn) (hne : tn.text ≠ "")
    (hext : ((Tree.rule "typeDef" sl sc ls cs).childTok? "EXTEND").isSome = true)
    (hmod : st.isModular = true) (hexts : st.typeDefExtensions = some exts)
    (hdup : AList.contains tn.text exts = true) (hav : avoidsL typeBad cs = true)
    (rest : List Tree) (final : LState)
    (h : walkL pe' (.rule "typeDef" sl sc ls cs :: rest) st = .ok final) :
    extendedTwiceErr tn tn.text ∈ final.errors ∧ final.errors ≠ [] := by
  have := walkL_logged_of_head pe' _ rest st final (extendedTwiceErr tn tn.text)
    (fun mid hm => by
      obtain ⟨l, hl⟩ := extended_twice_logged pe' sl sc ls cs tn st mid exts htn hne hext hmod hexts hdup hav hm
      exact Logged.of_last hl) h
  exact ⟨this.mem, this.ne_nil⟩

theorem extended_twice_voids_transform (antlrErrors : List SynErr) (T : Tree) (pe' : Option Bool)
    (sl sc : Nat) (ls) (cs : List Tree) (tn : Tree) (s : LState) (exts : List (String × Nat))
    (hr : Reaches none [T] { errors := antlrErrors } pe' (.rule "typeDef" sl sc ls cs) s)
    (htn : (Tree.rule "typeDef" sl sc ls cs).label? "typeName" = some tn) (hne : tn.text ≠ "")
    (hext : ((Tree.rule "typeDef" sl sc ls cs).childTok? "EXTEND").isSome = true)
    (hmod : s.isModular = true) (hexts : s.typeDefExtensions = some exts)
    (hdup : AList.contains tn.text exts = true) (hav : avoidsL typeBad cs = true) (m : Model) (x) :
    transform antlrErrors T ≠ .ok m x :=
  logged_error_voids_transform antlrErrors T pe' _ s hr (extendedTwiceErr tn tn.text)
    (fun mid hm => by
      obtain ⟨l, hl⟩ := extended_twice_logged pe' sl sc ls cs tn s mid exts htn hne hext hmod hexts hdup hav hm
      exact Logged.of_last hl) m x

/-! ### … as a statement about two `extend type X` nodes of one file -/

theorem walkL_append_inv (pe) (xs ys : List Tree) (st st' : LState) (h : walkL pe (xs ++ ys) st = .ok st') :
    ∃ m, walkL pe xs st = .ok m ∧ walkL pe ys m = .ok st' := by
  induction xs generalizing st with
  | nil => exact ⟨st, by simp only [walkL], h⟩
  | cons x xs ih =>
    obtain ⟨st1, h1, h2⟩ := walkL_cons_inv _ _ _ _ _ h
    obtain ⟨m, hm1, hm2⟩ := ih st1 h2
    exact ⟨m, by simp only [walkL, h1, hm1], hm2⟩

/-- the file is a module and its extension map has an entry for the type `X` -/
def Extended (X : String) (st : LState) : Prop :=
  st.isModular = true ∧ ∃ exts, st.typeDefExtensions = some exts ∧ AList.contains X exts = true

theorem Extended.of_typeKey {X : String} {a b : LState} (h : typeKey b = typeKey a) (ha : Extended X a) :
    Extended X b := by
  simp only [typeKey, Prod.mk.injEq] at h
  obtain ⟨hm, exts, he, hc⟩ := ha
  exact ⟨by rw [h.1, hm], exts, by rw [h.2.1, he], hc⟩

/-- the callbacks of all rules but the `bad` ones preserve the property `P` of the state -/
structure Preserves (bad : String → Bool) (P : LState → Prop) : Prop where
  enter : ∀ name ctx st st', bad name = false → enterRule name ctx st = .ok st' → P st → P st'
  exit : ∀ name ctx pe st st', bad name = false → exitRule name ctx pe st = .ok st' → P st → P st'

mutual
  theorem walk_preserves {bad : String → Bool} {P : LState → Prop} (K : Preserves bad P) (pe) :
      (t : Tree) → (st st' : LState) → avoids bad t = true → walk pe t st = .ok st' → P st → P st'
    | .tok _ _ _ _ _, st, st', _, h, hp => by simp only [walk] at h; cases h; exact hp
    | .rule name sl sc ls cs, st, st', ha, h, hp => by
      have ha' : bad name = false ∧ avoidsL bad cs = true := by simpa [avoids] using ha
      obtain ⟨st1, st2, e1, e2, e3⟩ := walk_rule_inv _ _ _ _ _ _ _ _ h
      exact K.exit _ _ _ _ _ ha'.1 e3 (walkL_preserves K _ cs st1 st2 ha'.2 e2 (K.enter _ _ _ _ ha'.1 e1 hp))
  theorem walkL_preserves {bad : String → Bool} {P : LState → Prop} (K : Preserves bad P) (pe) :
      (ts : List Tree) → (st st' : LState) → avoidsL bad ts = true → walkL pe ts st = .ok st' → P st → P st'
    | [], st, st', _, h, hp => by simp only [walkL] at h; cases h; exact hp
    | t :: ts, st, st', ha, h, hp => by
      have ha' : avoids bad t = true ∧ avoidsL bad ts = true := by simpa [avoidsL] using ha
      obtain ⟨st1, h1, h2⟩ := walkL_cons_inv _ _ _ _ _ h
      exact walkL_preserves K pe ts st1 st' ha'.2 h2 (walk_preserves K pe t st st1 ha'.1 h1 hp)
end

def isModuleHeader (n : String) : Bool := n == "moduleHeader"

theorem typeBad_of (name : String) (h1 : isModuleHeader name = false) (h2 : name ≠ "typeDef") : typeBad name = false := by
  simp only [isModuleHeader] at h1
  simp [typeBad, h1, h2]

theorem enterTypeDef_extended (X : String) (ctx : Tree) (st st' : LState) (h : enterTypeDef ctx st = .ok st')
    (hp : Extended X st) : Extended X st' := by
  obtain ⟨hm, exts, he, hc⟩ := hp
  unfold enterTypeDef at h
  split at h
  · cases h; exact ⟨hm, exts, he, hc⟩
  · cases h
    refine ⟨?_, exts, ?_, hc⟩
    · simp only; split <;> simpa [notify] using hm
    · simp only; split <;> simpa [notify] using he

theorem exitTypeDef_extended (X : String) (ctx : Tree) (st st' : LState) (h : exitTypeDef ctx st = .ok st')
    (hp : Extended X st) : Extended X st' := by
  obtain ⟨hm, exts, he, hc⟩ := hp
  unfold exitTypeDef at h
  simp only [hm, he] at h
  repeat' split at h
  all_goals first
    | (cases h; done)
    | (cases h; simp [Extended, notify, hm, he, hc]; done)
    | (cases h; simp [Extended, AList.contains_insert_of_contains _ _ _ _ hc]; done)

/-- once a type is in the extension map of a module it stays there, unless another module header is met -/
theorem preserves_extended (X : String) : Preserves isModuleHeader (Extended X) where
  enter := by
    intro name ctx st st' hb h hp
    by_cases hn : name = "typeDef"
    · subst hn
      rw [enter_typeDef] at h
      exact enterTypeDef_extended X ctx st st' h hp
    · exact Extended.of_typeKey (keeps_type.enter name ctx st st' (typeBad_of name hb hn) h) hp
  exit := by
    intro name ctx pe st st' hb h hp
    by_cases hn : name = "typeDef"
    · subst hn
      rw [exit_typeDef] at h
      exact exitTypeDef_extended X ctx st st' h hp
    · exact Extended.of_typeKey (keeps_type.exit name ctx pe st st' (typeBad_of name hb hn) h) hp


/-- callback level: leaving an `extend type X` node of a module, `X` is in the extension map — put
    there now, or found there (and then the error is logged, `exitTypeDef_extended_twice`) -/
theorem exitTypeDef_registers (ctx : Tree) (st st' : LState) (td : TypeDef) (exts : List (String × Nat))
    (hext : (ctx.childTok? "EXTEND").isSome = true) (hmod : st.isModular = true)
    (hexts : st.typeDefExtensions = some exts) (htd : st.currentTypeDef = some td) (hname : td.name ≠ "")
    (h : exitTypeDef ctx st = .ok st') : Extended td.name st' := by
  have hn : (td.name == "") = false := by simpa using hname
  unfold exitTypeDef at h
  simp only [htd, hn, Bool.false_eq_true, if_false, hext, hmod, Bool.not_true, Bool.false_and, Bool.and_self,
    if_true, hexts] at h
  repeat' split at h
  all_goals first
    | (cases h; done)
    | (cases h; simp_all [Extended, notify]; done)
    | (cases h; simp [Extended, AList.contains_insert_self]; done)

/-- the state in which the exit callback of an `extend type X` node of a module runs, when no
    `typeDef` / `moduleHeader` node is nested in it -/
theorem extend_node_inv (pe : Option Bool) (sl sc : Nat) (ls) (cs : List Tree) (tn : Tree) (st st' : LState)
    (exts : List (String × Nat))
    (htn : (Tree.rule "typeDef" sl sc ls cs).label? "typeName" = some tn)
    (hext : ((Tree.rule "typeDef" sl sc ls cs).childTok? "EXTEND").isSome = true)
    (hmod : st.isModular = true) (hexts : st.typeDefExtensions = some exts) (hav : avoidsL typeBad cs = true)
    (h : walk pe (.rule "typeDef" sl sc ls cs) st = .ok st') :
    ∃ st1 st2 td, enterTypeDef (.rule "typeDef" sl sc ls cs) st = .ok st1 ∧ walkL (some true) cs st1 = .ok st2 ∧
      exitTypeDef (.rule "typeDef" sl sc ls cs) st2 = .ok st' ∧
      st2.isModular = true ∧ st2.typeDefExtensions = some exts ∧ st2.currentTypeDef = some td ∧ td.name = tn.text := by
  obtain ⟨st1, st2, e1, e2, e3⟩ := walk_rule_inv _ _ _ _ _ _ _ _ h
  rw [enter_typeDef] at e1
  rw [exit_typeDef] at e3
  have hk1 : typeKey st1 = (true, some exts, some tn.text) := by
    have e1' := e1
    unfold enterTypeDef at e1'
    simp only [htn, hmod, Bool.not_true, Bool.and_false, Bool.false_eq_true, if_false] at e1'
    cases e1'
    simp [typeKey, hexts]
  have hk := walkL_keeps keeps_type _ cs _ _ hav e2
  rw [hk1] at hk
  rw [childPe_typeDef_extend _ hext] at e2
  simp only [typeKey, Prod.mk.injEq] at hk
  obtain ⟨hm2, hx2, ht2⟩ := hk
  cases htd : st2.currentTypeDef with
  | none => simp [htd] at ht2
  | some td =>
    have hnm : td.name = tn.text := by simpa [htd] using ht2
    exact ⟨st1, st2, td, e1, e2, e3, hm2, hx2, htd, hnm⟩

/-- whole node: after a successful walk of an `extend type X` node of a module, `X` is in the
    extension map -/
theorem extend_registers (pe : Option Bool) (sl sc : Nat) (ls) (cs : List Tree) (tn : Tree) (st st' : LState)
    (exts : List (String × Nat))
    (htn : (Tree.rule "typeDef" sl sc ls cs).label? "typeName" = some tn) (hne : tn.text ≠ "")
    (hext : ((Tree.rule "typeDef" sl sc ls cs).childTok? "EXTEND").isSome = true)
    (hmod : st.isModular = true) (hexts : st.typeDefExtensions = some exts) (hav : avoidsL typeBad cs = true)
    (h : walk pe (.rule "typeDef" sl sc ls cs) st = .ok st') : Extended tn.text st' := by
  obtain ⟨st1, st2, td, _, _, e3, hm2, hx2, htd, hnm⟩ :=
    extend_node_inv pe sl sc ls cs tn st st' exts htn hext hmod hexts hav h
  rw [← hnm]
  exact exitTypeDef_registers _ st2 st' td exts hext hm2 hx2 htd (by rw [hnm]; exact hne) e3

/-- **the same type extended twice in one file**: two `extend type X` nodes (children of any shape
    without nested `typeDef`/`moduleHeader` nodes) in the forest of a module, with anything but a module
    header between them (other type definitions, other extensions, conditions, error nodes …) and anything
    at all after them: the walk, if it succeeds, ends with "'X' is already extended in file." in the log,
    at the position of the second node's type name -/
theorem same_type_extended_twice (pe : Option Bool)
    (sl1 sc1 : Nat) (ls1) (cs1 : List Tree) (tn1 : Tree) (mid : List Tree)
    (sl2 sc2 : Nat) (ls2) (cs2 : List Tree) (tn2 : Tree) (rest : List Tree)
    (st final : LState) (exts : List (String × Nat))
    (htn1 : (Tree.rule "typeDef" sl1 sc1 ls1 cs1).label? "typeName" = some tn1)
    (htn2 : (Tree.rule "typeDef" sl2 sc2 ls2 cs2).label? "typeName" = some tn2)
    (hsame : tn2.text = tn1.text) (hne : tn1.text ≠ "")
    (hext1 : ((Tree.rule "typeDef" sl1 sc1 ls1 cs1).childTok? "EXTEND").isSome = true)
    (hext2 : ((Tree.rule "typeDef" sl2 sc2 ls2 cs2).childTok? "EXTEND").isSome = true)
    (hmod : st.isModular = true) (hexts : st.typeDefExtensions = some exts)
    (hav1 : avoidsL typeBad cs1 = true) (hav2 : avoidsL typeBad cs2 = true)
    (hmid : avoidsL isModuleHeader mid = true)
    (h : walkL pe (.rule "typeDef" sl1 sc1 ls1 cs1 :: (mid ++ .rule "typeDef" sl2 sc2 ls2 cs2 :: rest)) st = .ok final) :
    extendedTwiceErr tn2 tn2.text ∈ final.errors ∧ final.errors ≠ [] := by
  obtain ⟨s1, h1, h2⟩ := walkL_cons_inv _ _ _ _ _ h
  obtain ⟨s2, h3, h4⟩ := walkL_append_inv _ _ _ _ _ h2
  have hE1 := extend_registers pe sl1 sc1 ls1 cs1 tn1 st s1 exts htn1 hne hext1 hmod hexts hav1 h1
  obtain ⟨hm2, exts2, hx2, hc2⟩ := walkL_preserves (preserves_extended tn1.text) pe mid s1 s2 hmid h3 hE1
  exact extended_twice_rejected_anywhere pe sl2 sc2 ls2 cs2 tn2 s2 exts2 htn2
    (by rw [hsame]; exact hne) hext2 hm2 hx2 (by rw [hsame]; exact hc2) hav2 rest final h4

end FgaVerif.Model.Listener
