import FgaVerif.Props.C07
/-! Order independence of the module merger (`Model/Merge.lean`), for C12.

    With pairwise distinct file names the state the first loop leaves is, up to the order of the
    registered base definitions, a function of the *set* of files: the extension table and the text
    table are key-sorted association lists with one entry per file, so they are equal for a list of
    files and any permutation of it.  The second loop walks the extension table (in file-name order)
    and rewrites the base definition found *by name*, so on permuted base definitions with distinct
    names it computes permuted results and the same errors (`applyAll_rel`).

    Results (restated in `Props/C12.lean`): `merge_result_perm` (on success: type definitions the
    same up to order, condition maps equal), `merge_conds_perm`, and `merge_errors_perm` (when nothing
    is declared twice the error list of a permuted input is a permutation of the original one; the
    first loop then raises the per-file errors `fileErrs1`, `collect_nodup`). -/
namespace FgaVerif.Model.Merge
open FgaVerif.Model FgaVerif.Model.Listener

/-! ### generic facts -/

/-- key-sorted association lists are determined by their lookups -/
theorem AList.ext_of_sorted {α : Type} : ∀ (a b : List (String × α)), AList.SortedKeys a → AList.SortedKeys b →
    (∀ k, AList.find? k a = AList.find? k b) → a = b
  | [], [], _, _, _ => rfl
  | [], (k, v) :: b, _, _, h => by
    have := h k; simp [AList.find?] at this
  | (k, v) :: a, [], _, _, h => by
    have := h k; simp [AList.find?] at this
  | (k, v) :: a, (k', v') :: b, ha, hb, h => by
    unfold AList.SortedKeys at ha hb
    rw [List.pairwise_cons] at ha hb
    have na : AList.find? k a = none := AList.find?_none_of_lt k a (fun x hx => ha.1 x hx)
    have nb : AList.find? k' b = none := AList.find?_none_of_lt k' b (fun x hx => hb.1 x hx)
    have hkk : k = k' := by
      apply Decidable.byContradiction
      intro hne
      have hne1 : (k == k') = false := by simpa using hne
      have hne2 : (k' == k) = false := by simpa using fun e : k' = k => hne e.symm
      by_cases hlt : k < k'
      · have h1 := h k
        simp only [AList.find?, beq_self_eq_true, if_true, hne1, Bool.false_eq_true, if_false] at h1
        have : AList.find? k b = none :=
          AList.find?_none_of_lt k b (fun x hx => String.lt_trans hlt (hb.1 x hx))
        rw [this] at h1; cases h1
      · by_cases hgt : k' < k
        · have h1 := h k'
          simp only [AList.find?, beq_self_eq_true, if_true, hne2, Bool.false_eq_true, if_false] at h1
          have : AList.find? k' a = none :=
            AList.find?_none_of_lt k' a (fun x hx => String.lt_trans hgt (ha.1 x hx))
          rw [this] at h1; cases h1
        · exact hne (String.le_antisymm (String.not_lt.1 hgt) (String.not_lt.1 hlt))
    subst hkk
    have hv : v = v' := by
      have h1 := h k
      simpa [AList.find?] using h1
    subst hv
    have htail : a = b := by
      apply AList.ext_of_sorted a b ha.2 hb.2
      intro x
      by_cases hx : x = k
      · subst hx; rw [na, nb]
      · have hx' : (x == k) = false := by simpa using hx
        have h1 := h x
        simpa [AList.find?, hx'] using h1
    rw [htail]

/-- with distinct keys, "the first element with key `k`" does not depend on the order -/
theorem find?_perm_of_nodup {α : Type} (g : α → String) {l l' : List α} (hp : l.Perm l')
    (hnd : (l.map g).Nodup) (k : String) :
    l.find? (fun a => g a == k) = l'.find? (fun a => g a == k) := by
  induction hp with
  | nil => rfl
  | cons x _ ih =>
    simp only [List.map_cons, List.nodup_cons] at hnd
    simp only [List.find?_cons]
    split
    · rfl
    · exact ih hnd.2
  | swap x y l =>
    simp only [List.map_cons, List.nodup_cons, List.mem_cons, not_or] at hnd
    simp only [List.find?_cons]
    by_cases hx : (g x == k) = true
    · by_cases hy : (g y == k) = true
      · exfalso
        have e1 : g x = k := by simpa using hx
        have e2 : g y = k := by simpa using hy
        exact hnd.1.1 (e2.trans e1.symm)
      · have hy' : (g y == k) = false := by simpa using hy
        simp [hx, hy']
    · have hx' : (g x == k) = false := by simpa using hx
      simp [hx']
  | trans p1 _ ih1 ih2 =>
    rw [ih1 hnd]
    exact ih2 ((p1.map g).nodup_iff.1 hnd)

theorem set_eq_map_of_nodup {α : Type} (g : α → String) (n : String) (x : α) :
    ∀ (l : List α) (i : Nat), (l.map g).Nodup → l.findIdx? (fun a => g a == n) = some i →
      l.set i x = l.map (fun a => if g a == n then x else a)
  | [], _, _, h => by simp at h
  | a :: rest, i, hnd, h => by
    simp only [List.map_cons, List.nodup_cons] at hnd
    simp only [List.findIdx?_cons] at h
    by_cases hp : (g a == n) = true
    · simp only [hp, if_true, Option.some.injEq] at h
      subst h
      have ha : g a = n := by simpa using hp
      have hrest : rest.map (fun a => if g a == n then x else a) = rest := by
        have : ∀ b ∈ rest, (if g b == n then x else b) = b := by
          intro b hb
          have : g b ≠ n := fun e => hnd.1 (ha ▸ e ▸ List.mem_map.2 ⟨b, hb, rfl⟩)
          have : (g b == n) = false := by simpa using this
          simp [this]
        calc rest.map (fun a => if g a == n then x else a) = rest.map id := List.map_congr_left this
          _ = rest := List.map_id _
      rw [List.set_cons_zero, List.map_cons, hrest, if_pos hp]
    · have hp' : (g a == n) = false := by simpa using hp
      simp only [hp', Bool.false_eq_true, if_false, Option.map_eq_some_iff] at h
      obtain ⟨j, hj, rfl⟩ := h
      rw [List.set_cons_succ, List.map_cons, set_eq_map_of_nodup g n x rest j hnd.2 hj, hp']
      simp


/-! ### the second loop, read as a rewriting of the base definition found by name -/

/-- what one extension block does to the base definition it extends -/
def extStep (file : String) (lines : List (List Char)) (ext orig : TypeDef) : Except Panic (TypeDef × List MergeErr) :=
  if orig.relations.isEmpty then
    .ok ({ orig with relations := ext.relations,
                     md := some { (orig.md.getD {}) with relations := setRelFiles file (relMetaOf ext) } }, [])
  else addRelations file lines (AList.keys orig.relations) ext ext.relations orig []

theorem extStep_name (file : String) (lines : List (List Char)) (ext orig o' : TypeDef) (errs : List MergeErr)
    (h : extStep file lines ext orig = .ok (o', errs)) : o'.name = orig.name := by
  unfold extStep at h
  split at h
  · simp only [Except.ok.injEq, Prod.mk.injEq] at h
    rw [← h.1]
  · exact addRelations_name file lines _ ext _ orig [] o' errs h

/-- with distinct names among the registered base definitions, `applyExtension` rewrites the
    definition named like the extension, wherever it stands -/
theorem applyExtension_eq (file : String) (lines : List (List Char)) (ext : TypeDef) (st : MState)
    (hnd : (st.rawTypeDefs.map (·.name)).Nodup) :
    applyExtension file lines ext st =
      match st.rawTypeDefs.find? (fun t => t.name == ext.name) with
      | none => .ok { st with errors := st.errors ++ [missingErr file lines ext.name] }
      | some orig =>
        match extStep file lines ext orig with
        | .error p => .error p
        | .ok (o', errs) =>
          .ok { st with rawTypeDefs := st.rawTypeDefs.map (fun t => if t.name == ext.name then o' else t),
                        errors := st.errors ++ errs } := by
  unfold applyExtension
  cases hidx : st.rawTypeDefs.findIdx? (fun t => t.name == ext.name) with
  | none =>
    rw [findIdx?_none_find? _ _ hidx]
    rfl
  | some i =>
    obtain ⟨x, hx⟩ := findIdx?_some_get _ _ _ hidx
    have hfind : st.rawTypeDefs.find? (fun t => t.name == ext.name) = some x :=
      (findIdx?_set (fun t => t.name == ext.name) id _ i x hidx hx).2.2
    have hset : ∀ y, replaceAt st.rawTypeDefs i y =
        st.rawTypeDefs.map (fun t => if t.name == ext.name then y else t) := fun y =>
      set_eq_map_of_nodup (fun t : TypeDef => t.name) ext.name y st.rawTypeDefs i hnd hidx
    simp only [hx, hfind, extStep]
    by_cases hemp : x.relations.isEmpty = true
    · simp only [hemp, if_true, hset, List.append_nil]
    · simp only [hemp, Bool.false_eq_true, if_false]
      cases hadd : addRelations file lines (AList.keys x.relations) ext ext.relations x [] with
      | error p => rfl
      | ok r =>
        obtain ⟨o', errs⟩ := r
        simp only [hset]


/-- two states of the second loop that differ in the order of the registered base definitions only
    (and in the errors and conditions collected so far, which the loop does not read) -/
structure StRel (a b : MState) : Prop where
  perm : a.rawTypeDefs.Perm b.rawTypeDefs
  nd : (a.rawTypeDefs.map (·.name)).Nodup
  mf : a.moduleFiles = b.moduleFiles

theorem StRel.nd' {a b : MState} (h : StRel a b) : (b.rawTypeDefs.map (·.name)).Nodup :=
  ((h.perm.map _).nodup_iff).1 h.nd

theorem map_if_names (n : String) (o' : TypeDef) (ho : o'.name = n) (l : List TypeDef) :
    (l.map (fun t => if t.name == n then o' else t)).map (·.name) = l.map (·.name) := by
  rw [List.map_map]
  apply List.map_congr_left
  intro t _
  simp only [Function.comp]
  split
  · rename_i h; rw [ho]; exact (by simpa using h : t.name = n).symm
  · rfl

theorem applyExtension_frame (file : String) (lines : List (List Char)) (ext : TypeDef) (st st' : MState)
    (h : applyExtension file lines ext st = .ok st') :
    st'.conditions = st.conditions ∧ st'.moduleFiles = st.moduleFiles ∧ st'.extended = st.extended := by
  unfold applyExtension at h
  split at h
  · simp only [Except.ok.injEq] at h; subst h; exact ⟨rfl, rfl, rfl⟩
  · split at h
    · simp only [Except.ok.injEq] at h; subst h; exact ⟨rfl, rfl, rfl⟩
    · split at h
      · simp only [Except.ok.injEq] at h; subst h; exact ⟨rfl, rfl, rfl⟩
      · split at h
        · cases h
        · simp only [Except.ok.injEq] at h; subst h; exact ⟨rfl, rfl, rfl⟩

theorem applyExtension_rel (file : String) (lines : List (List Char)) (ext : TypeDef) (a b a2 b2 : MState)
    (hr : StRel a b) (ha : applyExtension file lines ext a = .ok a2) (hb : applyExtension file lines ext b = .ok b2) :
    StRel a2 b2 ∧ ∃ E, a2.errors = a.errors ++ E ∧ b2.errors = b.errors ++ E := by
  rw [applyExtension_eq _ _ _ _ hr.nd] at ha
  rw [applyExtension_eq _ _ _ _ hr.nd', ← find?_perm_of_nodup (fun t : TypeDef => t.name) hr.perm hr.nd ext.name] at hb
  cases hfind : a.rawTypeDefs.find? (fun t => t.name == ext.name) with
  | none =>
    simp only [hfind, Except.ok.injEq] at ha hb
    subst ha; subst hb
    exact ⟨⟨hr.perm, hr.nd, hr.mf⟩, _, rfl, rfl⟩
  | some orig =>
    simp only [hfind] at ha hb
    cases hstep : extStep file lines ext orig with
    | error p => simp only [hstep] at ha; cases ha
    | ok r =>
      obtain ⟨o', errs⟩ := r
      simp only [hstep, Except.ok.injEq] at ha hb
      subst ha; subst hb
      have hon : o'.name = ext.name := by
        rw [extStep_name file lines ext orig o' errs hstep]
        simpa using List.find?_some hfind
      refine ⟨⟨hr.perm.map _, ?_, hr.mf⟩, errs, rfl, rfl⟩
      show ((a.rawTypeDefs.map _).map _).Nodup
      rw [map_if_names ext.name o' hon]
      exact hr.nd

theorem applyExtensions_frame (file : String) (lines : List (List Char)) :
    ∀ (exts : List TypeDef) (st st' : MState), applyExtensions file lines exts st = .ok st' →
      st'.conditions = st.conditions ∧ st'.moduleFiles = st.moduleFiles ∧ st'.extended = st.extended
  | [], st, st', h => by
    simp only [applyExtensions, Except.ok.injEq] at h; subst h; exact ⟨rfl, rfl, rfl⟩
  | e :: rest, st, st', h => by
    simp only [applyExtensions] at h
    split at h
    · cases h
    · rename_i st1 h1
      obtain ⟨a1, a2, a3⟩ := applyExtension_frame file lines e st st1 h1
      obtain ⟨b1, b2, b3⟩ := applyExtensions_frame file lines rest st1 st' h
      exact ⟨b1.trans a1, b2.trans a2, b3.trans a3⟩

theorem applyExtensions_rel (file : String) (lines : List (List Char)) :
    ∀ (exts : List TypeDef) (a b a2 b2 : MState), StRel a b →
      applyExtensions file lines exts a = .ok a2 → applyExtensions file lines exts b = .ok b2 →
      StRel a2 b2 ∧ ∃ E, a2.errors = a.errors ++ E ∧ b2.errors = b.errors ++ E
  | [], a, b, a2, b2, hr, ha, hb => by
    simp only [applyExtensions, Except.ok.injEq] at ha hb
    subst ha; subst hb
    exact ⟨hr, [], by simp, by simp⟩
  | e :: rest, a, b, a2, b2, hr, ha, hb => by
    simp only [applyExtensions] at ha hb
    split at ha
    · cases ha
    · rename_i a1 ha1
      split at hb
      · cases hb
      · rename_i b1 hb1
        obtain ⟨hr1, E1, e1, e2⟩ := applyExtension_rel file lines e a b a1 b1 hr ha1 hb1
        obtain ⟨hr2, E2, f1, f2⟩ := applyExtensions_rel file lines rest a1 b1 a2 b2 hr1 ha hb
        exact ⟨hr2, E1 ++ E2, by rw [f1, e1, List.append_assoc], by rw [f2, e2, List.append_assoc]⟩

theorem applyAll_frame :
    ∀ (xs : List (String × List TypeDef)) (st st' : MState), applyAll xs st = .ok st' →
      st'.conditions = st.conditions ∧ st'.moduleFiles = st.moduleFiles ∧ st'.extended = st.extended
  | [], st, st', h => by
    simp only [applyAll, Except.ok.injEq] at h; subst h; exact ⟨rfl, rfl, rfl⟩
  | (file, exts) :: rest, st, st', h => by
    simp only [applyAll] at h
    split at h
    · cases h
    · rename_i st1 h1
      obtain ⟨a1, a2, a3⟩ := applyExtensions_frame file _ exts st st1 h1
      obtain ⟨b1, b2, b3⟩ := applyAll_frame rest st1 st' h
      exact ⟨b1.trans a1, b2.trans a2, b3.trans a3⟩

/-- **the second loop does not see the order of the base definitions**: run over the same extension
    table on two states that differ in that order only, it leaves states that differ in that order
    only, and appends the same errors -/
theorem applyAll_rel :
    ∀ (xs : List (String × List TypeDef)) (a b a2 b2 : MState), StRel a b →
      applyAll xs a = .ok a2 → applyAll xs b = .ok b2 →
      StRel a2 b2 ∧ ∃ E, a2.errors = a.errors ++ E ∧ b2.errors = b.errors ++ E
  | [], a, b, a2, b2, hr, ha, hb => by
    simp only [applyAll, Except.ok.injEq] at ha hb
    subst ha; subst hb
    exact ⟨hr, [], by simp, by simp⟩
  | (file, exts) :: rest, a, b, a2, b2, hr, ha, hb => by
    simp only [applyAll] at ha hb
    rw [← hr.mf] at hb
    split at ha
    · cases ha
    · rename_i a1 ha1
      split at hb
      · cases hb
      · rename_i b1 hb1
        obtain ⟨hr1, E1, e1, e2⟩ := applyExtensions_rel file _ exts a b a1 b1 hr ha1 hb1
        obtain ⟨hr2, E2, f1, f2⟩ := applyAll_rel rest a1 b1 a2 b2 hr1 ha hb
        exact ⟨hr2, E1 ++ E2, by rw [f1, e1, List.append_assoc], by rw [f2, e2, List.append_assoc]⟩


/-! ### the first loop: the tables it builds are functions of the set of files -/

theorem inj_of_nodup_map {α : Type} (g : α → String) : ∀ (l : List α), (l.map g).Nodup →
    ∀ a ∈ l, ∀ b ∈ l, g a = g b → a = b
  | [], _, a, ha, _, _, _ => by simp at ha
  | x :: rest, hnd, a, ha, b, hb, hab => by
    simp only [List.map_cons, List.nodup_cons] at hnd
    rcases List.mem_cons.1 ha with ha1 | ha1
    · rcases List.mem_cons.1 hb with hb1 | hb1
      · rw [ha1, hb1]
      · subst ha1
        exact absurd (hab ▸ List.mem_map.2 ⟨b, hb1, rfl⟩) hnd.1
    · rcases List.mem_cons.1 hb with hb1 | hb1
      · subst hb1
        exact absurd (hab ▸ List.mem_map.2 ⟨a, ha1, rfl⟩) hnd.1
      · exact inj_of_nodup_map g rest hnd.2 a ha1 b hb1 hab

theorem collect_moduleFiles_sorted :
    ∀ (fs : List FileIn) (st r : MState), collect fs st = .ok r → AList.SortedKeys st.moduleFiles →
      AList.SortedKeys r.moduleFiles
  | [], st, r, h, hs => by simp only [collect, Except.ok.injEq] at h; subst h; exact hs
  | f :: rest, st, r, h, hs => by
    simp only [collect] at h
    split at h
    · cases h
    · exact collect_moduleFiles_sorted rest _ r h (AList.sortedKeys_insert _ _ _ hs)
    · rename_i mdl exts hout
      refine collect_moduleFiles_sorted rest _ r h ?_
      obtain ⟨_, _, _, _, _, hmf2⟩ := collectConds_spec f.name (splitLines f.contents) mdl.conds
        (collectTypes f.name (splitLines f.contents) exts mdl.types 0
          { st with moduleFiles := AList.insert f.name (splitLines f.contents) st.moduleFiles }) _
        (fun x => AList.contains_eq_keys x _)
      obtain ⟨_, _, _, hmf1⟩ := collectTypes_spec f.name (splitLines f.contents) exts mdl.types 0
          { st with moduleFiles := AList.insert f.name (splitLines f.contents) st.moduleFiles }
      rw [hmf2, hmf1]
      exact AList.sortedKeys_insert _ _ _ hs

/-- with distinct file names the table of texts does not depend on the order of the files -/
theorem collect_moduleFiles_perm {fs fs' : List FileIn} (hp : fs.Perm fs') (hnd : (fs.map (·.name)).Nodup)
    (r r' : MState) (h : collect fs {} = .ok r) (h' : collect fs' {} = .ok r') :
    r.moduleFiles = r'.moduleFiles := by
  apply AList.ext_of_sorted _ _ (collect_moduleFiles_sorted fs {} r h (by simp [AList.SortedKeys]))
    (collect_moduleFiles_sorted fs' {} r' h' (by simp [AList.SortedKeys]))
  intro k
  rcases collect_moduleFiles k fs {} r h with ⟨g1, g2⟩ | ⟨f, hf, g1, g2⟩
  · rcases collect_moduleFiles k fs' {} r' h' with ⟨g1', _⟩ | ⟨f', hf', g1', _⟩
    · rw [g1, g1']
    · exact absurd g1' (g2 f' (hp.mem_iff.2 hf'))
  · rcases collect_moduleFiles k fs' {} r' h' with ⟨_, g2'⟩ | ⟨f', hf', g1', g2'⟩
    · exact absurd g1 (g2' f (hp.mem_iff.1 hf))
    · have : f = f' := inj_of_nodup_map (fun f : FileIn => f.name) fs hnd f hf f' (hp.mem_iff.2 hf') (g1.trans g1'.symm)
      subst this
      rw [g2, g2']

theorem collectTypes_extended_find (file : String) (lines : List (List Char)) (exts : Option (List (String × Nat))) :
    ∀ (tds : List TypeDef) (i : Nat) (st : MState),
      (∀ k, k ≠ file → AList.find? k (collectTypes file lines exts tds i st).extended = AList.find? k st.extended) ∧
      (extDefs exts tds i = [] → (collectTypes file lines exts tds i st).extended = st.extended) ∧
      (extDefs exts tds i ≠ [] → AList.find? file (collectTypes file lines exts tds i st).extended =
        some ((AList.find? file st.extended).getD [] ++ extDefs exts tds i))
  | [], i, st => by simp [collectTypes, extDefs]
  | td :: rest, i, st => by
    simp only [collectTypes, extDefs]
    by_cases hext : isExtensionAt exts td.name i = true
    · simp only [hext, Bool.not_true, Bool.and_false, Bool.false_eq_true, if_false, if_true]
      obtain ⟨g1, g2, g3⟩ := collectTypes_extended_find file lines exts rest (i + 1)
        { st with extended := AList.insert file ((AList.find? file st.extended).getD [] ++ [td]) st.extended }
      refine ⟨?_, ?_, ?_⟩
      · intro k hk
        rw [g1 k hk]
        exact AList.find?_insert_other file k (by simpa using hk) _ _
      · intro h; cases h
      · intro _
        by_cases hr : extDefs exts rest (i + 1) = []
        · rw [g2 hr, hr]; simp [AList.find?_insert_self]
        · rw [g3 hr]; simp [AList.find?_insert_self]
    · have hext' : isExtensionAt exts td.name i = false := by simpa using hext
      simp only [hext', Bool.not_false, Bool.and_true, Bool.false_eq_true, if_false]
      split
      · exact collectTypes_extended_find file lines exts rest (i + 1) _
      · split
        · exact collectTypes_extended_find file lines exts rest (i + 1) _
        · exact collectTypes_extended_find file lines exts rest (i + 1) _

/-- the entry of a file in the extension table: its `extend type` blocks, if it has any -/
def extEntry (f : FileIn) : Option (List TypeDef) :=
  if (fileExtDefs f).isEmpty then none else some (fileExtDefs f)

theorem collect_extended_find :
    ∀ (fs : List FileIn) (st r : MState), collect fs st = .ok r → (fs.map (·.name)).Nodup →
      (∀ f ∈ fs, AList.find? f.name st.extended = none) →
      ∀ k, AList.find? k r.extended =
        match fs.find? (fun f => f.name == k) with
        | some f => extEntry f
        | none => AList.find? k st.extended
  | [], st, r, h, _, _, k => by
    simp only [collect, Except.ok.injEq] at h; subst h; rfl
  | f :: rest, st, r, h, hnd, h0, k => by
    simp only [List.map_cons, List.nodup_cons] at hnd
    have key : ∀ (st1 : MState), (∀ k, k ≠ f.name → AList.find? k st1.extended = AList.find? k st.extended) →
        AList.find? f.name st1.extended = extEntry f → collect rest st1 = .ok r →
        AList.find? k r.extended =
          match (f :: rest).find? (fun f => f.name == k) with
          | some f => extEntry f
          | none => AList.find? k st.extended := by
      intro st1 hA hB h1
      have hne : ∀ g ∈ rest, g.name ≠ f.name := fun g hg e => hnd.1 (e ▸ List.mem_map.2 ⟨g, hg, rfl⟩)
      have ih := collect_extended_find rest st1 r h1 hnd.2
        (fun g hg => by rw [hA g.name (hne g hg)]; exact h0 g (List.mem_cons_of_mem _ hg)) k
      simp only [List.find?_cons]
      by_cases hk : (f.name == k) = true
      · have hk' : f.name = k := by simpa using hk
        subst hk'
        have hnone : rest.find? (fun g => g.name == f.name) = none := by
          rw [List.find?_eq_none]
          intro g hg
          simpa using hne g hg
        rw [ih, hnone]
        simp only [hk]
        exact hB
      · have hk' : (f.name == k) = false := by simpa using hk
        simp only [hk']
        rw [ih]
        cases rest.find? (fun g => g.name == k) with
        | some g => rfl
        | none => exact hA k (fun e => hk (by simp [e]))
    simp only [collect] at h
    split at h
    · cases h
    · rename_i es hout
      refine key _ ?_ ?_ h
      · intro _ _; rfl
      show AList.find? f.name st.extended = extEntry f
      rw [h0 f (by simp)]
      simp [extEntry, fileExtDefs, hout]
    · rename_i mdl exts hout
      obtain ⟨_, _, _, _, hext2, _⟩ := collectConds_spec f.name (splitLines f.contents) mdl.conds
        (collectTypes f.name (splitLines f.contents) exts mdl.types 0
          { st with moduleFiles := AList.insert f.name (splitLines f.contents) st.moduleFiles }) _
        (fun x => AList.contains_eq_keys x _)
      obtain ⟨g1, g2, g3⟩ := collectTypes_extended_find f.name (splitLines f.contents) exts mdl.types 0
          { st with moduleFiles := AList.insert f.name (splitLines f.contents) st.moduleFiles }
      refine key _ ?_ ?_ h
      · intro k hk; rw [hext2]; exact g1 k hk
      · rw [hext2]
        simp only [extEntry, fileExtDefs, hout]
        by_cases hr : extDefs exts mdl.types 0 = []
        · rw [g2 hr, hr]; simpa using h0 f (by simp)
        · rw [g3 hr]
          have : (extDefs exts mdl.types 0).isEmpty = false := by simpa using hr
          simp [this, h0 f (by simp)]

/-- with distinct file names the extension table does not depend on the order of the files -/
theorem collect_extended_perm {fs fs' : List FileIn} (hp : fs.Perm fs') (hnd : (fs.map (·.name)).Nodup)
    (r r' : MState) (h : collect fs {} = .ok r) (h' : collect fs' {} = .ok r') :
    r.extended = r'.extended := by
  apply AList.ext_of_sorted _ _ (collect_state fs {} r h (by simp [AList.SortedKeys])).1
    (collect_state fs' {} r' h' (by simp [AList.SortedKeys])).1
  intro k
  rw [collect_extended_find fs {} r h hnd (fun _ _ => rfl) k,
    collect_extended_find fs' {} r' h' (((hp.map _).nodup_iff).1 hnd) (fun _ _ => rfl) k,
    find?_perm_of_nodup (fun f : FileIn => f.name) hp hnd k]


theorem collectConds_sorted (file : String) (lines : List (List Char)) :
    ∀ (cs : List (String × Condition)) (st : MState), AList.SortedKeys st.conditions →
      AList.SortedKeys (collectConds file lines cs st).conditions
  | [], st, h => h
  | (name, c) :: rest, st, h => by
    simp only [collectConds]
    split
    · exact collectConds_sorted file lines rest _ h
    · split
      · exact collectConds_sorted file lines rest _ h
      · exact collectConds_sorted file lines rest _ (AList.sortedKeys_insert _ _ _ h)

theorem collect_conds_sorted :
    ∀ (fs : List FileIn) (st r : MState), collect fs st = .ok r → AList.SortedKeys st.conditions →
      AList.SortedKeys r.conditions
  | [], st, r, h, hs => by simp only [collect, Except.ok.injEq] at h; subst h; exact hs
  | f :: rest, st, r, h, hs => by
    simp only [collect] at h
    split at h
    · cases h
    · exact collect_conds_sorted rest _ r h hs
    · rename_i mdl exts hout
      refine collect_conds_sorted rest _ r h (collectConds_sorted _ _ _ _ ?_)
      obtain ⟨_, _, hc, _⟩ := collectTypes_spec f.name (splitLines f.contents) exts mdl.types 0
          { st with moduleFiles := AList.insert f.name (splitLines f.contents) st.moduleFiles }
      rw [hc]; exact hs

theorem find?_cond_none (k : String) (cs : List (String × Condition)) (h : k ∉ cs.map (·.1)) :
    cs.find? (fun kv => kv.1 == k) = none := by
  rw [List.find?_eq_none]
  intro kv hkv
  have : kv.1 ≠ k := fun e => h (List.mem_map.2 ⟨kv, hkv, e⟩)
  simpa using this

theorem find?_cond_some_mem (k : String) (cs : List (String × Condition)) (kv : String × Condition)
    (h : cs.find? (fun kv => kv.1 == k) = some kv) : k ∈ cs.map (·.1) :=
  List.mem_map.2 ⟨kv, List.mem_of_find?_eq_some h, by simpa using List.find?_some h⟩

/-- when no condition is declared twice, the declaration found for a name does not depend on the
    order of the files -/
theorem declaredCond_perm {fs fs' : List FileIn} (hp : fs.Perm fs') (hnd : (fs.flatMap fileCondNames).Nodup)
    (k : String) : declaredCond fs k = declaredCond fs' k := by
  induction hp with
  | nil => rfl
  | cons x _ ih =>
    simp only [List.flatMap_cons, List.nodup_append] at hnd
    simp only [declaredCond]
    cases x.outcome with
    | ok m e =>
      simp only
      cases m.conds.find? (fun kv => kv.1 == k) with
      | some kv => rfl
      | none => exact ih hnd.2.1
    | errors es => exact ih hnd.2.1
    | panic p => exact ih hnd.2.1
  | swap x y l =>
    simp only [List.flatMap_cons, List.nodup_append, List.mem_append] at hnd
    simp only [declaredCond]
    cases hx : x.outcome with
    | ok mx ex =>
      cases hy : y.outcome with
      | ok my ey =>
        simp only
        cases hfx : mx.conds.find? (fun kv => kv.1 == k) with
        | some kvx =>
          cases hfy : my.conds.find? (fun kv => kv.1 == k) with
          | some kvy =>
            exfalso
            have h1 : k ∈ fileCondNames x := by
              simp only [fileCondNames, hx]; exact find?_cond_some_mem k _ _ hfx
            have h2 : k ∈ fileCondNames y := by
              simp only [fileCondNames, hy]; exact find?_cond_some_mem k _ _ hfy
            exact hnd.2.2 k h2 k (Or.inl h1) rfl
          | none => rfl
        | none => rfl
      | errors es => rfl
      | panic p => rfl
    | errors es => cases y.outcome <;> rfl
    | panic p => cases y.outcome <;> rfl
  | trans p1 _ ih1 ih2 =>
    rw [ih1 hnd]
    exact ih2 ((p1.flatMap_right _).nodup_iff.1 hnd)

/-! ### the merge, taken apart -/

theorem merge_ok_states (fs : List FileIn) (v : String) (m : Model) (h : merge fs v = .ok m) :
    ∃ st st2, collect fs {} = .ok st ∧ applyAll st.extended st = .ok st2 ∧ st2.errors = [] ∧
      m = { schema := v, types := st2.rawTypeDefs, conds := st2.conditions } := by
  unfold merge at h
  split at h
  · cases h
  · rename_i st hcol
    split at h
    · cases h
    · rename_i st2 happ
      split at h
      · rename_i hemp
        simp only [MergeOutcome.ok.injEq] at h
        exact ⟨st, st2, hcol, happ, by simpa using hemp, h.symm⟩
      · cases h

theorem merge_errors_states (fs : List FileIn) (v : String) (es : List MergeErr) (h : merge fs v = .errors es) :
    ∃ st st2, collect fs {} = .ok st ∧ applyAll st.extended st = .ok st2 ∧ es = st2.errors := by
  unfold merge at h
  split at h
  · cases h
  · rename_i st hcol
    split at h
    · cases h
    · rename_i st2 happ
      split at h
      · cases h
      · simp only [MergeOutcome.errors.injEq] at h
        exact ⟨st, st2, hcol, happ, h.symm⟩


/-! ### the first loop when nothing is declared twice -/

def notModuleErr (file : String) : MergeErr := .mod "file is not a module" file {}

theorem collectTypes_nodup (file : String) (lines : List (List Char)) (exts : Option (List (String × Nat))) :
    ∀ (tds : List TypeDef) (i : Nat) (st : MState),
      (∀ n ∈ (baseDefs exts tds i).map (·.name), n ∉ st.types) → ((baseDefs exts tds i).map (·.name)).Nodup →
      (collectTypes file lines exts tds i st).types = st.types ++ (baseDefs exts tds i).map (·.name) ∧
      (collectTypes file lines exts tds i st).rawTypeDefs =
        st.rawTypeDefs ++ ((baseDefs exts tds i).filter (fun td => modName td != "")).map (fun td => setTypeFile td file) ∧
      (collectTypes file lines exts tds i st).errors =
        st.errors ++ ((baseDefs exts tds i).filter (fun td => modName td == "")).map (fun _ => notModuleErr file)
  | [], i, st, _, _ => by simp [collectTypes, baseDefs]
  | td :: rest, i, st, hun, hnd => by
    simp only [baseDefs] at hun hnd
    simp only [collectTypes, baseDefs]
    by_cases hext : isExtensionAt exts td.name i = true
    · simp only [hext, if_true] at hun hnd
      simp only [hext, Bool.not_true, Bool.and_false, Bool.false_eq_true, if_false, if_true]
      exact collectTypes_nodup file lines exts rest (i + 1) _ hun hnd
    · have hext' : isExtensionAt exts td.name i = false := by simpa using hext
      simp only [hext', Bool.false_eq_true, if_false, List.map_cons, List.nodup_cons, List.mem_cons,
        forall_eq_or_imp] at hun hnd
      have hc : st.types.contains td.name = false := by simpa using hun.1
      simp only [hext', hc, Bool.not_false, Bool.and_true, Bool.false_eq_true, if_false]
      have hun' : ∀ n ∈ (baseDefs exts rest (i + 1)).map (·.name), n ∉ st.types ++ [td.name] := by
        intro n hn hm
        rcases List.mem_append.1 hm with hm | hm
        · exact hun.2 n hn hm
        · simp only [List.mem_singleton] at hm; subst hm; exact hnd.1 hn
      by_cases hm : modName td = ""
      · have hm' : (modName td != "") = false := by simp [hm]
        simp only [hm', Bool.false_eq_true, if_false]
        obtain ⟨a, b, c⟩ := collectTypes_nodup file lines exts rest (i + 1)
          { st with types := st.types ++ [td.name], errors := st.errors ++ [.mod "file is not a module" file {}] } hun' hnd.2
        refine ⟨by rw [a]; simp, by rw [b]; simp [hm], by rw [c]; simp [hm, notModuleErr]⟩
      · have hm' : (modName td != "") = true := by simp [hm]
        simp only [hm', if_true]
        obtain ⟨a, b, c⟩ := collectTypes_nodup file lines exts rest (i + 1)
          { st with types := st.types ++ [td.name], rawTypeDefs := st.rawTypeDefs ++ [setTypeFile td file] } hun' hnd.2
        refine ⟨by rw [a]; simp, by rw [b]; simp [hm], by rw [c]; simp [hm]⟩

theorem collectConds_nodup (file : String) (lines : List (List Char)) :
    ∀ (cs : List (String × Condition)) (st : MState),
      (∀ n ∈ cs.map (·.1), AList.contains n st.conditions = false) → (cs.map (·.1)).Nodup →
      (collectConds file lines cs st).errors =
        st.errors ++ (cs.filter (fun kv => kv.2.md.isNone)).map (fun _ => notModuleErr file)
  | [], st, _, _ => by simp [collectConds]
  | (name, c) :: rest, st, hun, hnd => by
    simp only [List.map_cons, List.nodup_cons, List.mem_cons, forall_eq_or_imp] at hun hnd
    simp only [collectConds, hun.1, Bool.false_eq_true, if_false]
    cases hmd : c.md with
    | none =>
      simp only
      rw [collectConds_nodup file lines rest
        { st with errors := st.errors ++ [.mod "file is not a module" file {}] } hun.2 hnd.2]
      simp [hmd, notModuleErr]
    | some m =>
      simp only
      rw [collectConds_nodup file lines rest
        { st with conditions := AList.insert name { c with md := some { m with file := file } } st.conditions } ?_ hnd.2]
      · simp [hmd]
      · intro n hn
        show AList.contains n (AList.insert name { c with md := some { m with file := file } } st.conditions) = false
        rw [AList.contains_insert, hun.2 n hn]
        have : n ≠ name := fun e => hnd.1 (e ▸ hn)
        simpa using this

/-- the base definitions of a file that the first loop registers -/
def fileRawM (f : FileIn) : List TypeDef :=
  ((fileBaseDefs f).filter (fun td => modName td != "")).map (fun td => setTypeFile td f.name)

/-- the errors the first loop raises on a file when nothing is declared twice -/
def fileErrs1 (f : FileIn) : List MergeErr :=
  match f.outcome with
  | .errors es => es.map .syn
  | .ok mdl exts =>
    ((baseDefs exts mdl.types 0).filter (fun td => modName td == "")).map (fun _ => notModuleErr f.name) ++
      (mdl.conds.filter (fun kv => kv.2.md.isNone)).map (fun _ => notModuleErr f.name)
  | .panic _ => []

theorem collect_nodup :
    ∀ (fs : List FileIn) (st r : MState), collect fs st = .ok r →
      (∀ n ∈ fs.flatMap fileBaseNames, n ∉ st.types) → (fs.flatMap fileBaseNames).Nodup →
      (∀ n ∈ fs.flatMap fileCondNames, AList.contains n st.conditions = false) → (fs.flatMap fileCondNames).Nodup →
      r.rawTypeDefs = st.rawTypeDefs ++ fs.flatMap fileRawM ∧ r.errors = st.errors ++ fs.flatMap fileErrs1
  | [], st, r, h, _, _, _, _ => by
    simp only [collect, Except.ok.injEq] at h; subst h; simp
  | f :: rest, st, r, h, htu, htn, hcu, hcn => by
    simp only [List.flatMap_cons, List.mem_append, List.nodup_append] at htu htn hcu hcn
    simp only [collect] at h
    split at h
    · cases h
    · rename_i es hout
      obtain ⟨a, b⟩ := collect_nodup rest _ r h (fun n hn => htu n (Or.inr hn)) htn.2.1
        (fun n hn => hcu n (Or.inr hn)) hcn.2.1
      refine ⟨?_, ?_⟩
      · rw [a]; simp [fileRawM, fileBaseDefs, hout]
      · rw [b]; simp [fileErrs1, hout]
    · rename_i mdl exts hout
      have hbn : fileBaseNames f = (baseDefs exts mdl.types 0).map (·.name) := by simp [fileBaseNames, hout]
      have hcnm : fileCondNames f = mdl.conds.map (·.1) := by simp [fileCondNames, hout]
      rw [hbn] at htu htn
      rw [hcnm] at hcu hcn
      obtain ⟨t1, t2, t3⟩ := collectTypes_nodup f.name (splitLines f.contents) exts mdl.types 0
        { st with moduleFiles := AList.insert f.name (splitLines f.contents) st.moduleFiles }
        (fun n hn => htu n (Or.inl hn)) htn.1
      obtain ⟨_, _, hcond1, _⟩ := collectTypes_spec f.name (splitLines f.contents) exts mdl.types 0
        { st with moduleFiles := AList.insert f.name (splitLines f.contents) st.moduleFiles }
      obtain ⟨_, _, hty2, hraw2, _, _⟩ := collectConds_spec f.name (splitLines f.contents) mdl.conds
        (collectTypes f.name (splitLines f.contents) exts mdl.types 0
          { st with moduleFiles := AList.insert f.name (splitLines f.contents) st.moduleFiles }) _
        (fun x => AList.contains_eq_keys x _)
      have c1 := collectConds_nodup f.name (splitLines f.contents) mdl.conds
        (collectTypes f.name (splitLines f.contents) exts mdl.types 0
          { st with moduleFiles := AList.insert f.name (splitLines f.contents) st.moduleFiles })
        (fun n hn => by rw [hcond1]; exact hcu n (Or.inl hn)) hcn.1
      refine (fun (ab : _ ∧ _) => ?_) (collect_nodup rest _ r h ?_ htn.2.1 ?_ hcn.2.1)
      · obtain ⟨a, b⟩ := ab
        refine ⟨?_, ?_⟩
        · rw [a, hraw2, t2]; simp [fileRawM, fileBaseDefs, hout]
        · rw [b, c1, t3]; simp [fileErrs1, hout]
      · intro n hn
        rw [hty2, t1]
        intro hm
        rcases List.mem_append.1 hm with hm | hm
        · exact htu n (Or.inr hn) hm
        · exact htn.2.2 n hm n hn rfl
      · intro n hn
        cases hc : AList.contains n (collectConds f.name (splitLines f.contents) mdl.conds
            (collectTypes f.name (splitLines f.contents) exts mdl.types 0
              { st with moduleFiles := AList.insert f.name (splitLines f.contents) st.moduleFiles })).conditions with
        | false => rfl
        | true =>
          exfalso
          rcases collectConds_conds f.name (splitLines f.contents) n mdl.conds _ hc with h1 | h1
          · rw [hcond1] at h1
            have := hcu n (Or.inr hn)
            simp only at h1
            rw [this] at h1; cases h1
          · exact hcn.2.2 n h1 n hn rfl

theorem flatMap_sublist {α β : Type} (g h : α → List β) : ∀ (l : List α), (∀ x ∈ l, (g x).Sublist (h x)) →
    (l.flatMap g).Sublist (l.flatMap h)
  | [], _ => by simp
  | x :: rest, hs => by
    simp only [List.flatMap_cons]
    exact List.Sublist.append (hs x (by simp)) (flatMap_sublist g h rest (fun y hy => hs y (by simp [hy])))

theorem names_rawM_nodup (fs : List FileIn) (h : (fs.flatMap fileBaseNames).Nodup) :
    ((fs.flatMap fileRawM).map (·.name)).Nodup := by
  rw [List.map_flatMap]
  refine List.Nodup.sublist (flatMap_sublist _ fileBaseNames fs ?_) h
  intro f _
  rw [fileBaseNames_eq]
  unfold fileRawM
  rw [List.map_map]
  have : ((fun t : TypeDef => t.name) ∘ fun td => setTypeFile td f.name) = fun t : TypeDef => t.name := by
    funext td; simp [Function.comp, stf_name]
  rw [this]
  exact List.Sublist.map _ List.filter_sublist

end FgaVerif.Model.Merge

namespace FgaVerif.Props.C07
open FgaVerif.Model FgaVerif.Model.Listener FgaVerif.Model.Merge

/-- **on success a permutation of the files changes nothing but the order of the type definitions**
    (files with pairwise distinct names): the type definitions of the two results — whole `TypeDef`
    values: name, relations with their rewrites in their order, metadata with module, file and the
    metadata of every relation — are the same up to order, the condition maps are equal and so is the
    schema version -/
theorem merge_result_perm {fs fs' : List FileIn} (v : String) (hp : fs.Perm fs') (wf : FilesWF fs)
    (hnames : (fs.map (·.name)).Nodup) (m m' : Model) (h : merge fs v = .ok m) (h' : merge fs' v = .ok m') :
    m.types.Perm m'.types ∧ m.conds = m'.conds ∧ m.schema = m'.schema := by
  have wf' := filesWF_perm hp wf
  have hcf := (merge_ok_iff_conflict_free fs v wf).1 ⟨m, h⟩
  have hcf' := conflict_free_order_independent hp hcf
  have hclean : filesClean fs [] [] = true :=
    (filesClean_iff fs [] []).2 ⟨hcf.modules, by simp, hcf.types, by simp, hcf.conds⟩
  have hclean' : filesClean fs' [] [] = true :=
    (filesClean_iff fs' [] []).2 ⟨hcf'.modules, by simp, hcf'.types, by simp, hcf'.conds⟩
  obtain ⟨st, st2, hcol, happ, _, hm⟩ := merge_ok_states fs v m h
  obtain ⟨st', st2', hcol', happ', _, hm'⟩ := merge_ok_states fs' v m' h'
  have hraw : st.rawTypeDefs = fs.flatMap fileRaw := by
    simpa using (collect_raw fs {} st [] (fun x => by simp [AList.contains, AList.find?]) hcol hclean).1
  have hraw' : st'.rawTypeDefs = fs'.flatMap fileRaw := by
    simpa using (collect_raw fs' {} st' [] (fun x => by simp [AList.contains, AList.find?]) hcol' hclean').1
  have hrel : StRel st st' := by
    refine ⟨?_, ?_, collect_moduleFiles_perm hp hnames st st' hcol hcol'⟩
    · rw [hraw, hraw']; exact hp.flatMap_right _
    · rw [hraw, names_raw]; exact hcf.types
  rw [← collect_extended_perm hp hnames st st' hcol hcol'] at happ'
  obtain ⟨hrel2, _⟩ := applyAll_rel st.extended st st' st2 st2' hrel happ happ'
  refine ⟨?_, ?_, ?_⟩
  · rw [hm, hm']; exact hrel2.perm
  · have hs : AList.SortedKeys m.conds := by
      rw [hm]; show AList.SortedKeys st2.conditions
      rw [(applyAll_frame _ _ _ happ).1]
      exact collect_conds_sorted fs {} st hcol (by simp [AList.SortedKeys])
    have hs' : AList.SortedKeys m'.conds := by
      rw [hm']; show AList.SortedKeys st2'.conditions
      rw [(applyAll_frame _ _ _ happ').1]
      exact collect_conds_sorted fs' {} st' hcol' (by simp [AList.SortedKeys])
    apply AList.ext_of_sorted _ _ hs hs'
    intro k
    rw [merge_conserves_conditions fs v wf m h k, merge_conserves_conditions fs' v wf' m' h' k]
    exact declaredCond_perm hp hcf.conds k
  · rw [merge_schema fs v m h, merge_schema fs' v m' h']


/-- the condition map of a successful merge does not depend on the order of the files (no hypothesis
    on the file names) -/
theorem merge_conds_perm {fs fs' : List FileIn} (v : String) (hp : fs.Perm fs') (wf : FilesWF fs)
    (m m' : Model) (h : merge fs v = .ok m) (h' : merge fs' v = .ok m') : m.conds = m'.conds := by
  have wf' := filesWF_perm hp wf
  have hcf := (merge_ok_iff_conflict_free fs v wf).1 ⟨m, h⟩
  obtain ⟨st, st2, hcol, happ, _, hm⟩ := merge_ok_states fs v m h
  obtain ⟨st', st2', hcol', happ', _, hm'⟩ := merge_ok_states fs' v m' h'
  have hs : AList.SortedKeys m.conds := by
    rw [hm]; show AList.SortedKeys st2.conditions
    rw [(applyAll_frame _ _ _ happ).1]
    exact collect_conds_sorted fs {} st hcol (by simp [AList.SortedKeys])
  have hs' : AList.SortedKeys m'.conds := by
    rw [hm']; show AList.SortedKeys st2'.conditions
    rw [(applyAll_frame _ _ _ happ').1]
    exact collect_conds_sorted fs' {} st' hcol' (by simp [AList.SortedKeys])
  apply AList.ext_of_sorted _ _ hs hs'
  intro k
  rw [merge_conserves_conditions fs v wf m h k, merge_conserves_conditions fs' v wf' m' h' k]
  exact declaredCond_perm hp hcf.conds k

/-- **when nothing is declared twice, the error list of a permuted input is a permutation of the
    original one** (files with pairwise distinct names, no type defined twice, no condition declared
    twice — so the errors are syntax errors, "file is not a module", "extended type … does not exist"
    and "relation … already exists on type …"): the errors of the first loop are the same up to order,
    those of the second loop are the same list.  No well-formedness hypothesis is needed. -/
theorem merge_errors_perm {fs fs' : List FileIn} (v : String) (hp : fs.Perm fs')
    (hnames : (fs.map (·.name)).Nodup) (htypes : (fs.flatMap fileBaseNames).Nodup)
    (hconds : (fs.flatMap fileCondNames).Nodup) (es es' : List MergeErr)
    (h : merge fs v = .errors es) (h' : merge fs' v = .errors es') :
    es.Perm es' ∧
    ∃ E2, es = fs.flatMap fileErrs1 ++ E2 ∧ es' = fs'.flatMap fileErrs1 ++ E2 := by
  obtain ⟨st, st2, hcol, happ, hes⟩ := merge_errors_states fs v es h
  obtain ⟨st', st2', hcol', happ', hes'⟩ := merge_errors_states fs' v es' h'
  have htypes' := ((hp.flatMap_right fileBaseNames).nodup_iff).1 htypes
  have hconds' := ((hp.flatMap_right fileCondNames).nodup_iff).1 hconds
  obtain ⟨a, b⟩ := collect_nodup fs {} st hcol (fun _ _ hm => by simp at hm) htypes
    (fun _ _ => by simp [AList.contains, AList.find?]) hconds
  obtain ⟨a', b'⟩ := collect_nodup fs' {} st' hcol' (fun _ _ hm => by simp at hm) htypes'
    (fun _ _ => by simp [AList.contains, AList.find?]) hconds'
  simp only [List.nil_append] at a b a' b'
  have hrel : StRel st st' := by
    refine ⟨?_, ?_, collect_moduleFiles_perm hp hnames st st' hcol hcol'⟩
    · rw [a, a']; exact hp.flatMap_right _
    · rw [a]; exact names_rawM_nodup fs htypes
  rw [← collect_extended_perm hp hnames st st' hcol hcol'] at happ'
  obtain ⟨_, E2, e1, e2⟩ := applyAll_rel st.extended st st' st2 st2' hrel happ happ'
  rw [b] at e1
  rw [b'] at e2
  refine ⟨?_, E2, by rw [hes, e1], by rw [hes', e2]⟩
  rw [hes, hes', e1, e2]
  exact List.Perm.append_right _ (hp.flatMap_right _)

end FgaVerif.Props.C07
