import FgaVerif.Model.Merge
import FgaVerif.Proofs.AList
/-! Lemmas about the module merger (`Model/Merge.lean`): the error list only grows, and the first
    loop (collecting base types and conditions) leaves it unchanged exactly when the collected
    declarations are conflict-free. -/
namespace FgaVerif.Model.Merge
open FgaVerif.Model FgaVerif.Model.Listener

/-- the base (non-extension) definitions among `tds`, whose indices start at `i` -/
def baseDefs (exts : Option (List (String × Nat))) : List TypeDef → Nat → List TypeDef
  | [], _ => []
  | td :: rest, i =>
    if isExtensionAt exts td.name i then baseDefs exts rest (i + 1) else td :: baseDefs exts rest (i + 1)

/-- the `extend type` definitions among `tds` -/
def extDefs (exts : Option (List (String × Nat))) : List TypeDef → Nat → List TypeDef
  | [], _ => []
  | td :: rest, i =>
    if isExtensionAt exts td.name i then td :: extDefs exts rest (i + 1) else extDefs exts rest (i + 1)

/-- the first loop raises no error on these definitions, given the type names seen so far -/
def typesClean (exts : Option (List (String × Nat))) : List TypeDef → Nat → List String → Bool
  | [], _, _ => true
  | td :: rest, i, seen =>
    if isExtensionAt exts td.name i then typesClean exts rest (i + 1) seen
    else !seen.contains td.name && modName td != "" && typesClean exts rest (i + 1) (seen ++ [td.name])

theorem collectTypes_spec (file : String) (lines : List (List Char)) (exts : Option (List (String × Nat))) :
    ∀ (tds : List TypeDef) (i : Nat) (st : MState),
      (∃ E, (collectTypes file lines exts tds i st).errors = st.errors ++ E ∧
            (E = [] ↔ typesClean exts tds i st.types = true)) ∧
      (typesClean exts tds i st.types = true →
        (collectTypes file lines exts tds i st).types = st.types ++ (baseDefs exts tds i).map (·.name) ∧
        (collectTypes file lines exts tds i st).rawTypeDefs =
          st.rawTypeDefs ++ (baseDefs exts tds i).map (fun td => setTypeFile td file)) ∧
      (collectTypes file lines exts tds i st).conditions = st.conditions ∧
      (collectTypes file lines exts tds i st).moduleFiles = st.moduleFiles
  | [], i, st => by
    simp [collectTypes, typesClean, baseDefs]
  | td :: rest, i, st => by
    simp only [collectTypes, typesClean, baseDefs]
    by_cases hext : isExtensionAt exts td.name i = true
    · simp only [hext, Bool.not_true, Bool.and_false, Bool.false_eq_true, if_false, if_true]
      have ih := collectTypes_spec file lines exts rest (i + 1)
        { st with extended := AList.insert file ((AList.find? file st.extended).getD [] ++ [td]) st.extended }
      exact ih
    · have hext' : isExtensionAt exts td.name i = false := by simpa using hext
      simp only [hext', Bool.not_false, Bool.and_true, Bool.false_eq_true, if_false]
      by_cases hc : st.types.contains td.name = true
      · simp only [hc, if_true, Bool.not_true, Bool.false_and]
        have ih := collectTypes_spec file lines exts rest (i + 1)
          { st with errors := st.errors ++ [.mod ("duplicate type definition " ++ td.name) file
              (constructLineAndColumnData lines (lineWithPrefix ("type " ++ td.name) lines) td.name)] }
        obtain ⟨⟨E, hE, _⟩, _, h3, h4⟩ := ih
        refine ⟨⟨(.mod ("duplicate type definition " ++ td.name) file
              (constructLineAndColumnData lines (lineWithPrefix ("type " ++ td.name) lines) td.name)) :: E, ?_, by simp⟩, by simp, h3, h4⟩
        rw [hE]; simp
      · have hc' : st.types.contains td.name = false := by simpa using hc
        simp only [hc', Bool.false_eq_true, if_false, Bool.not_false, Bool.true_and]
        by_cases hm : modName td = ""
        · have hm' : (modName td != "") = false := by simp [hm]
          simp only [hm', Bool.false_eq_true, if_false, Bool.false_and]
          have ih := collectTypes_spec file lines exts rest (i + 1)
            { st with types := st.types ++ [td.name], errors := st.errors ++ [.mod "file is not a module" file {}] }
          obtain ⟨⟨E, hE, _⟩, _, h3, h4⟩ := ih
          refine ⟨⟨(.mod "file is not a module" file {}) :: E, ?_, by simp⟩, by simp, h3, h4⟩
          rw [hE]; simp
        · have hm' : (modName td != "") = true := by simp [hm]
          simp only [hm', if_true, Bool.true_and]
          have ih := collectTypes_spec file lines exts rest (i + 1)
            { st with types := st.types ++ [td.name], rawTypeDefs := st.rawTypeDefs ++ [setTypeFile td file] }
          obtain ⟨h1, h2, h3, h4⟩ := ih
          refine ⟨h1, ?_, h3, h4⟩
          intro hcl
          obtain ⟨a, b⟩ := h2 hcl
          exact ⟨by rw [a]; simp, by rw [b]; simp⟩


/-! ### conditions -/

def condsClean : List (String × Condition) → List String → Bool
  | [], _ => true
  | (name, c) :: rest, seen => !seen.contains name && c.md.isSome && condsClean rest (seen ++ [name])

theorem collectConds_spec (file : String) (lines : List (List Char)) :
    ∀ (cs : List (String × Condition)) (st : MState) (seen : List String),
      (∀ x, AList.contains x st.conditions = seen.contains x) →
      (∃ E, (collectConds file lines cs st).errors = st.errors ++ E ∧ (E = [] ↔ condsClean cs seen = true)) ∧
      (condsClean cs seen = true →
        ∀ x, AList.contains x (collectConds file lines cs st).conditions = (seen ++ cs.map (·.1)).contains x) ∧
      (collectConds file lines cs st).types = st.types ∧
      (collectConds file lines cs st).rawTypeDefs = st.rawTypeDefs ∧
      (collectConds file lines cs st).extended = st.extended ∧
      (collectConds file lines cs st).moduleFiles = st.moduleFiles
  | [], st, seen, hs => by simp [collectConds, condsClean, hs]
  | (name, c) :: rest, st, seen, hs => by
    simp only [collectConds, condsClean]
    by_cases hc : AList.contains name st.conditions = true
    · have hc2 : seen.contains name = true := by rw [← hs]; exact hc
      simp only [hc, if_true, hc2, Bool.not_true, Bool.false_and]
      obtain ⟨⟨E, hE, _⟩, _, h3, h4, h5, h6⟩ := collectConds_spec file lines rest
        { st with errors := st.errors ++ [.mod ("duplicate condition " ++ name) file
            (constructLineAndColumnData lines (lineWithPrefix ("condition " ++ name) lines) name)] } seen hs
      refine ⟨⟨(.mod ("duplicate condition " ++ name) file
            (constructLineAndColumnData lines (lineWithPrefix ("condition " ++ name) lines) name)) :: E, ?_, by simp⟩,
          by simp, h3, h4, h5, h6⟩
      rw [hE]; simp
    · have hc' : AList.contains name st.conditions = false := by simpa using hc
      have hc2 : seen.contains name = false := by rw [← hs]; exact hc'
      simp only [hc', Bool.false_eq_true, if_false, hc2, Bool.not_false, Bool.true_and]
      cases hmd : c.md with
      | none =>
        simp only [Option.isSome_none, Bool.false_and]
        obtain ⟨⟨E, hE, _⟩, _, h3, h4, h5, h6⟩ := collectConds_spec file lines rest
          { st with errors := st.errors ++ [.mod "file is not a module" file {}] } seen hs
        refine ⟨⟨(.mod "file is not a module" file {}) :: E, ?_, by simp⟩, by simp, h3, h4, h5, h6⟩
        rw [hE]; simp
      | some m =>
        simp only [Option.isSome_some, Bool.true_and]
        have hs' : ∀ x, AList.contains x (AList.insert name { c with md := some { m with file := file } } st.conditions) =
            (seen ++ [name]).contains x := by
          intro x
          rw [AList.contains_insert, hs x]
          by_cases hx : x = name <;> simp [hx]
        obtain ⟨h1, h2, h3, h4, h5, h6⟩ := collectConds_spec file lines rest
          { st with conditions := AList.insert name { c with md := some { m with file := file } } st.conditions } (seen ++ [name]) hs'
        refine ⟨h1, ?_, h3, h4, h5, h6⟩
        intro hcl x
        rw [h2 hcl x]
        simp

/-! ### the first loop over all files -/

def filesClean : List FileIn → List String → List String → Bool
  | [], _, _ => true
  | f :: rest, ts, cs =>
    match f.outcome with
    | .panic _ => false
    | .errors es => es.isEmpty && filesClean rest ts cs
    | .ok mdl exts =>
      typesClean exts mdl.types 0 ts && condsClean mdl.conds cs &&
        filesClean rest (ts ++ (baseDefs exts mdl.types 0).map (·.name)) (cs ++ mdl.conds.map (·.1))

theorem collect_spec :
    ∀ (fs : List FileIn) (st r : MState) (seen : List String),
      (∀ x, AList.contains x st.conditions = seen.contains x) →
      collect fs st = .ok r →
      ∃ E, r.errors = st.errors ++ E ∧ (E = [] ↔ filesClean fs st.types seen = true)
  | [], st, r, seen, _, h => by
    simp only [collect, Except.ok.injEq] at h
    subst h
    exact ⟨[], by simp, by simp [filesClean]⟩
  | f :: rest, st, r, seen, hs, h => by
    simp only [collect] at h
    simp only [filesClean]
    split at h
    · cases h
    · rename_i es hout
      rw [hout]
      obtain ⟨E, hE, hcl⟩ := collect_spec rest
        { st with moduleFiles := AList.insert f.name (splitLines f.contents) st.moduleFiles,
                  errors := st.errors ++ es.map .syn } r seen hs h
      refine ⟨es.map .syn ++ E, by rw [hE]; simp, ?_⟩
      simp only [List.append_eq_nil_iff, List.map_eq_nil_iff, Bool.and_eq_true, List.isEmpty_iff]
      constructor
      · rintro ⟨a, b⟩; exact ⟨a, hcl.1 b⟩
      · rintro ⟨a, b⟩; exact ⟨a, hcl.2 b⟩
    · rename_i mdl exts hout
      rw [hout]
      simp only
      let st0 : MState := { st with moduleFiles := AList.insert f.name (splitLines f.contents) st.moduleFiles }
      obtain ⟨⟨E1, hE1, hc1⟩, ht1, hcond1, _⟩ := collectTypes_spec f.name (splitLines f.contents) exts mdl.types 0 st0
      have hs1 : ∀ x, AList.contains x (collectTypes f.name (splitLines f.contents) exts mdl.types 0 st0).conditions = seen.contains x := by
        intro x; rw [hcond1]; exact hs x
      obtain ⟨⟨E2, hE2, hc2⟩, hk2, hty2, _⟩ := collectConds_spec f.name (splitLines f.contents) mdl.conds
        (collectTypes f.name (splitLines f.contents) exts mdl.types 0 st0) seen hs1
      by_cases hclean : typesClean exts mdl.types 0 st.types = true ∧ condsClean mdl.conds seen = true
      · obtain ⟨hcT, hcC⟩ := hclean
        have hseen' := hk2 hcC
        have htypes : (collectConds f.name (splitLines f.contents) mdl.conds
            (collectTypes f.name (splitLines f.contents) exts mdl.types 0 st0)).types =
              st.types ++ (baseDefs exts mdl.types 0).map (·.name) := by
          rw [hty2]; exact (ht1 hcT).1
        obtain ⟨E, hE, hcl⟩ := collect_spec rest _ r _ hseen' h
        refine ⟨E, ?_, ?_⟩
        · rw [hE, hE2, hE1, hc1.2 hcT, hc2.2 hcC]; simp [st0]
        · rw [hcl, htypes, hcT, hcC]; simp
      · -- an error was raised here; the rest only appends
        obtain ⟨E, hE, _⟩ := collect_spec rest _ r _ (fun x => AList.contains_eq_keys x _) h
        refine ⟨E1 ++ E2 ++ E, ?_, ?_⟩
        · rw [hE, hE2, hE1]; simp [st0]
        · have hne : E1 ++ E2 ≠ [] := by
            intro he
            have := List.append_eq_nil_iff.1 he
            exact hclean ⟨hc1.1 this.1, hc2.1 this.2⟩
          constructor
          · intro he
            exact absurd (List.append_eq_nil_iff.1 he).1 hne
          · intro hf
            simp only [Bool.and_eq_true] at hf
            exact absurd ⟨hf.1.1, hf.1.2⟩ hclean


/-! ### the declarative reading of "the first loop raises no error" -/

theorem typesClean_iff (exts : Option (List (String × Nat))) :
    ∀ (tds : List TypeDef) (i : Nat) (seen : List String),
      typesClean exts tds i seen = true ↔
        (∀ td ∈ baseDefs exts tds i, modName td ≠ "") ∧
        (∀ n ∈ (baseDefs exts tds i).map (·.name), n ∉ seen) ∧
        ((baseDefs exts tds i).map (·.name)).Nodup
  | [], i, seen => by simp [typesClean, baseDefs]
  | td :: rest, i, seen => by
    simp only [typesClean, baseDefs]
    by_cases hext : isExtensionAt exts td.name i = true
    · simp only [hext, if_true]
      exact typesClean_iff exts rest (i + 1) seen
    · have hext' : isExtensionAt exts td.name i = false := by simpa using hext
      simp only [hext', Bool.false_eq_true, if_false, Bool.and_eq_true, Bool.not_eq_true',
        List.contains_eq_mem, decide_eq_false_iff_not, bne_iff_ne, ne_eq, List.map_cons, List.mem_cons,
        forall_eq_or_imp, List.nodup_cons]
      rw [typesClean_iff exts rest (i + 1) (seen ++ [td.name])]
      constructor
      · rintro ⟨⟨h1, h2⟩, h3, h4, h5⟩
        refine ⟨⟨h2, h3⟩, ⟨h1, fun n hn hs => h4 n hn (List.mem_append.2 (Or.inl hs))⟩, ?_, h5⟩
        intro hm
        exact h4 td.name hm (by simp)
      · rintro ⟨⟨h2, h3⟩, ⟨h1, h4⟩, h6, h5⟩
        refine ⟨⟨h1, h2⟩, h3, ?_, h5⟩
        intro n hn hs
        rcases List.mem_append.1 hs with hs | hs
        · exact h4 n hn hs
        · simp only [List.mem_singleton] at hs; subst hs; exact h6 hn

theorem condsClean_iff :
    ∀ (cs : List (String × Condition)) (seen : List String),
      condsClean cs seen = true ↔
        (∀ c ∈ cs, c.2.md.isSome = true) ∧ (∀ n ∈ cs.map (·.1), n ∉ seen) ∧ (cs.map (·.1)).Nodup
  | [], seen => by simp [condsClean]
  | (name, c) :: rest, seen => by
    simp only [condsClean, Bool.and_eq_true, Bool.not_eq_true', List.contains_eq_mem,
      decide_eq_false_iff_not, List.mem_cons, forall_eq_or_imp, List.map_cons, List.nodup_cons]
    rw [condsClean_iff rest (seen ++ [name])]
    constructor
    · rintro ⟨⟨h1, h2⟩, h3, h4, h5⟩
      refine ⟨⟨h2, h3⟩, ⟨h1, fun n hn hs => h4 n hn (List.mem_append.2 (Or.inl hs))⟩, ?_, h5⟩
      intro hm
      exact h4 name hm (by simp)
    · rintro ⟨⟨h2, h3⟩, ⟨h1, h4⟩, h6, h5⟩
      refine ⟨⟨h1, h2⟩, h3, ?_, h5⟩
      intro n hn hs
      rcases List.mem_append.1 hs with hs | hs
      · exact h4 n hn hs
      · simp only [List.mem_singleton] at hs; subst hs; exact h6 hn

/-- base type names a file contributes -/
def fileBaseNames (f : FileIn) : List String :=
  match f.outcome with
  | .ok m e => (baseDefs e m.types 0).map (·.name)
  | _ => []

/-- condition names a file contributes -/
def fileCondNames (f : FileIn) : List String :=
  match f.outcome with
  | .ok m _ => m.conds.map (·.1)
  | _ => []

/-- what one file must satisfy on its own: it parsed, every base type carries a module name and every
    condition module metadata (i.e. the file has a `module` header) -/
def fileIsModule (f : FileIn) : Prop :=
  match f.outcome with
  | .panic _ => False
  | .errors es => es = []
  | .ok m e => (∀ td ∈ baseDefs e m.types 0, modName td ≠ "") ∧ (∀ c ∈ m.conds, c.2.md.isSome = true)

theorem filesClean_iff :
    ∀ (fs : List FileIn) (ts cs : List String),
      filesClean fs ts cs = true ↔
        (∀ f ∈ fs, fileIsModule f) ∧
        (∀ n ∈ fs.flatMap fileBaseNames, n ∉ ts) ∧ (fs.flatMap fileBaseNames).Nodup ∧
        (∀ n ∈ fs.flatMap fileCondNames, n ∉ cs) ∧ (fs.flatMap fileCondNames).Nodup
  | [], ts, cs => by simp [filesClean]
  | f :: rest, ts, cs => by
    simp only [filesClean, List.flatMap_cons, List.mem_cons, forall_eq_or_imp]
    cases hout : f.outcome with
    | panic p => simp [fileIsModule, hout]
    | errors es =>
      simp only [Bool.and_eq_true, List.isEmpty_iff, fileIsModule, hout, fileBaseNames, fileCondNames, List.nil_append]
      rw [filesClean_iff rest ts cs]
      constructor
      · rintro ⟨a, b, c⟩; exact ⟨⟨a, b⟩, c⟩
      · rintro ⟨⟨a, b⟩, c⟩; exact ⟨a, b, c⟩
    | ok m e =>
      simp only [Bool.and_eq_true, fileIsModule, hout, fileBaseNames, fileCondNames]
      rw [filesClean_iff rest _ _, typesClean_iff, condsClean_iff]
      simp only [List.mem_append, List.nodup_append, not_or]
      constructor
      · rintro ⟨⟨⟨a1, a2, a3⟩, b1, b2, b3⟩, c1, c2, c3, c4, c5⟩
        refine ⟨⟨⟨a1, b1⟩, c1⟩, ?_, ⟨a3, c3, ?_⟩, ?_, ⟨b3, c5, ?_⟩⟩
        · rintro n (hn | hn)
          · exact a2 n hn
          · exact (c2 n hn).1
        · intro a ha b hb hab; subst hab; exact (c2 a hb).2 ha
        · rintro n (hn | hn)
          · exact b2 n hn
          · exact (c4 n hn).1
        · intro a ha b hb hab; subst hab; exact (c4 a hb).2 ha
      · rintro ⟨⟨⟨a1, b1⟩, c1⟩, d, ⟨a3, c3, e⟩, d2, ⟨b3, c5, e2⟩⟩
        refine ⟨⟨⟨a1, fun n hn => d n (Or.inl hn), a3⟩, b1, fun n hn => d2 n (Or.inl hn), b3⟩, c1, ?_, c3, ?_, c5⟩
        · intro n hn; exact ⟨d n (Or.inr hn), fun hm => e n hm n hn rfl⟩
        · intro n hn; exact ⟨d2 n (Or.inr hn), fun hm => e2 n hm n hn rfl⟩


/-! ### the second loop: applying the extensions -/

/-- apply `f` to the first element satisfying `p` -/
def updFirst (p : α → Bool) (f : α → α) : List α → List α
  | [] => []
  | x :: xs => if p x then f x :: xs else x :: updFirst p f xs

theorem findIdx?_set (p : α → Bool) (f : α → α) :
    ∀ (l : List α) (i : Nat) (x : α), l.findIdx? p = some i → l[i]? = some x →
      l.set i (f x) = updFirst p f l ∧ p x = true ∧ l.find? p = some x
  | [], i, x, h, _ => by simp at h
  | a :: rest, i, x, h, hx => by
    simp only [List.findIdx?_cons] at h
    by_cases hp : p a = true
    · simp only [hp, if_true, Option.some.injEq] at h
      subst h
      simp only [List.getElem?_cons_zero, Option.some.injEq] at hx
      subst hx
      simp [updFirst, hp]
    · have hp' : p a = false := by simpa using hp
      simp only [hp', Bool.false_eq_true, if_false, Option.map_eq_some_iff] at h
      obtain ⟨j, hj, rfl⟩ := h
      simp only [List.getElem?_cons_succ] at hx
      obtain ⟨h1, h2, h3⟩ := findIdx?_set p f rest j x hj hx
      simp [updFirst, hp', h1, h2, h3]

theorem findIdx?_none_find? (p : α → Bool) (l : List α) (h : l.findIdx? p = none) : l.find? p = none := by
  induction l with
  | nil => rfl
  | cons a rest ih =>
    simp only [List.findIdx?_cons] at h
    by_cases hp : p a = true
    · simp [hp] at h
    · have hp' : p a = false := by simpa using hp
      simp only [hp', Bool.false_eq_true, if_false, Option.map_eq_none_iff] at h
      simp [List.find?_cons, hp', ih h]

theorem findIdx?_some_get (p : α → Bool) (l : List α) (i : Nat) (h : l.findIdx? p = some i) : ∃ x, l[i]? = some x := by
  induction l generalizing i with
  | nil => simp at h
  | cons a rest ih =>
    simp only [List.findIdx?_cons] at h
    by_cases hp : p a = true
    · simp only [hp, if_true, Option.some.injEq] at h; subst h; exact ⟨a, rfl⟩
    · have hp' : p a = false := by simpa using hp
      simp only [hp', Bool.false_eq_true, if_false, Option.map_eq_some_iff] at h
      obtain ⟨j, hj, rfl⟩ := h
      obtain ⟨x, hx⟩ := ih j hj
      exact ⟨x, by simpa using hx⟩

/-- the relation names currently on the collected base type `n` -/
def curKeys (R : List TypeDef) (n : String) : List String :=
  match R.find? (fun t => t.name == n) with
  | some t => AList.keys t.relations
  | none => []

theorem updFirst_names (n : String) (f : TypeDef → TypeDef) (hf : ∀ t, t.name = n → (f t).name = t.name) (R : List TypeDef) :
    (updFirst (fun t => t.name == n) f R).map (·.name) = R.map (·.name) := by
  induction R with
  | nil => rfl
  | cons a rest ih =>
    simp only [updFirst]
    split
    · rename_i hp; simp [hf a (by simpa using hp)]
    · simp [ih]

theorem updFirst_md (n : String) (f : TypeDef → TypeDef) (R : List TypeDef)
    (hR : ∀ t ∈ R, t.md.isSome = true) (hf : ∀ t ∈ R, (f t).md.isSome = true) :
    ∀ t ∈ updFirst (fun t => t.name == n) f R, t.md.isSome = true := by
  induction R with
  | nil => intro t ht; simp [updFirst] at ht
  | cons a rest ih =>
    intro t ht
    simp only [updFirst] at ht
    split at ht
    · rcases List.mem_cons.1 ht with rfl | ht
      · exact hf a (by simp)
      · exact hR t (by simp [ht])
    · rcases List.mem_cons.1 ht with rfl | ht
      · exact hR t (by simp)
      · exact ih (fun t ht => hR t (by simp [ht])) (fun t ht => hf t (by simp [ht])) t ht

theorem curKeys_updFirst_same (n : String) (f : TypeDef → TypeDef) (hf : ∀ t, t.name = n → (f t).name = t.name) (R : List TypeDef)
    (orig : TypeDef) (h : R.find? (fun t => t.name == n) = some orig) :
    curKeys (updFirst (fun t => t.name == n) f R) n = AList.keys (f orig).relations := by
  induction R with
  | nil => simp at h
  | cons a rest ih =>
    simp only [List.find?_cons] at h
    simp only [updFirst]
    by_cases hp : (a.name == n) = true
    · simp only [hp, Option.some.injEq] at h; subst h
      have ha : a.name = n := by simpa using hp
      simp [curKeys, hp, hf a ha, ha]
    · have hp' : (a.name == n) = false := by simpa using hp
      simp only [hp'] at h
      have := ih h
      simp only [curKeys, hp', Bool.false_eq_true, if_false, List.find?_cons] at this ⊢
      exact this

theorem curKeys_updFirst_other (n n' : String) (hne : n' ≠ n) (f : TypeDef → TypeDef) (hf : ∀ t, t.name = n → (f t).name = t.name)
    (R : List TypeDef) : curKeys (updFirst (fun t => t.name == n) f R) n' = curKeys R n' := by
  induction R with
  | nil => rfl
  | cons a rest ih =>
    simp only [updFirst]
    by_cases hp : (a.name == n) = true
    · have ha : a.name = n := by simpa using hp
      have h1 : (a.name == n') = false := by simpa [ha] using (fun e => hne e.symm)
      have h2 : ((f a).name == n') = false := by rw [hf a ha]; exact h1
      simp [curKeys, hp, List.find?_cons, h1, h2]
    · have hp' : (a.name == n) = false := by simpa using hp
      simp only [hp', Bool.false_eq_true, if_false]
      by_cases hq : (a.name == n') = true
      · simp [curKeys, List.find?_cons, hq]
      · have hq' : (a.name == n') = false := by simpa using hq
        simp only [curKeys, List.find?_cons, hq'] at ih ⊢
        exact ih

/-- every relation of the extension has relation metadata (the listener records both together) -/
def ExtWF (e : TypeDef) : Prop := ∀ kv ∈ e.relations, (AList.find? kv.1 (relMetaOf e)).isSome = true

theorem addRelations_spec (file : String) (lines : List (List Char)) (existing : List String) (ext : TypeDef) :
    ∀ (rels : List (String × Userset)) (orig : TypeDef) (errs : List MergeErr),
      (∀ kv ∈ rels, (AList.find? kv.1 (relMetaOf ext)).isSome = true) → orig.md.isSome = true →
      ∃ orig' E, addRelations file lines existing ext rels orig errs = .ok (orig', errs ++ E) ∧
        (E = [] ↔ ∀ kv ∈ rels, kv.1 ∉ existing) ∧ orig'.name = orig.name ∧ orig'.md.isSome = true ∧
        (∀ k, k ∈ AList.keys orig'.relations ↔ k ∈ AList.keys orig.relations ∨ (k ∈ rels.map (·.1) ∧ k ∉ existing))
  | [], orig, errs, _, hmd => ⟨orig, [], by simp [addRelations], by simp, rfl, hmd, by simp⟩
  | (name, rel) :: rest, orig, errs, hwf, hmd => by
    simp only [addRelations]
    by_cases hc : existing.contains name = true
    · simp only [hc, if_true]
      obtain ⟨orig', E, h1, _, h3, h4, h5⟩ := addRelations_spec file lines existing ext rest orig
        (errs ++ [.mod ("relation " ++ name ++ " already exists on type " ++ ext.name) file
          (constructLineAndColumnData lines (lineWithPrefix ("define " ++ name) lines) name)])
        (fun kv hkv => hwf kv (by simp [hkv])) hmd
      refine ⟨orig', (.mod ("relation " ++ name ++ " already exists on type " ++ ext.name) file
          (constructLineAndColumnData lines (lineWithPrefix ("define " ++ name) lines) name)) :: E, ?_, ?_, h3, h4, ?_⟩
      · rw [h1]; simp
      · simp only [List.cons_ne_nil, false_iff, List.mem_cons, forall_eq_or_imp, not_and]
        intro hn; exact absurd (by simpa using hc) hn
      · intro k
        rw [h5 k]
        simp only [List.map_cons, List.mem_cons]
        constructor
        · rintro (h | ⟨h, h'⟩)
          · exact Or.inl h
          · exact Or.inr ⟨Or.inr h, h'⟩
        · rintro (h | ⟨h | h, h'⟩)
          · exact Or.inl h
          · subst h; exact absurd (by simpa using hc) h'
          · exact Or.inr ⟨h, h'⟩
    · have hc' : existing.contains name = false := by simpa using hc
      simp only [hc', Bool.false_eq_true, if_false]
      have hw := hwf (name, rel) (by simp)
      simp only at hw
      cases hrm : AList.find? name (relMetaOf ext) with
      | none => simp [hrm] at hw
      | some rm =>
        simp only
        cases hom : orig.md with
        | none => simp [hom] at hmd
        | some om =>
          simp only
          obtain ⟨orig', E, h1, h2, h3, h4, h5⟩ := addRelations_spec file lines existing ext rest
            { orig with relations := AList.insert name rel orig.relations,
                        md := some { om with relations := AList.insert name { rm with file := file } om.relations } }
            errs (fun kv hkv => hwf kv (by simp [hkv])) rfl
          refine ⟨orig', E, h1, ?_, h3, h4, ?_⟩
          · rw [h2]
            simp only [List.mem_cons, forall_eq_or_imp]
            constructor
            · intro h; exact ⟨by simpa using hc', h⟩
            · intro h; exact h.2
          · intro k
            rw [h5 k]
            simp only [AList.mem_keys_insert, List.map_cons, List.mem_cons]
            constructor
            · rintro ((h | h) | ⟨h, h'⟩)
              · subst h; exact Or.inr ⟨Or.inl rfl, by simpa using hc'⟩
              · exact Or.inl h
              · exact Or.inr ⟨Or.inr h, h'⟩
            · rintro (h | ⟨h | h, h'⟩)
              · exact Or.inl (Or.inr h)
              · exact Or.inl (Or.inl h)
              · exact Or.inr ⟨h, h'⟩


theorem find?_none_not_mem (R : List TypeDef) (n : String) (h : R.find? (fun t => t.name == n) = none) :
    n ∉ R.map (·.name) := by
  intro hm
  obtain ⟨t, ht, rfl⟩ := List.mem_map.1 hm
  have := List.find?_eq_none.1 h t ht
  simp at this

theorem applyExtension_spec (file : String) (lines : List (List Char)) (ext : TypeDef) (st : MState)
    (hR : ∀ t ∈ st.rawTypeDefs, t.md.isSome = true) (hwf : ExtWF ext) :
    ∃ st' E, applyExtension file lines ext st = .ok st' ∧ st'.errors = st.errors ++ E ∧
      st'.conditions = st.conditions ∧ st'.extended = st.extended ∧ st'.moduleFiles = st.moduleFiles ∧
      st'.rawTypeDefs.map (·.name) = st.rawTypeDefs.map (·.name) ∧
      (∀ t ∈ st'.rawTypeDefs, t.md.isSome = true) ∧
      (E = [] ↔ ext.name ∈ st.rawTypeDefs.map (·.name) ∧
                ∀ k ∈ AList.keys ext.relations, k ∉ curKeys st.rawTypeDefs ext.name) ∧
      (E = [] → ∀ n k, k ∈ curKeys st'.rawTypeDefs n ↔
                  k ∈ curKeys st.rawTypeDefs n ∨ (n = ext.name ∧ k ∈ AList.keys ext.relations)) := by
  unfold applyExtension
  cases hidx : st.rawTypeDefs.findIdx? (fun t => t.name == ext.name) with
  | none =>
    have hnone := findIdx?_none_find? _ _ hidx
    refine ⟨_, [.mod ("extended type " ++ ext.name ++ " does not exist") file
      (constructLineAndColumnData lines (lineWithPrefix ("extend type " ++ ext.name) lines) ext.name)],
      rfl, rfl, rfl, rfl, rfl, rfl, hR, ?_, by simp⟩
    simp only [List.cons_ne_nil, false_iff, not_and]
    intro hm; exact absurd hm (find?_none_not_mem _ _ hnone)
  | some i =>
    obtain ⟨x, hx⟩ := findIdx?_some_get _ _ _ hidx
    simp only [hx]
    have hxmem : x ∈ st.rawTypeDefs := List.mem_of_getElem? hx
    have hname : ext.name ∈ st.rawTypeDefs.map (·.name) := by
      obtain ⟨_, hp, _⟩ := findIdx?_set (fun t => t.name == ext.name) id _ i x hidx hx
      exact List.mem_map.2 ⟨x, hxmem, by simpa using hp⟩
    have hxname : x.name = ext.name := by
      obtain ⟨_, hp, _⟩ := findIdx?_set (fun t => t.name == ext.name) id _ i x hidx hx
      simpa using hp
    have hfind : st.rawTypeDefs.find? (fun t => t.name == ext.name) = some x :=
      (findIdx?_set (fun t => t.name == ext.name) id _ i x hidx hx).2.2
    have hcur : curKeys st.rawTypeDefs ext.name = AList.keys x.relations := by simp [curKeys, hfind]
    by_cases hemp : x.relations.isEmpty = true
    · simp only [hemp, if_true]
      let f : TypeDef → TypeDef := fun o =>
        { o with relations := ext.relations, md := some { (o.md.getD {}) with relations := setRelFiles file (relMetaOf ext) } }
      have hset := (findIdx?_set (fun t => t.name == ext.name) f _ i x hidx hx).1
      have hf : ∀ t, t.name = ext.name → (f t).name = t.name := fun t _ => rfl
      refine ⟨_, [], rfl, by simp, rfl, rfl, rfl, ?_, ?_, ?_, ?_⟩
      · show (replaceAt st.rawTypeDefs i (f x)).map (·.name) = _
        unfold replaceAt; rw [hset]; exact updFirst_names _ f hf _
      · show ∀ t ∈ replaceAt st.rawTypeDefs i (f x), _
        unfold replaceAt; rw [hset]
        exact updFirst_md _ f _ hR (fun t _ => rfl)
      · simp only [true_iff]
        refine ⟨hname, ?_⟩
        rw [hcur]
        have : x.relations = [] := by simpa using hemp
        simp [this, AList.keys]
      · intro _ n k
        show k ∈ curKeys (replaceAt st.rawTypeDefs i (f x)) n ↔ _
        unfold replaceAt; rw [hset]
        by_cases hn : n = ext.name
        · subst hn
          rw [curKeys_updFirst_same _ f hf _ x hfind, hcur]
          have : x.relations = [] := by simpa using hemp
          simp [this, AList.keys, f]
        · rw [curKeys_updFirst_other _ n hn f hf]
          simp [hn]
    · simp only [hemp, Bool.false_eq_true, if_false]
      obtain ⟨orig', E, h1, h2, h3, h4, h5⟩ := addRelations_spec file lines (AList.keys x.relations) ext ext.relations x []
        hwf (hR x hxmem)
      rw [h1]
      simp only [List.nil_append]
      let f : TypeDef → TypeDef := fun _ => orig'
      have hset := (findIdx?_set (fun t => t.name == ext.name) f _ i x hidx hx).1
      have hf : ∀ t, t.name = ext.name → (f t).name = t.name := fun t ht => by
        show orig'.name = t.name; rw [h3, hxname, ht]
      refine ⟨_, E, rfl, rfl, rfl, rfl, rfl, ?_, ?_, ?_, ?_⟩
      · show (replaceAt st.rawTypeDefs i (f x)).map (·.name) = _
        unfold replaceAt; rw [hset]; exact updFirst_names _ f hf _
      · show ∀ t ∈ replaceAt st.rawTypeDefs i (f x), _
        unfold replaceAt; rw [hset]
        exact updFirst_md _ f _ hR (fun t _ => h4)
      · rw [h2, hcur]
        constructor
        · intro h; exact ⟨hname, fun k hk => by
            obtain ⟨kv, hkv, rfl⟩ := List.mem_map.1 hk
            exact h kv hkv⟩
        · intro h kv hkv; exact h.2 kv.1 (List.mem_map.2 ⟨kv, hkv, rfl⟩)
      · intro hE n k
        show k ∈ curKeys (replaceAt st.rawTypeDefs i (f x)) n ↔ _
        unfold replaceAt; rw [hset]
        by_cases hn : n = ext.name
        · subst hn
          rw [curKeys_updFirst_same _ f hf _ x hfind, hcur]
          show k ∈ AList.keys orig'.relations ↔ _
          rw [h5 k]
          have hall := h2.1 hE
          constructor
          · rintro (h | ⟨h, _⟩)
            · exact Or.inl h
            · exact Or.inr ⟨rfl, h⟩
          · rintro (h | ⟨_, h⟩)
            · exact Or.inl h
            · refine Or.inr ⟨h, ?_⟩
              obtain ⟨kv, hkv, rfl⟩ := List.mem_map.1 h
              exact hall kv hkv
        · rw [curKeys_updFirst_other _ n hn f hf]
          simp [hn]


/-- the extensions `es`, applied in this order to types whose current relation names are given by `K`,
    raise no error -/
def extsClean (names : List String) : List TypeDef → (String → String → Prop) → Prop
  | [], _ => True
  | e :: rest, K => (e.name ∈ names ∧ ∀ k ∈ AList.keys e.relations, ¬ K e.name k) ∧
      extsClean names rest (fun n k => K n k ∨ (n = e.name ∧ k ∈ AList.keys e.relations))

/-- relation names after applying `es` -/
def keysAfter (es : List TypeDef) (K : String → String → Prop) : String → String → Prop :=
  fun n k => K n k ∨ ∃ e ∈ es, n = e.name ∧ k ∈ AList.keys e.relations

theorem extsClean_congr (names : List String) (es : List TypeDef) (K K' : String → String → Prop)
    (h : ∀ n k, K n k ↔ K' n k) : extsClean names es K ↔ extsClean names es K' := by
  induction es generalizing K K' with
  | nil => simp [extsClean]
  | cons e rest ih =>
    simp only [extsClean]
    rw [ih _ (fun n k => K' n k ∨ (n = e.name ∧ k ∈ AList.keys e.relations)) (fun n k => by rw [h n k])]
    constructor
    · rintro ⟨⟨a, b⟩, c⟩; exact ⟨⟨a, fun k hk hK => b k hk ((h _ _).2 hK)⟩, c⟩
    · rintro ⟨⟨a, b⟩, c⟩; exact ⟨⟨a, fun k hk hK => b k hk ((h _ _).1 hK)⟩, c⟩

theorem extsClean_append (names : List String) (a b : List TypeDef) (K : String → String → Prop) :
    extsClean names (a ++ b) K ↔ extsClean names a K ∧ extsClean names b (keysAfter a K) := by
  induction a generalizing K with
  | nil =>
    simp only [List.nil_append, extsClean, true_and]
    exact extsClean_congr names b _ _ (fun n k => by simp [keysAfter])
  | cons e rest ih =>
    simp only [List.cons_append, extsClean]
    rw [ih]
    rw [extsClean_congr names b (keysAfter rest fun n k => K n k ∨ n = e.name ∧ k ∈ AList.keys e.relations)
      (keysAfter (e :: rest) K) (fun n k => by
        simp only [keysAfter, List.mem_cons, exists_eq_or_imp]
        constructor
        · rintro ((h | h) | h)
          · exact Or.inl h
          · exact Or.inr (Or.inl h)
          · exact Or.inr (Or.inr h)
        · rintro (h | h | h)
          · exact Or.inl (Or.inl h)
          · exact Or.inl (Or.inr h)
          · exact Or.inr h)]
    exact and_assoc.symm

theorem applyExtensions_spec (file : String) (lines : List (List Char)) :
    ∀ (exts : List TypeDef) (st : MState) (K : String → String → Prop),
      (∀ t ∈ st.rawTypeDefs, t.md.isSome = true) → (∀ e ∈ exts, ExtWF e) →
      (∀ n k, k ∈ curKeys st.rawTypeDefs n ↔ K n k) →
      ∃ st' E, applyExtensions file lines exts st = .ok st' ∧ st'.errors = st.errors ++ E ∧
        st'.conditions = st.conditions ∧ st'.extended = st.extended ∧ st'.moduleFiles = st.moduleFiles ∧
        st'.rawTypeDefs.map (·.name) = st.rawTypeDefs.map (·.name) ∧
        (∀ t ∈ st'.rawTypeDefs, t.md.isSome = true) ∧
        (E = [] ↔ extsClean (st.rawTypeDefs.map (·.name)) exts K) ∧
        (E = [] → ∀ n k, k ∈ curKeys st'.rawTypeDefs n ↔ keysAfter exts K n k)
  | [], st, K, hR, _, hK =>
    ⟨st, [], rfl, by simp, rfl, rfl, rfl, rfl, hR, by simp [extsClean], fun _ n k => by simp [keysAfter, hK]⟩
  | e :: rest, st, K, hR, hwf, hK => by
    obtain ⟨st1, E1, h1, h2, h3, h4, h5, h6, h7, h8, h9⟩ :=
      applyExtension_spec file lines e st hR (hwf e (by simp))
    simp only [applyExtensions, h1]
    by_cases hE1 : E1 = []
    · have hK1 : ∀ n k, k ∈ curKeys st1.rawTypeDefs n ↔ (K n k ∨ (n = e.name ∧ k ∈ AList.keys e.relations)) := by
        intro n k; rw [h9 hE1 n k, hK n k]
      obtain ⟨st2, E2, g1, g2, g3, g4, g5, g6, g7, g8, g9⟩ :=
        applyExtensions_spec file lines rest st1 _ h7 (fun e he => hwf e (by simp [he])) hK1
      refine ⟨st2, E2, g1, by rw [g2, h2, hE1]; simp, g3.trans h3, g4.trans h4, g5.trans h5, g6.trans h6, g7, ?_, ?_⟩
      · rw [g8, h6]
        simp only [extsClean]
        have hhead := h8.1 hE1
        constructor
        · intro h; exact ⟨⟨hhead.1, fun k hk hKk => hhead.2 k hk ((hK _ _).2 hKk)⟩, h⟩
        · intro h; exact h.2
      · intro hE2 n k
        rw [g9 hE2 n k]
        simp only [keysAfter, List.mem_cons, exists_eq_or_imp]
        constructor
        · rintro ((h | h) | h)
          · exact Or.inl h
          · exact Or.inr (Or.inl h)
          · exact Or.inr (Or.inr h)
        · rintro (h | h | h)
          · exact Or.inl (Or.inl h)
          · exact Or.inl (Or.inr h)
          · exact Or.inr h
    · obtain ⟨st2, E2, g1, g2, g3, g4, g5, g6, g7, _, _⟩ :=
        applyExtensions_spec file lines rest st1 (fun n k => k ∈ curKeys st1.rawTypeDefs n) h7
          (fun e he => hwf e (by simp [he])) (fun _ _ => Iff.rfl)
      refine ⟨st2, E1 ++ E2, g1, by rw [g2, h2]; simp, g3.trans h3, g4.trans h4, g5.trans h5, g6.trans h6, g7, ?_, ?_⟩
      · constructor
        · intro h; exact absurd (List.append_eq_nil_iff.1 h).1 hE1
        · intro h
          simp only [extsClean] at h
          exact absurd (h8.2 ⟨h.1.1, fun k hk hc => h.1.2 k hk ((hK _ _).1 hc)⟩) hE1
      · intro h; exact absurd (List.append_eq_nil_iff.1 h).1 hE1

theorem applyAll_spec :
    ∀ (xs : List (String × List TypeDef)) (st : MState) (K : String → String → Prop),
      (∀ t ∈ st.rawTypeDefs, t.md.isSome = true) → (∀ x ∈ xs, ∀ e ∈ x.2, ExtWF e) →
      (∀ n k, k ∈ curKeys st.rawTypeDefs n ↔ K n k) →
      ∃ st' E, applyAll xs st = .ok st' ∧ st'.errors = st.errors ++ E ∧
        st'.conditions = st.conditions ∧
        st'.rawTypeDefs.map (·.name) = st.rawTypeDefs.map (·.name) ∧
        (E = [] ↔ extsClean (st.rawTypeDefs.map (·.name)) (xs.flatMap (·.2)) K) ∧
        (E = [] → ∀ n k, k ∈ curKeys st'.rawTypeDefs n ↔ keysAfter (xs.flatMap (·.2)) K n k)
  | [], st, K, _, _, hK => ⟨st, [], rfl, by simp, rfl, rfl, by simp [extsClean], fun _ n k => by simp [keysAfter, hK]⟩
  | (file, exts) :: rest, st, K, hR, hwf, hK => by
    obtain ⟨st1, E1, h1, h2, h3, h4, h5, h6, h7, h8, h9⟩ :=
      applyExtensions_spec file ((AList.find? file st.moduleFiles).getD []) exts st K hR
        (fun e he => hwf (file, exts) (by simp) e he) hK
    simp only [applyAll, h1, List.flatMap_cons]
    by_cases hE1 : E1 = []
    · obtain ⟨st2, E2, g1, g2, g3, g4, g5, g6⟩ := applyAll_spec rest st1 (keysAfter exts K) h7
        (fun x hx => hwf x (by simp [hx])) (h9 hE1)
      refine ⟨st2, E2, g1, by rw [g2, h2, hE1]; simp, g3.trans h3, g4.trans h6, ?_, ?_⟩
      · rw [g5, h6, extsClean_append]
        constructor
        · intro h; exact ⟨h8.1 hE1, h⟩
        · intro h; exact h.2
      · intro hE2 n k
        rw [g6 hE2 n k]
        simp only [keysAfter, List.mem_append, List.mem_flatMap]
        constructor
        · rintro ((h | ⟨e, he, h⟩) | ⟨e, ⟨x, hx, he⟩, h⟩)
          · exact Or.inl h
          · exact Or.inr ⟨e, Or.inl he, h⟩
          · exact Or.inr ⟨e, Or.inr ⟨x, hx, he⟩, h⟩
        · rintro (h | ⟨e, he | ⟨x, hx, he⟩, h⟩)
          · exact Or.inl (Or.inl h)
          · exact Or.inl (Or.inr ⟨e, he, h⟩)
          · exact Or.inr ⟨e, ⟨x, hx, he⟩, h⟩
    · obtain ⟨st2, E2, g1, g2, g3, g4, _⟩ := applyAll_spec rest st1 (fun n k => k ∈ curKeys st1.rawTypeDefs n) h7
        (fun x hx => hwf x (by simp [hx])) (fun _ _ => Iff.rfl)
      refine ⟨st2, E1 ++ E2, g1, by rw [g2, h2]; simp, g3.trans h3, g4.trans h6, ?_, ?_⟩
      · constructor
        · intro h; exact absurd (List.append_eq_nil_iff.1 h).1 hE1
        · intro h
          rw [extsClean_append] at h
          exact absurd (h8.2 h.1) hE1
      · intro h; exact absurd (List.append_eq_nil_iff.1 h).1 hE1


/-! ### the order-free reading of `extsClean` -/

/-- the relation names that the definitions in `ds` contribute to type `n` -/
def contrib (n : String) (ds : List TypeDef) : List String :=
  (ds.filter (fun d => d.name == n)).flatMap (fun d => AList.keys d.relations)

theorem contrib_cons (n : String) (d : TypeDef) (ds : List TypeDef) :
    contrib n (d :: ds) = if d.name == n then AList.keys d.relations ++ contrib n ds else contrib n ds := by
  unfold contrib
  simp only [List.filter_cons]
  split <;> simp

theorem contrib_append (n : String) (a b : List TypeDef) : contrib n (a ++ b) = contrib n a ++ contrib n b := by
  simp [contrib, List.filter_append]

theorem contrib_perm (n : String) {a b : List TypeDef} (h : a.Perm b) : (contrib n a).Perm (contrib n b) :=
  (h.filter _).flatMap_right _

theorem extsClean_iff (names : List String) :
    ∀ (es : List TypeDef) (K : String → String → Prop), (∀ e ∈ es, (AList.keys e.relations).Nodup) →
      (extsClean names es K ↔
        (∀ e ∈ es, e.name ∈ names) ∧ ∀ n, (∀ k ∈ contrib n es, ¬ K n k) ∧ (contrib n es).Nodup)
  | [], K, _ => by simp [extsClean, contrib]
  | e :: rest, K, hnd => by
    simp only [extsClean]
    rw [extsClean_iff names rest _ (fun e he => hnd e (by simp [he]))]
    have hend := hnd e (by simp)
    constructor
    · rintro ⟨⟨h1, h2⟩, h3, h4⟩
      refine ⟨by intro e' he'; rcases List.mem_cons.1 he' with rfl | he'; exact h1; exact h3 e' he', ?_⟩
      intro n
      rw [contrib_cons]
      by_cases hn : e.name = n
      · subst hn
        simp only [beq_self_eq_true, if_true, List.mem_append, List.nodup_append]
        obtain ⟨g1, g2⟩ := h4 e.name
        refine ⟨?_, hend, g2, ?_⟩
        · rintro k (hk | hk)
          · exact h2 k hk
          · exact fun hK => g1 k hk (Or.inl hK)
        · intro a ha b hb hab; subst hab
          exact g1 a hb (Or.inr ⟨rfl, ha⟩)
      · have : (e.name == n) = false := by simpa using hn
        simp only [this, Bool.false_eq_true, if_false]
        obtain ⟨g1, g2⟩ := h4 n
        exact ⟨fun k hk hK => g1 k hk (Or.inl hK), g2⟩
    · rintro ⟨h1, h2⟩
      refine ⟨⟨h1 e (by simp), ?_⟩, fun e' he' => h1 e' (by simp [he']), ?_⟩
      · intro k hk
        have := (h2 e.name).1 k (by rw [contrib_cons]; simp [hk])
        exact this
      · intro n
        have hn2 := h2 n
        rw [contrib_cons] at hn2
        by_cases hn : e.name = n
        · subst hn
          simp only [beq_self_eq_true, if_true, List.mem_append, List.nodup_append] at hn2
          obtain ⟨g1, _, g3, g4⟩ := hn2
          refine ⟨?_, g3⟩
          rintro k hk (hK | ⟨_, hK⟩)
          · exact g1 k (Or.inr hk) hK
          · exact g4 k hK k hk rfl
        · have : (e.name == n) = false := by simpa using hn
          simp only [this, Bool.false_eq_true, if_false] at hn2
          refine ⟨?_, hn2.2⟩
          rintro k hk (hK | ⟨hne, _⟩)
          · exact hn2.1 k hk hK
          · exact hn hne.symm

/-- with distinct type names, the current relation names of `n` are what the collected base
    definitions contribute to `n` -/
theorem curKeys_eq_contrib (R : List TypeDef) (n : String) (h : (R.map (·.name)).Nodup) :
    curKeys R n = contrib n R := by
  induction R with
  | nil => rfl
  | cons a rest ih =>
    simp only [List.map_cons, List.nodup_cons] at h
    rw [contrib_cons]
    by_cases hn : a.name = n
    · subst hn
      have hnone : contrib a.name rest = [] := by
        unfold contrib
        have : rest.filter (fun d => d.name == a.name) = [] := by
          rw [List.filter_eq_nil_iff]
          intro d hd
          have : d.name ≠ a.name := fun e => h.1 (e ▸ List.mem_map.2 ⟨d, hd, rfl⟩)
          simpa using this
        simp [this]
      simp [curKeys, hnone]
    · have : (a.name == n) = false := by simpa using hn
      simp only [this, Bool.false_eq_true, if_false]
      rw [← ih h.2]
      simp [curKeys, List.find?_cons, this]


/-! ### what the first loop leaves in the state -/

def fileBaseDefs (f : FileIn) : List TypeDef :=
  match f.outcome with
  | .ok m e => baseDefs e m.types 0
  | _ => []

def fileExtDefs (f : FileIn) : List TypeDef :=
  match f.outcome with
  | .ok m e => extDefs e m.types 0
  | _ => []

theorem fileBaseNames_eq (f : FileIn) : fileBaseNames f = (fileBaseDefs f).map (·.name) := by
  unfold fileBaseNames fileBaseDefs; cases f.outcome <;> rfl

theorem collectTypes_extended (file : String) (lines : List (List Char)) (exts : Option (List (String × Nat))) :
    ∀ (tds : List TypeDef) (i : Nat) (st : MState), AList.SortedKeys st.extended →
      AList.SortedKeys (collectTypes file lines exts tds i st).extended ∧
      ((collectTypes file lines exts tds i st).extended.flatMap (·.2)).Perm
        (st.extended.flatMap (·.2) ++ extDefs exts tds i)
  | [], i, st, h => by simp [collectTypes, extDefs, h]
  | td :: rest, i, st, h => by
    simp only [collectTypes, extDefs]
    by_cases hext : isExtensionAt exts td.name i = true
    · simp only [hext, Bool.not_true, Bool.and_false, Bool.false_eq_true, if_false, if_true]
      obtain ⟨g1, g2⟩ := collectTypes_extended file lines exts rest (i + 1)
        { st with extended := AList.insert file ((AList.find? file st.extended).getD [] ++ [td]) st.extended }
        (AList.sortedKeys_insert _ _ _ h)
      refine ⟨g1, g2.trans ?_⟩
      have := AList.flatMap_insert_append file td st.extended h
      simp only
      calc _ = (List.flatMap (fun x => x.snd) (AList.insert file ((AList.find? file st.extended).getD [] ++ [td]) st.extended)) ++ extDefs exts rest (i + 1) := rfl
        _ |>.Perm ((st.extended.flatMap (·.2) ++ [td]) ++ extDefs exts rest (i + 1)) := List.Perm.append_right _ this
        _ = _ := by simp
    · have hext' : isExtensionAt exts td.name i = false := by simpa using hext
      simp only [hext', Bool.not_false, Bool.and_true, Bool.false_eq_true, if_false]
      split
      · exact collectTypes_extended file lines exts rest (i + 1) _ h
      · split
        · exact collectTypes_extended file lines exts rest (i + 1) _ h
        · exact collectTypes_extended file lines exts rest (i + 1) _ h

theorem collectTypes_raw_mem (file : String) (lines : List (List Char)) (exts : Option (List (String × Nat))) :
    ∀ (tds : List TypeDef) (i : Nat) (st : MState),
      ∀ t ∈ (collectTypes file lines exts tds i st).rawTypeDefs,
        t ∈ st.rawTypeDefs ∨ ∃ td ∈ tds, modName td ≠ "" ∧ t = setTypeFile td file
  | [], i, st, t, ht => by simp only [collectTypes] at ht; exact Or.inl ht
  | td :: rest, i, st, t, ht => by
    simp only [collectTypes] at ht
    split at ht
    · rcases collectTypes_raw_mem file lines exts rest (i + 1) _ t ht with h | ⟨td', h1, h2⟩
      · exact Or.inl h
      · exact Or.inr ⟨td', by simp [h1], h2⟩
    · split at ht
      · rcases collectTypes_raw_mem file lines exts rest (i + 1) _ t ht with h | ⟨td', h1, h2⟩
        · exact Or.inl h
        · exact Or.inr ⟨td', by simp [h1], h2⟩
      · split at ht
        · rename_i hmn
          rcases collectTypes_raw_mem file lines exts rest (i + 1) _ t ht with h | ⟨td', h1, h2⟩
          · simp only [List.mem_append, List.mem_singleton] at h
            rcases h with h | h
            · exact Or.inl h
            · exact Or.inr ⟨td, by simp, by simpa using hmn, h⟩
          · exact Or.inr ⟨td', by simp [h1], h2⟩
        · rcases collectTypes_raw_mem file lines exts rest (i + 1) _ t ht with h | ⟨td', h1, h2⟩
          · exact Or.inl h
          · exact Or.inr ⟨td', by simp [h1], h2⟩

theorem extDefs_mem (exts : Option (List (String × Nat))) : ∀ (tds : List TypeDef) (i : Nat), ∀ t ∈ extDefs exts tds i, t ∈ tds
  | [], _, t, h => by simp [extDefs] at h
  | td :: rest, i, t, h => by
    simp only [extDefs] at h
    split at h
    · rcases List.mem_cons.1 h with rfl | h
      · simp
      · exact List.mem_cons_of_mem _ (extDefs_mem exts rest (i + 1) t h)
    · exact List.mem_cons_of_mem _ (extDefs_mem exts rest (i + 1) t h)

theorem baseDefs_mem (exts : Option (List (String × Nat))) : ∀ (tds : List TypeDef) (i : Nat), ∀ t ∈ baseDefs exts tds i, t ∈ tds
  | [], _, t, h => by simp [baseDefs] at h
  | td :: rest, i, t, h => by
    simp only [baseDefs] at h
    split at h
    · exact List.mem_cons_of_mem _ (baseDefs_mem exts rest (i + 1) t h)
    · rcases List.mem_cons.1 h with rfl | h
      · simp
      · exact List.mem_cons_of_mem _ (baseDefs_mem exts rest (i + 1) t h)

/-- the collected base definitions of a file, as the merger stores them -/
def fileRaw (f : FileIn) : List TypeDef := (fileBaseDefs f).map (fun td => setTypeFile td f.name)

theorem collect_state :
    ∀ (fs : List FileIn) (st r : MState), collect fs st = .ok r → AList.SortedKeys st.extended →
      AList.SortedKeys r.extended ∧
      (r.extended.flatMap (·.2)).Perm (st.extended.flatMap (·.2) ++ fs.flatMap fileExtDefs) ∧
      (∀ t ∈ r.rawTypeDefs, t ∈ st.rawTypeDefs ∨
          ∃ f ∈ fs, ∃ m e, f.outcome = .ok m e ∧ ∃ td ∈ m.types, modName td ≠ "" ∧ t = setTypeFile td f.name)
  | [], st, r, h, hs => by
    simp only [collect, Except.ok.injEq] at h; subst h
    exact ⟨hs, by simp, fun t ht => Or.inl ht⟩
  | f :: rest, st, r, h, hs => by
    simp only [collect] at h
    split at h
    · cases h
    · rename_i es hout
      obtain ⟨g1, g2, g3⟩ := collect_state rest _ r h hs
      refine ⟨g1, ?_, ?_⟩
      · simpa [fileExtDefs, hout] using g2
      · intro t ht
        rcases g3 t ht with h | ⟨f', hf', rest'⟩
        · exact Or.inl h
        · exact Or.inr ⟨f', by simp [hf'], rest'⟩
    · rename_i mdl exts hout
      let st0 : MState := { st with moduleFiles := AList.insert f.name (splitLines f.contents) st.moduleFiles }
      obtain ⟨e1, e2⟩ := collectTypes_extended f.name (splitLines f.contents) exts mdl.types 0 st0 hs
      obtain ⟨_, _, _, _, c5, _⟩ := collectConds_spec f.name (splitLines f.contents) mdl.conds
        (collectTypes f.name (splitLines f.contents) exts mdl.types 0 st0) _ (fun x => AList.contains_eq_keys x _)
      obtain ⟨_, _, _, c4, _, _⟩ := collectConds_spec f.name (splitLines f.contents) mdl.conds
        (collectTypes f.name (splitLines f.contents) exts mdl.types 0 st0) _ (fun x => AList.contains_eq_keys x _)
      obtain ⟨g1, g2, g3⟩ := collect_state rest _ r h (by rw [c5]; exact e1)
      refine ⟨g1, ?_, ?_⟩
      · rw [c5] at g2
        refine g2.trans ?_
        simp only [List.flatMap_cons, fileExtDefs, hout]
        rw [← List.append_assoc]
        exact List.Perm.append_right _ e2
      · intro t ht
        rcases g3 t ht with h | ⟨f', hf', rest'⟩
        · rw [c4] at h
          rcases collectTypes_raw_mem f.name (splitLines f.contents) exts mdl.types 0 st0 t h with h | ⟨td, h1, h2⟩
          · exact Or.inl h
          · exact Or.inr ⟨f, by simp, mdl, exts, hout, td, h1, h2⟩
        · exact Or.inr ⟨f', by simp [hf'], rest'⟩

theorem collect_raw :
    ∀ (fs : List FileIn) (st r : MState) (seen : List String),
      (∀ x, AList.contains x st.conditions = seen.contains x) →
      collect fs st = .ok r → filesClean fs st.types seen = true →
      r.rawTypeDefs = st.rawTypeDefs ++ fs.flatMap fileRaw ∧
      ∀ x, AList.contains x r.conditions = (seen ++ fs.flatMap fileCondNames).contains x
  | [], st, r, seen, hs, h, _ => by
    simp only [collect, Except.ok.injEq] at h; subst h; simp [hs]
  | f :: rest, st, r, seen, hs, h, hc => by
    simp only [collect] at h
    simp only [filesClean] at hc
    split at h
    · cases h
    · rename_i es hout
      rw [hout] at hc
      simp only [Bool.and_eq_true] at hc
      obtain ⟨this, hcn⟩ := collect_raw rest
        { st with moduleFiles := AList.insert f.name (splitLines f.contents) st.moduleFiles,
                  errors := st.errors ++ es.map .syn } r seen hs h hc.2
      refine ⟨?_, ?_⟩
      · rw [this]
        simp [fileRaw, fileBaseDefs, hout]
      · intro x; rw [hcn x]; simp [fileCondNames, hout]
    · rename_i mdl exts hout
      rw [hout] at hc
      simp only [Bool.and_eq_true] at hc
      obtain ⟨⟨hcT, hcC⟩, hcR⟩ := hc
      let st0 : MState := { st with moduleFiles := AList.insert f.name (splitLines f.contents) st.moduleFiles }
      obtain ⟨_, ht1, hcond1, _⟩ := collectTypes_spec f.name (splitLines f.contents) exts mdl.types 0 st0
      have hs1 : ∀ x, AList.contains x (collectTypes f.name (splitLines f.contents) exts mdl.types 0 st0).conditions = seen.contains x := by
        intro x; rw [hcond1]; exact hs x
      obtain ⟨_, hk2, hty2, hraw2, _, _⟩ := collectConds_spec f.name (splitLines f.contents) mdl.conds
        (collectTypes f.name (splitLines f.contents) exts mdl.types 0 st0) seen hs1
      have htypes : (collectConds f.name (splitLines f.contents) mdl.conds
          (collectTypes f.name (splitLines f.contents) exts mdl.types 0 st0)).types =
            st.types ++ (baseDefs exts mdl.types 0).map (·.name) := by
        rw [hty2]; exact (ht1 hcT).1
      obtain ⟨this, hcn⟩ := collect_raw rest _ r _ (hk2 hcC) h (by rw [htypes]; exact hcR)
      refine ⟨?_, ?_⟩
      · rw [this, hraw2, (ht1 hcT).2]
        simp [fileRaw, fileBaseDefs, hout, st0]
      · intro x; rw [hcn x]; simp [fileCondNames, hout]

theorem collect_ok (fs : List FileIn) (st : MState) (h : ∀ f ∈ fs, ∀ p, f.outcome ≠ .panic p) :
    ∃ r, collect fs st = .ok r := by
  induction fs generalizing st with
  | nil => exact ⟨st, rfl⟩
  | cons f rest ih =>
    simp only [collect]
    split
    · rename_i p hp; exact absurd hp (h f (by simp) p)
    · exact ih _ (fun f' hf' => h f' (by simp [hf']))
    · exact ih _ (fun f' hf' => h f' (by simp [hf']))

end FgaVerif.Model.Merge
