import FgaVerif.Proofs.WGraph
/-! Every edge of a built weighted graph ends in a node of the graph: an invariant of the
    construction (`Build` before `AssignWeights`), carried through `GetOrAddNode`, `AddEdge`,
    `UpsertEdge` and the recursion over the rewrite.  It is what the analysis of the ported
    rewrite-cycle pre-pass needs (`Proofs/WAssignCycle.lean`, `RClosed`). -/
namespace FgaVerif.Model.WGraph
open FgaVerif.Model

def lbls (g : G) : List String := g.nodes.map (·.uniqueLabel)

/-- every edge ends in a node of the graph -/
def DstIn (g : G) : Prop := ∀ src, ∀ e ∈ edgesOf g src, e.dst ∈ lbls g

theorem DstIn.empty : DstIn {} := by
  intro src e he
  simp [edgesOf] at he

theorem Step.lbls_mono {g g' : G} (h : Step g g') (l : String) (hl : l ∈ lbls g) : l ∈ lbls g' :=
  h.ext.label_mono l hl

theorem getOrAddNode_dst (g : G) (ul label : String) (t : NodeType) (h : DstIn g) :
    DstIn (getOrAddNode g ul label t).1 := by
  intro src e he
  rw [edgesOf_getOrAddNode] at he
  exact (getOrAddNode_step g ul label t).lbls_mono _ (h src e he)

theorem addEdge_dst (g : G) (src dst : String) (t : EdgeType) (ts : String) (h : DstIn g) (hd : dst ∈ lbls g) :
    DstIn (addEdge g src dst t ts) := by
  intro s e he
  unfold addEdge at he ⊢
  have hn : lbls (setEdges g src (edgesOf g src ++ [⟨src, dst, t, ts, ["none"]⟩])) = lbls g := by
    unfold lbls; rw [nodes_setEdges]
  rw [hn]
  by_cases hs : s = src
  · subst hs
    rw [edgesOf_setEdges_same] at he
    rcases List.mem_append.1 he with he | he
    · exact h s e he
    · simp only [List.mem_singleton] at he; subst he; exact hd
  · rw [edgesOf_setEdges_other _ _ _ _ hs] at he
    exact h s e he

theorem upsertEdge_dst (g : G) (src dst : String) (t : EdgeType) (ts cond : String) (h : DstIn g) (hd : dst ∈ lbls g) :
    DstIn (upsertEdge g src dst t ts cond) := by
  intro s e he
  have hn : lbls (upsertEdge g src dst t ts cond) = lbls g := by unfold lbls; rw [nodes_upsert]
  rw [hn]
  by_cases hs : s = src
  · subst hs
    rw [edgesOf_upsert_same] at he
    rcases upsertL_mem _ _ _ _ _ _ _ he with ⟨e0, he0, hk, _⟩ | ⟨hk, _⟩
    · have : e.dst = e0.dst := by
        have := congrArg Prod.fst hk
        simpa [key] using this
      rw [this]; exact h s e0 he0
    · have : e.dst = dst := by
        have := congrArg Prod.fst hk
        simpa [key] using this
      rw [this]; exact hd
  · rw [edgesOf_upsert_other _ _ _ _ _ _ _ hs] at he
    exact h s e he

theorem thisStep_dst (parent : String) (r : RelRef) (g : G) (h : DstIn g) : DstIn (thisStep parent r g) := by
  rw [thisStep_eq]
  exact upsertEdge_dst _ _ _ _ _ _ (getOrAddNode_dst _ _ _ _ h) (getOrAddNode_mem _ _ _ _)

theorem parseThisRefs_dst (parent : String) (refs : List RelRef) (g : G) (h : DstIn g) :
    DstIn (parseThisRefs parent refs g) := by
  induction refs generalizing g with
  | nil => exact h
  | cons r rest ih => rw [parseThisRefs_cons]; exact ih _ (thisStep_dst parent r g h)

theorem ttuStep_dst (td : TypeDef) (parent ts cu : String) (r : RelRef) (g : G) (h : DstIn g) :
    DstIn (ttuStep td parent ts cu r g) := by
  unfold ttuStep
  simp only
  split
  · exact getOrAddNode_dst _ _ _ _ h
  · refine upsertEdge_dst _ _ _ _ _ _ (getOrAddNode_dst _ _ _ _ h) ?_
    rw [getOrAddNode_label]
    exact getOrAddNode_mem _ _ _ _

theorem parseTTURefs_dst (m : Model) (td : TypeDef) (parent ts cu : String) (refs : List RelRef) (g g' : G)
    (h : parseTTURefs m td parent ts cu refs g = .ok g') (hd : DstIn g) : DstIn g' := by
  induction refs generalizing g with
  | nil => simp only [parseTTURefs, Except.ok.injEq] at h; subst h; exact hd
  | cons r rest ih =>
    rw [parseTTURefs_cons] at h
    split at h
    · cases h
    · exact ih _ h (ttuStep_dst td parent ts cu r g hd)

theorem mkOp_dst (g : G) (parent op : String) (h : DstIn g) : DstIn (mkOp g parent op).1 := by
  unfold mkOp
  simp only
  have h0 : DstIn { g with opCount := g.opCount + 1 } := h
  refine addEdge_dst _ _ _ _ _ (getOrAddNode_dst _ _ _ _ h0) ?_
  rw [getOrAddNode_label]
  exact getOrAddNode_mem _ _ _ _

mutual
  theorem parseRewrite_dst (m : Model) (td : TypeDef) (rel : String) :
      ∀ (u : Userset) (parent : String) (pr : Bool) (g g' : G),
        parseRewrite m td rel parent pr u g = .ok g' → DstIn g → DstIn g'
    | .this, parent, pr, g, g', h, hd => by
      simp only [parseRewrite] at h
      split at h
      · simp only [Except.ok.injEq] at h; subst h; exact parseThisRefs_dst _ _ _ hd
      · simp only [Except.ok.injEq] at h; subst h; exact hd
    | .computed r, parent, pr, g, g', h, hd => by
      simp only [parseRewrite, Except.ok.injEq] at h
      subst h
      refine addEdge_dst _ _ _ _ _ (getOrAddNode_dst _ _ _ _ hd) ?_
      rw [getOrAddNode_label]
      exact getOrAddNode_mem _ _ _ _
    | .ttu ts cu, parent, pr, g, g', h, hd => by
      simp only [parseRewrite] at h
      split at h
      · cases h
      · split at h
        · cases h
        · exact parseTTURefs_dst _ _ _ _ _ _ _ _ h hd
    | .union cs, parent, pr, g, g', h, hd => by
      simp only [parseRewrite] at h
      exact parseChildren_dst m td rel cs _ _ _ h (mkOp_dst g parent "union" hd)
    | .inter cs, parent, pr, g, g', h, hd => by
      simp only [parseRewrite] at h
      exact parseChildren_dst m td rel cs _ _ _ h (mkOp_dst g parent "intersection" hd)
    | .diff b s, parent, pr, g, g', h, hd => by
      simp only [parseRewrite] at h
      split at h
      · cases h
      · rename_i g1 hb
        exact parseRewrite_dst m td rel s _ _ _ _ h
          (parseRewrite_dst m td rel b _ _ _ _ hb (mkOp_dst g parent "exclusion" hd))
    | .nil, parent, pr, g, g', h, hd => by
      simp only [parseRewrite, Except.ok.injEq] at h
      subst h; exact mkOp_dst g parent "" hd
  theorem parseChildren_dst (m : Model) (td : TypeDef) (rel : String) :
      ∀ (cs : List Userset) (parent : String) (g g' : G),
        parseChildren m td rel parent cs g = .ok g' → DstIn g → DstIn g'
    | [], parent, g, g', h, hd => by
      simp only [parseChildren, Except.ok.injEq] at h; subst h; exact hd
    | c :: cs, parent, g, g', h, hd => by
      simp only [parseChildren] at h
      split at h
      · cases h
      · rename_i g1 hc
        exact parseChildren_dst m td rel cs _ _ _ h (parseRewrite_dst m td rel c _ _ _ _ hc hd)
end

theorem buildRelations_dst (m : Model) (td : TypeDef) (rels : List (String × Userset)) (g g' : G)
    (h : buildRelations m td rels g = .ok g') (hd : DstIn g) : DstIn g' := by
  induction rels generalizing g with
  | nil => simp only [buildRelations, Except.ok.injEq] at h; subst h; exact hd
  | cons ru rest ih =>
    obtain ⟨rel, u⟩ := ru
    simp only [buildRelations] at h
    split at h
    · cases h
    · rename_i g1 hr
      exact ih _ h (parseRewrite_dst m td rel u _ _ _ _ hr (getOrAddNode_dst _ _ _ _ hd))

theorem buildTypes_dst (m : Model) (tds : List TypeDef) (g g' : G)
    (h : buildTypes m tds g = .ok g') (hd : DstIn g) : DstIn g' := by
  induction tds generalizing g with
  | nil => simp only [buildTypes, Except.ok.injEq] at h; subst h; exact hd
  | cons td rest ih =>
    simp only [buildTypes] at h
    split at h
    · cases h
    · rename_i g1 hr
      exact ih _ h (buildRelations_dst m td td.relations _ _ hr (getOrAddNode_dst _ _ _ _ hd))

/-- **every edge of a built graph ends in one of its nodes** -/
theorem build_dst (m : Model) (g : G) (h : build m = .ok g) : DstIn g :=
  buildTypes_dst m _ _ _ h DstIn.empty

end FgaVerif.Model.WGraph
