import FgaVerif.Model.CstParse
/-! The listener's result does not depend on token positions, except for the positions recorded in the
    error log: erasing all positions from the tree and from the log commutes with every callback and
    with the walk. -/
namespace FgaVerif.Model.Cst
open FgaVerif.Model FgaVerif.Model.Listener

/-- forget the positions in the error log -/
def stripSt (st : LState) : LState :=
  { st with errors := st.errors.map (fun e => { e with line := 0, col := 0 }) }

def stripR : R → R
  | .ok st => .ok (stripSt st)
  | .error p => .error p

theorem erasePosL_eq_map (cs : List Tree) : erasePosL cs = cs.map erasePos := by
  induction cs with
  | nil => rfl
  | cons c cs ih => simp [erasePosL, ih]

mutual
  theorem text_erasePos : (t : Tree) → (erasePos t).text = t.text
    | .tok _ _ _ _ _ => rfl
    | .rule _ _ _ _ cs => by simp only [erasePos, Tree.text]; exact textL_erasePosL cs
  theorem textL_erasePosL : (cs : List Tree) → Tree.textL (erasePosL cs) = Tree.textL cs
    | [] => rfl
    | c :: cs => by simp only [erasePosL, Tree.textL, text_erasePos c, textL_erasePosL cs]
end

theorem isRule_erasePos (n : String) (t : Tree) : Tree.isRule n (erasePos t) = Tree.isRule n t := by
  cases t <;> rfl
theorem isTok_erasePos (n : String) (t : Tree) : Tree.isTok n (erasePos t) = Tree.isTok n t := by
  cases t <;> rfl

theorem children_erasePos (t : Tree) : (erasePos t).children = t.children.map erasePos := by
  cases t with
  | tok => rfl
  | rule _ _ _ _ cs => simp [erasePos, Tree.children, erasePosL_eq_map]

theorem labels_erasePos (t : Tree) : (erasePos t).labels = t.labels := by cases t <;> rfl

theorem find?_map_erasePos (p : Tree → Bool) (hp : ∀ t, p (erasePos t) = p t) (cs : List Tree) :
    (cs.map erasePos).find? p = (cs.find? p).map erasePos := by
  induction cs with
  | nil => rfl
  | cons c cs ih =>
    simp only [List.map_cons, List.find?_cons, hp c]
    cases p c <;> simp [ih]

theorem childRule?_erasePos (t : Tree) (n : String) :
    (erasePos t).childRule? n = (t.childRule? n).map erasePos := by
  unfold Tree.childRule?
  rw [children_erasePos]
  exact find?_map_erasePos _ (isRule_erasePos n) _

theorem childTok?_erasePos (t : Tree) (n : String) :
    (erasePos t).childTok? n = (t.childTok? n).map erasePos := by
  unfold Tree.childTok?
  rw [children_erasePos]
  exact find?_map_erasePos _ (isTok_erasePos n) _

theorem childToks_erasePos (t : Tree) (n : String) :
    (erasePos t).childToks n = (t.childToks n).map erasePos := by
  unfold Tree.childToks
  rw [children_erasePos]
  induction t.children with
  | nil => rfl
  | cons c cs ih =>
    simp only [List.map_cons, List.filter_cons, isTok_erasePos]
    split <;> simp [ih]

theorem label?_erasePos (t : Tree) (l : String) :
    (erasePos t).label? l = (t.label? l).map erasePos := by
  unfold Tree.label?
  rw [labels_erasePos, children_erasePos]
  cases Tree.findLabel l t.labels with
  | none => rfl
  | some i => simp

theorem stripSt_notify (st : LState) (msg : String) (a b : Tree) :
    stripSt (notify st msg a) = stripSt (notify (stripSt st) msg b) := by
  simp [stripSt, notify]

theorem stripSt_idem (st : LState) : stripSt (stripSt st) = stripSt st := by
  simp [stripSt]

end FgaVerif.Model.Cst

namespace FgaVerif.Model.Cst
open FgaVerif.Model FgaVerif.Model.Listener

/-- a callback commutes with erasing positions -/
def Comm (cb : Tree → LState → R) : Prop :=
  ∀ ctx st, stripR (cb ctx st) = stripR (cb (erasePos ctx) (stripSt st))

theorem stripR_withRelation (st : LState) (what : String) (f : Relation → Relation) :
    stripR (withRelation st what f) = stripR (withRelation (stripSt st) what f) := by
  unfold withRelation
  show stripR (match st.currentRelation with | none => _ | some cr => _) =
       stripR (match st.currentRelation with | none => _ | some cr => _)
  cases st.currentRelation <;> simp [stripR, stripSt]

theorem comm_exitRewrite : Comm exitRelationDefRewrite := by
  intro ctx st
  unfold exitRelationDefRewrite
  simp only [label?_erasePos]
  cases ctx.label? "rewriteComputedusersetName" with
  | none => rfl
  | some cu =>
    simp only [Option.map_some, text_erasePos]
    cases ctx.label? "rewriteTuplesetName" with
    | none => exact stripR_withRelation st _ _
    | some ts => simp only [Option.map_some, text_erasePos]; exact stripR_withRelation st _ _


/-- the same for a callback that does not look at its context -/
def Comm0 (cb : LState → R) : Prop := ∀ st, stripR (cb st) = stripR (cb (stripSt st))

theorem comm_enterMain : Comm0 enterMain := fun st => by simp [enterMain, stripR, stripSt]
theorem comm_enterConditions : Comm0 enterConditions := fun st => by simp [enterConditions, stripR, stripSt]
theorem comm_enterRelationDeclaration : Comm0 enterRelationDeclaration := fun st => by
  simp [enterRelationDeclaration, stripR, stripSt]
theorem comm_enterDirect : Comm0 enterRelationDefDirectAssignment := fun st => stripR_withRelation st _ _
theorem comm_exitDirect : Comm0 exitRelationDefDirectAssignment := fun st => stripR_withRelation st _ _

theorem comm_exitCondition : Comm0 exitCondition := by
  intro st
  unfold exitCondition
  show stripR (match st.currentCondition with | some c => _ | none => _) =
       stripR (match st.currentCondition with | some c => _ | none => _)
  cases st.currentCondition <;> simp [stripR, stripSt]

theorem comm_exitRelationRecurse : Comm0 exitRelationRecurse := by
  intro st
  unfold exitRelationRecurse
  show stripR (match st.currentRelation with | none => _ | some cr => _) =
       stripR (match st.currentRelation with | none => _ | some cr => _)
  cases st.currentRelation with
  | none => simp [stripR, stripSt]
  | some cr =>
    simp only
    cases parseExpression cr.rewrites cr.operator <;> simp [stripR, stripSt]

theorem comm_enterRecurseNoDirect : Comm0 enterRelationRecurseNoDirect := by
  intro st
  unfold enterRelationRecurseNoDirect
  show stripR (match st.rewriteStack with | some stack => _ | none => _) =
       stripR (match st.rewriteStack with | some stack => _ | none => _)
  cases st.rewriteStack with
  | none => exact stripR_withRelation st _ _
  | some stack =>
    show stripR (match st.currentRelation with | none => _ | some cr => _) =
         stripR (match st.currentRelation with | none => _ | some cr => _)
    cases st.currentRelation <;> simp [stripR, stripSt]

theorem comm_exitRecurseNoDirect : Comm0 exitRelationRecurseNoDirect := by
  intro st
  unfold exitRelationRecurseNoDirect
  have e1 : (stripSt st).currentRelation = st.currentRelation := rfl
  have e2 : (stripSt st).rewriteStack = st.rewriteStack := rfl
  rw [e1, e2]
  cases hcr : st.currentRelation with
  | none => simp [stripR, stripSt_idem]
  | some cr =>
    simp only
    cases hs : st.rewriteStack with
    | none => rfl
    | some stack =>
      cases stack with
      | nil => rfl
      | cons popped rest =>
        simp only
        cases parseExpression cr.rewrites cr.operator <;> simp [stripR, stripSt]

theorem comm_exitModuleHeader : Comm exitModuleHeader := by
  intro ctx st
  unfold exitModuleHeader
  simp only [label?_erasePos]
  cases ctx.label? "moduleName" <;> simp [stripR, stripSt, text_erasePos]

theorem comm_exitModelHeader : Comm exitModelHeader := by
  intro ctx st
  unfold exitModelHeader
  simp only [label?_erasePos]
  cases ctx.label? "schemaVersion" <;> simp [stripR, stripSt, text_erasePos]

theorem comm_enterTypeDef : Comm enterTypeDef := by
  intro ctx st
  unfold enterTypeDef
  simp only [label?_erasePos, childTok?_erasePos]
  cases ctx.label? "typeName" with
  | none => simp [stripR, stripSt_idem]
  | some tn =>
    simp only [Option.map_some, text_erasePos, Option.isSome_map]
    show stripR (Except.ok _) = stripR (Except.ok _)
    by_cases h : ((ctx.childTok? "EXTEND").isSome && !st.isModular) = true
    · have h' : ((ctx.childTok? "EXTEND").isSome && !(stripSt st).isModular) = true := h
      simp only [h, h', if_true]
      simp [stripR, stripSt, notify]
      rfl
    · have h' : ¬ ((ctx.childTok? "EXTEND").isSome && !(stripSt st).isModular) = true := h
      simp only [h, h']
      simp [stripR, stripSt]
      try rfl

theorem comm_enterCondition : Comm enterCondition := by
  intro ctx st
  unfold enterCondition
  simp only [childRule?_erasePos]
  cases ctx.childRule? "conditionName" with
  | none => simp [stripR, stripSt_idem]
  | some cn =>
    simp only [Option.map_some, text_erasePos]
    show stripR (Except.ok _) = stripR (Except.ok _)
    by_cases h : AList.contains cn.text st.conds = true
    · have h' : AList.contains cn.text (stripSt st).conds = true := h
      simp only [h, h', if_true]
      simp [stripR, stripSt, notify]
      rfl
    · have h' : ¬ AList.contains cn.text (stripSt st).conds = true := h
      simp only [h, h']
      simp [stripR, stripSt]
      try rfl

theorem comm_exitConditionExpression : Comm exitConditionExpression := by
  intro ctx st
  unfold exitConditionExpression
  show stripR (match st.currentCondition with | none => _ | some c => _) =
       stripR (match st.currentCondition with | none => _ | some c => _)
  cases st.currentCondition <;> simp [stripR, stripSt, text_erasePos]

theorem comm_exitRestriction : Comm exitRelationDefTypeRestriction := by
  intro ctx st
  unfold exitRelationDefTypeRestriction
  simp only [childRule?_erasePos]
  cases ctx.childRule? "relationDefTypeRestrictionBase" with
  | none => simp [stripR, stripSt_idem]
  | some base =>
    simp only [Option.map_some, label?_erasePos, Option.map_map, Option.isSome_map]
    have ht : ∀ (o : Option Tree), Option.map ((fun x => x.text) ∘ erasePos) o = Option.map (fun x => x.text) o := by
      intro o; cases o <;> simp [text_erasePos]
    simp only [ht]
    exact stripR_withRelation st _ _

theorem comm_enterPartials : Comm enterRelationDefPartials := by
  intro ctx st
  unfold enterRelationDefPartials
  simp only [childToks_erasePos, childTok?_erasePos, List.isEmpty_map, Option.isSome_map]
  split
  · simp [stripR, stripSt_idem]
  · exact stripR_withRelation st _ _


theorem comm_exitConditionParameter : Comm exitConditionParameter := by
  intro ctx st
  unfold exitConditionParameter
  simp only [childRule?_erasePos]
  cases hpn : ctx.childRule? "parameterName" with
  | none => simp [stripR, stripSt_idem]
  | some pn =>
    cases hpt : ctx.childRule? "parameterType" with
    | none => simp [stripR, stripSt_idem]
    | some pt =>
      simp only [Option.map_some, text_erasePos, childTok?_erasePos]
      have e1 : (stripSt st).currentCondition = st.currentCondition := rfl
      simp only [e1]
      have hgen : ∀ (o : Option Tree), Option.map (fun g => paramTypeName g.text) (Option.map erasePos o) =
          Option.map (fun g => paramTypeName g.text) o := by
        intro o; cases o <;> simp [text_erasePos]
      cases hc : st.currentCondition with
      | none =>
        simp only
        have hc' : (stripSt st).currentCondition = none := hc
        cases pt.childTok? "CONDITION_PARAM_CONTAINER" <;> simp [stripR, AList.contains, AList.find?, hc, hc']
      | some c =>
        simp only
        cases hpc : pt.childTok? "CONDITION_PARAM_CONTAINER" with
        | none =>
          simp only [Option.map_none]
          by_cases hx : AList.contains pn.text c.params = true
          · simp [hx, stripR, stripSt, notify, hc]
          · simp [hx, stripR, stripSt, hc]
        | some pc =>
          simp only [Option.map_some, text_erasePos, hgen]
          by_cases hx : AList.contains pn.text c.params = true
          · simp [hx, stripR, stripSt, notify, hc]
          · simp [hx, stripR, stripSt, hc]


/-- the part of `exitTypeDef` after the definition to record has been fixed -/
theorem comm_exitTypeDef_tail (ctx : Tree) (st : LState) (td2 : TypeDef) :
    stripR (if ((ctx.childTok? "EXTEND").isSome && st.isModular) = true then
        match st.typeDefExtensions with
        | some exts =>
          if AList.contains td2.name exts = true then
            match ctx.label? "typeName" with
            | none => Except.error (Panic.nilDeref "ctx.GetTypeName().GetStart()")
            | some tn => Except.ok { notify { st with types := st.types ++ [td2] } s!"'{td2.name}' is already extended in file." tn with currentTypeDef := none }
          else Except.ok { st with types := st.types ++ [td2], typeDefExtensions := some (AList.insert td2.name st.types.length exts), currentTypeDef := none }
        | none => Except.error (Panic.nilMap "typeDefExtensions")
      else Except.ok { st with types := st.types ++ [td2], currentTypeDef := none }) =
    stripR (if ((ctx.childTok? "EXTEND").isSome && (stripSt st).isModular) = true then
        match (stripSt st).typeDefExtensions with
        | some exts =>
          if AList.contains td2.name exts = true then
            match Option.map erasePos (ctx.label? "typeName") with
            | none => Except.error (Panic.nilDeref "ctx.GetTypeName().GetStart()")
            | some tn => Except.ok { notify { stripSt st with types := (stripSt st).types ++ [td2] } s!"'{td2.name}' is already extended in file." tn with currentTypeDef := none }
          else Except.ok { stripSt st with types := (stripSt st).types ++ [td2], typeDefExtensions := some (AList.insert td2.name (stripSt st).types.length exts), currentTypeDef := none }
        | none => Except.error (Panic.nilMap "typeDefExtensions")
      else Except.ok { stripSt st with types := (stripSt st).types ++ [td2], currentTypeDef := none }) := by
  have e2 : (stripSt st).isModular = st.isModular := rfl
  have e3 : (stripSt st).types = st.types := rfl
  have e4 : (stripSt st).typeDefExtensions = st.typeDefExtensions := rfl
  simp only [e2, e3, e4]
  by_cases hext : ((ctx.childTok? "EXTEND").isSome && st.isModular) = true
  · simp only [hext, if_true]
    cases st.typeDefExtensions with
    | none => rfl
    | some exts =>
      simp only
      by_cases hc : AList.contains td2.name exts = true
      · simp only [hc, if_true]
        cases ctx.label? "typeName" with
        | none => rfl
        | some tn => simp [stripR, stripSt, notify]
      · simp only [hc, Bool.false_eq_true, if_false]
        simp [stripR, stripSt]
  · simp only [hext, Bool.false_eq_true, if_false]
    simp [stripR, stripSt]

theorem comm_exitTypeDef : Comm exitTypeDef := by
  intro ctx st
  unfold exitTypeDef
  have e1 : (stripSt st).currentTypeDef = st.currentTypeDef := rfl
  simp only [e1, childTok?_erasePos, label?_erasePos, Option.isSome_map]
  cases htd : st.currentTypeDef with
  | none => simp [stripR, stripSt_idem]
  | some td =>
    simp only
    by_cases hname : (td.name == "") = true
    · simp [hname, stripR, stripSt_idem]
    · simp only [hname, Bool.false_eq_true, if_false]
      exact comm_exitTypeDef_tail ctx st _

theorem comm_exitRelationDeclaration (pe : Option Bool) : Comm (fun ctx st => exitRelationDeclaration ctx pe st) := by
  intro ctx st
  simp only
  unfold exitRelationDeclaration
  have e1 : (stripSt st).currentTypeDef = st.currentTypeDef := rfl
  have e2 : (stripSt st).isModular = st.isModular := rfl
  have e3 : (stripSt st).currentRelation = st.currentRelation := rfl
  simp only [childRule?_erasePos]
  cases ctx.childRule? "relationName" with
  | none => simp [stripR, stripSt_idem]
  | some rn =>
    simp only [Option.map_some, text_erasePos, e3]
    cases hcr : st.currentRelation with
    | none => rfl
    | some cr =>
      simp only
      cases parseExpression cr.rewrites cr.operator with
      | none => simp [stripR, stripSt]
      | some relationDef =>
        simp only [e1]
        cases htd : st.currentTypeDef with
        | none => simp [stripR, notify, stripSt, htd]
        | some td =>
          simp only
          by_cases hex : AList.contains rn.text td.relations = true
          · simp only [hex, if_true]
            have n1 : ∀ m a, (notify st m a).currentTypeDef = some td := fun _ _ => htd
            have n2 : ∀ m a, (notify (stripSt st) m a).currentTypeDef = some td := fun _ _ => htd
            simp only [n1, n2]
            cases td.md with
            | none => rfl
            | some m => simp [stripR, stripSt, notify]
          · simp only [hex, Bool.false_eq_true, if_false, htd, e1]
            cases td.md with
            | none => rfl
            | some m => simp [stripR, stripSt]


/-! ### dispatch and walk -/

theorem comm_ok : Comm (fun _ st => Except.ok st) := fun _ st => by simp [stripR, stripSt_idem]

theorem comm_enterRule (name : String) : Comm (enterRule name) := by
  intro ctx st
  unfold enterRule
  split
  · exact comm_enterMain st
  · exact comm_enterTypeDef ctx st
  · exact comm_enterConditions st
  · exact comm_enterCondition ctx st
  · exact comm_enterRelationDeclaration st
  · exact comm_enterDirect st
  · exact comm_enterRecurseNoDirect st
  · exact comm_enterPartials ctx st
  · exact comm_ok ctx st

theorem comm_exitRule (name : String) (pe : Option Bool) : Comm (fun ctx st => exitRule name ctx pe st) := by
  intro ctx st
  simp only
  unfold exitRule
  split
  · exact comm_exitModuleHeader ctx st
  · exact comm_exitModelHeader ctx st
  · exact comm_exitConditionParameter ctx st
  · exact comm_exitConditionExpression ctx st
  · exact comm_exitCondition st
  · exact comm_exitTypeDef ctx st
  · exact comm_exitRelationDeclaration pe ctx st
  · exact comm_exitDirect st
  · exact comm_exitRestriction ctx st
  · exact comm_exitRewrite ctx st
  · exact comm_exitRelationRecurse st
  · exact comm_exitRecurseNoDirect st
  · exact comm_ok ctx st

mutual
  theorem erasePos_idem : (t : Tree) → erasePos (erasePos t) = erasePos t
    | .tok _ _ _ _ _ => rfl
    | .rule _ _ _ _ cs => by simp only [erasePos, erasePosL_idem cs]
  theorem erasePosL_idem : (cs : List Tree) → erasePosL (erasePosL cs) = erasePosL cs
    | [] => rfl
    | c :: cs => by simp only [erasePosL, erasePos_idem c, erasePosL_idem cs]
end

/-- a commuting callback gives strip-equal results from strip-equal states -/
theorem Comm.gen {cb : Tree → LState → R} (h : Comm cb) (ctx : Tree) (st st' : LState)
    (hs : stripSt st = stripSt st') : stripR (cb ctx st) = stripR (cb (erasePos ctx) st') := by
  have h1 := h ctx st
  have h2 := h (erasePos ctx) st'
  rw [erasePos_idem] at h2
  rw [h1, h2, hs]

theorem stripR_ok_inv {r : R} {st : LState} (h : stripR r = stripR (.ok st)) :
    ∃ st', r = .ok st' ∧ stripSt st' = stripSt st := by
  cases r with
  | error p => simp [stripR] at h
  | ok st' => exact ⟨st', rfl, by simpa [stripR] using h⟩

theorem stripR_error_inv {r : R} {p : Panic} (h : stripR r = stripR (.error p)) : r = .error p := by
  cases r with
  | error q => simpa [stripR] using h
  | ok st' => simp [stripR] at h

mutual
  /-- **the walk commutes with erasing positions** -/
  theorem walk_strip (pe : Option Bool) : (t : Tree) → ∀ (st st' : LState), stripSt st = stripSt st' →
      stripR (walk pe t st) = stripR (walk pe (erasePos t) st')
    | .tok _ _ _ _ _, st, st', hs => by simp [walk, erasePos, stripR, hs]
    | .rule name sl sc ls cs, st, st', hs => by
      have hen := (comm_enterRule name).gen (.rule name sl sc ls cs) st st' hs
      simp only [erasePos] at hen
      rw [walk, erasePos, walk]
      simp only
      have hpe : ((Tree.rule name 0 0 ls (erasePosL cs)).childTok? "EXTEND").isSome =
          ((Tree.rule name sl sc ls cs).childTok? "EXTEND").isSome := by
        have := childTok?_erasePos (.rule name sl sc ls cs) "EXTEND"
        simp only [erasePos] at this
        rw [this]; simp
      rw [hpe]
      cases h1 : enterRule name (.rule name sl sc ls cs) st with
      | error p =>
        rw [h1] at hen
        rw [stripR_error_inv hen.symm]
      | ok st1 =>
        rw [h1] at hen
        obtain ⟨st1', e1', hs1⟩ := stripR_ok_inv hen.symm
        rw [e1']
        simp only
        have hch := walkL_strip (if name == "typeDef" then some ((Tree.rule name sl sc ls cs).childTok? "EXTEND").isSome else none)
          cs st1 st1' hs1.symm
        cases h2 : walkL (if name == "typeDef" then some ((Tree.rule name sl sc ls cs).childTok? "EXTEND").isSome else none) cs st1 with
        | error p =>
          rw [h2] at hch
          rw [stripR_error_inv hch.symm]
        | ok st2 =>
          rw [h2] at hch
          obtain ⟨st2', e2', hs2⟩ := stripR_ok_inv hch.symm
          rw [e2']
          simp only
          have := (comm_exitRule name pe).gen (.rule name sl sc ls cs) st2 st2' hs2.symm
          simp only [erasePos] at this
          exact this
  theorem walkL_strip (pe : Option Bool) : (ts : List Tree) → ∀ (st st' : LState), stripSt st = stripSt st' →
      stripR (walkL pe ts st) = stripR (walkL pe (erasePosL ts) st')
    | [], st, st', hs => by simp [walkL, erasePosL, stripR, hs]
    | t :: ts, st, st', hs => by
      simp only [walkL, erasePosL]
      have h1 := walk_strip pe t st st' hs
      cases e : walk pe t st with
      | error p =>
        rw [e] at h1
        rw [stripR_error_inv h1.symm]
      | ok st1 =>
        rw [e] at h1
        obtain ⟨st1', e1', hs1⟩ := stripR_ok_inv h1.symm
        rw [e1']
        exact walkL_strip pe ts st1 st1' hs1.symm
end

end FgaVerif.Model.Cst
